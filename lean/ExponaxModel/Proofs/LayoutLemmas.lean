import Mathlib.Tactic
import Mathlib.Data.Int.ModEq
import Mathlib.Data.Nat.Sqrt
import Mathlib.Analysis.Real.Sqrt
import Mathlib.Algebra.BigOperators.Group.List.Basic
import ExponaxModel.Model.Layout
/-
Theorems about the code-mirror of the integer / index logic of
`exponax/_spectral.py` and `exponax/_utils.py` (`ExponaxModel/Model/Layout.lean`).
Nothing here restates a model definition; every statement is about the
definitions of the model file, for all `N` (no bound).
-/
namespace Exponax.Layout

/-! ### L1 — `fftfreq` -/

theorem fftfreq_modEq (N i : ℕ) : fftfreq N i ≡ (i : ℤ) [ZMOD (N : ℤ)] := by
  unfold fftfreq
  split_ifs
  · exact Int.ModEq.refl _
  · exact (Int.modEq_iff_dvd.2 ⟨1, by ring⟩)

theorem fftfreq_lower (N i : ℕ) (hi : i < N) :
    -((N / 2 : ℕ) : ℤ) ≤ fftfreq N i := by
  unfold fftfreq
  split_ifs <;> omega

theorem fftfreq_upper (N i : ℕ) (hi : i < N) :
    fftfreq N i ≤ (((N - 1) / 2 : ℕ) : ℤ) := by
  unfold fftfreq
  split_ifs <;> omega

/-- the same bounds with integer division of the integer `N` -/
theorem fftfreq_bounds_int (N i : ℕ) (hN : 0 < N) (hi : i < N) :
    -((N : ℤ) / 2) ≤ fftfreq N i ∧ fftfreq N i ≤ ((N : ℤ) - 1) / 2 := by
  have h1 := fftfreq_lower N i hi
  have h2 := fftfreq_upper N i hi
  constructor <;> omega

theorem fftfreq_abs_le (N i : ℕ) (hN : 0 < N) (hi : i < N) :
    |fftfreq N i| ≤ ((N / 2 : ℕ) : ℤ) := by
  have h1 := fftfreq_lower N i hi
  have h2 := fftfreq_upper N i hi
  rw [abs_le]
  constructor <;> omega

theorem fftfreq_injOn (N i j : ℕ) (hi : i < N) (hj : j < N)
    (h : fftfreq N i = fftfreq N j) : i = j := by
  unfold fftfreq at h
  split_ifs at h <;> omega

theorem fftfreq_eq_zero_iff (N i : ℕ) (hi : i < N) : fftfreq N i = 0 ↔ i = 0 := by
  unfold fftfreq
  split_ifs <;> omega

/-- the non-negative frequencies are stored first -/
theorem fftfreq_nonneg_iff (N i : ℕ) (hi : i < N) : 0 ≤ fftfreq N i ↔ i ≤ (N - 1) / 2 := by
  unfold fftfreq
  split_ifs <;> omega

theorem fftfreq_nonneg_iff' (N i : ℕ) (hi : i < N) : 0 ≤ fftfreq N i ↔ i < (N + 1) / 2 := by
  rw [fftfreq_nonneg_iff N i hi]; omega

/-- for even `N` the Nyquist entry carries the *negative* wavenumber `−N/2` -/
theorem fftfreq_nyquist (N : ℕ) (hN : 0 < N) (heven : N % 2 = 0) :
    fftfreq N (N / 2) = -((N / 2 : ℕ) : ℤ) := by
  unfold fftfreq
  split_ifs <;> omega

theorem fftfreq_abs_eq_nyquist_iff (N i : ℕ) (hi : i < N) (heven : N % 2 = 0) :
    |fftfreq N i| = ((N / 2 : ℕ) : ℤ) ↔ i = N / 2 := by
  unfold fftfreq
  split_ifs
  · rw [abs_of_nonneg (by omega)]; omega
  · rw [abs_of_nonpos (by omega)]; omega

/-- for odd `N` no entry reaches `N/2 + 1/2`; all satisfy `|k| ≤ (N-1)/2` -/
theorem fftfreq_abs_le_odd (N i : ℕ) (hi : i < N) (hodd : N % 2 = 1) :
    |fftfreq N i| ≤ (((N - 1) / 2 : ℕ) : ℤ) := by
  have h1 := fftfreq_lower N i hi
  have h2 := fftfreq_upper N i hi
  rw [abs_le]
  constructor <;> omega

/-- explicit inverse of `fftfreq N` on its range -/
def fftfreqInv (N : ℕ) (k : ℤ) : ℕ := if 0 ≤ k then k.toNat else (k + (N : ℤ)).toNat

theorem fftfreqInv_lt (N : ℕ) (k : ℤ) (hN : 0 < N) (hlo : -((N / 2 : ℕ) : ℤ) ≤ k)
    (hhi : k ≤ (((N - 1) / 2 : ℕ) : ℤ)) : fftfreqInv N k < N := by
  unfold fftfreqInv
  split_ifs <;> omega

theorem fftfreq_fftfreqInv (N : ℕ) (k : ℤ) (hN : 0 < N) (hlo : -((N / 2 : ℕ) : ℤ) ≤ k)
    (hhi : k ≤ (((N - 1) / 2 : ℕ) : ℤ)) : fftfreq N (fftfreqInv N k) = k := by
  unfold fftfreqInv fftfreq
  split_ifs <;> omega

theorem fftfreqInv_fftfreq (N i : ℕ) (hi : i < N) : fftfreqInv N (fftfreq N i) = i := by
  unfold fftfreqInv fftfreq
  split_ifs <;> omega

/-- every integer of the symmetric range is the wavenumber of exactly one index -/
theorem fftfreq_existsUnique (N : ℕ) (k : ℤ) (hN : 0 < N) (hlo : -((N / 2 : ℕ) : ℤ) ≤ k)
    (hhi : k ≤ (((N - 1) / 2 : ℕ) : ℤ)) : ∃! i, i < N ∧ fftfreq N i = k := by
  refine ⟨fftfreqInv N k, ⟨fftfreqInv_lt N k hN hlo hhi, fftfreq_fftfreqInv N k hN hlo hhi⟩, ?_⟩
  rintro j ⟨hj, rfl⟩
  exact (fftfreqInv_fftfreq N j hj).symm

/-- the index of wavenumber `k` is `k` if `k ≥ 0` and `k + N` otherwise -/
theorem fftfreq_eq_iff (N i : ℕ) (k : ℤ) (hN : 0 < N) (hi : i < N)
    (hlo : -((N / 2 : ℕ) : ℤ) ≤ k) (hhi : k ≤ (((N - 1) / 2 : ℕ) : ℤ)) :
    fftfreq N i = k ↔ (i : ℤ) = if 0 ≤ k then k else k + (N : ℤ) := by
  unfold fftfreq
  split_ifs <;> omega

/-- the stored wavenumbers are exactly the residues of smallest absolute value -/
theorem fftfreq_range_iff (N : ℕ) (k : ℤ) (hN : 0 < N) :
    (∃ i, i < N ∧ fftfreq N i = k) ↔
      -((N / 2 : ℕ) : ℤ) ≤ k ∧ k ≤ (((N - 1) / 2 : ℕ) : ℤ) := by
  constructor
  · rintro ⟨i, hi, rfl⟩
    exact ⟨fftfreq_lower N i hi, fftfreq_upper N i hi⟩
  · rintro ⟨h1, h2⟩
    exact ⟨fftfreqInv N k, fftfreqInv_lt N k hN h1 h2, fftfreq_fftfreqInv N k hN h1 h2⟩

/-! ### L2 — low-pass masks -/

theorem foldl_add_eq_sum (l : List ℤ) : l.foldl (· + ·) 0 = l.sum := by
  have h : ∀ (a : ℤ) (l : List ℤ), List.foldl (· + ·) a l = a + l.sum := by
    intro a l
    induction l generalizing a with
    | nil => simp
    | cons x xs ih => simp [ih, add_assoc]
  simpa using h 0 l

theorem normSq_eq_sum (k : List ℤ) : normSq k = (k.map (fun kd => kd ^ 2)).sum := by
  unfold normSq
  rw [foldl_add_eq_sum]
  congr 1
  apply List.map_congr_left
  intro a _
  ring

theorem normSq_nil : normSq [] = 0 := rfl

theorem normSq_cons (a : ℤ) (k : List ℤ) : normSq (a :: k) = a ^ 2 + normSq k := by
  simp [normSq_eq_sum]

theorem normSq_nonneg (k : List ℤ) : 0 ≤ normSq k := by
  induction k with
  | nil => simp [normSq_nil]
  | cons a k ih => rw [normSq_cons]; positivity

theorem normSq_eq_zero_iff (k : List ℤ) : normSq k = 0 ↔ ∀ kd ∈ k, kd = 0 := by
  induction k with
  | nil => simp [normSq_nil]
  | cons a k ih =>
    rw [normSq_cons]
    have h1 := normSq_nonneg k
    have h2 : 0 ≤ a ^ 2 := by positivity
    constructor
    · intro h
      have ha : a ^ 2 = 0 := by omega
      have hk : normSq k = 0 := by omega
      intro kd hkd
      rcases List.mem_cons.1 hkd with rfl | hmem
      · exact pow_eq_zero_iff (by norm_num) |>.1 ha
      · exact ih.1 hk kd hmem
    · intro h
      have ha : a = 0 := h a (by simp)
      have hk : normSq k = 0 := ih.2 (fun kd hkd => h kd (by simp [hkd]))
      rw [ha, hk]; norm_num

theorem absLe_iff (k p q : ℤ) : absLe k p q = true ↔ |k| * q ≤ p := by
  simp [absLe]

theorem lowPassSep_iff (k : List ℤ) (p q : ℤ) :
    lowPassSep k p q = true ↔ ∀ kd ∈ k, |kd| * q ≤ p := by
  simp [lowPassSep, List.all_eq_true, absLe_iff]

theorem lowPassSphere_iff (k : List ℤ) (c : ℤ) :
    lowPassSphere k c = true ↔ 0 ≤ c ∧ (k.map (fun kd => kd ^ 2)).sum ≤ c ^ 2 := by
  have h := normSq_eq_sum k
  unfold normSq at h
  simp only [lowPassSphere, Bool.and_eq_true, decide_eq_true_eq, h, sq]

theorem lowPassSphere_iff_normSq (k : List ℤ) (c : ℤ) :
    lowPassSphere k c = true ↔ 0 ≤ c ∧ normSq k ≤ c ^ 2 := by
  rw [lowPassSphere_iff, normSq_eq_sum]

/-! ### L3 — dealiasing cut-offs and the oddball mask -/

/-- a multiple of `N` of absolute value `< N` vanishes -/
theorem eq_zero_of_dvd_of_abs_lt (N : ℕ) (x : ℤ) (hd : (N : ℤ) ∣ x) (hx : |x| < (N : ℤ)) :
    x = 0 :=
  Int.eq_zero_of_abs_lt_dvd hd hx

/-- quadratic products of fields band-limited to `|k| ≤ K` with `3K < N` do not alias back -/
theorem no_alias_quadratic (N : ℕ) (K : ℤ) (hK : 3 * K < (N : ℤ)) (a b c : ℤ)
    (ha : |a| ≤ K) (hb : |b| ≤ K) (hc : |c| ≤ K) (hd : (N : ℤ) ∣ (a + b - c)) : a + b = c := by
  rw [abs_le] at ha hb hc
  have : a + b - c = 0 := by
    apply eq_zero_of_dvd_of_abs_lt N _ hd
    rw [abs_lt]; constructor <;> omega
  omega

/-- cubic products of fields band-limited to `|k| ≤ K` with `4K < N` do not alias back -/
theorem no_alias_cubic (N : ℕ) (K : ℤ) (hK : 4 * K < (N : ℤ)) (a b c d : ℤ)
    (ha : |a| ≤ K) (hb : |b| ≤ K) (hc : |c| ≤ K) (hdd : |d| ≤ K)
    (hd : (N : ℤ) ∣ (a + b + c - d)) : a + b + c = d := by
  rw [abs_le] at ha hb hc hdd
  have : a + b + c - d = 0 := by
    apply eq_zero_of_dvd_of_abs_lt N _ hd
    rw [abs_lt]; constructor <;> omega
  omega

theorem dealiasCutoff_two_thirds (N : ℕ) :
    dealiasCutoff N 2 3 = (2 * ((N / 2 : ℕ) : ℤ) - 3, 3) := rfl

theorem dealiasCutoff_half (N : ℕ) :
    dealiasCutoff N 1 2 = (1 * ((N / 2 : ℕ) : ℤ) - 2, 2) := rfl

/-- the 2/3 rule: a retained magnitude `K` satisfies `3K < N` (and `2K < N`) -/
theorem dealias_two_thirds_bound (N : ℕ) (K : ℤ)
    (hK : K * (dealiasCutoff N 2 3).2 ≤ (dealiasCutoff N 2 3).1) :
    3 * K < (N : ℤ) ∧ 2 * K < (N : ℤ) := by
  simp only [dealiasCutoff] at hK
  constructor <;> omega

theorem dealias_two_thirds_no_alias (N : ℕ) (K : ℤ)
    (hK : K * (dealiasCutoff N 2 3).2 ≤ (dealiasCutoff N 2 3).1) :
    ∀ a b c : ℤ, |a| ≤ K → |b| ≤ K → |c| ≤ K → (N : ℤ) ∣ (a + b - c) → a + b = c :=
  fun a b c ha hb hc hd =>
    no_alias_quadratic N K (dealias_two_thirds_bound N K hK).1 a b c ha hb hc hd

/-- the 1/2 rule: a retained magnitude `K` satisfies `4K < N` -/
theorem dealias_half_bound (N : ℕ) (K : ℤ)
    (hK : K * (dealiasCutoff N 1 2).2 ≤ (dealiasCutoff N 1 2).1) :
    4 * K < (N : ℤ) := by
  simp only [dealiasCutoff] at hK
  omega

theorem dealias_half_no_alias (N : ℕ) (K : ℤ)
    (hK : K * (dealiasCutoff N 1 2).2 ≤ (dealiasCutoff N 1 2).1) :
    ∀ a b c d : ℤ, |a| ≤ K → |b| ≤ K → |c| ≤ K → |d| ≤ K →
      (N : ℤ) ∣ (a + b + c - d) → a + b + c = d :=
  fun a b c d ha hb hc hdd hd =>
    no_alias_cubic N K (dealias_half_bound N K hK) a b c d ha hb hc hdd hd

theorem dealiasMask_iff (N fp fq : ℕ) (k : List ℤ) :
    dealiasMask N fp fq k = true ↔
      ∀ kd ∈ k, |kd| * (fq : ℤ) ≤ (fp : ℤ) * ((N / 2 : ℕ) : ℤ) - (fq : ℤ) := by
  simp [dealiasMask, dealiasCutoff, lowPassSep_iff]

/-- modes kept by the 2/3 mask: any three kept wavenumber entries cannot alias -/
theorem dealiasMask_two_thirds_no_alias (N : ℕ) (k1 k2 k3 : List ℤ)
    (h1 : dealiasMask N 2 3 k1 = true) (h2 : dealiasMask N 2 3 k2 = true)
    (h3 : dealiasMask N 2 3 k3 = true) (a b c : ℤ) (ha : a ∈ k1) (hb : b ∈ k2) (hc : c ∈ k3)
    (hd : (N : ℤ) ∣ (a + b - c)) : a + b = c := by
  rw [dealiasMask_iff] at h1 h2 h3
  have ha' := h1 a ha
  have hb' := h2 b hb
  have hc' := h3 c hc
  have : a + b - c = 0 := by
    apply eq_zero_of_dvd_of_abs_lt N _ hd
    rw [abs_lt]
    have := abs_le.1 (le_refl |a|)
    have := abs_le.1 (le_refl |b|)
    have := abs_le.1 (le_refl |c|)
    constructor <;> omega
  omega

/-- modes kept by the 1/2 mask: any four kept wavenumber entries cannot alias -/
theorem dealiasMask_half_no_alias (N : ℕ) (k1 k2 k3 k4 : List ℤ)
    (h1 : dealiasMask N 1 2 k1 = true) (h2 : dealiasMask N 1 2 k2 = true)
    (h3 : dealiasMask N 1 2 k3 = true) (h4 : dealiasMask N 1 2 k4 = true) (a b c d : ℤ)
    (ha : a ∈ k1) (hb : b ∈ k2) (hc : c ∈ k3) (hdd : d ∈ k4)
    (hd : (N : ℤ) ∣ (a + b + c - d)) : a + b + c = d := by
  rw [dealiasMask_iff] at h1 h2 h3 h4
  have ha' := h1 a ha
  have hb' := h2 b hb
  have hc' := h3 c hc
  have hd' := h4 d hdd
  have : a + b + c - d = 0 := by
    apply eq_zero_of_dvd_of_abs_lt N _ hd
    rw [abs_lt]
    have := abs_le.1 (le_refl |a|)
    have := abs_le.1 (le_refl |b|)
    have := abs_le.1 (le_refl |c|)
    have := abs_le.1 (le_refl |d|)
    constructor <;> omega
  omega

theorem oddball_odd (N : ℕ) (k : List ℤ) (hodd : N % 2 = 1) : oddball N k = true := by
  simp [oddball, hodd]

theorem oddball_even_iff (N : ℕ) (k : List ℤ) (heven : N % 2 = 0) :
    oddball N k = true ↔ ∀ kd ∈ k, |kd| ≤ ((N / 2 : ℕ) : ℤ) - 1 := by
  have h : ¬ (N % 2 = 1) := by omega
  simp only [oddball, h, if_false, lowPassSep_iff]
  constructor <;> intro hh kd hkd <;> have := hh kd hkd <;> push_cast at this ⊢ <;> omega

/-- on vectors whose entries satisfy `|k_d| ≤ N/2` (all stored wavenumbers do) the oddball mask of
    an even `N` removes exactly the modes with a Nyquist entry -/
theorem oddball_even_iff_ne_nyquist (N : ℕ) (k : List ℤ) (heven : N % 2 = 0)
    (hk : ∀ kd ∈ k, |kd| ≤ ((N / 2 : ℕ) : ℤ)) :
    oddball N k = true ↔ ∀ kd ∈ k, |kd| ≠ ((N / 2 : ℕ) : ℤ) := by
  rw [oddball_even_iff N k heven]
  constructor <;> intro hh kd hkd <;> have := hh kd hkd <;> have := hk kd hkd <;> omega

/-! ### L4 — radial bins -/

theorem inBin_iff (k : List ℤ) (b : ℕ) :
    inBin k b = true ↔
      (2 * (b : ℤ) - 1 ≤ 0 ∨ (2 * (b : ℤ) - 1) ^ 2 ≤ 4 * normSq k) ∧
        4 * normSq k < (2 * (b : ℤ) + 1) ^ 2 := by
  simp [inBin, sq]

/-- no tie at the upper bin edge: `4‖k‖²` is even, `(2b+1)²` is odd -/
theorem four_normSq_ne_odd_sq (k : List ℤ) (b : ℕ) :
    4 * normSq k ≠ (2 * (b : ℤ) + 1) ^ 2 := by
  have h : (2 * (b : ℤ) + 1) ^ 2 = 4 * ((b : ℤ) * b + b) + 1 := by ring
  rw [h]; omega

/-- no tie at the lower bin edge -/
theorem four_normSq_ne_odd_sq' (k : List ℤ) (b : ℕ) :
    4 * normSq k ≠ (2 * (b : ℤ) - 1) ^ 2 := by
  have h : (2 * (b : ℤ) - 1) ^ 2 = 4 * ((b : ℤ) * b - b) + 1 := by ring
  rw [h]; omega

/-- the half-open bins `[b − ½, b + ½)` and the open bins `(b − ½, b + ½)` coincide on integer
    wavenumber vectors (the only mode of bin 0 is `k = 0`) -/
theorem inBin_iff_strict (k : List ℤ) (b : ℕ) :
    inBin k b = true ↔
      ((2 * (b : ℤ) - 1) ^ 2 < 4 * normSq k ∧ 4 * normSq k < (2 * (b : ℤ) + 1) ^ 2) ∨
        (b = 0 ∧ normSq k = 0) := by
  rw [inBin_iff]
  have hn := normSq_nonneg k
  have hne := four_normSq_ne_odd_sq' k b
  rcases Nat.eq_zero_or_pos b with rfl | hb
  · simp only [Nat.cast_zero]
    norm_num
    omega
  · have h1 : ¬ (2 * (b : ℤ) - 1 ≤ 0) := by omega
    have h2 : ¬ (b = 0) := by omega
    simp only [h1, h2, false_or, false_and, or_false]
    constructor
    · rintro ⟨h3, h4⟩; exact ⟨lt_of_le_of_ne h3 (Ne.symm hne), h4⟩
    · rintro ⟨h3, h4⟩; exact ⟨le_of_lt h3, h4⟩

/-- bins are disjoint -/
theorem inBin_unique (k : List ℤ) (b b' : ℕ) (h : inBin k b = true) (h' : inBin k b' = true) :
    b = b' := by
  rw [inBin_iff] at h h'
  obtain ⟨h1, h2⟩ := h
  obtain ⟨h1', h2'⟩ := h'
  by_contra hne
  rcases Nat.lt_or_gt_of_ne hne with hlt | hlt
  · have hb : (b : ℤ) + 1 ≤ b' := by exact_mod_cast hlt
    have hb0 : (0 : ℤ) ≤ b := by positivity
    rcases h1' with h | h
    · omega
    · nlinarith
  · have hb : (b' : ℤ) + 1 ≤ b := by exact_mod_cast hlt
    have hb0 : (0 : ℤ) ≤ b' := by positivity
    rcases h1 with h | h
    · omega
    · nlinarith

/-- the bin of `k` is `round(‖k‖₂) = ⌊(⌊√(4‖k‖²)⌋ + 1)/2⌋` -/
def roundNorm (k : List ℤ) : ℕ := (Nat.sqrt (4 * normSq k).toNat + 1) / 2

theorem inBin_roundNorm (k : List ℤ) : inBin k (roundNorm k) = true := by
  rw [inBin_iff]
  have hn := normSq_nonneg k
  obtain ⟨M, hM⟩ : ∃ M : ℕ, 4 * normSq k = (M : ℤ) := ⟨(4 * normSq k).toNat, by omega⟩
  unfold roundNorm
  rw [hM, Int.toNat_natCast]
  have hs1 : Nat.sqrt M * Nat.sqrt M ≤ M := Nat.sqrt_le M
  have hs2 : M < (Nat.sqrt M + 1) * (Nat.sqrt M + 1) := by
    simpa [Nat.succ_eq_add_one] using Nat.lt_succ_sqrt M
  generalize Nat.sqrt M = s at hs1 hs2
  have hs1' : (s : ℤ) * s ≤ M := by exact_mod_cast hs1
  have hs2' : (M : ℤ) < ((s : ℤ) + 1) * (s + 1) := by exact_mod_cast hs2
  have hs0 : (0 : ℤ) ≤ s := by positivity
  rcases Nat.even_or_odd' s with ⟨t, rfl | rfl⟩
  · have hb : (((2 * t + 1) / 2 : ℕ) : ℤ) = t := by omega
    rw [hb]
    push_cast at hs1' hs2' hs0
    refine ⟨?_, by nlinarith⟩
    rcases Nat.eq_zero_or_pos t with rfl | ht
    · left; simp
    · right
      have : (1 : ℤ) ≤ t := by exact_mod_cast ht
      nlinarith
  · have hb : (((2 * t + 1 + 1) / 2 : ℕ) : ℤ) = t + 1 := by omega
    rw [hb]
    push_cast at hs1' hs2' hs0
    have ht0 : (0 : ℤ) ≤ t := by positivity
    refine ⟨Or.inr (by nlinarith), by nlinarith⟩

/-- existence and characterisation: the bin of `k` is the rounding of `‖k‖₂` -/
theorem inBin_iff_eq_roundNorm (k : List ℤ) (b : ℕ) : inBin k b = true ↔ b = roundNorm k :=
  ⟨fun h => inBin_unique k b _ h (inBin_roundNorm k), fun h => h ▸ inBin_roundNorm k⟩

theorem inBin_exists (k : List ℤ) : ∃! b, inBin k b = true :=
  ⟨roundNorm k, inBin_roundNorm k, fun b h => (inBin_iff_eq_roundNorm k b).1 h⟩

theorem binOf_eq_some_iff (k : List ℤ) (bound b : ℕ) :
    binOf k bound = some b ↔ inBin k b = true ∧ b ≤ bound := by
  unfold binOf
  rw [List.find?_range_eq_some]
  constructor
  · rintro ⟨h1, h2, _⟩
    exact ⟨h1, by simp at h2; omega⟩
  · rintro ⟨h1, h2⟩
    refine ⟨h1, by simp; omega, ?_⟩
    intro j hj
    by_contra hc
    simp only [Bool.not_eq_true', Bool.not_eq_false] at hc
    have := inBin_unique k j b (by simpa using hc) h1
    omega

theorem binOf_eq_none_iff (k : List ℤ) (bound : ℕ) :
    binOf k bound = none ↔ bound < roundNorm k := by
  constructor
  · intro h
    by_contra hc
    have := (binOf_eq_some_iff k bound (roundNorm k)).2 ⟨inBin_roundNorm k, by omega⟩
    rw [h] at this
    simp at this
  · intro h
    cases hb : binOf k bound with
    | none => rfl
    | some b =>
      obtain ⟨h1, h2⟩ := (binOf_eq_some_iff k bound b).1 hb
      have := (inBin_iff_eq_roundNorm k b).1 h1
      omega


/-! ### `inBin` through the real square root -/

theorem inBin_iff_real (k : List ℤ) (b : ℕ) :
    inBin k b = true ↔
      (b : ℝ) - 1 / 2 ≤ Real.sqrt ((normSq k : ℤ) : ℝ) ∧
        Real.sqrt ((normSq k : ℤ) : ℝ) < (b : ℝ) + 1 / 2 := by
  rw [inBin_iff]
  have hn : (0 : ℝ) ≤ ((normSq k : ℤ) : ℝ) := by exact_mod_cast normSq_nonneg k
  have hb : (0 : ℝ) < (b : ℝ) + 1 / 2 := by positivity
  have e2 : (4 * normSq k < (2 * (b : ℤ) + 1) ^ 2) ↔
      Real.sqrt ((normSq k : ℤ) : ℝ) < (b : ℝ) + 1 / 2 := by
    rw [Real.sqrt_lt' hb]
    have : (4 * normSq k < (2 * (b : ℤ) + 1) ^ 2) ↔
        ((4 * normSq k : ℤ) : ℝ) < (((2 * (b : ℤ) + 1) ^ 2 : ℤ) : ℝ) := Int.cast_lt.symm
    rw [this]
    push_cast
    constructor <;> intro h <;> nlinarith
  have e1 : (2 * (b : ℤ) - 1 ≤ 0 ∨ (2 * (b : ℤ) - 1) ^ 2 ≤ 4 * normSq k) ↔
      (b : ℝ) - 1 / 2 ≤ Real.sqrt ((normSq k : ℤ) : ℝ) := by
    rcases Nat.eq_zero_or_pos b with rfl | hb0
    · simp only [Nat.cast_zero]
      constructor
      · intro _
        have := Real.sqrt_nonneg ((normSq k : ℤ) : ℝ)
        linarith
      · intro _; left; norm_num
    · have hb1 : (1 : ℝ) ≤ b := by exact_mod_cast hb0
      have hb1' : (1 : ℤ) ≤ b := by exact_mod_cast hb0
      rw [Real.le_sqrt' (by linarith)]
      have : ((2 * (b : ℤ) - 1) ^ 2 ≤ 4 * normSq k) ↔
          ((((2 * (b : ℤ) - 1) ^ 2 : ℤ)) : ℝ) ≤ ((4 * normSq k : ℤ) : ℝ) := Int.cast_le.symm
      constructor
      · rintro (h | h)
        · omega
        · have h' := this.1 h
          push_cast at h'
          nlinarith
      · intro h
        right
        rw [this]
        push_cast
        nlinarith
  rw [e1, e2]

/-! ### stored wavenumbers; the oddball mask on stored modes (L3 continued) -/



theorem wavenumberShape_length (D N : ℕ) (hD : 1 ≤ D) : (wavenumberShape D N).length = D := by
  simp [wavenumberShape]; omega

theorem wavenumberShape_getD (D N d : ℕ) (hd : d < D) :
    (wavenumberShape D N).getD d 0 = if d + 1 = D then N / 2 + 1 else N := by
  unfold wavenumberShape
  rw [List.getD_eq_getElem?_getD, List.getElem?_append]
  split_ifs with h1 h2 h2
  · simp at h1; omega
  · simp at h1; simp [h1]
  · simp at h1 ⊢
    have : d - (D - 1) = 0 := by omega
    simp [this]
  · simp at h1; omega

theorem wavenumberShape_pos (D N : ℕ) (hN : 0 < N) : ∀ a ∈ wavenumberShape D N, 0 < a := by
  intro a ha
  simp only [wavenumberShape, List.mem_append, List.mem_replicate, List.mem_singleton] at ha
  rcases ha with ⟨_, rfl⟩ | rfl <;> omega

theorem wn_last (D N : ℕ) (h : List ℕ) (d : ℕ) (hd : d + 1 = D) :
    wn D N h d = (h.getD d 0 : ℤ) := by
  simp [wn, hd, rfftfreq]

theorem wn_leading (D N : ℕ) (h : List ℕ) (d : ℕ) (hd : d + 1 ≠ D) :
    wn D N h d = fftfreq N (h.getD d 0) := by
  simp [wn, hd]

/-- every stored wavenumber entry satisfies `|k_d| ≤ N/2` -/
theorem wn_abs_le (D N : ℕ) (h : List ℕ) (d : ℕ)
    (hh : h.getD d 0 < if d + 1 = D then N / 2 + 1 else N) :
    |wn D N h d| ≤ ((N / 2 : ℕ) : ℤ) := by
  by_cases hd : d + 1 = D
  · rw [wn_last D N h d hd]
    simp only [hd, if_true] at hh
    rw [abs_of_nonneg (by positivity)]
    omega
  · rw [wn_leading D N h d hd]
    simp only [hd, if_false] at hh
    exact fftfreq_abs_le N _ (by omega) hh

/-- `|k_d| = N/2` exactly at the Nyquist index `N/2` (even `N`), on every axis -/
theorem wn_abs_eq_nyquist_iff (D N : ℕ) (h : List ℕ) (d : ℕ) (heven : N % 2 = 0)
    (hh : h.getD d 0 < if d + 1 = D then N / 2 + 1 else N) :
    |wn D N h d| = ((N / 2 : ℕ) : ℤ) ↔ h.getD d 0 = N / 2 := by
  by_cases hd : d + 1 = D
  · rw [wn_last D N h d hd, abs_of_nonneg (by positivity)]
    omega
  · rw [wn_leading D N h d hd]
    simp only [hd, if_false] at hh
    exact fftfreq_abs_eq_nyquist_iff N _ hh heven

theorem mem_wnVec (D N : ℕ) (h : List ℕ) (k : ℤ) :
    k ∈ wnVec D N h ↔ ∃ d, d < D ∧ wn D N h d = k := by
  simp [wnVec]

/-- for even `N` the oddball mask removes exactly the stored modes with a Nyquist index on some
    axis -/
theorem oddball_wnVec_even (D N : ℕ) (h : List ℕ) (heven : N % 2 = 0)
    (hh : ∀ d, d < D → h.getD d 0 < if d + 1 = D then N / 2 + 1 else N) :
    oddball N (wnVec D N h) = true ↔ ∀ d, d < D → h.getD d 0 ≠ N / 2 := by
  rw [oddball_even_iff_ne_nyquist N _ heven]
  · constructor
    · intro hk d hd hc
      exact hk _ ((mem_wnVec D N h _).2 ⟨d, hd, rfl⟩)
        ((wn_abs_eq_nyquist_iff D N h d heven (hh d hd)).2 hc)
    · intro hk kd hkd
      obtain ⟨d, hd, rfl⟩ := (mem_wnVec D N h kd).1 hkd
      exact fun hc => hk d hd ((wn_abs_eq_nyquist_iff D N h d heven (hh d hd)).1 hc)
  · intro kd hkd
    obtain ⟨d, hd, rfl⟩ := (mem_wnVec D N h kd).1 hkd
    exact wn_abs_le D N h d (hh d hd)

theorem oddball_wnVec_odd (D N : ℕ) (h : List ℕ) (hodd : N % 2 = 1) :
    oddball N (wnVec D N h) = true := oddball_odd N _ hodd

/-! ### L5 — `pySlice`, `modeSlices`, `modeBlocks` for `D = 1, 2, 3` -/
theorem pySlice_none_none (len : ℕ) : pySlice len none none = (0, len) := rfl

theorem pySlice_none_some (len n : ℕ) : pySlice len none (some (n : ℤ)) = (0, min n len) := by
  simp only [pySlice]
  split_ifs <;> simp <;> omega

theorem pySlice_someNeg_none (len n : ℕ) (hn : 0 < n) :
    pySlice len (some (-(n : ℤ))) none = (len - min n len, len) := by
  simp only [pySlice]
  split_ifs <;> simp <;> omega

/-- `slice(-0, None)` is `slice(0, None)`: the whole axis (*not* the empty tail) -/
theorem pySlice_negZero_none (len : ℕ) : pySlice len (some (-((0 : ℕ) : ℤ))) none = (0, len) := by
  simp [pySlice]

theorem pySlice_some_none (len n : ℕ) : pySlice len (some (n : ℤ)) none = (min n len, len) := by
  simp only [pySlice]
  split_ifs <;> simp <;> omega

theorem pySlice_none_someNeg (len n : ℕ) (hn : 0 < n) :
    pySlice len none (some (-(n : ℤ))) = (0, len - min n len) := by
  simp only [pySlice]
  split_ifs <;> simp <;> omega

theorem pySlice_le (len : ℕ) (s t : Option ℤ) :
    (pySlice len s t).1 ≤ len ∧ (pySlice len s t).2 ≤ len := by
  cases s <;> cases t <;> simp only [pySlice] <;> constructor <;> (try split_ifs) <;> omega

theorem pySlice_left (N : ℕ) :
    pySlice N (if N % 2 = 0 then ((none : Option ℤ), some ((N / 2 : ℕ) : ℤ)) else (none, some (((N / 2 : ℕ) : ℤ) + 1))).1
      (if N % 2 = 0 then ((none : Option ℤ), some ((N / 2 : ℕ) : ℤ)) else (none, some (((N / 2 : ℕ) : ℤ) + 1))).2
      = (0, (N + 1) / 2) := by
  by_cases h : N % 2 = 0 <;> simp only [h, if_true, if_false, pySlice] <;>
    split_ifs <;> simp <;> omega

theorem pySlice_right (N : ℕ) (hN : 2 ≤ N) :
    pySlice N (some (-((N / 2 : ℕ) : ℤ))) none = ((N + 1) / 2, N) := by
  simp only [pySlice]
  split_ifs <;> simp <;> omega

theorem pySlice_last (N : ℕ) :
    pySlice (N / 2 + 1) none (some (((N / 2 : ℕ) : ℤ) + 1)) = (0, N / 2 + 1) := by
  simp only [pySlice]
  split_ifs <;> simp <;> omega

theorem modeBlocks_one (N : ℕ) : modeBlocks 1 N = [[(0, N / 2 + 1)]] := by
  have h : modeBlocks 1 N = [[pySlice (N / 2 + 1) none (some (((N / 2 : ℕ) : ℤ) + 1))]] := rfl
  rw [h, pySlice_last]

theorem modeBlocks_two (N : ℕ) (hN : 2 ≤ N) : modeBlocks 2 N =
    [[(0, (N + 1) / 2), (0, N / 2 + 1)], [((N + 1) / 2, N), (0, N / 2 + 1)]] := by
  have : modeBlocks 2 N = [[pySlice N (if N % 2 = 0 then ((none : Option ℤ), some ((N / 2 : ℕ) : ℤ)) else (none, some (((N / 2 : ℕ) : ℤ) + 1))).1
      (if N % 2 = 0 then ((none : Option ℤ), some ((N / 2 : ℕ) : ℤ)) else (none, some (((N / 2 : ℕ) : ℤ) + 1))).2, pySlice (N / 2 + 1) none (some (((N / 2 : ℕ) : ℤ) + 1))],
      [pySlice N (some (-((N / 2 : ℕ) : ℤ))) none, pySlice (N / 2 + 1) none (some (((N / 2 : ℕ) : ℤ) + 1))]] := rfl
  rw [this, pySlice_left, pySlice_right N hN, pySlice_last]

theorem modeBlocks_three (N : ℕ) (hN : 2 ≤ N) : modeBlocks 3 N =
    [[(0, (N + 1) / 2), (0, (N + 1) / 2), (0, N / 2 + 1)],
     [((N + 1) / 2, N), (0, (N + 1) / 2), (0, N / 2 + 1)],
     [(0, (N + 1) / 2), ((N + 1) / 2, N), (0, N / 2 + 1)],
     [((N + 1) / 2, N), ((N + 1) / 2, N), (0, N / 2 + 1)]] := by
  have : modeBlocks 3 N =
    [[pySlice N (if N % 2 = 0 then ((none : Option ℤ), some ((N / 2 : ℕ) : ℤ)) else (none, some (((N / 2 : ℕ) : ℤ) + 1))).1
        (if N % 2 = 0 then ((none : Option ℤ), some ((N / 2 : ℕ) : ℤ)) else (none, some (((N / 2 : ℕ) : ℤ) + 1))).2,
      pySlice N (if N % 2 = 0 then ((none : Option ℤ), some ((N / 2 : ℕ) : ℤ)) else (none, some (((N / 2 : ℕ) : ℤ) + 1))).1
        (if N % 2 = 0 then ((none : Option ℤ), some ((N / 2 : ℕ) : ℤ)) else (none, some (((N / 2 : ℕ) : ℤ) + 1))).2,
      pySlice (N / 2 + 1) none (some (((N / 2 : ℕ) : ℤ) + 1))],
     [pySlice N (some (-((N / 2 : ℕ) : ℤ))) none,
      pySlice N (if N % 2 = 0 then ((none : Option ℤ), some ((N / 2 : ℕ) : ℤ)) else (none, some (((N / 2 : ℕ) : ℤ) + 1))).1
        (if N % 2 = 0 then ((none : Option ℤ), some ((N / 2 : ℕ) : ℤ)) else (none, some (((N / 2 : ℕ) : ℤ) + 1))).2,
      pySlice (N / 2 + 1) none (some (((N / 2 : ℕ) : ℤ) + 1))],
     [pySlice N (if N % 2 = 0 then ((none : Option ℤ), some ((N / 2 : ℕ) : ℤ)) else (none, some (((N / 2 : ℕ) : ℤ) + 1))).1
        (if N % 2 = 0 then ((none : Option ℤ), some ((N / 2 : ℕ) : ℤ)) else (none, some (((N / 2 : ℕ) : ℤ) + 1))).2,
      pySlice N (some (-((N / 2 : ℕ) : ℤ))) none,
      pySlice (N / 2 + 1) none (some (((N / 2 : ℕ) : ℤ) + 1))],
     [pySlice N (some (-((N / 2 : ℕ) : ℤ))) none, pySlice N (some (-((N / 2 : ℕ) : ℤ))) none,
      pySlice (N / 2 + 1) none (some (((N / 2 : ℕ) : ℤ) + 1))]] := rfl
  rw [this, pySlice_left, pySlice_right N hN, pySlice_last]

/-- the Python slice objects themselves, e.g. `get_modes_slices(2, 10)` of the docstring -/
theorem modeSlices_two (N : ℕ) : modeSlices 2 N =
    [[if N % 2 = 0 then (none, some ((N / 2 : ℕ) : ℤ)) else (none, some (((N / 2 : ℕ) : ℤ) + 1)),
        (none, some (((N / 2 : ℕ) : ℤ) + 1))],
      [(some (-((N / 2 : ℕ) : ℤ)), none), (none, some (((N / 2 : ℕ) : ℤ) + 1))]] := rfl

theorem modeSlices_prod_length (l r : Option ℤ × Option ℤ) (n : ℕ) :
    (modeSlices.prod l r n).length = 2 ^ n := by
  induction n with
  | zero => rfl
  | succ n ih =>
    simp only [modeSlices.prod, List.length_flatMap, List.length_cons, List.length_nil]
    simp [ih, pow_succ]

theorem modeSlices_length (D N : ℕ) : (modeSlices D N).length = 2 ^ (D - 1) := by
  simp [modeSlices, modeSlices_prod_length]

theorem modeBlocks_length (D N : ℕ) : (modeBlocks D N).length = 2 ^ (D - 1) := by
  simp [modeBlocks, modeSlices_length]

theorem inBlock_one (N h0 : ℕ) : inBlock [(0, N / 2 + 1)] [h0] = true ↔ h0 < N / 2 + 1 := by
  simp [inBlock]

/-- `D = 1`: a single block containing every stored index -/
theorem inBlock_modeBlocks_one (N h0 : ℕ) (h0lt : h0 < N / 2 + 1) :
    ∀ b ∈ modeBlocks 1 N, inBlock b [h0] = true := by
  intro b hb
  rw [modeBlocks_one] at hb
  simp only [List.mem_singleton] at hb
  subst hb
  simp [inBlock]; omega

/-- `D = 2`: block `j` holds exactly the stored indices whose leading wavenumber is
    non-negative (`j = 0`) resp. negative (`j = 1`) -/
theorem inBlock_modeBlocks_two (N h0 h1 : ℕ) (hN : 2 ≤ N) (h0lt : h0 < N) (h1lt : h1 < N / 2 + 1)
    (j : ℕ) (hj : j < 2) :
    inBlock ((modeBlocks 2 N).getD j []) [h0, h1] = true ↔
      (j.testBit 0 = true ↔ fftfreq N h0 < 0) := by
  have hf := fftfreq_nonneg_iff' N h0 h0lt
  rw [modeBlocks_two N hN]
  interval_cases j <;> simp [inBlock, Nat.testBit_eq_decide_div_mod_eq] <;> omega

theorem inBlock_modeBlocks_three (N h0 h1 h2 : ℕ) (hN : 2 ≤ N) (h0lt : h0 < N) (h1lt : h1 < N)
    (h2lt : h2 < N / 2 + 1) (j : ℕ) (hj : j < 4) :
    inBlock ((modeBlocks 3 N).getD j []) [h0, h1, h2] = true ↔
      ((j.testBit 0 = true ↔ fftfreq N h0 < 0) ∧ (j.testBit 1 = true ↔ fftfreq N h1 < 0)) := by
  have hf0 := fftfreq_nonneg_iff' N h0 h0lt
  have hf1 := fftfreq_nonneg_iff' N h1 h1lt
  rw [modeBlocks_three N hN]
  interval_cases j <;> simp [inBlock, Nat.testBit_eq_decide_div_mod_eq] <;> omega




/-! ### L6 — `acceptsShape` -/
theorem acceptsShape_iff (C D N : ℕ) (shape : List ℕ) :
    acceptsShape C D N shape = true ↔ shape = C :: List.replicate D N := by
  simp [acceptsShape, spatialShape]

theorem acceptsShape_length (C D N : ℕ) (shape : List ℕ) (h : acceptsShape C D N shape = true) :
    shape.length = D + 1 := by
  rw [acceptsShape_iff] at h; simp [h]

/-- wrong channel count is rejected -/
theorem acceptsShape_wrong_channels (C C' D N : ℕ) (rest : List ℕ) (hC : C' ≠ C) :
    acceptsShape C D N (C' :: rest) = false := by
  rw [← Bool.not_eq_true, acceptsShape_iff]
  intro h
  exact hC (List.cons.inj h).1

/-- wrong number of axes (extra or missing) is rejected -/
theorem acceptsShape_wrong_ndim (C D N : ℕ) (shape : List ℕ) (hlen : shape.length ≠ D + 1) :
    acceptsShape C D N shape = false := by
  rw [← Bool.not_eq_true]
  intro h
  exact hlen (acceptsShape_length C D N shape h)

theorem acceptsShape_extra_axis (C D N x : ℕ) :
    acceptsShape C D N (C :: List.replicate D N ++ [x]) = false :=
  acceptsShape_wrong_ndim C D N _ (by simp)

theorem acceptsShape_missing_axis (C D N : ℕ) :
    acceptsShape C (D + 1) N (C :: List.replicate D N) = false :=
  acceptsShape_wrong_ndim C (D + 1) N _ (by simp)

theorem acceptsShape_empty (C D N : ℕ) : acceptsShape C D N [] = false :=
  acceptsShape_wrong_ndim C D N _ (by simp)

/-- any spatial axis of the wrong length is rejected -/
theorem acceptsShape_wrong_axis (C D N : ℕ) (shape : List ℕ) (d : ℕ) (hd : d < D)
    (hne : shape.getD (d + 1) 0 ≠ N) : acceptsShape C D N shape = false := by
  rw [← Bool.not_eq_true, acceptsShape_iff]
  intro h
  apply hne
  rw [h]
  simp [List.getD_eq_getElem?_getD, hd]

/-- unequal spatial axes are rejected -/
theorem acceptsShape_unequal_axes (C D N : ℕ) (shape : List ℕ) (d d' : ℕ) (hd : d < D) (hd' : d' < D)
    (hne : shape.getD (d + 1) 0 ≠ shape.getD (d' + 1) 0) : acceptsShape C D N shape = false := by
  by_cases h : shape.getD (d + 1) 0 = N
  · exact acceptsShape_wrong_axis C D N shape d' hd' (fun h' => hne (h.trans h'.symm))
  · exact acceptsShape_wrong_axis C D N shape d hd h

theorem acceptsShape_self (C D N : ℕ) : acceptsShape C D N (C :: spatialShape D N) = true := by
  simp [acceptsShape]

/-! ### L7 — `flatten` / `unflatten` / `shapeSize` -/
theorem shapeSize_eq_prod (shape : List ℕ) : shapeSize shape = shape.prod :=
  (List.prod_eq_foldl).symm

@[simp] theorem shapeSize_nil : shapeSize [] = 1 := rfl

@[simp] theorem shapeSize_cons (a : ℕ) (l : List ℕ) : shapeSize (a :: l) = a * shapeSize l := by
  simp [shapeSize_eq_prod]

theorem shapeSize_append (l₁ l₂ : List ℕ) : shapeSize (l₁ ++ l₂) = shapeSize l₁ * shapeSize l₂ := by
  simp [shapeSize_eq_prod]

theorem shapeSize_replicate (n a : ℕ) : shapeSize (List.replicate n a) = a ^ n := by
  simp [shapeSize_eq_prod]

theorem shapeSize_pos (shape : List ℕ) (hpos : ∀ a ∈ shape, 0 < a) : 0 < shapeSize shape := by
  rw [shapeSize_eq_prod]
  exact List.prod_pos hpos

theorem shapeSize_wavenumberShape (D N : ℕ) :
    shapeSize (wavenumberShape D N) = N ^ (D - 1) * (N / 2 + 1) := by
  simp [wavenumberShape, shapeSize_append, shapeSize_replicate]

theorem numModes_eq (D N : ℕ) : numModes D N = N ^ (D - 1) * (N / 2 + 1) :=
  shapeSize_wavenumberShape D N

theorem shapeSize_spatialShape (D N : ℕ) : shapeSize (spatialShape D N) = N ^ D :=
  shapeSize_replicate D N

theorem unflatten_length (shape : List ℕ) (i : ℕ) : (unflatten shape i).length = shape.length := by
  induction shape generalizing i with
  | nil => rfl
  | cons a rest ih => simp [unflatten, ih]

theorem flatten_unflatten (shape : List ℕ) (hpos : ∀ a ∈ shape, 0 < a) (i : ℕ)
    (hi : i < shapeSize shape) : flatten shape (unflatten shape i) = i := by
  induction shape generalizing i with
  | nil => simp [shapeSize] at hi; simp [flatten, hi]
  | cons a rest ih =>
    have hrest : ∀ b ∈ rest, 0 < b := fun b hb => hpos b (by simp [hb])
    have hsz := shapeSize_pos rest hrest
    simp only [unflatten, flatten, List.headD_cons, List.tail_cons]
    rw [ih hrest _ (Nat.mod_lt _ hsz)]
    exact Nat.div_add_mod' i (shapeSize rest)

theorem unflatten_lt (shape : List ℕ) (hpos : ∀ a ∈ shape, 0 < a) (i : ℕ)
    (hi : i < shapeSize shape) : List.Forall₂ (· < ·) (unflatten shape i) shape := by
  induction shape generalizing i with
  | nil => exact List.Forall₂.nil
  | cons a rest ih =>
    have hrest : ∀ b ∈ rest, 0 < b := fun b hb => hpos b (by simp [hb])
    have hsz := shapeSize_pos rest hrest
    simp only [unflatten]
    refine List.Forall₂.cons ?_ (ih hrest _ (Nat.mod_lt _ hsz))
    rw [shapeSize_cons] at hi
    exact Nat.div_lt_of_lt_mul (by rwa [Nat.mul_comm] at hi)

theorem unflatten_getD_lt (shape : List ℕ) (hpos : ∀ a ∈ shape, 0 < a) (i : ℕ)
    (hi : i < shapeSize shape) (d : ℕ) (hd : d < shape.length) :
    (unflatten shape i).getD d 0 < shape.getD d 0 := by
  have h := unflatten_lt shape hpos i hi
  have hl := unflatten_length shape i
  rw [List.forall₂_iff_get] at h
  have := h.2 d (by omega) hd
  simpa [List.getD_eq_getElem?_getD, List.getElem?_eq_getElem, hd, hl] using this

theorem flatten_lt (shape h : List ℕ) (hh : List.Forall₂ (· < ·) h shape) :
    flatten shape h < shapeSize shape := by
  induction hh with
  | nil => simp [flatten]
  | @cons x a h rest hx _ ih =>
    simp only [flatten, List.headD_cons, List.tail_cons, shapeSize_cons]
    nlinarith

theorem unflatten_flatten (shape h : List ℕ) (hh : List.Forall₂ (· < ·) h shape) :
    unflatten shape (flatten shape h) = h := by
  induction hh with
  | nil => simp [unflatten]
  | @cons x a h rest hx hrest ih =>
    have hlt := flatten_lt rest h hrest
    simp only [flatten, List.headD_cons, List.tail_cons, unflatten]
    have hpos : 0 < shapeSize rest := by omega
    rw [Nat.mul_comm, Nat.mul_add_div hpos, Nat.div_eq_of_lt hlt, Nat.mul_add_mod,
      Nat.mod_eq_of_lt hlt, ih]
    simp

/-! ### L8 — scaling arrays -/

theorem isSpecial_iff (N : ℕ) (isLast : Bool) (k : ℤ) :
    isSpecial N isLast k = true ↔
      k = 0 ∨ (N % 2 = 0 ∧ k = if isLast = true then ((N / 2 : ℕ) : ℤ) else -((N / 2 : ℕ) : ℤ)) := by
  have hf : Int.fdiv (-(N : ℤ)) 2 = (-(N : ℤ)) / 2 := Int.fdiv_eq_ediv_of_nonneg _ (by norm_num)
  cases isLast
  all_goals simp [isSpecial, hf]
  all_goals omega

section scaling
variable {K : Type} [Field K]

theorem lit_eq_cast (n : ℕ) : (lit n : K) = (n : K) := rfl

theorem axisScale_eq (N denom : ℕ) (isLast : Bool) (k : ℤ) :
    (axisScale N denom isLast k : K) =
      if isSpecial N isLast k = true then (N : K) else (N : K) / (denom : K) := rfl

theorem prodList_eq_prod (l : List K) : prodList l = l.prod :=
  (List.prod_eq_foldl).symm

/-- the denominator `_build_scaling_array` uses on axis `d` in the given mode -/
def scaleDenom (D mode d : ℕ) : ℕ :=
  if (d + 1 == D) = true then (if mode = 0 then 1 else 2) else (if mode = 2 then 2 else 1)

theorem scaleDenom_cases (D mode d : ℕ) : scaleDenom D mode d = 1 ∨ scaleDenom D mode d = 2 := by
  unfold scaleDenom; split_ifs <;> simp

/-- `scaling` is the product of the per-axis factors -/
theorem scaling_eq_prod (D N mode : ℕ) (h : List ℕ) :
    (scaling D N mode h : K) =
      ((List.range D).map (fun d =>
        (axisScale N (scaleDenom D mode d) (d + 1 == D) (wn D N h d) : K))).prod := by
  unfold scaling
  rw [prodList_eq_prod]
  rfl

/-- is axis `d` of the stored index `h` halved in the given mode (not DC / Nyquist and
    denominator 2) -/
def halved (D N mode : ℕ) (h : List ℕ) (d : ℕ) : Bool :=
  !(isSpecial N (d + 1 == D) (wn D N h d)) && scaleDenom D mode d == 2

theorem prod_axis_general (N : ℕ) (s : ℕ → Bool) (den : ℕ → ℕ)
    (hden : ∀ d, den d = 1 ∨ den d = 2) (L : List ℕ) :
    (L.map (fun d => if s d = true then (N : K) else (N : K) / (den d : K))).prod =
      (N : K) ^ L.length / 2 ^ (L.countP (fun d => !(s d) && den d == 2)) := by
  induction L with
  | nil => simp
  | cons d L ih =>
    rw [List.map_cons, List.prod_cons, ih, List.length_cons, List.countP_cons]
    cases hs : s d
    · rcases hden d with h1 | h2
      · simp [h1, pow_succ]; ring
      · simp [h2, pow_succ, div_mul_div_comm]; ring
    · simp [pow_succ]; ring

/-- `scaling = N^D / 2^(number of halved axes)` -/
theorem scaling_eq (D N mode : ℕ) (h : List ℕ) :
    (scaling D N mode h : K) =
      (N : K) ^ D / 2 ^ ((List.range D).countP (halved D N mode h)) := by
  rw [scaling_eq_prod]
  have := prod_axis_general (K := K) N (fun d => isSpecial N (d + 1 == D) (wn D N h d))
    (scaleDenom D mode) (scaleDenom_cases D mode) (List.range D)
  simp only [axisScale_eq]
  rw [this, List.length_range]
  rfl

/-- `norm_compensation` is the constant `N^D` -/
theorem scaling_mode_zero (D N : ℕ) (h : List ℕ) : (scaling D N 0 h : K) = (N : K) ^ D := by
  rw [scaling_eq]
  have : (List.range D).countP (halved D N 0 h) = 0 := by
    rw [List.countP_eq_zero]
    intro d _
    simp [halved, scaleDenom]
  rw [this]; simp

end scaling

theorem scaling_eq_rat (D N mode : ℕ) (h : List ℕ) :
    (scaling D N mode h : ℚ) =
      (N : ℚ) ^ D / 2 ^ ((List.range D).countP (halved D N mode h)) := scaling_eq D N mode h

theorem scaling_mode_zero_rat (D N : ℕ) (h : List ℕ) : (scaling D N 0 h : ℚ) = (N : ℚ) ^ D :=
  scaling_mode_zero D N h



/-! ### L5 (continued) — the blocks partition the stored indices -/

theorem existsUnique_bit0 (P : Prop) : ∃! j, j < 2 ∧ (j.testBit 0 = true ↔ P) := by
  by_cases hP : P
  · refine ⟨1, by simp [hP], ?_⟩
    rintro j ⟨hj, h⟩
    interval_cases j <;> simp_all
  · refine ⟨0, by simp [hP], ?_⟩
    rintro j ⟨hj, h⟩
    interval_cases j <;> simp_all

theorem existsUnique_bit01 (P Q : Prop) :
    ∃! j, j < 4 ∧ ((j.testBit 0 = true ↔ P) ∧ (j.testBit 1 = true ↔ Q)) := by
  by_cases hP : P <;> by_cases hQ : Q
  · refine ⟨3, by simp [hP, hQ, Nat.testBit_eq_decide_div_mod_eq], ?_⟩
    rintro j ⟨hj, h⟩
    interval_cases j <;> simp_all [Nat.testBit_eq_decide_div_mod_eq]
  · refine ⟨1, by simp [hP, hQ, Nat.testBit_eq_decide_div_mod_eq], ?_⟩
    rintro j ⟨hj, h⟩
    interval_cases j <;> simp_all [Nat.testBit_eq_decide_div_mod_eq]
  · refine ⟨2, by simp [hP, hQ, Nat.testBit_eq_decide_div_mod_eq], ?_⟩
    rintro j ⟨hj, h⟩
    interval_cases j <;> simp_all [Nat.testBit_eq_decide_div_mod_eq]
  · refine ⟨0, by simp [hP, hQ, Nat.testBit_eq_decide_div_mod_eq], ?_⟩
    rintro j ⟨hj, h⟩
    interval_cases j <;> simp_all [Nat.testBit_eq_decide_div_mod_eq]

/-- `D = 2`: every stored index lies in exactly one block (also the Nyquist row `h0 = N/2` of
    an even `N`, which `get_modes_slices` puts into the negative block) -/
theorem modeBlocks_two_existsUnique (N h0 h1 : ℕ) (hN : 2 ≤ N) (h0lt : h0 < N)
    (h1lt : h1 < N / 2 + 1) :
    ∃! j, j < 2 ∧ inBlock ((modeBlocks 2 N).getD j []) [h0, h1] = true := by
  have key := inBlock_modeBlocks_two N h0 h1 hN h0lt h1lt
  obtain ⟨j0, ⟨hlt, hj0⟩, huniq⟩ := existsUnique_bit0 (fftfreq N h0 < 0)
  exact ⟨j0, ⟨hlt, (key j0 hlt).2 hj0⟩, fun j ⟨hj, hb⟩ => huniq j ⟨hj, (key j hj).1 hb⟩⟩

theorem modeBlocks_two_disjoint (N h0 h1 : ℕ) (hN : 2 ≤ N) (h0lt : h0 < N)
    (h1lt : h1 < N / 2 + 1) (j j' : ℕ) (hj : j < 2) (hj' : j' < 2)
    (hb : inBlock ((modeBlocks 2 N).getD j []) [h0, h1] = true)
    (hb' : inBlock ((modeBlocks 2 N).getD j' []) [h0, h1] = true) : j = j' := by
  obtain ⟨j0, _, huniq⟩ := modeBlocks_two_existsUnique N h0 h1 hN h0lt h1lt
  rw [huniq j ⟨hj, hb⟩, huniq j' ⟨hj', hb'⟩]

/-- a multi-index inside a block of `D = 2` is a valid stored index -/
theorem modeBlocks_two_subset (N h0 h1 : ℕ) (hN : 2 ≤ N) (b : List (ℕ × ℕ))
    (hb : b ∈ modeBlocks 2 N) (hin : inBlock b [h0, h1] = true) : h0 < N ∧ h1 < N / 2 + 1 := by
  rw [modeBlocks_two N hN] at hb
  simp only [List.mem_cons, List.not_mem_nil, or_false] at hb
  rcases hb with rfl | rfl <;> simp [inBlock] at hin <;> omega

/-- for even `N` the Nyquist row `h0 = N/2` (wavenumber `−N/2`) is *contained* in the second
    (negative) block: the blocks do not exclude the Nyquist mode of the leading axes -/
theorem modeBlocks_two_nyquist (N h1 : ℕ) (hN : 2 ≤ N) (heven : N % 2 = 0)
    (h1lt : h1 < N / 2 + 1) :
    inBlock ((modeBlocks 2 N).getD 1 []) [N / 2, h1] = true := by
  rw [modeBlocks_two N hN]
  simp [inBlock]; omega

theorem modeBlocks_three_existsUnique (N h0 h1 h2 : ℕ) (hN : 2 ≤ N) (h0lt : h0 < N)
    (h1lt : h1 < N) (h2lt : h2 < N / 2 + 1) :
    ∃! j, j < 4 ∧ inBlock ((modeBlocks 3 N).getD j []) [h0, h1, h2] = true := by
  have key := inBlock_modeBlocks_three N h0 h1 h2 hN h0lt h1lt h2lt
  obtain ⟨j0, ⟨hlt, hj0⟩, huniq⟩ := existsUnique_bit01 (fftfreq N h0 < 0) (fftfreq N h1 < 0)
  exact ⟨j0, ⟨hlt, (key j0 hlt).2 hj0⟩, fun j ⟨hj, hb⟩ => huniq j ⟨hj, (key j hj).1 hb⟩⟩

theorem modeBlocks_three_disjoint (N h0 h1 h2 : ℕ) (hN : 2 ≤ N) (h0lt : h0 < N)
    (h1lt : h1 < N) (h2lt : h2 < N / 2 + 1) (j j' : ℕ) (hj : j < 4) (hj' : j' < 4)
    (hb : inBlock ((modeBlocks 3 N).getD j []) [h0, h1, h2] = true)
    (hb' : inBlock ((modeBlocks 3 N).getD j' []) [h0, h1, h2] = true) : j = j' := by
  obtain ⟨j0, _, huniq⟩ := modeBlocks_three_existsUnique N h0 h1 h2 hN h0lt h1lt h2lt
  rw [huniq j ⟨hj, hb⟩, huniq j' ⟨hj', hb'⟩]

theorem modeBlocks_three_subset (N h0 h1 h2 : ℕ) (hN : 2 ≤ N) (b : List (ℕ × ℕ))
    (hb : b ∈ modeBlocks 3 N) (hin : inBlock b [h0, h1, h2] = true) :
    h0 < N ∧ h1 < N ∧ h2 < N / 2 + 1 := by
  rw [modeBlocks_three N hN] at hb
  simp only [List.mem_cons, List.not_mem_nil, or_false] at hb
  rcases hb with rfl | rfl | rfl | rfl <;> simp [inBlock] at hin <;> omega

/-- for `N = 1` the two "blocks" of `D = 2` coincide (`slice(-0, None)` is the whole axis): the
    hypothesis `2 ≤ N` of the theorems above is necessary -/
theorem modeBlocks_two_N_one : modeBlocks 2 1 = [[(0, 1), (0, 1)], [(0, 1), (0, 1)]] := by
  decide

/-! ### wavenumbers of flat indices -/
theorem wnFlat_abs_le (D N i : ℕ) (hD : 1 ≤ D) (hN : 0 < N) (hi : i < numModes D N) (d : ℕ)
    (hd : d < D) :
    |wn D N (unflatten (wavenumberShape D N) i) d| ≤ ((N / 2 : ℕ) : ℤ) := by
  apply wn_abs_le
  have := unflatten_getD_lt (wavenumberShape D N) (wavenumberShape_pos D N hN) i hi d
    (by rw [wavenumberShape_length D N hD]; exact hd)
  rwa [wavenumberShape_getD D N d hd] at this

theorem mem_wnFlat_abs_le (D N i : ℕ) (hD : 1 ≤ D) (hN : 0 < N) (hi : i < numModes D N) (k : ℤ)
    (hk : k ∈ wnFlat D N i) : |k| ≤ ((N / 2 : ℕ) : ℤ) := by
  obtain ⟨d, hd, rfl⟩ := (mem_wnVec D N _ k).1 hk
  exact wnFlat_abs_le D N i hD hN hi d hd

theorem wnVec_length (D N : ℕ) (h : List ℕ) : (wnVec D N h).length = D := by simp [wnVec]

/-! ### L8 (continued) — the individual modes -/
theorem isSpecial_wn (D N : ℕ) (h : List ℕ) (d : ℕ)
    (hh : h.getD d 0 < if d + 1 = D then N / 2 + 1 else N) :
    isSpecial N (d + 1 == D) (wn D N h d) = true ↔
      h.getD d 0 = 0 ∨ (N % 2 = 0 ∧ h.getD d 0 = N / 2) := by
  rw [isSpecial_iff]
  by_cases hd : d + 1 = D
  · rw [wn_last D N h d hd]
    simp only [hd, beq_self_eq_true, if_true]
    omega
  · rw [wn_leading D N h d hd]
    simp only [hd, if_false] at hh
    have hbeq : (d + 1 == D) = false := by simpa using hd
    simp only [hbeq, Bool.false_eq_true, if_false]
    rw [fftfreq_eq_zero_iff N _ hh]
    constructor
    · rintro (h0 | ⟨he, hk⟩)
      · exact Or.inl h0
      · right
        refine ⟨he, ?_⟩
        have := (fftfreq_abs_eq_nyquist_iff N _ hh he).1 (by rw [hk, abs_neg, abs_of_nonneg (by positivity)])
        exact this
    · rintro (h0 | ⟨he, hk⟩)
      · exact Or.inl h0
      · right
        refine ⟨he, ?_⟩
        rw [hk]
        exact fftfreq_nyquist N (by omega) he

section
variable {K : Type} [Field K]

/-- `reconstruction`: only the last (rfft) axis is halved, and only away from DC / Nyquist -/
theorem scaling_mode_one (D N : ℕ) (hD : 1 ≤ D) (h : List ℕ) :
    (scaling D N 1 h : K) =
      if isSpecial N true (wn D N h (D - 1)) = true then (N : K) ^ D else (N : K) ^ D / 2 := by
  obtain ⟨D', rfl⟩ : ∃ D', D = D' + 1 := ⟨D - 1, by omega⟩
  rw [scaling_eq, List.range_succ, List.countP_append]
  have h0 : (List.range D').countP (halved (D' + 1) N 1 h) = 0 := by
    rw [List.countP_eq_zero]
    intro d hd
    have : d < D' := List.mem_range.1 hd
    have hne : ¬ (d = D') := by omega
    simp [halved, scaleDenom, hne]
  rw [h0]
  simp only [Nat.add_sub_cancel, List.countP_cons, List.countP_nil, zero_add]
  cases hs : isSpecial N true (wn (D' + 1) N h D') <;> simp [halved, scaleDenom, hs]

/-- `coef_extraction`: every axis away from DC / Nyquist is halved -/
theorem scaling_mode_two (D N : ℕ) (h : List ℕ) :
    (scaling D N 2 h : K) =
      (N : K) ^ D / 2 ^ ((List.range D).countP
        (fun d => !(isSpecial N (d + 1 == D) (wn D N h d)))) := by
  rw [scaling_eq]
  congr 2
  apply List.countP_congr
  intro d _
  simp [halved, scaleDenom]
end




/-! ### L5 for every number of spatial dimensions `D ≥ 1` -/

/-- `itertools.product([l, r], …, [l, r])`: all lists of length `n` over `{l, r}` -/
theorem mem_modeSlices_prod (l r : Option ℤ × Option ℤ) (n : ℕ) (p : List (Option ℤ × Option ℤ)) :
    p ∈ modeSlices.prod l r n ↔ p.length = n ∧ ∀ x ∈ p, x = l ∨ x = r := by
  induction n generalizing p with
  | zero =>
    simp only [modeSlices.prod, List.mem_singleton]
    constructor
    · rintro rfl; simp
    · rintro ⟨h, _⟩; exact List.length_eq_zero_iff.1 h
  | succ n ih =>
    simp only [modeSlices.prod, List.mem_flatMap, List.mem_cons, List.not_mem_nil, or_false]
    constructor
    · rintro ⟨q, hq, rfl | rfl⟩
      · obtain ⟨h1, h2⟩ := (ih q).1 hq
        refine ⟨by simp [h1], ?_⟩
        intro x hx
        rcases List.mem_append.1 hx with hx | hx
        · exact h2 x hx
        · left; simpa using hx
      · obtain ⟨h1, h2⟩ := (ih q).1 hq
        refine ⟨by simp [h1], ?_⟩
        intro x hx
        rcases List.mem_append.1 hx with hx | hx
        · exact h2 x hx
        · right; simpa using hx
    · rintro ⟨h1, h2⟩
      rcases List.eq_nil_or_concat p with rfl | ⟨q, x, rfl⟩
      · simp at h1
      · refine ⟨q, (ih q).2 ⟨by simpa using h1, fun y hy => h2 y (by simp [hy])⟩, ?_⟩
        rcases h2 x (by simp) with rfl | rfl
        · left; simp
        · right; simp

theorem inBlock_append_single (bs : List (ℕ × ℕ)) (hs : List ℕ) (c : ℕ × ℕ) (x : ℕ)
    (hlen : bs.length = hs.length) :
    inBlock (bs ++ [c]) (hs ++ [x]) = (inBlock bs hs && (decide (c.1 ≤ x) && decide (x < c.2))) := by
  simp [inBlock, List.zip_append hlen]

theorem inBlock_cons (c : ℕ × ℕ) (bs : List (ℕ × ℕ)) (x : ℕ) (hs : List ℕ) :
    inBlock (c :: bs) (x :: hs) = ((decide (c.1 ≤ x) && decide (x < c.2)) && inBlock bs hs) := by
  simp [inBlock]


/-- the index range a leading axis contributes: non-negative (`false`) or negative (`true`)
    wavenumbers -/
def signRange (N : ℕ) (neg : Bool) : ℕ × ℕ := if neg then ((N + 1) / 2, N) else (0, (N + 1) / 2)

theorem pySlice_leftRight (N : ℕ) (hN : 2 ≤ N) (x : Option ℤ × Option ℤ)
    (hx : x = (if N % 2 = 0 then ((none : Option ℤ), some ((N / 2 : ℕ) : ℤ))
        else (none, some (((N / 2 : ℕ) : ℤ) + 1))) ∨ x = (some (-((N / 2 : ℕ) : ℤ)), none)) :
    ∃ s : Bool, pySlice N x.1 x.2 = signRange N s := by
  rcases hx with rfl | rfl
  · exact ⟨false, by rw [pySlice_left]; rfl⟩
  · exact ⟨true, by rw [pySlice_right N hN]; rfl⟩

/-- all `D`: the blocks are exactly the sign patterns of the `D − 1` leading axes, each followed
    by the full range of the rfft axis -/
theorem mem_modeBlocks_iff (D N : ℕ) (hD : 1 ≤ D) (hN : 2 ≤ N) (b : List (ℕ × ℕ)) :
    b ∈ modeBlocks D N ↔
      ∃ signs : List Bool, signs.length = D - 1 ∧
        b = signs.map (signRange N) ++ [(0, N / 2 + 1)] := by
  obtain ⟨n, rfl⟩ : ∃ n, D = n + 1 := ⟨D - 1, by omega⟩
  simp only [Nat.add_sub_cancel]
  have hmb : ∀ p : List (Option ℤ × Option ℤ), p.length = n →
      (List.zip ((((none : Option ℤ), some (((N / 2 : ℕ) : ℤ) + 1)) :: p).reverse)
          (wavenumberShape (n + 1) N)).map (fun (s, len) => pySlice len s.1 s.2)
        = p.reverse.map (fun s => pySlice N s.1 s.2) ++ [(0, N / 2 + 1)] := by
    intro p hp
    rw [List.reverse_cons]
    simp only [wavenumberShape, Nat.add_sub_cancel]
    rw [List.zip_append (by simp [hp]), List.map_append]
    congr 1
    · apply List.ext_getElem
      · simp [hp]
      · intro i h1 h2
        simp
    · simp only [List.zip_cons_cons, List.zip_nil_right, List.map_cons, List.map_nil, pySlice_last]
  unfold modeBlocks modeSlices
  simp only [Nat.add_sub_cancel, List.map_map, List.mem_map, Function.comp_apply]
  constructor
  · rintro ⟨p, hp, rfl⟩
    obtain ⟨hlen, hall⟩ := (mem_modeSlices_prod _ _ n p).1 hp
    rw [hmb p hlen]
    have : ∀ q : List (Option ℤ × Option ℤ), (∀ x ∈ q, x = (if N % 2 = 0 then ((none : Option ℤ), some ((N / 2 : ℕ) : ℤ))
        else (none, some (((N / 2 : ℕ) : ℤ) + 1))) ∨ x = (some (-((N / 2 : ℕ) : ℤ)), none)) →
        ∃ signs : List Bool, signs.length = q.length ∧
          q.map (fun s => pySlice N s.1 s.2) = signs.map (signRange N) := by
      intro q
      induction q with
      | nil => intro _; exact ⟨[], rfl, rfl⟩
      | cons x q ih =>
        intro hq
        obtain ⟨signs, h1, h2⟩ := ih (fun y hy => hq y (by simp [hy]))
        obtain ⟨s, hs⟩ := pySlice_leftRight N hN x (hq x (by simp))
        exact ⟨s :: signs, by simp [h1], by simp [h2, hs]⟩
    obtain ⟨signs, h1, h2⟩ := this p.reverse (fun x hx => hall x (by simpa using hx))
    exact ⟨signs, by simp [h1, hlen], by rw [h2]⟩
  · rintro ⟨signs, hlen, rfl⟩
    refine ⟨(signs.map (fun s => if s = true then (some (-((N / 2 : ℕ) : ℤ)), (none : Option ℤ))
      else (if N % 2 = 0 then ((none : Option ℤ), some ((N / 2 : ℕ) : ℤ))
        else (none, some (((N / 2 : ℕ) : ℤ) + 1))))).reverse, ?_, ?_⟩
    · rw [mem_modeSlices_prod]
      refine ⟨by simp [hlen], ?_⟩
      intro x hx
      simp only [List.mem_reverse, List.mem_map] at hx
      obtain ⟨s, _, rfl⟩ := hx
      cases s <;> simp
    · rw [hmb _ (by simp [hlen]), List.reverse_reverse, List.map_map]
      congr 1
      apply List.map_congr_left
      intro s _
      cases s
      · simp only [Function.comp_apply, Bool.false_eq_true, if_false]
        rw [pySlice_left]; rfl
      · simp only [Function.comp_apply, if_true]
        rw [pySlice_right N hN]; rfl

theorem inBlock_signs_iff (N : ℕ) (hs : List ℕ) (hhs : ∀ i ∈ hs, i < N) (signs : List Bool)
    (hlen : signs.length = hs.length) :
    inBlock (signs.map (signRange N)) hs = true ↔
      signs = hs.map (fun i => decide (fftfreq N i < 0)) := by
  induction hs generalizing signs with
  | nil =>
    have : signs = [] := List.length_eq_zero_iff.1 hlen
    subst this
    simp [inBlock]
  | cons x hs ih =>
    cases signs with
    | nil => simp at hlen
    | cons s signs =>
      have hx : x < N := hhs x (by simp)
      have hf := fftfreq_nonneg_iff' N x hx
      rw [List.map_cons, inBlock_cons, Bool.and_eq_true,
        ih (fun i hi => hhs i (by simp [hi])) signs (by simpa using hlen)]
      simp only [List.map_cons, List.cons.injEq]
      apply and_congr_left'
      cases s <;> simp [signRange] <;> omega

/-- all `D ≥ 1`, `N ≥ 2`: a stored multi-index `hs ++ [hl]` lies in exactly one block, the one
    given by the signs of its leading wavenumbers -/
theorem mem_modeBlocks_inBlock_iff (N : ℕ) (hN : 2 ≤ N) (hs : List ℕ) (hl : ℕ)
    (hhs : ∀ i ∈ hs, i < N) (hhl : hl < N / 2 + 1) (b : List (ℕ × ℕ)) :
    (b ∈ modeBlocks (hs.length + 1) N ∧ inBlock b (hs ++ [hl]) = true) ↔
      b = hs.map (fun i => signRange N (decide (fftfreq N i < 0))) ++ [(0, N / 2 + 1)] := by
  rw [mem_modeBlocks_iff _ N (by omega) hN]
  simp only [Nat.add_sub_cancel]
  constructor
  · rintro ⟨⟨signs, hlen, rfl⟩, hin⟩
    rw [inBlock_append_single _ _ _ _ (by simp [hlen]), Bool.and_eq_true] at hin
    rw [(inBlock_signs_iff N hs hhs signs hlen).1 hin.1, List.map_map]
    rfl
  · rintro rfl
    refine ⟨⟨hs.map (fun i => decide (fftfreq N i < 0)), by simp, by rw [List.map_map]; rfl⟩, ?_⟩
    rw [inBlock_append_single _ _ _ _ (by simp), Bool.and_eq_true]
    refine ⟨?_, by simp; omega⟩
    have := (inBlock_signs_iff N hs hhs (hs.map (fun i => decide (fftfreq N i < 0))) (by simp)).2 rfl
    rwa [List.map_map] at this

theorem modeBlocks_existsUnique (N : ℕ) (hN : 2 ≤ N) (hs : List ℕ) (hl : ℕ)
    (hhs : ∀ i ∈ hs, i < N) (hhl : hl < N / 2 + 1) :
    ∃! b, b ∈ modeBlocks (hs.length + 1) N ∧ inBlock b (hs ++ [hl]) = true :=
  ⟨_, (mem_modeBlocks_inBlock_iff N hN hs hl hhs hhl _).2 rfl,
    fun b hb => (mem_modeBlocks_inBlock_iff N hN hs hl hhs hhl b).1 hb⟩


end Exponax.Layout
