import Mathlib.Tactic
import ExponaxModel.Proofs.SpectralLayoutEq
import ExponaxModel.Proofs.DFT
import ExponaxModel.Proofs.ExactLinearModes
import ExponaxModel.Proofs.ExactLinearIndex
import ExponaxModel.Proofs.ExactLinear
/-
H5 (C04) — `indexing="ij"` versus `indexing="xy"`, every `D ≥ 2` (in particular `D = 2, 3`), on the layout helpers
REGENERATED from `exponax/_spectral.py` / `_utils.py` (`Gen.SpectralLayout.*`).

What `numpy.meshgrid(*xs, indexing="xy")` does (as `Gen.SpectralLayout.stack_meshgrid` defines it): the stacked
arrays are the `"ij"` ones with the first two ARRAY AXES transposed, `stack(xy)[:, idx] = stack(ij)[:, swapIdx idx]`
(`stack_meshgrid_xy_eq_ij_swapIdx`).  Consequences for the library arrays, at the SAME trailing index:

 * wavenumbers:  `build_wavenumbers(…, "xy")[:, h] = swap01 (build_wavenumbers(…, "ij")[:, h])` — the first two
   COMPONENT entries swapped, same shape `(D, N, …, N, N//2+1)`  (for `D = 2` the source reverses the list of axis
   vectors first; for `D ≥ 3` the first two axis vectors are equal), `build_wavenumbers_xy_swap`;
 * grid:  `make_grid(…, "xy")[:, idx] = swap01 (make_grid(…, "ij")[:, idx]) = make_grid(…, "ij")[:, swapIdx idx]` —
   because every axis carries the same 1-D grid, transposing the first two array axes IS swapping the first two
   coordinate components (doing both would be the identity), `make_grid_xy_swap`;
 * scaling arrays: independent of the indexing, all three modes (and the invalid mode), `build_scaling_array_xy`;
 * single-mode read-off: `a cos(s κ·x + φ)` sampled on the `"xy"` grid is the model field with wave vector
   `swap01 κ` (in array-axis order), hence appears exactly at the stored mode(s) where the `"xy"` wavenumber array
   reads `κ` / `−κ` — the `"xy"` pair (grid, wavenumbers) is consistent with the transform exactly as the `"ij"`
   pair is: `single_mode_xy`, `single_mode_ij`.
-/
set_option linter.unusedVariables false
namespace Exponax.SmallGaps2
open Exponax Exponax.Layout Exponax.Transform Exponax.DFT Exponax.ExactLinear Exponax.Gen.SpectralLayout Finset

/-! ### swapping the first two entries -/

/-- swap the first two entries of a list (identity on lists shorter than 2) -/
def swap01 {α : Type} : List α → List α
  | a :: b :: t => b :: a :: t
  | l => l

/-- the transposition `0 ↔ 1` of axis numbers -/
def sw (d : ℕ) : ℕ := if d = 0 then 1 else if d = 1 then 0 else d

theorem sw_sw (d : ℕ) : sw (sw d) = d := by
  unfold sw
  by_cases h0 : d = 0
  · subst h0; simp
  · by_cases h1 : d = 1
    · subst h1; simp
    · simp [h0, h1]

theorem sw_lt (D d : ℕ) (hD : 2 ≤ D) (hd : d < D) : sw d < D := by
  unfold sw; split_ifs <;> omega

@[simp] theorem swap01_swap01 {α : Type} (l : List α) : swap01 (swap01 l) = l := by
  rcases l with _ | ⟨a, _ | ⟨b, t⟩⟩ <;> rfl

@[simp] theorem swap01_length {α : Type} (l : List α) : (swap01 l).length = l.length := by
  rcases l with _ | ⟨a, _ | ⟨b, t⟩⟩ <;> rfl

theorem swap01_getD {α : Type} (l : List α) (hl : 2 ≤ l.length) (d : ℕ) (x : α) :
    (swap01 l).getD d x = l.getD (sw d) x := by
  rcases l with _ | ⟨a, _ | ⟨b, t⟩⟩
  · simp at hl
  · simp at hl
  · rcases d with _ | _ | d <;> simp [swap01, sw]

theorem swap01_eq_iff {α : Type} (l m : List α) : swap01 l = m ↔ l = swap01 m := by
  constructor
  · intro h; rw [← h, swap01_swap01]
  · intro h; rw [h, swap01_swap01]

theorem swap01_map {α β : Type} (f : α → β) (l : List α) : swap01 (l.map f) = (swap01 l).map f := by
  rcases l with _ | ⟨a, _ | ⟨b, t⟩⟩ <;> rfl

theorem negK_swap01 (κ : List ℤ) : negK (swap01 κ) = swap01 (negK κ) := by
  unfold negK; rw [swap01_map]

/-- the trailing index with its first two entries swapped (missing entries read as `0`, as `getD` does) -/
def swapIdx (idx : List ℕ) : List ℕ := idx.getD 1 0 :: idx.getD 0 0 :: idx.drop 2

theorem swapIdx_getD (idx : List ℕ) (d : ℕ) : (swapIdx idx).getD d 0 = xyIndex idx d := by
  rcases d with _ | _ | d
  · simp [swapIdx, xyIndex]
  · simp [swapIdx, xyIndex]
  · have e : xyIndex idx (d + 2) = idx.getD (d + 2) 0 := by simp [xyIndex]
    rw [e, swapIdx, List.getD_cons_succ, List.getD_cons_succ, List.getD_eq_getElem?_getD,
      List.getD_eq_getElem?_getD, List.getElem?_drop, Nat.add_comm]

theorem xyIndex_eq (idx : List ℕ) (d : ℕ) : xyIndex idx d = idx.getD (sw d) 0 := rfl

theorem range_two_add (n : ℕ) : List.range (n + 2) = 0 :: 1 :: (List.range n).map (· + 2) := by
  rw [List.range_succ_eq_map, List.range_succ_eq_map]
  simp [Function.comp]

theorem range_map_sw {α : Type} (D : ℕ) (hD : 2 ≤ D) (f : ℕ → α) :
    (List.range D).map (fun d => f (sw d)) = swap01 ((List.range D).map f) := by
  obtain ⟨n, rfl⟩ : ∃ n, D = n + 2 := ⟨D - 2, by omega⟩
  rw [range_two_add]
  simp [swap01, sw]

/-! ### `meshgrid(indexing="xy")` -/

/-- **numpy's `meshgrid(indexing="xy")`**: the stacked arrays are the `"ij"` ones read at the index with the first two
    array axes transposed (at least two inputs; with one input `"xy"` is `"ij"`) -/
theorem stack_meshgrid_xy_eq_ij_swapIdx {T : Type} (xs : List (Vec T)) (hx : 2 ≤ xs.length) (idx : List ℕ) :
    stack_meshgrid xs "xy" idx = stack_meshgrid xs "ij" (swapIdx idx) := by
  rw [stack_meshgrid_xy xs hx, stack_meshgrid_ij]
  simp only [swapIdx_getD]

theorem stack_meshgrid_xy_one {T : Type} (x : Vec T) (idx : List ℕ) :
    stack_meshgrid [x] "xy" idx = stack_meshgrid [x] "ij" idx := by
  simp [stack_meshgrid, meshgrid_axis_xy_one]

/-- the axis lists of `build_wavenumbers` / `_build_scaling_array`: `D − 1` equal vectors and a last one; the source
    reverses the list for `"xy"` when `D = 2`; the result is the `"ij"` stack with the first two entries swapped -/
theorem stack_axes_xy {T : Type} (D : ℕ) (hD : 2 ≤ D) (a b : Vec T) (h : List ℕ) :
    stack_meshgrid (if (("xy" : String) == "xy" && D == 2) = true then (List.replicate (D - 1) a ++ [b]).reverse
        else List.replicate (D - 1) a ++ [b]) "xy" h
      = swap01 (stack_meshgrid (List.replicate (D - 1) a ++ [b]) "ij" h) := by
  rcases Nat.lt_or_ge D 3 with h3 | h3
  · have : D = 2 := by omega
    subst this
    simp [stack_meshgrid, meshgrid_axis_xy, swap01]
  · have h2 : (D == 2) = false := by rw [beq_eq_false_iff_ne]; omega
    simp only [h2, Bool.and_false, Bool.false_eq_true, if_false]
    rw [stack_meshgrid_xy _ (by simp; omega), stack_meshgrid_ij, mapIdx_replicate_append,
      mapIdx_replicate_append]
    have e : D - 1 + 1 = D := by omega
    rw [e, ← range_map_sw D (by omega)]
    apply List.map_congr_left
    intro d hd
    have hd' : d < D := by simpa using hd
    rw [xyIndex_eq]
    by_cases h1 : d = D - 1
    · have : sw d = D - 1 := by unfold sw; split_ifs <;> omega
      rw [if_pos h1, if_pos this, this]
    · have : sw d ≠ D - 1 := by unfold sw; split_ifs <;> omega
      rw [if_neg h1, if_neg this]

/-! ### wavenumbers -/

/-- **wavenumber array, `D ≥ 2`**: `"xy"` is `"ij"` with the first two COMPONENT entries swapped (same index) -/
theorem build_wavenumbers_xy_swap (D N : ℕ) (hD : 2 ≤ D) (hN : 0 < N) (h : List ℕ) :
    build_wavenumbers D N "xy" h = swap01 (build_wavenumbers D N "ij" h) ∧
    build_wavenumbers D N "xy" h = swap01 (wnVec D N h) ∧
    build_wavenumbers_shape D N "xy" = build_wavenumbers_shape D N "ij" := by
  have e : build_wavenumbers D N "xy" h = swap01 (build_wavenumbers D N "ij" h) := by
    rw [build_wavenumbers_unfold D N hN, build_wavenumbers_unfold D N hN]
    simp only [str_ij_ne_xy, Bool.false_and, Bool.false_eq_true, if_false]
    exact stack_axes_xy D hD _ _ h
  refine ⟨e, ?_, ?_⟩
  · rw [e, build_wavenumbers_ij D N (by omega) hN]
  · rw [build_wavenumbers_shape_xy D N (by omega) hN, build_wavenumbers_shape_ij D N (by omega) hN]

/-- at a flat stored index: the `"xy"` array reads `swap01 (wnFlat D N i)` -/
theorem build_wavenumbers_xy_flat (D N : ℕ) (hD : 2 ≤ D) (hN : 0 < N) (i : ℕ) :
    build_wavenumbers D N "xy" (unflatten (wavenumberShape D N) i) = swap01 (wnFlat D N i) :=
  (build_wavenumbers_xy_swap D N hD hN _).2.1

/-- `D = 2` and `D = 3` spelled out -/
theorem build_wavenumbers_xy_two_three (N : ℕ) (hN : 0 < N) (h : List ℕ) :
    build_wavenumbers 2 N "xy" h = [rfftfreq N (h.getD 1 0), fftfreq N (h.getD 0 0)] ∧
    build_wavenumbers 2 N "ij" h = [fftfreq N (h.getD 0 0), rfftfreq N (h.getD 1 0)] ∧
    build_wavenumbers 3 N "xy" h = [fftfreq N (h.getD 1 0), fftfreq N (h.getD 0 0), rfftfreq N (h.getD 2 0)] ∧
    build_wavenumbers 3 N "ij" h = [fftfreq N (h.getD 0 0), fftfreq N (h.getD 1 0), rfftfreq N (h.getD 2 0)] := by
  have h2 := (build_wavenumbers_xy_swap 2 N le_rfl hN h).2.1
  have h3 := (build_wavenumbers_xy_swap 3 N (by norm_num) hN h).2.1
  rw [h2, h3, build_wavenumbers_ij 2 N (by norm_num) hN, build_wavenumbers_ij 3 N (by norm_num) hN]
  simp [wnVec, wn, List.range_succ, swap01]

/-- for `D ≥ 3` (two full leading axes) it is ALSO the `"ij"` array at the transposed index -/
theorem build_wavenumbers_xy_transposed (D N : ℕ) (hD : 3 ≤ D) (hN : 0 < N) (h : List ℕ) :
    build_wavenumbers D N "xy" h = build_wavenumbers D N "ij" (swapIdx h) := by
  rw [build_wavenumbers_unfold D N hN, build_wavenumbers_unfold D N hN]
  have h2 : (D == 2) = false := by rw [beq_eq_false_iff_ne]; omega
  simp only [h2, Bool.and_false, Bool.false_eq_true, if_false]
  exact stack_meshgrid_xy_eq_ij_swapIdx _ (by simp [wnAxes]; omega) h

/-! ### scaling arrays -/

theorem prod_axis0_swap01 (l : List ℚ) : prod_axis0 (swap01 l) = prod_axis0 l := by
  rcases l with _ | ⟨a, _ | ⟨b, t⟩⟩
  · rfl
  · rfl
  · simp only [swap01, prod_axis0, List.foldl_cons, one_mul]
    rw [mul_comm]

/-- **the scaling arrays do not depend on the indexing** (every `D ≥ 1`, every pair of denominators) -/
theorem _build_scaling_array_xy (D N r o : ℕ) (hD : 1 ≤ D) (hN : 0 < N) (h : List ℕ) :
    _build_scaling_array D N r o "xy" h = _build_scaling_array D N r o "ij" h := by
  rw [build_scaling_array_unfold D N r o hN, build_scaling_array_unfold D N r o hN]
  simp only [str_ij_ne_xy, Bool.false_and, Bool.false_eq_true, if_false]
  rcases Nat.lt_or_ge D 2 with h1 | h2
  · have : D = 1 := by omega
    subst this
    simp only [scAxes, Nat.sub_self, List.replicate_zero, List.nil_append]
    have : ((("xy" : String) == "xy") && (1 == 2)) = false := by decide
    rw [this]
    simp only [Bool.false_eq_true, if_false]
    rw [stack_meshgrid_xy_one]
  · unfold scAxes
    rw [stack_axes_xy D h2, prod_axis0_swap01]

/-- all modes of `build_scaling_array` (`"norm_compensation"`, `"reconstruction"`, `"coef_extraction"`, and the
    rejected ones) -/
theorem build_scaling_array_xy (D N : ℕ) (hD : 1 ≤ D) (hN : 0 < N) (mode : String) (h : List ℕ) :
    build_scaling_array D N mode "xy" h = build_scaling_array D N mode "ij" h := by
  unfold build_scaling_array
  simp only [_build_scaling_array_xy D N _ _ hD hN]

/-- … hence they are the model's `Layout.scaling` under `"xy"` too -/
theorem build_scaling_array_xy_model (D N : ℕ) (hD : 1 ≤ D) (hN : 0 < N) (h : List ℕ) :
    build_scaling_array D N "norm_compensation" "xy" h = some (scaling D N 0 h) ∧
    build_scaling_array D N "reconstruction" "xy" h = some (scaling D N 1 h) ∧
    build_scaling_array D N "coef_extraction" "xy" h = some (scaling D N 2 h) := by
  simp only [build_scaling_array_xy D N hD hN]
  exact ⟨build_scaling_array_norm_compensation D N hD hN h, build_scaling_array_reconstruction D N hD hN h,
    build_scaling_array_coef_extraction D N hD hN h⟩

/-! ### grid -/

section grid
variable {K : Type} [Field K]

/-- **grid, `D ≥ 2`**: the `"xy"` grid is the `"ij"` grid with the first two coordinate components swapped (same
    index) — equivalently, the `"ij"` grid with the first two array axes transposed (same components) -/
theorem make_grid_xy_swap (D N : ℕ) (hD : 2 ≤ D) (L : K) (full zc : Bool) (idx : List ℕ) :
    make_grid D L N full zc "xy" idx = swap01 (make_grid D L N full zc "ij" idx) ∧
    make_grid D L N full zc "xy" idx = make_grid D L N full zc "ij" (swapIdx idx) ∧
    make_grid D L N full zc "xy" idx = (List.range D).map (fun d => gridCoord L N zc (idx.getD (sw d) 0)) := by
  have e3 : make_grid D L N full zc "xy" idx
      = (List.range D).map (fun d => gridCoord L N zc (idx.getD (sw d) 0)) := by
    rw [make_grid_unfold, stack_meshgrid_xy _ (by simpa using hD), mapIdx_replicate]
    rfl
  refine ⟨?_, ?_, e3⟩
  · rw [e3, make_grid_ij, ← range_map_sw D hD (fun d => gridCoord L N zc (idx.getD d 0))]
  · rw [make_grid_unfold, make_grid_unfold]
    exact stack_meshgrid_xy_eq_ij_swapIdx _ (by simpa using hD) idx

theorem make_grid_xy_getD (D N : ℕ) (hD : 2 ≤ D) (L : K) (full zc : Bool) (idx : List ℕ) (d : ℕ) (hd : d < D) :
    (make_grid D L N full zc "xy" idx).getD d 0 = gridCoord L N zc (idx.getD (sw d) 0) := by
  rw [(make_grid_xy_swap D N hD L full zc idx).2.2]
  simp [List.getD_eq_getElem?_getD, hd]

theorem make_grid_ij_getD (D N : ℕ) (L : K) (full zc : Bool) (idx : List ℕ) (d : ℕ) (hd : d < D) :
    (make_grid D L N full zc "ij" idx).getD d 0 = gridCoord L N zc (idx.getD d 0) := by
  rw [make_grid_ij]
  simp [List.getD_eq_getElem?_getD, hd]

/-- `D = 2`, `D = 3` spelled out: `X[j₀, j₁, …] = x[j₁]`, `Y[j₀, j₁, …] = x[j₀]` -/
theorem make_grid_xy_two_three (N : ℕ) (L : K) (full zc : Bool) (idx : List ℕ) :
    make_grid 2 L N full zc "xy" idx = [gridCoord L N zc (idx.getD 1 0), gridCoord L N zc (idx.getD 0 0)] ∧
    make_grid 3 L N full zc "xy" idx =
      [gridCoord L N zc (idx.getD 1 0), gridCoord L N zc (idx.getD 0 0), gridCoord L N zc (idx.getD 2 0)] := by
  rw [(make_grid_xy_swap 2 N le_rfl L full zc idx).2.2, (make_grid_xy_swap 3 N (by norm_num) L full zc idx).2.2]
  simp [List.range_succ, sw]

/-- the stacked `"xy"` arrays of equal axis vectors have the `"ij"` shape -/
theorem meshgrid_shape_replicate_xy {T : Type} (D : ℕ) (v : Vec T) :
    meshgrid_shape (List.replicate D v) "xy" = meshgrid_shape (List.replicate D v) "ij" := by
  rw [meshgrid_shape_ij]
  unfold meshgrid_shape
  apply List.ext_getElem
  · simp
  · intro i h1 h2
    have hi : i < D := by simpa using h1
    simp only [List.length_replicate, List.getElem_map, List.getElem_range, List.map_replicate,
      List.getElem_replicate]
    rcases Nat.lt_or_ge D 2 with hD | hD
    · have : D = 1 := by omega
      subst this
      rw [meshgrid_axis_xy_one]
      simp [List.getD_eq_getElem?_getD, hi]
    · rw [meshgrid_axis_xy _ _ hD]
      have : (if i = 0 then 1 else if i = 1 then 0 else i) < D := by split_ifs <;> omega
      simp [List.getD_eq_getElem?_getD, this]

/-- the `"xy"` grid array has the same shape `(D, N, …, N)` (every `D`) -/
theorem make_grid_shape_xy (D N : ℕ) (L : K) (full zc : Bool) :
    make_grid_shape D L N full zc "xy" = make_grid_shape D L N full zc "ij" := by
  unfold make_grid_shape
  simp only [meshgrid_shape_replicate_xy]

end grid

/-! ### the single-mode read-off on the `"ij"` and on the `"xy"` grid -/

/-- the multi-index of the flat grid index `j` is its base-`N` digits -/
theorem unflatten_grid_getD (D N j d : ℕ) (hd : d < D) (hj : j < N ^ D) :
    (unflatten (List.replicate D N) j).getD d 0 = digit D N j d := by
  obtain ⟨E, rfl⟩ : ∃ E, D = E + 1 := ⟨D - 1, by omega⟩
  have e : List.replicate (E + 1) N = List.replicate E N ++ [N] := by
    rw [List.replicate_succ']
  rw [e]
  rw [pow_succ] at hj
  rcases Nat.lt_succ_iff_lt_or_eq.mp hd with h1 | h1
  · rw [unflatten_rep_getD_lt N N E j d h1 hj]
    unfold digit
    congr 2
    rw [show E + 1 - 1 - d = (E - 1 - d) + 1 by omega, pow_succ]
  · subst h1
    rw [unflatten_rep_getD_last N N d j hj]
    simp [digit]

/-- `a cos(Σ_d (2π/L) κ_d x_d + φ)` sampled at the points `x = make_grid(D, L, N, indexing)[:, idx(j)]` of the
    regenerated grid, as a flat (C-order) state of `N^D` entries -/
noncomputable def sampledOnGrid (D N : ℕ) (L : ℝ) (ix : String) (κ : List ℤ) (a φ : ℝ) : Array ℂ :=
  tab (N ^ D) (fun j => (((a * Real.cos (∑ d ∈ range D, (2 * Real.pi / L * (κ.getD d 0 : ℝ)) *
    (make_grid D L N false false ix (unflatten (List.replicate D N) j)).getD d 0 + φ)) : ℝ) : ℂ))

theorem gridCoord_real (L : ℝ) (N j : ℕ) : gridCoord L N false j = (j : ℝ) * L / (N : ℝ) := by
  simp [gridCoord, lit]

/-- on the `"ij"` grid the sampled wave is the model field with wave vector `κ` -/
theorem sampledOnGrid_ij (D N : ℕ) (hN : 0 < N) (L : ℝ) (hL : L ≠ 0) (κ : List ℤ) (a φ : ℝ) :
    sampledOnGrid D N L "ij" κ a φ = modeField D N κ a φ := by
  apply array_ext_getD _ _ (N ^ D) (by simp [sampledOnGrid]) (by simp)
  intro j hj
  rw [sampledOnGrid, tab_getD _ _ _ _ hj, modeField_getD D N κ a φ j hj, phaseK_eq_sum]
  congr 3
  push_cast
  rw [Finset.mul_sum, Finset.sum_div]
  congr 1
  apply Finset.sum_congr rfl
  intro d hd
  have hd' := Finset.mem_range.mp hd
  rw [make_grid_ij_getD D N L false false _ d hd', unflatten_grid_getD D N j d hd' hj, gridCoord_real]
  have hN' : (N : ℝ) ≠ 0 := by exact_mod_cast hN.ne'
  field_simp

theorem sum_range_sw (D : ℕ) (hD : 2 ≤ D) (F : ℕ → ℝ) : ∑ d ∈ range D, F (sw d) = ∑ d ∈ range D, F d := by
  obtain ⟨n, rfl⟩ : ∃ n, D = n + 2 := ⟨D - 2, by omega⟩
  rw [Finset.sum_range_succ', Finset.sum_range_succ', Finset.sum_range_succ', Finset.sum_range_succ']
  simp only [sw]
  simp
  ring

/-- on the `"xy"` grid the sampled wave is the model field with wave vector `swap01 κ` (array-axis order) -/
theorem sampledOnGrid_xy (D N : ℕ) (hD : 2 ≤ D) (hN : 0 < N) (L : ℝ) (hL : L ≠ 0) (κ : List ℤ)
    (hκ : κ.length = D) (a φ : ℝ) :
    sampledOnGrid D N L "xy" κ a φ = modeField D N (swap01 κ) a φ := by
  apply array_ext_getD _ _ (N ^ D) (by simp [sampledOnGrid]) (by simp)
  intro j hj
  rw [sampledOnGrid, tab_getD _ _ _ _ hj, modeField_getD D N (swap01 κ) a φ j hj, phaseK_eq_sum]
  congr 3
  push_cast
  rw [Finset.mul_sum, Finset.sum_div]
  rw [← sum_range_sw D hD (fun d => 2 * Real.pi * (((swap01 κ).getD d 0 : ℤ) * (digit D N j d : ℝ)) / (N : ℝ))]
  congr 1
  apply Finset.sum_congr rfl
  intro d hd
  have hd' := Finset.mem_range.mp hd
  rw [make_grid_xy_getD D N hD L false false _ d hd', unflatten_grid_getD D N j (sw d) (sw_lt D d hD hd') hj,
    gridCoord_real, swap01_getD κ (by omega), sw_sw]
  have hN' : (N : ℝ) ≠ 0 := by exact_mod_cast hN.ne'
  field_simp

theorem belowNyquist_swap01 {D N : ℕ} (hD : 2 ≤ D) {κ : List ℤ} (hκ : BelowNyquist D N κ) :
    BelowNyquist D N (swap01 κ) := by
  refine ⟨by rw [swap01_length]; exact hκ.1, ?_⟩
  intro d hd
  rw [swap01_getD κ (by rw [hκ.1]; exact hD)]
  exact hκ.2 _ (sw_lt D d hD hd)

/-- **single-mode read-off, `"ij"` pair** (the regenerated grid and the regenerated wavenumber array) -/
theorem single_mode_ij (D N : ℕ) (hD : 1 ≤ D) (hN : 0 < N) (L : ℝ) (hL : L ≠ 0) (κ : List ℤ)
    (hκ : BelowNyquist D N κ) (a φ : ℝ) (h : ℕ) (hh : h < numModes D N) :
    (rfftnM D N (sampledOnGrid D N L "ij" κ a φ)).getD h 0 =
      (if build_wavenumbers D N "ij" (unflatten (wavenumberShape D N) h) = κ
        then (a : ℂ) / 2 * ((N ^ D : ℕ) : ℂ) * Complex.exp ((φ : ℂ) * Complex.I) else 0) +
      if build_wavenumbers D N "ij" (unflatten (wavenumberShape D N) h) = negK κ
        then (a : ℂ) / 2 * ((N ^ D : ℕ) : ℂ) * Complex.exp (-((φ : ℂ) * Complex.I)) else 0 := by
  rw [sampledOnGrid_ij D N hN L hL, build_wavenumbers_ij_flat D N hD hN]
  exact rfftnM_modeField D N hD hN κ hκ a φ h hh

/-- **single-mode read-off, `"xy"` pair, every `D ≥ 2`** (transport of `C04_single_mode_nd`): `a cos(s κ·x + φ)`
    sampled on the `"xy"` grid appears exactly at the stored mode(s) that the `"xy"` wavenumber array names `κ` / `−κ`,
    with `(a/2) N^D e^{±iφ}`, and nowhere else -/
theorem single_mode_xy (D N : ℕ) (hD : 2 ≤ D) (hN : 0 < N) (L : ℝ) (hL : L ≠ 0) (κ : List ℤ)
    (hκ : BelowNyquist D N κ) (a φ : ℝ) (h : ℕ) (hh : h < numModes D N) :
    (rfftnM D N (sampledOnGrid D N L "xy" κ a φ)).getD h 0 =
      (if build_wavenumbers D N "xy" (unflatten (wavenumberShape D N) h) = κ
        then (a : ℂ) / 2 * ((N ^ D : ℕ) : ℂ) * Complex.exp ((φ : ℂ) * Complex.I) else 0) +
      if build_wavenumbers D N "xy" (unflatten (wavenumberShape D N) h) = negK κ
        then (a : ℂ) / 2 * ((N ^ D : ℕ) : ℂ) * Complex.exp (-((φ : ℂ) * Complex.I)) else 0 := by
  rw [sampledOnGrid_xy D N hD hN L hL κ hκ.1, build_wavenumbers_xy_flat D N hD hN,
    rfftnM_modeField D N (by omega) hN _ (belowNyquist_swap01 hD hκ) a φ h hh, negK_swap01]
  have e1 : (wnFlat D N h = swap01 κ) = (swap01 (wnFlat D N h) = κ) :=
    propext ⟨fun e => by rw [e, swap01_swap01], fun e => by rw [← e, swap01_swap01]⟩
  have e2 : (wnFlat D N h = swap01 (negK κ)) = (swap01 (wnFlat D N h) = negK κ) :=
    propext ⟨fun e => by rw [e, swap01_swap01], fun e => by rw [← e, swap01_swap01]⟩
  simp only [e1, e2]

/-- the two samplings are different states in general, related by transposing the first two array axes of the wave
    vector: the `"xy"` sample of `κ` is the `"ij"` sample of `swap01 κ` -/
theorem sampledOnGrid_xy_eq_ij (D N : ℕ) (hD : 2 ≤ D) (hN : 0 < N) (L : ℝ) (hL : L ≠ 0) (κ : List ℤ)
    (hκ : κ.length = D) (a φ : ℝ) :
    sampledOnGrid D N L "xy" κ a φ = sampledOnGrid D N L "ij" (swap01 κ) a φ := by
  rw [sampledOnGrid_xy D N hD hN L hL κ hκ, sampledOnGrid_ij D N hN L hL]

/-! non-vacuity -/
example : BelowNyquist 2 8 [1, -2] ∧ BelowNyquist 3 5 [2, -2, 1] ∧ (2 : ℝ) ≠ 0 :=
  ⟨⟨rfl, by intro d hd; interval_cases d <;> simp⟩, ⟨rfl, by intro d hd; interval_cases d <;> simp⟩, by norm_num⟩
example : build_wavenumbers 2 8 "xy" [6, 1] = [1, -2] ∧ build_wavenumbers 2 8 "ij" [6, 1] = [-2, 1] := by
  have h := build_wavenumbers_xy_two_three 8 (by norm_num) [6, 1]
  rw [h.1, h.2.1]
  decide
example : swap01 [1, 2, 3] = [2, 1, 3] ∧ swapIdx [4, 5, 6] = [5, 4, 6] := by decide

end Exponax.SmallGaps2
