import ExponaxModel.Proofs.WaveWholeState
/-
C01 for the wave stepper on whole states, T2: on every two-channel superposition of modes strictly below Nyquist
(equivalently, every real band-limited two-channel state)

* `waveStep_waveStep`   : a step of `s` after a step of `t` is one step of `t + s`;
* `waveStep_zero`       : a step of `0` is the identity;
* `waveStep_iterate`    : `n` steps of `t` are one step of `n·t`;
* `waveStep_neg`        : a step of `−t` undoes a step of `t`;
* `waveStep_bandLimited`, `waveStep_iterate_bandLimited`, `waveStep_neg_bandLimited`: the same for every pair of real
  arrays whose stored spectra vanish at every mode with a Nyquist component (`ExactLinear.BandLimited`).
-/
set_option linter.unusedVariables false
namespace Exponax.WaveWhole
open Exponax Exponax.Layout Exponax.Transform Exponax.DFT Exponax.ExactLinear Exponax.SpectralOpsEq
  Exponax.ReadOff Exponax.Nonlin Finset

/-! ### multipliers that are functions of `ω` -/

/-- the multiplier `h ↦ f(ω_h)` -/
noncomputable def omMul (D N : ℕ) (c L : ℝ) (f : ℝ → ℝ) (h : ℕ) : ℝ := f (waveOmega D c L (wnFlat D N h))

theorem mCos_eq (D N : ℕ) (c L t : ℝ) : mCos D N c L t = omMul D N c L (fun w => Real.cos (w * t)) := rfl
theorem mSinc_eq (D N : ℕ) (c L t : ℝ) : mSinc D N c L t = omMul D N c L (fun w => sincT w t) := rfl
theorem mOmSin_eq (D N : ℕ) (c L t : ℝ) :
    mOmSin D N c L t = omMul D N c L (fun w => -(w * Real.sin (w * t))) := rfl

theorem omMul_stateOf (D N : ℕ) (hD : 0 < D) (hN : 0 < N) (c L : ℝ) (f : ℝ → ℝ) (ms : Modes)
    (hms : ∀ q ∈ ms, BelowNyquist D N q.1) :
    mulStep D N (omMul D N c L f) (stateOf D N ms)
      = stateOf D N (ms.map fun q => (q.1, q.2.1 * f (waveOmega D c L q.1), q.2.2)) :=
  mulStep_stateOf D N hD hN _ (fun κ => f (waveOmega D c L κ)) (fun h _ => rfl)
    (fun κ => by rw [waveOmega_negK]) ms hms

/-- multipliers compose by multiplication (on superpositions of modes strictly below Nyquist) -/
theorem omMul_comp (D N : ℕ) (hD : 0 < D) (hN : 0 < N) (c L : ℝ) (f g : ℝ → ℝ) (ms : Modes)
    (hms : ∀ q ∈ ms, BelowNyquist D N q.1) :
    mulStep D N (omMul D N c L g) (mulStep D N (omMul D N c L f) (stateOf D N ms))
      = mulStep D N (omMul D N c L (fun w => f w * g w)) (stateOf D N ms) := by
  have hms2 : ∀ q ∈ (ms.map fun q => (q.1, q.2.1 * f (waveOmega D c L q.1), q.2.2)), BelowNyquist D N q.1 := by
    intro q hq
    obtain ⟨p, hp, rfl⟩ := List.mem_map.mp hq
    exact hms p hp
  rw [omMul_stateOf D N hD hN c L f ms hms, omMul_stateOf D N hD hN c L g _ hms2,
    omMul_stateOf D N hD hN c L _ ms hms, List.map_map]
  congr 1
  apply List.map_congr_left
  intro q _
  simp only [Function.comp]
  rw [mul_assoc]

theorem omMul_one (D N : ℕ) (hD : 0 < D) (hN : 0 < N) (c L : ℝ) (ms : Modes)
    (hms : ∀ q ∈ ms, BelowNyquist D N q.1) :
    mulStep D N (omMul D N c L (fun _ => 1)) (stateOf D N ms) = stateOf D N ms := by
  rw [omMul_stateOf D N hD hN c L _ ms hms]
  congr 1
  conv_rhs => rw [← List.map_id ms]
  apply List.map_congr_left
  intro q _
  simp

theorem omMul_zero (D N : ℕ) (hD : 0 < D) (hN : 0 < N) (c L : ℝ) (u : Array ℂ) :
    mulStep D N (omMul D N c L (fun _ => 0)) u = vzero (N ^ D) := by
  have e : tab (numModes D N) (fun h => ((omMul D N c L (fun _ => 0) h : ℝ) : ℂ) * (rfftnM D N u).getD h 0)
      = vzero (numModes D N) := by
    apply array_ext_getD _ _ (numModes D N) (by simp) (by simp)
    intro h hh
    rw [DFT.tab_getD _ _ _ _ hh, vzero_getD]
    simp [omMul]
  unfold mulStep
  rw [e, irfftnM_vzero D N hN]

theorem vadd_vzero (n : ℕ) (u : Array ℂ) (hu : u.size = n) : vadd n u (vzero n) = u := by
  apply array_ext_getD _ _ n (by simp) hu
  intro j hj
  rw [vadd_getD _ _ _ _ hj, vzero_getD, add_zero]

theorem vzero_vadd (n : ℕ) (u : Array ℂ) (hu : u.size = n) : vadd n (vzero n) u = u := by
  apply array_ext_getD _ _ n (by simp) hu
  intro j hj
  rw [vadd_getD _ _ _ _ hj, vzero_getD, zero_add]

theorem vadd4 (n : ℕ) (a b c d : Array ℂ) :
    vadd n (vadd n a b) (vadd n c d) = vadd n (vadd n a c) (vadd n b d) := by
  apply array_ext_getD _ _ n (by simp) (by simp)
  intro j hj
  simp only [vadd_getD _ _ _ _ hj]
  ring

/-- one row of the product of two multiplier matrices -/
theorem row_comp (D N : ℕ) (hD : 0 < D) (hN : 0 < N) (c L : ℝ) (f₁ f₂ f₃ f₄ g₁ g₂ : ℝ → ℝ) (ms ms' : Modes)
    (hms : ∀ q ∈ ms, BelowNyquist D N q.1) (hms' : ∀ q ∈ ms', BelowNyquist D N q.1) :
    vadd (N ^ D)
        (mulStep D N (omMul D N c L g₁) (vadd (N ^ D) (mulStep D N (omMul D N c L f₁) (stateOf D N ms))
          (mulStep D N (omMul D N c L f₂) (stateOf D N ms'))))
        (mulStep D N (omMul D N c L g₂) (vadd (N ^ D) (mulStep D N (omMul D N c L f₃) (stateOf D N ms))
          (mulStep D N (omMul D N c L f₄) (stateOf D N ms'))))
      = vadd (N ^ D)
          (mulStep D N (omMul D N c L (fun w => f₁ w * g₁ w + f₃ w * g₂ w)) (stateOf D N ms))
          (mulStep D N (omMul D N c L (fun w => f₂ w * g₁ w + f₄ w * g₂ w)) (stateOf D N ms')) := by
  rw [mulStep_vadd D N hN, mulStep_vadd D N hN, omMul_comp D N hD hN c L f₁ g₁ ms hms,
    omMul_comp D N hD hN c L f₂ g₁ ms' hms', omMul_comp D N hD hN c L f₃ g₂ ms hms,
    omMul_comp D N hD hN c L f₄ g₂ ms' hms', vadd4, mulStep_add D N hN, mulStep_add D N hN]
  rfl

/-! ### the trigonometric identities of the group law, `ω = 0` included -/

theorem omega_sincT (ω t : ℝ) : ω * sincT ω t = Real.sin (ω * t) := by
  unfold sincT
  by_cases h : ω = 0
  · simp [h]
  · simp only [h, if_false]
    field_simp

theorem sincT_add (ω t s : ℝ) :
    sincT ω t * Real.cos (ω * s) + Real.cos (ω * t) * sincT ω s = sincT ω (t + s) := by
  unfold sincT
  by_cases h : ω = 0
  · simp [h]
  · simp only [h, if_false]
    rw [mul_add, Real.sin_add]
    field_simp

theorem grp_a (ω t s : ℝ) :
    Real.cos (ω * t) * Real.cos (ω * s) + -(ω * Real.sin (ω * t)) * sincT ω s = Real.cos (ω * (t + s)) := by
  have h := omega_sincT ω s
  rw [mul_add, Real.cos_add]
  linear_combination (-Real.sin (ω * t)) * h

theorem grp_c (ω t s : ℝ) :
    Real.cos (ω * t) * -(ω * Real.sin (ω * s)) + -(ω * Real.sin (ω * t)) * Real.cos (ω * s)
      = -(ω * Real.sin (ω * (t + s))) := by
  rw [mul_add, Real.sin_add]
  ring

theorem grp_d (ω t s : ℝ) :
    sincT ω t * -(ω * Real.sin (ω * s)) + Real.cos (ω * t) * Real.cos (ω * s) = Real.cos (ω * (t + s)) := by
  have h := omega_sincT ω t
  rw [mul_add, Real.cos_add]
  linear_combination (-Real.sin (ω * s)) * h

/-! ### T2 -/

/-- **a step of `s` after a step of `t` is one step of `t + s`** -/
theorem waveStep_waveStep (D N : ℕ) (hD : 0 < D) (hN : 0 < N) (c L t s : ℝ) (hc : c ≠ 0) (hL : 0 < L)
    (ms ms' : Modes) (hms : ∀ q ∈ ms, BelowNyquist D N q.1) (hms' : ∀ q ∈ ms', BelowNyquist D N q.1) :
    waveStep D N (L : ℂ) (s : ℂ) (c : ℂ) (waveStep D N (L : ℂ) (t : ℂ) (c : ℂ) #[stateOf D N ms, stateOf D N ms'])
      = waveStep D N (L : ℂ) ((t + s : ℝ) : ℂ) (c : ℂ) #[stateOf D N ms, stateOf D N ms'] := by
  rw [waveStep_channels D N hD hN c L t hc hL, waveStep_channels D N hD hN c L s hc hL,
    waveStep_channels D N hD hN c L (t + s) hc hL]
  simp only [mCos_eq, mSinc_eq, mOmSin_eq]
  rw [row_comp D N hD hN c L _ _ _ _ _ _ ms ms' hms hms', row_comp D N hD hN c L _ _ _ _ _ _ ms ms' hms hms']
  have e1 : (fun w => Real.cos (w * t) * Real.cos (w * s) + -(w * Real.sin (w * t)) * sincT w s)
      = fun w => Real.cos (w * (t + s)) := funext fun w => grp_a w t s
  have e2 : (fun w => sincT w t * Real.cos (w * s) + Real.cos (w * t) * sincT w s)
      = fun w => sincT w (t + s) := funext fun w => sincT_add w t s
  have e3 : (fun w => Real.cos (w * t) * -(w * Real.sin (w * s)) + -(w * Real.sin (w * t)) * Real.cos (w * s))
      = fun w => -(w * Real.sin (w * (t + s))) := funext fun w => grp_c w t s
  have e4 : (fun w => sincT w t * -(w * Real.sin (w * s)) + Real.cos (w * t) * Real.cos (w * s))
      = fun w => Real.cos (w * (t + s)) := funext fun w => grp_d w t s
  rw [e1, e2, e3, e4]

/-- **a step of `0` is the identity** -/
theorem waveStep_zero (D N : ℕ) (hD : 0 < D) (hN : 0 < N) (c L : ℝ) (hc : c ≠ 0) (hL : 0 < L)
    (ms ms' : Modes) (hms : ∀ q ∈ ms, BelowNyquist D N q.1) (hms' : ∀ q ∈ ms', BelowNyquist D N q.1) :
    waveStep D N (L : ℂ) ((0 : ℝ) : ℂ) (c : ℂ) #[stateOf D N ms, stateOf D N ms']
      = #[stateOf D N ms, stateOf D N ms'] := by
  rw [waveStep_channels D N hD hN c L 0 hc hL]
  simp only [mCos_eq, mSinc_eq, mOmSin_eq]
  have e1 : (fun w : ℝ => Real.cos (w * 0)) = fun _ => 1 := funext fun w => by simp
  have e2 : (fun w : ℝ => sincT w 0) = fun _ => 0 := funext fun w => by
    unfold sincT; by_cases h : w = 0 <;> simp [h]
  have e3 : (fun w : ℝ => -(w * Real.sin (w * 0))) = fun _ => 0 := funext fun w => by simp
  rw [e1, e2, e3, omMul_one D N hD hN c L ms hms, omMul_one D N hD hN c L ms' hms', omMul_zero D N hD hN,
    omMul_zero D N hD hN, vadd_vzero _ _ (by simp), vzero_vadd _ _ (by simp)]

/-- **`n` steps of `t` are one step of `n·t`** -/
theorem waveStep_iterate (D N : ℕ) (hD : 0 < D) (hN : 0 < N) (c L t : ℝ) (hc : c ≠ 0) (hL : 0 < L)
    (ms ms' : Modes) (hms : ∀ q ∈ ms, BelowNyquist D N q.1) (hms' : ∀ q ∈ ms', BelowNyquist D N q.1) (n : ℕ) :
    (waveStep D N (L : ℂ) (t : ℂ) (c : ℂ))^[n] #[stateOf D N ms, stateOf D N ms']
      = waveStep D N (L : ℂ) (((n : ℝ) * t : ℝ) : ℂ) (c : ℂ) #[stateOf D N ms, stateOf D N ms'] := by
  induction n with
  | zero =>
    rw [Function.iterate_zero, id, Nat.cast_zero, zero_mul, waveStep_zero D N hD hN c L hc hL ms ms' hms hms']
  | succ n ih =>
    rw [Function.iterate_succ_apply', ih, waveStep_waveStep D N hD hN c L _ t hc hL ms ms' hms hms']
    congr 3
    push_cast
    ring

/-- **a step of `−t` undoes a step of `t`** -/
theorem waveStep_neg (D N : ℕ) (hD : 0 < D) (hN : 0 < N) (c L t : ℝ) (hc : c ≠ 0) (hL : 0 < L)
    (ms ms' : Modes) (hms : ∀ q ∈ ms, BelowNyquist D N q.1) (hms' : ∀ q ∈ ms', BelowNyquist D N q.1) :
    waveStep D N (L : ℂ) ((-t : ℝ) : ℂ) (c : ℂ)
        (waveStep D N (L : ℂ) (t : ℂ) (c : ℂ) #[stateOf D N ms, stateOf D N ms'])
      = #[stateOf D N ms, stateOf D N ms'] := by
  rw [waveStep_waveStep D N hD hN c L t (-t) hc hL ms ms' hms hms', add_neg_cancel,
    waveStep_zero D N hD hN c L hc hL ms ms' hms hms']

/-! ### every real band-limited two-channel state -/

/-- a real grid array with no content at or above Nyquist -/
def RealBL (D N : ℕ) (u : Array ℂ) : Prop :=
  u.size = N ^ D ∧ (∀ j < N ^ D, (u.getD j 0).im = 0) ∧ BandLimited D N u

/-- T1 on every real band-limited pair: it IS a pair of superpositions and is advanced by the exact solution -/
theorem waveStep_bandLimited (D N : ℕ) (hD : 0 < D) (hN : 0 < N) (c L : ℝ) (hc : c ≠ 0) (hL : 0 < L)
    (u₀ u₁ : Array ℂ) (h₀ : RealBL D N u₀) (h₁ : RealBL D N u₁) :
    ∃ ms ms' : Modes, (∀ q ∈ ms, BelowNyquist D N q.1) ∧ (∀ q ∈ ms', BelowNyquist D N q.1) ∧
      u₀ = stateOf D N ms ∧ u₁ = stateOf D N ms' ∧
      ∀ t : ℝ, waveStep D N (L : ℂ) (t : ℂ) (c : ℂ) #[u₀, u₁]
        = #[stateOf D N (waveH D c L t ms ms'), stateOf D N (waveV D c L t ms ms')] := by
  obtain ⟨ms, hms, rfl⟩ := exists_modes_of_bandLimited D N hD hN u₀ h₀.1 h₀.2.1 h₀.2.2
  obtain ⟨ms', hms', rfl⟩ := exists_modes_of_bandLimited D N hD hN u₁ h₁.1 h₁.2.1 h₁.2.2
  exact ⟨ms, ms', hms, hms', rfl, rfl, fun t => waveStep_stateOf D N hD hN c L t hc hL ms ms' hms hms'⟩

theorem waveStep_iterate_bandLimited (D N : ℕ) (hD : 0 < D) (hN : 0 < N) (c L t : ℝ) (hc : c ≠ 0) (hL : 0 < L)
    (u₀ u₁ : Array ℂ) (h₀ : RealBL D N u₀) (h₁ : RealBL D N u₁) (n : ℕ) :
    (waveStep D N (L : ℂ) (t : ℂ) (c : ℂ))^[n] #[u₀, u₁]
      = waveStep D N (L : ℂ) (((n : ℝ) * t : ℝ) : ℂ) (c : ℂ) #[u₀, u₁] := by
  obtain ⟨ms, hms, rfl⟩ := exists_modes_of_bandLimited D N hD hN u₀ h₀.1 h₀.2.1 h₀.2.2
  obtain ⟨ms', hms', rfl⟩ := exists_modes_of_bandLimited D N hD hN u₁ h₁.1 h₁.2.1 h₁.2.2
  exact waveStep_iterate D N hD hN c L t hc hL ms ms' hms hms' n

theorem waveStep_neg_bandLimited (D N : ℕ) (hD : 0 < D) (hN : 0 < N) (c L t : ℝ) (hc : c ≠ 0) (hL : 0 < L)
    (u₀ u₁ : Array ℂ) (h₀ : RealBL D N u₀) (h₁ : RealBL D N u₁) :
    waveStep D N (L : ℂ) ((-t : ℝ) : ℂ) (c : ℂ) (waveStep D N (L : ℂ) (t : ℂ) (c : ℂ) #[u₀, u₁]) = #[u₀, u₁] := by
  obtain ⟨ms, hms, rfl⟩ := exists_modes_of_bandLimited D N hD hN u₀ h₀.1 h₀.2.1 h₀.2.2
  obtain ⟨ms', hms', rfl⟩ := exists_modes_of_bandLimited D N hD hN u₁ h₁.1 h₁.2.1 h₁.2.2
  exact waveStep_neg D N hD hN c L t hc hL ms ms' hms hms'

/-! non-vacuity -/
example : ∃ u : Array ℂ, RealBL 2 4 u := by
  have hms : ∀ m ∈ ([([1, 1], 2, 0.5)] : Modes), BelowNyquist 2 4 m.1 := by
    intro m hm
    simp only [List.mem_cons, List.mem_nil_iff, or_false] at hm
    subst hm
    exact ⟨rfl, by intro d hd; interval_cases d <;> simp⟩
  exact ⟨stateOf 2 4 [([1, 1], 2, 0.5)], by simp, stateOf_real 2 4 _,
    bandLimited_stateOf 2 4 (by norm_num) (by norm_num) _ hms⟩

end Exponax.WaveWhole
