import ExponaxModel.Proofs.SmallGaps2Specific
import ExponaxModel.Proofs.SmallGaps4Linear
/-
C08 — translation equivariance of the ASSEMBLED, REGENERATED whole step of every ETDRK order.

`Proofs/EquivarianceNDSteps.lean` proves `E?step_translation_nd` / `E?_physical_translation_nd` for the stage formulas of
each order with ABSTRACT coefficient arrays.  Here they are put together with the assembled steps of
`Proofs/InterfaceAssembly*.lean` / `Proofs/SmallGaps2Specific.lean` (`X_step = baseStep` on the class's regenerated
`_build_linear_operator`, regenerated `__init__ → _build_nonlinear_fun` wiring, regenerated ETDRK coefficients and stage
formulas of the requested order):

* `etdrkStep_translation_nd`  : `etdrkStep p dt lam M r (liftTermND c C T)` commutes with the multiplication of every stored
  mode by the shift phase, for EVERY `p : ℕ` (orders 0–4 by the lemma of that order; for `p ≥ 5` the model's `etdrkStep` is the
  identity), any symbol array `lam` (diagonal symbols commute with shifts), any equivariant term `T`.
* `X_step_translation`        : Fourier-space form for `X` = GeneralConvection / GradientNorm / Nonlinear / Polynomial /
  Linear stepper and Burgers, KdV (every mixing flag), KS-conservative, KS, Fisher-KPP.
* `X_physical_translation`    : `irfftn(step^n(rfftn(roll u))) = roll(irfftn(step^n(rfftn u)))` for every channel, every integer
  shift vector, every `n`, every (real or complex, any channel count) state, every `D`, `N ≥ 1`.
-/
set_option linter.unusedVariables false
namespace Exponax.EquivAssembled
open Exponax Exponax.Layout Exponax.Transform Exponax.Nonlin Exponax.Gen.Etdrk
open Exponax.Gen.StepperWiring Exponax.Gen.Steppers Exponax.StepperWiringEq
open Exponax.EquivND Exponax.Interface Exponax.Alias Exponax.Symmetry Exponax.SymmetryND

/-- **one assembled ETDRK-`p` step, every `p`**: coefficient arrays computed entrywise from ANY symbol array, ANY term
    that is equivariant — the step commutes with the shift phases. -/
theorem etdrkStep_translation_nd (c : Cfg ℂ) (s : List ℤ) (C : ℕ) (T : MC ℂ → MC ℂ) (hT : TermEquivariant c s T)
    (p : ℕ) (dt : ℂ) (lam : Spec) (M : ℕ) (r : ℂ) (u : Spec) :
    etdrkStep p dt lam M r (liftTermND c C T) (phaseMC c.D c.N s * u)
      = phaseMC c.D c.N s * etdrkStep p dt lam M r (liftTermND c C T) u := by
  rcases p with _ | _ | _ | _ | _ | p
  · exact E0step_translation_nd c s _ u
  · exact E1step_translation_nd c s C T hT _ _ u
  · exact E2step_translation_nd c s C T hT _ _ _ u
  · exact E3step_translation_nd c s C T hT _ _ _ _ _ _ _ u
  · exact E4step_translation_nd c s C T hT _ _ _ _ _ _ _ _ u
  · rfl

/-- every stepper assembled by `baseStep` (regenerated `BaseStepper.__init__` + `step_fourier`) from ANY linear operator
    (it is applied mode by mode, hence diagonal) and a nonlinear function that is equivariant on the stepper's configuration
    commutes with the shift phases -/
theorem baseStep_translation (b : Gen.StepperWiring.BaseStepperArgs ℂ) (linop : List ℂ → ℂ)
    (nonlin : Cfg ℂ → MC ℂ → MC ℂ) (s : List ℤ)
    (hT : TermEquivariant (baseCfg b.num_spatial_dims b.num_points b.domain_extent) s
      (nonlin (baseCfg b.num_spatial_dims b.num_points b.domain_extent))) (u : Spec) :
    baseStep b linop nonlin (phaseMC b.num_spatial_dims b.num_points s * u)
      = phaseMC b.num_spatial_dims b.num_points s * baseStep b linop nonlin u :=
  etdrkStep_translation_nd (baseCfg b.num_spatial_dims b.num_points b.domain_extent) s _ _ hT _ _ _ _ _ u

/-! ### the general steppers -/

theorem GeneralConvectionStepper_step_translation (g : GeneralConvectionStepperArgs ℂ) (hN : 0 < g.num_points)
    (s : List ℤ) (u : Spec) :
    GeneralConvectionStepper_step g (phaseMC g.num_spatial_dims g.num_points s * u)
      = phaseMC g.num_spatial_dims g.num_points s * GeneralConvectionStepper_step g u := by
  rw [GeneralConvectionStepper_step_model]
  exact etdrkStep_translation_nd
    (cfgOf g.num_spatial_dims g.num_points g.domain_extent g.dealiasing_fraction) s _ _
    (convection_termEquivariant _ hN _ _ _ _ s) _ _ _ _ _ u

theorem GeneralGradientNormStepper_step_translation (g : GeneralGradientNormStepperArgs ℂ) (hN : 0 < g.num_points)
    (s : List ℤ) (u : Spec) :
    GeneralGradientNormStepper_step g (phaseMC g.num_spatial_dims g.num_points s * u)
      = phaseMC g.num_spatial_dims g.num_points s * GeneralGradientNormStepper_step g u := by
  rw [GeneralGradientNormStepper_step_model]
  exact etdrkStep_translation_nd
    (cfgOf g.num_spatial_dims g.num_points g.domain_extent g.dealiasing_fraction) s _ _
    (gradientNorm_termEquivariant _ hN _ _ _ s) _ _ _ _ _ u

theorem GeneralNonlinearStepper_step_translation (g : GeneralNonlinearStepperArgs ℂ) (hN : 0 < g.num_points)
    (s : List ℤ) (u : Spec) :
    GeneralNonlinearStepper_step g (phaseMC g.num_spatial_dims g.num_points s * u)
      = phaseMC g.num_spatial_dims g.num_points s * GeneralNonlinearStepper_step g u := by
  rw [GeneralNonlinearStepper_step_model]
  exact etdrkStep_translation_nd
    (cfgOf g.num_spatial_dims g.num_points g.domain_extent g.dealiasing_fraction) s _ _
    (general_termEquivariant _ hN _ _ _ _ _ s) _ _ _ _ _ u

theorem GeneralPolynomialStepper_step_translation (g : GeneralPolynomialStepperArgs ℂ) (hN : 0 < g.num_points)
    (s : List ℤ) (u : Spec) :
    GeneralPolynomialStepper_step g (phaseMC g.num_spatial_dims g.num_points s * u)
      = phaseMC g.num_spatial_dims g.num_points s * GeneralPolynomialStepper_step g u := by
  rw [GeneralPolynomialStepper_step_model]
  exact etdrkStep_translation_nd
    (cfgOf g.num_spatial_dims g.num_points g.domain_extent g.dealiasing_fraction) s _ _
    (polynomial_termEquivariant _ hN _ _ s) _ _ _ _ _ u

/-- the linear stepper (order 0): no term is evaluated, so not even `N ≥ 1` is needed -/
theorem GeneralLinearStepper_step_translation (g : GeneralLinearStepperArgs ℂ) (s : List ℤ) (u : Spec) :
    GeneralLinearStepper_step g (phaseMC g.num_spatial_dims g.num_points s * u)
      = phaseMC g.num_spatial_dims g.num_points s * GeneralLinearStepper_step g u := by
  rw [GeneralLinearStepper_step_model]
  exact E0step_translation_nd (cfgOf g.num_spatial_dims g.num_points g.domain_extent (0, 0)) s _ u

/-! ### physical space: `n` steps of a step map on `D`-dimensional `N`-point grids -/

/-- the physical-space statement for a step map: every channel of the result is rolled -/
def PhysicallyEquivariant (D N : ℕ) (step : Spec → Spec) : Prop :=
  ∀ (s : List ℤ) (n : ℕ) (u : MC ℂ) (ch : ℕ),
    physCh D N (step^[n] (specMC D N (rollMC D N s u))) ch
      = rollND D N (physCh D N (step^[n] (specMC D N u)) ch) s

theorem physicallyEquivariant_of_phase (D N : ℕ) (hN : 0 < N) (step : Spec → Spec)
    (h : ∀ (s : List ℤ) (u : Spec), step (phaseMC D N s * u) = phaseMC D N s * step u) :
    PhysicallyEquivariant D N step :=
  fun s n u ch => physical_translation_nd D N hN s step (h s) n u ch

/-- **GeneralConvectionStepper, physical space, every order.** -/
theorem GeneralConvectionStepper_physical_translation (g : GeneralConvectionStepperArgs ℂ) (hN : 0 < g.num_points)
    (s : List ℤ) (n : ℕ) (u : MC ℂ) (ch : ℕ) :
    physCh g.num_spatial_dims g.num_points
        ((GeneralConvectionStepper_step g)^[n]
          (specMC g.num_spatial_dims g.num_points (rollMC g.num_spatial_dims g.num_points s u))) ch
      = rollND g.num_spatial_dims g.num_points
          (physCh g.num_spatial_dims g.num_points
            ((GeneralConvectionStepper_step g)^[n] (specMC g.num_spatial_dims g.num_points u)) ch) s :=
  physical_translation_nd _ _ hN s _ (GeneralConvectionStepper_step_translation g hN s) n u ch


theorem GeneralGradientNormStepper_physical_translation (g : GeneralGradientNormStepperArgs ℂ) (hN : 0 < g.num_points) :
    PhysicallyEquivariant g.num_spatial_dims g.num_points (GeneralGradientNormStepper_step g) :=
  physicallyEquivariant_of_phase _ _ hN _ (GeneralGradientNormStepper_step_translation g hN)

theorem GeneralNonlinearStepper_physical_translation (g : GeneralNonlinearStepperArgs ℂ) (hN : 0 < g.num_points) :
    PhysicallyEquivariant g.num_spatial_dims g.num_points (GeneralNonlinearStepper_step g) :=
  physicallyEquivariant_of_phase _ _ hN _ (GeneralNonlinearStepper_step_translation g hN)

theorem GeneralPolynomialStepper_physical_translation (g : GeneralPolynomialStepperArgs ℂ) (hN : 0 < g.num_points) :
    PhysicallyEquivariant g.num_spatial_dims g.num_points (GeneralPolynomialStepper_step g) :=
  physicallyEquivariant_of_phase _ _ hN _ (GeneralPolynomialStepper_step_translation g hN)

theorem GeneralLinearStepper_physical_translation (g : GeneralLinearStepperArgs ℂ) (hN : 0 < g.num_points) :
    PhysicallyEquivariant g.num_spatial_dims g.num_points (GeneralLinearStepper_step g) :=
  physicallyEquivariant_of_phase _ _ hN _ (GeneralLinearStepper_step_translation g)

/-! ### the specific steppers of the overview -/

theorem Burgers_step_translation (a : BurgersArgs ℂ) (hN : 0 < a.num_points) (s : List ℤ) (u : Spec) :
    Burgers_step a (phaseMC a.num_spatial_dims a.num_points s * u)
      = phaseMC a.num_spatial_dims a.num_points s * Burgers_step a u := by
  rw [Burgers_step_eq_general]
  exact GeneralConvectionStepper_step_translation (Burgers_to_general a) hN s u

theorem KuramotoSivashinskyConservative_step_translation (a : KuramotoSivashinskyConservativeArgs ℂ)
    (hN : 0 < a.num_points) (s : List ℤ) (u : Spec) :
    KuramotoSivashinskyConservative_step a (phaseMC a.num_spatial_dims a.num_points s * u)
      = phaseMC a.num_spatial_dims a.num_points s * KuramotoSivashinskyConservative_step a u := by
  rw [KuramotoSivashinskyConservative_step_eq_general]
  exact GeneralConvectionStepper_step_translation (KuramotoSivashinskyConservative_to_general a) hN s u

theorem KuramotoSivashinsky_step_translation (a : KuramotoSivashinskyArgs ℂ) (hN : 0 < a.num_points) (s : List ℤ)
    (u : Spec) :
    KuramotoSivashinsky_step a (phaseMC a.num_spatial_dims a.num_points s * u)
      = phaseMC a.num_spatial_dims a.num_points s * KuramotoSivashinsky_step a u := by
  rw [KuramotoSivashinsky_step_eq_general]
  exact GeneralGradientNormStepper_step_translation (KuramotoSivashinsky_to_general a) hN s u

/-- KdV with EVERY combination of the mixing flags `advect_over_diffuse`, `diffuse_over_diffuse` and in every dimension (for
    non-default flags in `D ≥ 2` the stepper is NOT a `GeneralConvectionStepper`; its linear operator is still diagonal) -/
theorem KortewegDeVries_step_translation (a : KortewegDeVriesArgs ℂ) (hN : 0 < a.num_points) (s : List ℤ) (u : Spec) :
    KortewegDeVries_step a (phaseMC a.num_spatial_dims a.num_points s * u)
      = phaseMC a.num_spatial_dims a.num_points s * KortewegDeVries_step a u := by
  have hT : TermEquivariant (baseCfg a.num_spatial_dims a.num_points a.domain_extent) s
      (KortewegDeVries_stepper_nonlinear_fun (baseCfg a.num_spatial_dims a.num_points a.domain_extent) a) := by
    have e : KortewegDeVries_stepper_nonlinear_fun (baseCfg a.num_spatial_dims a.num_points a.domain_extent) a
        = convection (cfgOf a.num_spatial_dims a.num_points a.domain_extent a.dealiasing_fraction)
            (if a.single_channel then 1 else a.num_spatial_dims) a.convection_scale a.single_channel
            a.conservative :=
      funext fun uh => KortewegDeVries_stepper_nonlinear_fun_eq _ a uh rfl
    rw [e]
    exact convection_termEquivariant
      (cfgOf a.num_spatial_dims a.num_points a.domain_extent a.dealiasing_fraction) hN _ _ _ _ s
  unfold KortewegDeVries_step
  rw [KortewegDeVries_base_args_eq]
  exact baseStep_translation _ _ _ s hT u

/-- Fisher–KPP, every `D` (also without the `D ≠ 0` needed for its general-polynomial equivalent) -/
theorem FisherKPP_step_translation (a : FisherKPPArgs ℂ) (hN : 0 < a.num_points) (s : List ℤ) (u : Spec) :
    FisherKPP_step a (phaseMC a.num_spatial_dims a.num_points s * u)
      = phaseMC a.num_spatial_dims a.num_points s * FisherKPP_step a u := by
  have hT : TermEquivariant (baseCfg a.num_spatial_dims a.num_points a.domain_extent) s
      (FisherKPP_stepper_nonlinear_fun (baseCfg a.num_spatial_dims a.num_points a.domain_extent) a) := by
    have e : FisherKPP_stepper_nonlinear_fun (baseCfg a.num_spatial_dims a.num_points a.domain_extent) a
        = polynomial (cfgOf a.num_spatial_dims a.num_points a.domain_extent a.dealiasing_fraction) 1
            [0, 0, -a.reactivity] :=
      funext fun uh => FisherKPP_stepper_nonlinear_fun_eq _ a uh
    rw [e]
    exact polynomial_termEquivariant
      (cfgOf a.num_spatial_dims a.num_points a.domain_extent a.dealiasing_fraction) hN _ _ s
  unfold FisherKPP_step
  rw [FisherKPP_base_args_eq]
  exact baseStep_translation _ _ _ s hT u

theorem Burgers_physical_translation (a : BurgersArgs ℂ) (hN : 0 < a.num_points) :
    PhysicallyEquivariant a.num_spatial_dims a.num_points (Burgers_step a) :=
  physicallyEquivariant_of_phase _ _ hN _ (Burgers_step_translation a hN)

theorem KortewegDeVries_physical_translation (a : KortewegDeVriesArgs ℂ) (hN : 0 < a.num_points) :
    PhysicallyEquivariant a.num_spatial_dims a.num_points (KortewegDeVries_step a) :=
  physicallyEquivariant_of_phase _ _ hN _ (KortewegDeVries_step_translation a hN)

theorem KuramotoSivashinskyConservative_physical_translation (a : KuramotoSivashinskyConservativeArgs ℂ)
    (hN : 0 < a.num_points) :
    PhysicallyEquivariant a.num_spatial_dims a.num_points (KuramotoSivashinskyConservative_step a) :=
  physicallyEquivariant_of_phase _ _ hN _ (KuramotoSivashinskyConservative_step_translation a hN)

theorem KuramotoSivashinsky_physical_translation (a : KuramotoSivashinskyArgs ℂ) (hN : 0 < a.num_points) :
    PhysicallyEquivariant a.num_spatial_dims a.num_points (KuramotoSivashinsky_step a) :=
  physicallyEquivariant_of_phase _ _ hN _ (KuramotoSivashinsky_step_translation a hN)

theorem FisherKPP_physical_translation (a : FisherKPPArgs ℂ) (hN : 0 < a.num_points) :
    PhysicallyEquivariant a.num_spatial_dims a.num_points (FisherKPP_step a) :=
  physicallyEquivariant_of_phase _ _ hN _ (FisherKPP_step_translation a hN)

/-! ### the linear steppers (order 0): ANY velocity vector, diffusivity matrix, mixing flag -/

/-- an assembled stepper of order 0 never evaluates its nonlinear function -/
theorem baseStep_translation_order0 (b : Gen.StepperWiring.BaseStepperArgs ℂ) (hb : b.order = 0) (linop : List ℂ → ℂ)
    (nonlin : Cfg ℂ → MC ℂ → MC ℂ) (s : List ℤ) (u : Spec) :
    baseStep b linop nonlin (phaseMC b.num_spatial_dims b.num_points s * u)
      = phaseMC b.num_spatial_dims b.num_points s * baseStep b linop nonlin u := by
  unfold baseStep
  rw [hb]
  exact E0step_translation_nd (baseCfg b.num_spatial_dims b.num_points b.domain_extent) s _ u

theorem Advection_step_translation (a : AdvectionArgs ℂ) (s : List ℤ) (u : Spec) :
    Advection_step a (phaseMC a.num_spatial_dims a.num_points s * u)
      = phaseMC a.num_spatial_dims a.num_points s * Advection_step a u := by
  unfold Advection_step
  rw [Advection_base_args_eq]
  exact baseStep_translation_order0 _ rfl _ _ s u

theorem Diffusion_step_translation (a : DiffusionArgs ℂ) (s : List ℤ) (u : Spec) :
    Diffusion_step a (phaseMC a.num_spatial_dims a.num_points s * u)
      = phaseMC a.num_spatial_dims a.num_points s * Diffusion_step a u := by
  unfold Diffusion_step
  rw [Diffusion_base_args_eq]
  exact baseStep_translation_order0 _ rfl _ _ s u

theorem AdvectionDiffusion_step_translation (a : AdvectionDiffusionArgs ℂ) (s : List ℤ) (u : Spec) :
    AdvectionDiffusion_step a (phaseMC a.num_spatial_dims a.num_points s * u)
      = phaseMC a.num_spatial_dims a.num_points s * AdvectionDiffusion_step a u := by
  unfold AdvectionDiffusion_step
  rw [AdvectionDiffusion_base_args_eq]
  exact baseStep_translation_order0 _ rfl _ _ s u

theorem Dispersion_step_translation (a : DispersionArgs ℂ) (s : List ℤ) (u : Spec) :
    Dispersion_step a (phaseMC a.num_spatial_dims a.num_points s * u)
      = phaseMC a.num_spatial_dims a.num_points s * Dispersion_step a u := by
  unfold Dispersion_step
  rw [Dispersion_base_args_eq]
  exact baseStep_translation_order0 _ rfl _ _ s u

theorem HyperDiffusion_step_translation (a : HyperDiffusionArgs ℂ) (s : List ℤ) (u : Spec) :
    HyperDiffusion_step a (phaseMC a.num_spatial_dims a.num_points s * u)
      = phaseMC a.num_spatial_dims a.num_points s * HyperDiffusion_step a u := by
  unfold HyperDiffusion_step
  rw [HyperDiffusion_base_args_eq]
  exact baseStep_translation_order0 _ rfl _ _ s u

/-! ### vorticity steppers -/

theorem NavierStokesVorticity_step_translation (a : NavierStokesVorticityArgs ℂ) (hN : 0 < a.num_points) (s : List ℤ)
    (u : Spec) :
    NavierStokesVorticity_step a (phaseMC a.num_spatial_dims a.num_points s * u)
      = phaseMC a.num_spatial_dims a.num_points s * NavierStokesVorticity_step a u := by
  have hT : TermEquivariant (baseCfg a.num_spatial_dims a.num_points a.domain_extent) s
      (NavierStokesVorticity_stepper_nonlinear_fun (baseCfg a.num_spatial_dims a.num_points a.domain_extent) a) := by
    have e : NavierStokesVorticity_stepper_nonlinear_fun (baseCfg a.num_spatial_dims a.num_points a.domain_extent) a
        = vorticity2d (cfgOf a.num_spatial_dims a.num_points a.domain_extent a.dealiasing_fraction)
            a.vorticity_convection_scale none :=
      funext fun uh => NavierStokesVorticity_stepper_nonlinear_fun_eq _ a uh
    rw [e]
    exact vorticity2d_termEquivariant
      (cfgOf a.num_spatial_dims a.num_points a.domain_extent a.dealiasing_fraction) hN _ s
  unfold NavierStokesVorticity_step
  rw [NavierStokesVorticity_base_args_eq]
  exact baseStep_translation _ _ _ s hT u

/-- the generic vorticity stepper WITH Kolmogorov injection `γ sin(m·2πx₁/L)` is NOT autonomous under every shift: it
    commutes with the shifts that leave the forcing invariant, `N ∣ m·s₁` (all shifts along `x₀`); without injection
    (a number `injection_scale = 0`) with every shift.  Real domain extent, `D = 2` (the class accepts nothing else). -/
theorem GeneralVorticityConvectionStepper_step_translation (g : GeneralVorticityConvectionStepperArgs ℂ)
    (isNumber : Bool) (ℓ : ℝ) (hL : g.domain_extent = (ℓ : ℂ)) (hD : g.num_spatial_dims = 2) (hN : 0 < g.num_points)
    (s : List ℤ)
    (hs : (isNumber = true ∧ g.injection_scale = 0) ∨ (g.num_points : ℤ) ∣ (g.injection_mode : ℤ) * s.getD 1 0)
    (u : Spec) :
    GeneralVorticityConvectionStepper_step g isNumber (phaseMC g.num_spatial_dims g.num_points s * u)
      = phaseMC g.num_spatial_dims g.num_points s * GeneralVorticityConvectionStepper_step g isNumber u := by
  have hsr : (baseCfg g.num_spatial_dims g.num_points g.domain_extent).s = ((2 * Real.pi / ℓ : ℝ) : ℂ) := by
    show 2 * (Real.pi : ℂ) / g.domain_extent = _
    rw [hL]; push_cast; ring
  have hT : TermEquivariant (baseCfg g.num_spatial_dims g.num_points g.domain_extent) s
      (GeneralVorticityConvectionStepper_stepper_nonlinear_fun
        (baseCfg g.num_spatial_dims g.num_points g.domain_extent) g isNumber) := by
    have e : GeneralVorticityConvectionStepper_stepper_nonlinear_fun
          (baseCfg g.num_spatial_dims g.num_points g.domain_extent) g isNumber
        = vorticity2d (cfgOf g.num_spatial_dims g.num_points g.domain_extent g.dealiasing_fraction)
            g.vorticity_convection_scale
            (if isNumber = true ∧ g.injection_scale = 0 then none else some (g.injection_mode, g.injection_scale)) :=
      funext fun uh => GeneralVorticityConvectionStepper_stepper_nonlinear_fun_eq _ g isNumber uh _ hsr
    rw [e]
    by_cases h0 : isNumber = true ∧ g.injection_scale = 0
    · rw [if_pos h0]
      exact vorticity2d_termEquivariant
        (cfgOf g.num_spatial_dims g.num_points g.domain_extent g.dealiasing_fraction) hN _ s
    · rw [if_neg h0]
      exact vorticity2d_inj_termEquivariant
        (cfgOf g.num_spatial_dims g.num_points g.domain_extent g.dealiasing_fraction) hD hN _ _ _ s
        (hs.resolve_left h0)
  unfold GeneralVorticityConvectionStepper_step
  rw [GeneralVorticityConvectionStepper_base_args_eq]
  exact baseStep_translation _ _ _ s hT u

theorem NavierStokesVorticity_physical_translation (a : NavierStokesVorticityArgs ℂ) (hN : 0 < a.num_points) :
    PhysicallyEquivariant a.num_spatial_dims a.num_points (NavierStokesVorticity_step a) :=
  physicallyEquivariant_of_phase _ _ hN _ (NavierStokesVorticity_step_translation a hN)

theorem Advection_physical_translation (a : AdvectionArgs ℂ) (hN : 0 < a.num_points) :
    PhysicallyEquivariant a.num_spatial_dims a.num_points (Advection_step a) :=
  physicallyEquivariant_of_phase _ _ hN _ (Advection_step_translation a)

theorem Diffusion_physical_translation (a : DiffusionArgs ℂ) (hN : 0 < a.num_points) :
    PhysicallyEquivariant a.num_spatial_dims a.num_points (Diffusion_step a) :=
  physicallyEquivariant_of_phase _ _ hN _ (Diffusion_step_translation a)

theorem AdvectionDiffusion_physical_translation (a : AdvectionDiffusionArgs ℂ) (hN : 0 < a.num_points) :
    PhysicallyEquivariant a.num_spatial_dims a.num_points (AdvectionDiffusion_step a) :=
  physicallyEquivariant_of_phase _ _ hN _ (AdvectionDiffusion_step_translation a)

theorem Dispersion_physical_translation (a : DispersionArgs ℂ) (hN : 0 < a.num_points) :
    PhysicallyEquivariant a.num_spatial_dims a.num_points (Dispersion_step a) :=
  physicallyEquivariant_of_phase _ _ hN _ (Dispersion_step_translation a)

theorem HyperDiffusion_physical_translation (a : HyperDiffusionArgs ℂ) (hN : 0 < a.num_points) :
    PhysicallyEquivariant a.num_spatial_dims a.num_points (HyperDiffusion_step a) :=
  physicallyEquivariant_of_phase _ _ hN _ (HyperDiffusion_step_translation a)

/-! ### non-vacuity -/

example : ∃ g : GeneralConvectionStepperArgs ℂ, 0 < g.num_points ∧ g.order = 3 ∧ g.num_spatial_dims = 2 :=
  ⟨{ num_spatial_dims := 2, domain_extent := 1, num_points := 8, dt := 1, linear_coefficients := [0, 0, 1],
     convection_scale := 1, single_channel := false, conservative := false, order := 3,
     dealiasing_fraction := (2, 3), num_circle_points := 16, circle_radius := 1 }, by decide, rfl, rfl⟩

/-- the shift hypothesis of `GeneralVorticityConvectionStepper_step_translation` with injection: every shift along `x₀`,
    and along `x₁` the multiples of `N / gcd(N, m)` (here `N = 8`, `m = 4`, shift `(3, 2)`) -/
example : ((8 : ℕ) : ℤ) ∣ ((4 : ℕ) : ℤ) * ([3, 2] : List ℤ).getD 1 0 := by decide

end Exponax.EquivAssembled
