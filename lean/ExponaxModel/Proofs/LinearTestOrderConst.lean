import ExponaxModel.Proofs.LinearTestOrderGlobal
/-
C02 support — EXPLICIT constants in the local (T2) and global (T3) order bounds.

The quotients `Q_p` of `LinearTestOrder.lean` are re-expressed as monomial tables (`Q?tab`, checked by `ring`);
a generic lemma bounds the norm of a table evaluation by the table with absolute coefficients evaluated at
bounds of the arguments.  With `‖φ_{p+1}(w)‖ ≤ max(1, e^{Re w})/(p+1)!` this gives, for `0 ≤ t ≤ T`,

    ‖R_p(λt, μt) − e^{(λ+μ)t}‖ ≤ Cloc_p(λ, μ, T) · t^{p+1},
    Cloc_p(λ, μ, T) = absTab Q_ptab ‖λ‖ ‖μ‖ T A A C,   A = max(1, e^{T·Re λ})/(p+1)!,  C = max(1, e^{T·Re(λ+μ)})/(p+1)!,

a polynomial with non-negative rational coefficients in `‖λ‖, ‖μ‖, T, A, C`, and then
    ‖R_p(λ dt, μ dt)ⁿ − e^{(λ+μ) n dt}‖ ≤ Cloc_p · T · e^{(‖λ+μ‖ + Cloc_p T^p) T} · dt^p   (n·dt ≤ T).
-/
set_option linter.unusedVariables false
noncomputable section
namespace Exponax.LinearOrder
open Exponax Exponax.Spec Exponax.ContourTail Exponax.Gen.Etdrk

/-- a monomial `num/den · l^il · m^jm · t^kt · a^ka · b^kb · c^kc` -/
structure Mono where
  num : ℤ
  den : ℕ
  il : ℕ
  jm : ℕ
  kt : ℕ
  ka : ℕ
  kb : ℕ
  kc : ℕ

def Mono.val (x : Mono) (l m t a b c : ℂ) : ℂ :=
  (x.num : ℂ) / (x.den : ℂ) * l ^ x.il * m ^ x.jm * t ^ x.kt * a ^ x.ka * b ^ x.kb * c ^ x.kc

/-- the same monomial with the absolute value of its coefficient, over `ℝ` -/
def Mono.abs (x : Mono) (l m t a b c : ℝ) : ℝ :=
  |(x.num : ℝ)| / (x.den : ℝ) * l ^ x.il * m ^ x.jm * t ^ x.kt * a ^ x.ka * b ^ x.kb * c ^ x.kc

def evalTab (tab : List Mono) (l m t a b c : ℂ) : ℂ := (tab.map fun x => x.val l m t a b c).sum
def absTab (tab : List Mono) (l m t a b c : ℝ) : ℝ := (tab.map fun x => x.abs l m t a b c).sum

theorem Mono.norm_val_le (x : Mono) (l m t a b c : ℂ) (L M T A B C : ℝ)
    (hl : ‖l‖ ≤ L) (hm : ‖m‖ ≤ M) (ht : ‖t‖ ≤ T) (ha : ‖a‖ ≤ A) (hb : ‖b‖ ≤ B) (hc : ‖c‖ ≤ C) :
    ‖x.val l m t a b c‖ ≤ x.abs L M T A B C := by
  have hL : 0 ≤ L := (norm_nonneg _).trans hl
  have hM : 0 ≤ M := (norm_nonneg _).trans hm
  have hT : 0 ≤ T := (norm_nonneg _).trans ht
  have hA : 0 ≤ A := (norm_nonneg _).trans ha
  have hB : 0 ≤ B := (norm_nonneg _).trans hb
  have hC : 0 ≤ C := (norm_nonneg _).trans hc
  unfold Mono.val Mono.abs
  simp only [norm_mul, norm_div, norm_pow, Complex.norm_intCast, Complex.norm_natCast]
  gcongr

theorem absTab_nonneg (tab : List Mono) (l m t a b c : ℝ) (hl : 0 ≤ l) (hm : 0 ≤ m) (ht : 0 ≤ t)
    (ha : 0 ≤ a) (hb : 0 ≤ b) (hc : 0 ≤ c) : 0 ≤ absTab tab l m t a b c := by
  unfold absTab
  refine List.sum_nonneg (fun y hy => ?_)
  obtain ⟨x, _, rfl⟩ := List.mem_map.mp hy
  unfold Mono.abs
  positivity

/-- **generic bound**: the norm of a table evaluation is at most the absolute table at bounds of the arguments -/
theorem norm_evalTab_le (tab : List Mono) (l m t a b c : ℂ) (L M T A B C : ℝ)
    (hl : ‖l‖ ≤ L) (hm : ‖m‖ ≤ M) (ht : ‖t‖ ≤ T) (ha : ‖a‖ ≤ A) (hb : ‖b‖ ≤ B) (hc : ‖c‖ ≤ C) :
    ‖evalTab tab l m t a b c‖ ≤ absTab tab L M T A B C := by
  unfold evalTab absTab
  induction tab with
  | nil => simp
  | cons x xs ih =>
    simp only [List.map_cons, List.sum_cons]
    exact (norm_add_le _ _).trans (add_le_add (x.norm_val_le l m t a b c L M T A B C hl hm ht ha hb hc) ih)


/-- the monomial table of `Q1` (5 monomials) -/
def Q1tab : List Mono := [
  ⟨-1, 1, 0, 2, 0, 0, 0, 1⟩,
  ⟨-2, 1, 1, 1, 0, 0, 0, 1⟩,
  ⟨-1, 1, 2, 0, 0, 0, 0, 1⟩,
  ⟨1, 1, 1, 1, 0, 1, 0, 0⟩,
  ⟨1, 1, 2, 0, 0, 1, 0, 0⟩]

theorem Q1_eq_evalTab (l m t a c : ℂ) : Q1 l m t a c = evalTab Q1tab l m t a 1 c := by
  simp only [evalTab, Q1tab, List.map, List.sum_cons, List.sum_nil, Mono.val]
  unfold Q1 Q1c0
  push_cast
  ring

/-- the monomial table of `Q2` (13 monomials) -/
def Q2tab : List Mono := [
  ⟨1, 4, 1, 2, 0, 0, 0, 0⟩,
  ⟨1, 4, 2, 1, 0, 0, 0, 0⟩,
  ⟨-1, 1, 0, 3, 0, 0, 0, 1⟩,
  ⟨-3, 1, 1, 2, 0, 0, 0, 1⟩,
  ⟨-3, 1, 2, 1, 0, 0, 0, 1⟩,
  ⟨-1, 1, 3, 0, 0, 0, 0, 1⟩,
  ⟨1, 1, 1, 2, 0, 1, 0, 0⟩,
  ⟨2, 1, 2, 1, 0, 1, 0, 0⟩,
  ⟨1, 1, 3, 0, 0, 1, 0, 0⟩,
  ⟨1, 1, 2, 2, 1, 1, 0, 0⟩,
  ⟨1, 1, 3, 1, 1, 1, 0, 0⟩,
  ⟨1, 1, 3, 2, 2, 2, 0, 0⟩,
  ⟨1, 1, 4, 1, 2, 2, 0, 0⟩]

theorem Q2_eq_evalTab (l m t a c : ℂ) : Q2 l m t a c = evalTab Q2tab l m t a 1 c := by
  simp only [evalTab, Q2tab, List.map, List.sum_cons, List.sum_nil, Mono.val]
  unfold Q2 Q2c0 Q2c1 Q2c2
  push_cast
  ring

/-- the monomial table of `Q3` (67 monomials) -/
def Q3tab : List Mono := [
  ⟨-1, 24, 1, 3, 0, 0, 0, 0⟩,
  ⟨1, 24, 3, 1, 0, 0, 0, 0⟩,
  ⟨-1, 1, 0, 4, 0, 0, 0, 1⟩,
  ⟨-4, 1, 1, 3, 0, 0, 0, 1⟩,
  ⟨-6, 1, 2, 2, 0, 0, 0, 1⟩,
  ⟨-4, 1, 3, 1, 0, 0, 0, 1⟩,
  ⟨-1, 1, 4, 0, 0, 0, 0, 1⟩,
  ⟨4, 1, 1, 3, 0, 1, 0, 0⟩,
  ⟨6, 1, 2, 2, 0, 1, 0, 0⟩,
  ⟨3, 1, 3, 1, 0, 1, 0, 0⟩,
  ⟨1, 1, 4, 0, 0, 1, 0, 0⟩,
  ⟨-5, 72, 2, 3, 1, 0, 0, 0⟩,
  ⟨-1, 12, 3, 2, 1, 0, 0, 0⟩,
  ⟨-1, 72, 4, 1, 1, 0, 0, 0⟩,
  ⟨1, 24, 3, 2, 1, 0, 1, 0⟩,
  ⟨1, 24, 4, 1, 1, 0, 1, 0⟩,
  ⟨2, 1, 2, 3, 1, 1, 0, 0⟩,
  ⟨8, 3, 3, 2, 1, 1, 0, 0⟩,
  ⟨2, 3, 4, 1, 1, 1, 0, 0⟩,
  ⟨-13, 288, 3, 3, 2, 0, 0, 0⟩,
  ⟨-13, 288, 4, 2, 2, 0, 0, 0⟩,
  ⟨1, 48, 3, 3, 2, 0, 1, 0⟩,
  ⟨1, 16, 4, 2, 2, 0, 1, 0⟩,
  ⟨1, 24, 5, 1, 2, 0, 1, 0⟩,
  ⟨3, 4, 3, 3, 2, 1, 0, 0⟩,
  ⟨1, 2, 4, 2, 2, 1, 0, 0⟩,
  ⟨-1, 4, 5, 1, 2, 1, 0, 0⟩,
  ⟨-1, 2, 4, 2, 2, 1, 1, 0⟩,
  ⟨-1, 2, 5, 1, 2, 1, 1, 0⟩,
  ⟨4, 1, 4, 2, 2, 2, 0, 0⟩,
  ⟨4, 1, 5, 1, 2, 2, 0, 0⟩,
  ⟨-1, 108, 4, 3, 3, 0, 0, 0⟩,
  ⟨-1, 108, 5, 2, 3, 0, 0, 0⟩,
  ⟨-1, 96, 4, 3, 3, 0, 1, 0⟩,
  ⟨-1, 96, 5, 2, 3, 0, 1, 0⟩,
  ⟨-5, 24, 4, 3, 3, 1, 0, 0⟩,
  ⟨-5, 24, 5, 2, 3, 1, 0, 0⟩,
  ⟨1, 2, 4, 3, 3, 1, 1, 0⟩,
  ⟨3, 4, 5, 2, 3, 1, 1, 0⟩,
  ⟨1, 4, 6, 1, 3, 1, 1, 0⟩,
  ⟨4, 1, 4, 3, 3, 2, 0, 0⟩,
  ⟨3, 1, 5, 2, 3, 2, 0, 0⟩,
  ⟨-1, 1, 6, 1, 3, 2, 0, 0⟩,
  ⟨-1, 864, 5, 3, 4, 0, 0, 0⟩,
  ⟨-1, 864, 6, 2, 4, 0, 0, 0⟩,
  ⟨-1, 144, 5, 3, 4, 0, 1, 0⟩,
  ⟨-1, 144, 6, 2, 4, 0, 1, 0⟩,
  ⟨-5, 72, 5, 3, 4, 1, 0, 0⟩,
  ⟨-5, 72, 6, 2, 4, 1, 0, 0⟩,
  ⟨1, 8, 5, 3, 4, 1, 1, 0⟩,
  ⟨1, 8, 6, 2, 4, 1, 1, 0⟩,
  ⟨-1, 288, 6, 3, 5, 0, 1, 0⟩,
  ⟨-1, 288, 7, 2, 5, 0, 1, 0⟩,
  ⟨-1, 72, 6, 3, 5, 1, 0, 0⟩,
  ⟨-1, 72, 7, 2, 5, 1, 0, 0⟩,
  ⟨1, 24, 6, 3, 5, 1, 1, 0⟩,
  ⟨1, 24, 7, 2, 5, 1, 1, 0⟩,
  ⟨-1, 12, 6, 3, 5, 2, 0, 0⟩,
  ⟨-1, 12, 7, 2, 5, 2, 0, 0⟩,
  ⟨-1, 24, 7, 3, 6, 1, 1, 0⟩,
  ⟨-1, 24, 8, 2, 6, 1, 1, 0⟩,
  ⟨-1, 24, 7, 3, 6, 2, 0, 0⟩,
  ⟨-1, 24, 8, 2, 6, 2, 0, 0⟩,
  ⟨1, 2, 7, 3, 6, 2, 1, 0⟩,
  ⟨1, 2, 8, 2, 6, 2, 1, 0⟩,
  ⟨-1, 8, 8, 3, 7, 2, 1, 0⟩,
  ⟨-1, 8, 9, 2, 7, 2, 1, 0⟩]

theorem Q3_eq_evalTab (l m t a b c : ℂ) : Q3 l m t a b c = evalTab Q3tab l m t a b c := by
  simp only [evalTab, Q3tab, List.map, List.sum_cons, List.sum_nil, Mono.val]
  unfold Q3 Q3c0 Q3c1 Q3c2 Q3c3 Q3c4 Q3c5 Q3c6 Q3c7
  push_cast
  ring

/-- the monomial table of `Q4` (163 monomials) -/
def Q4tab : List Mono := [
  ⟨1, 32, 1, 4, 0, 0, 0, 0⟩,
  ⟨11, 144, 2, 3, 0, 0, 0, 0⟩,
  ⟨35, 576, 3, 2, 0, 0, 0, 0⟩,
  ⟨1, 64, 4, 1, 0, 0, 0, 0⟩,
  ⟨-1, 1, 0, 5, 0, 0, 0, 1⟩,
  ⟨-5, 1, 1, 4, 0, 0, 0, 1⟩,
  ⟨-10, 1, 2, 3, 0, 0, 0, 1⟩,
  ⟨-10, 1, 3, 2, 0, 0, 0, 1⟩,
  ⟨-5, 1, 4, 1, 0, 0, 0, 1⟩,
  ⟨-1, 1, 5, 0, 0, 0, 0, 1⟩,
  ⟨1, 1, 2, 3, 0, 1, 0, 0⟩,
  ⟨3, 1, 3, 2, 0, 1, 0, 0⟩,
  ⟨3, 1, 4, 1, 0, 1, 0, 0⟩,
  ⟨1, 1, 5, 0, 0, 1, 0, 0⟩,
  ⟨1, 384, 2, 4, 1, 0, 0, 0⟩,
  ⟨1, 72, 3, 3, 1, 0, 0, 0⟩,
  ⟨23, 2304, 4, 2, 1, 0, 0, 0⟩,
  ⟨-1, 384, 5, 1, 1, 0, 0, 0⟩,
  ⟨1, 32, 4, 2, 1, 0, 1, 0⟩,
  ⟨1, 48, 5, 1, 1, 0, 1, 0⟩,
  ⟨1, 1, 2, 4, 1, 1, 0, 0⟩,
  ⟨3, 2, 3, 3, 1, 1, 0, 0⟩,
  ⟨1, 1, 4, 2, 1, 1, 0, 0⟩,
  ⟨2, 3, 5, 1, 1, 1, 0, 0⟩,
  ⟨-1, 256, 3, 4, 2, 0, 0, 0⟩,
  ⟨-13, 6912, 4, 3, 2, 0, 0, 0⟩,
  ⟨25, 27648, 5, 2, 2, 0, 0, 0⟩,
  ⟨-1, 768, 6, 1, 2, 0, 0, 0⟩,
  ⟨1, 48, 4, 3, 2, 0, 1, 0⟩,
  ⟨7, 192, 5, 2, 2, 0, 1, 0⟩,
  ⟨1, 96, 6, 1, 2, 0, 1, 0⟩,
  ⟨1, 2, 3, 4, 2, 1, 0, 0⟩,
  ⟨31, 48, 4, 3, 2, 1, 0, 0⟩,
  ⟨5, 24, 5, 2, 2, 1, 0, 0⟩,
  ⟨1, 16, 6, 1, 2, 1, 0, 0⟩,
  ⟨-11, 4608, 4, 4, 3, 0, 0, 0⟩,
  ⟨-59, 27648, 5, 3, 3, 0, 0, 0⟩,
  ⟨-1, 18432, 6, 2, 3, 0, 0, 0⟩,
  ⟨1, 128, 4, 4, 3, 0, 1, 0⟩,
  ⟨7, 384, 5, 3, 3, 0, 1, 0⟩,
  ⟨11, 768, 6, 2, 3, 0, 1, 0⟩,
  ⟨1, 192, 7, 1, 3, 0, 1, 0⟩,
  ⟨1, 8, 4, 4, 3, 1, 0, 0⟩,
  ⟨5, 32, 5, 3, 3, 1, 0, 0⟩,
  ⟨1, 32, 6, 2, 3, 1, 0, 0⟩,
  ⟨-7, 96, 7, 1, 3, 1, 0, 0⟩,
  ⟨-1, 4, 7, 1, 3, 1, 1, 0⟩,
  ⟨4, 1, 7, 1, 3, 2, 0, 0⟩,
  ⟨-61, 73728, 5, 4, 4, 0, 0, 0⟩,
  ⟨-89, 110592, 6, 3, 4, 0, 0, 0⟩,
  ⟨-19, 884736, 7, 2, 4, 0, 0, 0⟩,
  ⟨1, 256, 5, 4, 4, 0, 1, 0⟩,
  ⟨7, 1152, 6, 3, 4, 0, 1, 0⟩,
  ⟨5, 4608, 7, 2, 4, 0, 1, 0⟩,
  ⟨1, 64, 5, 4, 4, 1, 0, 0⟩,
  ⟨23, 1152, 6, 3, 4, 1, 0, 0⟩,
  ⟨1, 1152, 7, 2, 4, 1, 0, 0⟩,
  ⟨1, 8, 6, 3, 4, 1, 1, 0⟩,
  ⟨5, 16, 7, 2, 4, 1, 1, 0⟩,
  ⟨1, 8, 8, 1, 4, 1, 1, 0⟩,
  ⟨-1, 1, 8, 1, 4, 2, 0, 0⟩,
  ⟨-523, 2654208, 6, 4, 5, 0, 0, 0⟩,
  ⟨-65, 331776, 7, 3, 5, 0, 0, 0⟩,
  ⟨-1, 294912, 8, 2, 5, 0, 0, 0⟩,
  ⟨-5, 6144, 6, 4, 5, 0, 1, 0⟩,
  ⟨-1, 2048, 7, 3, 5, 0, 1, 0⟩,
  ⟨1, 36864, 8, 2, 5, 0, 1, 0⟩,
  ⟨-1, 384, 6, 4, 5, 1, 0, 0⟩,
  ⟨-5, 2304, 7, 3, 5, 1, 0, 0⟩,
  ⟨-1, 4608, 8, 2, 5, 1, 0, 0⟩,
  ⟨3, 16, 6, 4, 5, 1, 1, 0⟩,
  ⟨7, 32, 7, 3, 5, 1, 1, 0⟩,
  ⟨1, 32, 8, 2, 5, 1, 1, 0⟩,
  ⟨-125, 3538944, 7, 4, 6, 0, 0, 0⟩,
  ⟨-125, 3538944, 8, 3, 6, 0, 0, 0⟩,
  ⟨-1, 3538944, 9, 2, 6, 0, 0, 0⟩,
  ⟨-3, 4096, 7, 4, 6, 0, 1, 0⟩,
  ⟨-13, 18432, 8, 3, 6, 0, 1, 0⟩,
  ⟨-1, 36864, 9, 2, 6, 0, 1, 0⟩,
  ⟨1, 1536, 8, 3, 6, 0, 2, 0⟩,
  ⟨5, 6144, 9, 2, 6, 0, 2, 0⟩,
  ⟨-5, 3072, 7, 4, 6, 1, 0, 0⟩,
  ⟨-59, 36864, 8, 3, 6, 1, 0, 0⟩,
  ⟨-1, 18432, 9, 2, 6, 1, 0, 0⟩,
  ⟨3, 64, 7, 4, 6, 1, 1, 0⟩,
  ⟨5, 96, 8, 3, 6, 1, 1, 0⟩,
  ⟨1, 384, 9, 2, 6, 1, 1, 0⟩,
  ⟨-103, 21233664, 8, 4, 7, 0, 0, 0⟩,
  ⟨-103, 21233664, 9, 3, 7, 0, 0, 0⟩,
  ⟨-37, 147456, 8, 4, 7, 0, 1, 0⟩,
  ⟨-37, 147456, 9, 3, 7, 0, 1, 0⟩,
  ⟨-1, 147456, 10, 2, 7, 0, 1, 0⟩,
  ⟨1, 2048, 8, 4, 7, 0, 2, 0⟩,
  ⟨1, 1536, 9, 3, 7, 0, 2, 0⟩,
  ⟨1, 6144, 10, 2, 7, 0, 2, 0⟩,
  ⟨-23, 55296, 8, 4, 7, 1, 0, 0⟩,
  ⟨-23, 55296, 9, 3, 7, 1, 0, 0⟩,
  ⟨-1, 147456, 10, 2, 7, 1, 0, 0⟩,
  ⟨1, 256, 8, 4, 7, 1, 1, 0⟩,
  ⟨7, 1536, 9, 3, 7, 1, 1, 0⟩,
  ⟨-83, 169869312, 9, 4, 8, 0, 0, 0⟩,
  ⟨-83, 169869312, 10, 3, 8, 0, 0, 0⟩,
  ⟨-17, 294912, 9, 4, 8, 0, 1, 0⟩,
  ⟨-17, 294912, 10, 3, 8, 0, 1, 0⟩,
  ⟨1, 8192, 9, 4, 8, 0, 2, 0⟩,
  ⟨1, 8192, 10, 3, 8, 0, 2, 0⟩,
  ⟨-1, 24576, 11, 2, 8, 0, 2, 0⟩,
  ⟨-1, 13824, 9, 4, 8, 1, 0, 0⟩,
  ⟨-1, 13824, 10, 3, 8, 1, 0, 0⟩,
  ⟨-1, 1024, 9, 4, 8, 1, 1, 0⟩,
  ⟨-1, 1024, 10, 3, 8, 1, 1, 0⟩,
  ⟨-1, 6144, 11, 2, 8, 1, 1, 0⟩,
  ⟨1, 256, 10, 3, 8, 1, 2, 0⟩,
  ⟨1, 128, 11, 2, 8, 1, 2, 0⟩,
  ⟨-1, 28311552, 10, 4, 9, 0, 0, 0⟩,
  ⟨-1, 28311552, 11, 3, 9, 0, 0, 0⟩,
  ⟨-13, 1572864, 10, 4, 9, 0, 1, 0⟩,
  ⟨-13, 1572864, 11, 3, 9, 0, 1, 0⟩,
  ⟨-5, 49152, 10, 4, 9, 0, 2, 0⟩,
  ⟨-5, 49152, 11, 3, 9, 0, 2, 0⟩,
  ⟨-5, 589824, 10, 4, 9, 1, 0, 0⟩,
  ⟨-5, 589824, 11, 3, 9, 1, 0, 0⟩,
  ⟨-1, 1536, 10, 4, 9, 1, 1, 0⟩,
  ⟨-1, 1536, 11, 3, 9, 1, 1, 0⟩,
  ⟨3, 256, 10, 4, 9, 1, 2, 0⟩,
  ⟨3, 256, 11, 3, 9, 1, 2, 0⟩,
  ⟨-1, 1024, 12, 2, 9, 1, 2, 0⟩,
  ⟨-1, 679477248, 11, 4, 10, 0, 0, 0⟩,
  ⟨-1, 679477248, 12, 3, 10, 0, 0, 0⟩,
  ⟨-1, 1179648, 11, 4, 10, 0, 1, 0⟩,
  ⟨-1, 1179648, 12, 3, 10, 0, 1, 0⟩,
  ⟨-11, 393216, 11, 4, 10, 0, 2, 0⟩,
  ⟨-11, 393216, 12, 3, 10, 0, 2, 0⟩,
  ⟨-5, 7077888, 11, 4, 10, 1, 0, 0⟩,
  ⟨-5, 7077888, 12, 3, 10, 1, 0, 0⟩,
  ⟨-1, 8192, 11, 4, 10, 1, 1, 0⟩,
  ⟨-1, 8192, 12, 3, 10, 1, 1, 0⟩,
  ⟨-1, 18874368, 12, 4, 11, 0, 1, 0⟩,
  ⟨-1, 18874368, 13, 3, 11, 0, 1, 0⟩,
  ⟨-1, 196608, 12, 4, 11, 0, 2, 0⟩,
  ⟨-1, 196608, 13, 3, 11, 0, 2, 0⟩,
  ⟨1, 98304, 12, 4, 11, 0, 3, 0⟩,
  ⟨1, 98304, 13, 3, 11, 0, 3, 0⟩,
  ⟨-1, 28311552, 12, 4, 11, 1, 0, 0⟩,
  ⟨-1, 28311552, 13, 3, 11, 1, 0, 0⟩,
  ⟨-1, 65536, 12, 4, 11, 1, 1, 0⟩,
  ⟨-1, 65536, 13, 3, 11, 1, 1, 0⟩,
  ⟨-1, 4096, 12, 4, 11, 1, 2, 0⟩,
  ⟨-1, 4096, 13, 3, 11, 1, 2, 0⟩,
  ⟨-1, 1572864, 13, 4, 12, 0, 2, 0⟩,
  ⟨-1, 1572864, 14, 3, 12, 0, 2, 0⟩,
  ⟨-1, 786432, 13, 4, 12, 1, 1, 0⟩,
  ⟨-1, 786432, 14, 3, 12, 1, 1, 0⟩,
  ⟨-1, 16384, 13, 4, 12, 1, 2, 0⟩,
  ⟨-1, 16384, 14, 3, 12, 1, 2, 0⟩,
  ⟨-1, 393216, 14, 4, 13, 0, 3, 0⟩,
  ⟨-1, 393216, 15, 3, 13, 0, 3, 0⟩,
  ⟨-1, 65536, 14, 4, 13, 1, 2, 0⟩,
  ⟨-1, 65536, 15, 3, 13, 1, 2, 0⟩,
  ⟨1, 4096, 14, 4, 13, 1, 3, 0⟩,
  ⟨1, 4096, 15, 3, 13, 1, 3, 0⟩,
  ⟨-1, 16384, 15, 4, 14, 1, 3, 0⟩,
  ⟨-1, 16384, 16, 3, 14, 1, 3, 0⟩]

set_option maxRecDepth 8000 in
theorem Q4_eq_evalTab (l m t a b c : ℂ) : Q4 l m t a b c = evalTab Q4tab l m t a b c := by
  simp only [evalTab, Q4tab, List.map, List.sum_cons, List.sum_nil, Mono.val]
  unfold Q4 Q4c0 Q4c1 Q4c2 Q4c3 Q4c4 Q4c5 Q4c6 Q4c7 Q4c8 Q4c9 Q4c10 Q4c11 Q4c12 Q4c13 Q4c14
  push_cast
  ring
/-! ### bounds of the remainders along the ray `t ↦ x·t`, `0 ≤ t ≤ T` -/

/-- `expMax x T = max(1, e^{xT})` (`= 1` in the dissipative case `x ≤ 0`) -/
def expMax (x T : ℝ) : ℝ := max 1 (Real.exp (x * T))

theorem expMax_pos (x T : ℝ) : 0 < expMax x T := lt_of_lt_of_le one_pos (le_max_left _ _)

theorem expMax_of_nonpos (x T : ℝ) (hx : x ≤ 0) (hT : 0 ≤ T) : expMax x T = 1 :=
  max_eq_left (Real.exp_le_one_iff.mpr (mul_nonpos_of_nonpos_of_nonneg hx hT))

theorem max_one_exp_ray (x t T : ℝ) (h0 : 0 ≤ t) (hT : t ≤ T) :
    max 1 (Real.exp (x * t)) ≤ expMax x T := by
  unfold expMax
  rcases le_total x 0 with hx | hx
  · exact max_le (le_max_left _ _)
      ((Real.exp_le_one_iff.mpr (mul_nonpos_of_nonpos_of_nonneg hx h0)).trans (le_max_left _ _))
  · exact max_le_max le_rfl (Real.exp_le_exp.mpr (mul_le_mul_of_nonneg_left hT hx))

theorem norm_phiE_ray (k : ℕ) (x : ℂ) (t T : ℝ) (h0 : 0 ≤ t) (hT : t ≤ T) :
    ‖phiE (k + 1) (x * t)‖ ≤ expMax x.re T / ((k + 1).factorial : ℝ) := by
  refine (norm_phiE_succ_le k _).trans ?_
  rw [Complex.re_mul_ofReal]
  exact div_le_div_of_nonneg_right (max_one_exp_ray x.re t T h0 hT) (by positivity)

theorem norm_phiE_ray_half (k : ℕ) (x : ℂ) (t T : ℝ) (h0 : 0 ≤ t) (hT : t ≤ T) :
    ‖phiE (k + 1) (x * t / 2)‖ ≤ expMax x.re T / ((k + 1).factorial : ℝ) := by
  have h : x * (t : ℂ) / 2 = x * ((t / 2 : ℝ) : ℂ) := by push_cast; ring
  rw [h]
  exact norm_phiE_ray k x (t / 2) T (by linarith) (by linarith)

/-- local ⟹ global with the explicit constant of `global_of_local` -/
def Cglob (Cl : ℝ) (s : ℂ) (p : ℕ) (T : ℝ) : ℝ := Cl * T * Real.exp ((‖s‖ + Cl * T ^ p) * T)

/-! ### ETDRK1 -/

/-- explicit local-error constant of ETDRK1: a polynomial with non-negative rational coefficients in
    `‖λ‖, ‖μ‖, T, max(1,e^{T Re λ})/2, max(1,e^{T Re(λ+μ)})/2` -/
def Cloc1 (l m : ℂ) (T : ℝ) : ℝ :=
  absTab Q1tab ‖l‖ ‖m‖ T (expMax l.re T / 2) 1 (expMax (l + m).re T / 2)

theorem Cloc1_nonneg (l m : ℂ) (T : ℝ) (hT : 0 ≤ T) : 0 ≤ Cloc1 l m T :=
  absTab_nonneg _ _ _ _ _ _ _ (norm_nonneg _) (norm_nonneg _) hT
    (div_nonneg (expMax_pos _ _).le (by norm_num)) zero_le_one
    (div_nonneg (expMax_pos _ _).le (by norm_num))

/-- **T2 with explicit constant, ETDRK1** -/
theorem R1_local_order_explicit (l m : ℂ) (T t : ℝ) (h0 : 0 ≤ t) (hT : t ≤ T) :
    ‖R1 (l * t) (m * t) - Complex.exp ((l + m) * t)‖ ≤ Cloc1 l m T * t ^ 2 := by
  have ha := norm_phiE_ray 1 l t T h0 hT
  have hc := norm_phiE_ray 1 (l + m) t T h0 hT
  norm_num [Nat.factorial] at ha hc
  have ht : ‖(t : ℂ)‖ ≤ T := by rwa [Complex.norm_real, Real.norm_eq_abs, abs_of_nonneg h0]
  rw [R1_sub_exp, Q1_eq_evalTab, norm_mul, norm_pow, Complex.norm_real, Real.norm_eq_abs,
    abs_of_nonneg h0, mul_comm]
  refine mul_le_mul_of_nonneg_right ?_ (pow_nonneg h0 2)
  exact norm_evalTab_le Q1tab _ _ _ _ _ _ _ _ _ _ _ _ le_rfl le_rfl ht ha (by simp) hc

/-- **T3 with explicit constant, ETDRK1**: `C' = Cloc1·T·e^{(‖λ+μ‖ + Cloc1·T^1)·T}` -/
theorem R1_global_order_explicit (l m : ℂ) (T : ℝ) (hT : 0 ≤ T) (n : ℕ) (dt : ℝ) (hdt : 0 ≤ dt)
    (hn : n * dt ≤ T) :
    ‖R1 (l * dt) (m * dt) ^ n - Complex.exp ((l + m) * (n * dt))‖
      ≤ Cglob (Cloc1 l m T) (l + m) 1 T * dt ^ 1 :=
  global_of_local (fun t : ℝ => R1 (l * t) (m * t)) (l + m) 1 (Cloc1 l m T) T
    (Cloc1_nonneg l m T hT) hT (fun t h0 h1 => R1_local_order_explicit l m T t h0 h1) n dt hdt hn

/-- **T3 with explicit constant for the regenerated ETDRK1 step**, iterated `n` times from any `u` -/
theorem E1step_global_order_explicit (l m : ℂ) (T : ℝ) (hT : 0 ≤ T) (n : ℕ) (dt : ℝ) (u : ℂ)
    (hdt : 0 ≤ dt) (hn : n * dt ≤ T) :
    ‖(E1lin l m dt)^[n] u - Complex.exp ((l + m) * (n * dt)) * u‖
      ≤ Cglob (Cloc1 l m T) (l + m) 1 T * dt ^ 1 * ‖u‖ := by
  rw [E1lin_iterate, ← sub_mul, norm_mul]
  exact mul_le_mul_of_nonneg_right (R1_global_order_explicit l m T hT n dt hdt hn) (norm_nonneg u)

/-! ### ETDRK2 -/

/-- explicit local-error constant of ETDRK2: a polynomial with non-negative rational coefficients in
    `‖λ‖, ‖μ‖, T, max(1,e^{T Re λ})/6, max(1,e^{T Re(λ+μ)})/6` -/
def Cloc2 (l m : ℂ) (T : ℝ) : ℝ :=
  absTab Q2tab ‖l‖ ‖m‖ T (expMax l.re T / 6) 1 (expMax (l + m).re T / 6)

theorem Cloc2_nonneg (l m : ℂ) (T : ℝ) (hT : 0 ≤ T) : 0 ≤ Cloc2 l m T :=
  absTab_nonneg _ _ _ _ _ _ _ (norm_nonneg _) (norm_nonneg _) hT
    (div_nonneg (expMax_pos _ _).le (by norm_num)) zero_le_one
    (div_nonneg (expMax_pos _ _).le (by norm_num))

/-- **T2 with explicit constant, ETDRK2** -/
theorem R2_local_order_explicit (l m : ℂ) (T t : ℝ) (h0 : 0 ≤ t) (hT : t ≤ T) :
    ‖R2 (l * t) (m * t) - Complex.exp ((l + m) * t)‖ ≤ Cloc2 l m T * t ^ 3 := by
  have ha := norm_phiE_ray 2 l t T h0 hT
  have hc := norm_phiE_ray 2 (l + m) t T h0 hT
  norm_num [Nat.factorial] at ha hc
  have ht : ‖(t : ℂ)‖ ≤ T := by rwa [Complex.norm_real, Real.norm_eq_abs, abs_of_nonneg h0]
  rw [R2_sub_exp, Q2_eq_evalTab, norm_mul, norm_pow, Complex.norm_real, Real.norm_eq_abs,
    abs_of_nonneg h0, mul_comm]
  refine mul_le_mul_of_nonneg_right ?_ (pow_nonneg h0 3)
  exact norm_evalTab_le Q2tab _ _ _ _ _ _ _ _ _ _ _ _ le_rfl le_rfl ht ha (by simp) hc

/-- **T3 with explicit constant, ETDRK2**: `C' = Cloc2·T·e^{(‖λ+μ‖ + Cloc2·T^2)·T}` -/
theorem R2_global_order_explicit (l m : ℂ) (T : ℝ) (hT : 0 ≤ T) (n : ℕ) (dt : ℝ) (hdt : 0 ≤ dt)
    (hn : n * dt ≤ T) :
    ‖R2 (l * dt) (m * dt) ^ n - Complex.exp ((l + m) * (n * dt))‖
      ≤ Cglob (Cloc2 l m T) (l + m) 2 T * dt ^ 2 :=
  global_of_local (fun t : ℝ => R2 (l * t) (m * t)) (l + m) 2 (Cloc2 l m T) T
    (Cloc2_nonneg l m T hT) hT (fun t h0 h1 => R2_local_order_explicit l m T t h0 h1) n dt hdt hn

/-- **T3 with explicit constant for the regenerated ETDRK2 step**, iterated `n` times from any `u` -/
theorem E2step_global_order_explicit (l m : ℂ) (T : ℝ) (hT : 0 ≤ T) (n : ℕ) (dt : ℝ) (u : ℂ)
    (hdt : 0 ≤ dt) (hn : n * dt ≤ T) :
    ‖(E2lin l m dt)^[n] u - Complex.exp ((l + m) * (n * dt)) * u‖
      ≤ Cglob (Cloc2 l m T) (l + m) 2 T * dt ^ 2 * ‖u‖ := by
  rw [E2lin_iterate, ← sub_mul, norm_mul]
  exact mul_le_mul_of_nonneg_right (R2_global_order_explicit l m T hT n dt hdt hn) (norm_nonneg u)

/-! ### ETDRK3 -/

/-- explicit local-error constant of ETDRK3: a polynomial with non-negative rational coefficients in
    `‖λ‖, ‖μ‖, T, max(1,e^{T Re λ})/24, max(1,e^{T Re(λ+μ)})/24` -/
def Cloc3 (l m : ℂ) (T : ℝ) : ℝ :=
  absTab Q3tab ‖l‖ ‖m‖ T (expMax l.re T / 24) (expMax l.re T / 24) (expMax (l + m).re T / 24)

theorem Cloc3_nonneg (l m : ℂ) (T : ℝ) (hT : 0 ≤ T) : 0 ≤ Cloc3 l m T :=
  absTab_nonneg _ _ _ _ _ _ _ (norm_nonneg _) (norm_nonneg _) hT
    (div_nonneg (expMax_pos _ _).le (by norm_num)) (div_nonneg (expMax_pos _ _).le (by norm_num))
    (div_nonneg (expMax_pos _ _).le (by norm_num))

/-- **T2 with explicit constant, ETDRK3** -/
theorem R3_local_order_explicit (l m : ℂ) (T t : ℝ) (h0 : 0 ≤ t) (hT : t ≤ T) :
    ‖R3 (l * t) (m * t) - Complex.exp ((l + m) * t)‖ ≤ Cloc3 l m T * t ^ 4 := by
  have ha := norm_phiE_ray 3 l t T h0 hT
  have hc := norm_phiE_ray 3 (l + m) t T h0 hT
  have hb := norm_phiE_ray_half 3 l t T h0 hT
  norm_num [Nat.factorial] at ha hc hb
  have ht : ‖(t : ℂ)‖ ≤ T := by rwa [Complex.norm_real, Real.norm_eq_abs, abs_of_nonneg h0]
  rw [R3_sub_exp, Q3_eq_evalTab, norm_mul, norm_pow, Complex.norm_real, Real.norm_eq_abs,
    abs_of_nonneg h0, mul_comm]
  refine mul_le_mul_of_nonneg_right ?_ (pow_nonneg h0 4)
  exact norm_evalTab_le Q3tab _ _ _ _ _ _ _ _ _ _ _ _ le_rfl le_rfl ht ha hb hc

/-- **T3 with explicit constant, ETDRK3**: `C' = Cloc3·T·e^{(‖λ+μ‖ + Cloc3·T^3)·T}` -/
theorem R3_global_order_explicit (l m : ℂ) (T : ℝ) (hT : 0 ≤ T) (n : ℕ) (dt : ℝ) (hdt : 0 ≤ dt)
    (hn : n * dt ≤ T) :
    ‖R3 (l * dt) (m * dt) ^ n - Complex.exp ((l + m) * (n * dt))‖
      ≤ Cglob (Cloc3 l m T) (l + m) 3 T * dt ^ 3 :=
  global_of_local (fun t : ℝ => R3 (l * t) (m * t)) (l + m) 3 (Cloc3 l m T) T
    (Cloc3_nonneg l m T hT) hT (fun t h0 h1 => R3_local_order_explicit l m T t h0 h1) n dt hdt hn

/-- **T3 with explicit constant for the regenerated ETDRK3 step**, iterated `n` times from any `u` -/
theorem E3step_global_order_explicit (l m : ℂ) (T : ℝ) (hT : 0 ≤ T) (n : ℕ) (dt : ℝ) (u : ℂ)
    (hdt : 0 ≤ dt) (hn : n * dt ≤ T) :
    ‖(E3lin l m dt)^[n] u - Complex.exp ((l + m) * (n * dt)) * u‖
      ≤ Cglob (Cloc3 l m T) (l + m) 3 T * dt ^ 3 * ‖u‖ := by
  rw [E3lin_iterate, ← sub_mul, norm_mul]
  exact mul_le_mul_of_nonneg_right (R3_global_order_explicit l m T hT n dt hdt hn) (norm_nonneg u)

/-! ### ETDRK4 -/

/-- explicit local-error constant of ETDRK4: a polynomial with non-negative rational coefficients in
    `‖λ‖, ‖μ‖, T, max(1,e^{T Re λ})/120, max(1,e^{T Re(λ+μ)})/120` -/
def Cloc4 (l m : ℂ) (T : ℝ) : ℝ :=
  absTab Q4tab ‖l‖ ‖m‖ T (expMax l.re T / 120) (expMax l.re T / 120) (expMax (l + m).re T / 120)

theorem Cloc4_nonneg (l m : ℂ) (T : ℝ) (hT : 0 ≤ T) : 0 ≤ Cloc4 l m T :=
  absTab_nonneg _ _ _ _ _ _ _ (norm_nonneg _) (norm_nonneg _) hT
    (div_nonneg (expMax_pos _ _).le (by norm_num)) (div_nonneg (expMax_pos _ _).le (by norm_num))
    (div_nonneg (expMax_pos _ _).le (by norm_num))

/-- **T2 with explicit constant, ETDRK4** -/
theorem R4_local_order_explicit (l m : ℂ) (T t : ℝ) (h0 : 0 ≤ t) (hT : t ≤ T) :
    ‖R4 (l * t) (m * t) - Complex.exp ((l + m) * t)‖ ≤ Cloc4 l m T * t ^ 5 := by
  have ha := norm_phiE_ray 4 l t T h0 hT
  have hc := norm_phiE_ray 4 (l + m) t T h0 hT
  have hb := norm_phiE_ray_half 4 l t T h0 hT
  norm_num [Nat.factorial] at ha hc hb
  have ht : ‖(t : ℂ)‖ ≤ T := by rwa [Complex.norm_real, Real.norm_eq_abs, abs_of_nonneg h0]
  rw [R4_sub_exp, Q4_eq_evalTab, norm_mul, norm_pow, Complex.norm_real, Real.norm_eq_abs,
    abs_of_nonneg h0, mul_comm]
  refine mul_le_mul_of_nonneg_right ?_ (pow_nonneg h0 5)
  exact norm_evalTab_le Q4tab _ _ _ _ _ _ _ _ _ _ _ _ le_rfl le_rfl ht ha hb hc

/-- **T3 with explicit constant, ETDRK4**: `C' = Cloc4·T·e^{(‖λ+μ‖ + Cloc4·T^4)·T}` -/
theorem R4_global_order_explicit (l m : ℂ) (T : ℝ) (hT : 0 ≤ T) (n : ℕ) (dt : ℝ) (hdt : 0 ≤ dt)
    (hn : n * dt ≤ T) :
    ‖R4 (l * dt) (m * dt) ^ n - Complex.exp ((l + m) * (n * dt))‖
      ≤ Cglob (Cloc4 l m T) (l + m) 4 T * dt ^ 4 :=
  global_of_local (fun t : ℝ => R4 (l * t) (m * t)) (l + m) 4 (Cloc4 l m T) T
    (Cloc4_nonneg l m T hT) hT (fun t h0 h1 => R4_local_order_explicit l m T t h0 h1) n dt hdt hn

/-- **T3 with explicit constant for the regenerated ETDRK4 step**, iterated `n` times from any `u` -/
theorem E4step_global_order_explicit (l m : ℂ) (T : ℝ) (hT : 0 ≤ T) (n : ℕ) (dt : ℝ) (u : ℂ)
    (hdt : 0 ≤ dt) (hn : n * dt ≤ T) :
    ‖(E4lin l m dt)^[n] u - Complex.exp ((l + m) * (n * dt)) * u‖
      ≤ Cglob (Cloc4 l m T) (l + m) 4 T * dt ^ 4 * ‖u‖ := by
  rw [E4lin_iterate, ← sub_mul, norm_mul]
  exact mul_le_mul_of_nonneg_right (R4_global_order_explicit l m T hT n dt hdt hn) (norm_nonneg u)

/-! ### what the constants look like -/

/-- ETDRK1: `Cloc1 = (‖λ+μ‖-free form)` — the table evaluated: five monomials -/
theorem Cloc1_eq (l m : ℂ) (T : ℝ) :
    Cloc1 l m T = (‖m‖ ^ 2 + 2 * ‖l‖ * ‖m‖ + ‖l‖ ^ 2) * (expMax (l + m).re T / 2)
      + (‖l‖ * ‖m‖ + ‖l‖ ^ 2) * (expMax l.re T / 2) := by
  simp only [Cloc1, absTab, Q1tab, List.map, List.sum_cons, List.sum_nil, Mono.abs]
  norm_num
  ring

/-- in the dissipative case `Re λ ≤ 0`, `Re(λ+μ) ≤ 0` no exponential appears: `Cloc1 = ((‖λ‖+‖μ‖)² + ‖λ‖(‖λ‖+‖μ‖))/2` -/
theorem Cloc1_dissipative (l m : ℂ) (T : ℝ) (hT : 0 ≤ T) (hl : l.re ≤ 0) (hs : (l + m).re ≤ 0) :
    Cloc1 l m T = ((‖l‖ + ‖m‖) ^ 2 + ‖l‖ * (‖l‖ + ‖m‖)) / 2 := by
  rw [Cloc1_eq, expMax_of_nonpos _ _ hl hT, expMax_of_nonpos _ _ hs hT]
  ring

/-! ### non-vacuity -/
example : ∃ t T : ℝ, 0 ≤ t ∧ t ≤ T := ⟨0, 1, le_rfl, zero_le_one⟩
example : ∃ (n : ℕ) (dt T : ℝ), 0 ≤ T ∧ 0 ≤ dt ∧ n * dt ≤ T := ⟨4, 1 / 4, 1, zero_le_one, by norm_num, by norm_num⟩
example : ∃ l m : ℂ, l.re ≤ 0 ∧ (l + m).re ≤ 0 := ⟨-2, 1, by norm_num, by norm_num⟩

end Exponax.LinearOrder
end
