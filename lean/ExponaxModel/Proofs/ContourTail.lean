import ExponaxModel.Proofs.Contour
import Mathlib.Analysis.Complex.CauchyIntegral
import Mathlib.Analysis.SpecificLimits.Normed
/-
C02 support — accuracy of the Kassam–Trefethen `M`-point contour rule.

T1  (aliasing identity)  if `f (ρ + z) = Σ_n b_n ρ^n` at the contour nodes `ρ = r ζ_j`, then
    `contourMean (roots_of_unity M) r f z = Σ_{m ≥ 0} (−1)^m b_{mM} r^{mM}`  (a `HasSum`), hence
    `‖contourMean − b_0‖ ≤ Σ_{m ≥ 1} ‖b_{mM}‖ ‖r‖^{mM}`.
T2  (Cauchy-estimate form)  if `f` is holomorphic on the open disc of radius `R > ‖r‖` about `z`,
    continuous on its closure, and `‖f‖ ≤ S` on the circle `‖w − z‖ = R`, then
    `‖contourMean (roots_of_unity M) r f z − f z‖ ≤ S q^M / (1 − q^M)`, `q = ‖r‖/R`.

Everything is about `Spec.contourMean` on the REGENERATED node list `Gen.Etdrk.roots_of_unity M`.
-/
set_option linter.unusedVariables false
namespace Exponax.ContourTail
open Exponax Exponax.Spec Exponax.Gen.Etdrk Finset

/-! ## power sums of the regenerated nodes -/

/-- every regenerated node is an `M`-th root of `−1` (the half-step offset `j − ½`) -/
theorem root_of_unity_pow_M (M j : ℕ) (hM : 0 < M) : (root_of_unity M j : ℂ) ^ M = -1 := by
  have hMne : (M : ℂ) ≠ 0 := by exact_mod_cast hM.ne'
  have h1 : (M : ℂ) * (2 * Real.pi * Complex.I / M) = 2 * Real.pi * Complex.I := by field_simp
  have h2 : (M : ℂ) * (-(Real.pi * Complex.I / M)) = -(Real.pi * Complex.I) := by field_simp
  have hω : Complex.exp (2 * Real.pi * Complex.I / M) ^ M = 1 := by
    rw [← Complex.exp_nat_mul, h1, Complex.exp_two_pi_mul_I]
  have hh : Complex.exp (-(Real.pi * Complex.I / M)) ^ M = -1 := by
    rw [← Complex.exp_nat_mul, h2, Complex.exp_neg, Complex.exp_pi_mul_I]
    norm_num
  rw [root_of_unity_eq, mul_pow, hh, ← pow_mul, mul_comm j M, pow_mul, hω, one_pow, one_mul]

theorem root_of_unity_pow_mul (M j m : ℕ) (hM : 0 < M) :
    (root_of_unity M j : ℂ) ^ (m * M) = (-1) ^ m := by
  rw [mul_comm, pow_mul, root_of_unity_pow_M M j hM]

/-- `Σ_j ζ_j^{mM} = M (−1)^m` (complements `roots_sum_pow`, which gives `0` when `M ∤ n`) -/
theorem roots_sum_pow_mul (M m : ℕ) (hM : 0 < M) :
    ((roots_of_unity (K := ℂ) M).map (fun ζ => ζ ^ (m * M))).sum = (M : ℂ) * (-1) ^ m := by
  simp only [roots_of_unity, List.map_map]
  rw [list_range_map_sum]
  simp only [Function.comp, root_of_unity_pow_mul _ _ _ hM]
  simp

theorem mem_roots_iff (M : ℕ) (ζ : ℂ) :
    ζ ∈ (roots_of_unity M : List ℂ) ↔ ∃ i, i < M ∧ root_of_unity M (i + 1) = ζ := by
  simp only [roots_of_unity, List.mem_map, List.mem_range]

theorem norm_of_mem_roots (M : ℕ) (ζ : ℂ) (h : ζ ∈ (roots_of_unity M : List ℂ)) : ‖ζ‖ = 1 := by
  obtain ⟨i, _, rfl⟩ := (mem_roots_iff M ζ).mp h
  exact norm_root_of_unity M (i + 1)

/-! ## T1 — the aliasing identity -/

theorem hasSum_list_sum (l : List ℂ) (F : ℂ → ℕ → ℂ) (g : ℂ → ℂ)
    (h : ∀ ζ ∈ l, HasSum (F ζ) (g ζ)) :
    HasSum (fun n => (l.map (fun ζ => F ζ n)).sum) (l.map g).sum := by
  induction l with
  | nil => simp
  | cons x xs ih =>
    simp only [List.map_cons, List.sum_cons]
    exact (h x (by simp)).add (ih (fun ζ hζ => h ζ (by simp [hζ])))

/-- **T1 (aliasing identity).**  If, at every contour node `ρ = r ζ_j`, `f (ρ + z)` is the sum of
the power series `Σ_n b_n ρ^n`, then the `M`-point contour mean is the aliased series
`Σ_m (−1)^m b_{mM} r^{mM}`.  (Only convergence AT THE NODES is needed.) -/
theorem contourMean_hasSum (M : ℕ) (hM : 0 < M) (r z : ℂ) (f : ℂ → ℂ) (b : ℕ → ℂ)
    (hf : ∀ ζ ∈ (roots_of_unity M : List ℂ),
      HasSum (fun n => b n * (r * ζ) ^ n) (f (r * ζ + z))) :
    HasSum (fun m => (-1) ^ m * b (m * M) * r ^ (m * M))
      (contourMean (roots_of_unity M) r f z) := by
  have hMne : (M : ℂ) ≠ 0 := by exact_mod_cast hM.ne'
  rw [contourMean_eq, length_roots]
  have h1 := hasSum_list_sum (roots_of_unity M) (fun ζ n => b n * (r * ζ) ^ n)
    (fun ζ => f (r * ζ + z)) hf
  have h2 : ∀ n, ((roots_of_unity (K := ℂ) M).map (fun ζ => b n * (r * ζ) ^ n)).sum
      = b n * r ^ n * ((roots_of_unity (K := ℂ) M).map (fun ζ => ζ ^ n)).sum := by
    intro n
    rw [← List.sum_map_mul_left]
    congr 1
    apply List.map_congr_left
    intro ζ _
    rw [mul_pow]; ring
  simp only [h2] at h1
  have h3 := h1.div_const (M : ℂ)
  have hinj : Function.Injective (fun m : ℕ => m * M) := by
    intro a c hac
    exact Nat.eq_of_mul_eq_mul_right hM hac
  have hzero : ∀ n, n ∉ Set.range (fun m : ℕ => m * M) →
      b n * r ^ n * ((roots_of_unity (K := ℂ) M).map (fun ζ => ζ ^ n)).sum / (M : ℂ) = 0 := by
    intro n hn
    have hnd : ¬ M ∣ n := by
      rintro ⟨k, rfl⟩
      exact hn ⟨k, by simp [mul_comm]⟩
    rw [roots_sum_pow M n hM hnd, mul_zero, zero_div]
  have h4 := (hinj.hasSum_iff hzero).mpr h3
  convert h4 using 1
  funext m
  simp only [Function.comp, roots_sum_pow_mul M m hM]
  field_simp

/-- the aliased tail: `contourMean − b_0 = Σ_{m ≥ 1} (−1)^m b_{mM} r^{mM}` -/
theorem contourMean_sub_hasSum (M : ℕ) (hM : 0 < M) (r z : ℂ) (f : ℂ → ℂ) (b : ℕ → ℂ)
    (hf : ∀ ζ ∈ (roots_of_unity M : List ℂ),
      HasSum (fun n => b n * (r * ζ) ^ n) (f (r * ζ + z))) :
    HasSum (fun m => (-1) ^ (m + 1) * b ((m + 1) * M) * r ^ ((m + 1) * M))
      (contourMean (roots_of_unity M) r f z - b 0) := by
  have h := contourMean_hasSum M hM r z f b hf
  have h' := (hasSum_nat_add_iff' 1).mpr h
  simpa using h'

/-- the tail series of T1 is (absolutely) summable, so the `tsum` below is a genuine sum -/
theorem contourMean_tail_summable (M : ℕ) (hM : 0 < M) (r z : ℂ) (f : ℂ → ℂ) (b : ℕ → ℂ)
    (hf : ∀ ζ ∈ (roots_of_unity M : List ℂ),
      HasSum (fun n => b n * (r * ζ) ^ n) (f (r * ζ + z))) :
    Summable (fun m => ‖b ((m + 1) * M)‖ * ‖r‖ ^ ((m + 1) * M)) := by
  have h := summable_norm_iff.mpr (contourMean_sub_hasSum M hM r z f b hf).summable
  convert h using 1
  funext m
  simp [norm_pow]

/-- **T1 (error bound).** `‖contourMean − b_0‖ ≤ Σ_{m ≥ 1} ‖b_{mM}‖ ‖r‖^{mM}` -/
theorem norm_contourMean_sub_le (M : ℕ) (hM : 0 < M) (r z : ℂ) (f : ℂ → ℂ) (b : ℕ → ℂ)
    (hf : ∀ ζ ∈ (roots_of_unity M : List ℂ),
      HasSum (fun n => b n * (r * ζ) ^ n) (f (r * ζ + z))) :
    ‖contourMean (roots_of_unity M) r f z - b 0‖
      ≤ ∑' m, ‖b ((m + 1) * M)‖ * ‖r‖ ^ ((m + 1) * M) := by
  have h := contourMean_sub_hasSum M hM r z f b hf
  have hs := summable_norm_iff.mpr h.summable
  rw [← h.tsum_eq]
  refine (norm_tsum_le_tsum_norm hs).trans (le_of_eq ?_)
  congr 1
  funext m
  simp [norm_pow]

/-- T1 with a geometric majorant on the aliased coefficients:
`‖b_{mM}‖ ‖r‖^{mM} ≤ S q^{mM}` (`m ≥ 1`, `0 ≤ q < 1`) gives `S q^M/(1 − q^M)` -/
theorem norm_contourMean_sub_le_geometric (M : ℕ) (hM : 0 < M) (r z : ℂ) (f : ℂ → ℂ) (b : ℕ → ℂ)
    (hf : ∀ ζ ∈ (roots_of_unity M : List ℂ),
      HasSum (fun n => b n * (r * ζ) ^ n) (f (r * ζ + z)))
    (S q : ℝ) (hq0 : 0 ≤ q) (hq1 : q < 1)
    (hb : ∀ m, ‖b ((m + 1) * M)‖ * ‖r‖ ^ ((m + 1) * M) ≤ S * q ^ ((m + 1) * M)) :
    ‖contourMean (roots_of_unity M) r f z - b 0‖ ≤ S * q ^ M / (1 - q ^ M) := by
  have hqM0 : 0 ≤ q ^ M := pow_nonneg hq0 M
  have hqM1 : q ^ M < 1 := pow_lt_one₀ hq0 hq1 hM.ne'
  have hgeo := (hasSum_geometric_of_lt_one hqM0 hqM1).mul_left (S * q ^ M)
  have hb' : ∀ m, ‖b ((m + 1) * M)‖ * ‖r‖ ^ ((m + 1) * M) ≤ S * q ^ M * (q ^ M) ^ m := by
    intro m
    refine (hb m).trans (le_of_eq ?_)
    rw [← pow_mul, mul_assoc, ← pow_add]
    congr 2
    ring
  have hle := hasSum_le hb' (contourMean_tail_summable M hM r z f b hf).hasSum hgeo
  exact (norm_contourMean_sub_le M hM r z f b hf).trans (hle.trans (le_of_eq (by rw [div_eq_mul_inv])))

/-! ### T1 for `HasFPowerSeriesOnBall` -/

/-- a `HasFPowerSeriesOnBall` expansion about `z` with radius `> ‖r‖` converges at all nodes -/
theorem hasSum_at_nodes_of_hasFPowerSeriesOnBall (M : ℕ) (r z : ℂ) (f : ℂ → ℂ)
    (p : FormalMultilinearSeries ℂ ℂ ℂ) (ρ : ENNReal) (hp : HasFPowerSeriesOnBall f p z ρ)
    (hr : (‖r‖₊ : ENNReal) < ρ) :
    ∀ ζ ∈ (roots_of_unity M : List ℂ),
      HasSum (fun n => p.coeff n * (r * ζ) ^ n) (f (r * ζ + z)) := by
  intro ζ hζ
  have hn : ‖ζ‖ = 1 := norm_of_mem_roots M ζ hζ
  have hmem : r * ζ ∈ Metric.eball (0 : ℂ) ρ := by
    rw [Metric.mem_eball, edist_zero_right, enorm_mul]
    have : ‖ζ‖ₑ = 1 := by rw [← ofReal_norm, hn]; simp
    rw [this, mul_one]
    exact hr
  have h := hp.hasSum hmem
  rw [add_comm] at h
  have h' : (fun n => p.coeff n * (r * ζ) ^ n) = fun n => p n fun _ => r * ζ := by
    funext n
    rw [FormalMultilinearSeries.apply_eq_pow_smul_coeff, smul_eq_mul, mul_comm]
  rw [h']
  exact h

/-- **T1 (`HasFPowerSeriesOnBall` form).** -/
theorem contourMean_hasSum_of_hasFPowerSeriesOnBall (M : ℕ) (hM : 0 < M) (r z : ℂ) (f : ℂ → ℂ)
    (p : FormalMultilinearSeries ℂ ℂ ℂ) (ρ : ENNReal) (hp : HasFPowerSeriesOnBall f p z ρ)
    (hr : (‖r‖₊ : ENNReal) < ρ) :
    HasSum (fun m => (-1) ^ m * p.coeff (m * M) * r ^ (m * M))
      (contourMean (roots_of_unity M) r f z) :=
  contourMean_hasSum M hM r z f p.coeff
    (hasSum_at_nodes_of_hasFPowerSeriesOnBall M r z f p ρ hp hr)

theorem coeff_zero_of_hasFPowerSeriesOnBall (z : ℂ) (f : ℂ → ℂ)
    (p : FormalMultilinearSeries ℂ ℂ ℂ) (ρ : ENNReal) (hp : HasFPowerSeriesOnBall f p z ρ) :
    p.coeff 0 = f z := by
  have h := hp.coeff_zero (fun _ => (1 : ℂ))
  rw [← h]
  rfl

/-- **T1 (error bound, `HasFPowerSeriesOnBall` form).**
`‖contourMean − f z‖ ≤ Σ_{m ≥ 1} ‖b_{mM}‖ ‖r‖^{mM}` with `b = p.coeff` -/
theorem norm_contourMean_sub_le_of_hasFPowerSeriesOnBall (M : ℕ) (hM : 0 < M) (r z : ℂ)
    (f : ℂ → ℂ) (p : FormalMultilinearSeries ℂ ℂ ℂ) (ρ : ENNReal)
    (hp : HasFPowerSeriesOnBall f p z ρ) (hr : (‖r‖₊ : ENNReal) < ρ) :
    ‖contourMean (roots_of_unity M) r f z - f z‖
      ≤ ∑' m, ‖p.coeff ((m + 1) * M)‖ * ‖r‖ ^ ((m + 1) * M) := by
  rw [← coeff_zero_of_hasFPowerSeriesOnBall z f p ρ hp]
  exact norm_contourMean_sub_le M hM r z f p.coeff
    (hasSum_at_nodes_of_hasFPowerSeriesOnBall M r z f p ρ hp hr)

/-! ## T2 — Cauchy-estimate form -/

/-- Cauchy estimate for the Cauchy power series: `‖b_n‖ ≤ S R^{-n}` -/
theorem norm_cauchyPowerSeries_coeff_le (f : ℂ → ℂ) (z : ℂ) (R S : ℝ) (hR : 0 < R)
    (hS : ∀ w ∈ Metric.sphere z R, ‖f w‖ ≤ S) (n : ℕ) :
    ‖(cauchyPowerSeries f z R).coeff n‖ ≤ S * R⁻¹ ^ n := by
  rw [← FormalMultilinearSeries.norm_apply_eq_norm_coef]
  refine (norm_cauchyPowerSeries_le f z R n).trans ?_
  rw [abs_of_pos hR]
  have hpi : 0 < 2 * Real.pi := by positivity
  have hint : (∫ θ : ℝ in 0..2 * Real.pi, ‖f (circleMap z R θ)‖) ≤ S * (2 * Real.pi) := by
    have h := intervalIntegral.norm_integral_le_of_norm_le_const (a := 0) (b := 2 * Real.pi)
      (C := S) (f := fun θ : ℝ => ‖f (circleMap z R θ)‖) (by
        intro θ _
        rw [norm_norm]
        exact hS _ (circleMap_mem_sphere z hR.le θ))
    rw [sub_zero, abs_of_pos hpi] at h
    exact (le_abs_self _).trans (by simpa [Real.norm_eq_abs] using h)
  have hpow : 0 ≤ R⁻¹ ^ n := by positivity
  refine mul_le_mul_of_nonneg_right ?_ hpow
  calc (2 * Real.pi)⁻¹ * ∫ θ : ℝ in 0..2 * Real.pi, ‖f (circleMap z R θ)‖
      ≤ (2 * Real.pi)⁻¹ * (S * (2 * Real.pi)) := by
        exact mul_le_mul_of_nonneg_left hint (by positivity)
    _ = S := by field_simp

/-- **T2 (Cauchy-estimate form).** -/
theorem norm_contourMean_sub_le_cauchy (M : ℕ) (hM : 0 < M) (r z : ℂ) (f : ℂ → ℂ) (R S : ℝ)
    (hrR : ‖r‖ < R) (hf : DiffContOnCl ℂ f (Metric.ball z R))
    (hS : ∀ w ∈ Metric.sphere z R, ‖f w‖ ≤ S) :
    ‖contourMean (roots_of_unity M) r f z - f z‖
      ≤ S * (‖r‖ / R) ^ M / (1 - (‖r‖ / R) ^ M) := by
  have hR : 0 < R := (norm_nonneg r).trans_lt hrR
  lift R to NNReal using hR.le
  have hp := hf.hasFPowerSeriesOnBall (by exact_mod_cast hR)
  have hr' : (‖r‖₊ : ENNReal) < (R : ENNReal) := by
    rw [ENNReal.coe_lt_coe]
    exact_mod_cast hrR
  have hnodes := hasSum_at_nodes_of_hasFPowerSeriesOnBall M r z f _ _ hp hr'
  rw [← coeff_zero_of_hasFPowerSeriesOnBall z f _ _ hp]
  have hq0 : 0 ≤ ‖r‖ / (R : ℝ) := div_nonneg (norm_nonneg r) hR.le
  have hq1 : ‖r‖ / (R : ℝ) < 1 := (div_lt_one hR).mpr hrR
  refine norm_contourMean_sub_le_geometric M hM r z f _ hnodes S _ hq0 hq1 ?_
  intro m
  have hc := norm_cauchyPowerSeries_coeff_le f z R S hR hS ((m + 1) * M)
  calc ‖(cauchyPowerSeries f z R).coeff ((m + 1) * M)‖ * ‖r‖ ^ ((m + 1) * M)
      ≤ S * (R : ℝ)⁻¹ ^ ((m + 1) * M) * ‖r‖ ^ ((m + 1) * M) :=
        mul_le_mul_of_nonneg_right hc (by positivity)
    _ = S * (‖r‖ / (R : ℝ)) ^ ((m + 1) * M) := by
        rw [div_eq_mul_inv, mul_pow]; ring

/-- T2 for a function differentiable on a set containing the closed disc -/
theorem norm_contourMean_sub_le_cauchy' (M : ℕ) (hM : 0 < M) (r z : ℂ) (f : ℂ → ℂ) (R S : ℝ)
    (U : Set ℂ) (hrR : ‖r‖ < R) (hf : DifferentiableOn ℂ f U) (hU : Metric.closedBall z R ⊆ U)
    (hS : ∀ w ∈ Metric.sphere z R, ‖f w‖ ≤ S) :
    ‖contourMean (roots_of_unity M) r f z - f z‖
      ≤ S * (‖r‖ / R) ^ M / (1 - (‖r‖ / R) ^ M) :=
  norm_contourMean_sub_le_cauchy M hM r z f R S hrR (hf.diffContOnCl_ball hU) hS

/-- non-vacuity of T2: `f = exp`, `z = 0`, `r = 1`, `R = 2`, `S = e²` -/
example : ‖contourMean (roots_of_unity 16) 1 Complex.exp 0 - Complex.exp 0‖
    ≤ Real.exp 2 * (‖(1 : ℂ)‖ / 2) ^ 16 / (1 - (‖(1 : ℂ)‖ / 2) ^ 16) := by
  refine norm_contourMean_sub_le_cauchy' 16 (by norm_num) 1 0 Complex.exp 2 (Real.exp 2) Set.univ
    (by simp) Complex.differentiable_exp.differentiableOn (Set.subset_univ _) ?_
  intro w hw
  rw [Complex.norm_exp]
  apply Real.exp_le_exp.mpr
  have : ‖w‖ = 2 := by simpa using hw
  exact (Complex.re_le_norm w).trans this.le

/-- non-vacuity of T1: `f = exp`, `b_n = 1/n!` -/
example (M : ℕ) (hM : 0 < M) (r : ℂ) :
    HasSum (fun m => (-1) ^ m * ((1 : ℂ) / ((m * M).factorial : ℂ)) * r ^ (m * M))
      (contourMean (roots_of_unity M) r Complex.exp 0) := by
  refine contourMean_hasSum M hM r 0 Complex.exp (fun n => 1 / (n.factorial : ℂ)) ?_
  intro ζ _
  have h := NormedSpace.expSeries_div_hasSum_exp (𝔸 := ℂ) (r * ζ)
  rw [← Complex.exp_eq_exp_ℂ] at h
  rw [add_zero]
  have h' : (fun n => 1 / (n.factorial : ℂ) * (r * ζ) ^ n)
      = fun n => (r * ζ) ^ n / (n.factorial : ℂ) := by
    funext n
    ring
  rw [h']
  exact h

/-- non-vacuity of the `HasFPowerSeriesOnBall` form: `f = exp` with its Cauchy power series -/
example (M : ℕ) (hM : 0 < M) :
    HasSum (fun m => (-1) ^ m * (cauchyPowerSeries Complex.exp 0 2).coeff (m * M) * (1 : ℂ) ^ (m * M))
      (contourMean (roots_of_unity M) 1 Complex.exp 0) :=
  contourMean_hasSum_of_hasFPowerSeriesOnBall M hM 1 0 Complex.exp _ _
    (Complex.differentiable_exp.hasFPowerSeriesOnBall 0 (R := 2) (by norm_num)) (by simp)

end Exponax.ContourTail
