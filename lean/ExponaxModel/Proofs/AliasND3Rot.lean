import ExponaxModel.Proofs.AliasND2Vort
import ExponaxModel.Proofs.LerayAlgebra
/-
C03, part 12 (H3): `ProjectedConvection3d` without injection (`projected3d c none`), `D = 3`, cut-off
`3·Kc < N`.

Model pipeline (`Model/Nonlin.lean`, `projected3d`), all cross products being the REGENERATED
`Gen.Misc.cross_product_3d`:

  `ω̂ = (i s k) × û` (stored modes) → `ω = ifft(mask·ω̂)`, `u = ifft(mask·û)` → `u × ω` pointwise
  → `mask·fft(·)` → Leray projection `P = 1 − d Δ̂⁻¹ dᵀ` with the guarded inverse
  `Δ̂⁻¹ = where(Δ̂ ≠ 0, 1/Δ̂, 0)` (so `P = identity` at `k = 0`).

  * `lerayPsym`                  lattice symbol `P_ie(p) = δ_ie − (i s p_i)·Δ̂⁻¹(p)·(i s p_e)`,
  * `curlSpec`                   box spectrum of the vorticity `(i s p) × Û(p)`,
  * `crossConv`, `rotSpec`       the alias-free (linear-convolution) spectrum of `u × ω`,
  * `projected3d_nd_readoff`     pipeline read-off (any stored input),
  * **H3** `projected3d_alias_free` (+ `_explicit` written with `linConv` of `dftV` / `dspec`,
    + fraction 2/3).
-/
namespace Exponax.AliasND
open Exponax Exponax.Layout Exponax.Transform Exponax.DFT Exponax.Nonlin Exponax.Alias Finset
open Exponax.Gen.Misc

/-! ### small array / linearity facts -/

theorem tab2_getD (nc n : ℕ) (f : ℕ → ℕ → ℂ) (ch : ℕ) (hch : ch < nc) :
    (tab2 nc n f).getD ch #[] = tab n (f ch) := by
  unfold tab2
  rw [Nonlin.tab_getD _ _ _ _ hch]

theorem dftV_sub (D N : ℕ) (f g : ℕ → ℂ) (k : Fin D → ℤ) :
    dftV D N (tab (N ^ D) fun j => f j - g j) k
      = dftV D N (tab (N ^ D) f) k - dftV D N (tab (N ^ D) g) k := by
  simp only [dftV_tab, ← Finset.sum_sub_distrib, sub_mul]

theorem truncV_sub {D : ℕ} (K : ℤ) (F G : (Fin D → ℤ) → ℂ) (p : Fin D → ℤ) :
    truncV K (fun q => F q - G q) p = truncV K F p - truncV K G p := by
  unfold truncV
  split_ifs <;> simp

theorem linConv_sub_right (D N : ℕ) (K : ℤ) (F G H : (Fin D → ℤ) → ℂ) (k : Fin D → ℤ) :
    linConv D N K F (fun q => G q - H q) k = linConv D N K F G k - linConv D N K F H k := by
  unfold linConv
  rw [← mul_sub, ← Finset.sum_sub_distrib]
  congr 1
  apply Finset.sum_congr rfl
  intro p _
  rw [truncV_sub, mul_sub]

/-! ### the regenerated cross product under a ring homomorphism -/

theorem map_proj3_cross (φ : ℂ →+* ℂ) (a b : ℂ × ℂ × ℂ) (i : ℕ) :
    φ (proj3 (cross_product_3d a b) i)
      = proj3 (cross_product_3d (φ a.1, φ a.2.1, φ a.2.2) (φ b.1, φ b.2.1, φ b.2.2)) i := by
  unfold proj3
  simp only [cross_product_3d]
  split_ifs <;> simp only [map_sub, map_mul]

theorem proj3_cross_zero (a b : ℂ × ℂ × ℂ) :
    proj3 (cross_product_3d a b) 0 = a.2.1 * b.2.2 - a.2.2 * b.2.1 := by
  simp [proj3, cross_product_3d]

theorem proj3_cross_one (a b : ℂ × ℂ × ℂ) :
    proj3 (cross_product_3d a b) 1 = a.2.2 * b.1 - a.1 * b.2.2 := by
  simp [proj3, cross_product_3d]

theorem proj3_cross_two (a b : ℂ × ℂ × ℂ) :
    proj3 (cross_product_3d a b) 2 = a.1 * b.2.1 - a.2.1 * b.1 := by
  simp [proj3, cross_product_3d]

/-! ### lattice symbols: guarded inverse Laplacian of `Leray`, projector -/

/-- the lattice symbol of the guarded inverse Laplacian `where(Δ̂ ≠ 0, 1/Δ̂, 0)` of `Leray` -/
noncomputable def invLapZeroSym (c : Cfg ℂ) (p : Fin c.D → ℤ) : ℂ :=
  if lapsym c p = 0 then 0 else 1 / lapsym c p

theorem invLapZero_eq_invLapZeroSym (c : Cfg ℂ) (h : ℕ) :
    invLapZero c h = invLapZeroSym c (kvec c.D c.N h) := by
  rw [invLapZero_eq, laplace_eq_lapsym]
  rfl

/-- **the Leray projector symbol** `P_ie(p) = δ_ie − (i s p_i)·Δ̂⁻¹(p)·(i s p_e)`,
    `Δ̂⁻¹(p) = 1/(−s²|p|²)`, `0` where `Δ̂(p) = 0` -/
noncomputable def lerayPsym (c : Cfg ℂ) (i e : ℕ) (p : Fin c.D → ℤ) : ℂ :=
  (if i = e then 1 else 0) - dsym c i p * invLapZeroSym c p * dsym c e p

theorem dsym_zero (c : Cfg ℂ) (d : ℕ) : dsym c d 0 = 0 := by
  unfold dsym comp
  split_ifs <;> simp

/-- the projector is the identity at `k = 0` -/
theorem lerayPsym_zero (c : Cfg ℂ) (i e : ℕ) : lerayPsym c i e 0 = if i = e then 1 else 0 := by
  unfold lerayPsym
  rw [dsym_zero, zero_mul, zero_mul, sub_zero]

/-- for a real non-zero scale the Laplace symbol `−s²|p|²` vanishes only at `p = 0` -/
theorem lapsym_eq_zero_iff (c : Cfg ℂ) (s : ℝ) (hs : c.s = (s : ℂ)) (hs0 : s ≠ 0)
    (p : Fin c.D → ℤ) : lapsym c p = 0 ↔ p = 0 := by
  have hcs : c.s ^ 2 ≠ 0 := by
    rw [hs]
    exact pow_ne_zero 2 (by exact_mod_cast hs0)
  have hcast : ∑ d : Fin c.D, ((p d : ℤ) : ℂ) ^ 2 = ((∑ d : Fin c.D, p d ^ 2 : ℤ) : ℂ) := by
    push_cast
    rfl
  rw [lapsym_eq, neg_eq_zero, mul_eq_zero, hcast]
  constructor
  · rintro (h0 | h0)
    · exact absurd h0 hcs
    · have h1 : ∑ d : Fin c.D, p d ^ 2 = 0 := by exact_mod_cast h0
      funext d
      have := (Finset.sum_eq_zero_iff_of_nonneg (fun d _ => sq_nonneg (p d))).mp h1 d
        (Finset.mem_univ d)
      exact pow_eq_zero_iff (two_ne_zero) |>.mp this
  · intro h0
    right
    rw [h0]
    simp

/-- closed form of the guarded inverse: `Δ̂⁻¹(p) = −1/(s²|p|²)` for `p ≠ 0`, `0` at `p = 0` -/
theorem invLapZeroSym_eq (c : Cfg ℂ) (s : ℝ) (hs : c.s = (s : ℂ)) (hs0 : s ≠ 0)
    (p : Fin c.D → ℤ) :
    invLapZeroSym c p
      = if p = 0 then 0 else -(1 / (c.s ^ 2 * ∑ d : Fin c.D, ((p d : ℤ) : ℂ) ^ 2)) := by
  unfold invLapZeroSym
  simp only [lapsym_eq_zero_iff c s hs hs0 p]
  split_ifs
  · rfl
  · rw [lapsym_eq, one_div, one_div, inv_neg]

/-- the model's per-mode projector matrix entry is the lattice symbol at the stored wavenumber -/
theorem leray_entry_eq_lerayPsym (c : Cfg ℂ) (i e : ℕ) (hi : i < c.D) (he : e < c.D) (h : ℕ) :
    (if i = e then (1 : ℂ) else 0) - deriv c i h * invLapZero c h * deriv c e h
      = lerayPsym c i e (kvec c.D c.N h) := by
  rw [deriv_eq_dsym c i hi h, deriv_eq_dsym c e he h, invLapZero_eq_invLapZeroSym]
  rfl

/-! ### the spectrum of the vorticity -/

/-- the lattice derivative vector `(i s p_0, i s p_1, i s p_2)` -/
noncomputable def dsymVec (c : Cfg ℂ) (p : Fin c.D → ℤ) : ℂ × ℂ × ℂ :=
  (dsym c 0 p, dsym c 1 p, dsym c 2 p)

/-- the full spectra of the three velocity components at `p` -/
noncomputable def velSpec (c : Cfg ℂ) (xs : ℕ → Array ℂ) (p : Fin c.D → ℤ) : ℂ × ℂ × ℂ :=
  (dftV c.D c.N (xs 0) p, dftV c.D c.N (xs 1) p, dftV c.D c.N (xs 2) p)

/-- component `i` of the vorticity spectrum `ω̂(p) = (i s p) × Û(p)` (regenerated cross product) -/
noncomputable def curlSpec (c : Cfg ℂ) (xs : ℕ → Array ℂ) (i : ℕ) : (Fin c.D → ℤ) → ℂ :=
  fun p => proj3 (cross_product_3d (dsymVec c p) (velSpec c xs p)) i

/-- for real velocity components and a real scale the vorticity spectrum is Hermitian -/
theorem conj_curlSpec (c : Cfg ℂ) (s : ℝ) (hs : c.s = (s : ℂ)) (xs : ℕ → Array ℂ)
    (hx : ∀ ch, ch < 3 → IsRealND c.D c.N (xs ch)) (i : ℕ) (p : Fin c.D → ℤ) :
    (starRingEnd ℂ) (curlSpec c xs i p) = curlSpec c xs i (-p) := by
  unfold curlSpec
  rw [map_proj3_cross]
  simp only [dsymVec, velSpec]
  rw [conj_dsym c s hs, conj_dsym c s hs, conj_dsym c s hs,
    conj_dftV c.D c.N _ (hx 0 (by norm_num)), conj_dftV c.D c.N _ (hx 1 (by norm_num)),
    conj_dftV c.D c.N _ (hx 2 (by norm_num))]

theorem curlSpec_zero (c : Cfg ℂ) (xs : ℕ → Array ℂ) :
    curlSpec c xs 0 = fun p => dspec c 1 (xs 2) p - dspec c 2 (xs 1) p := by
  funext p
  unfold curlSpec
  rw [proj3_cross_zero]
  rfl

theorem curlSpec_one (c : Cfg ℂ) (xs : ℕ → Array ℂ) :
    curlSpec c xs 1 = fun p => dspec c 2 (xs 0) p - dspec c 0 (xs 2) p := by
  funext p
  unfold curlSpec
  rw [proj3_cross_one]
  rfl

theorem curlSpec_two (c : Cfg ℂ) (xs : ℕ → Array ℂ) :
    curlSpec c xs 2 = fun p => dspec c 0 (xs 1) p - dspec c 1 (xs 0) p := by
  funext p
  unfold curlSpec
  rw [proj3_cross_two]
  rfl

/-! ### the stored vorticity spectrum and the vorticity field of the model -/

/-- the stored spectrum `((i s k) × û)_i` built by `projected3d` -/
noncomputable def curlHat (c : Cfg ℂ) (uh : MC ℂ) (i : ℕ) : Array ℂ :=
  tab (modes c) fun h =>
    proj3 (cross_product_3d (deriv c 0 h, deriv c 1 h, deriv c 2 h)
      (at2 uh 0 h, at2 uh 1 h, at2 uh 2 h)) i

/-- the vorticity grid field `ω_i = ifft(mask·ω̂_i)` -/
noncomputable def curlField (c : Cfg ℂ) (uh : MC ℂ) (i : ℕ) : Array ℂ := nifft c (curlHat c uh i)

theorem curlField_bandLimitedV (c : Cfg ℂ) (hq : c.fq ≠ 0) (hN : 0 < c.N) (uh : MC ℂ) (i : ℕ) :
    BandLimitedV c.D c.N (Kc c) (curlField c uh i) := nifft_bandLimitedV c hq hN _

/-- spectrum on the box of the vorticity component `ω_i`: `((i s m) × Û(m))_i` -/
theorem dftV_curlField (c : Cfg ℂ) (hD : c.D = 3) (hq : c.fq ≠ 0) (hN : 0 < c.N)
    (h2 : 2 * Kc c < (c.N : ℤ)) (s : ℝ) (hs : c.s = (s : ℂ)) (uh : MC ℂ) (xs : ℕ → Array ℂ)
    (hx : ∀ ch, ch < 3 → IsRealND c.D c.N (xs ch))
    (huh : ∀ ch, ch < 3 → uh.getD ch #[] = rfftnM c.D c.N (xs ch))
    (i : ℕ) (m : Fin c.D → ℤ) (hm : ∀ d, |m d| ≤ Kc c) :
    dftV c.D c.N (curlField c uh i) m = curlSpec c xs i m := by
  refine dftV_nifft_of_hermitian c (by omega) hq hN h2 _ (curlSpec c xs i) ?_ m hm
  intro h hh _
  have hM : h < modes c := hh
  have hu : ∀ j, j < 3 → at2 uh j h = dftV c.D c.N (xs j) (kvec c.D c.N h) := by
    intro j hj
    show (uh.getD j #[]).getD h 0 = _
    rw [huh j hj, rfftn_eq_dftV c.D c.N hN _ h hh]
  have e : (curlHat c uh i).getD h 0 = curlSpec c xs i (kvec c.D c.N h) := by
    unfold curlHat
    rw [Nonlin.tab_getD _ _ _ _ hM, deriv_eq_dsym c 0 (by omega) h, deriv_eq_dsym c 1 (by omega) h,
      deriv_eq_dsym c 2 (by omega) h, hu 0 (by norm_num), hu 1 (by norm_num), hu 2 (by norm_num)]
    rfl
  exact ⟨e, by rw [e, conj_curlSpec c s hs xs hx]⟩

/-! ### cross product of band-limited vector fields, alias-free -/

/-- the LINEAR convolution over the box of two truncated vector spectra, combined by the regenerated
    cross product (component `i`), normalised by `N^{-D}` -/
noncomputable def crossConv (D N : ℕ) (K : ℤ) (V W : ℕ → (Fin D → ℤ) → ℂ) (i : ℕ)
    (k : Fin D → ℤ) : ℂ :=
  (1 / ((N ^ D : ℕ) : ℂ)) * ∑ p ∈ box D K,
    proj3 (cross_product_3d (truncV K (V 0) p, truncV K (V 1) p, truncV K (V 2) p)
      (truncV K (W 0) (k - p), truncV K (W 1) (k - p), truncV K (W 2) (k - p))) i

theorem crossConv_zero (D N : ℕ) (K : ℤ) (V W : ℕ → (Fin D → ℤ) → ℂ) (k : Fin D → ℤ) :
    crossConv D N K V W 0 k = linConv D N K (V 1) (W 2) k - linConv D N K (V 2) (W 1) k := by
  unfold crossConv linConv
  rw [← mul_sub, ← Finset.sum_sub_distrib]
  simp only [proj3_cross_zero]

theorem crossConv_one (D N : ℕ) (K : ℤ) (V W : ℕ → (Fin D → ℤ) → ℂ) (k : Fin D → ℤ) :
    crossConv D N K V W 1 k = linConv D N K (V 2) (W 0) k - linConv D N K (V 0) (W 2) k := by
  unfold crossConv linConv
  rw [← mul_sub, ← Finset.sum_sub_distrib]
  simp only [proj3_cross_one]

theorem crossConv_two (D N : ℕ) (K : ℤ) (V W : ℕ → (Fin D → ℤ) → ℂ) (k : Fin D → ℤ) :
    crossConv D N K V W 2 k = linConv D N K (V 0) (W 1) k - linConv D N K (V 1) (W 0) k := by
  unfold crossConv linConv
  rw [← mul_sub, ← Finset.sum_sub_distrib]
  simp only [proj3_cross_two]

/-- **pointwise cross product of band-limited vector fields.**  `v_j`, `w_j` (`j < 3`) band-limited
    to the box `K`, `3K < N`, with box spectra `V_j`, `W_j`: the spectrum of component `i` of the
    pointwise (regenerated) cross product `v × w` at a box vector is `crossConv V W i` — no aliasing. -/
theorem dftV_cross_of_box (D N : ℕ) (hN : 0 < N) (K : ℤ) (hK : 3 * K < (N : ℤ))
    (v w : ℕ → Array ℂ) (hv : ∀ j, j < 3 → BandLimitedV D N K (v j))
    (hw : ∀ j, j < 3 → BandLimitedV D N K (w j)) (V W : ℕ → (Fin D → ℤ) → ℂ)
    (hV : ∀ j, j < 3 → ∀ p : Fin D → ℤ, (∀ d, |p d| ≤ K) → dftV D N (v j) p = V j p)
    (hW : ∀ j, j < 3 → ∀ p : Fin D → ℤ, (∀ d, |p d| ≤ K) → dftV D N (w j) p = W j p)
    (i : ℕ) (hi : i < 3) (k : Fin D → ℤ) (hk : ∀ d, |k d| ≤ K) :
    dftV D N (tab (N ^ D) fun x =>
        proj3 (cross_product_3d ((v 0).getD x 0, (v 1).getD x 0, (v 2).getD x 0)
          ((w 0).getD x 0, (w 1).getD x 0, (w 2).getD x 0)) i) k
      = crossConv D N K V W i k := by
  have key : ∀ a b, a < 3 → b < 3 →
      dftV D N (tab (N ^ D) fun x => (v a).getD x 0 * (w b).getD x 0) k
        = linConv D N K (V a) (W b) k := fun a b ha hb =>
    dftV_mul_of_box D N hN K hK _ _ (hv a ha) (hw b hb) _ _ (hV a ha) (hW b hb) k hk
  interval_cases i
  · rw [crossConv_zero, ← key 1 2 (by norm_num) (by norm_num), ← key 2 1 (by norm_num) (by norm_num),
      ← dftV_sub]
    simp only [proj3_cross_zero]
  · rw [crossConv_one, ← key 2 0 (by norm_num) (by norm_num), ← key 0 2 (by norm_num) (by norm_num),
      ← dftV_sub]
    simp only [proj3_cross_one]
  · rw [crossConv_two, ← key 0 1 (by norm_num) (by norm_num), ← key 1 0 (by norm_num) (by norm_num),
      ← dftV_sub]
    simp only [proj3_cross_two]

/-! ### pipeline read-off -/

/-- the pointwise product `(u × ω)_e` on the grid, `u_j = ifft(mask·û_j)`, `ω_j = curlField` -/
noncomputable def rotField (c : Cfg ℂ) (uh : MC ℂ) (e : ℕ) : Array ℂ :=
  tab (c.N ^ c.D) fun x =>
    proj3 (cross_product_3d
      ((nifft c (uh.getD 0 #[])).getD x 0, (nifft c (uh.getD 1 #[])).getD x 0,
        (nifft c (uh.getD 2 #[])).getD x 0)
      ((curlField c uh 0).getD x 0, (curlField c uh 1).getD x 0, (curlField c uh 2).getD x 0)) e

/-- the masked transform of `u × ω` that `projected3d` hands to `leray` -/
noncomputable def rotHatM (c : Cfg ℂ) (uh : MC ℂ) : MC ℂ := tabC 3 (fun e => nfft c (rotField c uh e))

/-- `projected3d` without injection is `leray` of the masked transform of `u × ω` -/
theorem projected3d_none_eq (c : Cfg ℂ) (uh : MC ℂ) :
    projected3d c none uh = tab2 3 (modes c) (fun i h => at2 (leray c (rotHatM c uh)) i h) := by
  have hvel : ∀ j, j < 3 → ∀ x, at2 (tabC 3 fun i => nifft c (uh.getD i #[])) j x
      = (nifft c (uh.getD j #[])).getD x 0 := fun j hj x => at2_tabC _ _ _ _ hj
  have hcurl : ∀ j, j < 3 → ∀ x,
      at2 (tabC 3 fun i => nifft c ((tab2 3 (modes c) fun i h =>
        proj3 (cross_product_3d (deriv c 0 h, deriv c 1 h, deriv c 2 h)
          (at2 uh 0 h, at2 uh 1 h, at2 uh 2 h)) i).getD i #[])) j x
      = (curlField c uh j).getD x 0 := by
    intro j hj x
    rw [at2_tabC _ _ _ _ hj, tab2_getD _ _ _ _ hj]
    rfl
  have hconv : (tabC 3 fun i => nfft c ((tab2 3 (gridSize c) fun i x =>
        proj3 (cross_product_3d
          (at2 (tabC 3 fun i => nifft c (uh.getD i #[])) 0 x,
            at2 (tabC 3 fun i => nifft c (uh.getD i #[])) 1 x,
            at2 (tabC 3 fun i => nifft c (uh.getD i #[])) 2 x)
          (at2 (tabC 3 fun i => nifft c ((tab2 3 (modes c) fun i h =>
              proj3 (cross_product_3d (deriv c 0 h, deriv c 1 h, deriv c 2 h)
                (at2 uh 0 h, at2 uh 1 h, at2 uh 2 h)) i).getD i #[])) 0 x,
            at2 (tabC 3 fun i => nifft c ((tab2 3 (modes c) fun i h =>
              proj3 (cross_product_3d (deriv c 0 h, deriv c 1 h, deriv c 2 h)
                (at2 uh 0 h, at2 uh 1 h, at2 uh 2 h)) i).getD i #[])) 1 x,
            at2 (tabC 3 fun i => nifft c ((tab2 3 (modes c) fun i h =>
              proj3 (cross_product_3d (deriv c 0 h, deriv c 1 h, deriv c 2 h)
                (at2 uh 0 h, at2 uh 1 h, at2 uh 2 h)) i).getD i #[])) 2 x)) i).getD i #[]))
      = rotHatM c uh := by
    unfold rotHatM
    refine Nonlin.tab_congr 3 _ _ ?_
    intro e he
    rw [tab2_getD _ _ _ _ he]
    congr 1
    unfold rotField
    apply Nonlin.tab_congr
    intro x _
    rw [hvel 0 (by norm_num), hvel 1 (by norm_num), hvel 2 (by norm_num), hcurl 0 (by norm_num),
      hcurl 1 (by norm_num), hcurl 2 (by norm_num)]
  unfold projected3d
  simp only []
  rw [hconv]

/-- pipeline read-off of `ProjectedConvection3d` without injection (`D = 3`, any stored input):
    `out_i(h) = Σ_{e<3} (δ_ie − d_i Δ̂⁻¹ d_e)(h) · mask_h · F[(u × ω)_e](k(h))` -/
theorem projected3d_nd_readoff (c : Cfg ℂ) (hD : c.D = 3) (hN : 0 < c.N) (uh : MC ℂ)
    (i : ℕ) (hi : i < 3) (h : ℕ) (hh : h < numModes c.D c.N) :
    at2 (projected3d c none uh) i h
      = ∑ e ∈ range 3, ((if i = e then (1 : ℂ) else 0) - deriv c i h * invLapZero c h * deriv c e h)
          * (mask c h * dftV c.D c.N (rotField c uh e) (kvec c.D c.N h)) := by
  have hM : h < modes c := hh
  have hr : range c.D = range 3 := by rw [hD]
  rw [projected3d_none_eq, at2_tab2 _ _ _ _ _ hi hM, at2_leray_matrix c _ i h (by omega) hM, hr]
  apply Finset.sum_congr rfl
  intro e he
  unfold rotHatM
  rw [at2_tabC _ _ _ _ (Finset.mem_range.mp he), nfft_nd c hN _ h hh]

/-- `ProjectedConvection3d` without injection vanishes at every dropped mode (any stored input) -/
theorem projected3d_zero_off_band (c : Cfg ℂ) (hD : c.D = 3) (hN : 0 < c.N) (uh : MC ℂ)
    (i : ℕ) (hi : i < 3) (h : ℕ) (hh : h < numModes c.D c.N) (hm : mask c h = 0) :
    at2 (projected3d c none uh) i h = 0 := by
  rw [projected3d_nd_readoff c hD hN uh i hi h hh]
  apply Finset.sum_eq_zero
  intro e _
  rw [hm, zero_mul, mul_zero]

/-! ### H3 -/

/-- **the alias-free spectrum of `(u × ω)_e`**: the linear convolution over the box of the truncated
    velocity spectra `U_j = dftV (xs j)` with the truncated vorticity spectrum
    `ω̂ = (i s p) × Û(p)`, combined by the regenerated cross product -/
noncomputable def rotSpec (c : Cfg ℂ) (xs : ℕ → Array ℂ) (e : ℕ) (k : Fin c.D → ℤ) : ℂ :=
  crossConv c.D c.N (Kc c) (fun j => dftV c.D c.N (xs j)) (curlSpec c xs) e k

/-- spectrum of the model's grid field `(u × ω)_e` at a box vector -/
theorem dftV_rotField (c : Cfg ℂ) (hD : c.D = 3) (hq : c.fq ≠ 0) (hK : 3 * Kc c < (c.N : ℤ))
    (hN : 0 < c.N) (s : ℝ) (hs : c.s = (s : ℂ)) (uh : MC ℂ) (xs : ℕ → Array ℂ)
    (hx : ∀ ch, ch < 3 → IsRealND c.D c.N (xs ch))
    (huh : ∀ ch, ch < 3 → uh.getD ch #[] = rfftnM c.D c.N (xs ch))
    (e : ℕ) (he : e < 3) (k : Fin c.D → ℤ) (hk : ∀ d, |k d| ≤ Kc c) :
    dftV c.D c.N (rotField c uh e) k = rotSpec c xs e k := by
  have h2 := two_lt_of_three c.N (Kc c) hK
  exact dftV_cross_of_box c.D c.N hN (Kc c) hK (fun j => nifft c (uh.getD j #[]))
    (fun j => curlField c uh j) (fun j _ => nifft_bandLimitedV c hq hN _)
    (fun j _ => curlField_bandLimitedV c hq hN uh j) (fun j => dftV c.D c.N (xs j)) (curlSpec c xs)
    (fun j hj p hp => by
      show dftV c.D c.N (nifft c (uh.getD j #[])) p = _
      rw [huh j hj]
      exact dftV_nifft_rfftn c (by omega) hq hN h2 (xs j) (hx j hj) p hp)
    (fun j _ p hp => dftV_curlField c hD hq hN h2 s hs uh xs hx huh j p hp) e he k hk

/-- **H3: `ProjectedConvection3d` without injection, `D = 3`, cut-off `3·Kc < N`** (e.g. the 2/3
    rule), real scale `s`, real velocity components `xs 0, xs 1, xs 2`, `û_j = rfftnM 3 N (xs j)`.
    Output channel `i < 3` at a retained stored mode `h`:

      `out_i(h) = Σ_{e<3} P_ie(k(h)) · N_e(k(h))`,

    `P_ie(p) = δ_ie − (i s p_i)·Δ̂⁻¹(p)·(i s p_e)` the Leray projector symbol (`lerayPsym`, the
    identity at `p = 0`), `N_e = rotSpec c xs e` the ALIAS-FREE spectrum of `(u × ω)_e`:
    `N^{-3} Σ_{p ∈ box} (U(p) × ω̂(k − p))_e` with `U_j` the box-truncated spectra of the velocity
    components, `ω̂(p) = (i s p) × U(p)` and both `×` the regenerated `cross_product_3d`.
    At a dropped mode the output is `0`. -/
theorem projected3d_alias_free (c : Cfg ℂ) (hD : c.D = 3) (hq : c.fq ≠ 0)
    (hK : 3 * Kc c < (c.N : ℤ)) (hN : 0 < c.N) (s : ℝ) (hs : c.s = (s : ℂ)) (uh : MC ℂ)
    (xs : ℕ → Array ℂ) (hx : ∀ ch, ch < 3 → IsRealND c.D c.N (xs ch))
    (huh : ∀ ch, ch < 3 → uh.getD ch #[] = rfftnM c.D c.N (xs ch))
    (i : ℕ) (hi : i < 3) (h : ℕ) (hh : h < numModes c.D c.N) :
    (mask c h = 1 →
      at2 (projected3d c none uh) i h
        = ∑ e ∈ range 3, lerayPsym c i e (kvec c.D c.N h) * rotSpec c xs e (kvec c.D c.N h))
    ∧ (mask c h = 0 → at2 (projected3d c none uh) i h = 0) := by
  refine ⟨fun hm => ?_, fun hm => projected3d_zero_off_band c hD hN uh i hi h hh hm⟩
  have hk : ∀ d, |kvec c.D c.N h d| ≤ Kc c := (mask_nd_eq_one_iff c hq h).mp hm
  rw [projected3d_nd_readoff c hD hN uh i hi h hh]
  apply Finset.sum_congr rfl
  intro e he
  have he' := Finset.mem_range.mp he
  rw [hm, one_mul, leray_entry_eq_lerayPsym c i e (by omega) (by omega) h,
    dftV_rotField c hD hq hK hN s hs uh xs hx huh e he' _ hk]

/-! ### the same with `linConv` of `dftV` / `dspec` of the velocity components -/

/-- `rotSpec` written with `linConv`: `N_e = U_{e+1} ⋆ ω̂_{e+2} − U_{e+2} ⋆ ω̂_{e+1}` (indices mod 3) -/
theorem rotSpec_zero (c : Cfg ℂ) (xs : ℕ → Array ℂ) (k : Fin c.D → ℤ) :
    rotSpec c xs 0 k = linConv c.D c.N (Kc c) (dftV c.D c.N (xs 1)) (curlSpec c xs 2) k
      - linConv c.D c.N (Kc c) (dftV c.D c.N (xs 2)) (curlSpec c xs 1) k :=
  crossConv_zero _ _ _ _ _ _

theorem rotSpec_one (c : Cfg ℂ) (xs : ℕ → Array ℂ) (k : Fin c.D → ℤ) :
    rotSpec c xs 1 k = linConv c.D c.N (Kc c) (dftV c.D c.N (xs 2)) (curlSpec c xs 0) k
      - linConv c.D c.N (Kc c) (dftV c.D c.N (xs 0)) (curlSpec c xs 2) k :=
  crossConv_one _ _ _ _ _ _

theorem rotSpec_two (c : Cfg ℂ) (xs : ℕ → Array ℂ) (k : Fin c.D → ℤ) :
    rotSpec c xs 2 k = linConv c.D c.N (Kc c) (dftV c.D c.N (xs 0)) (curlSpec c xs 1) k
      - linConv c.D c.N (Kc c) (dftV c.D c.N (xs 1)) (curlSpec c xs 0) k :=
  crossConv_two _ _ _ _ _ _

/-- **`rotSpec` with `linConv` of `dftV` and `dspec` of the velocity components**:

      `N_e(k) = Σ_{j<3} [ (U_j ⋆ D_e U_j)(k) − (U_j ⋆ D_j U_e)(k) ]`,  `D_d U(p) = (i s p_d)·U(p)`,

    the alias-free coefficient of `(u × ω)_e = Σ_j u_j ∂_e u_j − Σ_j u_j ∂_j u_e
    = ∂_e(½|u|²) − (u·∇)u_e` for the band-truncated velocity. -/
theorem rotSpec_eq_linConv (c : Cfg ℂ) (xs : ℕ → Array ℂ) (e : ℕ) (he : e < 3) (k : Fin c.D → ℤ) :
    rotSpec c xs e k
      = ∑ j ∈ range 3, (linConv c.D c.N (Kc c) (dftV c.D c.N (xs j)) (dspec c e (xs j)) k
          - linConv c.D c.N (Kc c) (dftV c.D c.N (xs j)) (dspec c j (xs e)) k) := by
  rw [Finset.sum_range_succ, Finset.sum_range_succ, Finset.sum_range_one]
  interval_cases e
  · rw [rotSpec_zero, curlSpec_two, curlSpec_one, linConv_sub_right, linConv_sub_right]
    ring
  · rw [rotSpec_one, curlSpec_zero, curlSpec_two, linConv_sub_right, linConv_sub_right]
    ring
  · rw [rotSpec_two, curlSpec_one, curlSpec_zero, linConv_sub_right, linConv_sub_right]
    ring

/-- **H3 with `linConv` of `dftV` / `dspec` of the velocity components.**  Channel `i < 3` at a
    retained stored mode `h`, `k = k(h)`:

      `out_i(h) = Σ_{e<3} P_ie(k) · Σ_{j<3} [ (U_j ⋆ D_e U_j)(k) − (U_j ⋆ D_j U_e)(k) ]`;

    `0` at a dropped mode. -/
theorem projected3d_alias_free_explicit (c : Cfg ℂ) (hD : c.D = 3) (hq : c.fq ≠ 0)
    (hK : 3 * Kc c < (c.N : ℤ)) (hN : 0 < c.N) (s : ℝ) (hs : c.s = (s : ℂ)) (uh : MC ℂ)
    (xs : ℕ → Array ℂ) (hx : ∀ ch, ch < 3 → IsRealND c.D c.N (xs ch))
    (huh : ∀ ch, ch < 3 → uh.getD ch #[] = rfftnM c.D c.N (xs ch))
    (i : ℕ) (hi : i < 3) (h : ℕ) (hh : h < numModes c.D c.N) :
    (mask c h = 1 →
      at2 (projected3d c none uh) i h
        = ∑ e ∈ range 3, lerayPsym c i e (kvec c.D c.N h) *
            ∑ j ∈ range 3,
              (linConv c.D c.N (Kc c) (dftV c.D c.N (xs j)) (dspec c e (xs j)) (kvec c.D c.N h)
                - linConv c.D c.N (Kc c) (dftV c.D c.N (xs j)) (dspec c j (xs e)) (kvec c.D c.N h)))
    ∧ (mask c h = 0 → at2 (projected3d c none uh) i h = 0) := by
  have := projected3d_alias_free c hD hq hK hN s hs uh xs hx huh i hi h hh
  refine ⟨fun hm => ?_, this.2⟩
  rw [this.1 hm]
  apply Finset.sum_congr rfl
  intro e he
  rw [rotSpec_eq_linConv c xs e (Finset.mem_range.mp he)]

/-- H3 for the documented fraction 2/3 -/
theorem projected3d_alias_free_two_thirds (c : Cfg ℂ) (hD : c.D = 3) (hp : c.fp = 2) (hq : c.fq = 3)
    (hN : 0 < c.N) (s : ℝ) (hs : c.s = (s : ℂ)) (uh : MC ℂ)
    (xs : ℕ → Array ℂ) (hx : ∀ ch, ch < 3 → IsRealND c.D c.N (xs ch))
    (huh : ∀ ch, ch < 3 → uh.getD ch #[] = rfftnM c.D c.N (xs ch))
    (i : ℕ) (hi : i < 3) (h : ℕ) (hh : h < numModes c.D c.N) :
    (mask c h = 1 →
      at2 (projected3d c none uh) i h
        = ∑ e ∈ range 3, lerayPsym c i e (kvec c.D c.N h) * rotSpec c xs e (kvec c.D c.N h))
    ∧ (mask c h = 0 → at2 (projected3d c none uh) i h = 0) :=
  projected3d_alias_free c hD (by omega) (Kc_two_thirds c hp hq).1 hN s hs uh xs hx huh i hi h hh

end Exponax.AliasND
