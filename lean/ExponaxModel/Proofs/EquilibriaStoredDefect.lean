import ExponaxModel.Proofs.EquilibriaStored
/-
C09 / B2, continued: the requested stored-coefficient fixed-point statement is FALSE (formal counterexamples), and
the size of the defect (contour-rule tail).
-/
set_option linter.unusedVariables false
namespace Exponax.EquilibriaStored
open Exponax Exponax.Spec Exponax.Gen.Etdrk Exponax.ContourTail

/-! ### the defect is `λ ×` the coefficient error -/

theorem exp_sub_one_eq (z : ℂ) : Complex.exp z - 1 = z * phi1e z := by
  unfold phi1e
  split_ifs with h
  · simp [h]
  · simp only [phi1, hasExp_complex]
    field_simp

theorem fpDefect_eq (dt lam r : ℂ) (M : ℕ) :
    fpDefect dt lam M r = -(lam * (E1_coef_1 dt lam M r - dt * phi1e (lam * dt))) := by
  have h := exp_sub_one_eq (lam * dt)
  simp only [fpDefect, exp_term, hasExp_complex]
  rw [mul_comm dt lam]
  linear_combination h

theorem fpDefectHalf_eq (dt lam r : ℂ) (M : ℕ) :
    fpDefectHalf dt lam M r = -(lam * (E4_coef_1 dt lam M r - dt * (phi1e (lam * dt / 2) / 2))) := by
  have h := exp_sub_one_eq (lam * dt / 2)
  rw [fpDefectHalf, C02_half_exp_term_E4, mul_comm dt lam]
  linear_combination h

/-- away from `λ dt = 0` the defect is `−λ dt (contourMean φ₁ − φ₁)(λ dt)`: the aliasing tail of the rule -/
theorem fpDefect_eq_tail (dt lam r : ℂ) (M : ℕ) (hz : lam * dt ≠ 0) :
    fpDefect dt lam M r
      = -(lam * dt) * (contourMean (roots_of_unity M) r phi1 (lam * dt) - phi1 (lam * dt)) := by
  rw [fpDefect_eq, C02_coef_E1_1, phi1e_of_ne _ hz]
  ring

/-- size of the defect: `‖λ dt‖ ×` the tail of the contour rule (any `R > ‖r‖`) -/
theorem norm_fpDefect_le (dt lam r : ℂ) (M : ℕ) (hM : 0 < M) (R : ℝ) (hrR : ‖r‖ < R)
    (hnz : ∀ ζ ∈ (roots_of_unity M : List ℂ), r * ζ + lam * dt ≠ 0) :
    ‖fpDefect dt lam M r‖ ≤ ‖lam‖ * (‖dt‖ * (Real.exp (max 0 ((lam * dt).re + R)) * (‖r‖ / R) ^ M
        / (1 - (‖r‖ / R) ^ M))) := by
  rw [fpDefect_eq, norm_neg, norm_mul]
  exact mul_le_mul_of_nonneg_left (E1_coef_1_error dt lam r M hM R hrR hnz) (norm_nonneg _)

theorem norm_fpDefectHalf_le (dt lam r : ℂ) (M : ℕ) (hM : 0 < M) (R : ℝ) (hrR : ‖r‖ < R)
    (hnz : ∀ ζ ∈ (roots_of_unity M : List ℂ), r * ζ + lam * dt ≠ 0) :
    ‖fpDefectHalf dt lam M r‖ ≤ ‖lam‖ * (‖dt‖ * (1 / 2 * Real.exp (max 0 ((lam * dt).re + R)) * (‖r‖ / R) ^ M
        / (1 - (‖r‖ / R) ^ M))) := by
  rw [fpDefectHalf_eq, norm_neg, norm_mul]
  exact mul_le_mul_of_nonneg_left (E4_coef_1_error dt lam r M hM R hrR hnz) (norm_nonneg _)

/-- code defaults `M = 16`, `r = 1`, dissipative mode `λ dt ≤ 0`: both defects are below `5·10⁻⁸ |λ dt|` -/
theorem norm_fpDefect_default (dt lam : ℝ) (hz : lam * dt ≤ 0) :
    ‖fpDefect (dt : ℂ) (lam : ℂ) 16 1‖ ≤ |lam * dt| * 5e-8 ∧
    ‖fpDefectHalf (dt : ℂ) (lam : ℂ) 16 1‖ ≤ |lam * dt| * 5e-8 := by
  obtain ⟨h1, -, -, -, -, -, -, -, h9, -⟩ := coef_errors_default dt lam hz
  constructor
  · rw [fpDefect_eq, norm_neg, norm_mul, Complex.norm_real, Real.norm_eq_abs, abs_mul, mul_assoc]
    exact mul_le_mul_of_nonneg_left h1 (abs_nonneg _)
  · rw [fpDefectHalf_eq, norm_neg, norm_mul, Complex.norm_real, Real.norm_eq_abs, abs_mul, mul_assoc]
    exact mul_le_mul_of_nonneg_left h9 (abs_nonneg _)

/-- ETDRK1 with the stored coefficient, code defaults: an equilibrium spectrum with real dissipative symbol moves by
    at most `5·10⁻⁸ |λ_h dt| |u_h|` per step, mode by mode (and not at all where `λ_h = 0`) -/
theorem stored_E1_almost_fixed_default (dt : ℝ) (L : ℕ → ℝ) (u : ℕ → ℂ) (N : (ℕ → ℂ) → ℕ → ℂ)
    (heq : ∀ h, (L h : ℂ) * u h + N u h = 0) (hz : ∀ h, L h * dt ≤ 0) (h : ℕ) :
    ‖E1step (fun h => exp_term (dt : ℂ) (L h : ℂ)) (fun h => E1_coef_1 (dt : ℂ) (L h : ℂ) 16 1) N u h - u h‖
      ≤ |L h * dt| * 5e-8 * ‖u h‖ := by
  rw [stored_E1step_sub (dt : ℂ) 1 16 (fun h => (L h : ℂ)) u N heq h, norm_mul]
  exact mul_le_mul_of_nonneg_right (norm_fpDefect_default dt (L h) (hz h)).1 (norm_nonneg _)

/-! ### the requested statement is false: formal counterexamples -/

theorem root_of_unity_one_one : (root_of_unity 1 1 : ℂ) = -1 := by
  have h := root_of_unity_pow_M 1 1 (by norm_num)
  simpa using h

theorem E1_coef_1_M1 : E1_coef_1 (1 : ℂ) 2 1 1 = Complex.exp 1 - 1 := by
  have e : (-1 : ℂ) + 2 = 1 := by norm_num
  simp [E1_coef_1, roots_of_unity, foldAdd, E1_scan_body_0, root_of_unity_one_one]
  rw [e]; simp

theorem fpDefect_M1 : fpDefect 1 2 1 1 = (Complex.exp 1 - 1) ^ 2 := by
  have h2 : Complex.exp (1 * 2) = Complex.exp 1 * Complex.exp 1 := by
    rw [← Complex.exp_add]; norm_num
  rw [fpDefect, E1_coef_1_M1, exp_term, hasExp_complex, h2]
  ring

theorem exp_one_ne_one : Complex.exp 1 ≠ 1 := by
  intro h
  have h1 : Real.exp 1 = 1 := by
    have := congrArg Complex.re h
    rw [← Complex.ofReal_one, ← Complex.ofReal_exp, Complex.ofReal_re, Complex.ofReal_re] at this
    exact this
  have := Real.add_one_lt_exp (one_ne_zero : (1 : ℝ) ≠ 0)
  linarith

/-- **B2 as requested is FALSE.**  `M = 1`, `r = 1`, `dt = 1`, `λ = 2`: the single node `r ζ₁ + λ dt = 1` does not
    vanish, `u = 1` is an equilibrium of `u' = 2u + N(u)`, `N(v) = −2v`, yet the regenerated ETDRK1 step with the
    stored coefficient maps it to `1 + (e − 1)² ≠ 1`. -/
theorem stored_fixed_point_false :
    ¬ (∀ (dt lam r : ℂ) (M : ℕ) (N : ℂ → ℂ) (u : ℂ),
        (∀ ζ ∈ (roots_of_unity M : List ℂ), r * ζ + lam * dt ≠ 0) → lam * u + N u = 0 →
        E1step (exp_term dt lam) (E1_coef_1 dt lam M r) N u = u) := by
  intro H
  have hnz : ∀ ζ ∈ (roots_of_unity 1 : List ℂ), (1 : ℂ) * ζ + 2 * 1 ≠ 0 := by
    intro ζ hζ
    simp only [roots_of_unity, List.range_one, List.map_cons, List.map_nil, List.mem_singleton] at hζ
    rw [hζ, root_of_unity_one_one]
    norm_num
  have h := H 1 2 1 1 (fun v => -2 * v) 1 hnz (by ring)
  have hd : E1step (exp_term (1 : ℂ) 2) (E1_coef_1 (1 : ℂ) 2 1 1) (fun v => -2 * v) 1 - 1
      = fpDefect 1 2 1 1 := by
    simp only [E1step, fpDefect]; ring
  rw [h, sub_self, fpDefect_M1] at hd
  have := pow_eq_zero_iff (two_ne_zero) |>.mp hd.symm
  exact exp_one_ne_one (by linear_combination this)

/-! ### … and with an even number of nodes -/

theorem root_two_one : (root_of_unity 2 1 : ℂ) = Complex.I := by
  rw [root_of_unity_eq]
  have h1 : Complex.exp (2 * (Real.pi : ℂ) * Complex.I / ((2 : ℕ) : ℂ)) = -1 := by
    rw [show 2 * (Real.pi : ℂ) * Complex.I / ((2 : ℕ) : ℂ) = (Real.pi : ℂ) * Complex.I by push_cast; ring,
      Complex.exp_pi_mul_I]
  have h2 : Complex.exp (-((Real.pi : ℂ) * Complex.I / ((2 : ℕ) : ℂ))) = -Complex.I := by
    rw [show -((Real.pi : ℂ) * Complex.I / ((2 : ℕ) : ℂ)) = -((Real.pi : ℂ) / 2 * Complex.I) by push_cast; ring,
      Complex.exp_neg, Complex.exp_pi_div_two_mul_I, Complex.inv_I]
  rw [h1, h2]; ring

theorem root_two_two : (root_of_unity 2 2 : ℂ) = -Complex.I := by
  rw [root_of_unity_eq]
  have h1 : Complex.exp (2 * (Real.pi : ℂ) * Complex.I / ((2 : ℕ) : ℂ)) = -1 := by
    rw [show 2 * (Real.pi : ℂ) * Complex.I / ((2 : ℕ) : ℂ) = (Real.pi : ℂ) * Complex.I by push_cast; ring,
      Complex.exp_pi_mul_I]
  have h2 : Complex.exp (-((Real.pi : ℂ) * Complex.I / ((2 : ℕ) : ℂ))) = -Complex.I := by
    rw [show -((Real.pi : ℂ) * Complex.I / ((2 : ℕ) : ℂ)) = -((Real.pi : ℂ) / 2 * Complex.I) by push_cast; ring,
      Complex.exp_neg, Complex.exp_pi_div_two_mul_I, Complex.inv_I]
  rw [h1, h2]; ring

theorem roots_two : (roots_of_unity 2 : List ℂ) = [Complex.I, -Complex.I] := by
  simp [roots_of_unity, List.range_succ, root_two_one, root_two_two]

theorem exp_one_add_pi_I : Complex.exp ((Real.pi : ℂ) * Complex.I + 1) = -Complex.exp 1 := by
  rw [Complex.exp_add, Complex.exp_pi_mul_I]; ring

theorem exp_one_sub_pi_I : Complex.exp ((Real.pi : ℂ) * -Complex.I + 1) = -Complex.exp 1 := by
  rw [Complex.exp_add, show (Real.pi : ℂ) * -Complex.I = -((Real.pi : ℂ) * Complex.I) by ring, Complex.exp_neg,
    Complex.exp_pi_mul_I]; norm_num

theorem node_ne (s : ℂ) (hs : s = Complex.I ∨ s = -Complex.I) : (Real.pi : ℂ) * s + 1 ≠ 0 := by
  intro h
  have := congrArg Complex.re h
  rcases hs with rfl | rfl <;> simp at this

theorem E1_coef_1_M2 :
    E1_coef_1 (1 : ℂ) 1 2 (Real.pi : ℂ) = -(Complex.exp 1 + 1) / (1 + (Real.pi : ℂ) ^ 2) := by
  have n1 := node_ne Complex.I (Or.inl rfl)
  have n2 := node_ne (-Complex.I) (Or.inr rfl)
  have hp : (1 : ℂ) + (Real.pi : ℂ) ^ 2 = ((Real.pi : ℂ) * Complex.I + 1) * ((Real.pi : ℂ) * -Complex.I + 1) := by
    ring_nf; rw [Complex.I_sq]; ring
  simp only [E1_coef_1, roots_two, foldAdd, List.foldl, E1_scan_body_0, lit_eq, one_mul, mul_one,
    exp_one_add_pi_I, exp_one_sub_pi_I, hasExp_complex]
  rw [hp]
  have hs : ((Real.pi : ℂ) * Complex.I + 1) + ((Real.pi : ℂ) * -Complex.I + 1) = 2 := by ring
  generalize (Real.pi : ℂ) * Complex.I + 1 = p at n1 hs ⊢
  generalize (Real.pi : ℂ) * -Complex.I + 1 = q at n2 hs ⊢
  push_cast
  field_simp
  linear_combination (-(Complex.exp 1) - 1) * hs

theorem fpDefect_M2 :
    fpDefect 1 1 2 (Real.pi : ℂ)
      = ((Real.exp 1 - 1 + (Real.exp 1 + 1) / (1 + Real.pi ^ 2) : ℝ) : ℂ) := by
  rw [fpDefect, E1_coef_1_M2, exp_term, hasExp_complex, mul_one, one_mul]
  push_cast
  ring

/-- **B2 as requested is FALSE, even `M`.**  `M = 2`, `r = π`, `dt = 1`, `λ = 1`: the nodes `1 ± iπ` do not vanish,
    `u = 1` is an equilibrium of `u' = u + N(u)`, `N(v) = −v`, yet the regenerated ETDRK1 step with the stored
    coefficient maps it to `1 + (e − 1) + (e + 1)/(1 + π²) ≠ 1`. -/
theorem stored_fixed_point_false_M2 :
    (∀ ζ ∈ (roots_of_unity 2 : List ℂ), (Real.pi : ℂ) * ζ + 1 * 1 ≠ 0) ∧ (1 : ℂ) * 1 + (fun v : ℂ => -v) 1 = 0 ∧
    E1step (exp_term (1 : ℂ) 1) (E1_coef_1 (1 : ℂ) 1 2 (Real.pi : ℂ)) (fun v => -v) 1 ≠ 1 := by
  refine ⟨?_, by ring, ?_⟩
  · intro ζ hζ
    rw [roots_two] at hζ
    simp only [List.mem_cons, List.mem_nil_iff, or_false] at hζ
    rw [mul_one]
    exact node_ne ζ hζ
  · intro h
    have hd : E1step (exp_term (1 : ℂ) 1) (E1_coef_1 (1 : ℂ) 1 2 (Real.pi : ℂ)) (fun v => -v) 1 - 1
        = fpDefect 1 1 2 (Real.pi : ℂ) := by
      simp only [E1step, fpDefect]; ring
    rw [h, sub_self, fpDefect_M2] at hd
    have hpos : 0 < Real.exp 1 - 1 + (Real.exp 1 + 1) / (1 + Real.pi ^ 2) := by
      have h1 : 1 < Real.exp 1 := by
        have := Real.add_one_lt_exp (one_ne_zero : (1 : ℝ) ≠ 0); linarith
      have h2 : 0 < (Real.exp 1 + 1) / (1 + Real.pi ^ 2) := by positivity
      linarith
    have := Complex.ofReal_eq_zero.mp hd.symm
    linarith

end Exponax.EquilibriaStored
