import ExponaxModel.Proofs.AliasND2Conv
/-
C03, part 9 (G4): `VorticityConvection2d` without injection, `D = 2`, cut-off `3·Kc < N`.

Model conventions (`Model/Nonlin.lean`, `vorticity2d`):  `ψ̂ = Δ̂⁻¹·ω̂` with the guarded inverse
`Δ̂⁻¹ = where(Δ̂ == 0, 1, 1/Δ̂)`, `Δ̂ = Σ_d (i s k_d)²`;  `u = ∂_1 ψ`, `v = −∂_0 ψ`;
`out = −scale·F[u·∂_0 ω + v·∂_1 ω]` (every inverse transform preceded, the forward transform
followed by the dealiasing mask).

  * `lapsym`, `invLapSym`        lattice symbols of `Δ` and of the guarded `Δ⁻¹`, Hermitian,
  * `mfield`                      `ifft(mask·σ·ûh)` for a stored multiplier `σ`,
  * `vorticity2d_nd_readoff`      pipeline read-off (any stored input),
  * **G4** `vorticity2d_alias_free` (+ `_explicit`, + fraction 2/3).
-/
namespace Exponax.AliasND
open Exponax Exponax.Layout Exponax.Transform Exponax.DFT Exponax.Nonlin Exponax.Alias Finset

/-! ### lattice symbols of `Δ` and of the guarded `Δ⁻¹` -/

/-- the lattice symbol of the Laplacian, `Σ_d (i s p_d)² = −s²|p|²` -/
noncomputable def lapsym (c : Cfg ℂ) (p : Fin c.D → ℤ) : ℂ := ∑ d ∈ range c.D, dsym c d p ^ 2

/-- the lattice symbol of the guarded inverse Laplacian `where(Δ̂ == 0, 1, 1/Δ̂)` -/
noncomputable def invLapSym (c : Cfg ℂ) (p : Fin c.D → ℤ) : ℂ :=
  if lapsym c p = 0 then 1 else 1 / lapsym c p

theorem lapsym_eq (c : Cfg ℂ) (p : Fin c.D → ℤ) :
    lapsym c p = -(c.s ^ 2 * ∑ d : Fin c.D, ((p d : ℤ) : ℂ) ^ 2) := by
  unfold lapsym
  rw [← Fin.sum_univ_eq_sum_range (fun d => dsym c d p ^ 2) c.D, Finset.mul_sum,
    ← Finset.sum_neg_distrib]
  apply Finset.sum_congr rfl
  intro d _
  rw [dsym_fin, mul_pow, Complex.I_sq]
  ring

theorem laplace_eq_lapsym (c : Cfg ℂ) (h : ℕ) : laplace c 2 h = lapsym c (kvec c.D c.N h) := by
  rw [laplace_two_eq_sum]
  unfold lapsym
  apply Finset.sum_congr rfl
  intro d hd
  rw [deriv_eq_dsym c d (Finset.mem_range.mp hd) h]

theorem invLapOne_eq_invLapSym (c : Cfg ℂ) (h : ℕ) : invLapOne c h = invLapSym c (kvec c.D c.N h) := by
  rw [invLapOne_eq, laplace_eq_lapsym]
  rfl

theorem lapsym_neg (c : Cfg ℂ) (p : Fin c.D → ℤ) : lapsym c (-p) = lapsym c p := by
  unfold lapsym
  apply Finset.sum_congr rfl
  intro d _
  rw [dsym_neg, neg_sq]

theorem conj_lapsym (c : Cfg ℂ) (s : ℝ) (hs : c.s = (s : ℂ)) (p : Fin c.D → ℤ) :
    (starRingEnd ℂ) (lapsym c p) = lapsym c p := by
  unfold lapsym
  rw [map_sum]
  apply Finset.sum_congr rfl
  intro d _
  rw [map_pow, conj_dsym c s hs, dsym_neg, neg_sq]

theorem invLapSym_neg (c : Cfg ℂ) (p : Fin c.D → ℤ) : invLapSym c (-p) = invLapSym c p := by
  unfold invLapSym
  rw [lapsym_neg]

theorem conj_invLapSym (c : Cfg ℂ) (s : ℝ) (hs : c.s = (s : ℂ)) (p : Fin c.D → ℤ) :
    (starRingEnd ℂ) (invLapSym c p) = invLapSym c (-p) := by
  rw [invLapSym_neg]
  unfold invLapSym
  split_ifs with h0
  · exact map_one _
  · rw [map_div₀, map_one, conj_lapsym c s hs]

/-! ### multiplied fields -/

/-- `ifft(mask·σ·ûh)` for a stored multiplier `σ` -/
noncomputable def mfield (c : Cfg ℂ) (σ : ℕ → ℂ) (uh : Array ℂ) : Array ℂ :=
  nifft c (tab (modes c) fun k => σ k * uh.getD k 0)

theorem mfield_bandLimitedV (c : Cfg ℂ) (hq : c.fq ≠ 0) (hN : 0 < c.N) (σ : ℕ → ℂ) (uh : Array ℂ) :
    BandLimitedV c.D c.N (Kc c) (mfield c σ uh) := nifft_bandLimitedV c hq hN _

theorem dfield_eq_mfield (c : Cfg ℂ) (uh : Array ℂ) (d : ℕ) :
    dfield c uh d = mfield c (deriv c d) uh := rfl

/-- the lattice multiplier of `u = ∂_1 Δ⁻¹` -/
noncomputable def usym (c : Cfg ℂ) (p : Fin c.D → ℤ) : ℂ := dsym c 1 p * invLapSym c p
/-- the lattice multiplier of `v = −∂_0 Δ⁻¹` -/
noncomputable def vsym (c : Cfg ℂ) (p : Fin c.D → ℤ) : ℂ := -(dsym c 0 p) * invLapSym c p

theorem conj_usym (c : Cfg ℂ) (s : ℝ) (hs : c.s = (s : ℂ)) (p : Fin c.D → ℤ) :
    (starRingEnd ℂ) (usym c p) = usym c (-p) := by
  unfold usym
  rw [map_mul, conj_dsym c s hs, conj_invLapSym c s hs]

theorem conj_vsym (c : Cfg ℂ) (s : ℝ) (hs : c.s = (s : ℂ)) (p : Fin c.D → ℤ) :
    (starRingEnd ℂ) (vsym c p) = vsym c (-p) := by
  unfold vsym
  rw [map_mul, map_neg, conj_dsym c s hs, conj_invLapSym c s hs]

/-- spectrum on the box of the velocity component `u = ifft(mask·(i s k_1)·Δ̂⁻¹·ω̂)` -/
theorem dftV_ufield (c : Cfg ℂ) (hD : c.D = 2) (hq : c.fq ≠ 0) (hN : 0 < c.N)
    (h2 : 2 * Kc c < (c.N : ℤ)) (s : ℝ) (hs : c.s = (s : ℂ)) (x : Array ℂ) (hx : IsRealND c.D c.N x)
    (m : Fin c.D → ℤ) (hm : ∀ d, |m d| ≤ Kc c) :
    dftV c.D c.N (mfield c (fun k => deriv c 1 k * invLapOne c k) (rfftnM c.D c.N x)) m
      = usym c m * dftV c.D c.N x m :=
  dftV_nifft_mult c (by omega) hq hN h2 x hx (usym c) (conj_usym c s hs) _
    (fun h _ _ => by
      show deriv c 1 h * invLapOne c h = usym c (kvec c.D c.N h)
      rw [deriv_eq_dsym c 1 (by omega) h, invLapOne_eq_invLapSym]; rfl) m hm

/-- spectrum on the box of the velocity component `v = ifft(mask·(−i s k_0)·Δ̂⁻¹·ω̂)` -/
theorem dftV_vfield (c : Cfg ℂ) (hD : c.D = 2) (hq : c.fq ≠ 0) (hN : 0 < c.N)
    (h2 : 2 * Kc c < (c.N : ℤ)) (s : ℝ) (hs : c.s = (s : ℂ)) (x : Array ℂ) (hx : IsRealND c.D c.N x)
    (m : Fin c.D → ℤ) (hm : ∀ d, |m d| ≤ Kc c) :
    dftV c.D c.N (mfield c (fun k => -(deriv c 0 k) * invLapOne c k) (rfftnM c.D c.N x)) m
      = vsym c m * dftV c.D c.N x m :=
  dftV_nifft_mult c (by omega) hq hN h2 x hx (vsym c) (conj_vsym c s hs) _
    (fun h _ _ => by
      show -(deriv c 0 h) * invLapOne c h = vsym c (kvec c.D c.N h)
      rw [deriv_eq_dsym c 0 (by omega) h, invLapOne_eq_invLapSym]; rfl) m hm

/-! ### pipeline read-off -/

/-- pipeline read-off of `VorticityConvection2d` without injection (any `D`, any stored input):
    `out_h = −scale·mask_h·F[u·w_0 + v·w_1](k(h))` with `u = ifft(mask·(i s k_1)·Δ̂⁻¹·ω̂)`,
    `v = ifft(mask·(−i s k_0)·Δ̂⁻¹·ω̂)`, `w_d = ifft(mask·(i s k_d)·ω̂)`. -/
theorem vorticity2d_nd_readoff (c : Cfg ℂ) (hN : 0 < c.N) (scale : ℂ) (uh : Array ℂ)
    (h : ℕ) (hh : h < numModes c.D c.N) :
    at2 (vorticity2d c scale none #[uh]) 0 h
      = -scale * (mask c h * dftV c.D c.N (tab (c.N ^ c.D) fun x =>
          (mfield c (fun k => deriv c 1 k * invLapOne c k) uh).getD x 0 * (dfield c uh 0).getD x 0
          + (mfield c (fun k => -(deriv c 0 k) * invLapOne c k) uh).getD x 0 * (dfield c uh 1).getD x 0)
          (kvec c.D c.N h)) := by
  have hM : h < modes c := hh
  have eu : nifft c (tab (modes c) fun k => deriv c 1 k *
        (tab (modes c) fun k => invLapOne c k * at2 (#[uh] : MC ℂ) 0 k).getD k 0)
      = mfield c (fun k => deriv c 1 k * invLapOne c k) uh := by
    unfold mfield
    apply Conserve.nifft_congr
    intro i hi
    rw [Nonlin.tab_getD _ _ _ _ hi, Nonlin.tab_getD _ _ _ _ hi, Nonlin.tab_getD _ _ _ _ hi, mul_assoc]
    rfl
  have ev : nifft c (tab (modes c) fun k => -(deriv c 0 k) *
        (tab (modes c) fun k => invLapOne c k * at2 (#[uh] : MC ℂ) 0 k).getD k 0)
      = mfield c (fun k => -(deriv c 0 k) * invLapOne c k) uh := by
    unfold mfield
    apply Conserve.nifft_congr
    intro i hi
    rw [Nonlin.tab_getD _ _ _ _ hi, Nonlin.tab_getD _ _ _ _ hi, Nonlin.tab_getD _ _ _ _ hi, mul_assoc]
    rfl
  unfold vorticity2d
  simp only []
  rw [at2_tab2 _ _ _ _ _ Nat.zero_lt_one hM, nfft_nd c hN _ h hh, eu, ev]
  rfl

/-! ### G4 -/

/-- the box-truncated spectra of the velocity components -/
noncomputable def uspec (c : Cfg ℂ) (x : Array ℂ) : (Fin c.D → ℤ) → ℂ :=
  fun p => usym c p * dftV c.D c.N x p
noncomputable def vspec (c : Cfg ℂ) (x : Array ℂ) : (Fin c.D → ℤ) → ℂ :=
  fun p => vsym c p * dftV c.D c.N x p

/-- **G4: `VorticityConvection2d` without injection, `D = 2`, cut-off `3·Kc < N`** (e.g. the 2/3
    rule), real scale `s`, real vorticity `x`, `ω̂ = rfftnM 2 N x`.  At a retained stored mode `h`

      `out_h = −scale·[(U ⋆ D_0 Ω)(k(h)) + (V ⋆ D_1 Ω)(k(h))]`

    with `Ω` the box-truncated full spectrum of `x`, `U(p) = (i s p_1)·Δ̂⁻¹(p)·Ω(p)`,
    `V(p) = −(i s p_0)·Δ̂⁻¹(p)·Ω(p)`, `D_d Ω(p) = (i s p_d)·Ω(p)`, `Δ̂⁻¹(p) = 1/(−s²|p|²)` (`1` at
    `p = 0`), and `⋆` the LINEAR convolution (normalised by `N^{-2}`): the coefficient of
    `−scale·(u·∇)ω` for the band-truncated vorticity with `u = (∂_1 ψ, −∂_0 ψ)`, `ψ = Δ⁻¹ω`,
    alias-free.  At a dropped mode the output is `0`. -/
theorem vorticity2d_alias_free (c : Cfg ℂ) (hD : c.D = 2) (hq : c.fq ≠ 0)
    (hK : 3 * Kc c < (c.N : ℤ)) (hN : 0 < c.N) (s : ℝ) (hs : c.s = (s : ℂ)) (scale : ℂ)
    (x : Array ℂ) (hx : IsRealND c.D c.N x) (h : ℕ) (hh : h < numModes c.D c.N) :
    (mask c h = 1 →
      at2 (vorticity2d c scale none #[rfftnM c.D c.N x]) 0 h
        = -scale * (linConv c.D c.N (Kc c) (uspec c x) (dspec c 0 x) (kvec c.D c.N h)
            + linConv c.D c.N (Kc c) (vspec c x) (dspec c 1 x) (kvec c.D c.N h)))
    ∧ (mask c h = 0 → at2 (vorticity2d c scale none #[rfftnM c.D c.N x]) 0 h = 0) := by
  have hD0 : 0 < c.D := by omega
  have h2 := two_lt_of_three c.N (Kc c) hK
  refine ⟨fun hm => ?_, fun hm => vorticity2d_zero_off_band c scale _ 0 h hm⟩
  have hk : ∀ d, |kvec c.D c.N h d| ≤ Kc c := (mask_nd_eq_one_iff c hq h).mp hm
  rw [vorticity2d_nd_readoff c hN scale _ h hh, hm, one_mul]
  have e : (tab (c.N ^ c.D) fun x' =>
        (mfield c (fun k => deriv c 1 k * invLapOne c k) (rfftnM c.D c.N x)).getD x' 0
            * (dfield c (rfftnM c.D c.N x) 0).getD x' 0
          + (mfield c (fun k => -(deriv c 0 k) * invLapOne c k) (rfftnM c.D c.N x)).getD x' 0
            * (dfield c (rfftnM c.D c.N x) 1).getD x' 0)
      = tab (c.N ^ c.D) fun x' =>
          (fun x' => (mfield c (fun k => deriv c 1 k * invLapOne c k) (rfftnM c.D c.N x)).getD x' 0
            * (dfield c (rfftnM c.D c.N x) 0).getD x' 0) x'
          + (fun x' => (mfield c (fun k => -(deriv c 0 k) * invLapOne c k) (rfftnM c.D c.N x)).getD x' 0
            * (dfield c (rfftnM c.D c.N x) 1).getD x' 0) x' := rfl
  rw [e, dftV_add]
  congr 2
  · exact dftV_mul_of_box c.D c.N hN (Kc c) hK _ _ (mfield_bandLimitedV c hq hN _ _)
      (dfield_bandLimitedV c hq hN _ 0) _ _
      (fun p hp => dftV_ufield c hD hq hN h2 s hs x hx p hp)
      (fun p hp => dftV_dfield c hD0 hq hN h2 s hs x hx 0 (by omega) p hp) _ hk
  · exact dftV_mul_of_box c.D c.N hN (Kc c) hK _ _ (mfield_bandLimitedV c hq hN _ _)
      (dfield_bandLimitedV c hq hN _ 1) _ _
      (fun p hp => dftV_vfield c hD hq hN h2 s hs x hx p hp)
      (fun p hp => dftV_dfield c hD0 hq hN h2 s hs x hx 1 (by omega) p hp) _ hk

/-- `linConv` of two multiplied spectra with the sum written out -/
theorem linConv_mul_explicit (D N : ℕ) (K : ℤ) (μ ν F G : (Fin D → ℤ) → ℂ) (k : Fin D → ℤ) :
    linConv D N K (fun p => μ p * F p) (fun p => ν p * G p) k
      = (1 / ((N ^ D : ℕ) : ℂ)) * ∑ p ∈ box D K,
          (μ p * truncV K F p) * (ν (k - p) * truncV K G (k - p)) := by
  unfold linConv
  congr 1
  apply Finset.sum_congr rfl
  intro p _
  rw [truncV_mul, truncV_mul]

/-- **G4 with explicit sums**: at a retained stored mode

    `out_h = −scale·N^{-2}·[ Σ_{p ∈ box} (i s p_1 Δ̂⁻¹(p) Ω_p)·(i s (k_0 − p_0) Ω_{k−p})
                           + Σ_{p ∈ box} (−i s p_0 Δ̂⁻¹(p) Ω_p)·(i s (k_1 − p_1) Ω_{k−p}) ]`, `k = k(h)`. -/
theorem vorticity2d_alias_free_explicit (c : Cfg ℂ) (hD : c.D = 2) (hq : c.fq ≠ 0)
    (hK : 3 * Kc c < (c.N : ℤ)) (hN : 0 < c.N) (s : ℝ) (hs : c.s = (s : ℂ)) (scale : ℂ)
    (x : Array ℂ) (hx : IsRealND c.D c.N x) (h : ℕ) (hh : h < numModes c.D c.N) :
    (mask c h = 1 →
      at2 (vorticity2d c scale none #[rfftnM c.D c.N x]) 0 h
        = -scale * ((1 / ((c.N ^ c.D : ℕ) : ℂ)) * ∑ p ∈ box c.D (Kc c),
              (dsym c 1 p * invLapSym c p * truncV (Kc c) (dftV c.D c.N x) p) *
                (dsym c 0 (kvec c.D c.N h - p) * truncV (Kc c) (dftV c.D c.N x) (kvec c.D c.N h - p))
            + (1 / ((c.N ^ c.D : ℕ) : ℂ)) * ∑ p ∈ box c.D (Kc c),
              (-(dsym c 0 p) * invLapSym c p * truncV (Kc c) (dftV c.D c.N x) p) *
                (dsym c 1 (kvec c.D c.N h - p) * truncV (Kc c) (dftV c.D c.N x) (kvec c.D c.N h - p))))
    ∧ (mask c h = 0 → at2 (vorticity2d c scale none #[rfftnM c.D c.N x]) 0 h = 0) := by
  have := vorticity2d_alias_free c hD hq hK hN s hs scale x hx h hh
  refine ⟨fun hm => ?_, this.2⟩
  rw [this.1 hm]
  unfold uspec vspec dspec usym vsym
  rw [linConv_mul_explicit, linConv_mul_explicit]

/-- G4 for the documented fraction 2/3 -/
theorem vorticity2d_alias_free_two_thirds (c : Cfg ℂ) (hD : c.D = 2) (hp : c.fp = 2) (hq : c.fq = 3)
    (hN : 0 < c.N) (s : ℝ) (hs : c.s = (s : ℂ)) (scale : ℂ)
    (x : Array ℂ) (hx : IsRealND c.D c.N x) (h : ℕ) (hh : h < numModes c.D c.N) :
    (mask c h = 1 →
      at2 (vorticity2d c scale none #[rfftnM c.D c.N x]) 0 h
        = -scale * (linConv c.D c.N (Kc c) (uspec c x) (dspec c 0 x) (kvec c.D c.N h)
            + linConv c.D c.N (Kc c) (vspec c x) (dspec c 1 x) (kvec c.D c.N h)))
    ∧ (mask c h = 0 → at2 (vorticity2d c scale none #[rfftnM c.D c.N x]) 0 h = 0) :=
  vorticity2d_alias_free c hD (by omega) (Kc_two_thirds c hp hq).1 hN s hs scale x hx h hh

end Exponax.AliasND
