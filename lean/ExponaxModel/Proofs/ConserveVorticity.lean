import ExponaxModel.Proofs.ConserveMean
/-
C09 (part K1 f) — the 2-D vorticity convection `−b·(u·∇)ω` has no mean.

Proved here in full:
  * `parseval_cross_nd` : the D-dimensional Parseval CROSS identity in the stored half layout
    (polarisation of `DFT.parseval_nd`), for real grid fields;
  * `irfftnM_real`      : the c2r transform returns real fields (any input);
  * `vorticity2d_mean_spectral` : mode by mode the two contributions `û·conj(ω̂_x)` and
    `v̂·conj(ω̂_y)` cancel (real `s`; ANY vorticity coefficient, mask value, inverse Laplacian).
`vorticity2d_mean_partial` puts them together under an explicit HERMITIAN-CONSISTENCY hypothesis
(see there), in any dimension `D ≥ 1`.  The hypothesis-free statement for `D = 2` is
`vorticity2d_mean` in `ConserveVorticityFull.lean`.
-/
set_option linter.unusedVariables false
set_option linter.unusedSimpArgs false
namespace Exponax.Conserve
open Exponax Exponax.Layout Exponax.Transform Exponax.DFT Exponax.Nonlin Exponax.Alias Finset

/-! ### the c2r transform returns real fields -/

theorem irfftnM_real (D N : ℕ) (hN : 0 < N) (cc : Array ℂ) (j : ℕ) (hj : j < N ^ D) :
    ((irfftnM D N cc).getD j 0).im = 0 := by
  rw [irfftnM_getD D N hN cc j hj]
  have : ∀ (S : Finset ℕ) (w : ℕ → ℕ) (f : ℕ → ℝ) (G : ℕ),
      ((∑ h ∈ S, ((w h : ℕ) : ℂ) * ((f h : ℝ) : ℂ)) / ((G : ℕ) : ℂ)).im = 0 := by
    intro S w f G
    have : (∑ h ∈ S, ((w h : ℕ) : ℂ) * ((f h : ℝ) : ℂ)) / ((G : ℕ) : ℂ)
        = (((∑ h ∈ S, (w h : ℝ) * f h) / (G : ℝ) : ℝ) : ℂ) := by push_cast; rfl
    rw [this, Complex.ofReal_im]
  exact this _ _ _ _

theorem nifft_real_nd (c : Cfg ℂ) (hN : 0 < c.N) (F : Array ℂ) (j : ℕ) (hj : j < gridSize c) :
    ((nifft c F).getD j 0).im = 0 :=
  irfftnM_real c.D c.N hN _ j hj

/-- `nifft` only reads the stored modes -/
theorem nifft_congr (c : Cfg ℂ) (F G : Array ℂ) (h : ∀ i, i < modes c → F.getD i 0 = G.getD i 0) :
    nifft c F = nifft c G := by
  unfold nifft
  congr 1
  exact Nonlin.tab_congr _ _ _ (fun i hi => by rw [h i hi])

/-! ### linearity of the forward transform, entrywise -/

theorem rfftnM_tab_getD (D N : ℕ) (hN : 0 < N) (f : ℕ → ℂ) (h : ℕ) (hh : h < numModes D N) :
    (rfftnM D N (tab (N ^ D) f)).getD h 0
      = ∑ j ∈ range (N ^ D), f j * twiddle N (phaseK D N (wnFlat D N h) j) := by
  rw [rfftnM_getD D N hN _ h hh]
  apply Finset.sum_congr rfl
  intro j hj
  rw [DFT.tab_getD _ _ _ _ (Finset.mem_range.mp hj)]

theorem rfftnM_add_getD (D N : ℕ) (hN : 0 < N) (a b : Array ℂ) (h : ℕ) (hh : h < numModes D N) :
    (rfftnM D N (tab (N ^ D) (fun j => a.getD j 0 + b.getD j 0))).getD h 0
      = (rfftnM D N a).getD h 0 + (rfftnM D N b).getD h 0 := by
  rw [rfftnM_tab_getD D N hN _ h hh, rfftnM_getD D N hN a h hh, rfftnM_getD D N hN b h hh,
    ← Finset.sum_add_distrib]
  exact Finset.sum_congr rfl (fun j _ => by ring)

theorem rfftnM_sub_getD (D N : ℕ) (hN : 0 < N) (a b : Array ℂ) (h : ℕ) (hh : h < numModes D N) :
    (rfftnM D N (tab (N ^ D) (fun j => a.getD j 0 - b.getD j 0))).getD h 0
      = (rfftnM D N a).getD h 0 - (rfftnM D N b).getD h 0 := by
  rw [rfftnM_tab_getD D N hN _ h hh, rfftnM_getD D N hN a h hh, rfftnM_getD D N hN b h hh,
    ← Finset.sum_sub_distrib]
  exact Finset.sum_congr rfl (fun j _ => by ring)

/-! ### the Parseval cross identity, any dimension -/

theorem norm_polarise (p q : ℂ) :
    ‖p + q‖ ^ 2 - ‖p - q‖ ^ 2 = 4 * (p * (starRingEnd ℂ) q).re := by
  rw [Complex.sq_norm, Complex.sq_norm, Complex.normSq_apply, Complex.normSq_apply]
  simp only [Complex.add_re, Complex.add_im, Complex.sub_re, Complex.sub_im, Complex.mul_re,
    Complex.conj_re, Complex.conj_im]
  ring

/-- **Parseval cross identity in the half layout, general `D ≥ 1`**: for REAL grid fields `a`, `b`
    `Σ_j a_j b_j = N^{-D} Σ_h w_h Re(â_h · conj b̂_h)`, `w = herm_weight D N` -/
theorem parseval_cross_nd (D N : ℕ) (hD : 0 < D) (hN : 0 < N) (a b : Array ℂ)
    (ha : ∀ j < N ^ D, (a.getD j 0).im = 0) (hb : ∀ j < N ^ D, (b.getD j 0).im = 0) :
    ∑ j ∈ range (N ^ D), (a.getD j 0).re * (b.getD j 0).re
      = (1 / ((N ^ D : ℕ) : ℝ)) * ∑ h ∈ range (numModes D N),
          (herm_weight D N h : ℝ) *
            ((rfftnM D N a).getD h 0 * (starRingEnd ℂ) ((rfftnM D N b).getD h 0)).re := by
  have hp := parseval_nd D N hD hN (tab (N ^ D) (fun j => a.getD j 0 + b.getD j 0)) (by
    intro j hj
    rw [DFT.tab_getD _ _ _ _ hj, Complex.add_im, ha j hj, hb j hj, add_zero])
  have hm := parseval_nd D N hD hN (tab (N ^ D) (fun j => a.getD j 0 - b.getD j 0)) (by
    intro j hj
    rw [DFT.tab_getD _ _ _ _ hj, Complex.sub_im, ha j hj, hb j hj, sub_zero])
  have hL : ∑ j ∈ range (N ^ D), ‖(tab (N ^ D) (fun j => a.getD j 0 + b.getD j 0)).getD j 0‖ ^ 2
      - ∑ j ∈ range (N ^ D), ‖(tab (N ^ D) (fun j => a.getD j 0 - b.getD j 0)).getD j 0‖ ^ 2
      = 4 * ∑ j ∈ range (N ^ D), (a.getD j 0).re * (b.getD j 0).re := by
    rw [← Finset.sum_sub_distrib, Finset.mul_sum]
    apply Finset.sum_congr rfl
    intro j hj
    have hj' := Finset.mem_range.mp hj
    rw [DFT.tab_getD _ _ _ _ hj', DFT.tab_getD _ _ _ _ hj', norm_polarise, Complex.mul_re,
      Complex.conj_re, Complex.conj_im, ha j hj', hb j hj']
    ring
  have hR : ∑ h ∈ range (numModes D N), (herm_weight D N h : ℝ) *
        ‖(rfftnM D N (tab (N ^ D) (fun j => a.getD j 0 + b.getD j 0))).getD h 0‖ ^ 2
      - ∑ h ∈ range (numModes D N), (herm_weight D N h : ℝ) *
        ‖(rfftnM D N (tab (N ^ D) (fun j => a.getD j 0 - b.getD j 0))).getD h 0‖ ^ 2
      = 4 * ∑ h ∈ range (numModes D N), (herm_weight D N h : ℝ) *
          ((rfftnM D N a).getD h 0 * (starRingEnd ℂ) ((rfftnM D N b).getD h 0)).re := by
    rw [← Finset.sum_sub_distrib, Finset.mul_sum]
    apply Finset.sum_congr rfl
    intro h hh
    have hh' := Finset.mem_range.mp hh
    rw [rfftnM_add_getD D N hN a b h hh', rfftnM_sub_getD D N hN a b h hh', ← mul_sub,
      norm_polarise]
    ring
  have h4 : (4 : ℝ) * ∑ j ∈ range (N ^ D), (a.getD j 0).re * (b.getD j 0).re
      = 4 * ((1 / ((N ^ D : ℕ) : ℝ)) * ∑ h ∈ range (numModes D N),
          (herm_weight D N h : ℝ) *
            ((rfftnM D N a).getD h 0 * (starRingEnd ℂ) ((rfftnM D N b).getD h 0)).re) := by
    rw [← hL, hp, hm, ← mul_sub, hR]
    ring
  exact mul_left_cancel₀ (by norm_num : (4 : ℝ) ≠ 0) h4

/-- the cross identity for the complex-valued sum of products of real fields -/
theorem parseval_cross_nd_complex (D N : ℕ) (hD : 0 < D) (hN : 0 < N) (a b : Array ℂ)
    (ha : ∀ j < N ^ D, (a.getD j 0).im = 0) (hb : ∀ j < N ^ D, (b.getD j 0).im = 0) :
    ∑ j ∈ range (N ^ D), a.getD j 0 * b.getD j 0
      = (((1 / ((N ^ D : ℕ) : ℝ)) * ∑ h ∈ range (numModes D N),
          (herm_weight D N h : ℝ) *
            ((rfftnM D N a).getD h 0 * (starRingEnd ℂ) ((rfftnM D N b).getD h 0)).re : ℝ) : ℂ) := by
  rw [← parseval_cross_nd D N hD hN a b ha hb, Complex.ofReal_sum]
  apply Finset.sum_congr rfl
  intro j hj
  have hj' := Finset.mem_range.mp hj
  apply Complex.ext
  · rw [Complex.mul_re, ha j hj', hb j hj', Complex.ofReal_re]; ring
  · rw [Complex.mul_im, ha j hj', hb j hj', Complex.ofReal_im]; ring

/-! ### K1 (f): the mode-by-mode cancellation -/

/-- **K1(f), spectral core.**  At every stored mode, with `û = d₁ψ̂`, `v̂ = −d₀ψ̂`, `ω̂_x = d₀ω̂`,
    `ω̂_y = d₁ω̂` (each multiplied by the mask value `μ`) the two contributions to the Parseval
    cross sum cancel: `û·conj(ω̂_x) + v̂·conj(ω̂_y) = 0`.  Real scale `s`; ANY complex
    `ψ̂` (so any guard value of the inverse Laplacian), `ω̂`, `μ`. -/
theorem vorticity2d_mean_spectral (c : Cfg ℂ) (s : ℝ) (hs : c.s = (s : ℂ)) (h : ℕ) (μ psi w : ℂ) :
    (μ * (deriv c 1 h * psi)) * (starRingEnd ℂ) (μ * (deriv c 0 h * w))
      + (μ * (-(deriv c 0 h) * psi)) * (starRingEnd ℂ) (μ * (deriv c 1 h * w)) = 0 := by
  rw [deriv_eq_real c s hs 0 h, deriv_eq_real c s hs 1 h]
  simp only [map_mul, Complex.conj_I, Complex.conj_ofReal]
  ring

/-- Hermitian consistency of a stored spectrum `F` (given on the stored modes) w.r.t. the masked
    inverse transform: transforming the grid field `ifft(mask·F)` forward again returns `mask·F`.
    This holds exactly when `mask·F` is the half spectrum of a real field (see
    `roundTrip_of_real_field`); it can only fail on the self-conjugate columns (last-axis DC /
    Nyquist), where the c2r transform discards the non-Hermitian part. -/
def RoundTrip (c : Cfg ℂ) (F : ℕ → ℂ) : Prop :=
  ∀ h, h < modes c → (rfftnM c.D c.N (nifft c (tab (modes c) F))).getD h 0 = mask c h * F h

/-- a masked spectrum that IS the transform of a real grid field is Hermitian-consistent -/
theorem roundTrip_of_real_field (c : Cfg ℂ) (hD : 0 < c.D) (hN : 0 < c.N) (F : ℕ → ℂ) (U : Array ℂ)
    (hsz : U.size = c.N ^ c.D) (hU : ∀ (j : ℕ) (hj : j < U.size), (U[j]).im = 0)
    (hF : ∀ h, h < modes c → (rfftnM c.D c.N U).getD h 0 = mask c h * F h) : RoundTrip c F := by
  intro h hh
  have e : nifft c (tab (modes c) F) = U := by
    unfold nifft
    have : (tab (modes c) fun h => mask c h * (tab (modes c) F).getD h 0) = rfftnM c.D c.N U := by
      apply Array.ext
      · simp [modes]
      · intro i h1 h2
        have hi : i < modes c := by simpa using h1
        have := hF i hi
        rw [DFT.tab_getElem, DFT.tab_getD _ _ _ _ hi, ← this]
        simp [Array.getD, h2, show i < numModes c.D c.N from hi]
    rw [this]
    exact irfftn_rfftn_array c.D c.N hD hN U hsz hU
  rw [e, hF h hh]

/-- **K1(f), partial.**  `VorticityConvection2d` without injection has no mean, PROVIDED the four
    spectra handed to the inverse transform (`û = d₁ψ̂`, `v̂ = −d₀ψ̂`, `d₀ω̂`, `d₁ω̂`,
    `ψ̂ = invLapOne·ω̂`) are Hermitian-consistent (`RoundTrip`).  Everything else is proved from the
    pipeline: mean mode of `nfft` = `mask(0)·Σ_j`, D-dimensional Parseval cross identity
    (`parseval_cross_nd`), mode-by-mode cancellation (`vorticity2d_mean_spectral`).

    The FULL statement (every input `uh`, no `RoundTrip` hypotheses, `c.D = 2`) is proved as
    `vorticity2d_mean` in `ConserveVorticityFull.lean`: the non-Hermitian parts on the
    self-conjugate columns cancel in pairs `k ↔ −k`.  This version is kept because it holds for
    every `c.D ≥ 1`. -/
theorem vorticity2d_mean_partial (c : Cfg ℂ) (hD : 0 < c.D) (hN : 0 < c.N) (s : ℝ) (hs : c.s = (s : ℂ))
    (scale : ℂ) (uh : MC ℂ)
    (HU : RoundTrip c (fun h => deriv c 1 h * (invLapOne c h * at2 uh 0 h)))
    (HV : RoundTrip c (fun h => -(deriv c 0 h) * (invLapOne c h * at2 uh 0 h)))
    (HX : RoundTrip c (fun h => deriv c 0 h * at2 uh 0 h))
    (HY : RoundTrip c (fun h => deriv c 1 h * at2 uh 0 h)) :
    at2 (vorticity2d c scale none uh) 0 0 = 0 := by
  obtain ⟨uH, vH, wxH, wyH, hout, huH, hvH, hwxH, hwyH⟩ := vorticity2d_spec c scale uh
  obtain ⟨e, he, he0, -⟩ := hout none 0 (modes_pos c hN)
  rw [he, he0 rfl, add_zero, nfft_zero_mode c hN]
  -- replace the four witnesses by the explicit tabulated spectra
  have eU : nifft c uH = nifft c (tab (modes c) fun h => deriv c 1 h * (invLapOne c h * at2 uh 0 h)) :=
    nifft_congr c _ _ (fun i hi => by rw [huH i hi, DFT.tab_getD _ _ _ _ hi])
  have eV : nifft c vH = nifft c (tab (modes c) fun h => -(deriv c 0 h) * (invLapOne c h * at2 uh 0 h)) :=
    nifft_congr c _ _ (fun i hi => by rw [hvH i hi, DFT.tab_getD _ _ _ _ hi])
  have eX : nifft c wxH = nifft c (tab (modes c) fun h => deriv c 0 h * at2 uh 0 h) :=
    nifft_congr c _ _ (fun i hi => by rw [hwxH i hi, DFT.tab_getD _ _ _ _ hi])
  have eY : nifft c wyH = nifft c (tab (modes c) fun h => deriv c 1 h * at2 uh 0 h) :=
    nifft_congr c _ _ (fun i hi => by rw [hwyH i hi, DFT.tab_getD _ _ _ _ hi])
  rw [eU, eV, eX, eY]
  set U := nifft c (tab (modes c) fun h => deriv c 1 h * (invLapOne c h * at2 uh 0 h)) with hUdef
  set V := nifft c (tab (modes c) fun h => -(deriv c 0 h) * (invLapOne c h * at2 uh 0 h)) with hVdef
  set WX := nifft c (tab (modes c) fun h => deriv c 0 h * at2 uh 0 h) with hXdef
  set WY := nifft c (tab (modes c) fun h => deriv c 1 h * at2 uh 0 h) with hYdef
  have hsum : ∑ j ∈ range (gridSize c),
        (tab (gridSize c) fun x => U.getD x 0 * WX.getD x 0 + V.getD x 0 * WY.getD x 0).getD j 0
      = ∑ j ∈ range (c.N ^ c.D), U.getD j 0 * WX.getD j 0
        + ∑ j ∈ range (c.N ^ c.D), V.getD j 0 * WY.getD j 0 := by
    rw [← Finset.sum_add_distrib]
    apply Finset.sum_congr rfl
    intro j hj
    rw [DFT.tab_getD _ _ _ _ (Finset.mem_range.mp hj)]
  rw [hsum,
    parseval_cross_nd_complex c.D c.N hD hN U WX (nifft_real_nd c hN _) (nifft_real_nd c hN _),
    parseval_cross_nd_complex c.D c.N hD hN V WY (nifft_real_nd c hN _) (nifft_real_nd c hN _),
    ← Complex.ofReal_add, ← mul_add, ← Finset.sum_add_distrib]
  have hzero : ∀ h ∈ range (numModes c.D c.N),
      (herm_weight c.D c.N h : ℝ) *
          ((rfftnM c.D c.N U).getD h 0 * (starRingEnd ℂ) ((rfftnM c.D c.N WX).getD h 0)).re
        + (herm_weight c.D c.N h : ℝ) *
          ((rfftnM c.D c.N V).getD h 0 * (starRingEnd ℂ) ((rfftnM c.D c.N WY).getD h 0)).re = 0 := by
    intro h hh
    have hh' : h < modes c := Finset.mem_range.mp hh
    rw [HU h hh', HV h hh', HX h hh', HY h hh', ← mul_add, ← Complex.add_re]
    have := vorticity2d_mean_spectral c s hs h (mask c h) (invLapOne c h * at2 uh 0 h) (at2 uh 0 h)
    rw [this]
    simp
  rw [Finset.sum_eq_zero hzero]
  simp

end Exponax.Conserve
