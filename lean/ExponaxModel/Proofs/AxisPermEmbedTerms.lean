import ExponaxModel.Proofs.AxisPermEmbed
import ExponaxModel.Proofs.EquivarianceNDSteps
import ExponaxModel.Proofs.AliasNDMask
/-
C08, T4 (terms) — EMBEDDING along the LAST axis: the `D`-dimensional pseudo-spectral pipeline applied
to a spectrum supported on the last axis IS the embedding of the 1-D pipeline.

`cfg1 c` is the 1-D configuration with the same `N`, `s = 2π/L` and dealiasing fraction.  Relations
(only used to state things; characterised by the concrete operations `embedAxis`, `rfftn_embedLast`):

  `EmbSpec c a a₁`   : on the stored modes, `a[h] = N^{D-1}·a₁[h]` for `h ≤ N/2` (the last axis of the
                       half layout — the SAME sign convention as the 1-D layout, Nyquist included), else `0`
  `EmbField c v v₁`  : `v[j] = v₁[j mod N]` on the grid (constant in all directions but the last)
  `MCEmbSpec`, `MCEmbField` : the same for every channel.

* `nifft_embed`     : `nifft c a = embedAxis (nifft (cfg1 c) a₁)`            (mask, then c2r)
* `nfft_embSpec`    : `EmbField v v₁ → EmbSpec (nfft c v) (nfft (cfg1 c) v₁)`  (r2c, then mask)
* **terms** (`*_embed`): single-channel-type convection (conservative and not), polynomial, gradient norm
  (both `zeroFix`), `general`: `MCEmbSpec uh uh₁ → MCEmbSpec (T_D uh) (T_1 uh₁)` — ARBITRARY complex
  spectra, every `N ≥ 1`, any dealiasing fraction, Nyquist content allowed.
-/
set_option linter.unusedVariables false
namespace Exponax.AxisPerm
open Exponax Exponax.Layout Exponax.Transform Exponax.Nonlin Exponax.AliasND Exponax.Alias Finset
open Exponax.DFT (numModes_succ numModes_one wnFlat_one digit_succ_last sum_range_mul_div_mod)

/-- the 1-D configuration with the same `N`, `s = 2π/L` and dealiasing fraction -/
def cfg1 (c : Cfg ℂ) : Cfg ℂ := ⟨1, c.N, c.s, c.fp, c.fq⟩

/-- the factor `N^{D-1}` between the 1-D spectrum and the `D`-dimensional spectrum of the embedding -/
noncomputable def embScale (c : Cfg ℂ) : ℂ := ((c.N ^ (c.D - 1) : ℕ) : ℂ)

def EmbSpec (c : Cfg ℂ) (a a1 : Array ℂ) : Prop :=
  ∀ h, h < modes c → a.getD h 0 = if h < c.N / 2 + 1 then embScale c * a1.getD h 0 else 0

def EmbField (c : Cfg ℂ) (v v1 : Array ℂ) : Prop :=
  ∀ j, j < gridSize c → v.getD j 0 = v1.getD (j % c.N) 0

def MCEmbSpec (c : Cfg ℂ) (uh uh1 : MC ℂ) : Prop :=
  ∀ ch h, h < modes c → at2 uh ch h = if h < c.N / 2 + 1 then embScale c * at2 uh1 ch h else 0

def MCEmbField (c : Cfg ℂ) (u u1 : MC ℂ) : Prop :=
  ∀ ch j, j < gridSize c → at2 u ch j = at2 u1 ch (j % c.N)

theorem modes_cfg1 (c : Cfg ℂ) : modes (cfg1 c) = c.N / 2 + 1 := numModes_one c.N

theorem gridSize_cfg1 (c : Cfg ℂ) : gridSize (cfg1 c) = c.N := pow_one c.N

theorem lastAxis_lt_modes (c : Cfg ℂ) (hD : 0 < c.D) (hN : 0 < c.N) (h : ℕ) (hh : h < c.N / 2 + 1) :
    h < modes c := by
  obtain ⟨D, N, s, fp, fq⟩ := c
  obtain ⟨E, rfl⟩ : ∃ E, D = E + 1 := ⟨D - 1, by simp only at hD; omega⟩
  show h < numModes (E + 1) N
  rw [numModes_succ]
  calc h < N / 2 + 1 := hh
    _ = 1 * (N / 2 + 1) := (one_mul _).symm
    _ ≤ N ^ E * (N / 2 + 1) := Nat.mul_le_mul_right _ (pow_pos hN E)

theorem mcEmbSpec_embSpec {c : Cfg ℂ} {uh uh1 : MC ℂ} (h : MCEmbSpec c uh uh1) (ch : ℕ) :
    EmbSpec c (uh.getD ch #[]) (uh1.getD ch #[]) := fun m hm => h ch m hm

theorem mcEmbField_embField {c : Cfg ℂ} {u u1 : MC ℂ} (h : MCEmbField c u u1) (ch : ℕ) :
    EmbField c (u.getD ch #[]) (u1.getD ch #[]) := fun j hj => h ch j hj

/-! ## wavenumbers, mask, derivative operators on the last axis -/

theorem kvec_lastAxis (E N h : ℕ) (hN : 0 < N) (hh : h < N / 2 + 1) (d : Fin (E + 1)) :
    kvec (E + 1) N h d = if (d : ℕ) = E then (h : ℤ) else 0 := by
  have hlt : h < numModes (E + 1) N := lastAxis_lt_modes ⟨E + 1, N, 0, 0, 0⟩ (by simp) hN h hh
  split_ifs with hd
  · rw [kvec_last E N h hlt d hd, Nat.mod_eq_of_lt hh]
  · rw [kvec_leading E N h hlt d (by have := d.2; omega), Nat.div_eq_of_lt hh, digit_zero]
    simp [fftfreq]

theorem kvec_one (N h : ℕ) (d : Fin 1) : kvec 1 N h d = (h : ℤ) := by
  have : (d : ℕ) = 0 := by omega
  simp [kvec, wnFlat_one]

/-- the dealiasing mask of the `D`-dimensional configuration on the last axis is the 1-D mask -/
theorem mask_embed (c : Cfg ℂ) (hD : 0 < c.D) (hN : 0 < c.N) (h : ℕ) (hh : h < c.N / 2 + 1) :
    mask c h = mask (cfg1 c) h := by
  by_cases hq : c.fq = 0
  · unfold mask
    rw [if_pos hq, if_pos (show (cfg1 c).fq = 0 from hq)]
  · have hq1 : (cfg1 c).fq ≠ 0 := hq
    have hK : Kc (cfg1 c) = Kc c := rfl
    have hiff : (∀ d : Fin c.D, |kvec c.D c.N h d| ≤ Kc c) ↔
        (∀ d : Fin (cfg1 c).D, |kvec (cfg1 c).D (cfg1 c).N h d| ≤ Kc (cfg1 c)) := by
      rw [hK]
      obtain ⟨D, N, s, fp, fq⟩ := c
      obtain ⟨E, rfl⟩ : ∃ E, D = E + 1 := ⟨D - 1, by simp only at hD; omega⟩
      show (∀ d : Fin (E + 1), |kvec (E + 1) N h d| ≤ Kc ⟨E + 1, N, s, fp, fq⟩) ↔
        (∀ d : Fin 1, |kvec 1 N h d| ≤ Kc ⟨E + 1, N, s, fp, fq⟩)
      constructor
      · intro H d
        have := H (Fin.last E)
        rw [kvec_lastAxis E N h hN hh, if_pos (by simp)] at this
        rw [kvec_one]
        exact this
      · intro H d
        have h0 := H 0
        rw [kvec_one] at h0
        rw [kvec_lastAxis E N h hN hh]
        split_ifs
        · exact h0
        · rw [abs_zero]
          exact le_trans (abs_nonneg _) h0
    by_cases hc : ∀ d : Fin c.D, |kvec c.D c.N h d| ≤ Kc c
    · rw [(mask_nd_eq_one_iff c hq h).mpr hc, (mask_nd_eq_one_iff (cfg1 c) hq1 h).mpr (hiff.mp hc)]
    · rw [(mask_nd_eq_zero_iff c hq h).mpr hc,
        (mask_nd_eq_zero_iff (cfg1 c) hq1 h).mpr (fun h' => hc (hiff.mpr h'))]

/-- the derivative operators of the leading axes vanish on the last axis -/
theorem deriv_embed_lead (c : Cfg ℂ) (hN : 0 < c.N) (d h : ℕ) (hd : d + 1 < c.D) (hh : h < c.N / 2 + 1) :
    Nonlin.deriv c d h = 0 := by
  obtain ⟨D, N, s, fp, fq⟩ := c
  obtain ⟨E, rfl⟩ : ∃ E, D = E + 1 := ⟨D - 1, by simp only at hd; omega⟩
  have hk : (wnFlat (E + 1) N h).getD d 0 = 0 := by
    have := kvec_lastAxis E N h hN hh ⟨d, by simp only at hd; omega⟩
    rw [if_neg (by simp only at hd ⊢; omega)] at this
    exact this
  unfold Nonlin.deriv
  simp only []
  rw [hk]
  simp

/-- the derivative operator of the last axis is the 1-D derivative operator -/
theorem deriv_embed_last (c : Cfg ℂ) (hD : 0 < c.D) (hN : 0 < c.N) (h : ℕ) (hh : h < c.N / 2 + 1) :
    Nonlin.deriv c (c.D - 1) h = Nonlin.deriv (cfg1 c) 0 h := by
  obtain ⟨D, N, s, fp, fq⟩ := c
  obtain ⟨E, rfl⟩ : ∃ E, D = E + 1 := ⟨D - 1, by simp only at hD; omega⟩
  have hk : (wnFlat (E + 1) N h).getD E 0 = (h : ℤ) := by
    have := kvec_lastAxis E N h hN hh (Fin.last E)
    rw [if_pos (by simp)] at this
    exact this
  unfold Nonlin.deriv cfg1
  simp only [Nat.add_sub_cancel]
  rw [hk, wnFlat_one]
  simp

theorem sumList_range_succ_of_zero (E : ℕ) (F : ℕ → ℂ) (hF : ∀ d < E, F d = 0) :
    sumList ((List.range (E + 1)).map F) = F E := by
  rw [Nonlin.sumList_range_eq, Finset.sum_range_succ, Finset.sum_eq_zero (fun d hd => hF d (Finset.mem_range.mp hd)),
    zero_add]

theorem sumList_range_one (F : ℕ → ℂ) : sumList ((List.range 1).map F) = F 0 := by
  rw [Nonlin.sumList_range_eq, Finset.sum_range_one]

/-- a sum over the axes of terms that vanish on the leading axes: only the last axis survives -/
theorem sumList_axes_embed (c : Cfg ℂ) (hD : 0 < c.D) (F F1 : ℕ → ℂ) (hF : ∀ d, d + 1 < c.D → F d = 0)
    (hl : F (c.D - 1) = F1 0) :
    sumList ((List.range c.D).map F) = sumList ((List.range (cfg1 c).D).map F1) := by
  obtain ⟨E, hE⟩ : ∃ E, c.D = E + 1 := ⟨c.D - 1, by omega⟩
  rw [show (cfg1 c).D = 1 from rfl, sumList_range_one, ← hl, hE, Nat.add_sub_cancel]
  exact sumList_range_succ_of_zero E F (fun d hd => hF d (by omega))

/-! ## the relations for tabulated arrays -/

theorem embSpec_tab (c : Cfg ℂ) (f f1 : ℕ → ℂ)
    (h : ∀ m, m < modes c → f m = if m < c.N / 2 + 1 then embScale c * f1 m else 0) :
    EmbSpec c (tab (modes c) f) (tab (modes (cfg1 c)) f1) := by
  intro m hm
  rw [DFT.tab_getD _ _ _ _ hm, h m hm]
  split_ifs with hlt
  · rw [DFT.tab_getD _ _ _ _ (by rw [modes_cfg1]; exact hlt)]
  · rfl

theorem embField_tab (c : Cfg ℂ) (hN : 0 < c.N) (f f1 : ℕ → ℂ) (h : ∀ j, j < gridSize c → f j = f1 (j % c.N)) :
    EmbField c (tab (gridSize c) f) (tab (gridSize (cfg1 c)) f1) := by
  intro j hj
  rw [DFT.tab_getD _ _ _ _ hj, DFT.tab_getD _ _ _ _ (by rw [gridSize_cfg1]; exact Nat.mod_lt _ hN), h j hj]

theorem mcEmbSpec_tab2 (c : Cfg ℂ) (C : ℕ) (f f1 : ℕ → ℕ → ℂ)
    (h : ∀ ch, ch < C → ∀ m, m < modes c → f ch m = if m < c.N / 2 + 1 then embScale c * f1 ch m else 0) :
    MCEmbSpec c (tab2 C (modes c) f) (tab2 C (modes (cfg1 c)) f1) := by
  intro ch m hm
  rw [at2_tab2_any, at2_tab2_any]
  by_cases hc : ch < C
  · rw [if_pos ⟨hc, hm⟩, h ch hc m hm]
    by_cases h1 : m < c.N / 2 + 1
    · rw [if_pos h1, if_pos h1, if_pos ⟨hc, by rw [modes_cfg1]; exact h1⟩]
    · rw [if_neg h1, if_neg h1]
  · rw [if_neg (fun h' => hc h'.1)]
    by_cases h1 : m < c.N / 2 + 1
    · rw [if_pos h1, if_neg (fun h' => hc h'.1), mul_zero]
    · rw [if_neg h1]

theorem mcEmbSpec_tabC (c : Cfg ℂ) (C : ℕ) (F F1 : ℕ → Array ℂ) (h : ∀ ch, ch < C → EmbSpec c (F ch) (F1 ch)) :
    MCEmbSpec c (tabC C F) (tabC C F1) := by
  intro ch m hm
  rw [at2_tabC_any, at2_tabC_any]
  split_ifs with hc hlt hlt
  · rw [h ch hc m hm, if_pos hlt]
  · rw [h ch hc m hm, if_neg hlt]
  · rw [mul_zero]
  · rfl

theorem mcEmbField_tabC (c : Cfg ℂ) (C : ℕ) (F F1 : ℕ → Array ℂ) (h : ∀ ch, ch < C → EmbField c (F ch) (F1 ch)) :
    MCEmbField c (tabC C F) (tabC C F1) := by
  intro ch j hj
  rw [at2_tabC_any, at2_tabC_any]
  split_ifs with hc
  · exact h ch hc j hj
  · rfl

theorem mcEmbField_tab2 (c : Cfg ℂ) (hN : 0 < c.N) (C : ℕ) (f f1 : ℕ → ℕ → ℂ)
    (h : ∀ ch, ch < C → ∀ j, j < gridSize c → f ch j = f1 ch (j % c.N)) :
    MCEmbField c (tab2 C (gridSize c) f) (tab2 C (gridSize (cfg1 c)) f1) := by
  intro ch j hj
  have hr : j % c.N < gridSize (cfg1 c) := by rw [gridSize_cfg1]; exact Nat.mod_lt _ hN
  rw [at2_tab2_any, at2_tab2_any]
  by_cases hc : ch < C
  · rw [if_pos ⟨hc, hj⟩, if_pos ⟨hc, hr⟩, h ch hc j hj]
  · rw [if_neg (fun h' => hc h'.1), if_neg (fun h' => hc h'.1)]

/-! ## mask then c2r; r2c then mask -/

/-- **T4 (mask, then c2r).**  If `a` is `N^{D-1}·a₁` on the last axis, `nifft c a` IS the embedding of
    the 1-D `nifft (cfg1 c) a₁`; any stored arrays. -/
theorem nifft_embed (c : Cfg ℂ) (hD : 0 < c.D) (hN : 0 < c.N) (a a1 : Array ℂ) (h : EmbSpec c a a1) :
    nifft c a = embedAxis c.D c.N (c.D - 1) (nifft (cfg1 c) a1) := by
  have hm := mask_embed c hD hN
  have hmodes := modes_cfg1 c
  obtain ⟨D, N, s, fp, fq⟩ := c
  obtain ⟨E, rfl⟩ : ∃ E, D = E + 1 := ⟨D - 1, by simp only at hD; omega⟩
  unfold nifft
  simp only [Nat.add_sub_cancel]
  apply irfftn_embedLast E N hN
  intro m hm'
  have hm2 : m < modes (⟨E + 1, N, s, fp, fq⟩ : Cfg ℂ) := hm'
  rw [DFT.tab_getD _ _ _ _ hm2, h m hm']
  split_ifs with hlt
  · rw [DFT.tab_getD _ _ _ _ (by rw [hmodes]; exact hlt), hm m hlt]
    simp only [embScale, cfg1, Nat.add_sub_cancel]
    ring
  · rw [mul_zero]

theorem nifft_embField (c : Cfg ℂ) (hD : 0 < c.D) (hN : 0 < c.N) (a a1 : Array ℂ) (h : EmbSpec c a a1) :
    EmbField c (nifft c a) (nifft (cfg1 c) a1) := by
  rw [nifft_embed c hD hN a a1 h]
  intro j hj
  obtain ⟨E, hE⟩ : ∃ E, c.D = E + 1 := ⟨c.D - 1, by omega⟩
  have hj' : j < c.N ^ (E + 1) := by rw [← hE]; exact hj
  rw [hE, Nat.add_sub_cancel, embedLast_getD E c.N _ j hj']

/-- **T4 (r2c, then mask).**  The masked transform of a field that is constant in all directions
    but the last is `N^{D-1}` times the 1-D masked transform, on the last axis; any complex field. -/
theorem nfft_embSpec (c : Cfg ℂ) (hD : 0 < c.D) (hN : 0 < c.N) (v v1 : Array ℂ) (h : EmbField c v v1) :
    EmbSpec c (nfft c v) (nfft (cfg1 c) v1) := by
  have hm := mask_embed c hD hN
  have hmodes := modes_cfg1 c
  intro m hm'
  rw [nfft_getD c v m hm']
  obtain ⟨E, hE⟩ : ∃ E, c.D = E + 1 := ⟨c.D - 1, by omega⟩
  have e : rfftnM c.D c.N v = rfftnM c.D c.N (embedAxis (E + 1) c.N E v1) := by
    apply EquivND.rfftnM_congr
    intro j hj
    rw [h j hj, embedLast_getD E c.N v1 j (by rw [← hE]; exact hj)]
  have hm'' : m < numModes (E + 1) c.N := by rw [← hE]; exact hm'
  rw [e, hE, rfftn_embedLast E c.N hN v1 m hm'']
  split_ifs with hlt
  · rw [nfft_getD (cfg1 c) v1 m (by rw [hmodes]; exact hlt), hm m hlt]
    simp only [embScale, cfg1, hE, Nat.add_sub_cancel]
    ring
  · rw [mul_zero]

/-- the grid sum of a field that is constant in all directions but the last -/
theorem sum_embed (E N : ℕ) (hN : 0 < N) (f : ℕ → ℂ) :
    ∑ j ∈ range (N ^ (E + 1)), f (j % N) = ((N ^ E : ℕ) : ℂ) * ∑ i ∈ range N, f i := by
  rw [pow_succ, sum_range_mul_div_mod (N ^ E) N (fun _ y => f y), Finset.sum_const, Finset.card_range,
    nsmul_eq_mul]

/-- the grid MEAN of an embedded field is the 1-D grid mean -/
theorem mean_embed (c : Cfg ℂ) (hD : 0 < c.D) (hN : 0 < c.N) (f f1 : ℕ → ℂ)
    (h : ∀ j, j < gridSize c → f j = f1 (j % c.N)) :
    sumRange (gridSize c) f / lit (gridSize c)
      = sumRange (gridSize (cfg1 c)) f1 / lit (gridSize (cfg1 c)) := by
  obtain ⟨E, hE⟩ : ∃ E, c.D = E + 1 := ⟨c.D - 1, by omega⟩
  rw [DFT.sumRange_eq, DFT.sumRange_eq, gridSize_cfg1]
  have hG : gridSize c = c.N ^ (E + 1) := by rw [← hE]; rfl
  rw [hG, Finset.sum_congr rfl (fun j hj => h j (by rw [hG]; exact Finset.mem_range.mp hj)),
    sum_embed E c.N hN f1]
  have hNc : (c.N : ℂ) ≠ 0 := by exact_mod_cast hN.ne'
  simp only [lit_eq]
  push_cast
  field_simp
  ring

/-- `nifft` of an array that vanishes on the stored modes is the zero field -/
theorem nifft_zero_getD (c : Cfg ℂ) (hN : 0 < c.N) (z : Array ℂ) (hz : ∀ h, h < modes c → z.getD h 0 = 0)
    (x : ℕ) (hx : x < gridSize c) : (nifft c z).getD x 0 = 0 := by
  unfold nifft
  rw [DFT.irfftnM_getD c.D c.N hN _ x hx, Finset.sum_eq_zero, zero_div]
  intro m hm
  have hm' : m < modes c := Finset.mem_range.mp hm
  rw [DFT.tab_getD _ _ _ _ hm', hz m hm']
  simp

/-! ## the nonlinear terms -/

/-- the physical fields of all channels are embeddings -/
theorem mcEmbField_nifft (c : Cfg ℂ) (hD : 0 < c.D) (hN : 0 < c.N) (C : ℕ) (uh uh1 : MC ℂ)
    (h : MCEmbSpec c uh uh1) :
    MCEmbField c (tabC C fun ch => nifft c (uh.getD ch #[]))
      (tabC C fun ch => nifft (cfg1 c) (uh1.getD ch #[])) :=
  mcEmbField_tabC c C _ _ (fun ch _ => nifft_embField c hD hN _ _ (mcEmbSpec_embSpec h ch))

/-- **T4, convection, `single_channel = True`, conservative** (`½ Σ_d ∂_d u²` on every channel) -/
theorem convection_cons_embed (c : Cfg ℂ) (hD : 0 < c.D) (hN : 0 < c.N) (C : ℕ) (scale : ℂ)
    (uh uh1 : MC ℂ) (h : MCEmbSpec c uh uh1) :
    MCEmbSpec c (convection c C scale true true uh) (convection (cfg1 c) C scale true true uh1) := by
  have hu := mcEmbField_nifft c hD hN C uh uh1 h
  unfold convection
  simp only [↓reduceIte]
  generalize (tabC C fun ch => nifft c (uh.getD ch #[])) = U at hu ⊢
  generalize (tabC C fun ch => nifft (cfg1 c) (uh1.getD ch #[])) = U1 at hu ⊢
  have hsq : MCEmbSpec c
      (tabC C fun ch => nfft c (tab (gridSize c) fun j => at2 U ch j * at2 U ch j))
      (tabC C fun ch => nfft (cfg1 c) (tab (gridSize (cfg1 c)) fun j => at2 U1 ch j * at2 U1 ch j)) :=
    mcEmbSpec_tabC c C _ _ (fun ch _ => nfft_embSpec c hD hN _ _
      (embField_tab c hN _ _ (fun j hj => by rw [hu ch j hj])))
  refine mcEmbSpec_tab2 c C _ _ (fun ch _ m hm => ?_)
  rw [hsq ch m hm]
  split_ifs with hlt
  · rw [sumList_axes_embed c hD (fun d => Nonlin.deriv c d m) (fun d => Nonlin.deriv (cfg1 c) d m)
      (fun d hd => deriv_embed_lead c hN d m hd hlt) (deriv_embed_last c hD hN m hlt)]
    ring
  · ring

/-- **T4, convection, `single_channel = True`, non-conservative** (`u Σ_d ∂_d u`, one channel) -/
theorem convection_noncons_embed (c : Cfg ℂ) (hD : 0 < c.D) (hN : 0 < c.N) (C : ℕ) (scale : ℂ)
    (uh uh1 : MC ℂ) (h : MCEmbSpec c uh uh1) :
    MCEmbSpec c (convection c C scale true false uh) (convection (cfg1 c) C scale true false uh1) := by
  have hu := mcEmbField_nifft c hD hN C uh uh1 h
  unfold convection
  simp only [↓reduceIte, Bool.false_eq_true]
  generalize (tabC C fun ch => nifft c (uh.getD ch #[])) = U at hu ⊢
  generalize (tabC C fun ch => nifft (cfg1 c) (uh1.getD ch #[])) = U1 at hu ⊢
  -- the last-axis derivative field is the embedding of the 1-D derivative field
  have hlast : EmbField c
      (nifft c (tab (modes c) fun m => Nonlin.deriv c (c.D - 1) m * at2 uh 0 m))
      (nifft (cfg1 c) (tab (modes (cfg1 c)) fun m => Nonlin.deriv (cfg1 c) 0 m * at2 uh1 0 m)) :=
    nifft_embField c hD hN _ _ (embSpec_tab c _ _ (fun m hm => by
      rw [h 0 m hm]
      split_ifs with hlt
      · rw [deriv_embed_last c hD hN m hlt]; ring
      · rw [mul_zero]))
  -- the derivative fields of the leading axes vanish
  have hlead : ∀ d, d + 1 < c.D → ∀ j, j < gridSize c →
      (nifft c (tab (modes c) fun m => Nonlin.deriv c d m * at2 uh 0 m)).getD j 0 = 0 := by
    intro d hd j hj
    have hz : EmbField c (nifft c (tab (modes c) fun m => Nonlin.deriv c d m * at2 uh 0 m))
        (nifft (cfg1 c) (tab (modes (cfg1 c)) fun _ => 0)) :=
      nifft_embField c hD hN _ _ (embSpec_tab c _ _ (fun m hm => by
        rw [h 0 m hm]
        split_ifs with hlt
        · rw [deriv_embed_lead c hN d m hd hlt]; ring
        · rw [mul_zero]))
    rw [hz j hj]
    exact nifft_zero_getD (cfg1 c) hN _ (fun m hm => DFT.tab_getD _ _ _ _ hm) _
      (by rw [gridSize_cfg1]; exact Nat.mod_lt _ hN)
  have hconv : EmbSpec c
      (nfft c (tab (gridSize c) fun j => sumList ((List.range c.D).map fun d =>
        at2 U 0 j * at2 (tabC c.D fun d => nifft c (tab (modes c) fun m => Nonlin.deriv c d m * at2 uh 0 m)) d j)))
      (nfft (cfg1 c) (tab (gridSize (cfg1 c)) fun j => sumList ((List.range (cfg1 c).D).map fun d =>
        at2 U1 0 j * at2 (tabC (cfg1 c).D fun d => nifft (cfg1 c)
          (tab (modes (cfg1 c)) fun m => Nonlin.deriv (cfg1 c) d m * at2 uh1 0 m)) d j))) := by
    apply nfft_embSpec c hD hN
    apply embField_tab c hN
    intro j hj
    apply sumList_axes_embed c hD
    · intro d hd
      rw [at2_tabC_any, if_pos (by omega), hlead d hd j hj, mul_zero]
    · rw [at2_tabC_any, if_pos (by omega), at2_tabC_any, if_pos (show 0 < (cfg1 c).D from Nat.one_pos),
        hlast j hj, hu 0 j hj]
  refine mcEmbSpec_tab2 c 1 _ _ (fun ch _ m hm => ?_)
  rw [hconv m hm]
  split_ifs <;> ring

/-- **T4, polynomial nonlinearity**, any coefficient list, any channel count -/
theorem polynomial_embed (c : Cfg ℂ) (hD : 0 < c.D) (hN : 0 < c.N) (C : ℕ) (coeffs : List ℂ)
    (uh uh1 : MC ℂ) (h : MCEmbSpec c uh uh1) :
    MCEmbSpec c (polynomial c C coeffs uh) (polynomial (cfg1 c) C coeffs uh1) := by
  have hu := mcEmbField_nifft c hD hN C uh uh1 h
  unfold polynomial
  simp only []
  exact mcEmbSpec_tabC c C _ _ (fun ch _ => nfft_embSpec c hD hN _ _
    (embField_tab c hN _ _ (fun x hx => by rw [hu _ x hx])))

/-- **T4, gradient norm** (`½ Σ_d (∂_d u)²`), both `zeroFix`, any channel count -/
theorem gradientNorm_embed (c : Cfg ℂ) (hD : 0 < c.D) (hN : 0 < c.N) (C : ℕ) (scale : ℂ) (zeroFix : Bool)
    (uh uh1 : MC ℂ) (h : MCEmbSpec c uh uh1) :
    MCEmbSpec c (gradientNorm c C scale zeroFix uh) (gradientNorm (cfg1 c) C scale zeroFix uh1) := by
  -- gradient fields: last axis
  have hlast : ∀ ch, EmbField c
      (nifft c (tab (modes c) fun m => Nonlin.deriv c (c.D - 1) m * at2 uh ch m))
      (nifft (cfg1 c) (tab (modes (cfg1 c)) fun m => Nonlin.deriv (cfg1 c) 0 m * at2 uh1 ch m)) := fun ch =>
    nifft_embField c hD hN _ _ (embSpec_tab c _ _ (fun m hm => by
      rw [h ch m hm]
      split_ifs with hlt
      · rw [deriv_embed_last c hD hN m hlt]; ring
      · rw [mul_zero]))
  have hlead : ∀ ch d, d + 1 < c.D → ∀ j, j < gridSize c →
      (nifft c (tab (modes c) fun m => Nonlin.deriv c d m * at2 uh ch m)).getD j 0 = 0 := by
    intro ch d hd j hj
    have hz : EmbField c (nifft c (tab (modes c) fun m => Nonlin.deriv c d m * at2 uh ch m))
        (nifft (cfg1 c) (tab (modes (cfg1 c)) fun _ => 0)) :=
      nifft_embField c hD hN _ _ (embSpec_tab c _ _ (fun m hm => by
        rw [h ch m hm]
        split_ifs with hlt
        · rw [deriv_embed_lead c hN d m hd hlt]; ring
        · rw [mul_zero]))
    rw [hz j hj]
    exact nifft_zero_getD (cfg1 c) hN _ (fun m hm => DFT.tab_getD _ _ _ _ hm) _
      (by rw [gridSize_cfg1]; exact Nat.mod_lt _ hN)
  unfold gradientNorm
  simp only []
  have hq : MCEmbField c
      (tab2 C (gridSize c) fun ch x => sumList ((List.range c.D).map fun d =>
        at2 (tabC (C * c.D) fun cd => nifft c (tab (modes c) fun m =>
            Nonlin.deriv c (cd % c.D) m * at2 uh (cd / c.D) m)) (ch * c.D + d) x
          * at2 (tabC (C * c.D) fun cd => nifft c (tab (modes c) fun m =>
            Nonlin.deriv c (cd % c.D) m * at2 uh (cd / c.D) m)) (ch * c.D + d) x))
      (tab2 C (gridSize (cfg1 c)) fun ch x => sumList ((List.range (cfg1 c).D).map fun d =>
        at2 (tabC (C * (cfg1 c).D) fun cd => nifft (cfg1 c) (tab (modes (cfg1 c)) fun m =>
            Nonlin.deriv (cfg1 c) (cd % (cfg1 c).D) m * at2 uh1 (cd / (cfg1 c).D) m)) (ch * (cfg1 c).D + d) x
          * at2 (tabC (C * (cfg1 c).D) fun cd => nifft (cfg1 c) (tab (modes (cfg1 c)) fun m =>
            Nonlin.deriv (cfg1 c) (cd % (cfg1 c).D) m * at2 uh1 (cd / (cfg1 c).D) m)) (ch * (cfg1 c).D + d) x)) := by
    apply mcEmbField_tab2 c hN
    intro ch hch x hx
    have hidx : ∀ d, d < c.D → (ch * c.D + d) % c.D = d ∧ (ch * c.D + d) / c.D = ch ∧ ch * c.D + d < C * c.D := by
      intro d hd
      refine ⟨?_, ?_, ?_⟩
      · rw [Nat.add_comm, Nat.add_mul_mod_self_right, Nat.mod_eq_of_lt hd]
      · rw [Nat.add_comm, Nat.add_mul_div_right _ _ hD, Nat.div_eq_of_lt hd, zero_add]
      · calc ch * c.D + d < ch * c.D + c.D := by omega
          _ = (ch + 1) * c.D := by ring
          _ ≤ C * c.D := Nat.mul_le_mul_right _ hch
    apply sumList_axes_embed c hD
    · intro d hd
      obtain ⟨e1, e2, e3⟩ := hidx d (by omega)
      rw [at2_tabC_any, if_pos e3, e1, e2, hlead ch d hd x hx, mul_zero]
    · obtain ⟨e1, e2, e3⟩ := hidx (c.D - 1) (by omega)
      have hD1 : (cfg1 c).D = 1 := rfl
      rw [at2_tabC_any, if_pos e3, e1, e2, hlast ch x hx, at2_tabC_any,
        if_pos (by rw [hD1]; omega), hD1]
      simp only [Nat.mul_one, Nat.add_zero, Nat.mod_one, Nat.div_one]
  generalize (tab2 C (gridSize c) fun ch x => sumList ((List.range c.D).map fun d =>
        at2 (tabC (C * c.D) fun cd => nifft c (tab (modes c) fun m =>
            Nonlin.deriv c (cd % c.D) m * at2 uh (cd / c.D) m)) (ch * c.D + d) x
          * at2 (tabC (C * c.D) fun cd => nifft c (tab (modes c) fun m =>
            Nonlin.deriv c (cd % c.D) m * at2 uh (cd / c.D) m)) (ch * c.D + d) x)) = Q at hq ⊢
  generalize (tab2 C (gridSize (cfg1 c)) fun ch x => sumList ((List.range (cfg1 c).D).map fun d =>
        at2 (tabC (C * (cfg1 c).D) fun cd => nifft (cfg1 c) (tab (modes (cfg1 c)) fun m =>
            Nonlin.deriv (cfg1 c) (cd % (cfg1 c).D) m * at2 uh1 (cd / (cfg1 c).D) m)) (ch * (cfg1 c).D + d) x
          * at2 (tabC (C * (cfg1 c).D) fun cd => nifft (cfg1 c) (tab (modes (cfg1 c)) fun m =>
            Nonlin.deriv (cfg1 c) (cd % (cfg1 c).D) m * at2 uh1 (cd / (cfg1 c).D) m)) (ch * (cfg1 c).D + d) x)) = Q1
    at hq ⊢
  have hmean : (tab C fun ch => sumRange (gridSize c) (fun x => at2 Q ch x) / lit (gridSize c))
      = tab C fun ch => sumRange (gridSize (cfg1 c)) (fun x => at2 Q1 ch x) / lit (gridSize (cfg1 c)) :=
    Nonlin.tab_congr _ _ _ (fun ch _ => mean_embed c hD hN _ _ (fun x hx => hq ch x hx))
  rw [hmean]
  generalize (tab C fun ch => sumRange (gridSize (cfg1 c)) (fun x => at2 Q1 ch x) / lit (gridSize (cfg1 c))) = MEAN
  have hq' : MCEmbField c
      (tab2 C (gridSize c) fun ch x => if zeroFix = true then at2 Q ch x - MEAN.getD ch 0 else at2 Q ch x)
      (tab2 C (gridSize (cfg1 c)) fun ch x =>
        if zeroFix = true then at2 Q1 ch x - MEAN.getD ch 0 else at2 Q1 ch x) :=
    mcEmbField_tab2 c hN C _ _ (fun ch _ x hx => by rw [hq _ x hx])
  have hqh := mcEmbSpec_tabC c C _ _
    (fun ch _ => nfft_embSpec c hD hN _ _ (mcEmbField_embField hq' ch))
  refine mcEmbSpec_tab2 c C _ _ (fun ch _ m hm => ?_)
  rw [hqh ch m hm]
  split_ifs <;> ring

/-- **T4, `GeneralNonlinearFun`** -/
theorem general_embed (c : Cfg ℂ) (hD : 0 < c.D) (hN : 0 < c.N) (C : ℕ) (s0 s1 s2 : ℂ) (zeroFix : Bool)
    (uh uh1 : MC ℂ) (h : MCEmbSpec c uh uh1) :
    MCEmbSpec c (general c C s0 s1 s2 zeroFix uh) (general (cfg1 c) C s0 s1 s2 zeroFix uh1) := by
  have ha := polynomial_embed c hD hN C [0, 0, s0] uh uh1 h
  have hb := convection_cons_embed c hD hN C (-s1) uh uh1 h
  have hg := gradientNorm_embed c hD hN C (-s2) zeroFix uh uh1 h
  unfold general
  simp only []
  refine mcEmbSpec_tab2 c C _ _ (fun ch _ m hm => ?_)
  rw [ha ch m hm, hb ch m hm, hg ch m hm]
  split_ifs <;> ring

/-! ## non-vacuity -/

example (c : Cfg ℂ) (uh1 : MC ℂ) : ∃ uh : MC ℂ, MCEmbSpec c uh uh1 :=
  ⟨tab2 uh1.size (modes c) (fun ch h => if h < c.N / 2 + 1 then embScale c * at2 uh1 ch h else 0), by
    intro ch h hh
    rw [at2_tab2_any]
    by_cases hc : ch < uh1.size
    · rw [if_pos ⟨hc, hh⟩]
    · rw [if_neg (fun h' => hc h'.1), EquivND.at2_of_size_le uh1 ch h (by omega), mul_zero, ite_self]⟩

example : ∃ c : Cfg ℂ, 0 < c.D ∧ 0 < c.N := ⟨⟨3, 4, 1, 2, 3⟩, by norm_num, by norm_num⟩

end Exponax.AxisPerm
