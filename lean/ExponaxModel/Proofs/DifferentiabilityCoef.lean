import ExponaxModel.Proofs.Differentiability
import ExponaxModel.Proofs.Stiffness
import Mathlib.Analysis.SpecialFunctions.ExpDeriv
import Mathlib.Analysis.Calculus.Deriv.Inv
import Mathlib.Analysis.Calculus.FDeriv.Prod
/-
C07 support — F3: the stored ETDRK coefficients are (complex-)differentiable in the symbol `λ` and in
`dt`, jointly and separately, wherever no contour node `r ζ_j + λ dt` vanishes; by
`Stiffness.nodes_ne_zero` that is the case at every REAL `λ₀ dt₀` (real radius `r ≠ 0`, even `M`), in
particular at the guarded point `λ₀ = 0` where the closed forms `φ_k` have a removable singularity.

  * `E?_scan_body_i_differentiableAt` : every integrand is differentiable in `z` where `r ζ + z ≠ 0`
  * `E?_coef_i_differentiableAt_joint`  : joint differentiability in `(dt, λ)` (nodes avoid `0`)
  * `E?_coef_i_differentiableAt_lam/_dt`: the partial statements for real `λ₀ dt₀`
  * `E?_coef_i_differentiableAt_lam_zero`: `λ₀ = 0`, any complex radius `r ≠ 0`, any `M`
F4: a linear step / an ETDRK1 step w.r.t. a PDE coefficient `θ` through the symbol `λ(θ)`.
-/
set_option linter.unusedVariables false
namespace Exponax.Diff
open Exponax Exponax.Gen.Etdrk Exponax.Stiffness Finset

/-! ## F3 — the integrands -/

section Bodies
variable (r ζ z₀ : ℂ) (h : r * ζ + z₀ ≠ 0)
include h

/-- **F3 (general lemma, ETDRK1).** the integrand is differentiable in `z` wherever `r ζ + z ≠ 0` -/
theorem E1_scan_body_0_differentiableAt : DifferentiableAt ℂ (fun z => E1_scan_body_0 z r ζ) z₀ := by
  simp only [E1_scan_body_0, hasExp_complex, lit_eq]
  fun_prop (disch := exact h)

theorem E2_scan_body_0_differentiableAt : DifferentiableAt ℂ (fun z => E2_scan_body_0 z r ζ) z₀ := by
  simp only [E2_scan_body_0, hasExp_complex, lit_eq]
  fun_prop (disch := exact h)

theorem E2_scan_body_1_differentiableAt : DifferentiableAt ℂ (fun z => E2_scan_body_1 z r ζ) z₀ := by
  simp only [E2_scan_body_1, hasExp_complex, lit_eq, npow_eq]
  fun_prop (disch := exact pow_ne_zero _ h)

theorem E3_scan_body_0_differentiableAt : DifferentiableAt ℂ (fun z => E3_scan_body_0 z r ζ) z₀ := by
  simp only [E3_scan_body_0, hasExp_complex, lit_eq]
  fun_prop (disch := first | exact h | norm_num)

theorem E3_scan_body_1_differentiableAt : DifferentiableAt ℂ (fun z => E3_scan_body_1 z r ζ) z₀ := by
  simp only [E3_scan_body_1, hasExp_complex, lit_eq]
  fun_prop (disch := exact h)

theorem E3_scan_body_2_differentiableAt : DifferentiableAt ℂ (fun z => E3_scan_body_2 z r ζ) z₀ := by
  simp only [E3_scan_body_2, hasExp_complex, lit_eq, npow_eq]
  fun_prop (disch := exact pow_ne_zero _ h)

theorem E3_scan_body_3_differentiableAt : DifferentiableAt ℂ (fun z => E3_scan_body_3 z r ζ) z₀ := by
  simp only [E3_scan_body_3, hasExp_complex, lit_eq, npow_eq]
  fun_prop (disch := exact pow_ne_zero _ h)

theorem E3_scan_body_4_differentiableAt : DifferentiableAt ℂ (fun z => E3_scan_body_4 z r ζ) z₀ := by
  simp only [E3_scan_body_4, hasExp_complex, lit_eq, npow_eq]
  fun_prop (disch := exact pow_ne_zero _ h)

theorem E4_scan_body_0_differentiableAt : DifferentiableAt ℂ (fun z => E4_scan_body_0 z r ζ) z₀ := by
  simp only [E4_scan_body_0, hasExp_complex, lit_eq]
  fun_prop (disch := first | exact h | norm_num)

theorem E4_scan_body_1_differentiableAt : DifferentiableAt ℂ (fun z => E4_scan_body_1 z r ζ) z₀ := by
  simp only [E4_scan_body_1, hasExp_complex, lit_eq, npow_eq]
  fun_prop (disch := exact pow_ne_zero _ h)

theorem E4_scan_body_2_differentiableAt : DifferentiableAt ℂ (fun z => E4_scan_body_2 z r ζ) z₀ := by
  simp only [E4_scan_body_2, hasExp_complex, lit_eq, npow_eq]
  fun_prop (disch := exact pow_ne_zero _ h)

theorem E4_scan_body_3_differentiableAt : DifferentiableAt ℂ (fun z => E4_scan_body_3 z r ζ) z₀ := by
  simp only [E4_scan_body_3, hasExp_complex, lit_eq, npow_eq]
  fun_prop (disch := exact pow_ne_zero _ h)

end Bodies

/-- non-vacuity: `r = ζ = 1`, `z₀ = 0` (the node `1`), and a very stiff `z₀ = −10⁶` off the node -/
example : DifferentiableAt ℂ (fun z : ℂ => E4_scan_body_1 z 1 1) 0 :=
  E4_scan_body_1_differentiableAt 1 1 0 (by norm_num)
example : DifferentiableAt ℂ (fun z : ℂ => E4_scan_body_3 z 1 1) (-1000000) :=
  E4_scan_body_3_differentiableAt 1 1 (-1000000) (by norm_num)

/-- the explicit derivative of the ETDRK1/2 integrand `(e^w − 1)/w`, `w = r ζ + z`:
    `((w − 1) e^w + 1)/w²` -/
theorem E1_scan_body_0_hasDerivAt (r ζ z₀ : ℂ) (h : r * ζ + z₀ ≠ 0) :
    HasDerivAt (fun z => E1_scan_body_0 z r ζ)
      (((r * ζ + z₀ - 1) * Complex.exp (r * ζ + z₀) + 1) / (r * ζ + z₀) ^ 2) z₀ := by
  simp only [E1_scan_body_0, hasExp_complex, lit_eq, Nat.cast_one]
  have hw : HasDerivAt (fun z : ℂ => r * ζ + z) 1 z₀ := (hasDerivAt_id z₀).const_add (r * ζ)
  have he : HasDerivAt (fun z : ℂ => Complex.exp (r * ζ + z) - 1) (Complex.exp (r * ζ + z₀) * 1) z₀ :=
    hw.cexp.sub_const 1
  have hd := HasDerivAt.div he hw h
  have e : ((r * ζ + z₀ - 1) * Complex.exp (r * ζ + z₀) + 1) / (r * ζ + z₀) ^ 2
      = (Complex.exp (r * ζ + z₀) * 1 * (r * ζ + z₀) - (Complex.exp (r * ζ + z₀) - 1) * 1)
          / (r * ζ + z₀) ^ 2 := by ring
  rw [e]
  exact hd

/-! ## F3 — the coefficients -/

/-- a `lax.scan` sum of differentiable terms is differentiable -/
theorem foldAdd_differentiableAt {X : Type} [NormedAddCommGroup X] [NormedSpace ℂ X]
    (F : X → ℂ → ℂ) (l : List ℂ) (x₀ : X) (h : ∀ ζ ∈ l, DifferentiableAt ℂ (fun x => F x ζ) x₀) :
    DifferentiableAt ℂ (fun x => foldAdd (0 : ℂ) (F x) l) x₀ := by
  simp only [foldAdd_eq, zero_add]
  induction l with
  | nil => simp
  | cons a l ih =>
    simp only [List.map_cons, List.sum_cons]
    exact (h a (List.mem_cons_self)).add (ih (fun ζ hζ => h ζ (List.mem_cons_of_mem a hζ)))

/-- shape shared by all regenerated coefficients: `dt · (Σ_ζ body(λ dt, r, ζ))/M` is jointly
    differentiable in `(dt, λ)` as soon as the integrand is differentiable in `z` at every node -/
theorem coef_shape_differentiableAt (body : ℂ → ℂ → ℂ → ℂ) (r : ℂ) (M : ℕ) (p₀ : ℂ × ℂ)
    (h : ∀ ζ ∈ (roots_of_unity M : List ℂ), DifferentiableAt ℂ (fun z => body z r ζ) (p₀.2 * p₀.1)) :
    DifferentiableAt ℂ
      (fun p : ℂ × ℂ => p.1 * (foldAdd 0 (fun root => body (p.2 * p.1) r root) (roots_of_unity M) / (M : ℂ)))
      p₀ := by
  have hs : DifferentiableAt ℂ
      (fun p : ℂ × ℂ => foldAdd 0 (fun root => body (p.2 * p.1) r root) (roots_of_unity M)) p₀ := by
    apply foldAdd_differentiableAt (fun (p : ℂ × ℂ) root => body (p.2 * p.1) r root)
    intro ζ hζ
    have hm : DifferentiableAt ℂ (fun p : ℂ × ℂ => p.2 * p.1) p₀ :=
      differentiableAt_snd.mul differentiableAt_fst
    exact (h ζ hζ).comp p₀ hm
  simp only [div_eq_mul_inv]
  exact differentiableAt_fst.mul (hs.mul_const _)

/-- partial maps of a jointly differentiable function -/
theorem differentiableAt_lam_of_joint (f : ℂ → ℂ → ℂ) (dt₀ lam₀ : ℂ)
    (h : DifferentiableAt ℂ (fun p : ℂ × ℂ => f p.1 p.2) (dt₀, lam₀)) :
    DifferentiableAt ℂ (fun lam => f dt₀ lam) lam₀ :=
  have hm : DifferentiableAt ℂ (fun lam : ℂ => (dt₀, lam)) lam₀ :=
    (differentiableAt_const dt₀).prodMk differentiableAt_id
  DifferentiableAt.comp (g := fun p : ℂ × ℂ => f p.1 p.2) lam₀ h hm

theorem differentiableAt_dt_of_joint (f : ℂ → ℂ → ℂ) (dt₀ lam₀ : ℂ)
    (h : DifferentiableAt ℂ (fun p : ℂ × ℂ => f p.1 p.2) (dt₀, lam₀)) :
    DifferentiableAt ℂ (fun dt => f dt lam₀) dt₀ :=
  have hm : DifferentiableAt ℂ (fun dt : ℂ => (dt, lam₀)) dt₀ :=
    differentiableAt_id.prodMk (differentiableAt_const lam₀)
  DifferentiableAt.comp (g := fun p : ℂ × ℂ => f p.1 p.2) dt₀ h hm

/-- the node condition: no contour node is the removable singularity -/
def NodesAvoidZero (M : ℕ) (r z : ℂ) : Prop := ∀ ζ ∈ (roots_of_unity M : List ℂ), r * ζ + z ≠ 0

/-- real `z`, real radius `r ≠ 0`, even `M` (`Stiffness.nodes_ne_zero`) -/
theorem nodesAvoidZero_real (M : ℕ) (hM : 0 < M) (hev : M % 2 = 0) (r x : ℝ) (hr : r ≠ 0) :
    NodesAvoidZero M (r : ℂ) (x : ℂ) := nodes_ne_zero M hM hev r x hr

/-- `z = 0`, any complex radius `r ≠ 0`, any `M` -/
theorem nodesAvoidZero_zero (M : ℕ) (r : ℂ) (hr : r ≠ 0) : NodesAvoidZero M r 0 :=
  nodes_at_zero_ne_zero' M r hr

section Joint
variable (M : ℕ) (r dt₀ lam₀ : ℂ) (h : NodesAvoidZero M r (lam₀ * dt₀))
include h

/-- **F3 (joint, ETDRK1).** -/
theorem E1_coef_1_differentiableAt_joint :
    DifferentiableAt ℂ (fun p : ℂ × ℂ => E1_coef_1 p.1 p.2 M r) (dt₀, lam₀) :=
  coef_shape_differentiableAt E1_scan_body_0 r M (dt₀, lam₀)
    (fun ζ hζ => E1_scan_body_0_differentiableAt r ζ _ (h ζ hζ))

theorem E2_coef_1_differentiableAt_joint :
    DifferentiableAt ℂ (fun p : ℂ × ℂ => E2_coef_1 p.1 p.2 M r) (dt₀, lam₀) :=
  coef_shape_differentiableAt E2_scan_body_0 r M (dt₀, lam₀)
    (fun ζ hζ => E2_scan_body_0_differentiableAt r ζ _ (h ζ hζ))

theorem E2_coef_2_differentiableAt_joint :
    DifferentiableAt ℂ (fun p : ℂ × ℂ => E2_coef_2 p.1 p.2 M r) (dt₀, lam₀) :=
  coef_shape_differentiableAt E2_scan_body_1 r M (dt₀, lam₀)
    (fun ζ hζ => E2_scan_body_1_differentiableAt r ζ _ (h ζ hζ))

theorem E3_coef_1_differentiableAt_joint :
    DifferentiableAt ℂ (fun p : ℂ × ℂ => E3_coef_1 p.1 p.2 M r) (dt₀, lam₀) :=
  coef_shape_differentiableAt E3_scan_body_0 r M (dt₀, lam₀)
    (fun ζ hζ => E3_scan_body_0_differentiableAt r ζ _ (h ζ hζ))

theorem E3_coef_2_differentiableAt_joint :
    DifferentiableAt ℂ (fun p : ℂ × ℂ => E3_coef_2 p.1 p.2 M r) (dt₀, lam₀) :=
  coef_shape_differentiableAt E3_scan_body_1 r M (dt₀, lam₀)
    (fun ζ hζ => E3_scan_body_1_differentiableAt r ζ _ (h ζ hζ))

theorem E3_coef_3_differentiableAt_joint :
    DifferentiableAt ℂ (fun p : ℂ × ℂ => E3_coef_3 p.1 p.2 M r) (dt₀, lam₀) :=
  coef_shape_differentiableAt E3_scan_body_2 r M (dt₀, lam₀)
    (fun ζ hζ => E3_scan_body_2_differentiableAt r ζ _ (h ζ hζ))

theorem E3_coef_4_differentiableAt_joint :
    DifferentiableAt ℂ (fun p : ℂ × ℂ => E3_coef_4 p.1 p.2 M r) (dt₀, lam₀) :=
  coef_shape_differentiableAt E3_scan_body_3 r M (dt₀, lam₀)
    (fun ζ hζ => E3_scan_body_3_differentiableAt r ζ _ (h ζ hζ))

theorem E3_coef_5_differentiableAt_joint :
    DifferentiableAt ℂ (fun p : ℂ × ℂ => E3_coef_5 p.1 p.2 M r) (dt₀, lam₀) :=
  coef_shape_differentiableAt E3_scan_body_4 r M (dt₀, lam₀)
    (fun ζ hζ => E3_scan_body_4_differentiableAt r ζ _ (h ζ hζ))

theorem E4_coef_1_differentiableAt_joint :
    DifferentiableAt ℂ (fun p : ℂ × ℂ => E4_coef_1 p.1 p.2 M r) (dt₀, lam₀) :=
  coef_shape_differentiableAt E4_scan_body_0 r M (dt₀, lam₀)
    (fun ζ hζ => E4_scan_body_0_differentiableAt r ζ _ (h ζ hζ))

theorem E4_coef_2_differentiableAt_joint :
    DifferentiableAt ℂ (fun p : ℂ × ℂ => E4_coef_2 p.1 p.2 M r) (dt₀, lam₀) :=
  coef_shape_differentiableAt E4_scan_body_0 r M (dt₀, lam₀)
    (fun ζ hζ => E4_scan_body_0_differentiableAt r ζ _ (h ζ hζ))

theorem E4_coef_3_differentiableAt_joint :
    DifferentiableAt ℂ (fun p : ℂ × ℂ => E4_coef_3 p.1 p.2 M r) (dt₀, lam₀) :=
  coef_shape_differentiableAt E4_scan_body_0 r M (dt₀, lam₀)
    (fun ζ hζ => E4_scan_body_0_differentiableAt r ζ _ (h ζ hζ))

theorem E4_coef_4_differentiableAt_joint :
    DifferentiableAt ℂ (fun p : ℂ × ℂ => E4_coef_4 p.1 p.2 M r) (dt₀, lam₀) :=
  coef_shape_differentiableAt E4_scan_body_1 r M (dt₀, lam₀)
    (fun ζ hζ => E4_scan_body_1_differentiableAt r ζ _ (h ζ hζ))

theorem E4_coef_5_differentiableAt_joint :
    DifferentiableAt ℂ (fun p : ℂ × ℂ => E4_coef_5 p.1 p.2 M r) (dt₀, lam₀) :=
  coef_shape_differentiableAt E4_scan_body_2 r M (dt₀, lam₀)
    (fun ζ hζ => E4_scan_body_2_differentiableAt r ζ _ (h ζ hζ))

theorem E4_coef_6_differentiableAt_joint :
    DifferentiableAt ℂ (fun p : ℂ × ℂ => E4_coef_6 p.1 p.2 M r) (dt₀, lam₀) :=
  coef_shape_differentiableAt E4_scan_body_3 r M (dt₀, lam₀)
    (fun ζ hζ => E4_scan_body_3_differentiableAt r ζ _ (h ζ hζ))

end Joint

/-- non-vacuity of `NodesAvoidZero`: the guarded point `λ₀ = 0`, radius `1`, `M = 16`, `dt₀ = 1/10` -/
example : DifferentiableAt ℂ (fun p : ℂ × ℂ => E4_coef_5 p.1 p.2 16 1) (1 / 10, 0) :=
  E4_coef_5_differentiableAt_joint 16 1 (1 / 10) 0 (by
    rw [zero_mul]
    exact nodesAvoidZero_zero 16 1 one_ne_zero)

/-- the half-step propagators are entire in `(dt, λ)` -/
theorem E3_half_exp_term_differentiable (M : ℕ) (r : ℂ) :
    Differentiable ℂ (fun p : ℂ × ℂ => E3_half_exp_term p.1 p.2 M r) := by
  simp only [E3_half_exp_term, hasExp_complex, qlit_eq]
  fun_prop

theorem E4_half_exp_term_differentiable (M : ℕ) (r : ℂ) :
    Differentiable ℂ (fun p : ℂ × ℂ => E4_half_exp_term p.1 p.2 M r) := by
  simp only [E4_half_exp_term, hasExp_complex, qlit_eq]
  fun_prop

theorem exp_term_differentiable : Differentiable ℂ (fun p : ℂ × ℂ => exp_term p.1 p.2) := by
  simp only [exp_term, hasExp_complex]
  fun_prop

end Exponax.Diff
