import Mathlib.Analysis.SpecialFunctions.Pow.Real
import Mathlib.Analysis.SpecialFunctions.Sqrt
import Mathlib.Tactic
import ExponaxModel.Proofs.RealInstances
import ExponaxModel.Proofs.LayoutLemmas
import ExponaxModel.Proofs.DFTnD
import ExponaxModel.Model.Metrics
/-
"Error metrics are consistent quadratures of the documented norms": theorems about
`Metrics.spatialAggregator`, `Metrics.fourierAggregator`, `Metrics.combine`,
`Metrics.correlationChannel` interpreted at `R := ℝ`.
-/
set_option linter.unusedVariables false
namespace Exponax.Metrics
open Exponax Exponax.Layout Exponax.Transform Finset

/-! ### literals of the model at `ℝ` -/

theorem lit_two_real : (lit 2 : ℝ) = 2 := by simp
theorem qlit_half_real : (qlit 1 2 : ℝ) = 1 / 2 := by simp

/-! ### M1 — closed form and non-negativity -/

/-- the inner sum `Σ_j |u_j|^p` of the spatial aggregator -/
noncomputable def absPowSum (p : ℝ) (u : Array ℝ) : ℝ := (u.toList.map (fun x => |x| ^ p)).sum

theorem absPowSum_eq_sum_range (p : ℝ) (u : Array ℝ) :
    absPowSum p u = ∑ j ∈ range u.size, |u.getD j 0| ^ p :=
  array_map_sum_eq_sum_range u 0 (fun x => |x| ^ p)

theorem absPowSum_nonneg (p : ℝ) (u : Array ℝ) : 0 ≤ absPowSum p u := by
  rw [absPowSum_eq_sum_range]
  exact Finset.sum_nonneg (fun j _ => Real.rpow_nonneg (abs_nonneg _) _)

/-- M1 (list form): `spatialAggregator = ((L/N)^D · Σ_j |u_j|^p)^q` with `Real.rpow` -/
theorem spatialAggregator_eq (D N : ℕ) (L p q : ℝ) (u : Array ℝ) :
    spatialAggregator D N L p q u
      = ((L / (N : ℝ)) ^ D * (u.toList.map (fun x => |x| ^ p)).sum) ^ q := by
  unfold spatialAggregator
  rw [sumList_eq]
  simp only [hasRpow_real, hasAbs_real, npow_eq, lit_eq]

/-- M1 (Finset form) -/
theorem spatialAggregator_eq_sum (D N : ℕ) (L p q : ℝ) (u : Array ℝ) :
    spatialAggregator D N L p q u
      = ((L / (N : ℝ)) ^ D * ∑ j ∈ range u.size, |u.getD j 0| ^ p) ^ q := by
  rw [spatialAggregator_eq, ← absPowSum_eq_sum_range, absPowSum]

theorem spatialAggregator_eq_absPowSum (D N : ℕ) (L p q : ℝ) (u : Array ℝ) :
    spatialAggregator D N L p q u = ((L / (N : ℝ)) ^ D * absPowSum p u) ^ q :=
  spatialAggregator_eq D N L p q u

theorem cell_nonneg (D N : ℕ) (L : ℝ) (hL : 0 ≤ L) : 0 ≤ (L / (N : ℝ)) ^ D :=
  pow_nonneg (div_nonneg hL (Nat.cast_nonneg N)) D

theorem cell_pos (D N : ℕ) (L : ℝ) (hL : 0 < L) (hN : 0 < N) : 0 < (L / (N : ℝ)) ^ D :=
  pow_pos (div_pos hL (Nat.cast_pos.mpr hN)) D

/-- M1: the aggregate is non-negative (for `L ≥ 0`) -/
theorem spatialAggregator_nonneg (D N : ℕ) (L p q : ℝ) (hL : 0 ≤ L) (u : Array ℝ) :
    0 ≤ spatialAggregator D N L p q u := by
  rw [spatialAggregator_eq_absPowSum]
  exact Real.rpow_nonneg (mul_nonneg (cell_nonneg D N L hL) (absPowSum_nonneg p u)) q

/-! ### M2 — scaling of the domain extent `L` -/

/-- M2: `L ↦ a·L` multiplies the aggregate by `(a^D)^q` -/
theorem spatialAggregator_scale_L (D N : ℕ) (a L p q : ℝ) (ha : 0 < a) (hL : 0 ≤ L) (u : Array ℝ) :
    spatialAggregator D N (a * L) p q u = (a ^ D) ^ q * spatialAggregator D N L p q u := by
  rw [spatialAggregator_eq_absPowSum, spatialAggregator_eq_absPowSum, mul_div_assoc, mul_pow, mul_assoc,
    Real.mul_rpow (pow_nonneg ha.le D) (mul_nonneg (cell_nonneg D N L hL) (absPowSum_nonneg p u))]

/-- M2, `q = 1` (`mean_abs`/`squared` aggregates): factor `a^D` -/
theorem spatialAggregator_scale_L_one (D N : ℕ) (a L p : ℝ) (ha : 0 < a) (hL : 0 ≤ L) (u : Array ℝ) :
    spatialAggregator D N (a * L) p 1 u = a ^ D * spatialAggregator D N L p 1 u := by
  rw [spatialAggregator_scale_L D N a L p 1 ha hL, Real.rpow_one]

/-- M2, `q = 1/2` (norms): factor `a^(D/2)` -/
theorem spatialAggregator_scale_L_half (D N : ℕ) (a L p : ℝ) (ha : 0 < a) (hL : 0 ≤ L) (u : Array ℝ) :
    spatialAggregator D N (a * L) p (1 / 2) u
      = a ^ ((D : ℝ) / 2) * spatialAggregator D N L p (1 / 2) u := by
  rw [spatialAggregator_scale_L D N a L p (1 / 2) ha hL, ← Real.rpow_natCast, ← Real.rpow_mul ha.le]
  congr 2
  ring

/-! ### M3 — zero / positivity -/

theorem absPowSum_eq_zero_iff (p : ℝ) (hp : 0 < p) (u : Array ℝ) :
    absPowSum p u = 0 ↔ ∀ x ∈ u.toList, x = 0 := by
  unfold absPowSum
  induction u.toList with
  | nil => simp
  | cons a l ih =>
    rw [List.map_cons, List.sum_cons]
    have h1 : 0 ≤ |a| ^ p := Real.rpow_nonneg (abs_nonneg _) _
    have h2 : 0 ≤ (l.map (fun x => |x| ^ p)).sum :=
      List.sum_nonneg (by
        intro y hy
        obtain ⟨x, _, rfl⟩ := List.mem_map.1 hy
        exact Real.rpow_nonneg (abs_nonneg _) _)
    rw [add_eq_zero_iff_of_nonneg h1 h2, ih, Real.rpow_eq_zero (abs_nonneg _) hp.ne', abs_eq_zero]
    simp

/-- M3: the aggregate vanishes iff every entry vanishes -/
theorem spatialAggregator_eq_zero_iff (D N : ℕ) (L p q : ℝ) (hp : 0 < p) (hq : 0 < q) (hL : 0 < L)
    (hN : 0 < N) (u : Array ℝ) :
    spatialAggregator D N L p q u = 0 ↔ ∀ x ∈ u.toList, x = 0 := by
  rw [spatialAggregator_eq_absPowSum,
    Real.rpow_eq_zero (mul_nonneg (cell_pos D N L hL hN).le (absPowSum_nonneg p u)) hq.ne',
    mul_eq_zero, absPowSum_eq_zero_iff p hp]
  have := (cell_pos D N L hL hN).ne'
  tauto

/-- M3: otherwise it is strictly positive -/
theorem spatialAggregator_pos (D N : ℕ) (L p q : ℝ) (hp : 0 < p) (hq : 0 < q) (hL : 0 < L)
    (hN : 0 < N) (u : Array ℝ) (hu : ∃ x ∈ u.toList, x ≠ 0) :
    0 < spatialAggregator D N L p q u := by
  rcases (spatialAggregator_nonneg D N L p q hL.le u).lt_or_eq with h | h
  · exact h
  · exfalso
    obtain ⟨x, hx, hne⟩ := hu
    exact hne ((spatialAggregator_eq_zero_iff D N L p q hp hq hL hN u).1 h.symm x hx)

/-! ### M4 — homogeneity -/

theorem absPowSum_smul (a p : ℝ) (u : Array ℝ) :
    absPowSum p (u.map (fun x => a * x)) = |a| ^ p * absPowSum p u := by
  unfold absPowSum
  rw [Array.toList_map, List.map_map, ← List.sum_map_mul_left]
  congr 1
  apply List.map_congr_left
  intro x _
  simp only [Function.comp, abs_mul]
  exact Real.mul_rpow (abs_nonneg _) (abs_nonneg _)

/-- M4: `u ↦ a·u` multiplies the aggregate by `|a|^(p·q)` -/
theorem spatialAggregator_smul (D N : ℕ) (L p q a : ℝ) (hL : 0 ≤ L) (u : Array ℝ) :
    spatialAggregator D N L p q (u.map (fun x => a * x)) = |a| ^ (p * q) * spatialAggregator D N L p q u := by
  rw [spatialAggregator_eq_absPowSum, spatialAggregator_eq_absPowSum, absPowSum_smul, mul_left_comm,
    Real.mul_rpow (Real.rpow_nonneg (abs_nonneg _) _)
      (mul_nonneg (cell_nonneg D N L hL) (absPowSum_nonneg p u)),
    Real.rpow_mul (abs_nonneg _)]

/-- M4, `(p, q) = (1, 1)` (mean absolute): degree 1 -/
theorem spatialAggregator_smul_one_one (D N : ℕ) (L a : ℝ) (hL : 0 ≤ L) (u : Array ℝ) :
    spatialAggregator D N L 1 1 (u.map (fun x => a * x)) = |a| * spatialAggregator D N L 1 1 u := by
  rw [spatialAggregator_smul D N L 1 1 a hL]; norm_num

/-- M4, `(p, q) = (2, 1/2)` (`L²` norm): degree 1 -/
theorem spatialAggregator_smul_two_half (D N : ℕ) (L a : ℝ) (hL : 0 ≤ L) (u : Array ℝ) :
    spatialAggregator D N L 2 (1 / 2) (u.map (fun x => a * x))
      = |a| * spatialAggregator D N L 2 (1 / 2) u := by
  rw [spatialAggregator_smul D N L 2 (1 / 2) a hL]; norm_num

/-- M4, `(p, q) = (2, 1)` (mean square): degree 2 -/
theorem spatialAggregator_smul_two_one (D N : ℕ) (L a : ℝ) (hL : 0 ≤ L) (u : Array ℝ) :
    spatialAggregator D N L 2 1 (u.map (fun x => a * x)) = a ^ 2 * spatialAggregator D N L 2 1 u := by
  rw [spatialAggregator_smul D N L 2 1 a hL]
  norm_num

/-! ### M5 — symmetry of the error aggregate -/

/-- M5: the aggregate of `u − r` equals that of `r − u` -/
theorem spatialAggregator_sub_comm (D N : ℕ) (L p q : ℝ) (u r : Array ℝ) :
    spatialAggregator D N L p q (Array.zipWith (fun x y => x - y) u r)
      = spatialAggregator D N L p q (Array.zipWith (fun x y => x - y) r u) := by
  rw [spatialAggregator_eq, spatialAggregator_eq]
  congr 3
  rw [Array.toList_zipWith, Array.toList_zipWith, List.map_zipWith, List.map_zipWith,
    List.zipWith_comm]
  congr 1
  funext x y
  rw [abs_sub_comm]

/-- M5 on index-wise differences (`tab`) -/
theorem spatialAggregator_sub_comm_tab (D N n : ℕ) (L p q : ℝ) (u r : Array ℝ) :
    spatialAggregator D N L p q (tab n (fun j => u.getD j 0 - r.getD j 0))
      = spatialAggregator D N L p q (tab n (fun j => r.getD j 0 - u.getD j 0)) := by
  rw [spatialAggregator_eq, spatialAggregator_eq]
  congr 3
  simp only [tab, Array.toList_map, List.map_map]
  apply List.map_congr_left
  intro j _
  simp only [Function.comp, abs_sub_comm]

/-! ### M6 — channel combination -/

theorem combine_eq_sum (mode : ℕ) (dn rn sn : List ℝ) :
    combine mode dn rn sn = ∑ c ∈ range dn.length,
      (if mode = 1 then dn.getD c 0 / rn.getD c 0
       else if mode = 2 then 2 * dn.getD c 0 / (sn.getD c 0 + rn.getD c 0)
       else dn.getD c 0) := by
  unfold combine
  rw [sumList_eq, DFT.list_range_map_sum]
  rfl

/-- M6: absolute mode = channel additivity -/
theorem combine_zero (dn rn sn : List ℝ) : combine 0 dn rn sn = dn.sum := by
  rw [combine_eq_sum, list_sum_eq_sum_range dn 0]
  simp

/-- M6: normalized mode `Σ_c dn_c / rn_c` -/
theorem combine_one (dn rn sn : List ℝ) :
    combine 1 dn rn sn = ∑ c ∈ range dn.length, dn.getD c 0 / rn.getD c 0 := by
  rw [combine_eq_sum]; simp

/-- M6: symmetric mode `Σ_c 2 dn_c / (sn_c + rn_c)` -/
theorem combine_two (dn rn sn : List ℝ) :
    combine 2 dn rn sn = ∑ c ∈ range dn.length, 2 * dn.getD c 0 / (sn.getD c 0 + rn.getD c 0) := by
  rw [combine_eq_sum]; simp

theorem getD_map_mul (t : ℝ) (l : List ℝ) (c : ℕ) :
    (l.map (fun x => t * x)).getD c 0 = t * l.getD c 0 := by
  simp only [List.getD_eq_getElem?_getD, List.getElem?_map]
  cases l[c]? <;> simp

/-- M6: the normalized combination is scale free -/
theorem combine_one_scale_free (t : ℝ) (ht : t ≠ 0) (dn rn sn : List ℝ) :
    combine 1 (dn.map (fun x => t * x)) (rn.map (fun x => t * x)) (sn.map (fun x => t * x))
      = combine 1 dn rn sn := by
  rw [combine_one, combine_one, List.length_map]
  apply Finset.sum_congr rfl
  intro c _
  rw [getD_map_mul, getD_map_mul, mul_div_mul_left _ _ ht]

/-- M6: the symmetric combination is scale free -/
theorem combine_two_scale_free (t : ℝ) (ht : t ≠ 0) (dn rn sn : List ℝ) :
    combine 2 (dn.map (fun x => t * x)) (rn.map (fun x => t * x)) (sn.map (fun x => t * x))
      = combine 2 dn rn sn := by
  rw [combine_two, combine_two, List.length_map]
  apply Finset.sum_congr rfl
  intro c _
  rw [getD_map_mul, getD_map_mul, getD_map_mul, ← mul_add, mul_left_comm, mul_div_mul_left _ _ ht]

/-- M6: the symmetric combination is symmetric in state and reference aggregates -/
theorem combine_two_symm (dn rn sn : List ℝ) : combine 2 dn rn sn = combine 2 dn sn rn := by
  rw [combine_two, combine_two]
  apply Finset.sum_congr rfl
  intro c _
  rw [add_comm]

/-! ### closed forms of `fourierAggregator` -/

/-- the floored, band-masked magnitude of stored mode `h` (the array `kept` of `fourierAggregator`) -/
noncomputable def keptVal (D N : ℕ) (band : Option (ℕ × ℕ)) (floor : ℝ) (mag : Array ℝ) (h : ℕ) : ℝ :=
  match band with
  | none => if mag.getD h 0 < floor then 0 else mag.getD h 0
  | some (lo, hi) =>
    if bandMask (wnFlat D N h) lo hi = true then (if mag.getD h 0 < floor then 0 else mag.getD h 0) else 0

/-- the reconstruction-scaling weight of stored mode `h` -/
noncomputable def reconScale (D N h : ℕ) : ℝ := scaling D N 1 (unflatten (wavenumberShape D N) h)

/-- the derivative factor `(s·|k_d|)^m` of `fourierAggregator` (0 at `k_d = 0`) -/
noncomputable def derivFactor (D N : ℕ) (s m : ℝ) (d h : ℕ) : ℝ :=
  if (wnFlat D N h).getD d 0 = 0 then 0 else |s * (((wnFlat D N h).getD d 0 : ℤ) : ℝ)| ^ m

/-- `fourierAggregator` without derivative: `((L/N)^D Σ_h kept_h^p / scaling_h)^q` -/
theorem fourierAggregator_none (D N : ℕ) (L s p q : ℝ) (band : Option (ℕ × ℕ)) (floor : ℝ)
    (mag : Array ℝ) :
    fourierAggregator D N L s p q band none floor mag
      = ((L / (N : ℝ)) ^ D * ∑ h ∈ range (numModes D N),
          keptVal D N band floor mag h ^ p / reconScale D N h) ^ q := by
  simp only [fourierAggregator, DFT.sumRange_eq, hasRpow_real, npow_eq, lit_eq, hasLtB_real]
  congr 2
  apply Finset.sum_congr rfl
  intro h hh
  rw [DFT.tab_getD _ _ _ _ (Finset.mem_range.mp hh)]
  unfold keptVal reconScale
  rcases band with _ | ⟨lo, hi⟩ <;> simp

/-- `fourierAggregator` with derivative order `m`: one term per axis -/
theorem fourierAggregator_some (D N : ℕ) (L s p q : ℝ) (band : Option (ℕ × ℕ)) (m floor : ℝ)
    (mag : Array ℝ) :
    fourierAggregator D N L s p q band (some m) floor mag
      = ∑ d ∈ range D, ((L / (N : ℝ)) ^ D * ∑ h ∈ range (numModes D N),
          (keptVal D N band floor mag h * derivFactor D N s m d h) ^ p / reconScale D N h) ^ q := by
  simp only [fourierAggregator, DFT.sumRange_eq, hasRpow_real, npow_eq, lit_eq, hasLtB_real, sumList_eq,
    DFT.list_range_map_sum, hasAbs_real]
  apply Finset.sum_congr rfl
  intro d _
  congr 2
  apply Finset.sum_congr rfl
  intro h hh
  rw [DFT.tab_getD _ _ _ _ (Finset.mem_range.mp hh)]
  unfold keptVal reconScale derivFactor
  rcases band with _ | ⟨lo, hi⟩ <;> simp

/-! ### M7 — Parseval: the reconstruction-scaling weights are the Parseval weights -/

theorem unflatten_last_lt (D N h : ℕ) (hD : 1 ≤ D) (hN : 0 < N) (hh : h < numModes D N) :
    (unflatten (wavenumberShape D N) h).getD (D - 1) 0 < N / 2 + 1 := by
  have := unflatten_getD_lt (wavenumberShape D N) (wavenumberShape_pos D N hN) h hh (D - 1)
    (by rw [wavenumberShape_length D N hD]; omega)
  rw [wavenumberShape_getD D N (D - 1) (by omega), if_pos (by omega)] at this
  exact this

/-- M7 (weights): `1 / reconstruction-scaling = herm_weight / N^D` -/
theorem one_div_reconScale (D N h : ℕ) (hD : 1 ≤ D) (hN : 0 < N) (hh : h < numModes D N) :
    1 / reconScale D N h = (herm_weight D N h : ℝ) / (N : ℝ) ^ D := by
  unfold reconScale
  rw [scaling_mode_one D N hD]
  have hlt := unflatten_last_lt D N h hD hN hh
  have hsp := isSpecial_wn D N (unflatten (wavenumberShape D N) h) (D - 1)
    (by rw [if_pos (by omega)]; exact hlt)
  have hb : (D - 1 + 1 == D) = true := by simp; omega
  rw [hb] at hsp
  have hNne : ((N : ℝ)) ^ D ≠ 0 := pow_ne_zero _ (Nat.cast_ne_zero.mpr hN.ne')
  unfold herm_weight
  by_cases hc : (unflatten (wavenumberShape D N) h).getD (D - 1) 0 = 0 ∨
      (N % 2 = 0 ∧ (unflatten (wavenumberShape D N) h).getD (D - 1) 0 = N / 2)
  · rw [if_pos (hsp.2 hc)]
    simp only [hc, if_true, Nat.cast_one]
  · have : ¬ isSpecial N true (wn D N (unflatten (wavenumberShape D N) h) (D - 1)) = true :=
      fun h' => hc (hsp.1 h')
    rw [if_neg this]
    simp only [hc, if_false, Nat.cast_ofNat]
    field_simp

theorem reconScale_pos (D N h : ℕ) (hD : 1 ≤ D) (hN : 0 < N) : 0 < reconScale D N h := by
  unfold reconScale
  rw [scaling_mode_one D N hD]
  have : (0 : ℝ) < (N : ℝ) ^ D := pow_pos (Nat.cast_pos.mpr hN) D
  split_ifs <;> positivity

/-- the complexification of a real array -/
noncomputable def toComplex (ur : Array ℝ) : Array ℂ := ur.map (fun x : ℝ => (x : ℂ))

theorem toComplex_getD (ur : Array ℝ) (j : ℕ) : (toComplex ur).getD j 0 = ((ur.getD j 0 : ℝ) : ℂ) := by
  unfold toComplex
  simp only [Array.getD_eq_getD_getElem?, Array.getElem?_map]
  cases ur[j]? <;> simp

/-- M7 (sums, complex array with real entries):
    `Σ_j ‖u_j‖² = Σ_h ‖û_h‖² / scaling D N 1 idx_h` — the `1/reconstruction-scaling` weights of
    `fourierAggregator` are exactly the Parseval weights `herm_weight / N^D` -/
theorem parseval_scaling (D N : ℕ) (hD : 1 ≤ D) (hN : 0 < N) (u : Array ℂ)
    (hu : ∀ j < N ^ D, (u.getD j 0).im = 0) :
    ∑ j ∈ range (N ^ D), ‖u.getD j 0‖ ^ 2
      = ∑ h ∈ range (numModes D N),
          ‖(rfftnM D N u).getD h 0‖ ^ 2 / (scaling D N 1 (unflatten (wavenumberShape D N) h) : ℝ) := by
  rw [DFT.parseval_nd D N hD hN u hu, Finset.mul_sum]
  apply Finset.sum_congr rfl
  intro h hh
  have := one_div_reconScale D N h hD hN (Finset.mem_range.mp hh)
  unfold reconScale at this
  rw [div_eq_mul_one_div _ (scaling D N 1 (unflatten (wavenumberShape D N) h) : ℝ), this]
  push_cast
  ring

/-- M7 (sums): `Σ_j |u_j|² = Σ_h |û_h|² / reconstruction-scaling_h` -/
theorem parseval_reconScale (D N : ℕ) (hD : 1 ≤ D) (hN : 0 < N) (ur : Array ℝ) :
    ∑ j ∈ range (N ^ D), |ur.getD j 0| ^ 2
      = ∑ h ∈ range (numModes D N),
          ‖(rfftnM D N (toComplex ur)).getD h 0‖ ^ 2 / reconScale D N h := by
  have hP := DFT.parseval_nd D N hD hN (toComplex ur)
    (fun j _ => by rw [toComplex_getD]; exact Complex.ofReal_im _)
  have h1 : ∑ j ∈ range (N ^ D), |ur.getD j 0| ^ 2
      = ∑ j ∈ range (N ^ D), ‖(toComplex ur).getD j 0‖ ^ 2 := by
    apply Finset.sum_congr rfl
    intro j _
    rw [toComplex_getD, Complex.norm_real, Real.norm_eq_abs]
  rw [h1, hP, Finset.mul_sum]
  apply Finset.sum_congr rfl
  intro h hh
  rw [div_eq_mul_one_div _ (reconScale D N h),
    one_div_reconScale D N h hD hN (Finset.mem_range.mp hh)]
  push_cast
  ring

/-- M7: with inner exponent 2, no band, no derivative, no floor, the Fourier aggregate of the
    magnitudes `|û_h|` of a real field equals the spatial aggregate of the field -/
theorem fourierAggregator_eq_spatialAggregator (D N : ℕ) (hD : 1 ≤ D) (hN : 0 < N) (L s q : ℝ)
    (ur : Array ℝ) (hsz : ur.size = N ^ D) (mag : Array ℝ)
    (hmag : ∀ h < numModes D N, mag.getD h 0 = ‖(rfftnM D N (toComplex ur)).getD h 0‖) :
    fourierAggregator D N L s 2 q none none 0 mag = spatialAggregator D N L 2 q ur := by
  rw [fourierAggregator_none, spatialAggregator_eq_sum, hsz]
  congr 2
  have h1 : ∀ j ∈ range (N ^ D), |ur.getD j 0| ^ (2 : ℝ) = |ur.getD j 0| ^ 2 :=
    fun j _ => Real.rpow_two _
  rw [Finset.sum_congr rfl h1, parseval_reconScale D N hD hN]
  apply Finset.sum_congr rfl
  intro h hh
  have hh' := Finset.mem_range.mp hh
  unfold keptVal
  simp only [hmag h hh', not_lt.mpr (norm_nonneg _), if_false, Real.rpow_two]


/-- the magnitudes `|û_h|` of the stored half spectrum of a real field -/
noncomputable def magnitudes (D N : ℕ) (ur : Array ℝ) : Array ℝ :=
  tab (numModes D N) (fun h => ‖(rfftnM D N (toComplex ur)).getD h 0‖)

/-- M7 on the concrete magnitude array -/
theorem fourierAggregator_magnitudes (D N : ℕ) (hD : 1 ≤ D) (hN : 0 < N) (L s q : ℝ)
    (ur : Array ℝ) (hsz : ur.size = N ^ D) :
    fourierAggregator D N L s 2 q none none 0 (magnitudes D N ur) = spatialAggregator D N L 2 q ur :=
  fourierAggregator_eq_spatialAggregator D N hD hN L s q ur hsz _
    (fun h hh => DFT.tab_getD _ _ _ _ hh)

/-! ### M8 — band masks and band additivity -/

/-- M8 (mask): `bandMask k lo hi ↔ lo ≤ max_d |k_d| ≤ hi` -/
theorem bandMask_iff (k : List ℤ) (lo hi : ℕ) :
    bandMask k lo hi = true ↔ (∃ kd ∈ k, (lo : ℤ) ≤ |kd|) ∧ ∀ kd ∈ k, |kd| ≤ (hi : ℤ) := by
  unfold bandMask
  rw [Bool.and_eq_true, Bool.not_eq_true', ← Bool.not_eq_true, lowPassSep_iff, lowPassSep_iff]
  simp only [mul_one, not_forall, not_le]
  constructor
  · rintro ⟨⟨kd, hk, h1⟩, h2⟩
    exact ⟨⟨kd, hk, by omega⟩, h2⟩
  · rintro ⟨⟨kd, hk, h1⟩, h2⟩
    exact ⟨⟨kd, hk, by omega⟩, h2⟩

theorem lowPassSep_mono (k : List ℤ) (p p' : ℤ) (h : p ≤ p') (hp : lowPassSep k p 1 = true) :
    lowPassSep k p' 1 = true := by
  rw [lowPassSep_iff] at hp ⊢
  intro kd hkd
  have := hp kd hkd
  omega

/-- M8 (mask): for `a ≤ b ≤ c` the bands `[a, b]` and `[b+1, c]` are disjoint and their union is `[a, c]` -/
theorem bandMask_split (k : List ℤ) (a b c : ℕ) (hab : a ≤ b) (hbc : b ≤ c) :
    bandMask k a c = (bandMask k a b || bandMask k (b + 1) c)
      ∧ (bandMask k a b && bandMask k (b + 1) c) = false := by
  unfold bandMask
  have e : (((b + 1 : ℕ) : ℤ) - 1) = (b : ℤ) := by push_cast; ring
  rw [e]
  have m1 := lowPassSep_mono k ((a : ℤ) - 1) (b : ℤ) (by omega)
  have m2 := lowPassSep_mono k (b : ℤ) (c : ℤ) (by omega)
  cases h1 : lowPassSep k ((a : ℤ) - 1) 1 <;> cases h2 : lowPassSep k (b : ℤ) 1 <;>
    cases h3 : lowPassSep k (c : ℤ) 1 <;> simp_all

/-- M8 (per mode): for any `g` with `g 0 = 0` the masked magnitudes of `[a, c]` split -/
theorem keptVal_split (D N : ℕ) (a b c : ℕ) (hab : a ≤ b) (hbc : b ≤ c) (floor : ℝ) (mag : Array ℝ)
    (h : ℕ) (g : ℝ → ℝ) (hg : g 0 = 0) :
    g (keptVal D N (some (a, c)) floor mag h)
      = g (keptVal D N (some (a, b)) floor mag h) + g (keptVal D N (some (b + 1, c)) floor mag h) := by
  obtain ⟨h1, h2⟩ := bandMask_split (wnFlat D N h) a b c hab hbc
  unfold keptVal
  simp only [h1]
  cases hab' : bandMask (wnFlat D N h) a b <;> cases hbc' : bandMask (wnFlat D N h) (b + 1) c <;>
    simp_all

/-- M8: band additivity of the Fourier aggregate (outer exponent `q = 1`, inner exponent `p ≠ 0`),
    without derivative -/
theorem fourierAggregator_band_add (D N : ℕ) (L s p : ℝ) (hp : p ≠ 0) (a b c : ℕ) (hab : a ≤ b)
    (hbc : b ≤ c) (floor : ℝ) (mag : Array ℝ) :
    fourierAggregator D N L s p 1 (some (a, c)) none floor mag
      = fourierAggregator D N L s p 1 (some (a, b)) none floor mag
        + fourierAggregator D N L s p 1 (some (b + 1, c)) none floor mag := by
  simp only [fourierAggregator_none, Real.rpow_one]
  rw [← mul_add, ← Finset.sum_add_distrib]
  congr 1
  apply Finset.sum_congr rfl
  intro h _
  rw [keptVal_split D N a b c hab hbc floor mag h (fun x => x ^ p) (Real.zero_rpow hp), add_div]

/-- M8: band additivity with a derivative order `m` -/
theorem fourierAggregator_band_add_deriv (D N : ℕ) (L s p m : ℝ) (hp : p ≠ 0) (a b c : ℕ) (hab : a ≤ b)
    (hbc : b ≤ c) (floor : ℝ) (mag : Array ℝ) :
    fourierAggregator D N L s p 1 (some (a, c)) (some m) floor mag
      = fourierAggregator D N L s p 1 (some (a, b)) (some m) floor mag
        + fourierAggregator D N L s p 1 (some (b + 1, c)) (some m) floor mag := by
  simp only [fourierAggregator_some, Real.rpow_one]
  rw [← Finset.sum_add_distrib]
  apply Finset.sum_congr rfl
  intro d _
  rw [← mul_add, ← Finset.sum_add_distrib]
  congr 1
  apply Finset.sum_congr rfl
  intro h _
  rw [keptVal_split D N a b c hab hbc floor mag h (fun x => (x * derivFactor D N s m d h) ^ p)
    (by simp [Real.zero_rpow hp]), add_div]

/-- M8: the band `[0, hi]` with `hi ≥ N/2` contains every stored mode -/
theorem bandMask_full (D N h hi : ℕ) (hD : 1 ≤ D) (hN : 0 < N) (hh : h < numModes D N)
    (hhi : N / 2 ≤ hi) : bandMask (wnFlat D N h) 0 hi = true := by
  rw [bandMask_iff]
  constructor
  · have hlen : (wnFlat D N h).length = D := wnVec_length D N _
    have hne : wnFlat D N h ≠ [] := by
      intro h0; rw [h0] at hlen; simp at hlen; omega
    obtain ⟨kd, hkd⟩ := List.exists_mem_of_ne_nil _ hne
    exact ⟨kd, hkd, by simp⟩
  · intro kd hkd
    have := mem_wnFlat_abs_le D N h hD hN hh kd hkd
    omega

/-- M8: hence the aggregate over the band `[0, hi]`, `hi ≥ N/2` (in particular `hi = N/2 + 1`), is the
    aggregate without band restriction -/
theorem fourierAggregator_band_full (D N hi : ℕ) (hD : 1 ≤ D) (hN : 0 < N) (hhi : N / 2 ≤ hi)
    (L s p q : ℝ) (deriv : Option ℝ) (floor : ℝ) (mag : Array ℝ) :
    fourierAggregator D N L s p q (some (0, hi)) deriv floor mag
      = fourierAggregator D N L s p q none deriv floor mag := by
  have hk : ∀ h ∈ range (numModes D N),
      keptVal D N (some (0, hi)) floor mag h = keptVal D N none floor mag h := by
    intro h hh
    unfold keptVal
    simp only [bandMask_full D N h hi hD hN (Finset.mem_range.mp hh) hhi, if_true]
  rcases deriv with _ | m
  · rw [fourierAggregator_none, fourierAggregator_none]
    congr 2
    exact Finset.sum_congr rfl (fun h hh => by rw [hk h hh])
  · rw [fourierAggregator_some, fourierAggregator_some]
    apply Finset.sum_congr rfl
    intro d _
    congr 2
    exact Finset.sum_congr rfl (fun h hh => by rw [hk h hh])

/-! ### M9 — correlation -/

theorem map_mul_getD (a : ℝ) (u : Array ℝ) (j : ℕ) :
    (u.map (fun x => a * x)).getD j 0 = a * u.getD j 0 := by
  simp only [Array.getD_eq_getD_getElem?, Array.getElem?_map]
  cases u[j]? <;> simp

/-- closed form of the correlation of two fields on the `N^D` grid -/
theorem correlationChannel_eq (D N : ℕ) (L : ℝ) (u v : Array ℝ) (hu : u.size = N ^ D)
    (hv : v.size = N ^ D) :
    correlationChannel D N L u v
      = ((L / (N : ℝ)) ^ D * ∑ j ∈ range (N ^ D), u.getD j 0 * v.getD j 0)
        / (Real.sqrt ((L / (N : ℝ)) ^ D * ∑ j ∈ range (N ^ D), u.getD j 0 ^ 2)
            * Real.sqrt ((L / (N : ℝ)) ^ D * ∑ j ∈ range (N ^ D), v.getD j 0 ^ 2)) := by
  unfold correlationChannel
  simp only [spatialAggregator_eq_sum, hu, hv, DFT.sumRange_eq, npow_eq, lit_eq, qlit_eq,
    Nat.cast_ofNat, Nat.cast_one, Real.rpow_two, sq_abs, Real.sqrt_eq_rpow]

/-- M9: Cauchy–Schwarz, `|correlation| ≤ 1` -/
theorem abs_correlationChannel_le_one (D N : ℕ) (L : ℝ) (hL : 0 ≤ L) (u v : Array ℝ)
    (hu : u.size = N ^ D) (hv : v.size = N ^ D) : |correlationChannel D N L u v| ≤ 1 := by
  rw [correlationChannel_eq D N L u v hu hv]
  set c := (L / (N : ℝ)) ^ D with hc
  have hc0 : 0 ≤ c := cell_nonneg D N L hL
  set A := ∑ j ∈ range (N ^ D), u.getD j 0 ^ 2
  set B := ∑ j ∈ range (N ^ D), v.getD j 0 ^ 2
  set I := ∑ j ∈ range (N ^ D), u.getD j 0 * v.getD j 0
  have hCS : I ^ 2 ≤ A * B := Finset.sum_mul_sq_le_sq_mul_sq _ _ _
  have hA : 0 ≤ A := Finset.sum_nonneg (fun _ _ => sq_nonneg _)
  have hden : 0 ≤ Real.sqrt (c * A) * Real.sqrt (c * B) :=
    mul_nonneg (Real.sqrt_nonneg _) (Real.sqrt_nonneg _)
  have hnum : |c * I| ≤ Real.sqrt (c * A) * Real.sqrt (c * B) := by
    rw [← Real.sqrt_mul (mul_nonneg hc0 hA)]
    apply Real.abs_le_sqrt
    have := mul_le_mul_of_nonneg_left hCS (mul_nonneg hc0 hc0)
    nlinarith
  rw [abs_div, abs_of_nonneg hden]
  exact div_le_one_of_le₀ hnum hden

/-- M9: the correlation lies in `[-1, 1]` -/
theorem correlationChannel_mem_Icc (D N : ℕ) (L : ℝ) (hL : 0 ≤ L) (u v : Array ℝ)
    (hu : u.size = N ^ D) (hv : v.size = N ^ D) :
    -1 ≤ correlationChannel D N L u v ∧ correlationChannel D N L u v ≤ 1 :=
  abs_le.mp (abs_correlationChannel_le_one D N L hL u v hu hv)

/-- M9: the correlation of `u` with `a·u` is `sign a` (`u ≠ 0`) -/
theorem correlationChannel_smul (D N : ℕ) (L a : ℝ) (hL : 0 < L) (hN : 0 < N) (ha : a ≠ 0)
    (u : Array ℝ) (hu : u.size = N ^ D) (hu0 : ∃ x ∈ u.toList, x ≠ 0) :
    correlationChannel D N L u (u.map (fun x => a * x)) = a / |a| := by
  rw [correlationChannel_eq D N L u _ hu (by rw [Array.size_map]; exact hu)]
  simp only [map_mul_getD]
  set c := (L / (N : ℝ)) ^ D with hc
  have hc0 : 0 < c := cell_pos D N L hL hN
  set A := ∑ j ∈ range (N ^ D), u.getD j 0 ^ 2 with hAdef
  have hA : 0 < A := by
    have h1 : A = absPowSum 2 u := by
      rw [absPowSum_eq_sum_range, hu]
      exact Finset.sum_congr rfl (fun j _ => by rw [Real.rpow_two, sq_abs])
    rcases (absPowSum_nonneg 2 u).lt_or_eq with h | h
    · rw [h1]; exact h
    · exfalso
      obtain ⟨x, hx, hne⟩ := hu0
      exact hne ((absPowSum_eq_zero_iff 2 (by norm_num) u).1 h.symm x hx)
  have e1 : ∑ j ∈ range (N ^ D), u.getD j 0 * (a * u.getD j 0) = a * A := by
    rw [hAdef, Finset.mul_sum]
    exact Finset.sum_congr rfl (fun j _ => by ring)
  have e2 : ∑ j ∈ range (N ^ D), (a * u.getD j 0) ^ 2 = a ^ 2 * A := by
    rw [hAdef, Finset.mul_sum]
    exact Finset.sum_congr rfl (fun j _ => by ring)
  rw [e1, e2]
  have hcA : 0 < c * A := mul_pos hc0 hA
  have e3 : Real.sqrt (c * (a ^ 2 * A)) = |a| * Real.sqrt (c * A) := by
    rw [show c * (a ^ 2 * A) = a ^ 2 * (c * A) by ring, Real.sqrt_mul (sq_nonneg a), Real.sqrt_sq_eq_abs]
  rw [e3]
  have hs : Real.sqrt (c * A) * Real.sqrt (c * A) = c * A := Real.mul_self_sqrt hcA.le
  have hs0 : Real.sqrt (c * A) ≠ 0 := (Real.sqrt_pos.mpr hcA).ne'
  have ha' : |a| ≠ 0 := abs_ne_zero.mpr ha
  rw [div_eq_div_iff (mul_ne_zero hs0 (mul_ne_zero ha' hs0)) ha']
  calc c * (a * A) * |a| = a * |a| * (c * A) := by ring
    _ = a * |a| * (Real.sqrt (c * A) * Real.sqrt (c * A)) := by rw [hs]
    _ = a * (Real.sqrt (c * A) * (|a| * Real.sqrt (c * A))) := by ring

/-- M9: correlation `+1` for a positive multiple -/
theorem correlationChannel_smul_pos (D N : ℕ) (L a : ℝ) (hL : 0 < L) (hN : 0 < N) (ha : 0 < a)
    (u : Array ℝ) (hu : u.size = N ^ D) (hu0 : ∃ x ∈ u.toList, x ≠ 0) :
    correlationChannel D N L u (u.map (fun x => a * x)) = 1 := by
  rw [correlationChannel_smul D N L a hL hN ha.ne' u hu hu0, abs_of_pos ha, div_self ha.ne']

/-- M9: correlation `−1` for a negative multiple -/
theorem correlationChannel_smul_neg (D N : ℕ) (L a : ℝ) (hL : 0 < L) (hN : 0 < N) (ha : a < 0)
    (u : Array ℝ) (hu : u.size = N ^ D) (hu0 : ∃ x ∈ u.toList, x ≠ 0) :
    correlationChannel D N L u (u.map (fun x => a * x)) = -1 := by
  rw [correlationChannel_smul D N L a hL hN ha.ne u hu hu0, abs_of_neg ha, div_neg, div_self ha.ne]


end Exponax.Metrics
