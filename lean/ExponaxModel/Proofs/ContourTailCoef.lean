import ExponaxModel.Proofs.ContourTailPhi
import ExponaxModel.Proofs.Stiffness
import Mathlib.Analysis.Complex.ExponentialBounds
/-
C02 support — T4 (generic part): the stored ETDRK coefficient `dt · contourMean(φ-combination)`
differs from `dt ·` the ENTIRE φ-combination at `z = λ·dt` by at most
`‖dt‖ · c · e^{max(0, Re z + R)} · q^M/(1 − q^M)`,  `q = ‖r‖/R`, for every `R > ‖r‖`.
-/
set_option linter.unusedVariables false
namespace Exponax.ContourTail
open Exponax Exponax.Spec Exponax.Gen.Etdrk

theorem contourMean_congr_nodes (M : ℕ) (r z : ℂ) (g fe : ℂ → ℂ)
    (h : ∀ ζ ∈ (roots_of_unity M : List ℂ), g (r * ζ + z) = fe (r * ζ + z)) :
    contourMean (roots_of_unity M) r g z = contourMean (roots_of_unity M) r fe z := by
  rw [contourMean_eq, contourMean_eq]
  congr 2
  exact List.map_congr_left h

theorem sphere_re_le (z w : ℂ) (R : ℝ) (hw : w ∈ Metric.sphere z R) : w.re ≤ z.re + R := by
  have h1 : ‖w - z‖ = R := by simpa [dist_eq_norm] using hw
  have h2 := Complex.re_le_norm (w - z)
  rw [Complex.sub_re, h1] at h2
  linarith

theorem max_one_exp_le (x y : ℝ) (h : x ≤ y) : max 1 (Real.exp x) ≤ Real.exp (max 0 y) := by
  refine max_le ?_ (Real.exp_le_exp.mpr (h.trans (le_max_right _ _)))
  rw [← Real.exp_zero]
  exact Real.exp_le_exp.mpr (le_max_left _ _)

/-- **T4 (generic).**  `coef = dt · contourMean g`, `g = fe` off `0`, `fe` entire with
`‖fe w‖ ≤ c · max(1, e^{Re w})`, no node at `0`. -/
theorem coef_error (c : ℝ) (hc : 0 ≤ c) (coef dt z r : ℂ) (M : ℕ) (hM : 0 < M) (R : ℝ)
    (hrR : ‖r‖ < R) (g fe : ℂ → ℂ)
    (hcoef : coef = dt * contourMean (roots_of_unity M) r g z)
    (hgfe : ∀ w, w ≠ 0 → g w = fe w)
    (hnz : ∀ ζ ∈ (roots_of_unity M : List ℂ), r * ζ + z ≠ 0)
    (hfe : Differentiable ℂ fe)
    (hS : ∀ w, ‖fe w‖ ≤ c * max 1 (Real.exp w.re)) :
    ‖coef - dt * fe z‖ ≤ ‖dt‖ * (c * Real.exp (max 0 (z.re + R)) * (‖r‖ / R) ^ M
      / (1 - (‖r‖ / R) ^ M)) := by
  rw [hcoef, contourMean_congr_nodes M r z g fe (fun ζ hζ => hgfe _ (hnz ζ hζ)), ← mul_sub,
    norm_mul]
  refine mul_le_mul_of_nonneg_left ?_ (norm_nonneg dt)
  refine norm_contourMean_sub_le_cauchy' M hM r z fe R _ Set.univ hrR hfe.differentiableOn
    (Set.subset_univ _) ?_
  intro w hw
  exact (hS w).trans (mul_le_mul_of_nonneg_left
    (max_one_exp_le _ _ (sphere_re_le z w R hw)) hc)

/-- a linear combination of the entire φ-functions is bounded by the weighted sum -/
theorem norm_lincomb_le (a1 a2 a3 w : ℂ) :
    ‖a1 * phi1e w + a2 * phi2e w + a3 * phi3e w‖
      ≤ (‖a1‖ + ‖a2‖ / 2 + ‖a3‖ / 6) * max 1 (Real.exp w.re) := by
  have h1 := mul_le_mul_of_nonneg_left (norm_phi1e_le w) (norm_nonneg a1)
  have h2 := mul_le_mul_of_nonneg_left (norm_phi2e_le w) (norm_nonneg a2)
  have h3 := mul_le_mul_of_nonneg_left (norm_phi3e_le w) (norm_nonneg a3)
  calc ‖a1 * phi1e w + a2 * phi2e w + a3 * phi3e w‖
      ≤ ‖a1‖ * ‖phi1e w‖ + ‖a2‖ * ‖phi2e w‖ + ‖a3‖ * ‖phi3e w‖ := by
        have e1 := norm_add_le (a1 * phi1e w + a2 * phi2e w) (a3 * phi3e w)
        have e2 := norm_add_le (a1 * phi1e w) (a2 * phi2e w)
        rw [norm_mul] at e1
        rw [norm_mul, norm_mul] at e2
        linarith
    _ ≤ (‖a1‖ + ‖a2‖ / 2 + ‖a3‖ / 6) * max 1 (Real.exp w.re) := by nlinarith

theorem differentiable_lincomb (a1 a2 a3 : ℂ) :
    Differentiable ℂ (fun w => a1 * phi1e w + a2 * phi2e w + a3 * phi3e w) :=
  ((differentiable_phi1e.const_mul a1).add (differentiable_phi2e.const_mul a2)).add
    (differentiable_phi3e.const_mul a3)

/-- half-step function `w ↦ φ₁(w/2)/2` -/
theorem norm_half_le (w : ℂ) : ‖phi1e (w / 2) / 2‖ ≤ (1 / 2) * max 1 (Real.exp w.re) := by
  rw [norm_div]
  have h := norm_phi1e_le (w / 2)
  have hre : (w / 2).re = w.re / 2 := by simp
  rw [hre] at h
  have h2 : max 1 (Real.exp (w.re / 2)) ≤ max 1 (Real.exp w.re) := by
    rcases le_total w.re 0 with hw | hw
    · exact max_le (le_max_left _ _)
        (le_max_of_le_left (Real.exp_le_one_iff.mpr (by linarith)))
    · exact max_le_max le_rfl (Real.exp_le_exp.mpr (by linarith))
  have h3 : ‖(2 : ℂ)‖ = 2 := by norm_num
  rw [h3]
  linarith [h.trans h2]

theorem differentiable_half : Differentiable ℂ (fun w => phi1e (w / 2) / 2) :=
  (differentiable_phi1e.comp (differentiable_id.div_const 2)).div_const 2

/-- passage to real data `dt, λ, r` (as used by `Stiffness.nodes_ne_zero`) -/
theorem real_nodes_ne_zero (M : ℕ) (hM : 0 < M) (hev : M % 2 = 0) (dt lam r : ℝ) (hr : 0 < r) :
    ∀ ζ ∈ (roots_of_unity M : List ℂ), (r : ℂ) * ζ + (lam : ℂ) * (dt : ℂ) ≠ 0 := by
  intro ζ hζ
  have h := Stiffness.nodes_ne_zero M hM hev r (lam * dt) hr.ne' ζ hζ
  rwa [Complex.ofReal_mul] at h

theorem real_bound_rewrite (c dt lam r R : ℝ) (M : ℕ) (hr : 0 < r) :
    ‖(dt : ℂ)‖ * (c * Real.exp (max 0 (((lam : ℂ) * (dt : ℂ)).re + R)) * (‖(r : ℂ)‖ / R) ^ M
      / (1 - (‖(r : ℂ)‖ / R) ^ M))
    = |dt| * (c * Real.exp (max 0 (lam * dt + R)) * (r / R) ^ M / (1 - (r / R) ^ M)) := by
  have h1 : ((lam : ℂ) * (dt : ℂ)).re = lam * dt := by simp
  rw [h1, Complex.norm_real, Complex.norm_real, Real.norm_eq_abs, Real.norm_eq_abs, abs_of_pos hr]

/-- the tail factor `q^M/(1 − q^M)` is non-negative for `0 ≤ q < 1` -/
theorem tail_factor_nonneg (q : ℝ) (M : ℕ) (hq0 : 0 ≤ q) (hq1 : q < 1) (hM : 0 < M) :
    0 ≤ q ^ M / (1 - q ^ M) :=
  div_nonneg (pow_nonneg hq0 M) (sub_nonneg.mpr (pow_lt_one₀ hq0 hq1 hM.ne').le)

/-- for `z ≤ 0` the growth factor is at most `e^R` -/
theorem stiff_bound_le (c dt z r R : ℝ) (M : ℕ) (hc : 0 ≤ c) (hM : 0 < M) (hz : z ≤ 0)
    (hr : 0 < r) (hrR : r < R) :
    |dt| * (c * Real.exp (max 0 (z + R)) * (r / R) ^ M / (1 - (r / R) ^ M))
      ≤ |dt| * (c * Real.exp R * (r / R) ^ M / (1 - (r / R) ^ M)) := by
  have hR : 0 < R := hr.trans hrR
  have hq0 : 0 ≤ r / R := (div_pos hr hR).le
  have hq1 : r / R < 1 := (div_lt_one hR).mpr hrR
  have ht := tail_factor_nonneg (r / R) M hq0 hq1 hM
  have he : Real.exp (max 0 (z + R)) ≤ Real.exp R :=
    Real.exp_le_exp.mpr (max_le hR.le (by linarith))
  refine mul_le_mul_of_nonneg_left ?_ (abs_nonneg dt)
  rw [mul_div_assoc, mul_div_assoc]
  exact mul_le_mul_of_nonneg_right (mul_le_mul_of_nonneg_left he hc) ht

/-- numeric instance: the code's defaults `M = 16`, `r = 1`, with `R = 4` -/
theorem tail_numeric : Real.exp 4 * ((1 : ℝ) / 4) ^ 16 / (1 - ((1 : ℝ) / 4) ^ 16) < 1.3e-8 := by
  have h1 : Real.exp 4 = Real.exp 1 ^ 4 := by
    rw [← Real.exp_nat_mul]; norm_num
  have h2 : Real.exp 1 ^ 4 < 2.7182818286 ^ 4 :=
    pow_lt_pow_left₀ Real.exp_one_lt_d9 (Real.exp_pos 1).le (by norm_num)
  have h3 : (2.7182818286 : ℝ) ^ 4 < 54.6 := by norm_num
  have h4 : Real.exp 4 < 54.6 := by rw [h1]; exact h2.trans h3
  have h5 : (0 : ℝ) < 1 - ((1 : ℝ) / 4) ^ 16 := by norm_num
  rw [div_lt_iff₀ h5]
  calc Real.exp 4 * ((1 : ℝ) / 4) ^ 16 < 54.6 * ((1 : ℝ) / 4) ^ 16 :=
        mul_lt_mul_of_pos_right h4 (by positivity)
    _ < 1.3e-8 * (1 - ((1 : ℝ) / 4) ^ 16) := by norm_num

end Exponax.ContourTail
