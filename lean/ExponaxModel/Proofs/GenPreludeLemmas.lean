import Mathlib.Tactic
import ExponaxModel.Proofs.DFTBasic
import ExponaxModel.Proofs.RealInstances
import ExponaxModel.Generated.GenPrelude
/-
Structural facts (no algebraic laws) about `tab`, `sumRange`, `sumList` and the list combinators that the
array-level translator (`harness/translate_metrics.py`) emits; shared by `MetricsGenEq`, `ICGenEq`, `LoopsGenEq`.
-/
set_option linter.unusedVariables false
set_option linter.unusedSectionVars false
namespace Exponax.Gen
open Exponax Exponax.Transform Exponax.DFT

/-- `tab u.size (fun j => f u[j]) = u.map f` -/
theorem tab_size_getD_eq_map {α β : Type} (u : Array α) (d : α) (f : α → β) :
    tab u.size (fun j => f (u.getD j d)) = u.map f := by
  apply Array.ext
  · simp
  · intro i h1 h2
    have hi : i < u.size := by simpa using h1
    rw [tab_getElem]
    simp [Array.getD, hi]

theorem tab_congr {α : Type} (n : ℕ) (f g : ℕ → α) (h : ∀ i, i < n → f i = g i) : tab n f = tab n g := by
  apply Array.ext
  · simp
  · intro i h1 h2
    have hi : i < n := by simpa using h1
    rw [tab_getElem, tab_getElem, h i hi]

theorem range_map_getD_array {α β : Type} (u : Array α) (d : α) (f : α → β) :
    (List.range u.size).map (fun j => f (u.getD j d)) = u.toList.map f := by
  apply List.ext_getElem
  · simp
  · intro i h1 h2
    have hi : i < u.size := by simpa using h1
    simp [Array.getD, hi]

section
variable {K : Type} [Add K] [Zero K]

theorem sumRange_size_getD {α : Type} (u : Array α) (d : α) (f : α → K) :
    sumRange u.size (fun j => f (u.getD j d)) = sumList (u.toList.map f) := by
  unfold sumRange
  rw [range_map_getD_array]

theorem sumRange_congr' (n : ℕ) (f g : ℕ → K) (h : ∀ i, i < n → f i = g i) : sumRange n f = sumRange n g := by
  unfold sumRange
  congr 1
  apply List.map_congr_left
  intro i hi
  exact h i (List.mem_range.mp hi)

theorem sumRange_tab_getD' (n : ℕ) (f : ℕ → K) (d : K) :
    sumRange n (fun h => (tab n f).getD h d) = sumRange n f :=
  sumRange_congr' n _ _ (fun i hi => tab_getD n f i d hi)

theorem sumRange_tab_getD (n : ℕ) (f : ℕ → K) (d : K) :
    sumRange (tab n f).size (fun h => (tab n f).getD h d) = sumRange n f := by
  rw [tab_size]
  exact sumRange_congr' n _ _ (fun i hi => tab_getD n f i d hi)

end

/-- `zipWith` of two lists of the same length, entry by entry -/
theorem zipWith_eq_range_map {α β γ : Type} (f : α → β → γ) (a : List α) (b : List β) (da : α) (db : β)
    (h : a.length ≤ b.length) :
    List.zipWith f a b = (List.range a.length).map (fun c => f (a.getD c da) (b.getD c db)) := by
  apply List.ext_getElem
  · simp [h]
  · intro i h1 h2
    have hi : i < a.length := by simpa using h2
    have hj : i < b.length := lt_of_lt_of_le hi h
    simp [List.getD_eq_getElem?_getD, hi, hj]

open Exponax.Layout Exponax.Gen.Prelude in
theorem lp_getD (D N : ℕ) (c : ℤ) (h : ℕ) (hh : h < numModes D N) :
    (ext_low_pass_filter_mask D N c true).getD h false = lowPassSep (wnFlat D N h) c 1 := by
  unfold ext_low_pass_filter_mask
  rw [tab_getD _ _ _ _ hh]; rfl

open Exponax.Layout Exponax.Gen.Prelude in
theorem lp_size (D N : ℕ) (c : ℤ) (b : Bool) : (ext_low_pass_filter_mask D N c b).size = numModes D N := by
  unfold ext_low_pass_filter_mask; simp


section
variable {K : Type} [Add K] [Sub K] [Mul K] [Div K] [Neg K] [Zero K] [One K] [NatCast K] [IntCast K]
  [HasExp K] [HasI K] [HasPi K] [HasRe K]
open Exponax.Layout

theorem rfftnM_size' (D N : ℕ) (u : Array K) : (rfftnM D N u).size = numModes D N := by
  unfold rfftnM; simp

end

end Exponax.Gen
