import ExponaxModel.Proofs.EtdrkAlgebra
import Mathlib.RingTheory.RootsOfUnity.Complex
/-
E2 (DESIGN §4): the Kassam–Trefethen contour rule on the nodes generated from
`etdrk/_utils.py::roots_of_unity` is exact on polynomials of degree < M.
-/
set_option linter.unusedVariables false
namespace Exponax
open Exponax.Spec Exponax.Gen.Etdrk Finset

theorem list_range_map_sum {K : Type} [AddCommMonoid K] (f : ℕ → K) (n : ℕ) :
    ((List.range n).map f).sum = ∑ i ∈ Finset.range n, f i := by
  induction n with
  | zero => simp
  | succ n ih => simp [List.range_succ, Finset.sum_range_succ, ih]

theorem contourMean_eq (roots : List ℂ) (r : ℂ) (f : ℂ → ℂ) (z : ℂ) :
    contourMean roots r f z = (roots.map (fun ζ => f (r * ζ + z))).sum / (roots.length : ℂ) := by
  simp [contourMean, sumList_eq]

@[simp] theorem length_roots (M : ℕ) : (roots_of_unity (K := ℂ) M).length = M := by
  simp [roots_of_unity]

/-- the generated node `j` is `ω^j · e^{-πi/M}` with `ω = e^{2πi/M}` -/
theorem root_of_unity_eq (M j : ℕ) :
    (root_of_unity M j : ℂ) = Complex.exp (2 * Real.pi * Complex.I / M) ^ j * Complex.exp (-(Real.pi * Complex.I / M)) := by
  simp only [root_of_unity, hasExp_complex, lit_eq, qlit_eq, hasI_complex, hasPi_complex]
  rw [← Complex.exp_nat_mul, ← Complex.exp_add]
  congr 1
  push_cast
  ring

theorem roots_sum_pow (M n : ℕ) (hM : 0 < M) (hn : ¬ M ∣ n) :
    ((roots_of_unity (K := ℂ) M).map (fun ζ => ζ ^ n)).sum = 0 := by
  have hω := Complex.isPrimitiveRoot_exp M (Nat.pos_iff_ne_zero.mp hM)
  set ω := Complex.exp (2 * Real.pi * Complex.I / M) with hωdef
  simp only [roots_of_unity, List.map_map]
  rw [list_range_map_sum]
  simp only [Function.comp, root_of_unity_eq, ← hωdef, mul_pow]
  rw [← Finset.sum_mul]
  have h1 : ω ^ n ≠ 1 := by
    intro h
    exact hn ((hω.pow_eq_one_iff_dvd n).mp h)
  have h2 : ∑ i ∈ Finset.range M, (ω ^ (i + 1)) ^ n = 0 := by
    have : ∀ i, (ω ^ (i + 1)) ^ n = ω ^ n * (ω ^ n) ^ i := by
      intro i; rw [← pow_mul, ← pow_mul, ← pow_add]; congr 1; ring
    simp only [this, ← Finset.mul_sum]
    rw [geom_sum_eq h1]
    have : (ω ^ n) ^ M = 1 := by rw [← pow_mul, mul_comm, pow_mul, hω.pow_eq_one, one_pow]
    simp [this]
  rw [h2, zero_mul]

/-- every node lies on the unit circle -/
theorem norm_root_of_unity (M j : ℕ) : ‖(root_of_unity M j : ℂ)‖ = 1 := by
  simp only [root_of_unity, hasExp_complex, lit_eq, qlit_eq, hasI_complex, hasPi_complex]
  rw [Complex.norm_exp]
  have : ((2 : ℕ) * Complex.I * (Real.pi : ℂ) * ((j : ℂ) - (1 : ℕ) / (2 : ℕ)) / (M : ℂ)).re = 0 := by
    have h : ((2 : ℕ) * Complex.I * (Real.pi : ℂ) * ((j : ℂ) - (1 : ℕ) / (2 : ℕ)) / (M : ℂ))
        = ((2 * Real.pi * ((j : ℝ) - 1 / 2) / (M : ℝ) : ℝ) : ℂ) * Complex.I := by
      push_cast; ring
    rw [h]; simp
  rw [this, Real.exp_zero]

/-- exactness of the `M`-point rule on polynomials of degree `< M` centred at `z` -/
theorem contourMean_poly (M : ℕ) (hM : 0 < M) (r z : ℂ) (a : ℕ → ℂ) :
    contourMean (roots_of_unity M) r (fun w => ∑ n ∈ Finset.range M, a n * (w - z) ^ n) z = a 0 := by
  rw [contourMean_eq, length_roots]
  have hMne : (M : ℂ) ≠ 0 := by exact_mod_cast (Nat.pos_iff_ne_zero.mp hM)
  have key : ((roots_of_unity (K := ℂ) M).map
      (fun ζ => ∑ n ∈ Finset.range M, a n * (r * ζ + z - z) ^ n)).sum = a 0 * M := by
    have h1 : ∀ ζ : ℂ, ∑ n ∈ Finset.range M, a n * (r * ζ + z - z) ^ n
        = ∑ n ∈ Finset.range M, (a n * r ^ n) * ζ ^ n := by
      intro ζ; apply Finset.sum_congr rfl; intro n _; rw [add_sub_cancel_right, mul_pow]; ring
    simp only [h1]
    -- swap the two sums
    have h2 : ∀ (l : List ℂ), (l.map (fun ζ => ∑ n ∈ Finset.range M, (a n * r ^ n) * ζ ^ n)).sum
        = ∑ n ∈ Finset.range M, (a n * r ^ n) * (l.map (fun ζ => ζ ^ n)).sum := by
      intro l
      induction l with
      | nil => simp
      | cons x xs ih => simp [ih, Finset.sum_add_distrib, mul_add]
    rw [h2]
    rw [Finset.sum_eq_single_of_mem 0 (Finset.mem_range.mpr hM)]
    · simp
    · intro n hn hn0
      have : ¬ M ∣ n := by
        intro hd
        have := Nat.le_of_dvd (Nat.pos_of_ne_zero hn0) hd
        exact absurd (Finset.mem_range.mp hn) (by omega)
      rw [roots_sum_pow M n hM this, mul_zero]
  rw [key]
  field_simp

/-- shape of every generated coefficient: `dt · (Σ_j g(ζ_j))/M` is `dt ·` a contour mean -/
theorem coef_as_contourMean (dt z r : ℂ) (M : ℕ) (g f : ℂ → ℂ) (h : ∀ ζ, g ζ = f (r * ζ + z)) :
    dt * (foldAdd 0 g (roots_of_unity M) / (M : ℂ)) = dt * contourMean (roots_of_unity M) r f z := by
  rw [foldAdd_eq, contourMean_eq, length_roots, zero_add]
  congr 3
  apply List.map_congr_left
  intro ζ _
  exact h ζ

end Exponax
