import ExponaxModel.Proofs.SpectralOpsBasic
import ExponaxModel.Proofs.SpectralOpsInterp
import ExponaxModel.Proofs.NonlinFunsEq
import ExponaxModel.Proofs.WaveAlgebra
import ExponaxModel.Model.Spectrum
import ExponaxModel.Model.Interp
/-
The remaining array programs, tied to the source by translation.

`Generated/SpectralOps.lean` is regenerated (harness/translate_spectral2.py) from the source of
`exponax/_spectral.py` (`derivative`, `make_incompressible`, `get_spectrum`, `get_fourier_coefficients`, `fft`, `ifft`),
`exponax/_poisson.py` (`Poisson`), `exponax/stepper/_wave.py` (`Wave`) and `exponax/_interpolation.py`
(`map_between_resolutions`, `FourierInterpolator`).  Here every regenerated definition is proved EQUAL (as arrays, at
`K := ℂ`) to the hand-written model function about which the theorems of `Proofs/` and `Properties/` are stated, on
the domain where the Python code is defined (`1 ≤ D`, `0 < N`, the guards the source raises on); `cfg D N L` is the
model configuration with `s = 2π/L`.  The layout helpers these programs call (`build_derivative_operator`,
`build_scaled_wavenumbers`, `build_wavenumbers`, `build_scaling_array`, `oddball_filter_mask`, `get_modes_slices`,
`space_indices`, `spatial_shape`) are the definitions regenerated in `Generated/SpectralLayout.lean`; they are
replaced by the model quantities through the theorems of `Proofs/SpectralLayoutEq.lean`.

  derivative                 `derivative_single_eq`, `derivative_multi_eq`          = `Nonlin.derivativeM`
  make_incompressible        `make_incompressible_eq`                               = irfftn ∘ `Nonlin.leray` ∘ rfftn
  get_spectrum               `get_spectrum_eq`                                      = `Spectrum.spectrum`
  get_fourier_coefficients   `get_fourier_coefficients_eq` / `_none_eq` / `_invalid` = round(û / `Layout.scaling`)
  Poisson                    `Poisson_init_inv_operator_eq`, `Poisson_step_fourier_eq`, `Poisson_step_eq`  = `Nonlin.poissonStep`
  Wave                       `Wave_forward_transform_eq`, `Wave_inverse_transform_eq`, `Wave_step_fourier_eq`
                             = `Wave.forward` / `inverse` / `stepMode`;  `waveKn_real`, `waveKn_eq_zero_iff`
  FourierInterpolator        `FourierInterpolator_call_eq`                          = `Interp.interpolate`
  map_between_resolutions    `map_between_resolutions_eq`, `_same`                  = `Interp.mapBetween`
                             (the block-copy loop = `Interp.srcIndex`: `Proofs/SpectralOpsInterp.lean`)
  fft / ifft                 `fft_eq`, `fft_eq_two`, `ifft_eq`, `ifft_infer_num_points`, `fft_two_leading_inferred`

Differences between the source and the hand-written model that the proofs absorb (none changes a value):
  * `make_incompressible` guards the inverse Laplacian with `1.0` at the zero mode, `Nonlin.leray` with `0`
    (`invLapZero`); the guarded value is multiplied by the derivative operator, which vanishes there (`2π ≠ 0`);
  * multi-channel `derivative` multiplies `û · (iκ)^order`, the model `(iκ)^order · û`;
  * `Wave.stepMode` takes the stored `wavenumber_norm` of the mode as an argument; here it is the regenerated
    `Wave.__init__` array (`waveKn`), a non-negative real for a real domain extent that vanishes exactly at `k = 0`;
  * `map_between_resolutions` with equal resolutions returns its argument unchanged (any number of channels).
-/
set_option linter.unusedVariables false
namespace Exponax.SpectralOpsEq
open Exponax Exponax.Layout Exponax.Transform Exponax.Nonlin Exponax.Gen.SpectralOps Exponax.NonlinFunsEq

attribute [local congr] tab_congr' tab2_congr' tabC_congr' sumRange_congr'

/-- stored intermediate arrays are read through the row transforms -/
macro "snorm" : tactic => `(tactic| simp only [at2_flat_self, rfft_rows, irfft_rows, rfft_channels, irfft_channels,
  ↓reduceIte, Bool.false_eq_true])

/-- read stored arrays at the (in-range) indices under the tabulations -/
macro "srd" : tactic => `(tactic| simp (disch := omega) only
  [at2_tab2_flat, at2_tabC_flat, at2_tab2, at2_tabC, tab_getD, tabC_getD, tab2_getD, flat_div, flat_mod,
   at2_flat_self, lit_one, lit_zero, getD_two, getD_three, ite_bnot, NonlinFunsEq.two_ne_zero', NonlinFunsEq.two_ne_one', NonlinFunsEq.one_ne_zero',
   ↓reduceIte, Bool.false_eq_true])

/-! ### `derivative` -/

theorem derivative_single_eq (D N : ℕ) (hD : 1 ≤ D) (hN : 0 < N) (L : ℂ) (order : ℕ) (field : MC ℂ) :
    derivative D N 1 L order "ij" field
      = tabC D (fun d => derivativeM (cfg D N L) order d (field.getD 0 #[])) := by
  unfold derivative derivativeM
  snorm
  apply tabC_congr; intro d hd
  apply irfftnM_congr; intro h hh
  simp only [modes_cfg, cfg_D, cfg_N]
  srd
  rw [derivative_operator_entry_eq D N hD hN L d h hd]

theorem derivative_multi_eq (D N C : ℕ) (hC : C ≠ 1) (hD : 1 ≤ D) (hN : 0 < N) (L : ℂ) (order : ℕ) (field : MC ℂ) :
    derivative D N C L order "ij" field
      = tabC (C * D) (fun p => derivativeM (cfg D N L) order (p % D) (field.getD (p / D) #[])) := by
  unfold derivative derivativeM
  simp only [if_neg hC]
  snorm
  apply tabC_congr; intro p hp
  apply irfftnM_congr; intro h hh
  have h1 : p / D < C := div_lt_of_lt_mul p C D hp
  have h2 : p % D < D := mod_lt_of_lt_mul p C D hp
  simp only [modes_cfg, cfg_D, cfg_N]
  srd
  rw [derivative_operator_entry_eq D N hD hN L _ h h2, mul_comm]

/-! ### `make_incompressible` -/

theorem cfg_s_one_ne_zero (D N : ℕ) : (cfg D N 1).s ≠ 0 := by
  rw [cfg_s]
  simp [Real.pi_ne_zero]

theorem make_incompressible_eq (D N : ℕ) (hD : 1 ≤ D) (hN : 0 < N) (field : MC ℂ) :
    make_incompressible D N D "ij" field
      = tabC D (fun i => irfftnM D N ((leray (cfg D N 1) (tabC D (fun j => rfftnM D N (field.getD j #[])))).getD i #[])) := by
  unfold make_incompressible leray
  snorm
  apply tabC_congr; intro i hi
  apply irfftnM_congr; intro h hh
  simp only [modes_cfg, cfg_D]
  srd
  simp (disch := omega) only [laplace_op_entry D N hD hN, sumList_map_range, derivative_operator_entry_eq D N hD hN,
    isZero_iff, invLapZero_eq]
  by_cases hl : laplace (cfg D N 1) 2 h = 0
  · rw [deriv_eq_zero_of_laplace (cfg D N 1) (cfg_s_one_ne_zero D N) h hl i hi]
    simp
  · simp only [if_neg hl]
    ring

/-! ### `get_spectrum` -/

theorem filter_range_congr (M : ℕ) (p q : ℕ → Bool) (hp : ∀ h, h < M → p h = q h) :
    List.filter p (List.range M) = List.filter q (List.range M) := by
  apply List.filter_congr
  intro h hh
  exact hp h (List.mem_range.mp hh)

theorem map_filter_range_congr (M : ℕ) (p : ℕ → Bool) (f g : ℕ → ℂ) (hf : ∀ h, h < M → f h = g h) :
    List.map f (List.filter p (List.range M)) = List.map g (List.filter p (List.range M)) := by
  apply List.map_congr_left
  intro h hh
  exact hf h (List.mem_range.mp (List.mem_filter.mp hh).1)

/-- **`get_spectrum` is the model's `Spectrum.spectrum`, channel by channel** (`radial_binning == "average"` selects the
    mean; every other string the sum).  For `D ≥ 2` the source reads `wavenumbers_1d[0, 1]`, which exists for `N ≥ 2`
    (hypothesis `hN2`; for `N = 1` jax clamps the index and `dk = 0`). -/
theorem get_spectrum_eq (D N C : ℕ) (hD : 1 ≤ D) (hN : 0 < N) (hN2 : D = 1 ∨ 2 ≤ N) (power : Bool) (rb : String)
    (state : MC ℂ) :
    get_spectrum D N C power rb state
      = tabC C (fun ch => Spectrum.spectrum D N power (decide (rb = "average")) (state.getD ch #[])) := by
  unfold get_spectrum Spectrum.spectrum Spectrum.quantity
  simp only [rfft_channels]
  by_cases h1 : D = 1
  · simp only [if_pos h1]
    cases power
    · simp only [Bool.false_eq_true, ↓reduceIte]
      rw [tab2_eq_tabC]
      srd
      simp only [scaling_rc D N hD hN]
    · simp only [↓reduceIte]
      rw [tab2_eq_tabC]
      srd
      simp only [scaling_rc D N hD hN, scaling_nc D N hD hN]
  · simp only [if_neg h1, wavenumbers_1d_row_eq N hN, wavenumbers_1d_entry_eq N hN, lax_scan_unit, List.length_map,
      List.length_range, map_wavenumbers_entry D N hD hN]
    rw [tab2_eq_tabC]
    apply tabC_congr; intro ch hch
    apply tab_congr; intro b hb
    simp (disch := omega) only [List.getD_eq_getElem?_getD, List.getElem?_map, List.getElem?_range, Option.map_some,
      Option.getD_some, tab_getD]
    have hmask : (fun h => l2norm_ge (wnFlat D N h) ((((b : ℕ) : ℤ) : ℚ) - ((((1 : ℕ) : ℤ) - ((0 : ℕ) : ℤ) : ℤ) : ℚ) / (((2 : ℕ) : ℤ) : ℚ))
          && l2norm_lt (wnFlat D N h) ((((b : ℕ) : ℤ) : ℚ) + ((((1 : ℕ) : ℤ) - ((0 : ℕ) : ℤ) : ℤ) : ℚ) / (((2 : ℕ) : ℤ) : ℚ)))
        = fun h => inBin (wnFlat D N h) b := by
      funext h
      simp only [Nat.cast_one, Nat.cast_zero, sub_zero]
      exact bin_mask_eq (wnFlat D N h) b
    have hsel : List.filter (fun h => inBin ((tab (numModes D N) (wnFlat D N)).getD h []) b) (List.range (numModes D N))
        = List.filter (fun h => inBin (wnFlat D N h) b) (List.range (numModes D N)) :=
      filter_range_congr _ _ _ (fun h hh => by rw [tab_getD _ _ _ _ hh])
    unfold jnp_nanmean_where jnp_nansum_where
    rw [hmask, hsel]
    simp only [decide_eq_true_eq]
    have hrd : ∀ (f g : ℕ → ℂ), (∀ h, h < numModes D N → f h = g h) →
        List.map f (List.filter (fun h => inBin (wnFlat D N h) b) (List.range (numModes D N)))
          = List.map g (List.filter (fun h => inBin (wnFlat D N h) b) (List.range (numModes D N))) :=
      fun f g hfg => map_filter_range_congr _ _ f g hfg
    cases power
    · simp only [Bool.false_eq_true, ↓reduceIte]
      rw [hrd _ (fun h => HasAbs.abs ((rfftnM D N (Array.getD state ch #[])).getD h 0) /
          scaling D N 1 (unflatten (wavenumberShape D N) h)) (fun h hh => by srd; rw [scaling_rc D N hD hN]),
        hrd (fun h => (tab (numModes D N) _).getD h 0) (fun h => HasAbs.abs ((rfftnM D N (Array.getD state ch #[])).getD h 0) /
          scaling D N 1 (unflatten (wavenumberShape D N) h)) (fun h hh => by srd)]
    · simp only [↓reduceIte]
      rw [hrd _ (fun h => qlit 1 2 * (HasAbs.abs ((rfftnM D N (Array.getD state ch #[])).getD h 0) /
            scaling D N 1 (unflatten (wavenumberShape D N) h)) *
          (HasAbs.abs ((rfftnM D N (Array.getD state ch #[])).getD h 0) / scaling D N 0 (unflatten (wavenumberShape D N) h)))
          (fun h hh => by srd; rw [scaling_rc D N hD hN, scaling_nc D N hD hN]),
        hrd (fun h => (tab (numModes D N) _).getD h 0) (fun h => qlit 1 2 * (HasAbs.abs ((rfftnM D N (Array.getD state ch #[])).getD h 0) /
            scaling D N 1 (unflatten (wavenumberShape D N) h)) *
          (HasAbs.abs ((rfftnM D N (Array.getD state ch #[])).getD h 0) / scaling D N 0 (unflatten (wavenumberShape D N) h)))
          (fun h hh => by srd)]

/-! ### `get_fourier_coefficients` -/

section coef
set_option linter.unusedSectionVars false
variable [HasRoundTo ℂ]

/-- the explicit rounding `jnp.round(·, decimals)` (`None`: no rounding) -/
noncomputable def roundOpt (round : Option ℕ) (z : ℂ) : ℂ :=
  match round with
  | some r => HasRoundTo.roundTo z r
  | none => z

/-- the three valid mode strings and the codes of `Layout.scaling` -/
def modeCodes : List (String × ℕ) := [("norm_compensation", 0), ("reconstruction", 1), ("coef_extraction", 2)]

theorem scaling_array_entry_code (D N : ℕ) (hD : 1 ≤ D) (hN : 0 < N) (m : String) (code : ℕ) (hm : (m, code) ∈ modeCodes)
    (h : ℕ) : (scaling_array_entry D N m "ij" h : ℂ) = scaling D N code (unflatten (wavenumberShape D N) h) := by
  simp only [modeCodes, List.mem_cons, Prod.mk.injEq, List.not_mem_nil, or_false] at hm
  rcases hm with ⟨rfl, rfl⟩ | ⟨rfl, rfl⟩ | ⟨rfl, rfl⟩
  · exact scaling_nc D N hD hN h
  · exact scaling_rc D N hD hN h
  · exact scaling_ce D N hD hN h

theorem scaling_mode_valid (D N : ℕ) (hD : 1 ≤ D) (hN : 0 < N) (m : String) (code : ℕ) (hm : (m, code) ∈ modeCodes)
    (idx : List ℕ) : (Gen.SpectralLayout.build_scaling_array D N m "ij" idx).isSome = true := by
  simp only [modeCodes, List.mem_cons, Prod.mk.injEq, List.not_mem_nil, or_false] at hm
  rcases hm with ⟨rfl, rfl⟩ | ⟨rfl, rfl⟩ | ⟨rfl, rfl⟩
  · rw [build_scaling_array_norm_compensation D N hD hN]; rfl
  · rw [build_scaling_array_reconstruction D N hD hN]; rfl
  · rw [build_scaling_array_coef_extraction D N hD hN]; rfl

/-- **`get_fourier_coefficients` with a valid mode: `round(û / scaling)`** -/
theorem get_fourier_coefficients_eq (D N C : ℕ) (hD : 1 ≤ D) (hN : 0 < N) (m : String) (code : ℕ)
    (hm : (m, code) ∈ modeCodes) (round : Option ℕ) (state : MC ℂ) :
    get_fourier_coefficients D N C (some m) round "ij" state
      = some (tab2 C (numModes D N) (fun ch h => roundOpt round
          ((rfftnM D N (state.getD ch #[])).getD h 0 / scaling D N code (unflatten (wavenumberShape D N) h)))) := by
  unfold get_fourier_coefficients
  simp only [Option.all_some, scaling_mode_valid D N hD hN m code hm, ↓reduceIte, rfft_channels]
  congr 1
  cases round with
  | none =>
    simp only [roundOpt]
    srd
    simp only [scaling_array_entry_code D N hD hN m code hm]
  | some r =>
    simp only [roundOpt]
    srd
    simp only [scaling_array_entry_code D N hD hN m code hm]

/-- without scaling compensation -/
theorem get_fourier_coefficients_none_eq (D N C : ℕ) (round : Option ℕ) (state : MC ℂ) :
    get_fourier_coefficients D N C none round "ij" state
      = some (tab2 C (numModes D N) (fun ch h => roundOpt round ((rfftnM D N (state.getD ch #[])).getD h 0))) := by
  unfold get_fourier_coefficients
  simp only [Option.all_none, ↓reduceIte, rfft_channels]
  congr 1
  cases round with
  | none =>
    simp only [roundOpt]
    rw [tab2_eq_tabC]
    apply tabC_congr; intro i hi
    exact (rfftnM_retab D N _).symm
  | some r =>
    simp only [roundOpt]
    srd

/-- an invalid mode string raises -/
theorem get_fourier_coefficients_invalid (D N C : ℕ) (m : String) (h1 : m ≠ "norm_compensation")
    (h2 : m ≠ "reconstruction") (h3 : m ≠ "coef_extraction") (round : Option ℕ) (ix : String) (state : MC ℂ) :
    get_fourier_coefficients D N C (some m) round ix state = none := by
  unfold get_fourier_coefficients
  simp [build_scaling_array_invalid D N m ix _ h1 h2 h3]

end coef

/-! ### `Poisson` -/

/-- the stored inverse operator: `where(op == 0, 0, 1/op)`, `op = build_laplace_operator(order)` -/
theorem Poisson_init_inv_operator_eq (D N : ℕ) (hD : 1 ≤ D) (hN : 0 < N) (L : ℂ) (order : ℕ) :
    Poisson_init_inv_operator D N L order
      = tab2 1 (numModes D N) (fun _ h => if laplace (cfg D N L) order h = 0 then 0 else 1 / laplace (cfg D N L) order h) := by
  unfold Poisson_init_inv_operator
  srd
  simp only [laplace_op_entry D N hD hN, isZero_iff]

theorem Poisson_step_fourier_eq (D N C : ℕ) (hD : 1 ≤ D) (hN : 0 < N) (L : ℂ) (order : ℕ) (f_hat : MC ℂ) :
    Poisson_step_fourier D N C L order f_hat
      = tab2 C (numModes D N) (fun ch h => poissonStep (cfg D N L) order h (at2 f_hat ch h)) := by
  unfold Poisson_step_fourier poissonStep
  rw [Poisson_init_inv_operator_eq D N hD hN]
  srd
  simp only [isZero_iff]

theorem Poisson_step_eq (D N C : ℕ) (hD : 1 ≤ D) (hN : 0 < N) (L : ℂ) (order : ℕ) (f : MC ℂ) :
    Poisson_step D N C L order f
      = tabC C (fun ch => irfftnM D N (tab (numModes D N) (fun h =>
          poissonStep (cfg D N L) order h ((rfftnM D N (f.getD ch #[])).getD h 0)))) := by
  unfold Poisson_step
  simp only [Poisson_step_fourier_eq D N C hD hN]
  snorm
  srd

/-! ### `Wave` -/

/-- the stored `wavenumber_norm` of mode `h` (the `kn` argument of the per-mode model `Model/Wave.lean`) -/
noncomputable def waveKn (D N : ℕ) (L : ℂ) (h : ℕ) : ℂ := at2 (Wave_init_wavenumber_norm D N L) 0 h

/-- `‖(2π/L)·k‖₂` as the source computes it: `sqrt(Σ_d ((2π/L) k_d)²)` -/
theorem waveKn_eq (D N : ℕ) (hD : 1 ≤ D) (hN : 0 < N) (L : ℂ) (h : ℕ) (hh : h < numModes D N) :
    waveKn D N L h = HasSqrt.sqrt (sumRange D (fun d =>
      (2 * (Real.pi : ℂ) / L * (((wnFlat D N h).getD d 0 : ℤ) : ℂ)) * (2 * (Real.pi : ℂ) / L * (((wnFlat D N h).getD d 0 : ℤ) : ℂ)))) := by
  unfold waveKn Wave_init_wavenumber_norm jnp_linalg_norm_axis0
  srd
  simp (disch := omega) only [List.map_map, Function.comp_def, sumList_map_range, scaled_wavenumbers_entry_eq D N hD hN]

/-- the complex square root of the operation classes on a non-negative real is the real square root -/
theorem hasSqrt_ofReal (r : ℝ) (hr : 0 ≤ r) : HasSqrt.sqrt ((r : ℝ) : ℂ) = ((Real.sqrt r : ℝ) : ℂ) := by
  rw [hasSqrt_complex, Real.sqrt_eq_rpow, Complex.ofReal_cpow hr]
  norm_num

/-- **for a real domain extent `ℓ > 0` the stored `wavenumber_norm` is the real number `(2π/ℓ)·‖k‖₂`** (the `kn : ℝ`
    of the theorems of `Properties/C01.lean`, `C11.lean` about `Wave.stepMode`) -/
theorem waveKn_real (D N : ℕ) (hD : 1 ≤ D) (hN : 0 < N) (ℓ : ℝ) (hℓ : 0 < ℓ) (h : ℕ) (hh : h < numModes D N) :
    waveKn D N (ℓ : ℂ) h
      = (((2 * Real.pi / ℓ) * Real.sqrt (((kSq (cfg D N (ℓ : ℂ)) h : ℤ) : ℝ)) : ℝ) : ℂ) := by
  rw [waveKn_eq D N hD hN _ h hh]
  have hsum : sumRange D (fun d => (2 * (Real.pi : ℂ) / (ℓ : ℂ) * (((wnFlat D N h).getD d 0 : ℤ) : ℂ)) *
        (2 * (Real.pi : ℂ) / (ℓ : ℂ) * (((wnFlat D N h).getD d 0 : ℤ) : ℂ)))
      = (((2 * Real.pi / ℓ) ^ 2 * ((kSq (cfg D N (ℓ : ℂ)) h : ℤ) : ℝ) : ℝ) : ℂ) := by
    unfold sumRange
    rw [sumList_range_eq]
    unfold kSq kInt
    simp only [cfg_D, cfg_N]
    push_cast
    rw [Finset.mul_sum]
    apply Finset.sum_congr rfl
    intro d _
    ring
  have hk : (0 : ℝ) ≤ ((kSq (cfg D N (ℓ : ℂ)) h : ℤ) : ℝ) := by exact_mod_cast kSq_nonneg _ h
  have hp : (0 : ℝ) ≤ 2 * Real.pi / ℓ := by positivity
  rw [hsum, hasSqrt_ofReal _ (mul_nonneg (sq_nonneg _) hk), Real.sqrt_mul (sq_nonneg _), Real.sqrt_sq hp]

/-- the stored `wavenumber_norm` vanishes exactly at the mean mode `k = 0` -/
theorem waveKn_eq_zero_iff (D N : ℕ) (hD : 1 ≤ D) (hN : 0 < N) (ℓ : ℝ) (hℓ : 0 < ℓ) (h : ℕ) (hh : h < numModes D N) :
    waveKn D N (ℓ : ℂ) h = 0 ↔ ∀ d, d < D → (wnFlat D N h).getD d 0 = 0 := by
  rw [waveKn_real D N hD hN ℓ hℓ h hh]
  have hk : (0 : ℝ) ≤ ((kSq (cfg D N (ℓ : ℂ)) h : ℤ) : ℝ) := by exact_mod_cast kSq_nonneg _ h
  have hp : (0 : ℝ) < 2 * Real.pi / ℓ := by positivity
  rw [Complex.ofReal_eq_zero, mul_eq_zero, Real.sqrt_eq_zero hk]
  constructor
  · rintro (h0 | h0)
    · exact absurd h0 hp.ne'
    · have : kSq (cfg D N (ℓ : ℂ)) h = 0 := by exact_mod_cast h0
      exact (kSq_eq_zero_iff _ h).1 this
  · intro h0
    right
    have : kSq (cfg D N (ℓ : ℂ)) h = 0 := (kSq_eq_zero_iff _ h).2 h0
    exact_mod_cast this

theorem Wave_forward_transform_eq (D N : ℕ) (L c : ℂ) (u_hat : MC ℂ) :
    Wave_forward_transform D N L c u_hat = tab2 2 (numModes D N) (fun i h =>
      if i = 0 then (Wave.forward c (waveKn D N L h) (at2 u_hat 0 h) (at2 u_hat 1 h)).1
      else (Wave.forward c (waveKn D N L h) (at2 u_hat 0 h) (at2 u_hat 1 h)).2) := by
  unfold Wave_forward_transform Wave.forward Wave.kGuard waveKn
  srd

theorem Wave_inverse_transform_eq (D N : ℕ) (L c : ℂ) (waves_hat : MC ℂ) :
    Wave_inverse_transform D N L c waves_hat = tab2 2 (numModes D N) (fun i h =>
      if i = 0 then (Wave.inverse c (waveKn D N L h) (at2 waves_hat 0 h) (at2 waves_hat 1 h)).1
      else (Wave.inverse c (waveKn D N L h) (at2 waves_hat 0 h) (at2 waves_hat 1 h)).2) := by
  unfold Wave_inverse_transform Wave.inverse Wave.kGuard waveKn
  srd

theorem flatten_zero (shape : List ℕ) (n : ℕ) : flatten shape (List.replicate n 0) = 0 := by
  induction shape generalizing n with
  | nil => rfl
  | cons a rest ih =>
    cases n with
    | zero => simpa [flatten] using ih 0
    | succ m => simp [flatten, List.replicate_succ, ih m]

/-- **`Wave.step_fourier` is the per-mode model `Wave.stepMode`**, the drift being added at the flat mode `0` -/
theorem Wave_step_fourier_eq (D N : ℕ) (hN : 0 < N) (L dt c : ℂ) (u_hat : MC ℂ) :
    Wave_step_fourier D N L dt c u_hat = tab2 2 (numModes D N) (fun i h =>
      if i = 0 then (Wave.stepMode c dt (waveKn D N L h) (decide (h = 0)) (at2 u_hat 0 h) (at2 u_hat 1 h)).1
      else (Wave.stepMode c dt (waveKn D N L h) (decide (h = 0)) (at2 u_hat 0 h) (at2 u_hat 1 h)).2) := by
  unfold Wave_step_fourier
  simp only [Wave_forward_transform_eq, Wave_inverse_transform_eq, flatten_zero]
  apply tab2_congr; intro ch i hch hi
  have h0 : (0 : ℕ) < numModes D N := by omega
  srd
  simp only [Wave.stepMode, Wave.symbols, Gen.Etdrk.E0step, Gen.Etdrk.exp_term, Gen.Steppers.Wave_linear_operator,
    List.getD_cons_zero, List.getD_cons_succ, waveKn]
  by_cases hi0 : i = 0
  · subst hi0
    interval_cases ch <;> simp
  · interval_cases ch <;> simp [hi0]

/-! ### `FourierInterpolator` -/

theorem FourierInterpolator_call_eq (D N C : ℕ) (hD : 1 ≤ D) (hN : 0 < N) (L : ℂ) (state : MC ℂ) (x : List ℂ) :
    FourierInterpolator_call D N C L "ij" state x
      = tab C (fun ch => Interp.interpolate D N (2 * (Real.pi : ℂ) / L) (state.getD ch #[]) x) := by
  unfold FourierInterpolator_call FourierInterpolator_init_wavenumbers FourierInterpolator_init_state_hat_scaled
    Interp.interpolate
  simp only [rfft_channels]
  apply tab_congr; intro ch hch
  congr 1
  apply sumRange_congr; intro h hh
  srd
  simp (disch := omega) only [sumList_map_range, scaling_rc D N hD hN, scaled_wavenumbers_entry_eq D N hD hN, at2_tab2]

/-! ### `map_between_resolutions` -/

theorem map_between_resolutions_same (D N C : ℕ) (ob : Bool) (state : MC ℂ) :
    map_between_resolutions D N C N ob state = state := by
  unfold map_between_resolutions
  simp

/-- a stored two-axis array read through one of its rows -/
theorem at2_tab2_row (C M : ℕ) (f : ℕ → ℕ → ℂ) (ch j : ℕ) (hch : ch < C) :
    at2 (tab2 C M f) ch j = (tab M (f ch)).getD j 0 := by
  unfold at2
  rw [tab2_getD _ _ _ _ hch]

/-- **`map_between_resolutions` between different resolutions is the model's `Interp.mapBetween`, channel by channel**
    (the loop over `get_modes_slices` being the closed form `Interp.srcIndex`) -/
theorem map_between_resolutions_eq (D N Nnew C : ℕ) (hne : N ≠ Nnew) (hD : 1 ≤ D) (hN : 0 < N) (hNn : 0 < Nnew)
    (ob : Bool) (state : MC ℂ) :
    map_between_resolutions D N C Nnew ob state
      = tabC C (fun ch => Interp.mapBetween D N Nnew ob (state.getD ch #[])) := by
  unfold map_between_resolutions Interp.mapBetween Interp.mapSpectrum
  simp only [if_neg hne, rfft_channels]
  -- the (possibly oddball-filtered) scaled old spectrum, stored per channel
  have hold : ∀ (X : MC ℂ), X = (if Nnew > N ∧ N % 2 = 0 ∧ ob = true then
        tab2 C (numModes D N) (fun i0 h =>
          at2 (tab2 C (numModes D N) fun i0 h =>
            at2 (tabC C fun ch => rfftnM D N (Array.getD state ch #[])) i0 h /
              scaling_array_entry D N "norm_compensation" "ij" h) i0 h *
            (if oddball_mask_entry D N h = true then (1 : ℂ) else 0))
      else tab2 C (numModes D N) fun i0 h =>
            at2 (tabC C fun ch => rfftnM D N (Array.getD state ch #[])) i0 h /
              scaling_array_entry D N "norm_compensation" "ij" h) →
      X = tab2 C (numModes D N) (fun ch h =>
        if Nnew > N ∧ N % 2 = 0 ∧ ob = true then
          (if oddball N (wnFlat D N h) = true then
            (rfftnM D N (state.getD ch #[])).getD h 0 / scaling D N 0 (unflatten (wavenumberShape D N) h) else 0)
        else (rfftnM D N (state.getD ch #[])).getD h 0 / scaling D N 0 (unflatten (wavenumberShape D N) h)) := by
    intro X hX
    rw [hX]
    by_cases hc : Nnew > N ∧ N % 2 = 0 ∧ ob = true
    · simp only [if_pos hc]
      srd
      simp only [scaling_nc D N hD hN, oddball_mask_entry_eq D N hD hN, mul_ite, mul_one, mul_zero]
    · simp only [if_neg hc]
      srd
      simp only [scaling_nc D N hD hN]
  simp only [hold _ rfl]
  apply tabC_congr; intro ch hch
  apply irfftnM_congr; intro h' hh'
  rw [tab_getD _ _ _ _ hh', tab_getD _ _ _ _ hh']
  have hzero : at2 (tab2 C (numModes D Nnew) fun i0 h => (0 : ℂ)) ch h' = 0 := by srd
  by_cases hc : N > Nnew ∧ Nnew % 2 = 0 ∧ ob = true
  · simp only [if_pos hc]
    srd
    rw [at2_block_copy D N Nnew C hD _ _ ch h' hch hh', hzero, scaling_nc D Nnew hD hNn,
      oddball_mask_entry_eq D Nnew hD hNn]
    cases hs : Interp.srcIndex D N Nnew (unflatten (wavenumberShape D Nnew) h') with
    | none => simp
    | some idx => simp only [at2_tab2_row _ _ _ _ _ hch, mul_ite, mul_one, mul_zero]
  · simp only [if_neg hc]
    srd
    rw [at2_block_copy D N Nnew C hD _ _ ch h' hch hh', hzero, scaling_nc D Nnew hD hNn]
    cases hs : Interp.srcIndex D N Nnew (unflatten (wavenumberShape D Nnew) h') with
    | none => simp
    | some idx => simp only [at2_tab2_row _ _ _ _ _ hch]

/-! ### the wrappers `fft`, `ifft` -/

theorem resolve_space_indices (n D : ℕ) :
    resolveAxes (n + D) (Gen.SpectralLayout.space_indices D) = trailingAxes (n + D) D := by
  rw [space_indices_eq]
  unfold resolveAxes trailingAxes
  rw [List.map_map]
  apply List.map_congr_left
  intro i hi
  have hi' : i < D := List.mem_range.mp hi
  simp only [Function.comp]
  have : ((i : ℤ) - (D : ℤ) < 0) := by omega
  rw [if_pos this]
  push_cast
  omega

/-- `fft(field, num_spatial_dims=D)` and `fft(field)` (one leading axis) are the row-wise model transform -/
theorem fft_eq (C D N : ℕ) (hD : 1 ≤ D) (field : MC ℂ) :
    fft [C] D N (some D) field = some (tabC C (fun i => rfftnM D N (field.getD i #[]))) ∧
    fft [C] D N none field = some (tabC C (fun i => rfftnM D N (field.getD i #[]))) := by
  have h1 : Int.toNat ((((([C] : List ℕ).length + D : ℕ) : ℕ) : ℤ) - ((1 : ℕ) : ℤ)) = D := by
    simp
  unfold fft
  simp only [h1]
  unfold jnp_rfftn
  simp only [resolve_space_indices, hD, true_and, ↓reduceIte]
  simp [shapeSize]

/-- two leading axes `(A, B)` (as in `derivative`), explicit `num_spatial_dims` -/
theorem fft_eq_two (A B D N : ℕ) (hD : 1 ≤ D) (field : MC ℂ) :
    fft [A, B] D N (some D) field = some (tabC (A * B) (fun i => rfftnM D N (field.getD i #[]))) := by
  unfold fft jnp_rfftn
  simp only [resolve_space_indices, hD, true_and, ↓reduceIte]
  simp [shapeSize]

/-- DISCREPANCY-free but noteworthy: without `num_spatial_dims`, an array with TWO leading axes is transformed over
    `ndim − 1 = D + 1` axes (the second leading axis included), which is outside the model -/
theorem fft_two_leading_inferred (A B D N : ℕ) (field : MC ℂ) : fft [A, B] D N none field = none := by
  unfold fft jnp_rfftn
  have hlen : Int.toNat (((([A, B] : List ℕ).length + D : ℕ) : ℤ) - ((1 : ℕ) : ℤ)) = D + 1 := by
    simp; omega
  rw [hlen]
  have : ¬ resolveAxes (([A, B] : List ℕ).length + D) (Gen.SpectralLayout.space_indices (D + 1))
        = trailingAxes (([A, B] : List ℕ).length + D) D := by
    intro h
    have := congrArg List.length h
    simp [resolveAxes, trailingAxes, space_indices_length] at this
  simp only [this, and_false, ↓reduceIte]

theorem ifft_eq (C D N : ℕ) (hD : 1 ≤ D) (fh : MC ℂ) :
    ifft [C] D N (some D) (some N) fh = some (tabC C (fun i => irfftnM D N (fh.getD i #[]))) ∧
    ifft [C] D N none (some N) fh = some (tabC C (fun i => irfftnM D N (fh.getD i #[]))) := by
  have h1 : Int.toNat ((((([C] : List ℕ).length + D : ℕ) : ℕ) : ℤ) - ((1 : ℕ) : ℤ)) = D := by
    simp
  unfold ifft
  simp only [h1]
  unfold jnp_irfftn
  simp only [resolve_space_indices, hD, true_and, spatial_shape_eq, spatialShape, ↓reduceIte]
  simp [shapeSize]

/-- the inference of `num_points`: `shape[-2]` for `D ≥ 2`, `ValueError` for `D = 1` -/
theorem ifft_infer_num_points (C D N : ℕ) (hD : 1 ≤ D) (fh : MC ℂ) :
    ifft [C] D N (some D) none fh
      = if 2 ≤ D then some (tabC C (fun i => irfftnM D N (fh.getD i #[]))) else none := by
  unfold ifft
  by_cases h2 : 2 ≤ D
  · have hN : ([C] ++ wavenumberShape D N).getD (([C] : List ℕ).length + D - 2) 0 = N := by
      have : ([C] : List ℕ).length + D - 2 = (D - 2) + 1 := by simp; omega
      rw [this]
      simp only [List.singleton_append, List.getD_cons_succ]
      rw [wavenumberShape_getD D N (D - 2) (by omega)]
      simp; omega
    simp only [ge_iff_le, h2, ↓reduceIte, hN]
    unfold jnp_irfftn
    simp only [resolve_space_indices, hD, true_and, spatial_shape_eq, spatialShape, ↓reduceIte]
    simp [shapeSize]
  · simp [h2]

/-! ### the generated lists are pinned: a new function / method / definition without a theorem breaks the build -/

theorem generated_defs_pinned : generated_defs =
    ["derivative", "make_incompressible", "get_spectrum", "get_fourier_coefficients", "map_between_resolutions",
     "fft", "ifft", "Poisson_init_inv_operator", "Poisson_step_fourier", "Poisson_step",
     "Wave_init_wavenumber_norm", "Wave_forward_transform", "Wave_inverse_transform", "Wave_step_fourier",
     "FourierInterpolator_init_state_hat_scaled", "FourierInterpolator_init_wavenumbers",
     "FourierInterpolator_call"] := rfl

theorem generated_spectral_functions_pinned : generated_spectral_functions =
    ["derivative", "fft", "get_fourier_coefficients", "get_spectrum", "ifft", "make_incompressible"] := rfl

/-- every top-level function of `exponax/_spectral.py` is translated by some translator -/
theorem untranslated_spectral_functions_pinned : untranslated_spectral_functions = [] := rfl

theorem interpolation_pinned :
    interpolation_functions = ["map_between_resolutions"] ∧ interpolation_classes = ["FourierInterpolator"] :=
  ⟨rfl, rfl⟩

/-- the methods that exist in the source and the ones translated here (`Poisson.__call__` is the shape guard around
    `step`; `Wave._build_linear_operator` is regenerated in `Generated/Steppers.lean`, `Wave._build_nonlinear_fun` is
    the zero function `Gen.NonlinFuns.ZeroNonlinearFun_call`, not used by the order-0 integrator) -/
theorem generated_methods_pinned : generated_methods =
    [("Poisson", ["__call__", "__init__", "step", "step_fourier"], ["step", "step_fourier", "__init__"]),
     ("Wave", ["__init__", "_build_linear_operator", "_build_nonlinear_fun", "_forward_transform",
               "_inverse_transform", "step_fourier"],
              ["_forward_transform", "_inverse_transform", "step_fourier", "__init__"]),
     ("FourierInterpolator", ["__call__", "__init__"], ["__call__", "__init__"])] := rfl

end Exponax.SpectralOpsEq
