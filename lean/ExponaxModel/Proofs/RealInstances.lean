import Mathlib.Analysis.SpecialFunctions.Pow.Real
import Mathlib.Tactic
import ExponaxModel.Proofs.Instances
/-
Real-number interpretation of the remaining operation-only classes (`HasRpow`, `HasLtB`), shared by
`MetricsAlgebra.lean` and `ICAlgebra.lean`, plus list/array sum helpers.
-/
namespace Exponax

noncomputable instance : HasRpow ℝ := ⟨Real.rpow⟩
noncomputable instance : HasLtB ℝ := ⟨fun a b => decide (a < b)⟩

@[simp] theorem hasRpow_real (x y : ℝ) : HasRpow.rpow x y = x ^ y := rfl
@[simp] theorem hasLtB_real (x y : ℝ) : HasLtB.ltb x y = decide (x < y) := rfl
@[simp] theorem hasAbs_real (x : ℝ) : HasAbs.abs x = |x| := rfl
@[simp] theorem hasSqrt_real (x : ℝ) : HasSqrt.sqrt x = Real.sqrt x := rfl

/-- `(range l.length).map (l.getD · d) = l` -/
theorem list_range_map_getD {α : Type} (l : List α) (d : α) :
    (List.range l.length).map (fun i => l.getD i d) = l := by
  apply List.ext_getElem
  · simp
  · intro i h1 h2
    simp [List.getD_eq_getElem?_getD, h2]

/-- a list sum as a `Finset.range` sum of its `getD` entries -/
theorem list_sum_eq_sum_range {M : Type} [AddCommMonoid M] (l : List M) (d : M) :
    l.sum = ∑ i ∈ Finset.range l.length, l.getD i d := by
  conv_lhs => rw [← list_range_map_getD l d]
  generalize l.length = n
  induction n with
  | zero => simp
  | succ n ih => rw [List.range_succ, List.map_append, List.sum_append, ih, Finset.sum_range_succ]; simp

theorem list_map_sum_eq_sum_range {α M : Type} [AddCommMonoid M] (l : List α) (d : α) (f : α → M) :
    (l.map f).sum = ∑ i ∈ Finset.range l.length, f (l.getD i d) := by
  rw [list_sum_eq_sum_range (l.map f) (f d), List.length_map]
  apply Finset.sum_congr rfl
  intro i hi
  have hi' := Finset.mem_range.mp hi
  simp [List.getD_eq_getElem?_getD, hi']

theorem array_toList_getD {α : Type} (u : Array α) (i : ℕ) (d : α) :
    u.toList.getD i d = u.getD i d := by
  simp [List.getD_eq_getElem?_getD, Array.getD_eq_getD_getElem?]

/-- the sum of `f` over the entries of an array, as a `Finset.range` sum -/
theorem array_map_sum_eq_sum_range {α M : Type} [AddCommMonoid M] (u : Array α) (d : α) (f : α → M) :
    (u.toList.map f).sum = ∑ i ∈ Finset.range u.size, f (u.getD i d) := by
  rw [list_map_sum_eq_sum_range u.toList d f, Array.length_toList]
  apply Finset.sum_congr rfl
  intro i _
  rw [array_toList_getD]

end Exponax
