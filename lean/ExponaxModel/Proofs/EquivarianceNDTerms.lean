import ExponaxModel.Proofs.EquivarianceND
/-
C08 in general dimension — Q2 (part 1): the nonlinear MODEL terms are translation equivariant
in every dimension `D`, for every channel count, every `N ≥ 1`, every shift vector `s : List ℤ`,
ARBITRARY complex stored spectra, any dealiasing fraction:

  convection (all four flag combinations), polynomial, reaction (ANY pointwise reaction function,
  hence Gray–Scott and Belousov–Zhabotinsky), Cahn–Hilliard.

Two forms for each term `T`:
* relation form  `T_mcShift : MCShift c s uh uh' → MCShift c s (T uh) (T uh')`  (compositional:
  ANY input pair whose channels differ by the shift phases on the stored modes), and
* explicit form  `T_equivariant : at2 (T (shiftMC c.D c.N s uh)) ch h = shiftPhaseND c.D c.N s h * at2 (T uh) ch h`
  for every channel `ch` and every stored mode `h < modes c`.
-/
set_option linter.unusedVariables false
namespace Exponax.EquivND
open Exponax Exponax.Layout Exponax.Transform Exponax.Nonlin Exponax.Alias Exponax.Symmetry
open Exponax.SymmetryND Finset

/-- the physical fields of all channels: `ifft(mask·û_ch)` are rolled -/
theorem mcRoll_nifft (c : Cfg ℂ) (hN : 0 < c.N) (s : List ℤ) (C : ℕ) (uh uh' : MC ℂ)
    (h : MCShift c s uh uh') :
    MCRoll c s (tabC C fun ch => nifft c (uh.getD ch #[])) (tabC C fun ch => nifft c (uh'.getD ch #[])) :=
  mcRoll_tabC c s C _ _ (fun ch _ => nifft_fieldRoll c hN s _ _ (mcShift_specShift h ch))

/-! ## convection -/

/-- **Q2, convection (relation form)**: all four flag combinations, any channel count `C`. -/
theorem convection_mcShift (c : Cfg ℂ) (hN : 0 < c.N) (C : ℕ) (scale : ℂ) (single conservative : Bool)
    (s : List ℤ) (uh uh' : MC ℂ) (h : MCShift c s uh uh') :
    MCShift c s (convection c C scale single conservative uh)
      (convection c C scale single conservative uh') := by
  have hu := mcRoll_nifft c hN s C uh uh' h
  unfold convection
  simp only []
  generalize (tabC C fun ch => nifft c (uh.getD ch #[])) = U at hu ⊢
  generalize (tabC C fun ch => nifft c (uh'.getD ch #[])) = U' at hu ⊢
  cases single <;> cases conservative <;>
    simp only [↓reduceIte, Bool.false_eq_true]
  · -- multi-channel, non-conservative: `Σ_j u_j ∂_j u_i`
    have hnab : MCRoll c s
        (tabC (C * C) fun ij => nifft c (tab (modes c) fun m => deriv c (ij % C) m * at2 uh (ij / C) m))
        (tabC (C * C) fun ij => nifft c (tab (modes c) fun m => deriv c (ij % C) m * at2 uh' (ij / C) m)) :=
      mcRoll_tabC c s _ _ _ (fun ij _ => nifft_fieldRoll c hN s _ _
        (specShift_tab c s _ _ (fun m hm => by rw [h _ m hm]; ring)))
    generalize (tabC (C * C) fun ij => nifft c (tab (modes c) fun m =>
      deriv c (ij % C) m * at2 uh (ij / C) m)) = NAB at hnab ⊢
    generalize (tabC (C * C) fun ij => nifft c (tab (modes c) fun m =>
      deriv c (ij % C) m * at2 uh' (ij / C) m)) = NAB' at hnab ⊢
    have hconv : MCShift c s
        (tabC C fun i => nfft c (tab (gridSize c) fun x =>
          sumList ((List.range C).map fun j => at2 U j x * at2 NAB (i * C + j) x)))
        (tabC C fun i => nfft c (tab (gridSize c) fun x =>
          sumList ((List.range C).map fun j => at2 U' j x * at2 NAB' (i * C + j) x))) :=
      mcShift_tabC c s C _ _ (fun i _ => nfft_specShift c hN s _ _
        (fieldRoll_tab c s _ _ (fun x hx => by simp only [hu _ x hx, hnab _ x hx])))
    refine mcShift_tab2 c s C _ _ (fun i _ m hm => ?_)
    rw [hconv i m hm]
    ring
  · -- multi-channel, conservative: `½ Σ_j ∂_j (u_j u_i)`
    have houter : MCShift c s
        (tabC (C * C) fun ij => nfft c (tab (gridSize c) fun x => at2 U (ij % C) x * at2 U (ij / C) x))
        (tabC (C * C) fun ij => nfft c (tab (gridSize c) fun x => at2 U' (ij % C) x * at2 U' (ij / C) x)) :=
      mcShift_tabC c s _ _ _ (fun ij _ => nfft_specShift c hN s _ _
        (fieldRoll_tab c s _ _ (fun x hx => by rw [hu _ x hx, hu _ x hx])))
    generalize (tabC (C * C) fun ij => nfft c (tab (gridSize c) fun x =>
      at2 U (ij % C) x * at2 U (ij / C) x)) = OUT at houter ⊢
    generalize (tabC (C * C) fun ij => nfft c (tab (gridSize c) fun x =>
      at2 U' (ij % C) x * at2 U' (ij / C) x)) = OUT' at houter ⊢
    refine mcShift_tab2 c s C _ _ (fun i _ m hm => ?_)
    rw [sumList_phase C (shiftPhaseND c.D c.N s m) (fun j => deriv c j m * at2 OUT (i * C + j) m) _
      (fun j _ => by rw [houter _ m hm]; ring)]
    ring
  · -- single channel, non-conservative: `u Σ_d ∂_d u`
    have hnab : MCRoll c s
        (tabC c.D fun d => nifft c (tab (modes c) fun m => deriv c d m * at2 uh 0 m))
        (tabC c.D fun d => nifft c (tab (modes c) fun m => deriv c d m * at2 uh' 0 m)) :=
      mcRoll_tabC c s _ _ _ (fun d _ => nifft_fieldRoll c hN s _ _
        (specShift_tab c s _ _ (fun m hm => by rw [h _ m hm]; ring)))
    generalize (tabC c.D fun d => nifft c (tab (modes c) fun m => deriv c d m * at2 uh 0 m)) = NAB
      at hnab ⊢
    generalize (tabC c.D fun d => nifft c (tab (modes c) fun m => deriv c d m * at2 uh' 0 m)) = NAB'
      at hnab ⊢
    have hconv : SpecShift c s
        (nfft c (tab (gridSize c) fun j =>
          sumList ((List.range c.D).map fun d => at2 U 0 j * at2 NAB d j)))
        (nfft c (tab (gridSize c) fun j =>
          sumList ((List.range c.D).map fun d => at2 U' 0 j * at2 NAB' d j))) :=
      nfft_specShift c hN s _ _
        (fieldRoll_tab c s _ _ (fun x hx => by simp only [hu _ x hx, hnab _ x hx]))
    refine mcShift_tab2 c s 1 _ _ (fun i _ m hm => ?_)
    rw [hconv m hm]
    ring
  · -- single channel, conservative: `½ Σ_d ∂_d (u²)` on every channel
    have hsq : MCShift c s
        (tabC C fun ch => nfft c (tab (gridSize c) fun j => at2 U ch j * at2 U ch j))
        (tabC C fun ch => nfft c (tab (gridSize c) fun j => at2 U' ch j * at2 U' ch j)) :=
      mcShift_tabC c s _ _ _ (fun ch _ => nfft_specShift c hN s _ _
        (fieldRoll_tab c s _ _ (fun x hx => by rw [hu _ x hx])))
    refine mcShift_tab2 c s C _ _ (fun ch _ m hm => ?_)
    rw [hsq ch m hm]
    ring

/-- **Q2, convection (explicit form).**  `convection(phase ⊙ û) = phase ⊙ convection(û)` at every
    channel and every stored mode; all four variants, any `C`, any `D`, every `N ≥ 1`. -/
theorem convection_equivariant_nd (c : Cfg ℂ) (hN : 0 < c.N) (C : ℕ) (scale : ℂ)
    (single conservative : Bool) (s : List ℤ) (uh : MC ℂ) (ch h : ℕ) (hh : h < modes c) :
    at2 (convection c C scale single conservative (shiftMC c.D c.N s uh)) ch h
      = shiftPhaseND c.D c.N s h * at2 (convection c C scale single conservative uh) ch h :=
  convection_mcShift c hN C scale single conservative s _ _ (mcShift_shiftMC c s uh) ch h hh

/-! ## polynomial -/

/-- **Q2, polynomial nonlinearity (relation form)**: any coefficient list, any channel count. -/
theorem polynomial_mcShift (c : Cfg ℂ) (hN : 0 < c.N) (C : ℕ) (coeffs : List ℂ) (s : List ℤ)
    (uh uh' : MC ℂ) (h : MCShift c s uh uh') :
    MCShift c s (polynomial c C coeffs uh) (polynomial c C coeffs uh') := by
  have hu := mcRoll_nifft c hN s C uh uh' h
  unfold polynomial
  simp only []
  exact mcShift_tabC c s C _ _ (fun ch _ => nfft_specShift c hN s _ _
    (fieldRoll_tab c s _ _ (fun x hx => by rw [hu _ x hx])))

/-- **Q2, polynomial (explicit form).** -/
theorem polynomial_equivariant_nd (c : Cfg ℂ) (hN : 0 < c.N) (C : ℕ) (coeffs : List ℂ) (s : List ℤ)
    (uh : MC ℂ) (ch h : ℕ) (hh : h < modes c) :
    at2 (polynomial c C coeffs (shiftMC c.D c.N s uh)) ch h
      = shiftPhaseND c.D c.N s h * at2 (polynomial c C coeffs uh) ch h :=
  polynomial_mcShift c hN C coeffs s _ _ (mcShift_shiftMC c s uh) ch h hh

/-! ## reaction -/

/-- **Q2, reaction nonlinearity (relation form)**: ANY pointwise reaction function
    `react : List ℂ → List ℂ` of the channel values, any channel count. -/
theorem reaction_mcShift (c : Cfg ℂ) (hN : 0 < c.N) (C : ℕ) (react : List ℂ → List ℂ) (s : List ℤ)
    (uh uh' : MC ℂ) (h : MCShift c s uh uh') :
    MCShift c s (reaction c C react uh) (reaction c C react uh') := by
  have hu : MCRoll c s
      (tabC C fun ch => nifft c (tab (modes c) fun m => mask c m * at2 uh ch m))
      (tabC C fun ch => nifft c (tab (modes c) fun m => mask c m * at2 uh' ch m)) :=
    mcRoll_tabC c s _ _ _ (fun ch _ => nifft_fieldRoll c hN s _ _
      (specShift_tab c s _ _ (fun m hm => by rw [h _ m hm]; ring)))
  unfold reaction
  simp only []
  generalize (tabC C fun ch => nifft c (tab (modes c) fun m => mask c m * at2 uh ch m)) = U at hu ⊢
  generalize (tabC C fun ch => nifft c (tab (modes c) fun m => mask c m * at2 uh' ch m)) = U' at hu ⊢
  have hr : MCRoll c s
      (tab2 C (gridSize c) fun ch x => (react ((List.range C).map fun k => at2 U k x)).getD ch 0)
      (tab2 C (gridSize c) fun ch x => (react ((List.range C).map fun k => at2 U' k x)).getD ch 0) :=
    mcRoll_tab2 c s C _ _ (fun ch _ x hx => by simp only [hu _ x hx])
  exact mcShift_tabC c s C _ _ (fun ch _ => nfft_specShift c hN s _ _ (mcRoll_fieldRoll hr ch))

/-- **Q2, reaction (explicit form).** -/
theorem reaction_equivariant_nd (c : Cfg ℂ) (hN : 0 < c.N) (C : ℕ) (react : List ℂ → List ℂ)
    (s : List ℤ) (uh : MC ℂ) (ch h : ℕ) (hh : h < modes c) :
    at2 (reaction c C react (shiftMC c.D c.N s uh)) ch h
      = shiftPhaseND c.D c.N s h * at2 (reaction c C react uh) ch h :=
  reaction_mcShift c hN C react s _ _ (mcShift_shiftMC c s uh) ch h hh

/-- Gray–Scott (two channels, any feed / kill rates) -/
theorem grayScott_equivariant_nd (c : Cfg ℂ) (hN : 0 < c.N) (feed kill : ℂ) (s : List ℤ)
    (uh : MC ℂ) (ch h : ℕ) (hh : h < modes c) :
    at2 (reaction c 2 (grayScottReact feed kill) (shiftMC c.D c.N s uh)) ch h
      = shiftPhaseND c.D c.N s h * at2 (reaction c 2 (grayScottReact feed kill) uh) ch h :=
  reaction_equivariant_nd c hN 2 _ s uh ch h hh

/-- Belousov–Zhabotinsky (three channels) -/
theorem bz_equivariant_nd (c : Cfg ℂ) (hN : 0 < c.N) (s : List ℤ) (uh : MC ℂ) (ch h : ℕ)
    (hh : h < modes c) :
    at2 (reaction c 3 bzReact (shiftMC c.D c.N s uh)) ch h
      = shiftPhaseND c.D c.N s h * at2 (reaction c 3 bzReact uh) ch h :=
  reaction_equivariant_nd c hN 3 _ s uh ch h hh

/-! ## Cahn–Hilliard -/

/-- **Q2, Cahn–Hilliard cubic term (relation form).** -/
theorem cahnHilliard_mcShift (c : Cfg ℂ) (hN : 0 < c.N) (scale : ℂ) (s : List ℤ)
    (uh uh' : MC ℂ) (h : MCShift c s uh uh') :
    MCShift c s (cahnHilliard c scale uh) (cahnHilliard c scale uh') := by
  have hu : FieldRoll c s
      (nifft c (tab (modes c) fun m => mask c m * at2 uh 0 m))
      (nifft c (tab (modes c) fun m => mask c m * at2 uh' 0 m)) :=
    nifft_fieldRoll c hN s _ _ (specShift_tab c s _ _ (fun m hm => by rw [h _ m hm]; ring))
  unfold cahnHilliard
  simp only []
  generalize (nifft c (tab (modes c) fun m => mask c m * at2 uh 0 m)) = U at hu ⊢
  generalize (nifft c (tab (modes c) fun m => mask c m * at2 uh' 0 m)) = U' at hu ⊢
  have hcube : SpecShift c s
      (nfft c (tab (gridSize c) fun x => U.getD x 0 * U.getD x 0 * U.getD x 0))
      (nfft c (tab (gridSize c) fun x => U'.getD x 0 * U'.getD x 0 * U'.getD x 0)) :=
    nfft_specShift c hN s _ _ (fieldRoll_tab c s _ _ (fun x hx => by rw [hu x hx]))
  refine mcShift_tab2 c s 1 _ _ (fun i _ m hm => ?_)
  rw [hcube m hm]
  ring

/-- **Q2, Cahn–Hilliard (explicit form).** -/
theorem cahnHilliard_equivariant_nd (c : Cfg ℂ) (hN : 0 < c.N) (scale : ℂ) (s : List ℤ)
    (uh : MC ℂ) (ch h : ℕ) (hh : h < modes c) :
    at2 (cahnHilliard c scale (shiftMC c.D c.N s uh)) ch h
      = shiftPhaseND c.D c.N s h * at2 (cahnHilliard c scale uh) ch h :=
  cahnHilliard_mcShift c hN scale s _ _ (mcShift_shiftMC c s uh) ch h hh

/-! ## non-vacuity -/

example : ∃ (c : Cfg ℂ) (ch h : ℕ), 0 < c.N ∧ h < modes c :=
  ⟨⟨2, 4, 1, 2, 3⟩, 1, 5, by norm_num, by decide⟩
example : ∃ (c : Cfg ℂ) (ch h : ℕ), 0 < c.N ∧ h < modes c :=
  ⟨⟨3, 3, 1, 2, 3⟩, 2, 17, by norm_num, by decide⟩

end Exponax.EquivND
