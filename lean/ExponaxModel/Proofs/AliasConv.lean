import ExponaxModel.Proofs.DFT1DMain
import ExponaxModel.Proofs.LayoutLemmas
/-
C03, part 1 (pure DFT facts, no model pipeline yet):

  A1  circular convolution theorem for the full `N`-point DFT `dft`,
  A2  its three-factor version,
  A3  band-limited factors ⇒ the circular convolution is a LINEAR convolution over the band
      (no wrapped-around term contributes): quadratic with `3K < N`, cubic with `4K < N`.
-/
namespace Exponax.Alias
open Exponax Exponax.Layout Exponax.Transform Exponax.DFT Finset

/-! ### elementary facts about `dft` -/

/-- `dft` only looks at the entries `j < N` -/
theorem dft_congr (N : ℕ) (u v : Array ℂ) (huv : ∀ j < N, u.getD j 0 = v.getD j 0) (h : ℤ) :
    dft N u h = dft N v h := by
  unfold dft
  exact Finset.sum_congr rfl (fun j hj => by rw [huv j (Finset.mem_range.mp hj)])

theorem dft_tab (N : ℕ) (f : ℕ → ℂ) (h : ℤ) :
    dft N (tab N f) h = ∑ j ∈ range N, f j * zeta N ^ (h * (j : ℤ)) := by
  unfold dft
  exact Finset.sum_congr rfl (fun j hj => by rw [DFT.tab_getD _ _ _ _ (Finset.mem_range.mp hj)])

/-- `dft` is `N`-periodic in the wavenumber: congruent wavenumbers give the same coefficient -/
theorem dft_of_dvd (N : ℕ) (u : Array ℂ) (a b : ℤ) (hd : (N : ℤ) ∣ a - b) : dft N u a = dft N u b := by
  obtain ⟨k, hk⟩ := hd
  rw [show a = b + (N : ℤ) * k by linarith, dft_add_period]

theorem dft_add (N : ℕ) (f g : ℕ → ℂ) (h : ℤ) :
    dft N (tab N fun j => f j + g j) h = dft N (tab N f) h + dft N (tab N g) h := by
  simp only [dft_tab, ← Finset.sum_add_distrib, add_mul]

theorem dft_smul (N : ℕ) (a : ℂ) (f : ℕ → ℂ) (h : ℤ) :
    dft N (tab N fun j => a * f j) h = a * dft N (tab N f) h := by
  simp only [dft_tab, Finset.mul_sum, mul_assoc]

/-- the DFT of a constant field: `N·a` on the wavenumbers `≡ 0`, else `0` -/
theorem dft_const (N : ℕ) (hN : 0 < N) (a : ℂ) (h : ℤ) :
    dft N (tab N fun _ => a) h = if (N : ℤ) ∣ h then a * (N : ℂ) else 0 := by
  rw [dft_tab, ← Finset.mul_sum, zeta_sum_zpow N hN]
  split_ifs <;> simp

/-! ### A1 — circular convolution theorem -/

/-- **A1. Circular convolution theorem.**  The DFT of a pointwise product is `1/N` times the
    circular convolution of the DFTs. -/
theorem dft_mul (N : ℕ) (hN : 0 < N) (u v : Array ℂ) (h : ℤ) :
    dft N (tab N fun j => u.getD j 0 * v.getD j 0) h
      = (1 / (N : ℂ)) * ∑ a ∈ range N, dft N u a * dft N v (h - a) := by
  have hNne : (N : ℂ) ≠ 0 := by exact_mod_cast hN.ne'
  have key := dft_cross N hN (fun j => u.getD j 0) (fun j => v.getD j 0 * zeta N ^ (h * (j : ℤ)))
  have hR : ∀ a ∈ range N, dft N u a * dft N v (h - a)
      = (∑ j ∈ range N, u.getD j 0 * zeta N ^ ((a : ℤ) * (j : ℤ))) *
        (∑ j ∈ range N, v.getD j 0 * zeta N ^ (h * (j : ℤ)) * zeta N ^ (-((a : ℤ) * (j : ℤ)))) := by
    intro a _
    unfold dft
    congr 1
    apply Finset.sum_congr rfl
    intro j _
    rw [mul_assoc, ← zpow_add₀ (zeta_ne_zero N)]
    congr 2
    ring
  rw [Finset.sum_congr rfl hR, key, dft_tab]
  rw [← mul_assoc, one_div, inv_mul_cancel₀ hNne, one_mul]
  exact Finset.sum_congr rfl (fun j _ => by ring)

/-- A1 for fields given as functions -/
theorem dft_mul_fun (N : ℕ) (hN : 0 < N) (f g : ℕ → ℂ) (h : ℤ) :
    dft N (tab N fun j => f j * g j) h
      = (1 / (N : ℂ)) * ∑ a ∈ range N, dft N (tab N f) a * dft N (tab N g) (h - a) := by
  rw [← dft_mul N hN]
  apply dft_congr
  intro j hj
  rw [DFT.tab_getD _ _ _ _ hj, DFT.tab_getD _ _ _ _ hj, DFT.tab_getD _ _ _ _ hj, DFT.tab_getD _ _ _ _ hj]

/-! ### A2 — three factors -/

/-- **A2. Cubic convolution theorem.** -/
theorem dft_mul3 (N : ℕ) (hN : 0 < N) (u v w : Array ℂ) (h : ℤ) :
    dft N (tab N fun j => u.getD j 0 * v.getD j 0 * w.getD j 0) h
      = (1 / (N : ℂ) ^ 2) * ∑ a ∈ range N, ∑ b ∈ range N,
          dft N u a * dft N v b * dft N w (h - a - b) := by
  have e1 : dft N (tab N fun j => u.getD j 0 * v.getD j 0 * w.getD j 0) h
      = dft N (tab N fun j => u.getD j 0 * (tab N fun i => v.getD i 0 * w.getD i 0).getD j 0) h := by
    apply dft_congr
    intro j hj
    rw [DFT.tab_getD _ _ _ _ hj, DFT.tab_getD _ _ _ _ hj, DFT.tab_getD _ _ _ _ hj, mul_assoc]
  rw [e1, dft_mul N hN]
  simp only [dft_mul N hN, Finset.mul_sum]
  apply Finset.sum_congr rfl
  intro a _
  apply Finset.sum_congr rfl
  intro b _
  ring

/-! ### A3 — band-limited factors: no aliasing -/

/-- the spectrum of `u` is supported on the wavenumbers `|m| ≤ K` modulo `N`
    (`K < 0`: the spectrum vanishes identically).  `K : ℤ`; a natural `K` is coerced. -/
def BandLimited (N : ℕ) (K : ℤ) (u : Array ℂ) : Prop :=
  ∀ a : ℤ, (¬ ∃ m : ℤ, |m| ≤ K ∧ (N : ℤ) ∣ (a - m)) → dft N u a = 0

/-- band truncation of a spectrum `F : ℤ → ℂ` (NOT periodised): keep `|m| ≤ K` -/
noncomputable def trunc (K : ℤ) (F : ℤ → ℂ) (m : ℤ) : ℂ := if |m| ≤ K then F m else 0

theorem trunc_of_le (K : ℤ) (F : ℤ → ℂ) (m : ℤ) (h : |m| ≤ K) : trunc K F m = F m := if_pos h

theorem trunc_of_gt (K : ℤ) (F : ℤ → ℂ) (m : ℤ) (h : ¬ |m| ≤ K) : trunc K F m = 0 := if_neg h

/-- sum of an `N`-periodic function over one period `[c, c+N)` -/
theorem sum_range_eq_sum_Ico (N : ℕ) (f : ℤ → ℂ) (hf : ∀ i, f (i + N) = f i) (c : ℤ) :
    ∑ j ∈ range N, f (j : ℤ) = ∑ a ∈ Finset.Ico c (c + N), f a := by
  rw [← sum_range_periodic_shift N f hf c]
  apply Finset.sum_bij' (fun (j : ℕ) _ => (j : ℤ) + c) (fun (a : ℤ) _ => (a - c).toNat)
  · intro j hj
    rw [Finset.mem_range] at hj
    rw [Finset.mem_Ico]; omega
  · intro a ha
    rw [Finset.mem_Ico] at ha
    rw [Finset.mem_range]; omega
  · intro j _
    show ((j : ℤ) + c - c).toNat = j
    omega
  · intro a ha
    rw [Finset.mem_Ico] at ha
    show (((a - c).toNat : ℕ) : ℤ) + c = a
    omega
  · intro j _; rfl

/-- which wavenumbers in the window `[-K, N-K)` are congruent to a band wavenumber: only the band itself -/
theorem window_not_band (N : ℕ) (K : ℤ) (a : ℤ) (ha : a ∈ Finset.Ico (-K) (-K + N))
    (hna : a ∉ Finset.Icc (-K) K) : ¬ ∃ m : ℤ, |m| ≤ K ∧ (N : ℤ) ∣ (a - m) := by
  rintro ⟨m, hm, hd⟩
  rw [Finset.mem_Ico] at ha
  rw [Finset.mem_Icc] at hna
  rw [abs_le] at hm
  have : a - m = 0 := by
    apply Int.eq_zero_of_abs_lt_dvd hd
    rw [abs_lt]; constructor <;> omega
  omega

/-- the sum over one period of an `N`-periodic function supported (mod `N`) on the band `|m| ≤ K`,
    `2K < N`, is the sum over the band -/
theorem sum_range_band (N : ℕ) (K : ℤ) (hK : 2 * K < (N : ℤ)) (f : ℤ → ℂ) (hf : ∀ i, f (i + N) = f i)
    (hsupp : ∀ a : ℤ, (¬ ∃ m : ℤ, |m| ≤ K ∧ (N : ℤ) ∣ (a - m)) → f a = 0) :
    ∑ j ∈ range N, f (j : ℤ) = ∑ m ∈ Finset.Icc (-K) K, f m := by
  rw [sum_range_eq_sum_Ico N f hf (-K)]
  symm
  apply Finset.sum_subset
  · intro a ha
    rw [Finset.mem_Icc] at ha
    rw [Finset.mem_Ico]; omega
  · intro a ha hna
    exact hsupp a (window_not_band N K a ha hna)

/-- **A3 (which terms could alias).**  With `3K < N`, band wavenumbers `a, b` and a band
    target `h`: `a + b ≡ h (mod N)` forces `a + b = h` — no wrapped-around pair exists. -/
theorem band_no_alias_quadratic (N : ℕ) (K : ℤ) (hK : 3 * K < (N : ℤ)) (a b h : ℤ)
    (ha : |a| ≤ K) (hb : |b| ≤ K) (hh : |h| ≤ K) (hd : (N : ℤ) ∣ (a + b - h)) : a + b = h :=
  no_alias_quadratic N K hK a b h ha hb hh hd

theorem band_no_alias_cubic (N : ℕ) (K : ℤ) (hK : 4 * K < (N : ℤ)) (a b c h : ℤ)
    (ha : |a| ≤ K) (hb : |b| ≤ K) (hc : |c| ≤ K) (hh : |h| ≤ K) (hd : (N : ℤ) ∣ (a + b + c - h)) :
    a + b + c = h :=
  no_alias_cubic N K hK a b c h ha hb hc hh hd

/-- a band-limited spectrum evaluated at `n` with `K < |n| ≤ L`, `K + L < N`, vanishes:
    `n` is not congruent to any band wavenumber -/
theorem BandLimited.eq_zero_of_abs {N : ℕ} {K : ℤ} {u : Array ℂ} (hu : BandLimited N K u)
    (L : ℤ) (hKL : K + L < (N : ℤ)) (n : ℤ) (hn1 : ¬ |n| ≤ K) (hn2 : |n| ≤ L) : dft N u n = 0 := by
  apply hu
  rintro ⟨m, hm, hd⟩
  have hn1' : K < |n| := not_le.mp hn1
  rw [abs_le] at hm hn2
  have : n - m = 0 := by
    apply Int.eq_zero_of_abs_lt_dvd hd
    rw [abs_lt]; constructor <;> omega
  have : n = m := by omega
  rw [this, lt_abs] at hn1'
  omega

/-- on differences of band wavenumbers the band-limited spectrum equals its (non-periodic) truncation -/
theorem BandLimited.dft_eq_trunc {N : ℕ} {K : ℤ} {u : Array ℂ} (hu : BandLimited N K u)
    (L : ℤ) (hKL : K + L < (N : ℤ)) (n : ℤ) (hn2 : |n| ≤ L) : dft N u n = trunc K (dft N u) n := by
  by_cases hn : |n| ≤ K
  · rw [trunc_of_le _ _ _ hn]
  · rw [trunc_of_gt _ _ _ hn, hu.eq_zero_of_abs L hKL n hn hn2]

/-- **A3 (circular = band sum).**  If `u` is band-limited to `|m| ≤ K` and `2K < N`, then for EVERY
    `h : ℤ` and every `v` the circular convolution reduces to the sum over the band of `u`. -/
theorem dft_mul_band (N : ℕ) (hN : 0 < N) (K : ℤ) (hK : 2 * K < (N : ℤ)) (u v : Array ℂ)
    (hu : BandLimited N K u) (h : ℤ) :
    dft N (tab N fun j => u.getD j 0 * v.getD j 0) h
      = (1 / (N : ℂ)) * ∑ m ∈ Finset.Icc (-K) K, dft N u m * dft N v (h - m) := by
  rw [dft_mul N hN]
  congr 1
  refine sum_range_band N K hK (fun a => dft N u a * dft N v (h - a)) ?_ ?_
  · intro i
    show dft N u (i + N) * dft N v (h - (i + N)) = _
    rw [show i + (N : ℤ) = i + (N : ℤ) * 1 by ring, dft_add_period,
      show h - (i + (N : ℤ) * 1) = (h - i) + (N : ℤ) * (-1) by ring, dft_add_period]
  · intro a ha
    show dft N u a * dft N v (h - a) = 0
    rw [hu a ha, zero_mul]

/-- **A3. Band-limited ⇒ no aliasing (quadratic).**  If `u`, `v` are band-limited to `|m| ≤ K` and
    `3K < N` then for every retained wavenumber `|h| ≤ K`

      `dft (u·v) h = (1/N) Σ_{m=-K}^{K} U_m V_{h-m}`

    (a linear convolution over the band; `V_{h-m}` is never a wrapped-around coefficient, see
    `dft_mul_no_alias'`). -/
theorem dft_mul_no_alias (N : ℕ) (hN : 0 < N) (K : ℤ) (hK : 3 * K < (N : ℤ)) (u v : Array ℂ)
    (hu : BandLimited N K u) (_hv : BandLimited N K v) (h : ℤ) (_hh : |h| ≤ K) :
    dft N (tab N fun j => u.getD j 0 * v.getD j 0) h
      = (1 / (N : ℂ)) * ∑ m ∈ Finset.Icc (-K) K, dft N u m * dft N v (h - m) := by
  rcases lt_or_ge K 0 with hneg | hpos
  · exact dft_mul_band N hN K (by omega) u v hu h
  · exact dft_mul_band N hN K (by omega) u v hu h

/-- **A3, alias-free form.**  Same hypotheses; the right-hand side is the linear convolution of
    the two TRUNCATED (non-periodised) spectra, i.e. `N` times the `h`-th Fourier coefficient of
    the product of the two trigonometric polynomials `(1/N) Σ_{|m|≤K} U_m e^{imx}`,
    `(1/N) Σ_{|m|≤K} V_m e^{imx}`: no wrapped-around term contributes. -/
theorem dft_mul_no_alias' (N : ℕ) (hN : 0 < N) (K : ℤ) (hK : 3 * K < (N : ℤ)) (u v : Array ℂ)
    (hu : BandLimited N K u) (hv : BandLimited N K v) (h : ℤ) (hh : |h| ≤ K) :
    dft N (tab N fun j => u.getD j 0 * v.getD j 0) h
      = (1 / (N : ℂ)) * ∑ m ∈ Finset.Icc (-K) K,
          trunc K (dft N u) m * trunc K (dft N v) (h - m) := by
  rw [dft_mul_no_alias N hN K hK u v hu hv h hh]
  congr 1
  apply Finset.sum_congr rfl
  intro m hm
  rw [Finset.mem_Icc] at hm
  have hm' : |m| ≤ K := abs_le.mpr ⟨hm.1, hm.2⟩
  rw [trunc_of_le _ _ _ hm']
  congr 1
  apply hv.dft_eq_trunc (2 * K) (by omega)
  rw [abs_le] at hh hm' ⊢
  constructor <;> omega

/-- A3 cubic: reduction of the double circular sum to the band of `u` and `v` (`2K < N`), every `h` -/
theorem dft_mul3_band (N : ℕ) (hN : 0 < N) (K : ℤ) (hK : 2 * K < (N : ℤ)) (u v w : Array ℂ)
    (hu : BandLimited N K u) (hv : BandLimited N K v) (h : ℤ) :
    dft N (tab N fun j => u.getD j 0 * v.getD j 0 * w.getD j 0) h
      = (1 / (N : ℂ) ^ 2) * ∑ a ∈ Finset.Icc (-K) K, ∑ b ∈ Finset.Icc (-K) K,
          dft N u a * dft N v b * dft N w (h - a - b) := by
  rw [dft_mul3 N hN]
  congr 1
  have inner : ∀ a : ℤ, ∑ b ∈ range N, dft N u a * dft N v b * dft N w (h - a - b)
      = ∑ b ∈ Finset.Icc (-K) K, dft N u a * dft N v b * dft N w (h - a - b) := by
    intro a
    refine sum_range_band N K hK (fun b => dft N u a * dft N v b * dft N w (h - a - b)) ?_ ?_
    · intro i
      show dft N u a * dft N v (i + N) * dft N w (h - a - (i + N)) = _
      rw [show i + (N : ℤ) = i + (N : ℤ) * 1 by ring, dft_add_period,
        show h - a - (i + (N : ℤ) * 1) = (h - a - i) + (N : ℤ) * (-1) by ring, dft_add_period]
    · intro b hb
      show dft N u a * dft N v b * dft N w (h - a - b) = 0
      rw [hv b hb, mul_zero, zero_mul]
  simp only [inner]
  refine sum_range_band N K hK
    (fun a => ∑ b ∈ Finset.Icc (-K) K, dft N u a * dft N v b * dft N w (h - a - b)) ?_ ?_
  · intro i
    show ∑ b ∈ Finset.Icc (-K) K, dft N u (i + N) * dft N v b * dft N w (h - (i + N) - b) = _
    apply Finset.sum_congr rfl
    intro b _
    rw [show i + (N : ℤ) = i + (N : ℤ) * 1 by ring, dft_add_period,
      show h - (i + (N : ℤ) * 1) - b = (h - i - b) + (N : ℤ) * (-1) by ring, dft_add_period]
  · intro a ha
    show ∑ b ∈ Finset.Icc (-K) K, dft N u a * dft N v b * dft N w (h - a - b) = 0
    apply Finset.sum_eq_zero
    intro b _
    rw [hu a ha, zero_mul, zero_mul]

/-- **A3 cubic. Band-limited ⇒ no aliasing** with `4K < N`, alias-free (truncated spectra) form. -/
theorem dft_mul3_no_alias' (N : ℕ) (hN : 0 < N) (K : ℤ) (hK : 4 * K < (N : ℤ)) (u v w : Array ℂ)
    (hu : BandLimited N K u) (hv : BandLimited N K v) (hw : BandLimited N K w)
    (h : ℤ) (hh : |h| ≤ K) :
    dft N (tab N fun j => u.getD j 0 * v.getD j 0 * w.getD j 0) h
      = (1 / (N : ℂ) ^ 2) * ∑ a ∈ Finset.Icc (-K) K, ∑ b ∈ Finset.Icc (-K) K,
          trunc K (dft N u) a * trunc K (dft N v) b * trunc K (dft N w) (h - a - b) := by
  have h2 : 2 * K < (N : ℤ) := by
    rcases lt_or_ge K 0 with hneg | hpos <;> omega
  rw [dft_mul3_band N hN K h2 u v w hu hv h]
  congr 1
  apply Finset.sum_congr rfl
  intro a ha
  apply Finset.sum_congr rfl
  intro b hb
  rw [Finset.mem_Icc] at ha hb
  have ha' : |a| ≤ K := abs_le.mpr ⟨ha.1, ha.2⟩
  have hb' : |b| ≤ K := abs_le.mpr ⟨hb.1, hb.2⟩
  rw [trunc_of_le _ _ _ ha', trunc_of_le _ _ _ hb']
  congr 1
  apply hw.dft_eq_trunc (3 * K) (by omega)
  rw [abs_le] at hh ha' hb' ⊢
  constructor <;> omega

/-- A3 cubic in the un-truncated form -/
theorem dft_mul3_no_alias (N : ℕ) (hN : 0 < N) (K : ℤ) (hK : 4 * K < (N : ℤ)) (u v w : Array ℂ)
    (hu : BandLimited N K u) (hv : BandLimited N K v) (_hw : BandLimited N K w)
    (h : ℤ) (_hh : |h| ≤ K) :
    dft N (tab N fun j => u.getD j 0 * v.getD j 0 * w.getD j 0) h
      = (1 / (N : ℂ) ^ 2) * ∑ a ∈ Finset.Icc (-K) K, ∑ b ∈ Finset.Icc (-K) K,
          dft N u a * dft N v b * dft N w (h - a - b) := by
  have h2 : 2 * K < (N : ℤ) := by
    rcases lt_or_ge K 0 with hneg | hpos <;> omega
  exact dft_mul3_band N hN K h2 u v w hu hv h

/-! ### interpretation: trigonometric polynomials

`sum_trunc_conv_eq_mul` : the linear convolution of the truncated spectra is the coefficient
sequence of the PRODUCT of the two Laurent / trigonometric polynomials
`Σ_{|a|≤K} U_a z^a`, `Σ_{|b|≤K} V_b z^b` (take `z = e^{iθ}`); `bandLimited_grid` : a band-limited
field IS such a trigonometric polynomial sampled on the grid. -/

theorem sum_trunc_shift (K : ℤ) (V : ℤ → ℂ) (z : ℂ) (m : ℤ) (hm : |m| ≤ K) :
    ∑ h ∈ Finset.Icc (-(2 * K)) (2 * K), trunc K V (h - m) * z ^ h
      = ∑ b ∈ Finset.Icc (-K) K, V b * z ^ (b + m) := by
  rw [abs_le] at hm
  have h1 : ∑ h ∈ Finset.Icc (-K + m) (K + m), trunc K V (h - m) * z ^ h
      = ∑ h ∈ Finset.Icc (-(2 * K)) (2 * K), trunc K V (h - m) * z ^ h := by
    apply Finset.sum_subset
    · intro h hh
      rw [Finset.mem_Icc] at hh ⊢
      constructor <;> omega
    · intro h _ hh
      rw [Finset.mem_Icc] at hh
      rw [trunc_of_gt, zero_mul]
      rw [abs_le]
      omega
  rw [← h1]
  apply Finset.sum_bij' (fun (h : ℤ) _ => h - m) (fun (b : ℤ) _ => b + m)
  · intro h hh
    rw [Finset.mem_Icc] at hh ⊢
    constructor <;> omega
  · intro b hb
    rw [Finset.mem_Icc] at hb ⊢
    constructor <;> omega
  · intro h _
    show h - m + m = h
    ring
  · intro b _
    show b + m - m = b
    ring
  · intro h hh
    rw [Finset.mem_Icc] at hh
    show trunc K V (h - m) * z ^ h = V (h - m) * z ^ (h - m + m)
    rw [trunc_of_le _ _ _ (by rw [abs_le]; constructor <;> omega), sub_add_cancel]

/-- the alias-free right-hand sides of A3 are the coefficients of the product of the two
    trigonometric polynomials -/
theorem sum_trunc_conv_eq_mul (K : ℤ) (U V : ℤ → ℂ) (z : ℂ) (hz : z ≠ 0) :
    (∑ a ∈ Finset.Icc (-K) K, U a * z ^ a) * (∑ b ∈ Finset.Icc (-K) K, V b * z ^ b)
      = ∑ h ∈ Finset.Icc (-(2 * K)) (2 * K),
          (∑ m ∈ Finset.Icc (-K) K, trunc K U m * trunc K V (h - m)) * z ^ h := by
  simp only [Finset.sum_mul]
  rw [Finset.sum_comm]
  apply Finset.sum_congr rfl
  intro m hm
  rw [Finset.mem_Icc] at hm
  have hm' : |m| ≤ K := abs_le.mpr ⟨hm.1, hm.2⟩
  have : ∀ h ∈ Finset.Icc (-(2 * K)) (2 * K), trunc K U m * trunc K V (h - m) * z ^ h
      = U m * (trunc K V (h - m) * z ^ h) := by
    intro h _
    rw [trunc_of_le _ _ _ hm', mul_assoc]
  rw [Finset.sum_congr rfl this, ← Finset.mul_sum, sum_trunc_shift K V z m hm', Finset.mul_sum,
    Finset.mul_sum]
  apply Finset.sum_congr rfl
  intro b _
  rw [zpow_add₀ hz]
  ring

/-- a band-limited field is the trigonometric polynomial `(1/N) Σ_{|m|≤K} U_m e^{+2πi m j/N}`
    sampled on the grid (`ζ^{-mj} = e^{+2πi m j/N}`) -/
theorem bandLimited_grid (N : ℕ) (hN : 0 < N) (K : ℤ) (hK : 2 * K < (N : ℤ)) (u : Array ℂ)
    (hu : BandLimited N K u) (j : ℕ) (hj : j < N) :
    u.getD j 0 = (1 / (N : ℂ)) * ∑ m ∈ Finset.Icc (-K) K, dft N u m * zeta N ^ (-(m * (j : ℤ))) := by
  have hNne : (N : ℂ) ≠ 0 := by exact_mod_cast hN.ne'
  have hinv := dft_inversion N hN u j hj
  have hband := sum_range_band N K hK (fun a => dft N u a * zeta N ^ (-(a * (j : ℤ)))) (by
    intro i
    show dft N u (i + N) * zeta N ^ (-((i + N) * (j : ℤ))) = _
    rw [show i + (N : ℤ) = i + (N : ℤ) * 1 by ring, dft_add_period,
      show -((i + (N : ℤ) * 1) * (j : ℤ)) = -(i * (j : ℤ)) + (N : ℤ) * (-(j : ℤ)) by ring,
      zeta_zpow_add_mul]) (by
    intro a ha
    show dft N u a * _ = 0
    rw [hu a ha, zero_mul])
  rw [← hband, hinv]
  field_simp

end Exponax.Alias
