import ExponaxModel.Proofs.SymmetryND
/-
C08, S4 — axis permutation in two dimensions (`u ↦ uᵀ`, swap of the two grid digits).

* `rfftn_transpose2` : the stored mode `(a, l)` of the transposed field is the FULL-spectrum value
  `F(l, a)` of the original field (`dft2`, linked to the model by `rfftn2_pair`); it is the stored
  mode `(l, a)` when `a ≤ N/2` (`rfftn_transpose2_stored`, any complex `u`) and the conjugate of
  the stored partner `((−l) mod N, N − a)` when `a > N/2` (`rfftn_transpose2_partner`, real `u`).
* `linStep_transpose2` : a diagonal stepper with multiplier `E` is mapped by the transposition to
  the stepper with multiplier `E'` as soon as the effective FULL-spectrum multipliers (`fullMul`,
  what `E ⊙ ·` followed by the c2r transform does to a real field) are transposes of each other.
* `linStep_transpose2_symbol` : for multipliers given by a symbol `σ(k₀,k₁)` of the wavenumbers
  with `σ(−k) = conj σ(k)`, the transposition maps the stepper of `σ` to the stepper of the
  swapped symbol `σ(k₁,k₀)` ("permuted anisotropic coefficients") PROVIDED, for even `N`, `σ` does
  not see the sign of the Nyquist wavenumber (`σ(−N/2,k) = σ(N/2,k)`, `σ(k,−N/2) = σ(k,N/2)`; true
  for even-order operators).  WITHOUT that proviso the statement is FALSE for the model (and the
  implementation): axis 0 stores the Nyquist wavenumber as `−N/2` (`fftfreq`), the last axis as
  `+N/2` (`rfftfreq`) and the c2r transform takes the real part of the last-axis Nyquist column.
  Counterexample (`N = 4`, `σ(k₀,k₁) = i(k₀+k₁)`, swap-invariant and conj-symmetric,
  `u[j₀,j₁] = cos(2π(2j₀+j₁)/4)`): `transpose (step u)` is `+1` at grid point `(1,0)` while
  `step (transpose u)` is `−1`.  Formal: `fullMul_counterexample` (the obstruction) and
  `transpose2_counterexample` (unit impulse on the `4 × 4` grid: the response at `(1,0)` is `−8/16`,
  at `(0,1)` it is `−4/16`).
-/
set_option linter.unusedVariables false
namespace Exponax.SymmetryND
open Exponax Exponax.Layout Exponax.Transform Exponax.DFT Exponax.Symmetry Finset
open Exponax.Gen.Etdrk

/-! ## the transposition -/

/-- source index of entry `j = j₀N + j₁` of the transposed field: `j₁N + j₀` -/
def transIdx (N j : ℕ) : ℕ := (j % N) * N + j / N

/-- `u.T` on the `N × N` grid (flat C order): `transpose2(u)[j₀,j₁] = u[j₁,j₀]` -/
def transpose2 (N : ℕ) (u : Array ℂ) : Array ℂ := tab (N ^ 2) (fun j => u.getD (transIdx N j) 0)

@[simp] theorem transpose2_size (N : ℕ) (u : Array ℂ) : (transpose2 N u).size = N ^ 2 := by
  simp [transpose2]

theorem pair_lt (N j0 j1 : ℕ) (h0 : j0 < N) (h1 : j1 < N) : j0 * N + j1 < N ^ 2 := by
  calc j0 * N + j1 < j0 * N + N := by omega
    _ = (j0 + 1) * N := by ring
    _ ≤ N * N := Nat.mul_le_mul_right _ h0
    _ = N ^ 2 := (sq N).symm

theorem pair_div (N j0 j1 : ℕ) (h1 : j1 < N) : (j0 * N + j1) / N = j0 := by
  rw [Nat.add_comm, Nat.add_mul_div_right _ _ (by omega), Nat.div_eq_of_lt h1, zero_add]

theorem pair_mod (N j0 j1 : ℕ) (h1 : j1 < N) : (j0 * N + j1) % N = j1 := by
  rw [Nat.add_comm, Nat.add_mul_mod_self_right, Nat.mod_eq_of_lt h1]

theorem transIdx_pair (N j0 j1 : ℕ) (h1 : j1 < N) : transIdx N (j0 * N + j1) = j1 * N + j0 := by
  rw [transIdx, pair_div N j0 j1 h1, pair_mod N j0 j1 h1]

theorem transIdx_lt (N j : ℕ) (hj : j < N ^ 2) : transIdx N j < N ^ 2 := by
  have hN : 0 < N := by
    rcases Nat.eq_zero_or_pos N with h | h
    · subst h; simp at hj
    · exact h
  exact pair_lt N _ _ (Nat.mod_lt _ hN) (Nat.div_lt_of_lt_mul (by rw [sq] at hj; exact hj))

/-- **characterisation of `transIdx`**: it swaps the two digits -/
theorem digit_transIdx (N j : ℕ) (hj : j < N ^ 2) :
    digit 2 N (transIdx N j) 0 = digit 2 N j 1 ∧ digit 2 N (transIdx N j) 1 = digit 2 N j 0 := by
  have hN : 0 < N := by
    rcases Nat.eq_zero_or_pos N with h | h
    · subst h; simp at hj
    · exact h
  have hq : j / N < N := Nat.div_lt_of_lt_mul (by rw [sq] at hj; exact hj)
  have hr : j % N < N := Nat.mod_lt _ hN
  unfold transIdx
  constructor
  · simp only [digit, show 2 - 1 - 0 = 1 from rfl, show 2 - 1 - 1 = 0 from rfl, pow_one, pow_zero,
      Nat.div_one]
    rw [pair_div N _ _ hq, Nat.mod_mod]
  · simp only [digit, show 2 - 1 - 0 = 1 from rfl, show 2 - 1 - 1 = 0 from rfl, pow_one, pow_zero,
      Nat.div_one]
    rw [pair_mod N _ _ hq]
    exact (Nat.mod_eq_of_lt hq).symm

theorem transpose2_getD (N : ℕ) (u : Array ℂ) (j : ℕ) (hj : j < N ^ 2) :
    (transpose2 N u).getD j 0 = u.getD (transIdx N j) 0 := by
  rw [transpose2, DFT.tab_getD _ _ _ _ hj]

theorem transpose2_pair (N : ℕ) (u : Array ℂ) (j0 j1 : ℕ) (h0 : j0 < N) (h1 : j1 < N) :
    (transpose2 N u).getD (j0 * N + j1) 0 = u.getD (j1 * N + j0) 0 := by
  rw [transpose2_getD N u _ (pair_lt N j0 j1 h0 h1), transIdx_pair N j0 j1 h1]

theorem transpose2_im (N : ℕ) (u : Array ℂ) (hu : ∀ j < N ^ 2, (u.getD j 0).im = 0) (j : ℕ)
    (hj : j < N ^ 2) : ((transpose2 N u).getD j 0).im = 0 := by
  rw [transpose2_getD N u j hj]
  exact hu _ (transIdx_lt N j hj)

/-! ## the full 2-D spectrum -/

/-- full 2-D DFT `F(a,b) = Σ u[j₀,j₁] ζ^{a j₀ + b j₁}`, `a b : ℤ` (periodic in both) -/
noncomputable def dft2 (N : ℕ) (u : Array ℂ) (a b : ℤ) : ℂ :=
  ∑ j0 ∈ range N, ∑ j1 ∈ range N,
    u.getD (j0 * N + j1) 0 * zeta N ^ (a * (j0 : ℤ) + b * (j1 : ℤ))

theorem natCast_mod_modEq (N a : ℕ) : ((a % N : ℕ) : ℤ) ≡ (a : ℤ) [ZMOD (N : ℤ)] := by
  rw [Int.natCast_mod]
  exact Int.mod_modEq _ _

theorem dotPhase_one_modEq (N a b : ℕ) :
    dotPhase 1 N a b ≡ (a : ℤ) * (b : ℤ) [ZMOD (N : ℤ)] := by
  rw [dotPhase_succ, dotPhase_zero, zero_add]
  exact (natCast_mod_modEq N a).mul (natCast_mod_modEq N b)

theorem dftn_one_eq_dft2 (N : ℕ) (hN : 0 < N) (u : Array ℂ) (a l : ℕ) :
    dftn 1 N u a l = dft2 N u (a : ℤ) (l : ℤ) := by
  rw [dftn_eq 1 N hN, pow_one, dft2]
  apply Finset.sum_congr rfl
  intro j0 _
  apply Finset.sum_congr rfl
  intro j1 _
  congr 1
  exact zeta_zpow_eq_of_modEq N ((dotPhase_one_modEq N a j0).add_right _)

theorem numModes_two' (N : ℕ) : numModes 2 N = N * (N / 2 + 1) := by
  rw [show (2 : ℕ) = 1 + 1 from rfl, numModes_succ, pow_one]

/-- the stored mode `(a, l)` of the model's 2-D transform is the full-spectrum value `F(a, l)` -/
theorem rfftn2_pair (N : ℕ) (hN : 0 < N) (u : Array ℂ) (a l : ℕ) (ha : a < N) (hl : l ≤ N / 2) :
    (rfftnM 2 N u).getD (a * (N / 2 + 1) + l) 0 = dft2 N u (a : ℤ) (l : ℤ) := by
  have hh : a * (N / 2 + 1) + l < numModes (1 + 1) N := by
    rw [numModes_succ, pow_one]
    calc a * (N / 2 + 1) + l < a * (N / 2 + 1) + (N / 2 + 1) := by omega
      _ = (a + 1) * (N / 2 + 1) := by ring
      _ ≤ N * (N / 2 + 1) := Nat.mul_le_mul_right _ ha
  have := rfftn_getD 1 N hN u _ hh
  rw [pair_div _ a l (by omega), pair_mod _ a l (by omega), dftn_one_eq_dft2 N hN] at this
  exact this

/-- wavenumbers of the stored mode `(a, l)`: `(fftfreq a, l)` -/
theorem wnFlat_two (N a l : ℕ) (hl : l ≤ N / 2) :
    wnFlat 2 N (a * (N / 2 + 1) + l) = [fftfreq N a, (l : ℤ)] := by
  have e0 := pair_div (N / 2 + 1) a l (by omega)
  have e1 := pair_mod (N / 2 + 1) a l (by omega)
  simp [wnFlat, wnVec, wavenumberShape, unflatten, shapeSize, wn, rfftfreq, e0, e1, List.range_succ]

theorem dft2_congr (N : ℕ) (u : Array ℂ) {a a' b b' : ℤ} (ha : a ≡ a' [ZMOD (N : ℤ)])
    (hb : b ≡ b' [ZMOD (N : ℤ)]) : dft2 N u a b = dft2 N u a' b' := by
  unfold dft2
  apply Finset.sum_congr rfl
  intro j0 _
  apply Finset.sum_congr rfl
  intro j1 _
  congr 1
  exact zeta_zpow_eq_of_modEq N ((ha.mul_right _).add (hb.mul_right _))

/-- for real input the full spectrum is Hermitian -/
theorem conj_dft2 (N : ℕ) (u : Array ℂ) (hu : ∀ j < N ^ 2, (u.getD j 0).im = 0) (a b : ℤ) :
    (starRingEnd ℂ) (dft2 N u a b) = dft2 N u (-a) (-b) := by
  unfold dft2
  rw [map_sum]
  apply Finset.sum_congr rfl
  intro j0 hj0
  rw [map_sum]
  apply Finset.sum_congr rfl
  intro j1 hj1
  rw [map_mul, conj_zeta_zpow, Complex.conj_eq_iff_im.mpr
    (hu _ (pair_lt N j0 j1 (Finset.mem_range.mp hj0) (Finset.mem_range.mp hj1)))]
  congr 2
  ring

/-- the full spectrum of the transposed field is the transposed full spectrum (any complex `u`) -/
theorem dft2_transpose2 (N : ℕ) (u : Array ℂ) (a b : ℤ) :
    dft2 N (transpose2 N u) a b = dft2 N u b a := by
  unfold dft2
  rw [Finset.sum_comm]
  apply Finset.sum_congr rfl
  intro j1 hj1
  apply Finset.sum_congr rfl
  intro j0 hj0
  rw [transpose2_pair N u j0 j1 (Finset.mem_range.mp hj0) (Finset.mem_range.mp hj1)]
  congr 2
  ring

/-! ## S4 — the transform of the transposed field -/

/-- **S4 (full-spectrum form).**  Stored mode `(a, l)` (wavenumbers `(fftfreq a, l)`) of the
    transposed field is the full-spectrum value `F(l, a)` of `u`; any complex `u`. -/
theorem rfftn_transpose2 (N : ℕ) (hN : 0 < N) (u : Array ℂ) (a l : ℕ) (ha : a < N) (hl : l ≤ N / 2) :
    (rfftnM 2 N (transpose2 N u)).getD (a * (N / 2 + 1) + l) 0 = dft2 N u (l : ℤ) (a : ℤ) := by
  rw [rfftn2_pair N hN _ a l ha hl, dft2_transpose2]

/-- **S4 (stored partner, `a ≤ N/2`).**  It is the stored mode `(l, a)` of `u`; any complex `u`. -/
theorem rfftn_transpose2_stored (N : ℕ) (hN : 0 < N) (u : Array ℂ) (a l : ℕ) (ha : a ≤ N / 2)
    (hl : l ≤ N / 2) :
    (rfftnM 2 N (transpose2 N u)).getD (a * (N / 2 + 1) + l) 0
      = (rfftnM 2 N u).getD (l * (N / 2 + 1) + a) 0 := by
  rw [rfftn_transpose2 N hN u a l (by omega) hl, rfftn2_pair N hN u l a (by omega) ha]

/-- **S4 (conjugate partner, `a > N/2`).**  For REAL `u` it is the conjugate of the stored mode
    `((−l) mod N, N − a)` of `u` (wavenumbers `(−l, −(a − N))`, the negative of the swapped pair). -/
theorem rfftn_transpose2_partner (N : ℕ) (hN : 0 < N) (u : Array ℂ)
    (hu : ∀ j < N ^ 2, (u.getD j 0).im = 0) (a l : ℕ) (ha : N / 2 < a) (haN : a < N) (hl : l ≤ N / 2) :
    (rfftnM 2 N (transpose2 N u)).getD (a * (N / 2 + 1) + l) 0
      = (starRingEnd ℂ) ((rfftnM 2 N u).getD (((N - l) % N) * (N / 2 + 1) + (N - a)) 0) := by
  rw [rfftn_transpose2 N hN u a l haN hl,
    rfftn2_pair N hN u ((N - l) % N) (N - a) (Nat.mod_lt _ hN) (by omega), conj_dft2 N u hu]
  apply dft2_congr
  · have := (reflDigit_modEq N l (by omega)).neg
    rw [neg_neg] at this
    exact this.symm
  · rw [Nat.cast_sub haN.le]
    have : -((N : ℤ) - (a : ℤ)) = (a : ℤ) + (N : ℤ) * (-1) := by ring
    rw [this]
    exact Int.modEq_add_fac_self.symm

/-! ## the c2r transform in 2-D as a full double sum -/

theorem sum_reflDigit {M : Type} [AddCommMonoid M] (N : ℕ) (hN : 0 < N) (g : ℕ → M) :
    ∑ a ∈ range N, g (reflDigit N a) = ∑ a ∈ range N, g a := by
  apply Finset.sum_nbij' (reflDigit N) (reflDigit N)
  · intro a _; exact Finset.mem_range.mpr (reflDigit_lt N hN a)
  · intro a _; exact Finset.mem_range.mpr (reflDigit_lt N hN a)
  · intro a ha; exact reflDigit_inv N a (Finset.mem_range.mp ha)
  · intro a ha; exact reflDigit_inv N a (Finset.mem_range.mp ha)
  · intro a _; rfl

/-- entry `(J₀, J₁)` of the 2-D c2r transform, last axis outermost -/
theorem irfftn2_getD (N : ℕ) (hN : 0 < N) (c : Array ℂ) (J0 J1 : ℕ) (h0 : J0 < N) (h1 : J1 < N) :
    (irfftnM 2 N c).getD (J0 * N + J1) 0
      = (((∑ l ∈ range (N / 2 + 1), (herm_weight 1 N l : ℝ) * ∑ a ∈ range N,
            (c.getD (a * (N / 2 + 1) + l) 0
              * zeta N ^ (-((a : ℤ) * (J0 : ℤ) + (l : ℤ) * (J1 : ℤ)))).re)
          / ((N ^ 2 : ℕ) : ℝ) : ℝ) : ℂ) := by
  have hJ : J0 * N + J1 < N ^ (1 + 1) := pair_lt N J0 J1 h0 h1
  have := irfftn_getD 1 N hN c _ hJ
  rw [pair_div N J0 J1 h1, pair_mod N J0 J1 h1, pow_one] at this
  refine this.trans ?_
  have hterm : ∀ h ∈ range (N * (N / 2 + 1)),
      (herm_weight 1 N (h % (N / 2 + 1)) : ℂ) *
          (((c.getD h 0 * zeta N ^ (-(dotPhase 1 N (h / (N / 2 + 1)) J0
              + ((h % (N / 2 + 1) : ℕ) : ℤ) * ((J1 : ℕ) : ℤ)))).re : ℝ) : ℂ)
        = (fun a l : ℕ => (herm_weight 1 N l : ℂ) *
          (((c.getD (a * (N / 2 + 1) + l) 0
              * zeta N ^ (-((a : ℤ) * (J0 : ℤ) + (l : ℤ) * (J1 : ℤ)))).re : ℝ) : ℂ))
            (h / (N / 2 + 1)) (h % (N / 2 + 1)) := by
    intro h _
    simp only []
    rw [Nat.div_add_mod' h (N / 2 + 1),
      zeta_zpow_eq_of_modEq N (((dotPhase_one_modEq N (h / (N / 2 + 1)) J0).add_right _).neg)]
  have h2 := sum_range_mul_div_mod N (N / 2 + 1) (fun a l : ℕ => (herm_weight 1 N l : ℂ) *
          (((c.getD (a * (N / 2 + 1) + l) 0
              * zeta N ^ (-((a : ℤ) * (J0 : ℤ) + (l : ℤ) * (J1 : ℤ)))).re : ℝ) : ℂ))
  rw [Finset.sum_congr rfl hterm, h2, Finset.sum_comm]
  push_cast
  congr 1
  apply Finset.sum_congr rfl
  intro l _
  rw [Finset.mul_sum]

/-- folding the half layout onto the full spectrum: if `P` is Hermitian off the self-conjugate
    columns, the weighted half sum is the full double sum -/
theorem half_to_full_2d (N : ℕ) (hN : 0 < N) (P : ℕ → ℕ → ℂ) (J0 J1 : ℕ)
    (hP : ∀ a < N, ∀ q, 0 < q → q < N → 2 * q ≠ N →
      P (reflDigit N a) (N - q) = (starRingEnd ℂ) (P a q)) :
    ∑ l ∈ range (N / 2 + 1), (herm_weight 1 N l : ℝ) * ∑ a ∈ range N,
        (P a l * zeta N ^ (-((a : ℤ) * (J0 : ℤ) + (l : ℤ) * (J1 : ℤ)))).re
      = ∑ q ∈ range N, ∑ a ∈ range N,
        (P a q * zeta N ^ (-((a : ℤ) * (J0 : ℤ) + (q : ℤ) * (J1 : ℤ)))).re := by
  apply half_sum N hN (fun q : ℕ => ∑ a ∈ range N,
        (P a q * zeta N ^ (-((a : ℤ) * (J0 : ℤ) + (q : ℤ) * (J1 : ℤ)))).re)
  intro q hq0 hqN
  by_cases h2 : 2 * q = N
  · rw [show N - q = q by omega]
  · rw [← sum_reflDigit N hN (fun a => (P a (N - q)
        * zeta N ^ (-((a : ℤ) * (J0 : ℤ) + ((N - q : ℕ) : ℤ) * (J1 : ℤ)))).re)]
    apply Finset.sum_congr rfl
    intro a ha
    have ha' := Finset.mem_range.mp ha
    rw [hP a ha' q hq0 hqN h2, ← Complex.conj_re (P a q * _), map_mul, conj_zeta_zpow]
    congr 2
    apply zeta_zpow_eq_of_modEq
    have e1 := reflDigit_modEq N a ha'
    have e2 : ((N - q : ℕ) : ℤ) ≡ -(q : ℤ) [ZMOD (N : ℤ)] := by
      rw [Nat.cast_sub hqN.le]
      have : (N : ℤ) - (q : ℤ) = -(q : ℤ) + (N : ℤ) * 1 := by ring
      rw [this]
      exact Int.modEq_add_fac_self
    have := ((e1.mul_right (J0 : ℤ)).add (e2.mul_right (J1 : ℤ))).neg
    calc -(((reflDigit N a : ℕ) : ℤ) * (J0 : ℤ) + ((N - q : ℕ) : ℤ) * (J1 : ℤ))
        ≡ -(-(a : ℤ) * (J0 : ℤ) + -(q : ℤ) * (J1 : ℤ)) [ZMOD (N : ℤ)] := this
      _ = - -((a : ℤ) * (J0 : ℤ) + (q : ℤ) * (J1 : ℤ)) := by ring

/-- the effective FULL-spectrum multiplier of the half-spectrum multiplier `E` followed by the c2r
    transform (acting on the spectrum of a real field): `E` on the stored half, the conjugate of
    the partner's `E` on the other half -/
noncomputable def fullMul (N : ℕ) (E : ℕ → ℂ) (a q : ℕ) : ℂ :=
  if q ≤ N / 2 then E (a * (N / 2 + 1) + q)
  else (starRingEnd ℂ) (E (reflDigit N a * (N / 2 + 1) + (N - q)))

theorem fullMul_herm (N : ℕ) (E : ℕ → ℂ) (a : ℕ) (ha : a < N) (q : ℕ) (hq0 : 0 < q) (hqN : q < N)
    (h2 : 2 * q ≠ N) :
    fullMul N E (reflDigit N a) (N - q) = (starRingEnd ℂ) (fullMul N E a q) := by
  unfold fullMul
  by_cases hq : q ≤ N / 2
  · rw [if_neg (by omega), if_pos hq, reflDigit_inv N a ha, Nat.sub_sub_self hqN.le]
  · rw [if_pos (by omega), if_neg hq, Complex.conj_conj]

/-- **one diagonal step on a real 2-D field as a full double sum** -/
theorem linStep2_getD_full (N : ℕ) (hN : 0 < N) (E : ℕ → ℂ) (v : Array ℂ)
    (hv : ∀ j < N ^ 2, (v.getD j 0).im = 0) (J0 J1 : ℕ) (h0 : J0 < N) (h1 : J1 < N) :
    (linStep 2 N E v).getD (J0 * N + J1) 0
      = (((∑ q ∈ range N, ∑ a ∈ range N,
            (fullMul N E a q * dft2 N v (a : ℤ) (q : ℤ)
              * zeta N ^ (-((a : ℤ) * (J0 : ℤ) + (q : ℤ) * (J1 : ℤ)))).re)
          / ((N ^ 2 : ℕ) : ℝ) : ℝ) : ℂ) := by
  unfold linStep
  rw [irfftn2_getD N hN _ J0 J1 h0 h1]
  congr 2
  rw [← half_to_full_2d N hN (fun a q => fullMul N E a q * dft2 N v (a : ℤ) (q : ℤ)) J0 J1]
  · apply Finset.sum_congr rfl
    intro l hl
    have hl' := Finset.mem_range.mp hl
    congr 1
    apply Finset.sum_congr rfl
    intro a ha
    have ha' := Finset.mem_range.mp ha
    have hh : a * (N / 2 + 1) + l < numModes 2 N := by
      rw [numModes_two']
      calc a * (N / 2 + 1) + l < a * (N / 2 + 1) + (N / 2 + 1) := by omega
        _ = (a + 1) * (N / 2 + 1) := by ring
        _ ≤ N * (N / 2 + 1) := Nat.mul_le_mul_right _ ha'
    rw [DFT.tab_getD _ _ _ _ hh]
    simp only [E0step, Pi.mul_apply, specFun]
    rw [rfftn2_pair N hN v a l ha' (by omega), fullMul, if_pos (by omega)]
  · intro a ha q hq0 hqN h2
    rw [fullMul_herm N E a ha q hq0 hqN h2, map_mul, conj_dft2 N v hv]
    congr 1
    apply dft2_congr
    · exact reflDigit_modEq N a ha
    · rw [Nat.cast_sub hqN.le]
      have : (N : ℤ) - (q : ℤ) = -(q : ℤ) + (N : ℤ) * 1 := by ring
      rw [this]
      exact Int.modEq_add_fac_self

/-! ## S4 — steppers and the transposition -/

/-- **S4, stepper level (general form).**  If the effective full-spectrum multipliers of `E'`
    and `E` are transposes of each other, then for REAL `u`
    `irfftn (E' ⊙ rfftn uᵀ) = (irfftn (E ⊙ rfftn u))ᵀ`. -/
theorem linStep_transpose2 (N : ℕ) (hN : 0 < N) (E E' : ℕ → ℂ)
    (hE : ∀ a < N, ∀ q < N, fullMul N E' a q = fullMul N E q a) (u : Array ℂ)
    (hu : ∀ j < N ^ 2, (u.getD j 0).im = 0) :
    linStep 2 N E' (transpose2 N u) = transpose2 N (linStep 2 N E u) := by
  apply array_ext_getD _ _ (N ^ 2) (by simp [linStep]) (by simp)
  intro J hJ
  have hJ0 : J / N < N := Nat.div_lt_of_lt_mul (by rw [sq] at hJ; exact hJ)
  have hJ1 : J % N < N := Nat.mod_lt _ hN
  rw [transpose2_getD N _ J hJ, transIdx]
  conv_lhs => rw [← Nat.div_add_mod' J N]
  rw [linStep2_getD_full N hN E' _ (transpose2_im N u hu) _ _ hJ0 hJ1,
    linStep2_getD_full N hN E u hu _ _ hJ1 hJ0]
  congr 2
  rw [Finset.sum_comm]
  apply Finset.sum_congr rfl
  intro a ha
  apply Finset.sum_congr rfl
  intro q hq
  rw [hE a (Finset.mem_range.mp ha) q (Finset.mem_range.mp hq), dft2_transpose2]
  congr 3
  ring

/-- `n` steps (the transform pair applied at every step) -/
theorem linStep_iterate_transpose2 (N : ℕ) (hN : 0 < N) (E E' : ℕ → ℂ)
    (hE : ∀ a < N, ∀ q < N, fullMul N E' a q = fullMul N E q a) (n : ℕ) (u : Array ℂ)
    (hu : ∀ j < N ^ 2, (u.getD j 0).im = 0) :
    (linStep 2 N E')^[n] (transpose2 N u) = transpose2 N ((linStep 2 N E)^[n] u) := by
  induction n generalizing u with
  | zero => rfl
  | succ n ih =>
    rw [Function.iterate_succ_apply, Function.iterate_succ_apply,
      linStep_transpose2 N hN E E' hE u hu, ih _ (fun j hj => linStep_im 2 N hN E u j hj)]

/-! ### multipliers given by a symbol of the wavenumbers -/

/-- the multiplier array of a symbol `σ(k₀, k₁)`: `E h = σ(k(h))`, `k(h) = wnFlat 2 N h` -/
noncomputable def symMul (N : ℕ) (σ : ℤ → ℤ → ℂ) : ℕ → ℂ :=
  fun h => σ ((wnFlat 2 N h).getD 0 0) ((wnFlat 2 N h).getD 1 0)

/-- the "rfft convention" wavenumber of a full index: `q` for `q ≤ N/2`, else `q − N` -/
def halfFreq (N q : ℕ) : ℤ := if q ≤ N / 2 then (q : ℤ) else (q : ℤ) - (N : ℤ)

theorem symMul_pair (N : ℕ) (σ : ℤ → ℤ → ℂ) (a l : ℕ) (hl : l ≤ N / 2) :
    symMul N σ (a * (N / 2 + 1) + l) = σ (fftfreq N a) (l : ℤ) := by
  simp [symMul, wnFlat_two N a l hl]

theorem neg_fftfreq_reflDigit (N a : ℕ) (ha : a < N) : -(fftfreq N (reflDigit N a)) = halfFreq N a := by
  unfold fftfreq reflDigit halfFreq
  rcases Nat.eq_zero_or_pos a with h0 | h0
  · subst h0
    simp
  · rw [Nat.mod_eq_of_lt (show N - a < N by omega), Nat.cast_sub ha.le]
    split_ifs <;> omega

theorem fftfreq_eq_halfFreq (N a : ℕ) (h : 2 * a ≠ N) : fftfreq N a = halfFreq N a := by
  unfold fftfreq halfFreq
  split_ifs <;> omega

theorem fftfreq_nyquist (N a : ℕ) (h : 2 * a = N) (ha : 0 < a) :
    fftfreq N a = -((N / 2 : ℕ) : ℤ) ∧ halfFreq N a = ((N / 2 : ℕ) : ℤ) := by
  unfold fftfreq halfFreq
  constructor <;> split_ifs <;> omega

/-- the effective full-spectrum multiplier of a conj-symmetric, Nyquist-sign-blind symbol -/
theorem fullMul_symMul (N : ℕ) (σ : ℤ → ℤ → ℂ)
    (hconj : ∀ k0 k1, σ (-k0) (-k1) = (starRingEnd ℂ) (σ k0 k1))
    (hnyq : N % 2 = 0 → ∀ k, σ (-((N / 2 : ℕ) : ℤ)) k = σ ((N / 2 : ℕ) : ℤ) k)
    (a q : ℕ) (ha : a < N) (hq : q < N) :
    fullMul N (symMul N σ) a q = σ (halfFreq N a) (halfFreq N q) := by
  have hff : ∀ y, σ (fftfreq N a) y = σ (halfFreq N a) y := by
    intro y
    by_cases h2 : 2 * a = N
    · have ha0 : 0 < a := by omega
      obtain ⟨e1, e2⟩ := fftfreq_nyquist N a h2 ha0
      rw [e1, e2, hnyq (by omega)]
    · rw [fftfreq_eq_halfFreq N a h2]
  unfold fullMul
  by_cases hq2 : q ≤ N / 2
  · rw [if_pos hq2, symMul_pair N σ a q hq2, hff]
    congr 1
    simp [halfFreq, hq2]
  · rw [if_neg hq2, symMul_pair N σ _ (N - q) (by omega), ← hconj, neg_fftfreq_reflDigit N a ha]
    congr 1
    unfold halfFreq
    rw [if_neg hq2, Nat.cast_sub hq.le]
    ring

/-- **S4, stepper level (symbols; permuted anisotropic coefficients).**  Let the multiplier be a
    function `σ(k₀,k₁)` of the wavenumbers with `σ(−k) = conj σ(k)` that, for even `N`, does not see
    the sign of a Nyquist wavenumber in either slot.  Then for REAL `u` the transposition maps the
    stepper of `σ` to the stepper of the swapped symbol `(k₀,k₁) ↦ σ(k₁,k₀)`; in particular a
    swap-invariant symbol gives a stepper commuting with the transposition. -/
theorem linStep_transpose2_symbol (N : ℕ) (hN : 0 < N) (σ : ℤ → ℤ → ℂ)
    (hconj : ∀ k0 k1, σ (-k0) (-k1) = (starRingEnd ℂ) (σ k0 k1))
    (hnyq0 : N % 2 = 0 → ∀ k, σ (-((N / 2 : ℕ) : ℤ)) k = σ ((N / 2 : ℕ) : ℤ) k)
    (hnyq1 : N % 2 = 0 → ∀ k, σ k (-((N / 2 : ℕ) : ℤ)) = σ k ((N / 2 : ℕ) : ℤ))
    (u : Array ℂ) (hu : ∀ j < N ^ 2, (u.getD j 0).im = 0) :
    linStep 2 N (symMul N (fun k0 k1 => σ k1 k0)) (transpose2 N u)
      = transpose2 N (linStep 2 N (symMul N σ) u) := by
  apply linStep_transpose2 N hN _ _ _ u hu
  intro a ha q hq
  rw [fullMul_symMul N σ hconj hnyq0 q a hq ha,
    fullMul_symMul N (fun k0 k1 => σ k1 k0) (fun k0 k1 => hconj k1 k0) hnyq1 a q ha hq]

/-- swap-invariant symbol: the stepper commutes with the transposition -/
theorem linStep_transpose2_symmetric (N : ℕ) (hN : 0 < N) (σ : ℤ → ℤ → ℂ)
    (hswap : ∀ k0 k1, σ k1 k0 = σ k0 k1)
    (hconj : ∀ k0 k1, σ (-k0) (-k1) = (starRingEnd ℂ) (σ k0 k1))
    (hnyq : N % 2 = 0 → ∀ k, σ (-((N / 2 : ℕ) : ℤ)) k = σ ((N / 2 : ℕ) : ℤ) k)
    (u : Array ℂ) (hu : ∀ j < N ^ 2, (u.getD j 0).im = 0) :
    linStep 2 N (symMul N σ) (transpose2 N u) = transpose2 N (linStep 2 N (symMul N σ) u) := by
  have h := linStep_transpose2_symbol N hN σ hconj hnyq
    (fun hev k => by rw [← hswap, ← hswap k, hnyq hev]) u hu
  have e : (fun k0 k1 => σ k1 k0) = σ := by
    funext k0 k1
    exact hswap k0 k1
  rwa [e] at h

/-- odd `N`: no Nyquist proviso -/
theorem linStep_transpose2_symbol_odd (N : ℕ) (hodd : N % 2 = 1) (σ : ℤ → ℤ → ℂ)
    (hconj : ∀ k0 k1, σ (-k0) (-k1) = (starRingEnd ℂ) (σ k0 k1))
    (u : Array ℂ) (hu : ∀ j < N ^ 2, (u.getD j 0).im = 0) :
    linStep 2 N (symMul N (fun k0 k1 => σ k1 k0)) (transpose2 N u)
      = transpose2 N (linStep 2 N (symMul N σ) u) :=
  linStep_transpose2_symbol N (by omega) σ hconj (fun h => by omega) (fun h => by omega) u hu

/-! ### the obstruction for odd-order symbols on even grids -/

/-- **The Nyquist proviso cannot be dropped.**  For `N = 4` and the swap-invariant,
    conj-symmetric symbol `σ(k₀,k₁) = i(k₀+k₁)` the effective full-spectrum multiplier is NOT
    symmetric: at `(a,q) = (2,1)` it is `σ(−2,1) = −i`, at `(1,2)` it is `σ(1,2) = 3i`. -/
theorem fullMul_counterexample :
    fullMul 4 (symMul 4 (fun k0 k1 => Complex.I * ((k0 : ℂ) + (k1 : ℂ)))) 2 1 = -Complex.I ∧
    fullMul 4 (symMul 4 (fun k0 k1 => Complex.I * ((k0 : ℂ) + (k1 : ℂ)))) 1 2 = 3 * Complex.I := by
  constructor
  · rw [fullMul, if_pos (by norm_num), symMul_pair 4 _ 2 1 (by norm_num)]
    simp only [fftfreq]
    norm_num
  · rw [fullMul, if_pos (by norm_num), symMul_pair 4 _ 1 2 (by norm_num)]
    simp only [fftfreq]
    norm_num
    ring

/-! ### a fully formal counterexample (`N = 4`, unit impulse, symbol `i(k₀+k₁)`) -/

theorem zeta_four : zeta 4 = -Complex.I := by
  unfold zeta
  have : -(2 * (Real.pi : ℂ) * Complex.I / ((4 : ℕ) : ℂ)) = ((-(Real.pi / 2) : ℝ) : ℂ) * Complex.I := by
    push_cast; ring
  rw [this, Complex.exp_ofReal_mul_I, Real.cos_neg, Real.sin_neg, Real.cos_pi_div_two,
    Real.sin_pi_div_two]
  simp

theorem zeta_four_inv1 : zeta 4 ^ (-1 : ℤ) = Complex.I := by
  rw [zeta_four, zpow_neg_one, inv_neg, Complex.inv_I, neg_neg]

theorem zeta_four_inv2 : zeta 4 ^ (-2 : ℤ) = -1 := by
  rw [show (-2 : ℤ) = (-1) + (-1) by norm_num, zpow_add₀ (zeta_ne_zero 4), zeta_four_inv1,
    Complex.I_mul_I]

theorem zeta_four_inv3 : zeta 4 ^ (-3 : ℤ) = -Complex.I := by
  rw [show (-3 : ℤ) = (-2) + (-1) by norm_num, zpow_add₀ (zeta_ne_zero 4), zeta_four_inv1,
    zeta_four_inv2]
  ring

/-- the real unit impulse at the origin of the `4 × 4` grid (it is its own transpose) -/
noncomputable def delta0 : Array ℂ := tab (4 ^ 2) (fun j => if j = 0 then 1 else 0)

theorem dft2_delta0 (a b : ℤ) : dft2 4 delta0 a b = 1 := by
  unfold dft2
  rw [Finset.sum_eq_single 0, Finset.sum_eq_single 0]
  · have : (0 * 4 + 0) < 4 ^ 2 := by norm_num
    rw [delta0, DFT.tab_getD _ _ _ _ this]
    simp
  · intro j1 hj1 hne
    have : (0 * 4 + j1) < 4 ^ 2 := by have := Finset.mem_range.mp hj1; omega
    rw [delta0, DFT.tab_getD _ _ _ _ this, if_neg (by omega), zero_mul]
  · intro h; simp at h
  · intro j0 hj0 hne
    apply Finset.sum_eq_zero
    intro j1 hj1
    have : (j0 * 4 + j1) < 4 ^ 2 := by
      have := Finset.mem_range.mp hj1; have := Finset.mem_range.mp hj0; omega
    rw [delta0, DFT.tab_getD _ _ _ _ this, if_neg (by omega), zero_mul]
  · intro h; simp at h

theorem delta0_real : ∀ j < 4 ^ 2, (delta0.getD j 0).im = 0 := by
  intro j hj
  rw [delta0, DFT.tab_getD _ _ _ _ hj]
  split_ifs <;> simp

theorem transpose2_delta0 : transpose2 4 delta0 = delta0 := by
  unfold transpose2 delta0
  apply Nonlin.tab_congr
  intro j hj
  have h1 : transIdx 4 j < 4 ^ 2 := transIdx_lt 4 j hj
  rw [DFT.tab_getD _ _ _ _ h1]
  have : transIdx 4 j = 0 ↔ j = 0 := by unfold transIdx; omega
  simp only [this]

/-- the symbol `σ(k₀,k₁) = i(k₀+k₁)` of `∂ₓ+∂ᵧ` (swap-invariant, `σ(−k) = conj σ(k)`) -/
noncomputable def sigAdv : ℤ → ℤ → ℂ := fun k0 k1 => Complex.I * ((k0 : ℂ) + (k1 : ℂ))

theorem fullMul_adv (a q : ℕ) (ha : a < 4) (hq : q < 4) :
    fullMul 4 (symMul 4 sigAdv) a q
      = Complex.I * (((if q ≤ 2 then fftfreq 4 a + q else halfFreq 4 a - 1 : ℤ) : ℝ) : ℂ) := by
  unfold fullMul
  by_cases h : q ≤ 2
  · rw [if_pos (by omega), if_pos h, symMul_pair 4 _ a q (by omega), sigAdv]
    push_cast; ring
  · have hq3 : q = 3 := by omega
    subst hq3
    rw [if_neg (by omega), if_neg h, symMul_pair 4 _ _ _ (by norm_num), sigAdv]
    rw [← neg_fftfreq_reflDigit 4 a ha]
    simp
    ring

/-- the response of the `σ = i(k₀+k₁)` stepper to the impulse at grid point `(J₀,J₁)`, times 16 -/
theorem linStep_adv_delta0 (J0 J1 : ℕ) (h0 : J0 < 4) (h1 : J1 < 4) :
    (linStep 2 4 (symMul 4 sigAdv) delta0).getD (J0 * 4 + J1) 0
      = (((∑ q ∈ range 4, ∑ a ∈ range 4,
            (fullMul 4 (symMul 4 sigAdv) a q
              * zeta 4 ^ (-((a : ℤ) * (J0 : ℤ) + (q : ℤ) * (J1 : ℤ)))).re)
          / ((4 ^ 2 : ℕ) : ℝ) : ℝ) : ℂ) := by
  rw [linStep2_getD_full 4 (by norm_num) _ _ delta0_real J0 J1 h0 h1]
  simp only [dft2_delta0, mul_one]

theorem linStep_adv_10 :
    (linStep 2 4 (symMul 4 sigAdv) delta0).getD (1 * 4 + 0) 0
      = (((-8 : ℝ) / ((4 ^ 2 : ℕ) : ℝ) : ℝ) : ℂ) := by
  rw [linStep_adv_delta0 1 0 (by norm_num) (by norm_num)]
  congr 2
  simp only [Finset.sum_range_succ, Finset.sum_range_zero, zero_add]
  rw [fullMul_adv 0 0 (by norm_num) (by norm_num), fullMul_adv 1 0 (by norm_num) (by norm_num),
    fullMul_adv 2 0 (by norm_num) (by norm_num), fullMul_adv 3 0 (by norm_num) (by norm_num),
    fullMul_adv 0 1 (by norm_num) (by norm_num), fullMul_adv 1 1 (by norm_num) (by norm_num),
    fullMul_adv 2 1 (by norm_num) (by norm_num), fullMul_adv 3 1 (by norm_num) (by norm_num),
    fullMul_adv 0 2 (by norm_num) (by norm_num), fullMul_adv 1 2 (by norm_num) (by norm_num),
    fullMul_adv 2 2 (by norm_num) (by norm_num), fullMul_adv 3 2 (by norm_num) (by norm_num),
    fullMul_adv 0 3 (by norm_num) (by norm_num), fullMul_adv 1 3 (by norm_num) (by norm_num),
    fullMul_adv 2 3 (by norm_num) (by norm_num), fullMul_adv 3 3 (by norm_num) (by norm_num)]
  simp only [fftfreq, halfFreq, Nat.cast_ofNat, Nat.cast_zero, Nat.cast_one, mul_zero, mul_one,
    add_zero, neg_zero, zpow_zero, zeta_four_inv1, zeta_four_inv2, zeta_four_inv3]
  norm_num

theorem linStep_adv_01 :
    (linStep 2 4 (symMul 4 sigAdv) delta0).getD (0 * 4 + 1) 0
      = (((-4 : ℝ) / ((4 ^ 2 : ℕ) : ℝ) : ℝ) : ℂ) := by
  rw [linStep_adv_delta0 0 1 (by norm_num) (by norm_num)]
  congr 2
  simp only [Finset.sum_range_succ, Finset.sum_range_zero, zero_add]
  rw [fullMul_adv 0 0 (by norm_num) (by norm_num), fullMul_adv 1 0 (by norm_num) (by norm_num),
    fullMul_adv 2 0 (by norm_num) (by norm_num), fullMul_adv 3 0 (by norm_num) (by norm_num),
    fullMul_adv 0 1 (by norm_num) (by norm_num), fullMul_adv 1 1 (by norm_num) (by norm_num),
    fullMul_adv 2 1 (by norm_num) (by norm_num), fullMul_adv 3 1 (by norm_num) (by norm_num),
    fullMul_adv 0 2 (by norm_num) (by norm_num), fullMul_adv 1 2 (by norm_num) (by norm_num),
    fullMul_adv 2 2 (by norm_num) (by norm_num), fullMul_adv 3 2 (by norm_num) (by norm_num),
    fullMul_adv 0 3 (by norm_num) (by norm_num), fullMul_adv 1 3 (by norm_num) (by norm_num),
    fullMul_adv 2 3 (by norm_num) (by norm_num), fullMul_adv 3 3 (by norm_num) (by norm_num)]
  simp only [fftfreq, halfFreq, Nat.cast_ofNat, Nat.cast_zero, Nat.cast_one, mul_zero, mul_one,
    add_zero, zero_add, neg_zero, zpow_zero, zeta_four_inv1, zeta_four_inv2, zeta_four_inv3]
  norm_num

/-- **The requested S4 statement is FALSE without the Nyquist proviso.**  There are a
    swap-invariant symbol with `σ(−k) = conj σ(k)` and a real field on the `4 × 4` grid for which
    the stepper does NOT commute with the transposition. -/
theorem transpose2_counterexample :
    ∃ (σ : ℤ → ℤ → ℂ) (u : Array ℂ), (∀ k0 k1, σ k1 k0 = σ k0 k1) ∧
      (∀ k0 k1, σ (-k0) (-k1) = (starRingEnd ℂ) (σ k0 k1)) ∧
      (u.size = 4 ^ 2 ∧ ∀ j < 4 ^ 2, (u.getD j 0).im = 0) ∧
      linStep 2 4 (symMul 4 σ) (transpose2 4 u) ≠ transpose2 4 (linStep 2 4 (symMul 4 σ) u) := by
  refine ⟨sigAdv, delta0, ?_, ?_, ⟨by simp [delta0], delta0_real⟩, ?_⟩
  · intro k0 k1; simp only [sigAdv]; ring
  · intro k0 k1
    simp only [sigAdv, map_mul, map_add, Complex.conj_I, map_intCast]
    push_cast
    ring
  · intro heq
    have h := congrArg (fun v : Array ℂ => v.getD (1 * 4 + 0) 0) heq
    rw [transpose2_delta0, transpose2_getD 4 _ _ (by norm_num), linStep_adv_10,
      show transIdx 4 (1 * 4 + 0) = 0 * 4 + 1 by decide, linStep_adv_01] at h
    have h' := Complex.ofReal_injective h
    norm_num at h'

/-! ## non-vacuity -/

example : ∃ (N a l : ℕ), 0 < N ∧ N / 2 < a ∧ a < N ∧ l ≤ N / 2 := ⟨4, 3, 1, by norm_num⟩
example : ∃ (N a l : ℕ), 0 < N ∧ a ≤ N / 2 ∧ l ≤ N / 2 := ⟨4, 2, 1, by norm_num⟩

example (N : ℕ) : ∃ u : Array ℂ, ∀ j < N ^ 2, (u.getD j 0).im = 0 :=
  ⟨tab (N ^ 2) (fun _ => 1), fun j hj => by rw [DFT.tab_getD _ _ _ _ hj]; simp⟩

/-- symbols satisfying all hypotheses of `linStep_transpose2_symmetric` exist for every `N`
    (the heat-kernel-like `σ = k₀² + k₁²`), so do pairs `E`, `E'` for `linStep_transpose2` -/
example (N : ℕ) : ∃ σ : ℤ → ℤ → ℂ, (∀ k0 k1, σ k1 k0 = σ k0 k1) ∧
    (∀ k0 k1, σ (-k0) (-k1) = (starRingEnd ℂ) (σ k0 k1)) ∧
    (N % 2 = 0 → ∀ k, σ (-((N / 2 : ℕ) : ℤ)) k = σ ((N / 2 : ℕ) : ℤ) k) :=
  ⟨fun k0 k1 => (((k0 ^ 2 + k1 ^ 2 : ℤ) : ℝ) : ℂ),
    fun k0 k1 => by beta_reduce; rw [add_comm],
    fun k0 k1 => by rw [Complex.conj_ofReal]; simp,
    fun _ k => by simp⟩

example (N : ℕ) : ∃ E E' : ℕ → ℂ, ∀ a < N, ∀ q < N, fullMul N E' a q = fullMul N E q a :=
  ⟨fun _ => 1, fun _ => 1, fun a _ q _ => by simp [fullMul]⟩

example : ∃ N : ℕ, N % 2 = 1 := ⟨3, rfl⟩

end Exponax.SymmetryND
