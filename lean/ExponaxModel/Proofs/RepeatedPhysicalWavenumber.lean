import ExponaxModel.Proofs.RepeatedPhysicalDiag
/-
C14 support, part 4 — the condition `HermSymbol` in terms of WAVENUMBERS, for symbols of the form
`e_h = g (wnFlat D N h)` (every exponax linear operator / ETDRK coefficient is of this form).

  * `wnFlat_conjIdx_getD`   : on the self-conjugate columns the wavenumber vector of `conjIdx D N h` is
                              component by component the negative of that of `h`, except that Nyquist
                              components (even `N`, `|k_d| = N/2`) are kept;
  * `odd_grid_wnFlat_conjIdx` : for odd `N` it is exactly `−k(h)`;
  * `odd_grid_hermSymbol_of_wavenumber` : odd `N`, `g(−k) = conj g(k)` (every operator with real
                              coefficients, e.g. advection, dispersion, any `exp(Δt·Σ c_j (i k)^j)`) ⇒
                              `HermSymbol`, hence loop = sub-stepping EXACTLY on odd grids;
  * `hermSymbol_of_abs_real` : every `N`: `g` real-valued and depending on `|k_d|` only (even-order
                              derivatives) ⇒ `HermSymbol`.
-/
set_option linter.unusedVariables false
set_option linter.unusedSimpArgs false
namespace Exponax.C2R
open Exponax Exponax.Layout Exponax.Transform Exponax.DFT Exponax.Conserve Finset

/-! ### digits of `negIdx`, wavenumbers of `sigA` -/

theorem digit_negIdx (N : ℕ) (hN : 0 < N) : ∀ (E a d : ℕ), d < E →
    digit E N (negIdx N E a) d = sigA N (digit E N a d)
  | 0, _, _, hd => absurd hd (Nat.not_lt_zero _)
  | E + 1, a, d, hd => by
    rcases Nat.lt_succ_iff_lt_or_eq.mp hd with hlt | rfl
    · rw [digit_succ_of_lt E N _ d hlt, digit_succ_of_lt E N a d hlt, negIdx_div N E a hN]
      exact digit_negIdx N hN E (a / N) d hlt
    · rw [digit_succ_last, digit_succ_last, negIdx_mod N _ a hN]

theorem digit_lt (D N j d : ℕ) (hN : 0 < N) : digit D N j d < N := Nat.mod_lt _ hN

theorem fftfreq_sigA (N x : ℕ) (hx : x < N) (h : N % 2 = 1 ∨ x ≠ N / 2) :
    fftfreq N (sigA N x) = - fftfreq N x := by
  rcases Nat.eq_zero_or_pos x with rfl | h0
  · rw [sigA_zero]; simp [fftfreq]
  · rw [sigA_pos N x h0 hx]
    unfold fftfreq
    split_ifs <;> omega

theorem sigA_nyquist (N : ℕ) (hN : 0 < N) (hev : N % 2 = 0) : sigA N (N / 2) = N / 2 := by
  rw [sigA_pos N (N / 2) (by omega) (by omega)]; omega

theorem fftfreq_nyquist_natAbs (N : ℕ) (hN : 0 < N) (hev : N % 2 = 0) :
    (fftfreq N (N / 2)).natAbs = N / 2 := by
  unfold fftfreq
  split_ifs <;> omega

/-! ### the wavenumber components of a stored index -/

theorem wnFlat_getD_lead (E N h d : ℕ) (hd : d < E) (hh : h < numModes (E + 1) N) :
    (wnFlat (E + 1) N h).getD d 0 = fftfreq N (digit E N (h / (N / 2 + 1)) d) := by
  have hh' := hh
  rw [numModes_succ] at hh'
  rw [wnFlat_getD _ _ _ _ (by omega)]
  simp only [wn, if_neg (show ¬ d + 1 = E + 1 by omega), wavenumberShape_succ]
  rw [unflatten_rep_getD_lt N _ E h d hd hh']
  unfold digit
  rw [Nat.div_div_eq_div_mul, mul_comm (N / 2 + 1)]

theorem wnFlat_getD_last (E N h : ℕ) (hh : h < numModes (E + 1) N) :
    (wnFlat (E + 1) N h).getD E 0 = ((h % (N / 2 + 1) : ℕ) : ℤ) := by
  have hh' := hh
  rw [numModes_succ] at hh'
  rw [wnFlat_getD _ _ _ _ (Nat.lt_succ_self E)]
  simp only [wn, if_true, rfftfreq, wavenumberShape_succ]
  rw [unflatten_rep_getD_last N _ E h hh']

/-- **the wavenumbers of `conjIdx`**: on the self-conjugate columns every component is negated, except
    that Nyquist components (even `N`, `|k_d| = N/2`) are kept. -/
theorem wnFlat_conjIdx_getD (D N h d : ℕ) (hD : 0 < D) (hN : 0 < N) (hh : h < numModes D N)
    (hw : herm_weight D N h = 1) (hd : d < D) :
    (wnFlat D N (conjIdx D N h)).getD d 0 = -(wnFlat D N h).getD d 0
      ∨ (N % 2 = 0 ∧ ((wnFlat D N h).getD d 0).natAbs = N / 2 ∧
          (wnFlat D N (conjIdx D N h)).getD d 0 = (wnFlat D N h).getD d 0) := by
  obtain ⟨E, rfl⟩ : ∃ E, D = E + 1 := ⟨D - 1, by omega⟩
  have hσ := conjIdx_lt (E + 1) N h hD hN
  rcases Nat.lt_succ_iff_lt_or_eq.mp hd with hlt | rfl
  · rw [wnFlat_getD_lead E N _ d hlt hσ, wnFlat_getD_lead E N h d hlt hh, conjIdx_div,
      Nat.add_sub_cancel, digit_negIdx N hN E _ d hlt]
    have hx := digit_lt E N (h / (N / 2 + 1)) d hN
    by_cases hc : N % 2 = 1 ∨ digit E N (h / (N / 2 + 1)) d ≠ N / 2
    · exact Or.inl (fftfreq_sigA N _ hx hc)
    · have hev : N % 2 = 0 := by omega
      have hx2 : digit E N (h / (N / 2 + 1)) d = N / 2 := by
        by_contra hne; exact hc (Or.inr hne)
      rw [hx2, sigA_nyquist N hN hev]
      exact Or.inr ⟨hev, fftfreq_nyquist_natAbs N hN hev, rfl⟩
  · rw [wnFlat_getD_last d N _ hσ, wnFlat_getD_last d N h hh, conjIdx_mod]
    rcases (herm_weight_one_iff_nd (d + 1) N h hD hh).mp hw with h0 | ⟨hev, hny⟩
    · rw [h0]; exact Or.inl (by simp)
    · refine Or.inr ⟨hev, ?_, rfl⟩
      rw [hny, Int.natAbs_natCast]

/-- in every case the components agree up to sign -/
theorem wnFlat_conjIdx_natAbs (D N h d : ℕ) (hD : 0 < D) (hN : 0 < N) (hh : h < numModes D N)
    (hw : herm_weight D N h = 1) (hd : d < D) :
    ((wnFlat D N (conjIdx D N h)).getD d 0).natAbs = ((wnFlat D N h).getD d 0).natAbs := by
  rcases wnFlat_conjIdx_getD D N h d hD hN hh hw hd with h1 | ⟨_, _, h1⟩
  · rw [h1, Int.natAbs_neg]
  · rw [h1]

theorem wnFlat_length (D N h : ℕ) : (wnFlat D N h).length = D := by
  simp [wnFlat, wnVec]

/-- **odd grids**: `conjIdx D N h` stores exactly the wavenumber vector `−k(h)` -/
theorem odd_grid_wnFlat_conjIdx (D N h : ℕ) (hD : 0 < D) (hodd : N % 2 = 1) (hh : h < numModes D N)
    (hw : herm_weight D N h = 1) :
    wnFlat D N (conjIdx D N h) = (wnFlat D N h).map (fun k => -k) := by
  have hN : 0 < N := by omega
  have key : ∀ d ∈ List.range D,
      wn D N (unflatten (wavenumberShape D N) (conjIdx D N h)) d
        = -(wn D N (unflatten (wavenumberShape D N) h) d) := by
    intro d hd
    have hd' : d < D := List.mem_range.mp hd
    rw [← wnFlat_getD D N _ d hd', ← wnFlat_getD D N h d hd']
    rcases wnFlat_conjIdx_getD D N h d hD hN hh hw hd' with h1 | ⟨hev, _, _⟩
    · exact h1
    · omega
  show wnVec D N _ = (wnVec D N _).map _
  unfold wnVec
  rw [List.map_map]
  exact List.map_congr_left key

/-! ### symbols that are functions of the wavenumber vector -/

/-- **odd grids, any `D`**: a symbol `e_h = g(k(h))` with `g(−k) = conj g(k)` (every linear operator
    with real coefficients — advection, diffusion, dispersion, … — and its ETDRK coefficients) is
    Hermitian on the self-conjugate columns. -/
theorem odd_grid_hermSymbol_of_wavenumber (D N : ℕ) (hD : 0 < D) (hodd : N % 2 = 1)
    (g : List ℤ → ℂ) (hg : ∀ k : List ℤ, g (k.map (fun x => -x)) = (starRingEnd ℂ) (g k)) :
    HermSymbol D N (fun h => g (wnFlat D N h)) := by
  intro h hh hw
  show g (wnFlat D N (conjIdx D N h)) = _
  rw [odd_grid_wnFlat_conjIdx D N h hD hodd hh hw, hg]

/-- **consequence for odd grids**: for such symbols the physical loop equals Fourier sub-stepping -/
theorem odd_grid_repeated_loop_wavenumber (D N : ℕ) (hD : 0 < D) (hodd : N % 2 = 1)
    (g : List ℤ → ℂ) (hg : ∀ k : List ℤ, g (k.map (fun x => -x)) = (starRingEnd ℂ) (g k))
    (u : Array ℂ) (hu : RealState D N u) (n : ℕ) :
    Loops.repeatN (fun v => irfftnM D N (diagStep D N (fun h => g (wnFlat D N h)) (rfftnM D N v))) n u
      = irfftnM D N (Loops.repeatedStepFourier (diagStep D N (fun h => g (wnFlat D N h))) n
          (rfftnM D N u)) :=
  repeated_loop_diag D N hD (by omega) _ (odd_grid_hermSymbol_of_wavenumber D N hD hodd g hg) u hu n

/-- **every grid**: a REAL-valued symbol that depends on the wavenumbers only through `|k_d|`
    (even-order derivatives: `(i k_d)^{2m} = (−1)^m k_d^{2m}`) is Hermitian on the self-conjugate
    columns — also on the Nyquist planes of even grids. -/
theorem hermSymbol_of_abs_real (D N : ℕ) (hD : 0 < D) (hN : 0 < N) (g : List ℤ → ℂ)
    (hreal : ∀ k, (g k).im = 0)
    (habs : ∀ k k' : List ℤ, k.length = k'.length →
      (∀ d < k.length, (k'.getD d 0).natAbs = (k.getD d 0).natAbs) → g k' = g k) :
    HermSymbol D N (fun h => g (wnFlat D N h)) := by
  intro h hh hw
  show g (wnFlat D N (conjIdx D N h)) = (starRingEnd ℂ) (g (wnFlat D N h))
  rw [Complex.conj_eq_iff_im.mpr (hreal _)]
  apply habs
  · rw [wnFlat_length, wnFlat_length]
  · intro d hd
    rw [wnFlat_length] at hd
    exact wnFlat_conjIdx_natAbs D N h d hD hN hh hw hd

/-! ### non-vacuity -/

/-- the index hypotheses of `wnFlat_conjIdx_getD` / `odd_grid_wnFlat_conjIdx` are satisfiable with a
    non-trivial partner: on the odd `3 × 3` grid mode `(1, 0)` (stored index 2) is paired with `(−1, 0)`
    (stored index 4); on the even `4 × 4` grid the Nyquist-column mode `(1, 2)` (index 5) with `(−1, 2)` -/
example : (3 : ℕ) % 2 = 1 ∧ (2 : ℕ) < numModes 2 3 ∧ herm_weight 2 3 2 = 1 ∧ conjIdx 2 3 2 = 4 ∧
    (5 : ℕ) < numModes 2 4 ∧ herm_weight 2 4 5 = 1 ∧ conjIdx 2 4 5 = 11 := by decide

/-- the hypotheses of `odd_grid_hermSymbol_of_wavenumber` hold for the advection–diffusion factor
    `exp(Δt (−c·i k_0 + ν (i k_0)²))` with real `c, ν, Δt` -/
example (c ν dt : ℝ) : ∀ k : List ℤ,
    (fun k : List ℤ => Complex.exp ((dt : ℂ) * (-(c : ℂ) * (Complex.I * ((k.getD 0 0 : ℤ) : ℂ))
        + (ν : ℂ) * (Complex.I * ((k.getD 0 0 : ℤ) : ℂ)) ^ 2))) (k.map (fun x => -x))
      = (starRingEnd ℂ) ((fun k : List ℤ => Complex.exp ((dt : ℂ) * (-(c : ℂ) * (Complex.I * ((k.getD 0 0 : ℤ) : ℂ))
        + (ν : ℂ) * (Complex.I * ((k.getD 0 0 : ℤ) : ℂ)) ^ 2))) k) := by
  intro k
  have hk : (k.map (fun x => -x)).getD 0 0 = -(k.getD 0 0) := by
    cases k <;> simp
  have hz : ∀ z : ℤ, (starRingEnd ℂ) (z : ℂ) = (z : ℂ) := fun z => Complex.conj_eq_iff_re.mpr rfl
  simp only [hk]
  rw [← Complex.exp_conj]
  congr 1
  simp only [map_mul, map_add, map_neg, map_pow, Complex.conj_ofReal, Complex.conj_I, Int.cast_neg, hz]
  ring

/-- the hypotheses of `hermSymbol_of_abs_real` hold for the diffusion factor `exp(−ν Δt k_0²)` -/
example (ν dt : ℝ) :
    (∀ k : List ℤ, (Complex.exp (((-(ν * dt * ((k.getD 0 0).natAbs : ℝ) ^ 2) : ℝ) : ℂ))).im = 0) ∧
    (∀ k k' : List ℤ, k.length = k'.length →
      (∀ d < k.length, (k'.getD d 0).natAbs = (k.getD d 0).natAbs) →
        Complex.exp (((-(ν * dt * ((k'.getD 0 0).natAbs : ℝ) ^ 2) : ℝ) : ℂ))
          = Complex.exp (((-(ν * dt * ((k.getD 0 0).natAbs : ℝ) ^ 2) : ℝ) : ℂ))) := by
  refine ⟨fun k => Complex.exp_ofReal_im _, ?_⟩
  intro k k' hlen h
  rcases k with _ | ⟨a, k⟩
  · have : k' = [] := List.length_eq_zero_iff.mp hlen.symm
    rw [this]
  · have := h 0 (by simp)
    rw [this]

end Exponax.C2R
