import ExponaxModel.Proofs.AliasNDMask
import ExponaxModel.Proofs.AliasMore
/-
C03 in general dimension `D ≥ 1` — entry point; N3: alias-free statements through the MODEL
pipeline `ifft(mask·û) → pointwise product → mask·fft(·) → symbol` of `Model/Nonlin.lean`.

  * `AliasNDBasic`  : digits, `dftV` (full `D`-dim. spectrum at `k ∈ ℤ^D`), `kvec`, orthogonality,
                      lattice sums (`sum_flat_eq_sum_box`)
  * `AliasNDConv`   : N1 abstract — `dftV_mul`, `dftV_mul_no_alias'`, `dftV_mul3_no_alias'`
  * `AliasNDStored` : N1 for `rfftnM` — `rfftn_mul_no_alias`, `rfftn_mul3_no_alias`
  * `AliasNDMask`   : N2 — `mask_nd`, `dftV_irfftn`, `nifft_bandLimitedV`, `dftV_nifft_rfftn`,
                      `rfftn_nifft_rfftn`
  * this file       : N3 — squared / cubed band-truncated state, `polynomial` (degree ≤ 2 with
                      `3·Kc < N`, degree ≤ 3 with `4·Kc < N`), multi-channel conservative `convection`
                      (any channel count `C`, any `D`; the case `C = D = 2` spelled out),
                      single-channel conservative `convection`, the documented fractions 2/3, 1/2.

"Zero outside the retained band" is `*_zero_off_band` of `AliasNonlin.lean` (any `D`), reused.
-/
namespace Exponax.AliasND
open Exponax Exponax.Layout Exponax.Transform Exponax.DFT Exponax.Nonlin Exponax.Alias Finset

/-! ### products of band-truncated states, alias-free -/

/-- the linear (non-circular) convolution over the box of two truncated spectra, normalised by
    `N^{-D}` (the normalisation of the un-normalised forward transform) -/
noncomputable def linConv (D N : ℕ) (K : ℤ) (F G : (Fin D → ℤ) → ℂ) (k : Fin D → ℤ) : ℂ :=
  (1 / ((N ^ D : ℕ) : ℂ)) * ∑ p ∈ box D K, truncV K F p * truncV K G (k - p)

/-- the double linear convolution of three truncated spectra, normalised by `N^{-2D}` -/
noncomputable def linConv3 (D N : ℕ) (K : ℤ) (F G H : (Fin D → ℤ) → ℂ) (k : Fin D → ℤ) : ℂ :=
  (1 / ((N ^ D : ℕ) : ℂ)) ^ 2 * ∑ a ∈ box D K, ∑ b ∈ box D K,
    truncV K F a * truncV K G b * truncV K H (k - a - b)

/-- `linConv` is literally `N^{-D} Σ_{p+q=k, p,q ∈ box} F(p) G(q)` -/
theorem linConv_eq_pairs (D N : ℕ) (K : ℤ) (F G : (Fin D → ℤ) → ℂ) (k : Fin D → ℤ) :
    linConv D N K F G k = (1 / ((N ^ D : ℕ) : ℂ)) *
      ∑ pq ∈ (box D K ×ˢ box D K).filter (fun pq => pq.1 + pq.2 = k), F pq.1 * G pq.2 := by
  unfold linConv
  rw [sum_box_trunc_eq_pairs]

/-- **product of two band-truncated states.**  Real states `x`, `y`, cut-off `3·Kc < N`, box
    wavenumber vector `k`: the spectrum of `ifft(mask·x̂)·ifft(mask·ŷ)` at `k` is the linear
    convolution of the truncated spectra of `x` and `y`. -/
theorem dftV_mul_nifft_rfftn (c : Cfg ℂ) (hD : 0 < c.D) (hq : c.fq ≠ 0) (hK : 3 * Kc c < (c.N : ℤ))
    (hN : 0 < c.N) (x y : Array ℂ) (hx : IsRealND c.D c.N x) (hy : IsRealND c.D c.N y)
    (k : Fin c.D → ℤ) (hk : ∀ d, |k d| ≤ Kc c) :
    dftV c.D c.N (tab (c.N ^ c.D) fun j =>
        (nifft c (rfftnM c.D c.N x)).getD j 0 * (nifft c (rfftnM c.D c.N y)).getD j 0) k
      = linConv c.D c.N (Kc c) (dftV c.D c.N x) (dftV c.D c.N y) k := by
  have h2 := two_lt_of_three c.N (Kc c) hK
  rw [dftV_mul_no_alias' c.D c.N hN (Kc c) hK _ _ (nifft_bandLimitedV c hq hN _)
    (nifft_bandLimitedV c hq hN _) k hk]
  unfold linConv
  simp only [truncV_dftV_nifft_rfftn c hD hq hN h2 x hx, truncV_dftV_nifft_rfftn c hD hq hN h2 y hy]

/-- **product of three band-truncated states**, cut-off `4·Kc < N` -/
theorem dftV_mul3_nifft_rfftn (c : Cfg ℂ) (hD : 0 < c.D) (hq : c.fq ≠ 0) (hK : 4 * Kc c < (c.N : ℤ))
    (hN : 0 < c.N) (x y z : Array ℂ) (hx : IsRealND c.D c.N x) (hy : IsRealND c.D c.N y)
    (hz : IsRealND c.D c.N z) (k : Fin c.D → ℤ) (hk : ∀ d, |k d| ≤ Kc c) :
    dftV c.D c.N (tab (c.N ^ c.D) fun j =>
        (nifft c (rfftnM c.D c.N x)).getD j 0 * (nifft c (rfftnM c.D c.N y)).getD j 0
          * (nifft c (rfftnM c.D c.N z)).getD j 0) k
      = linConv3 c.D c.N (Kc c) (dftV c.D c.N x) (dftV c.D c.N y) (dftV c.D c.N z) k := by
  have h2 := two_lt_of_four c.N (Kc c) hK
  rw [dftV_mul3_no_alias' c.D c.N hN (Kc c) hK _ _ _ (nifft_bandLimitedV c hq hN _)
    (nifft_bandLimitedV c hq hN _) (nifft_bandLimitedV c hq hN _) k hk]
  unfold linConv3
  simp only [truncV_dftV_nifft_rfftn c hD hq hN h2 x hx, truncV_dftV_nifft_rfftn c hD hq hN h2 y hy,
    truncV_dftV_nifft_rfftn c hD hq hN h2 z hz]

/-! ### `nfft` in `D` dimensions -/

theorem nfft_nd (c : Cfg ℂ) (hN : 0 < c.N) (v : Array ℂ) (h : ℕ) (hh : h < numModes c.D c.N) :
    (nfft c v).getD h 0 = mask c h * dftV c.D c.N v (kvec c.D c.N h) := by
  rw [nfft_getD c v h hh, rfftn_eq_dftV c.D c.N hN v h hh]

/-- for a stored mode, "all components divisible by `N`" means the mean mode `h = 0` -/
theorem stored_dvd_iff (D N h : ℕ) (hD : 0 < D) (hN : 0 < N) (hh : h < numModes D N) :
    (∀ d, (N : ℤ) ∣ kvec D N h d) ↔ h = 0 := by
  rw [← kvec_eq_zero_iff D N h hD hN hh]
  constructor
  · intro hd
    funext d
    have hb := abs_le.mp (kvec_abs_le D N h hD hN hh d)
    exact Int.eq_zero_of_abs_lt_dvd (hd d) (by rw [abs_lt]; constructor <;> omega)
  · intro h0 d
    rw [h0]; simp

/-! ### N3 (a) — `PolynomialNonlinearFun`, one channel, any `D` -/

/-- pipeline read-off for `PolynomialNonlinearFun`, one channel, any `D`, any coefficients -/
theorem polynomial_nd_readoff (c : Cfg ℂ) (hN : 0 < c.N) (coeffs : List ℂ)
    (uh : Array ℂ) (h : ℕ) (hh : h < numModes c.D c.N) :
    at2 (polynomial c 1 coeffs #[uh]) 0 h
      = mask c h * dftV c.D c.N
          (tab (c.N ^ c.D) fun j => polyEval coeffs ((nifft c uh).getD j 0)) (kvec c.D c.N h) := by
  have hu : ∀ j, at2 (tabC 1 fun ch => nifft c ((#[uh] : MC ℂ).getD ch #[])) 0 j
      = (nifft c uh).getD j 0 := by
    intro j
    rw [at2_tabC _ _ _ _ Nat.zero_lt_one]
    rfl
  unfold polynomial
  simp only []
  rw [at2_tabC _ _ _ _ Nat.zero_lt_one, nfft_nd c hN _ h hh]
  simp only [hu]
  rfl

theorem polyEval_cubic_full (c0 c1 c2 c3 y : ℂ) :
    polyEval [c0, c1, c2, c3] y = c0 + c1 * y + c2 * (y * y) + c3 * (y * y * y) := by
  simp [polyEval]

/-- **N3(a), degree ≤ 2, cut-off `3·Kc < N` (e.g. the 2/3 rule), any `D ≥ 1`.**  Real state `x`,
    `û = rfftnM D N x`.  At a retained stored mode the output of `PolynomialNonlinearFun` with
    coefficients `[c0, c1, c2]` is `c0·N^D·[h = 0] + c1·x̂_h + c2·(X ⋆ X)(k(h))` with `X` the
    box-truncated full spectrum of `x` and `⋆` the LINEAR convolution: the coefficients of
    `c0 + c1·P_K u + c2·(P_K u)²`, alias-free; at a dropped mode it is `0`. -/
theorem polynomial_quadratic_alias_free_nd (c : Cfg ℂ) (hD : 0 < c.D) (hq : c.fq ≠ 0)
    (hK : 3 * Kc c < (c.N : ℤ)) (hN : 0 < c.N) (c0 c1 c2 : ℂ) (x : Array ℂ) (hx : IsRealND c.D c.N x)
    (h : ℕ) (hh : h < numModes c.D c.N) :
    (mask c h = 1 →
      at2 (polynomial c 1 [c0, c1, c2] #[rfftnM c.D c.N x]) 0 h
        = c0 * (if h = 0 then ((c.N ^ c.D : ℕ) : ℂ) else 0) + c1 * (rfftnM c.D c.N x).getD h 0
          + c2 * linConv c.D c.N (Kc c) (dftV c.D c.N x) (dftV c.D c.N x) (kvec c.D c.N h))
    ∧ (mask c h = 0 → at2 (polynomial c 1 [c0, c1, c2] #[rfftnM c.D c.N x]) 0 h = 0) := by
  have h2 := two_lt_of_three c.N (Kc c) hK
  rw [polynomial_nd_readoff c hN _ _ h hh]
  refine ⟨fun hm => ?_, fun hm => by rw [hm, zero_mul]⟩
  have hk : ∀ d, |kvec c.D c.N h d| ≤ Kc c := (mask_nd_eq_one_iff c hq h).mp hm
  set y := nifft c (rfftnM c.D c.N x) with hy
  have e : (tab (c.N ^ c.D) fun j => polyEval [c0, c1, c2] (y.getD j 0))
      = tab (c.N ^ c.D) fun j => ((fun _ => c0) j + (fun j => c1 * y.getD j 0) j)
          + (fun j => c2 * (y.getD j 0 * y.getD j 0)) j := by
    apply Nonlin.tab_congr
    intro j _
    exact polyEval_quadratic c0 c1 c2 _
  rw [hm, one_mul, e, dftV_add, dftV_add, dftV_smul, dftV_smul, dftV_const c.D c.N hN, dftV_self_tab,
    hy, dftV_nifft_rfftn c hD hq hN h2 x hx _ hk, dftV_mul_nifft_rfftn c hD hq hK hN x x hx hx _ hk,
    rfftn_eq_dftV c.D c.N hN x h hh]
  simp only [stored_dvd_iff c.D c.N h hD hN hh]
  split_ifs <;> ring

/-- **N3(a), degree ≤ 3, cut-off `4·Kc < N` (e.g. the 1/2 rule), any `D ≥ 1`.**  Coefficients
    `[c0, c1, c2, c3]`: at a retained stored mode the output is
    `c0·N^D·[h = 0] + c1·x̂_h + c2·(X ⋆ X)(k(h)) + c3·(X ⋆ X ⋆ X)(k(h))`, alias-free; `0` at a
    dropped mode. -/
theorem polynomial_cubic_alias_free_nd (c : Cfg ℂ) (hD : 0 < c.D) (hq : c.fq ≠ 0)
    (hK : 4 * Kc c < (c.N : ℤ)) (hN : 0 < c.N) (c0 c1 c2 c3 : ℂ) (x : Array ℂ)
    (hx : IsRealND c.D c.N x) (h : ℕ) (hh : h < numModes c.D c.N) :
    (mask c h = 1 →
      at2 (polynomial c 1 [c0, c1, c2, c3] #[rfftnM c.D c.N x]) 0 h
        = c0 * (if h = 0 then ((c.N ^ c.D : ℕ) : ℂ) else 0) + c1 * (rfftnM c.D c.N x).getD h 0
          + c2 * linConv c.D c.N (Kc c) (dftV c.D c.N x) (dftV c.D c.N x) (kvec c.D c.N h)
          + c3 * linConv3 c.D c.N (Kc c) (dftV c.D c.N x) (dftV c.D c.N x) (dftV c.D c.N x)
              (kvec c.D c.N h))
    ∧ (mask c h = 0 → at2 (polynomial c 1 [c0, c1, c2, c3] #[rfftnM c.D c.N x]) 0 h = 0) := by
  have h2 := two_lt_of_four c.N (Kc c) hK
  have h3 := three_lt_of_four c.N (Kc c) hK
  rw [polynomial_nd_readoff c hN _ _ h hh]
  refine ⟨fun hm => ?_, fun hm => by rw [hm, zero_mul]⟩
  have hk : ∀ d, |kvec c.D c.N h d| ≤ Kc c := (mask_nd_eq_one_iff c hq h).mp hm
  set y := nifft c (rfftnM c.D c.N x) with hy
  have e : (tab (c.N ^ c.D) fun j => polyEval [c0, c1, c2, c3] (y.getD j 0))
      = tab (c.N ^ c.D) fun j => (((fun _ => c0) j + (fun j => c1 * y.getD j 0) j)
          + (fun j => c2 * (y.getD j 0 * y.getD j 0)) j)
          + (fun j => c3 * (y.getD j 0 * y.getD j 0 * y.getD j 0)) j := by
    apply Nonlin.tab_congr
    intro j _
    exact polyEval_cubic_full c0 c1 c2 c3 _
  rw [hm, one_mul, e, dftV_add, dftV_add, dftV_add, dftV_smul, dftV_smul, dftV_smul,
    dftV_const c.D c.N hN, dftV_self_tab,
    hy, dftV_nifft_rfftn c hD hq hN h2 x hx _ hk, dftV_mul_nifft_rfftn c hD hq h3 hN x x hx hx _ hk,
    dftV_mul3_nifft_rfftn c hD hq hK hN x x x hx hx hx _ hk,
    rfftn_eq_dftV c.D c.N hN x h hh]
  simp only [stored_dvd_iff c.D c.N h hD hN hh]
  split_ifs <;> ring

/-! ### N3 (b) — conservative multi-channel convection `∂_j(u_i u_j)`, any `C`, any `D` -/

/-- pipeline read-off for the conservative multi-channel `ConvectionNonlinearFun`
    (`single_channel = False`, `conservative = True`), any channel count `C`, any `D`, any input:
    `out_i(h) = −scale·(½·Σ_{j<C} (i s k_j(h))·mask_h·F[u_j u_i](k(h)))`, `u_ch = ifft(mask·û_ch)`.
    (The factor `½` IS in the model / library for this variant.) -/
theorem convection_multi_conservative_readoff (c : Cfg ℂ) (hN : 0 < c.N) (C : ℕ) (scale : ℂ)
    (uh : MC ℂ) (i : ℕ) (hi : i < C) (h : ℕ) (hh : h < numModes c.D c.N) :
    at2 (convection c C scale false true uh) i h
      = -scale * ((1 : ℂ) / 2 * ∑ j ∈ range C, deriv c j h * (mask c h *
          dftV c.D c.N (tab (c.N ^ c.D) fun x =>
            (nifft c (uh.getD j #[])).getD x 0 * (nifft c (uh.getD i #[])).getD x 0)
            (kvec c.D c.N h))) := by
  have hM : h < modes c := hh
  unfold convection
  simp only [↓reduceIte, Bool.false_eq_true]
  rw [at2_tab2 _ _ _ _ _ hi hM, sumList_range_eq]
  congr 2
  · simp
  · apply Finset.sum_congr rfl
    intro j hj
    have hj' := Finset.mem_range.mp hj
    have hij : i * C + j < C * C := by
      calc i * C + j < i * C + C := by omega
        _ = (i + 1) * C := by ring
        _ ≤ C * C := Nat.mul_le_mul_right _ hi
    have hmod : (i * C + j) % C = j := by
      rw [Nat.add_comm, Nat.add_mul_mod_self_right, Nat.mod_eq_of_lt hj']
    have hdiv : (i * C + j) / C = i := by
      rw [Nat.add_comm, Nat.add_mul_div_right _ _ (by omega : 0 < C), Nat.div_eq_of_lt hj', zero_add]
    rw [at2_tabC _ _ _ _ hij, nfft_nd c hN _ h hh, hmod, hdiv]
    congr 3
    apply Nonlin.tab_congr
    intro x _
    rw [at2_tabC _ _ _ _ hj', at2_tabC _ _ _ _ hi]

/-- **N3(b), general form.**  Conservative multi-channel convection with `C` channels in `D ≥ 1`
    dimensions, cut-off `3·Kc < N` (e.g. the 2/3 rule).  Real states `xs ch`, `û_ch = rfftnM D N
    (xs ch)`.  Output channel `i` at a retained stored mode `h`:

      `−scale · ½ · Σ_{j<C} (i s k_j(h)) · (X_j ⋆ X_i)(k(h))`

    with `X_ch` the box-truncated full spectrum of `xs ch` and `⋆` the LINEAR convolution
    (normalised by `N^{-D}`): the coefficients of `−scale·½·Σ_j ∂_j (P_K u_j · P_K u_i)`,
    alias-free.  At a dropped mode the output is `0`. -/
theorem convection_multi_conservative_alias_free_nd (c : Cfg ℂ) (hD : 0 < c.D) (hq : c.fq ≠ 0)
    (hK : 3 * Kc c < (c.N : ℤ)) (hN : 0 < c.N) (C : ℕ) (scale : ℂ) (uh : MC ℂ) (xs : ℕ → Array ℂ)
    (hx : ∀ ch, ch < C → IsRealND c.D c.N (xs ch))
    (huh : ∀ ch, ch < C → uh.getD ch #[] = rfftnM c.D c.N (xs ch))
    (i : ℕ) (hi : i < C) (h : ℕ) (hh : h < numModes c.D c.N) :
    (mask c h = 1 →
      at2 (convection c C scale false true uh) i h
        = -scale * ((1 : ℂ) / 2 * ∑ j ∈ range C, deriv c j h *
            linConv c.D c.N (Kc c) (dftV c.D c.N (xs j)) (dftV c.D c.N (xs i)) (kvec c.D c.N h)))
    ∧ (mask c h = 0 → at2 (convection c C scale false true uh) i h = 0) := by
  refine ⟨fun hm => ?_, fun hm => convection_zero_off_band c C scale false true uh i h hm⟩
  have hk : ∀ d, |kvec c.D c.N h d| ≤ Kc c := (mask_nd_eq_one_iff c hq h).mp hm
  rw [convection_multi_conservative_readoff c hN C scale uh i hi h hh]
  congr 2
  apply Finset.sum_congr rfl
  intro j hj
  have hj' := Finset.mem_range.mp hj
  rw [hm, one_mul, huh j hj', huh i hi,
    dftV_mul_nifft_rfftn c hD hq hK hN (xs j) (xs i) (hx j hj') (hx i hi) _ hk]

/-- **N3(b), the case asked for: `D = 2`, two channels.**  Output channel `i ∈ {0, 1}` at a
    retained stored mode:
    `−scale·½·[(i s k_0(h))·(X_0 ⋆ X_i)(k(h)) + (i s k_1(h))·(X_1 ⋆ X_i)(k(h))]`; `0` at a dropped mode. -/
theorem convection_2d_conservative_alias_free (c : Cfg ℂ) (hD : c.D = 2) (hq : c.fq ≠ 0)
    (hK : 3 * Kc c < (c.N : ℤ)) (hN : 0 < c.N) (scale : ℂ) (x0 x1 : Array ℂ)
    (hx0 : IsRealND c.D c.N x0) (hx1 : IsRealND c.D c.N x1)
    (i : ℕ) (hi : i < 2) (h : ℕ) (hh : h < numModes c.D c.N) :
    let xs : ℕ → Array ℂ := fun ch => if ch = 0 then x0 else x1
    (mask c h = 1 →
      at2 (convection c 2 scale false true #[rfftnM c.D c.N x0, rfftnM c.D c.N x1]) i h
        = -scale * ((1 : ℂ) / 2 *
            (deriv c 0 h * linConv c.D c.N (Kc c) (dftV c.D c.N x0) (dftV c.D c.N (xs i)) (kvec c.D c.N h)
              + deriv c 1 h * linConv c.D c.N (Kc c) (dftV c.D c.N x1) (dftV c.D c.N (xs i)) (kvec c.D c.N h))))
    ∧ (mask c h = 0 →
      at2 (convection c 2 scale false true #[rfftnM c.D c.N x0, rfftnM c.D c.N x1]) i h = 0) := by
  intro xs
  have hxs : ∀ ch, ch < 2 → IsRealND c.D c.N (xs ch) := by
    intro ch _
    show IsRealND c.D c.N (if ch = 0 then x0 else x1)
    split_ifs
    · exact hx0
    · exact hx1
  have huh : ∀ ch, ch < 2 →
      (#[rfftnM c.D c.N x0, rfftnM c.D c.N x1] : MC ℂ).getD ch #[] = rfftnM c.D c.N (xs ch) := by
    intro ch hch
    interval_cases ch <;> rfl
  have := convection_multi_conservative_alias_free_nd c (by omega) hq hK hN 2 scale _ xs hxs huh i hi h hh
  refine ⟨fun hm => ?_, this.2⟩
  rw [this.1 hm, Finset.sum_range_succ, Finset.sum_range_succ, Finset.sum_range_zero, zero_add]
  rfl

/-- the model's derivative symbol is `i·s·k_j(h)` with `k(h) = kvec` the stored wavenumber vector -/
theorem deriv_eq_kvec (c : Cfg ℂ) (j : Fin c.D) (h : ℕ) :
    deriv c j h = Complex.I * (c.s * ((kvec c.D c.N h j : ℤ) : ℂ)) := rfl

/-! ### single-channel conservative convection `½ (Σ_d ∂_d) u²`, any `C`, any `D` -/

theorem convection_single_conservative_readoff (c : Cfg ℂ) (hN : 0 < c.N) (C : ℕ) (scale : ℂ)
    (uh : MC ℂ) (ch : ℕ) (hch : ch < C) (h : ℕ) (hh : h < numModes c.D c.N) :
    at2 (convection c C scale true true uh) ch h
      = -scale * ((1 : ℂ) / 2 * (∑ d ∈ range c.D, deriv c d h) * (mask c h *
          dftV c.D c.N (tab (c.N ^ c.D) fun x =>
            (nifft c (uh.getD ch #[])).getD x 0 * (nifft c (uh.getD ch #[])).getD x 0)
            (kvec c.D c.N h))) := by
  have hM : h < modes c := hh
  unfold convection
  simp only [↓reduceIte]
  rw [at2_tab2 _ _ _ _ _ hch hM, sumList_range_eq, at2_tabC _ _ _ _ hch, nfft_nd c hN _ h hh]
  congr 3
  · simp
  · congr 2
    funext x
    rw [at2_tabC _ _ _ _ hch]

/-- single-channel conservative convection (`single_channel = True`, `conservative = True`), any
    `D ≥ 1`, cut-off `3·Kc < N`: channel `ch` at a retained mode is
    `−scale·½·(Σ_d i s k_d(h))·(X ⋆ X)(k(h))`, alias-free; `0` at a dropped mode -/
theorem convection_single_conservative_alias_free_nd (c : Cfg ℂ) (hD : 0 < c.D) (hq : c.fq ≠ 0)
    (hK : 3 * Kc c < (c.N : ℤ)) (hN : 0 < c.N) (C : ℕ) (scale : ℂ) (uh : MC ℂ) (xs : ℕ → Array ℂ)
    (hx : ∀ ch, ch < C → IsRealND c.D c.N (xs ch))
    (huh : ∀ ch, ch < C → uh.getD ch #[] = rfftnM c.D c.N (xs ch))
    (ch : ℕ) (hch : ch < C) (h : ℕ) (hh : h < numModes c.D c.N) :
    (mask c h = 1 →
      at2 (convection c C scale true true uh) ch h
        = -scale * ((1 : ℂ) / 2 * (∑ d ∈ range c.D, deriv c d h) *
            linConv c.D c.N (Kc c) (dftV c.D c.N (xs ch)) (dftV c.D c.N (xs ch)) (kvec c.D c.N h)))
    ∧ (mask c h = 0 → at2 (convection c C scale true true uh) ch h = 0) := by
  refine ⟨fun hm => ?_, fun hm => convection_zero_off_band c C scale true true uh ch h hm⟩
  have hk : ∀ d, |kvec c.D c.N h d| ≤ Kc c := (mask_nd_eq_one_iff c hq h).mp hm
  rw [convection_single_conservative_readoff c hN C scale uh ch hch h hh, hm, one_mul, huh ch hch,
    dftV_mul_nifft_rfftn c hD hq hK hN (xs ch) (xs ch) (hx ch hch) (hx ch hch) _ hk]

/-! ### `CahnHilliardNonlinearFun` (the library's cubic term), any `D` -/

theorem cahnHilliard_nd_readoff (c : Cfg ℂ) (hN : 0 < c.N) (scale : ℂ)
    (uh : Array ℂ) (h : ℕ) (hh : h < numModes c.D c.N) :
    at2 (cahnHilliard c scale #[uh]) 0 h
      = laplace c 2 h * (mask c h * dftV c.D c.N (tab (c.N ^ c.D) fun j =>
          (nifft c uh).getD j 0 * (nifft c uh).getD j 0 * (nifft c uh).getD j 0) (kvec c.D c.N h))
          * scale := by
  have hM : h < modes c := hh
  have e : (tab (modes c) fun h => mask c h * at2 (#[uh] : MC ℂ) 0 h)
      = tab (modes c) fun h => mask c h * uh.getD h 0 := rfl
  unfold cahnHilliard
  simp only []
  rw [at2_tab2 _ _ _ _ _ Nat.zero_lt_one hM, nfft_nd c hN _ h hh, e, nifft_mask_idem]
  rfl

/-- **`CahnHilliardNonlinearFun`, any `D ≥ 1`, cut-off `4·Kc < N` (e.g. the 1/2 rule).**  At a
    retained stored mode the output is `scale · Δ̂_h · (X ⋆ X ⋆ X)(k(h))`: the coefficient of
    `scale · Δ (P_K u)³`, alias-free; at a dropped mode it is `0`. -/
theorem cahnHilliard_alias_free_nd (c : Cfg ℂ) (hD : 0 < c.D) (hq : c.fq ≠ 0)
    (hK : 4 * Kc c < (c.N : ℤ)) (hN : 0 < c.N) (scale : ℂ) (x : Array ℂ) (hx : IsRealND c.D c.N x)
    (h : ℕ) (hh : h < numModes c.D c.N) :
    (mask c h = 1 →
      at2 (cahnHilliard c scale #[rfftnM c.D c.N x]) 0 h
        = laplace c 2 h * linConv3 c.D c.N (Kc c) (dftV c.D c.N x) (dftV c.D c.N x) (dftV c.D c.N x)
            (kvec c.D c.N h) * scale)
    ∧ (mask c h = 0 → at2 (cahnHilliard c scale #[rfftnM c.D c.N x]) 0 h = 0) := by
  refine ⟨fun hm => ?_, fun hm => cahnHilliard_zero_off_band c scale _ 0 h hm⟩
  have hk : ∀ d, |kvec c.D c.N h d| ≤ Kc c := (mask_nd_eq_one_iff c hq h).mp hm
  rw [cahnHilliard_nd_readoff c hN scale _ h hh, hm, one_mul,
    dftV_mul3_nifft_rfftn c hD hq hK hN x x x hx hx hx _ hk]

/-! ### the documented fractions 2/3 and 1/2 (literal `fp`, `fq`) -/

/-- N3(a) for the documented fraction 2/3 -/
theorem polynomial_quadratic_alias_free_nd_two_thirds (c : Cfg ℂ) (hD : 0 < c.D) (hp : c.fp = 2)
    (hq : c.fq = 3) (hN : 0 < c.N) (c0 c1 c2 : ℂ) (x : Array ℂ) (hx : IsRealND c.D c.N x)
    (h : ℕ) (hh : h < numModes c.D c.N) :
    (mask c h = 1 →
      at2 (polynomial c 1 [c0, c1, c2] #[rfftnM c.D c.N x]) 0 h
        = c0 * (if h = 0 then ((c.N ^ c.D : ℕ) : ℂ) else 0) + c1 * (rfftnM c.D c.N x).getD h 0
          + c2 * linConv c.D c.N (Kc c) (dftV c.D c.N x) (dftV c.D c.N x) (kvec c.D c.N h))
    ∧ (mask c h = 0 → at2 (polynomial c 1 [c0, c1, c2] #[rfftnM c.D c.N x]) 0 h = 0) :=
  polynomial_quadratic_alias_free_nd c hD (by omega) (Kc_two_thirds c hp hq).1 hN c0 c1 c2 x hx h hh

/-- N3(a) for the documented fraction 1/2 -/
theorem polynomial_cubic_alias_free_nd_half (c : Cfg ℂ) (hD : 0 < c.D) (hp : c.fp = 1)
    (hq : c.fq = 2) (hN : 0 < c.N) (c0 c1 c2 c3 : ℂ) (x : Array ℂ)
    (hx : IsRealND c.D c.N x) (h : ℕ) (hh : h < numModes c.D c.N) :
    (mask c h = 1 →
      at2 (polynomial c 1 [c0, c1, c2, c3] #[rfftnM c.D c.N x]) 0 h
        = c0 * (if h = 0 then ((c.N ^ c.D : ℕ) : ℂ) else 0) + c1 * (rfftnM c.D c.N x).getD h 0
          + c2 * linConv c.D c.N (Kc c) (dftV c.D c.N x) (dftV c.D c.N x) (kvec c.D c.N h)
          + c3 * linConv3 c.D c.N (Kc c) (dftV c.D c.N x) (dftV c.D c.N x) (dftV c.D c.N x)
              (kvec c.D c.N h))
    ∧ (mask c h = 0 → at2 (polynomial c 1 [c0, c1, c2, c3] #[rfftnM c.D c.N x]) 0 h = 0) :=
  polynomial_cubic_alias_free_nd c hD (by omega) (Kc_half c hp hq) hN c0 c1 c2 c3 x hx h hh

/-- N3(b) for the documented fraction 2/3 -/
theorem convection_multi_conservative_alias_free_nd_two_thirds (c : Cfg ℂ) (hD : 0 < c.D)
    (hp : c.fp = 2) (hq : c.fq = 3) (hN : 0 < c.N) (C : ℕ) (scale : ℂ) (uh : MC ℂ)
    (xs : ℕ → Array ℂ) (hx : ∀ ch, ch < C → IsRealND c.D c.N (xs ch))
    (huh : ∀ ch, ch < C → uh.getD ch #[] = rfftnM c.D c.N (xs ch))
    (i : ℕ) (hi : i < C) (h : ℕ) (hh : h < numModes c.D c.N) :
    (mask c h = 1 →
      at2 (convection c C scale false true uh) i h
        = -scale * ((1 : ℂ) / 2 * ∑ j ∈ range C, deriv c j h *
            linConv c.D c.N (Kc c) (dftV c.D c.N (xs j)) (dftV c.D c.N (xs i)) (kvec c.D c.N h)))
    ∧ (mask c h = 0 → at2 (convection c C scale false true uh) i h = 0) :=
  convection_multi_conservative_alias_free_nd c hD (by omega) (Kc_two_thirds c hp hq).1 hN C scale uh
    xs hx huh i hi h hh

end Exponax.AliasND
