import ExponaxModel.Proofs.DiffTermsSpace
import ExponaxModel.Proofs.DiffTermsConv
import ExponaxModel.Proofs.DiffTermsMore
import ExponaxModel.Proofs.Differentiability
/-
C07 support — T1, headline theorems for EVERY term of `Model/Nonlin.lean`: `convection`, `gradientNorm`, `vorticity2d`,
`polynomial`, `general`, `leray` (linear), `projected3d`, `cahnHilliard`, `reaction` (Gray–Scott, BZ).

For each model term `T` (a function `MC ℂ → MC ℂ` on multi-channel spectra):
  * `T_termCalc`          : `T` carries every `FunAlg₂` relation with tangent `TJvp`;
  * `T_phys_contDiff`     : `irfftn ∘ T ∘ rfftn : Phys C G → Phys C' G` is `ContDiff ℝ n` for every `n` (`⊤`, and `ω`);
  * `T_spec_contDiff`     : `T` on stored spectra (a real vector space) is `ContDiff ℝ n`;
  * `T_phys_hasFDerivAt`  : the Fréchet derivative at `u` is `v ↦ irfftn (TJvp (rfftn u) (rfftn v))`;
  * `T_spec_hasFDerivAt`  : the same on stored spectra.
`TJvp` is written out in `DiffTermsConv`: it is the term's pipeline with the product rule at the pointwise products,
e.g. for the single-channel non-conservative convection `−b · P(Σ_d u ∂_d v + v ∂_d u)` (`convectionJvp_single_nc`).
-/
set_option linter.unusedVariables false
namespace Exponax.DiffTerms
open Exponax Exponax.Layout Exponax.Transform Exponax.Nonlin

/-! ### convection -/

theorem convection_termCalc (c : Cfg ℂ) (C : ℕ) (scale : ℂ) (single conservative : Bool) :
    TermCalc (convection c C scale single conservative) (convectionJvp c C scale single conservative) :=
  ⟨fun R u hR f f' hf => convection_rel hR c C scale single conservative hf⟩

/-- **T1, convection, smoothness** (all four flag combinations, every `D`, `N`, `C`, dealiasing fraction) -/
theorem convection_phys_contDiff (c : Cfg ℂ) (C C' : ℕ) (scale : ℂ) (single conservative : Bool) (n : WithTop ℕ∞) :
    ContDiff ℝ n (physMap c C C' (convection c C scale single conservative)) :=
  (convection_termCalc c C scale single conservative).physMap_contDiff c C C' n

theorem convection_spec_contDiff (c : Cfg ℂ) (C C' : ℕ) (scale : ℂ) (single conservative : Bool) (n : WithTop ℕ∞) :
    ContDiff ℝ n (specMap c C C' (convection c C scale single conservative)) :=
  (convection_termCalc c C scale single conservative).specMap_contDiff c C C' n

/-- **T1, convection, derivative**: `DF(u)[v] = irfftn (convectionJvp (rfftn u) (rfftn v))` -/
theorem convection_phys_hasFDerivAt (c : Cfg ℂ) (C C' : ℕ) (scale : ℂ) (single conservative : Bool)
    (u : Phys C (gridSize c)) :
    ∃ L : Phys C (gridSize c) →L[ℝ] Phys C' (gridSize c),
      HasFDerivAt (physMap c C C' (convection c C scale single conservative)) L u ∧
      ∀ v, L v = physJvp c C C' (convectionJvp c C scale single conservative) u v :=
  (convection_termCalc c C scale single conservative).physMap_hasFDerivAt c C C' u

theorem convection_phys_fderiv (c : Cfg ℂ) (C C' : ℕ) (scale : ℂ) (single conservative : Bool)
    (u v : Phys C (gridSize c)) :
    fderiv ℝ (physMap c C C' (convection c C scale single conservative)) u v
      = physJvp c C C' (convectionJvp c C scale single conservative) u v :=
  (convection_termCalc c C scale single conservative).physMap_fderiv c C C' u v

theorem convection_spec_hasFDerivAt (c : Cfg ℂ) (C C' : ℕ) (scale : ℂ) (single conservative : Bool)
    (x : Spec C (modes c)) :
    ∃ L : Spec C (modes c) →L[ℝ] Spec C' (modes c),
      HasFDerivAt (specMap c C C' (convection c C scale single conservative)) L x ∧
      ∀ v, L v = specJvp c C C' (convectionJvp c C scale single conservative) x v :=
  (convection_termCalc c C scale single conservative).specMap_hasFDerivAt c C C' x

/-- the tangent, written out: single channel, non-conservative — `−b · P(Σ_d u ∂_d v + v ∂_d u)` -/
theorem convectionJvp_single_nc (c : Cfg ℂ) (C : ℕ) (scale : ℂ) (uh vh : MC ℂ) :
    convectionJvp c C scale true false uh vh
      = tab2 1 (modes c) (fun _ h => -scale * (nfft c (tab (gridSize c) (fun j =>
          sumList ((List.range c.D).map (fun d =>
            at2 (tabC C (fun ch => nifft c (uh.getD ch #[]))) 0 j *
              at2 (tabC c.D (fun d => nifft c (tab (modes c) (fun h => deriv c d h * at2 vh 0 h)))) d j +
            at2 (tabC C (fun ch => nifft c (vh.getD ch #[]))) 0 j *
              at2 (tabC c.D (fun d => nifft c (tab (modes c) (fun h => deriv c d h * at2 uh 0 h)))) d j))))).getD h 0) := by
  simp only [convectionJvp, Bool.false_eq_true, if_false, if_true]

/-- the tangent, written out: single channel, conservative — `−b/2 · (Σ_d ∂_d) P(u v + v u)` -/
theorem convectionJvp_single_cons (c : Cfg ℂ) (C : ℕ) (scale : ℂ) (uh vh : MC ℂ) :
    convectionJvp c C scale true true uh vh
      = tab2 C (modes c) (fun ch h => -scale * (qlit 1 2 * sumList ((List.range c.D).map (fun d => deriv c d h)) *
          at2 (tabC C (fun ch => nfft c (tab (gridSize c) (fun j =>
            at2 (tabC C (fun ch => nifft c (uh.getD ch #[]))) ch j * at2 (tabC C (fun ch => nifft c (vh.getD ch #[]))) ch j +
            at2 (tabC C (fun ch => nifft c (vh.getD ch #[]))) ch j * at2 (tabC C (fun ch => nifft c (uh.getD ch #[]))) ch j))))
            ch h)) := by
  simp only [convectionJvp, if_true]

/-! ### gradient norm -/

theorem gradientNorm_termCalc (c : Cfg ℂ) (C : ℕ) (scale : ℂ) (zeroFix : Bool) :
    TermCalc (gradientNorm c C scale zeroFix) (gradientNormJvp c C scale zeroFix) :=
  ⟨fun R u hR f f' hf => gradientNorm_rel hR c C scale zeroFix hf⟩

/-- **T1, gradient norm, smoothness** (both zero-fix options) -/
theorem gradientNorm_phys_contDiff (c : Cfg ℂ) (C C' : ℕ) (scale : ℂ) (zeroFix : Bool) (n : WithTop ℕ∞) :
    ContDiff ℝ n (physMap c C C' (gradientNorm c C scale zeroFix)) :=
  (gradientNorm_termCalc c C scale zeroFix).physMap_contDiff c C C' n

theorem gradientNorm_spec_contDiff (c : Cfg ℂ) (C C' : ℕ) (scale : ℂ) (zeroFix : Bool) (n : WithTop ℕ∞) :
    ContDiff ℝ n (specMap c C C' (gradientNorm c C scale zeroFix)) :=
  (gradientNorm_termCalc c C scale zeroFix).specMap_contDiff c C C' n

/-- **T1, gradient norm, derivative**: `DF(u)[v] = irfftn (gradientNormJvp (rfftn u) (rfftn v))`, i.e.
    `−b/2 · P(Σ_d 2 ∂_d u ∂_d v − mean)` -/
theorem gradientNorm_phys_hasFDerivAt (c : Cfg ℂ) (C C' : ℕ) (scale : ℂ) (zeroFix : Bool) (u : Phys C (gridSize c)) :
    ∃ L : Phys C (gridSize c) →L[ℝ] Phys C' (gridSize c),
      HasFDerivAt (physMap c C C' (gradientNorm c C scale zeroFix)) L u ∧
      ∀ v, L v = physJvp c C C' (gradientNormJvp c C scale zeroFix) u v :=
  (gradientNorm_termCalc c C scale zeroFix).physMap_hasFDerivAt c C C' u

theorem gradientNorm_phys_fderiv (c : Cfg ℂ) (C C' : ℕ) (scale : ℂ) (zeroFix : Bool) (u v : Phys C (gridSize c)) :
    fderiv ℝ (physMap c C C' (gradientNorm c C scale zeroFix)) u v
      = physJvp c C C' (gradientNormJvp c C scale zeroFix) u v :=
  (gradientNorm_termCalc c C scale zeroFix).physMap_fderiv c C C' u v

theorem gradientNorm_spec_hasFDerivAt (c : Cfg ℂ) (C C' : ℕ) (scale : ℂ) (zeroFix : Bool) (x : Spec C (modes c)) :
    ∃ L : Spec C (modes c) →L[ℝ] Spec C' (modes c),
      HasFDerivAt (specMap c C C' (gradientNorm c C scale zeroFix)) L x ∧
      ∀ v, L v = specJvp c C C' (gradientNormJvp c C scale zeroFix) x v :=
  (gradientNorm_termCalc c C scale zeroFix).specMap_hasFDerivAt c C C' x

/-! ### vorticity convection (2-D), with or without injection -/

theorem vorticity2d_termCalc (c : Cfg ℂ) (scale : ℂ) (inj : Option (ℕ × ℂ)) :
    TermCalc (vorticity2d c scale inj) (vorticity2dJvp c scale) :=
  ⟨fun R u hR f f' hf => vorticity2d_rel hR c scale inj hf⟩

/-- **T1, vorticity convection, smoothness** -/
theorem vorticity2d_phys_contDiff (c : Cfg ℂ) (C C' : ℕ) (scale : ℂ) (inj : Option (ℕ × ℂ)) (n : WithTop ℕ∞) :
    ContDiff ℝ n (physMap c C C' (vorticity2d c scale inj)) :=
  (vorticity2d_termCalc c scale inj).physMap_contDiff c C C' n

theorem vorticity2d_spec_contDiff (c : Cfg ℂ) (C C' : ℕ) (scale : ℂ) (inj : Option (ℕ × ℂ)) (n : WithTop ℕ∞) :
    ContDiff ℝ n (specMap c C C' (vorticity2d c scale inj)) :=
  (vorticity2d_termCalc c scale inj).specMap_contDiff c C C' n

/-- **T1, vorticity convection, derivative**: `−b · P(u[ω]·∇dω + u[dω]·∇ω)`; the injection is a constant -/
theorem vorticity2d_phys_hasFDerivAt (c : Cfg ℂ) (C C' : ℕ) (scale : ℂ) (inj : Option (ℕ × ℂ)) (u : Phys C (gridSize c)) :
    ∃ L : Phys C (gridSize c) →L[ℝ] Phys C' (gridSize c),
      HasFDerivAt (physMap c C C' (vorticity2d c scale inj)) L u ∧
      ∀ v, L v = physJvp c C C' (vorticity2dJvp c scale) u v :=
  (vorticity2d_termCalc c scale inj).physMap_hasFDerivAt c C C' u

theorem vorticity2d_spec_hasFDerivAt (c : Cfg ℂ) (C C' : ℕ) (scale : ℂ) (inj : Option (ℕ × ℂ)) (x : Spec C (modes c)) :
    ∃ L : Spec C (modes c) →L[ℝ] Spec C' (modes c),
      HasFDerivAt (specMap c C C' (vorticity2d c scale inj)) L x ∧
      ∀ v, L v = specJvp c C C' (vorticity2dJvp c scale) x v :=
  (vorticity2d_termCalc c scale inj).specMap_hasFDerivAt c C C' x

/-! ### polynomial -/

theorem polynomial_termCalc (c : Cfg ℂ) (C : ℕ) (coeffs : List ℂ) :
    TermCalc (polynomial c C coeffs) (polynomialJvp c C coeffs) :=
  ⟨fun R u hR f f' hf => polynomial_rel hR c C coeffs hf⟩

theorem polynomial_phys_contDiff (c : Cfg ℂ) (C C' : ℕ) (coeffs : List ℂ) (n : WithTop ℕ∞) :
    ContDiff ℝ n (physMap c C C' (polynomial c C coeffs)) :=
  (polynomial_termCalc c C coeffs).physMap_contDiff c C C' n

theorem polynomial_phys_hasFDerivAt (c : Cfg ℂ) (C C' : ℕ) (coeffs : List ℂ) (u : Phys C (gridSize c)) :
    ∃ L : Phys C (gridSize c) →L[ℝ] Phys C' (gridSize c),
      HasFDerivAt (physMap c C C' (polynomial c C coeffs)) L u ∧
      ∀ v, L v = physJvp c C C' (polynomialJvp c C coeffs) u v :=
  (polynomial_termCalc c C coeffs).physMap_hasFDerivAt c C C' u

/-- the forward-mode loop `polyEvalJvp` computes `p'(u) · du` (`Diff.polyDeriv`, the formal derivative) -/
theorem polyEvalJvp_eq (cs : List ℂ) (u du : ℂ) : polyEvalJvp cs u du = Diff.polyDeriv cs u * du := by
  have h := polyEval_rel (funAlg₂_hasFD u) cs (HasFD.of_clm u (ContinuousLinearMap.id ℝ ℂ))
  obtain ⟨L, hL, hv⟩ := h
  have h2 : HasFDerivAt (polyEval cs) ((ContinuousLinearMap.toSpanSingleton ℂ (Diff.polyDeriv cs u)).restrictScalars ℝ) u :=
    (Diff.polyEval_hasDerivAt cs u).hasFDerivAt.restrictScalars ℝ
  have e := hL.unique h2
  have := hv du
  simp only [ContinuousLinearMap.id_apply] at this
  rw [← this, e]
  simp [mul_comm]

/-! ### general (polynomial + convection + gradient norm) -/

theorem general_termCalc (c : Cfg ℂ) (C : ℕ) (s0 s1 s2 : ℂ) (zeroFix : Bool) :
    TermCalc (general c C s0 s1 s2 zeroFix) (generalJvp c C s0 s1 s2 zeroFix) :=
  ⟨fun R u hR f f' hf => general_rel hR c C s0 s1 s2 zeroFix hf⟩

theorem general_phys_contDiff (c : Cfg ℂ) (C C' : ℕ) (s0 s1 s2 : ℂ) (zeroFix : Bool) (n : WithTop ℕ∞) :
    ContDiff ℝ n (physMap c C C' (general c C s0 s1 s2 zeroFix)) :=
  (general_termCalc c C s0 s1 s2 zeroFix).physMap_contDiff c C C' n

theorem general_phys_hasFDerivAt (c : Cfg ℂ) (C C' : ℕ) (s0 s1 s2 : ℂ) (zeroFix : Bool) (u : Phys C (gridSize c)) :
    ∃ L : Phys C (gridSize c) →L[ℝ] Phys C' (gridSize c),
      HasFDerivAt (physMap c C C' (general c C s0 s1 s2 zeroFix)) L u ∧
      ∀ v, L v = physJvp c C C' (generalJvp c C s0 s1 s2 zeroFix) u v :=
  (general_termCalc c C s0 s1 s2 zeroFix).physMap_hasFDerivAt c C C' u

/-! ### Leray projection (linear) and projected convection (3-D) -/

theorem leray_termLin (c : Cfg ℂ) : TermLin (leray c) :=
  ⟨fun R hM f f' hf => leray_rel hM c hf⟩

/-- the Leray projection between the transforms is ℝ-linear, and is its own Fréchet derivative -/
theorem leray_phys_fderiv (c : Cfg ℂ) (C C' : ℕ) (u v : Phys C (gridSize c)) :
    fderiv ℝ (physMap c C C' (leray c)) u v = physMap c C C' (leray c) v :=
  (leray_termLin c).physMap_fderiv c C C' u v

theorem projected3d_termCalc (c : Cfg ℂ) (inj : Option (ℕ × ℂ)) : TermCalc (projected3d c inj) (projected3dJvp c) :=
  ⟨fun R u hR f f' hf => projected3d_rel hR c inj hf⟩

theorem projected3d_phys_contDiff (c : Cfg ℂ) (C C' : ℕ) (inj : Option (ℕ × ℂ)) (n : WithTop ℕ∞) :
    ContDiff ℝ n (physMap c C C' (projected3d c inj)) :=
  (projected3d_termCalc c inj).physMap_contDiff c C C' n

theorem projected3d_phys_hasFDerivAt (c : Cfg ℂ) (C C' : ℕ) (inj : Option (ℕ × ℂ)) (u : Phys C (gridSize c)) :
    ∃ L : Phys C (gridSize c) →L[ℝ] Phys C' (gridSize c),
      HasFDerivAt (physMap c C C' (projected3d c inj)) L u ∧ ∀ v, L v = physJvp c C C' (projected3dJvp c) u v :=
  (projected3d_termCalc c inj).physMap_hasFDerivAt c C C' u

/-! ### Cahn–Hilliard -/

theorem cahnHilliard_termCalc (c : Cfg ℂ) (scale : ℂ) : TermCalc (cahnHilliard c scale) (cahnHilliardJvp c scale) :=
  ⟨fun R u hR f f' hf => cahnHilliard_rel hR c scale hf⟩

theorem cahnHilliard_phys_contDiff (c : Cfg ℂ) (C C' : ℕ) (scale : ℂ) (n : WithTop ℕ∞) :
    ContDiff ℝ n (physMap c C C' (cahnHilliard c scale)) :=
  (cahnHilliard_termCalc c scale).physMap_contDiff c C C' n

theorem cahnHilliard_phys_hasFDerivAt (c : Cfg ℂ) (C C' : ℕ) (scale : ℂ) (u : Phys C (gridSize c)) :
    ∃ L : Phys C (gridSize c) →L[ℝ] Phys C' (gridSize c),
      HasFDerivAt (physMap c C C' (cahnHilliard c scale)) L u ∧
      ∀ v, L v = physJvp c C C' (cahnHilliardJvp c scale) u v :=
  (cahnHilliard_termCalc c scale).physMap_hasFDerivAt c C C' u

/-! ### reaction terms -/

theorem reaction_termCalc (c : Cfg ℂ) (C : ℕ) {react : List ℂ → List ℂ} {reactJ : List ℂ → List ℂ → List ℂ}
    (h : ReactCalc C react reactJ) : TermCalc (reaction c C react) (reactionJvp c C reactJ) :=
  ⟨fun R u hR f f' hf => reaction_rel hR c C h hf⟩

/-- Gray–Scott -/
theorem reaction_grayScott_phys_contDiff (c : Cfg ℂ) (C C' : ℕ) (feed kill : ℂ) (n : WithTop ℕ∞) :
    ContDiff ℝ n (physMap c C C' (reaction c C (grayScottReact feed kill))) :=
  (reaction_termCalc c C (grayScott_reactCalc C feed kill)).physMap_contDiff c C C' n

theorem reaction_grayScott_phys_hasFDerivAt (c : Cfg ℂ) (C C' : ℕ) (feed kill : ℂ) (u : Phys C (gridSize c)) :
    ∃ L : Phys C (gridSize c) →L[ℝ] Phys C' (gridSize c),
      HasFDerivAt (physMap c C C' (reaction c C (grayScottReact feed kill))) L u ∧
      ∀ v, L v = physJvp c C C' (reactionJvp c C (grayScottReactJvp feed kill)) u v :=
  (reaction_termCalc c C (grayScott_reactCalc C feed kill)).physMap_hasFDerivAt c C C' u

/-- Belousov–Zhabotinsky -/
theorem reaction_bz_phys_contDiff (c : Cfg ℂ) (C C' : ℕ) (n : WithTop ℕ∞) :
    ContDiff ℝ n (physMap c C C' (reaction c C bzReact)) :=
  (reaction_termCalc c C (bz_reactCalc C)).physMap_contDiff c C C' n

theorem reaction_bz_phys_hasFDerivAt (c : Cfg ℂ) (C C' : ℕ) (u : Phys C (gridSize c)) :
    ∃ L : Phys C (gridSize c) →L[ℝ] Phys C' (gridSize c),
      HasFDerivAt (physMap c C C' (reaction c C bzReact)) L u ∧
      ∀ v, L v = physJvp c C C' (reactionJvp c C bzReactJvp) u v :=
  (reaction_termCalc c C (bz_reactCalc C)).physMap_hasFDerivAt c C C' u

end Exponax.DiffTerms
