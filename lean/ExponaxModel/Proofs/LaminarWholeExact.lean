import ExponaxModel.Proofs.LaminarWhole
/-
C12 / PART A2, explicit form: the forcing spectrum of the 2-D Kolmogorov stepper is carried by the single stored mode
`h = m` (wave vector `(0, m)`), so from rest the whole spectrum after `n` steps of ETDRK-p is

    h = m :  f̂ (e^{n σ dt} − 1)/σ      (exact coefficients at the forced mode, σ the linear symbol there)
    h ≠ m :  0

for p = 1..4, and with ALL coefficients stored (contour means) the same with `dt φ₁(σ dt)` replaced by the stored
`E1_coef_1 dt σ M r` — the same trajectory for all four orders.
-/
set_option linter.unusedVariables false
namespace Exponax.Laminar
open Exponax Exponax.Layout Exponax.Transform Exponax.Gen.Etdrk Exponax.Spec Finset
open Exponax.Nonlin (Cfg MC at2 tab2 tabC modes gridSize mask nfft nifft vorticity2d kInt deriv invLapOne)
open Exponax.Conserve (liftNl)

/-! ### the forced stored mode -/

theorem modes_two (c : Cfg ℂ) (hD : c.D = 2) : modes c = c.N * (c.N / 2 + 1) := by
  simp [modes, numModes, wavenumberShape, shapeSize, hD]

theorem forced_mode_lt (c : Cfg ℂ) (hD : c.D = 2) (m : ℕ) (hm : 2 * m < c.N) : m < modes c := by
  rw [modes_two c hD]
  have h1 : m < c.N / 2 + 1 := by omega
  have h2 : 1 ≤ c.N := by omega
  calc m < c.N / 2 + 1 := h1
    _ = 1 * (c.N / 2 + 1) := (one_mul _).symm
    _ ≤ c.N * (c.N / 2 + 1) := Nat.mul_le_mul_right _ h2

theorem wnFlat_forced (c : Cfg ℂ) (hD : c.D = 2) (m : ℕ) (hm : 2 * m < c.N) :
    wnFlat c.D c.N m = [0, (m : ℤ)] := by
  have h := SymmetryND.wnFlat_two c.N 0 m (by omega)
  rw [zero_mul, zero_add] at h
  rw [hD, h]
  simp [fftfreq]

/-- the stored mode with wave vector `(0, m)` is the flat index `m` -/
theorem forced_mode_iff (c : Cfg ℂ) (hD : c.D = 2) (m : ℕ) (hm : 2 * m < c.N) (h : ℕ) (hh : h < modes c) :
    (kInt c 0 h = 0 ∧ kInt c 1 h = (m : ℤ)) ↔ h = m := by
  rw [← ReadOff.wnFlat_eq_2d c hD h 0 m]
  constructor
  · intro he
    exact ExactLinear.wnFlat_inj c.D c.N (by omega) (by omega) h m hh (forced_mode_lt c hD m hm)
      (by rw [he, wnFlat_forced c hD m hm])
  · rintro rfl
    exact wnFlat_forced c hD h hm

/-- **the forcing spectrum**: `−(s m) γ N²/2` at the stored mode `h = m`, zero at every other index -/
theorem forcing_eq (c : Cfg ℂ) (hD : c.D = 2) (scale γ : ℂ) (m : ℕ) (hm0 : 0 < m) (hm : 2 * m < c.N) :
    forcing c scale (some (m, γ))
      = fun h => if h = m then -(c.s * (m : ℂ)) * γ * ((c.N : ℂ) * ((c.N : ℂ) / 2)) else 0 := by
  funext h
  rw [forcing_apply c (by omega)]
  by_cases hh : h < modes c
  · rw [if_pos hh]
    simp only [injTerm]
    by_cases he : h = m
    · have hk := (forced_mode_iff c hD m hm h hh).mpr he
      rw [if_pos hk, if_pos he, Nonlin.scaling_at_kolmogorov_2d c hD h m hm0 hm hk.1 hk.2, hk.2]
      push_cast
      ring
    · rw [if_neg (fun hk => he ((forced_mode_iff c hD m hm h hh).mp hk)), if_neg he]
  · rw [if_neg hh, if_neg]
    intro he
    exact hh (he ▸ forced_mode_lt c hD m hm)

/-- the forcing spectrum IS the transform of the documented forcing field `−m s γ cos(m s x₁)` (curl of
    `γ sin(m s x₁) e₀`), every index -/
theorem forcing_is_field (c : Cfg ℂ) (s γ : ℝ) (hs : c.s = (s : ℂ)) (hD : c.D = 2) (scale : ℂ) (m : ℕ)
    (hm : 2 * m < c.N) (h : ℕ) :
    forcing c scale (some (m, (γ : ℂ))) h = (rfftnM 2 c.N (ReadOff.kolmogorovVorticity c.N m s γ)).getD h 0 := by
  unfold forcing liftNl
  have := ReadOff.vorticity2d_injection_is_forcing_array c s γ hs hD scale m hm
    (#[tab (modes c) (0 : ℕ → ℂ)] : MC ℂ) (fun h' => by
      rcases Nat.lt_or_ge h' (modes c) with hh | hh
      · rw [at2_singleton_tab _ _ _ hh]; rfl
      · unfold at2
        simp only [Array.getD, List.size_toArray, List.length_cons, List.length_nil, zero_add, Nat.lt_one_iff,
          dite_true]
        have := Nonlin.tab_getD_of_le (modes c) (0 : ℕ → ℂ) h' 0 hh
        simpa [Array.getD] using this)
  unfold at2
  rw [this]

/-- evaluation of the closed form of `laminar_E*` from rest -/
theorem from_rest_eval (c : Cfg ℂ) (hD : c.D = 2) (scale γ : ℂ) (m : ℕ) (hm0 : 0 < m) (hm : 2 * m < c.N)
    (E κ : ℕ → ℂ) (n : ℕ) :
    E ^ n * 0 + (∑ i ∈ range n, E ^ i) * (κ * forcing c scale (some (m, γ)))
      = fun h => if h = m
          then (∑ i ∈ range n, E m ^ i) * (κ m * (-(c.s * (m : ℂ)) * γ * ((c.N : ℂ) * ((c.N : ℂ) / 2))))
          else 0 := by
  rw [forcing_eq c hD scale γ m hm0 hm]
  funext h
  simp only [Pi.add_apply, Pi.mul_apply, Pi.zero_apply, mul_zero, zero_add, Finset.sum_apply, Pi.pow_apply]
  by_cases he : h = m
  · subst he; rw [if_pos rfl, if_pos rfl]
  · rw [if_neg he, if_neg he]; ring

/-! ### exact coefficients at the forced mode: the laminar solution, whole spectrum -/

/-- `Σ_{i<n} e^{iz} · dt φ₁(z) · f = f (e^{nz} − 1)/σ`, `z = σ dt` -/
theorem geom_phi1 (σ dt f : ℂ) (hσ : σ ≠ 0) (hdt : dt ≠ 0) (n : ℕ) :
    (∑ i ∈ range n, Complex.exp (σ * dt) ^ i) * (dt * phi1 (σ * dt) * f)
      = f * (Complex.exp (n * (σ * dt)) - 1) / σ := by
  have g := geom_sum_mul (Complex.exp (σ * dt)) n
  rw [Complex.exp_nat_mul]
  simp only [phi1, hasExp_complex]
  field_simp
  linear_combination f * g

/-- the Kolmogorov forcing coefficient `−(s m) γ N²/2` -/
noncomputable def fhat (c : Cfg ℂ) (γ : ℂ) (m : ℕ) : ℂ := -(c.s * (m : ℂ)) * γ * ((c.N : ℂ) * ((c.N : ℂ) / 2))

/-- the laminar spectrum after `n` steps: `f̂ (e^{nσdt} − 1)/σ` on the forced mode, zero elsewhere -/
noncomputable def laminarSpectrum (c : Cfg ℂ) (γ : ℂ) (m : ℕ) (σ dt : ℂ) (n : ℕ) : ℕ → ℂ :=
  fun h => if h = m then fhat c γ m * (Complex.exp (n * (σ * dt)) - 1) / σ else 0

theorem laminar_exact_E1 (c : Cfg ℂ) (hD : c.D = 2) (scale γ : ℂ) (m : ℕ) (hm0 : 0 < m) (hm : 2 * m < c.N)
    (σ dt : ℂ) (hσ : σ ≠ 0) (hdt : dt ≠ 0) (E a1 : ℕ → ℂ) (hE : E m = Complex.exp (σ * dt))
    (h1 : a1 m = dt * phi1 (σ * dt)) (n : ℕ) :
    (E1step E a1 (liftNl c (vorticity2d c scale (some (m, γ)))))^[n] 0 = laminarSpectrum c γ m σ dt n := by
  rw [laminar_E1 c (by omega) scale _ E a1 0 (shearSpec_zero c) n, from_rest_eval c hD scale γ m hm0 hm]
  funext h
  unfold laminarSpectrum
  by_cases he : h = m
  · rw [if_pos he, if_pos he, hE, h1]
    exact geom_phi1 σ dt _ hσ hdt n
  · rw [if_neg he, if_neg he]

theorem laminar_exact_E2 (c : Cfg ℂ) (hD : c.D = 2) (scale γ : ℂ) (m : ℕ) (hm0 : 0 < m) (hm : 2 * m < c.N)
    (σ dt : ℂ) (hσ : σ ≠ 0) (hdt : dt ≠ 0) (E a1 a2 : ℕ → ℂ) (hE : E m = Complex.exp (σ * dt))
    (h1 : a1 m = dt * phi1 (σ * dt)) (n : ℕ) :
    (E2step E a1 a2 (liftNl c (vorticity2d c scale (some (m, γ)))))^[n] 0 = laminarSpectrum c γ m σ dt n := by
  rw [laminar_E2 c (by omega) scale _ E a1 a2 0 (shearSpec_zero c) n, from_rest_eval c hD scale γ m hm0 hm]
  funext h
  unfold laminarSpectrum
  by_cases he : h = m
  · rw [if_pos he, if_pos he, hE, h1]
    exact geom_phi1 σ dt _ hσ hdt n
  · rw [if_neg he, if_neg he]

theorem laminar_exact_E3 (c : Cfg ℂ) (hD : c.D = 2) (scale γ : ℂ) (m : ℕ) (hm0 : 0 < m) (hm : 2 * m < c.N)
    (σ dt : ℂ) (hσ : σ ≠ 0) (hdt : dt ≠ 0) (E Eh a1 a2 a3 a4 a5 : ℕ → ℂ) (hE : E m = Complex.exp (σ * dt))
    (h3 : a3 m = dt * (phi1 (σ * dt) - 3 * phi2 (σ * dt) + 4 * phi3 (σ * dt)))
    (h4 : a4 m = dt * (4 * phi2 (σ * dt) - 8 * phi3 (σ * dt)))
    (h5 : a5 m = dt * (4 * phi3 (σ * dt) - phi2 (σ * dt))) (n : ℕ) :
    (E3step E Eh a1 a2 a3 a4 a5 (liftNl c (vorticity2d c scale (some (m, γ)))))^[n] 0
      = laminarSpectrum c γ m σ dt n := by
  rw [laminar_E3 c (by omega) scale _ E Eh a1 a2 a3 a4 a5 0 (shearSpec_zero c) n,
    from_rest_eval c hD scale γ m hm0 hm]
  funext h
  unfold laminarSpectrum
  by_cases he : h = m
  · rw [if_pos he, if_pos he, hE]
    have hk : (a3 + a4 + a5) m = dt * phi1 (σ * dt) := by
      simp only [Pi.add_apply, h3, h4, h5]; ring
    rw [hk]
    exact geom_phi1 σ dt _ hσ hdt n
  · rw [if_neg he, if_neg he]

theorem laminar_exact_E4 (c : Cfg ℂ) (hD : c.D = 2) (scale γ : ℂ) (m : ℕ) (hm0 : 0 < m) (hm : 2 * m < c.N)
    (σ dt : ℂ) (hσ : σ ≠ 0) (hdt : dt ≠ 0) (E Eh a1 a2 a3 a4 a5 a6 : ℕ → ℂ) (hE : E m = Complex.exp (σ * dt))
    (h4 : a4 m = dt * (phi1 (σ * dt) - 3 * phi2 (σ * dt) + 4 * phi3 (σ * dt)))
    (h5 : a5 m = dt * (phi2 (σ * dt) - 2 * phi3 (σ * dt)))
    (h6 : a6 m = dt * (4 * phi3 (σ * dt) - phi2 (σ * dt))) (n : ℕ) :
    (E4step E Eh a1 a2 a3 a4 a5 a6 (liftNl c (vorticity2d c scale (some (m, γ)))))^[n] 0
      = laminarSpectrum c γ m σ dt n := by
  rw [laminar_E4 c (by omega) scale _ E Eh a1 a2 a3 a4 a5 a6 0 (shearSpec_zero c) n,
    from_rest_eval c hD scale γ m hm0 hm]
  funext h
  unfold laminarSpectrum
  by_cases he : h = m
  · rw [if_pos he, if_pos he, hE]
    have hk : (a4 + 4 * a5 + a6) m = dt * phi1 (σ * dt) := by
      simp only [Pi.add_apply, Pi.mul_apply, h4, h5, h6]
      have : (4 : ℕ → ℂ) m = 4 := rfl
      rw [this]; ring
    rw [hk]
    exact geom_phi1 σ dt _ hσ hdt n
  · rw [if_neg he, if_neg he]

/-! ### ALL coefficients stored (contour means): the same trajectory for every order -/

/-- the stored laminar spectrum: `dt φ₁` replaced by the stored `E1_coef_1` -/
noncomputable def laminarStored (c : Cfg ℂ) (γ : ℂ) (m : ℕ) (dt σ r : ℂ) (M n : ℕ) : ℕ → ℂ :=
  fun h => if h = m then (∑ i ∈ range n, exp_term dt σ ^ i) * (E1_coef_1 dt σ M r * fhat c γ m) else 0

theorem laminar_stored_E1 (c : Cfg ℂ) (hD : c.D = 2) (scale γ : ℂ) (m : ℕ) (hm0 : 0 < m) (hm : 2 * m < c.N)
    (dt r : ℂ) (M : ℕ) (L : ℕ → ℂ) (n : ℕ) :
    (E1step (fun h => exp_term dt (L h)) (fun h => E1_coef_1 dt (L h) M r)
      (liftNl c (vorticity2d c scale (some (m, γ)))))^[n] 0 = laminarStored c γ m dt (L m) r M n := by
  rw [laminar_E1 c (by omega) scale _ _ _ 0 (shearSpec_zero c) n, from_rest_eval c hD scale γ m hm0 hm]
  rfl

theorem laminar_stored_E2 (c : Cfg ℂ) (hD : c.D = 2) (scale γ : ℂ) (m : ℕ) (hm0 : 0 < m) (hm : 2 * m < c.N)
    (dt r : ℂ) (M : ℕ) (L : ℕ → ℂ) (n : ℕ) :
    (E2step (fun h => exp_term dt (L h)) (fun h => E2_coef_1 dt (L h) M r) (fun h => E2_coef_2 dt (L h) M r)
      (liftNl c (vorticity2d c scale (some (m, γ)))))^[n] 0 = laminarStored c γ m dt (L m) r M n := by
  rw [laminar_E2 c (by omega) scale _ _ _ _ 0 (shearSpec_zero c) n, from_rest_eval c hD scale γ m hm0 hm]
  funext h
  unfold laminarStored fhat
  by_cases he : h = m
  · rw [if_pos he, if_pos he, EquilibriaStored.stored_E2_1]
  · rw [if_neg he, if_neg he]

theorem laminar_stored_E3 (c : Cfg ℂ) (hD : c.D = 2) (scale γ : ℂ) (m : ℕ) (hm0 : 0 < m) (hm : 2 * m < c.N)
    (dt r : ℂ) (M : ℕ) (L : ℕ → ℂ) (n : ℕ) :
    (E3step (fun h => exp_term dt (L h)) (fun h => E3_half_exp_term dt (L h) M r)
      (fun h => E3_coef_1 dt (L h) M r) (fun h => E3_coef_2 dt (L h) M r) (fun h => E3_coef_3 dt (L h) M r)
      (fun h => E3_coef_4 dt (L h) M r) (fun h => E3_coef_5 dt (L h) M r)
      (liftNl c (vorticity2d c scale (some (m, γ)))))^[n] 0 = laminarStored c γ m dt (L m) r M n := by
  rw [laminar_E3 c (by omega) scale _ _ _ _ _ _ _ _ 0 (shearSpec_zero c) n, from_rest_eval c hD scale γ m hm0 hm]
  funext h
  unfold laminarStored fhat
  by_cases he : h = m
  · rw [if_pos he, if_pos he]
    simp only [Pi.add_apply]
    rw [EquilibriaStored.stored_E3_sum]
  · rw [if_neg he, if_neg he]

theorem laminar_stored_E4 (c : Cfg ℂ) (hD : c.D = 2) (scale γ : ℂ) (m : ℕ) (hm0 : 0 < m) (hm : 2 * m < c.N)
    (dt r : ℂ) (M : ℕ) (L : ℕ → ℂ) (n : ℕ) :
    (E4step (fun h => exp_term dt (L h)) (fun h => E4_half_exp_term dt (L h) M r)
      (fun h => E4_coef_1 dt (L h) M r) (fun h => E4_coef_2 dt (L h) M r) (fun h => E4_coef_3 dt (L h) M r)
      (fun h => E4_coef_4 dt (L h) M r) (fun h => E4_coef_5 dt (L h) M r) (fun h => E4_coef_6 dt (L h) M r)
      (liftNl c (vorticity2d c scale (some (m, γ)))))^[n] 0 = laminarStored c γ m dt (L m) r M n := by
  rw [laminar_E4 c (by omega) scale _ _ _ _ _ _ _ _ _ 0 (shearSpec_zero c) n, from_rest_eval c hD scale γ m hm0 hm]
  funext h
  unfold laminarStored fhat
  by_cases he : h = m
  · rw [if_pos he, if_pos he]
    have hk : ((fun h => E4_coef_4 dt (L h) M r) + 4 * (fun h => E4_coef_5 dt (L h) M r)
        + fun h => E4_coef_6 dt (L h) M r) m = E1_coef_1 dt (L m) M r := by
      simp only [Pi.add_apply, Pi.mul_apply]
      have : (4 : ℕ → ℂ) m = 4 := rfl
      rw [this, EquilibriaStored.stored_E4_sum]
    rw [hk]
  · rw [if_neg he, if_neg he]

/-- the stored and the exact laminar spectra differ only through the `φ₁` coefficient: when the stored coefficient IS
    `dt φ₁(σ dt)` they coincide -/
theorem laminarStored_eq_exact (c : Cfg ℂ) (γ : ℂ) (m : ℕ) (dt σ r : ℂ) (M n : ℕ) (hσ : σ ≠ 0) (hdt : dt ≠ 0)
    (hc : E1_coef_1 dt σ M r = dt * phi1 (σ * dt)) :
    laminarStored c γ m dt σ r M n = laminarSpectrum c γ m σ dt n := by
  funext h
  unfold laminarStored laminarSpectrum
  by_cases he : h = m
  · rw [if_pos he, if_pos he, hc, C02_exp_term, mul_comm dt σ]
    exact geom_phi1 σ dt _ hσ hdt n
  · rw [if_neg he, if_neg he]

/-! ### non-vacuity -/

example : ∃ c : Cfg ℂ, c.D = 2 ∧ 0 < 4 ∧ 2 * 4 < c.N := ⟨⟨2, 16, 1, 2, 3⟩, rfl, by norm_num, by norm_num⟩
example : ((-0.3 : ℂ)) ≠ 0 ∧ ((0.01 : ℂ)) ≠ 0 := by norm_num
example (c : Cfg ℂ) : ShearSpec c 0 := shearSpec_zero c
example (c : Cfg ℂ) : IsShear c (#[] : MC ℂ) := fun h _ _ => at2_empty 0 h

end Exponax.Laminar
