import ExponaxModel.Proofs.C2RIsometry
/-
C14 support — the physical-space loop `(irfftn ∘ F ∘ rfftn)^[n]` versus Fourier-space sub-stepping
`irfftn ∘ F^[n] ∘ rfftn` (`RepeatedStepper.__call__` versus `n` calls of `BaseStepper.__call__`).

  * `Realisable D N C`            : `C` has the stored size and is Hermitian-consistent on the
                                    self-conjugate columns (`herm_weight = 1`);
  * `rfftn_irfftn_of_realisable`  : `rfftn (irfftn C) = C` (as ARRAYS) for realisable `C`;
                                    `realisable_iff_fixed` : and only for those;
  * `rfftn_realisable`            : the half spectrum of a real grid state is realisable;
  * `repeated_eq_loop`            : for `F` preserving `Realisable`, real `u`, `n ≥ 1`:
                                    `(irfftn ∘ F ∘ rfftn)^[n] u = irfftn (F^[n] (rfftn u))`
                                    (`repeated_eq_loop_zero` for `n = 0`), and the same statement about
                                    the model functions `Loops.repeatN` / `Loops.repeatedStepFourier`
                                    (`repeatedStepper_eq_loop`).
Everything for general `D ≥ 1`, `N ≥ 1`.
-/
set_option linter.unusedVariables false
set_option linter.unusedSimpArgs false
namespace Exponax.C2R
open Exponax Exponax.Layout Exponax.Transform Exponax.DFT Exponax.Conserve Finset

/-! ### realisable stored half spectra, real grid states -/

/-- a stored half spectrum of the right size that is Hermitian-consistent on the self-conjugate
    columns (`herm_weight = 1`: last-axis wavenumber `0`, and Nyquist for even `N`) -/
def Realisable (D N : ℕ) (C : Array ℂ) : Prop :=
  C.size = numModes D N ∧
    ∀ h < numModes D N, herm_weight D N h = 1 →
      C.getD h 0 = (starRingEnd ℂ) (C.getD (conjIdx D N h) 0)

/-- a real grid state: `N^D` entries with zero imaginary parts -/
def RealState (D N : ℕ) (u : Array ℂ) : Prop :=
  u.size = N ^ D ∧ ∀ j < N ^ D, (u.getD j 0).im = 0

/-- two arrays of the same size with the same `getD` entries are equal -/
theorem array_ext_getD (A B : Array ℂ) (n : ℕ) (hA : A.size = n) (hB : B.size = n)
    (h : ∀ i < n, A.getD i 0 = B.getD i 0) : A = B := by
  apply Array.ext
  · rw [hA, hB]
  · intro i h1 h2
    have hi : i < n := by omega
    have := h i hi
    simpa [Array.getD, h1, h2] using this

/-- `irfftn` of ANY stored spectrum is a real grid state -/
theorem irfftn_realState (D N : ℕ) (hN : 0 < N) (C : Array ℂ) : RealState D N (irfftnM D N C) :=
  ⟨irfftnM_size D N C, fun j hj => irfftnM_real D N hN C j hj⟩

/-! ### 1. `rfftn ∘ irfftn` is the identity on realisable spectra -/

/-- **`rfftn (irfftn C) = C` for realisable `C`** (equality of arrays). -/
theorem rfftn_irfftn_of_realisable (D N : ℕ) (hD : 0 < D) (hN : 0 < N) (C : Array ℂ)
    (hC : Realisable D N C) : rfftnM D N (irfftnM D N C) = C := by
  apply array_ext_getD _ _ (numModes D N) (rfftnM_size D N _) hC.1
  exact (c2r_fixed_iff_herm D N hD hN C).mpr hC.2

/-- the realisable spectra are EXACTLY the fixed points of `rfftn ∘ irfftn` -/
theorem realisable_iff_fixed (D N : ℕ) (hD : 0 < D) (hN : 0 < N) (C : Array ℂ) :
    Realisable D N C ↔ rfftnM D N (irfftnM D N C) = C := by
  constructor
  · exact rfftn_irfftn_of_realisable D N hD hN C
  · intro hfix
    refine ⟨by rw [← hfix]; exact rfftnM_size D N _, ?_⟩
    apply (c2r_fixed_iff_herm D N hD hN C).mp
    intro h hh
    rw [hfix]

/-! ### 2. spectra of real states are realisable -/

/-- **the half spectrum of a grid state with zero imaginary parts is realisable** (the size of `u`
    is irrelevant: `rfftnM` reads `u` through `getD`) -/
theorem rfftn_realisable' (D N : ℕ) (hD : 0 < D) (hN : 0 < N) (u : Array ℂ)
    (hu : ∀ j < N ^ D, (u.getD j 0).im = 0) : Realisable D N (rfftnM D N u) := by
  refine ⟨rfftnM_size D N u, ?_⟩
  intro h hh hw
  rw [rfftn_conjIdx_of_real D N hD hN u hu h hh hw, Complex.conj_conj]

/-- **the half spectrum of a real grid state is realisable** -/
theorem rfftn_realisable (D N : ℕ) (hD : 0 < D) (hN : 0 < N) (u : Array ℂ)
    (hu : RealState D N u) : Realisable D N (rfftnM D N u) :=
  rfftn_realisable' D N hD hN u hu.2

/-- realisable spectra are exactly the spectra of real grid states -/
theorem realisable_iff_spectrum (D N : ℕ) (hD : 0 < D) (hN : 0 < N) (C : Array ℂ) :
    Realisable D N C ↔ ∃ u, RealState D N u ∧ C = rfftnM D N u := by
  constructor
  · intro hC
    exact ⟨irfftnM D N C, irfftn_realState D N hN C, (rfftn_irfftn_of_realisable D N hD hN C hC).symm⟩
  · rintro ⟨u, hu, rfl⟩
    exact rfftn_realisable D N hD hN u hu

/-- the round trip `irfftn (rfftn u) = u` for real grid states (array form) -/
theorem irfftn_rfftn_of_realState (D N : ℕ) (hD : 0 < D) (hN : 0 < N) (u : Array ℂ)
    (hu : RealState D N u) : irfftnM D N (rfftnM D N u) = u := by
  apply array_ext_getD _ _ (N ^ D) (irfftnM_size D N _) hu.1
  exact fun j hj => irfftn_rfftn D N hD hN u hu.2 j hj

/-! ### 3. the physical-space loop equals Fourier-space sub-stepping -/

/-- one call of a stepper in physical space: `BaseStepper.__call__ = ifft ∘ step_fourier ∘ fft` -/
noncomputable def physStep (D N : ℕ) (F : Array ℂ → Array ℂ) (v : Array ℂ) : Array ℂ :=
  irfftnM D N (F (rfftnM D N v))

theorem physStep_eq (D N : ℕ) (F : Array ℂ → Array ℂ) :
    physStep D N F = fun v => irfftnM D N (F (rfftnM D N v)) := rfl

theorem iterate_preserves_realisable (D N : ℕ) (F : Array ℂ → Array ℂ)
    (hF : ∀ C, Realisable D N C → Realisable D N (F C)) (n : ℕ) (C : Array ℂ)
    (hC : Realisable D N C) : Realisable D N (F^[n] C) := by
  induction n with
  | zero => exact hC
  | succ n ih => rw [Function.iterate_succ_apply']; exact hF _ ih

/-- the spectrum of the `n`-fold physical loop is the `n`-fold Fourier step of the spectrum
    (every `n`, also `n = 0`); needs only that the initial spectrum is realisable -/
theorem rfftn_loop_of_realisable (D N : ℕ) (hD : 0 < D) (hN : 0 < N) (F : Array ℂ → Array ℂ)
    (hF : ∀ C, Realisable D N C → Realisable D N (F C)) (u : Array ℂ)
    (hu : Realisable D N (rfftnM D N u)) (n : ℕ) :
    rfftnM D N ((fun v => irfftnM D N (F (rfftnM D N v)))^[n] u) = F^[n] (rfftnM D N u) := by
  induction n with
  | zero => rfl
  | succ n ih =>
    rw [Function.iterate_succ_apply', Function.iterate_succ_apply']
    show rfftnM D N (irfftnM D N (F (rfftnM D N _))) = _
    rw [ih]
    exact rfftn_irfftn_of_realisable D N hD hN _
      (hF _ (iterate_preserves_realisable D N F hF n _ hu))

/-- general form of the main theorem: only the realisability of the initial spectrum is used -/
theorem repeated_eq_loop_of_realisable (D N : ℕ) (hD : 0 < D) (hN : 0 < N) (F : Array ℂ → Array ℂ)
    (hF : ∀ C, Realisable D N C → Realisable D N (F C)) (u : Array ℂ)
    (hu : Realisable D N (rfftnM D N u)) (n : ℕ) (hn : 1 ≤ n) :
    (fun v => irfftnM D N (F (rfftnM D N v)))^[n] u = irfftnM D N (F^[n] (rfftnM D N u)) := by
  obtain ⟨m, rfl⟩ : ∃ m, n = m + 1 := ⟨n - 1, by omega⟩
  rw [Function.iterate_succ_apply', Function.iterate_succ_apply']
  show irfftnM D N (F (rfftnM D N _)) = _
  rw [rfftn_loop_of_realisable D N hD hN F hF u hu m]

/-- **MAIN THEOREM.**  For a Fourier step `F` that maps realisable spectra to realisable spectra,
    every real grid state `u` and every `n ≥ 1`, `n` calls of the stepper in physical space equal one
    transform, `n` Fourier steps and one inverse transform. -/
theorem repeated_eq_loop (D N : ℕ) (hD : 0 < D) (hN : 0 < N) (F : Array ℂ → Array ℂ)
    (hF : ∀ C, Realisable D N C → Realisable D N (F C)) (u : Array ℂ) (hu : RealState D N u)
    (n : ℕ) (hn : 1 ≤ n) :
    (fun v => irfftnM D N (F (rfftnM D N v)))^[n] u = irfftnM D N (F^[n] (rfftnM D N u)) :=
  repeated_eq_loop_of_realisable D N hD hN F hF u (rfftn_realisable D N hD hN u hu) n hn

/-- the case `n = 0` of the main theorem is the round trip (no hypothesis on `F`) -/
theorem repeated_eq_loop_zero (D N : ℕ) (hD : 0 < D) (hN : 0 < N) (F : Array ℂ → Array ℂ)
    (u : Array ℂ) (hu : RealState D N u) :
    (fun v => irfftnM D N (F (rfftnM D N v)))^[0] u = irfftnM D N (F^[0] (rfftnM D N u)) := by
  rw [Function.iterate_zero, Function.iterate_zero, id, id]
  exact (irfftn_rfftn_of_realState D N hD hN u hu).symm

/-- all `n` at once -/
theorem repeated_eq_loop_all (D N : ℕ) (hD : 0 < D) (hN : 0 < N) (F : Array ℂ → Array ℂ)
    (hF : ∀ C, Realisable D N C → Realisable D N (F C)) (u : Array ℂ) (hu : RealState D N u)
    (n : ℕ) :
    (fun v => irfftnM D N (F (rfftnM D N v)))^[n] u = irfftnM D N (F^[n] (rfftnM D N u)) := by
  rcases Nat.eq_zero_or_pos n with rfl | hn
  · exact repeated_eq_loop_zero D N hD hN F u hu
  · exact repeated_eq_loop D N hD hN F hF u hu n hn

/-- **the same about the model functions**: `repeat(stepper, n)(u)` (`Loops.repeatN` of the
    physical-space call) equals `RepeatedStepper(stepper, n)(u)`
    (`irfftn ∘ Loops.repeatedStepFourier F n ∘ rfftn`). -/
theorem repeatedStepper_eq_loop (D N : ℕ) (hD : 0 < D) (hN : 0 < N) (F : Array ℂ → Array ℂ)
    (hF : ∀ C, Realisable D N C → Realisable D N (F C)) (u : Array ℂ) (hu : RealState D N u)
    (n : ℕ) :
    Loops.repeatN (fun v => irfftnM D N (F (rfftnM D N v))) n u
      = irfftnM D N (Loops.repeatedStepFourier F n (rfftnM D N u)) := by
  rw [Loops.repeatedStepFourier, Loops.repeatN_eq_iterate, Loops.repeatN_eq_iterate]
  exact repeated_eq_loop_all D N hD hN F hF u hu n

/-- every intermediate state of the physical loop is again a real grid state (`n ≥ 1`, any `F`) -/
theorem loop_realState (D N : ℕ) (hN : 0 < N) (F : Array ℂ → Array ℂ) (u : Array ℂ) (n : ℕ)
    (hn : 1 ≤ n) : RealState D N ((fun v => irfftnM D N (F (rfftnM D N v)))^[n] u) := by
  obtain ⟨m, rfl⟩ : ∃ m, n = m + 1 := ⟨n - 1, by omega⟩
  rw [Function.iterate_succ_apply']
  exact irfftn_realState D N hN _

/-! ### non-vacuity -/

/-- the zero spectrum is realisable -/
theorem realisable_zero (D N : ℕ) (hD : 0 < D) (hN : 0 < N) :
    Realisable D N (tab (numModes D N) (fun _ => (0 : ℂ))) := by
  refine ⟨tab_size _ _, ?_⟩
  intro h hh hw
  rw [tab_getD _ _ _ _ hh, tab_getD _ _ _ _ (conjIdx_lt D N h hD hN), map_zero]

example : Realisable 2 4 (tab (numModes 2 4) (fun _ => (0 : ℂ))) :=
  realisable_zero 2 4 (by norm_num) (by norm_num)

/-- the saw-tooth `(1, −1)` on the 2-point grid is a real grid state … -/
theorem realState_sawtooth : RealState 1 2 #[(1 : ℂ), -1] := by
  refine ⟨rfl, ?_⟩
  intro j hj
  have : j = 0 ∨ j = 1 := by omega
  rcases this with rfl | rfl <;> simp

/-- … so its spectrum is realisable (a concrete non-zero realisable spectrum) -/
example : Realisable 1 2 (rfftnM 1 2 #[(1 : ℂ), -1]) :=
  rfftn_realisable 1 2 (by norm_num) (by norm_num) _ realState_sawtooth

/-- a constant real state on any grid -/
example (D N : ℕ) : RealState D N (tab (N ^ D) (fun _ => (1 : ℂ))) := by
  refine ⟨tab_size _ _, ?_⟩
  intro j hj
  rw [tab_getD _ _ _ _ hj]
  simp

/-- the hypothesis on `F` is satisfiable: the identity step -/
example (D N : ℕ) : ∀ C, Realisable D N C → Realisable D N (id C) := fun _ h => h

end Exponax.C2R
