import ExponaxModel.Proofs.DiffTermsAdjointConv
import ExponaxModel.Proofs.DiffTermsInterface
/-
C07 support — non-vacuity: the hypotheses of the `DiffTerms*` theorems are satisfiable (each `example` exhibits an
instance of a hypothesis pattern, named in the comment).
-/
set_option linter.unusedVariables false
namespace Exponax.DiffTerms
open Exponax Exponax.Layout Exponax.Transform Exponax.Nonlin Exponax.Gen.Etdrk

/-- a concrete configuration: 1-D, `N = 4`, `2π/L = 1`, 2/3 dealiasing -/
noncomputable def exCfg : Cfg ℂ := ⟨1, 4, 1, 2, 3⟩

/-! `hR : FunMod₂ R`, `hR : FunAlg₂ R u` (all `*_rel` theorems of `DiffTermsCalc/Conv/More/Space`) -/
example : FunAlg₂ (HasFD (0 : ℝ)) 0 := funAlg₂_hasFD 0
example : FunMod₂ (HasFD (0 : ℝ)) := (funAlg₂_hasFD 0).toFunMod₂
example : FunAlg₂ (lift₁ (fun g : ℝ → ℂ => ContDiff ℝ ⊤ g)) 0 := funAlg₂_contDiff ⊤ 0
example : FunAlg₂ (lift₁ (fun g : ℝ → ℂ => Continuous g)) 0 := funAlg₂_continuous 0
example : FunMod₂ (lift₁ (fun g : ℝ → ℂ => IsLinearMap ℝ g)) := funMod₂_linear

/-! `R f f'` for entry functions (`FunMod₂.mul_const`, `.neg`, `.sub`, `.finsum`, `cross_rel`, `polyEval_rel`, …) -/
example (u : ℝ) : HasFD u (fun x => ((x : ℝ) : ℂ)) (fun v => ((v : ℝ) : ℂ)) := HasFD.of_clm u Complex.ofRealCLM
example (u : ℝ) : HasFD u (fun _ => (3 : ℂ)) (fun _ => 0) := (funAlg₂_hasFD u).const 3

/-! `hf : RelM R f f'` (every term theorem), `hclm` of `embP_rel` / `embS_rel` -/
example (C M : ℕ) (x : Spec C M) : RelM (HasFD x) (embS C M) (embS C M) :=
  embS_rel (funAlg₂_hasFD x).toFunMod₂ (fun L => HasFD.of_clm x L)
example (C G : ℕ) (u : Phys C G) : RelM (HasFD u) (embP C G) (embP C G) :=
  embP_rel (funAlg₂_hasFD u).toFunMod₂ (fun L => HasFD.of_clm u L)

/-! `h : TermCalc term jvp`, `h : TermLin term`, `h : ReactCalc C react reactJ` -/
example : TermCalc (convection exCfg 1 1 true false) (convectionJvp exCfg 1 1 true false) :=
  convection_termCalc exCfg 1 1 true false
example : TermLin (leray exCfg) := leray_termLin exCfg
example : TermLin (linearStepTerm exCfg 1 (fun _ _ => 2)) := linearStepTerm_termLin exCfg 1 _
example : ReactCalc 2 (grayScottReact 1 2) (grayScottReactJvp 1 2) := grayScott_reactCalc 2 1 2

/-! `hN : ContDiff 𝕜 n N`, `hN : Differentiable 𝕜 N`, `hN : ∀ x, HasFDerivAt N (N' x) x`, `hS` (`DiffTermsSteps`) -/
example : ContDiff ℝ ⊤ (specMap exCfg 1 1 (convection exCfg 1 1 true false)) :=
  convection_spec_contDiff exCfg 1 1 1 true false ⊤
example : Differentiable ℝ (specMap exCfg 1 1 (convection exCfg 1 1 true false)) :=
  (convection_spec_contDiff exCfg 1 1 1 true false 1).differentiable (by norm_num)
example : ∀ x, HasFDerivAt (specMap exCfg 1 1 (convection exCfg 1 1 true false))
    (fderiv ℝ (specMap exCfg 1 1 (convection exCfg 1 1 true false)) x) x :=
  fun x => (((convection_spec_contDiff exCfg 1 1 1 true false 1).differentiable (by norm_num)) x).hasFDerivAt
example (E c1 c2 : Spec 1 (modes exCfg)) :
    ContDiff ℝ ⊤ (E2step E c1 c2 (specMap exCfg 1 1 (convection exCfg 1 1 true false))) :=
  E2step_contDiff E c1 c2 _ (convection_spec_contDiff exCfg 1 1 1 true false ⊤)
example (lam : Spec 1 (modes exCfg)) : ContDiff ℝ ⊤
    (physStep exCfg 1 (etdrkStepF 3 (1 / 10) lam 16 1 (specMap exCfg 1 1 (convection exCfg 1 1 true false)))) :=
  physStep_contDiff exCfg 1 _ (etdrkStepF_contDiff 3 _ lam 16 1 _ (convection_spec_contDiff exCfg 1 1 1 true false ⊤))

/-! `hN : 0 < c.N`, `hs : c.s = ↑s` (`DiffTermsAdjoint*`) -/
example : 0 < exCfg.N ∧ exCfg.s = ((1 : ℝ) : ℂ) := ⟨by norm_num [exCfg], by norm_num [exCfg]⟩
/-! `hA` of `irfft_nfft_entry` -/
example (a : Fin (gridSize exCfg) → ℝ) : ∀ j : Fin (gridSize exCfg), (emb1 (gridSize exCfg) a).getD j 0 = ((a j : ℝ) : ℂ) :=
  fun j => emb1_getD _ a j
/-! `h` of `multOp_congr`, `e` of `rel_congr_*`, `HasFD.congr` -/
example : ∀ m, m < modes exCfg → mask exCfg m * 1 = mask exCfg m := fun m _ => mul_one _

/-! `hN` of `res_etdrkStep`, `h` of `res_iterate` (`DiffTermsInterface`) -/
example (T : MC ℂ → MC ℂ) : ∀ a, res 1 (modes exCfg) (EquivND.liftTermND exCfg 1 T a)
    = specMap exCfg 1 1 T (res 1 (modes exCfg) a) := res_liftTermND exCfg 1 T

end Exponax.DiffTerms
