import ExponaxModel.Proofs.AliasConv
import ExponaxModel.Proofs.AliasMask
/-
C03 — "the pseudo-spectral nonlinear terms return the Fourier coefficients of the documented
operator applied to the band-truncated state, computed WITHOUT ALIASING ERROR on the retained band,
and zero outside it" — 1-D core, about the model definitions in `Model/Nonlin.lean` at `K := ℂ`.

  AliasConv : A1 circular convolution, A2 cubic version, A3 band-limited ⇒ linear convolution
  AliasMask : A4 mask = cut at `Kc`, `3Kc < N` (2/3), `4Kc < N` (1/2);  A5 `nifft` = band truncation
  AliasNonlin (this file) : A6 conservative single-channel convection in 1-D (pipeline read-off + alias-free form)
              A7 polynomial nonlinearity (quadratic with 2/3, cubic with 1/2);
                 "zero outside the retained band" for every model function ending in `nfft`
                 (any dimension `D`, any channel count).
-/
namespace Exponax.Alias
open Exponax Exponax.Layout Exponax.Transform Exponax.DFT Exponax.Nonlin Finset

/-! ### `nfft` entrywise -/

theorem nfft_getD (c : Cfg ℂ) (v : Array ℂ) (h : ℕ) (hh : h < modes c) :
    (nfft c v).getD h 0 = mask c h * (rfftnM c.D c.N v).getD h 0 := by
  unfold nfft
  rw [DFT.tab_getD _ _ _ _ hh]

/-- **zero outside the retained band, the basic fact (any `D`).**  `nfft` returns `0` at every
    index whose mask is `0` (and at every index beyond the stored modes). -/
theorem nfft_getD_of_mask_zero (c : Cfg ℂ) (v : Array ℂ) (h : ℕ) (hm : mask c h = 0) :
    (nfft c v).getD h 0 = 0 := by
  rcases Nat.lt_or_ge h (modes c) with hh | hh
  · rw [nfft_getD c v h hh, hm, zero_mul]
  · unfold nfft
    rw [DFT.tab_getD_of_le _ _ _ _ hh]

/-- 1-D: `nfft` at a stored mode is `mask · dft` -/
theorem nfft_one (c : Cfg ℂ) (hD : c.D = 1) (hN : 0 < c.N) (v : Array ℂ) (h : ℕ) (hh : h ≤ c.N / 2) :
    (nfft c v).getD h 0 = mask c h * dft c.N v h := by
  rw [nfft_getD c v h (by rw [modes_one c hD]; omega), hD, rfft1_getD c.N hN v h hh]

theorem at2_tabC_any (nc : ℕ) (f : ℕ → Array ℂ) (ch i : ℕ) :
    at2 (tabC nc f) ch i = if ch < nc then (f ch).getD i 0 else 0 := by
  split_ifs with hch
  · exact at2_tabC nc f ch i hch
  · unfold at2 tabC
    rw [Nonlin.tab_getD_of_le _ _ _ _ (Nat.le_of_not_lt hch)]
    simp [Array.getD]

/-- a channel array whose channels are `nfft` outputs vanishes wherever the mask does -/
theorem at2_tabC_nfft_zero (c : Cfg ℂ) (nc : ℕ) (g : ℕ → Array ℂ) (ch h : ℕ) (hm : mask c h = 0) :
    at2 (tabC nc (fun k => nfft c (g k))) ch h = 0 := by
  rw [at2_tabC_any]
  split_ifs
  · exact nfft_getD_of_mask_zero c _ h hm
  · rfl

theorem at2_tab2_any (nc n : ℕ) (f : ℕ → ℕ → ℂ) (ch i : ℕ) :
    at2 (tab2 nc n f) ch i = if ch < nc ∧ i < n then f ch i else 0 := by
  split_ifs with hc
  · exact at2_tab2 nc n f ch i hc.1 hc.2
  · rcases Nat.lt_or_ge ch nc with h1 | h1
    · exact at2_tab2_of_le_idx nc n f ch i (by
        rcases Nat.lt_or_ge i n with h2 | h2
        · exact absurd ⟨h1, h2⟩ hc
        · exact h2)
    · exact at2_tab2_of_le_ch nc n f ch i h1

/-- a `tab2` whose entries vanish at mode `h` -/
theorem at2_tab2_zero (nc n : ℕ) (f : ℕ → ℕ → ℂ) (ch h : ℕ) (hf : ∀ ch, f ch h = 0) :
    at2 (tab2 nc n f) ch h = 0 := by
  rw [at2_tab2_any]
  split_ifs
  · exact hf ch
  · rfl

theorem sumList_range_zero (n : ℕ) (f : ℕ → ℂ) (hf : ∀ d, f d = 0) :
    sumList ((List.range n).map f) = 0 := by
  rw [sumList_range_eq]
  exact Finset.sum_eq_zero (fun d _ => hf d)

/-! ### A6 — conservative single-channel convection, 1-D -/

/-- **A6, step 1 (pipeline read-off).**  For ANY stored spectrum `ûh`, at every stored mode
    `h ≤ N/2` the model output is `−scale·½·(i s k_h)·mask_h·DFT_h[(ifft(mask·û))²]`. -/
theorem convection_one_readoff (c : Cfg ℂ) (hD : c.D = 1) (hN : 0 < c.N) (scale : ℂ)
    (uh : Array ℂ) (h : ℕ) (hh : h ≤ c.N / 2) :
    at2 (convection c 1 scale true true #[uh]) 0 h
      = -scale * ((1 : ℂ) / 2 * deriv c 0 h * (mask c h *
          dft c.N (tab c.N fun j => (nifft c uh).getD j 0 * (nifft c uh).getD j 0) h)) := by
  have hM : h < modes c := by rw [modes_one c hD]; omega
  have hu : ∀ j, at2 (tabC 1 fun ch => nifft c ((#[uh] : MC ℂ).getD ch #[])) 0 j
      = (nifft c uh).getD j 0 := by
    intro j
    rw [at2_tabC _ _ _ _ Nat.zero_lt_one]
    rfl
  unfold convection
  simp only [↓reduceIte]
  rw [at2_tab2 _ _ _ _ _ Nat.zero_lt_one hM, at2_tabC _ _ _ _ Nat.zero_lt_one,
    nfft_one c hD hN _ h hh, gridSize_one c hD, hD]
  simp only [hu]
  simp [sumList]

/-- **A6 (not retained ⇒ 0).** -/
theorem convection_one_dropped (c : Cfg ℂ) (hD : c.D = 1) (hN : 0 < c.N) (scale : ℂ)
    (uh : Array ℂ) (h : ℕ) (hh : h ≤ c.N / 2) (hm : mask c h = 0) :
    at2 (convection c 1 scale true true #[uh]) 0 h = 0 := by
  rw [convection_one_readoff c hD hN scale uh h hh, hm]; ring

/-- **A6, step 2 (the squared band-truncated state, alias-free).**  For a real state `x`,
    `û = rfftnM 1 N x`, fraction 2/3, retained `h ≤ Kc`: the `h`-th DFT coefficient of
    `(ifft(mask·û))²` is the LINEAR convolution of the band-truncated spectrum of `x` with itself
    (times `1/N`, the normalisation of the unnormalised forward transform). -/
theorem dft_sq_nifft_rfft_of_cutoff (c : Cfg ℂ) (hD : c.D = 1) (hq : c.fq ≠ 0) (hK : 3 * Kc c < (c.N : ℤ)) (hN : 0 < c.N)
    (x : Array ℂ) (hx : IsRealField c.N x) (h : ℤ) (hh : |h| ≤ Kc c) :
    dft c.N (tab c.N fun j => (nifft c (rfftnM 1 c.N x)).getD j 0 * (nifft c (rfftnM 1 c.N x)).getD j 0) h
      = (1 / (c.N : ℂ)) * ∑ m ∈ Finset.Icc (-(Kc c)) (Kc c),
          trunc (Kc c) (dft c.N x) m * trunc (Kc c) (dft c.N x) (h - m) := by
  have hq0 : c.fq ≠ 0 := hq
  have h3 := hK
  have h2 := two_Kc_lt_of_three c hK
  have hb := nifft_bandLimited c hD hq0 hN (rfftnM 1 c.N x)
  rw [dft_mul_no_alias' c.N hN (Kc c) h3 _ _ hb hb h hh]
  simp only [trunc_dft_nifft_rfft c hD hq0 hN h2 x hx]

/-- **A6. MAIN THEOREM (conservative single-channel convection, 1-D, cut-off `3·Kc < N`, e.g. fraction 2/3).**
    For a real state `x` on `N ≥ 1` points, `û = rfftnM 1 N x`, at every stored mode `h ≤ N/2`:

    * if `h` is retained (`mask c h = 1`) the output is `−scale·½·(i s h)` times `1/N` times the
      alias-free linear convolution `Σ_{m=−Kc}^{Kc} X_m X_{h−m}` of the band-truncated spectrum
      `X_m = [|m| ≤ Kc]·dft N x m`, i.e. the coefficient of `−b·½·∂ₓ (P_K u)²`;
    * otherwise the output is `0`. -/
theorem convection_one_alias_free_of_cutoff (c : Cfg ℂ) (hD : c.D = 1) (hq : c.fq ≠ 0) (hK : 3 * Kc c < (c.N : ℤ))
    (hN : 0 < c.N) (scale : ℂ) (x : Array ℂ) (hx : IsRealField c.N x) (h : ℕ) (hh : h ≤ c.N / 2) :
    (mask c h = 1 →
      at2 (convection c 1 scale true true #[rfftnM 1 c.N x]) 0 h
        = -scale * (1 / 2) * deriv c 0 h *
            ((1 / (c.N : ℂ)) * ∑ m ∈ Finset.Icc (-(Kc c)) (Kc c),
              trunc (Kc c) (dft c.N x) m * trunc (Kc c) (dft c.N x) ((h : ℤ) - m)))
    ∧ (mask c h = 0 →
      at2 (convection c 1 scale true true #[rfftnM 1 c.N x]) 0 h = 0) := by
  have hq0 : c.fq ≠ 0 := hq
  refine ⟨fun hm => ?_, fun hm => convection_one_dropped c hD hN scale _ h hh hm⟩
  have hk : (h : ℤ) ≤ Kc c := (mask_eq_one_iff c hD hq0 h).mp hm
  have hk' : |(h : ℤ)| ≤ Kc c := by rwa [abs_of_nonneg (by positivity)]
  rw [convection_one_readoff c hD hN scale _ h hh, hm,
    dft_sq_nifft_rfft_of_cutoff c hD hq hK hN x hx (h : ℤ) hk']
  ring

/-- A6 in `if`-form, the retention test written as `h ≤ Kc` -/
theorem convection_one_alias_free_of_cutoff' (c : Cfg ℂ) (hD : c.D = 1) (hq : c.fq ≠ 0) (hK : 3 * Kc c < (c.N : ℤ))
    (hN : 0 < c.N) (scale : ℂ) (x : Array ℂ) (hx : IsRealField c.N x) (h : ℕ) (hh : h ≤ c.N / 2) :
    at2 (convection c 1 scale true true #[rfftnM 1 c.N x]) 0 h
      = if (h : ℤ) ≤ Kc c then
          -scale * (1 / 2) * deriv c 0 h *
            ((1 / (c.N : ℂ)) * ∑ m ∈ Finset.Icc (-(Kc c)) (Kc c),
              trunc (Kc c) (dft c.N x) m * trunc (Kc c) (dft c.N x) ((h : ℤ) - m))
        else 0 := by
  have hq0 : c.fq ≠ 0 := hq
  have := convection_one_alias_free_of_cutoff c hD hq hK hN scale x hx h hh
  split_ifs with hk
  · exact this.1 ((mask_eq_one_iff c hD hq0 h).mpr hk)
  · exact this.2 ((mask_eq_zero_iff c hD hq0 h).mpr hk)

/-! ### A7 — polynomial nonlinearity, 1-D -/

/-- pipeline read-off for `PolynomialNonlinearFun`, one channel, 1-D, any coefficients -/
theorem polynomial_one_readoff (c : Cfg ℂ) (hD : c.D = 1) (hN : 0 < c.N) (coeffs : List ℂ)
    (uh : Array ℂ) (h : ℕ) (hh : h ≤ c.N / 2) :
    at2 (polynomial c 1 coeffs #[uh]) 0 h
      = mask c h * dft c.N (tab c.N fun j => polyEval coeffs ((nifft c uh).getD j 0)) h := by
  have hu : ∀ j, at2 (tabC 1 fun ch => nifft c ((#[uh] : MC ℂ).getD ch #[])) 0 j
      = (nifft c uh).getD j 0 := by
    intro j
    rw [at2_tabC _ _ _ _ Nat.zero_lt_one]
    rfl
  unfold polynomial
  simp only []
  rw [at2_tabC _ _ _ _ Nat.zero_lt_one, nfft_one c hD hN _ h hh, gridSize_one c hD]
  simp only [hu]

theorem polyEval_quadratic (c0 c1 c2 y : ℂ) : polyEval [c0, c1, c2] y = c0 + c1 * y + c2 * (y * y) := by
  simp [polyEval]

theorem polyEval_cubic (c3 y : ℂ) : polyEval [0, 0, 0, c3] y = c3 * (y * y * y) := by
  simp [polyEval]

theorem dft_self_tab (N : ℕ) (u : Array ℂ) (h : ℤ) : dft N (tab N fun j => u.getD j 0) h = dft N u h :=
  dft_congr N _ _ (fun _ hj => DFT.tab_getD _ _ _ _ hj) h

/-- **A7 (quadratic polynomial, cut-off `3·Kc < N`, e.g. fraction 2/3).**  For a real state `x`, at a retained stored mode
    the output of `PolynomialNonlinearFun` with coefficients `[c0, c1, c2]` is
    `c0·N·[h = 0] + c1·X_h + c2·(1/N) Σ_{m=−Kc}^{Kc} X_m X_{h−m}` (`X` = band-truncated spectrum of
    `x`): the coefficients of `c0 + c1·P_K u + c2·(P_K u)²`, alias-free; at a dropped mode it is `0`. -/
theorem polynomial_quadratic_alias_free_of_cutoff (c : Cfg ℂ) (hD : c.D = 1) (hq : c.fq ≠ 0) (hK : 3 * Kc c < (c.N : ℤ))
    (hN : 0 < c.N) (c0 c1 c2 : ℂ) (x : Array ℂ) (hx : IsRealField c.N x) (h : ℕ) (hh : h ≤ c.N / 2) :
    (mask c h = 1 →
      at2 (polynomial c 1 [c0, c1, c2] #[rfftnM 1 c.N x]) 0 h
        = c0 * (if h = 0 then (c.N : ℂ) else 0) + c1 * dft c.N x h
          + c2 * ((1 / (c.N : ℂ)) * ∑ m ∈ Finset.Icc (-(Kc c)) (Kc c),
              trunc (Kc c) (dft c.N x) m * trunc (Kc c) (dft c.N x) ((h : ℤ) - m)))
    ∧ (mask c h = 0 → at2 (polynomial c 1 [c0, c1, c2] #[rfftnM 1 c.N x]) 0 h = 0) := by
  have hq0 : c.fq ≠ 0 := hq
  have h3 := hK
  have h2 := two_Kc_lt_of_three c hK
  rw [polynomial_one_readoff c hD hN _ _ h hh]
  refine ⟨fun hm => ?_, fun hm => by rw [hm, zero_mul]⟩
  have hk : (h : ℤ) ≤ Kc c := (mask_eq_one_iff c hD hq0 h).mp hm
  have hk' : |(h : ℤ)| ≤ Kc c := by rwa [abs_of_nonneg (by positivity)]
  set y := nifft c (rfftnM 1 c.N x) with hy
  have e : (tab c.N fun j => polyEval [c0, c1, c2] (y.getD j 0))
      = tab c.N fun j => ((fun _ => c0) j + (fun j => c1 * y.getD j 0) j)
          + (fun j => c2 * (y.getD j 0 * y.getD j 0)) j := by
    apply Nonlin.tab_congr
    intro j _
    exact polyEval_quadratic c0 c1 c2 _
  rw [hm, one_mul, e, dft_add, dft_add, dft_smul, dft_smul, dft_const c.N hN, dft_self_tab,
    dft_nifft_rfft c hD hq0 hN h2 x hx (h : ℤ) hk', dft_sq_nifft_rfft_of_cutoff c hD hq hK hN x hx (h : ℤ) hk']
  have hdvd : ((c.N : ℤ) ∣ (h : ℤ)) ↔ h = 0 := by
    constructor
    · intro hd
      have := Int.eq_zero_of_abs_lt_dvd hd (by rw [abs_lt]; constructor <;> omega)
      omega
    · rintro rfl; simp
  simp only [hdvd]
  split_ifs <;> ring

/-- the cube of the band-truncated state, alias-free with the fraction 1/2 -/
theorem dft_cube_nifft_rfft_of_cutoff (c : Cfg ℂ) (hD : c.D = 1) (hq : c.fq ≠ 0) (hK : 4 * Kc c < (c.N : ℤ)) (hN : 0 < c.N)
    (x : Array ℂ) (hx : IsRealField c.N x) (h : ℤ) (hh : |h| ≤ Kc c) :
    dft c.N (tab c.N fun j => (nifft c (rfftnM 1 c.N x)).getD j 0 * (nifft c (rfftnM 1 c.N x)).getD j 0
        * (nifft c (rfftnM 1 c.N x)).getD j 0) h
      = (1 / (c.N : ℂ) ^ 2) * ∑ a ∈ Finset.Icc (-(Kc c)) (Kc c), ∑ b ∈ Finset.Icc (-(Kc c)) (Kc c),
          trunc (Kc c) (dft c.N x) a * trunc (Kc c) (dft c.N x) b
            * trunc (Kc c) (dft c.N x) (h - a - b) := by
  have hq0 : c.fq ≠ 0 := hq
  have h4 := hK
  have h2 : 2 * Kc c < (c.N : ℤ) := two_Kc_lt_of_four c hK
  have hb := nifft_bandLimited c hD hq0 hN (rfftnM 1 c.N x)
  rw [dft_mul3_no_alias' c.N hN (Kc c) h4 _ _ _ hb hb hb h hh]
  simp only [trunc_dft_nifft_rfft c hD hq0 hN h2 x hx]

/-- **A7 (cubic polynomial `[0,0,0,c3]`, cut-off `4·Kc < N`, e.g. fraction 1/2).**  At a retained stored mode the output is
    `c3·(1/N²) Σ_a Σ_b X_a X_b X_{h−a−b}` over the band (alias-free, `4Kc < N`); `0` at a dropped mode. -/
theorem polynomial_cubic_alias_free_of_cutoff (c : Cfg ℂ) (hD : c.D = 1) (hq : c.fq ≠ 0) (hK : 4 * Kc c < (c.N : ℤ))
    (hN : 0 < c.N) (c3 : ℂ) (x : Array ℂ) (hx : IsRealField c.N x) (h : ℕ) (hh : h ≤ c.N / 2) :
    (mask c h = 1 →
      at2 (polynomial c 1 [0, 0, 0, c3] #[rfftnM 1 c.N x]) 0 h
        = c3 * ((1 / (c.N : ℂ) ^ 2) *
            ∑ a ∈ Finset.Icc (-(Kc c)) (Kc c), ∑ b ∈ Finset.Icc (-(Kc c)) (Kc c),
              trunc (Kc c) (dft c.N x) a * trunc (Kc c) (dft c.N x) b
                * trunc (Kc c) (dft c.N x) ((h : ℤ) - a - b)))
    ∧ (mask c h = 0 → at2 (polynomial c 1 [0, 0, 0, c3] #[rfftnM 1 c.N x]) 0 h = 0) := by
  have hq0 : c.fq ≠ 0 := hq
  rw [polynomial_one_readoff c hD hN _ _ h hh]
  refine ⟨fun hm => ?_, fun hm => by rw [hm, zero_mul]⟩
  have hk : (h : ℤ) ≤ Kc c := (mask_eq_one_iff c hD hq0 h).mp hm
  have hk' : |(h : ℤ)| ≤ Kc c := by rwa [abs_of_nonneg (by positivity)]
  set y := nifft c (rfftnM 1 c.N x) with hy
  have e : (tab c.N fun j => polyEval [0, 0, 0, c3] (y.getD j 0))
      = tab c.N fun j => c3 * (fun j => y.getD j 0 * y.getD j 0 * y.getD j 0) j := by
    apply Nonlin.tab_congr
    intro j _
    exact polyEval_cubic c3 _
  rw [hm, one_mul, e, dft_smul, hy, dft_cube_nifft_rfft_of_cutoff c hD hq hK hN x hx (h : ℤ) hk']

/-! ### A7 — zero outside the retained band: every model function whose last step is `nfft`
(any dimension `D`, any number of channels, any input spectrum, any channel / mode index) -/

/-- `ConvectionNonlinearFun`, all four variants -/
theorem convection_zero_off_band (c : Cfg ℂ) (C : ℕ) (scale : ℂ) (single conservative : Bool)
    (uh : MC ℂ) (ch h : ℕ) (hm : mask c h = 0) :
    at2 (convection c C scale single conservative uh) ch h = 0 := by
  unfold convection
  cases single <;> cases conservative <;> simp only [↓reduceIte, Bool.false_eq_true]
  · -- multi-channel, non-conservative
    apply at2_tab2_zero
    intro i
    rw [at2_tabC_nfft_zero c _ _ _ _ hm, mul_zero]
  · -- multi-channel, conservative
    apply at2_tab2_zero
    intro i
    rw [sumList_range_zero _ _ (fun j => by rw [at2_tabC_nfft_zero c _ _ _ _ hm, mul_zero])]
    ring
  · -- single channel, non-conservative
    apply at2_tab2_zero
    intro _
    rw [nfft_getD_of_mask_zero c _ h hm, mul_zero]
  · -- single channel, conservative
    apply at2_tab2_zero
    intro i
    rw [at2_tabC_nfft_zero c _ _ _ _ hm]
    ring

/-- `GradientNormNonlinearFun` -/
theorem gradientNorm_zero_off_band (c : Cfg ℂ) (C : ℕ) (scale : ℂ) (zeroFix : Bool)
    (uh : MC ℂ) (ch h : ℕ) (hm : mask c h = 0) :
    at2 (gradientNorm c C scale zeroFix uh) ch h = 0 := by
  unfold gradientNorm
  simp only []
  apply at2_tab2_zero
  intro i
  rw [at2_tabC_nfft_zero c _ _ _ _ hm]
  ring

/-- `PolynomialNonlinearFun` -/
theorem polynomial_zero_off_band (c : Cfg ℂ) (C : ℕ) (coeffs : List ℂ)
    (uh : MC ℂ) (ch h : ℕ) (hm : mask c h = 0) :
    at2 (polynomial c C coeffs uh) ch h = 0 := by
  unfold polynomial
  exact at2_tabC_nfft_zero c _ _ _ _ hm

/-- reaction nonlinearities (Gray–Scott, Belousov–Zhabotinsky, …) -/
theorem reaction_zero_off_band (c : Cfg ℂ) (C : ℕ) (react : List ℂ → List ℂ)
    (uh : MC ℂ) (ch h : ℕ) (hm : mask c h = 0) :
    at2 (reaction c C react uh) ch h = 0 := by
  unfold reaction
  exact at2_tabC_nfft_zero c _ _ _ _ hm

/-- `VorticityConvection2d` without injection -/
theorem vorticity2d_zero_off_band (c : Cfg ℂ) (scale : ℂ)
    (uh : MC ℂ) (ch h : ℕ) (hm : mask c h = 0) :
    at2 (vorticity2d c scale none uh) ch h = 0 := by
  unfold vorticity2d
  simp only []
  apply at2_tab2_zero
  intro _
  rw [nfft_getD_of_mask_zero c _ h hm, mul_zero]

/-- `CahnHilliardNonlinearFun` -/
theorem cahnHilliard_zero_off_band (c : Cfg ℂ) (scale : ℂ)
    (uh : MC ℂ) (ch h : ℕ) (hm : mask c h = 0) :
    at2 (cahnHilliard c scale uh) ch h = 0 := by
  unfold cahnHilliard
  simp only []
  apply at2_tab2_zero
  intro _
  rw [nfft_getD_of_mask_zero c _ h hm]
  ring

/-- `GeneralNonlinearFun` -/
theorem general_zero_off_band (c : Cfg ℂ) (C : ℕ) (s0 s1 s2 : ℂ) (zeroFix : Bool)
    (uh : MC ℂ) (ch h : ℕ) (hm : mask c h = 0) :
    at2 (general c C s0 s1 s2 zeroFix uh) ch h = 0 := by
  unfold general
  simp only []
  apply at2_tab2_zero
  intro i
  rw [polynomial_zero_off_band c C _ uh i h hm, convection_zero_off_band c C _ true true uh i h hm,
    gradientNorm_zero_off_band c C _ zeroFix uh i h hm]
  ring


/-! ### corollaries for the documented fractions 2/3 and 1/2 (literal `fp`, `fq`) -/

/-- `dft_sq_nifft_rfft_of_cutoff` for the documented fraction 2/3 -/
theorem dft_sq_nifft_rfft (c : Cfg ℂ) (hD : c.D = 1) (hp : c.fp = 2) (hq : c.fq = 3) (hN : 0 < c.N)
    (x : Array ℂ) (hx : IsRealField c.N x) (h : ℤ) (hh : |h| ≤ Kc c) :
    dft c.N (tab c.N fun j => (nifft c (rfftnM 1 c.N x)).getD j 0 * (nifft c (rfftnM 1 c.N x)).getD j 0) h
      = (1 / (c.N : ℂ)) * ∑ m ∈ Finset.Icc (-(Kc c)) (Kc c),
          trunc (Kc c) (dft c.N x) m * trunc (Kc c) (dft c.N x) (h - m) :=
  dft_sq_nifft_rfft_of_cutoff c hD (by omega) (Kc_two_thirds c hp hq).1 hN x hx h hh

/-- `convection_one_alias_free_of_cutoff` for the documented fraction 2/3 -/
theorem convection_one_alias_free (c : Cfg ℂ) (hD : c.D = 1) (hp : c.fp = 2) (hq : c.fq = 3)
    (hN : 0 < c.N) (scale : ℂ) (x : Array ℂ) (hx : IsRealField c.N x) (h : ℕ) (hh : h ≤ c.N / 2) :
    (mask c h = 1 →
      at2 (convection c 1 scale true true #[rfftnM 1 c.N x]) 0 h
        = -scale * (1 / 2) * deriv c 0 h *
            ((1 / (c.N : ℂ)) * ∑ m ∈ Finset.Icc (-(Kc c)) (Kc c),
              trunc (Kc c) (dft c.N x) m * trunc (Kc c) (dft c.N x) ((h : ℤ) - m)))
    ∧ (mask c h = 0 →
      at2 (convection c 1 scale true true #[rfftnM 1 c.N x]) 0 h = 0) :=
  convection_one_alias_free_of_cutoff c hD (by omega) (Kc_two_thirds c hp hq).1 hN scale x hx h hh

/-- `convection_one_alias_free_of_cutoff'` for the documented fraction 2/3 -/
theorem convection_one_alias_free' (c : Cfg ℂ) (hD : c.D = 1) (hp : c.fp = 2) (hq : c.fq = 3)
    (hN : 0 < c.N) (scale : ℂ) (x : Array ℂ) (hx : IsRealField c.N x) (h : ℕ) (hh : h ≤ c.N / 2) :
    at2 (convection c 1 scale true true #[rfftnM 1 c.N x]) 0 h
      = if (h : ℤ) ≤ Kc c then
          -scale * (1 / 2) * deriv c 0 h *
            ((1 / (c.N : ℂ)) * ∑ m ∈ Finset.Icc (-(Kc c)) (Kc c),
              trunc (Kc c) (dft c.N x) m * trunc (Kc c) (dft c.N x) ((h : ℤ) - m))
        else 0 :=
  convection_one_alias_free_of_cutoff' c hD (by omega) (Kc_two_thirds c hp hq).1 hN scale x hx h hh

/-- `polynomial_quadratic_alias_free_of_cutoff` for the documented fraction 2/3 -/
theorem polynomial_quadratic_alias_free (c : Cfg ℂ) (hD : c.D = 1) (hp : c.fp = 2) (hq : c.fq = 3)
    (hN : 0 < c.N) (c0 c1 c2 : ℂ) (x : Array ℂ) (hx : IsRealField c.N x) (h : ℕ) (hh : h ≤ c.N / 2) :
    (mask c h = 1 →
      at2 (polynomial c 1 [c0, c1, c2] #[rfftnM 1 c.N x]) 0 h
        = c0 * (if h = 0 then (c.N : ℂ) else 0) + c1 * dft c.N x h
          + c2 * ((1 / (c.N : ℂ)) * ∑ m ∈ Finset.Icc (-(Kc c)) (Kc c),
              trunc (Kc c) (dft c.N x) m * trunc (Kc c) (dft c.N x) ((h : ℤ) - m)))
    ∧ (mask c h = 0 → at2 (polynomial c 1 [c0, c1, c2] #[rfftnM 1 c.N x]) 0 h = 0) :=
  polynomial_quadratic_alias_free_of_cutoff c hD (by omega) (Kc_two_thirds c hp hq).1 hN c0 c1 c2 x hx h hh

/-- `dft_cube_nifft_rfft_of_cutoff` for the documented fraction 1/2 -/
theorem dft_cube_nifft_rfft (c : Cfg ℂ) (hD : c.D = 1) (hp : c.fp = 1) (hq : c.fq = 2) (hN : 0 < c.N)
    (x : Array ℂ) (hx : IsRealField c.N x) (h : ℤ) (hh : |h| ≤ Kc c) :
    dft c.N (tab c.N fun j => (nifft c (rfftnM 1 c.N x)).getD j 0 * (nifft c (rfftnM 1 c.N x)).getD j 0
        * (nifft c (rfftnM 1 c.N x)).getD j 0) h
      = (1 / (c.N : ℂ) ^ 2) * ∑ a ∈ Finset.Icc (-(Kc c)) (Kc c), ∑ b ∈ Finset.Icc (-(Kc c)) (Kc c),
          trunc (Kc c) (dft c.N x) a * trunc (Kc c) (dft c.N x) b
            * trunc (Kc c) (dft c.N x) (h - a - b) :=
  dft_cube_nifft_rfft_of_cutoff c hD (by omega) (Kc_half c hp hq) hN x hx h hh

/-- `polynomial_cubic_alias_free_of_cutoff` for the documented fraction 1/2 -/
theorem polynomial_cubic_alias_free (c : Cfg ℂ) (hD : c.D = 1) (hp : c.fp = 1) (hq : c.fq = 2)
    (hN : 0 < c.N) (c3 : ℂ) (x : Array ℂ) (hx : IsRealField c.N x) (h : ℕ) (hh : h ≤ c.N / 2) :
    (mask c h = 1 →
      at2 (polynomial c 1 [0, 0, 0, c3] #[rfftnM 1 c.N x]) 0 h
        = c3 * ((1 / (c.N : ℂ) ^ 2) *
            ∑ a ∈ Finset.Icc (-(Kc c)) (Kc c), ∑ b ∈ Finset.Icc (-(Kc c)) (Kc c),
              trunc (Kc c) (dft c.N x) a * trunc (Kc c) (dft c.N x) b
                * trunc (Kc c) (dft c.N x) ((h : ℤ) - a - b)))
    ∧ (mask c h = 0 → at2 (polynomial c 1 [0, 0, 0, c3] #[rfftnM 1 c.N x]) 0 h = 0) :=
  polynomial_cubic_alias_free_of_cutoff c hD (by omega) (Kc_half c hp hq) hN c3 x hx h hh

end Exponax.Alias
