import ExponaxModel.Proofs.SpectralOpsEq
import ExponaxModel.Proofs.ExactLinearIndex
/-
SmallGaps, part G5 (C04 composed coefficient extraction).

`get_fourier_coefficients(state, scaling_compensation_mode="coef_extraction", round=None)` — the REGENERATED
`Gen.SpectralOps.get_fourier_coefficients` — applied to the single plane-wave state `a·cos(2π κ·j/N + φ)`
(`ExactLinear.modeField`, `κ` strictly below Nyquist in every component), every `D ≥ 1`, `N ≥ 1`.

DERIVED SCALING.  The "coef_extraction" scaling array is a PRODUCT over the axes (`N` on an axis where the wavenumber
is 0 or Nyquist, `N/2` elsewhere), so at a stored mode with `n = nzCount D κ` non-zero wavenumber components it is
`N^D / 2^n`; the transform holds `(a/2)·N^D·e^{±iφ}`.  Hence the read-off is
   `a·e^{iφ}·2^(n−1)`  at the stored index of `κ`   (and `a·e^{−iφ}·2^(n−1)` at the stored index of `−κ`),
   `a·cos φ`           for `κ = 0` (the only self-conjugate wave vector below Nyquist),
   `0`                 at every other stored mode.
In particular the factor is `1` — the value is exactly `a·e^{iφ}` — iff the wave is axis-aligned (`n = 1`: every 1-D
mode, and e.g. `(0, k, 0)`); for an oblique plane wave it is `2^(n−1)` (2 in 2-D, up to 4 in 3-D): the product-form
scaling extracts the amplitude of TENSOR-PRODUCT modes `Π_d cos(k_d x_d)`, not of oblique plane waves.  (The
"reconstruction" scaling would give `a·e^{iφ}` resp. `(a/2)e^{iφ}` instead.)  So the informal "a·e^{iφ}·(1/2 or 1)"
is FALSE for oblique waves in D ≥ 2 (counterexample below: D = 2, κ = (1,1): the entry is `2·a·e^{iφ}`), and the
corrected statement is proved.
-/
set_option linter.unusedVariables false
namespace Exponax.SmallGaps
open Exponax Exponax.Layout Exponax.Transform Exponax.DFT Exponax.Nonlin Exponax.ExactLinear
open Exponax.Gen.SpectralOps Exponax.SpectralOpsEq Finset

/-- number of non-zero components of a wave vector -/
def nzCount (D : ℕ) (κ : List ℤ) : ℕ := (List.range D).countP (fun d => decide (κ.getD d 0 ≠ 0))

theorem nzCount_negK (D : ℕ) (κ : List ℤ) : nzCount D (negK κ) = nzCount D κ := by
  unfold nzCount
  apply List.countP_congr
  intro d _
  rw [negK_getD]
  simp

theorem nzCount_pos (D : ℕ) (κ : List ℤ) (hne : ∃ d < D, κ.getD d 0 ≠ 0) : 0 < nzCount D κ := by
  obtain ⟨d, hd, hne⟩ := hne
  unfold nzCount
  rw [List.countP_pos_iff]
  exact ⟨d, List.mem_range.mpr hd, by simpa using hne⟩

theorem nzCount_zero (D : ℕ) (κ : List ℤ) (h0 : ∀ d < D, κ.getD d 0 = 0) : nzCount D κ = 0 := by
  unfold nzCount
  rw [List.countP_eq_zero]
  intro d hd
  rw [h0 d (List.mem_range.mp hd)]
  simp

/-- the "coef_extraction" scaling at a stored mode strictly below Nyquist: `N^D / 2^(#non-zero components)` -/
theorem scaling_two_belowNyquist (D N h : ℕ) (hB : BelowNyquist D N (wnFlat D N h)) :
    (scaling D N 2 (unflatten (wavenumberShape D N) h) : ℂ) = (N : ℂ) ^ D / 2 ^ nzCount D (wnFlat D N h) := by
  rw [scaling_mode_two]
  congr 2
  unfold nzCount
  apply List.countP_congr
  intro d hd
  have hd' := List.mem_range.mp hd
  rw [← wnFlat_getD' D N h d hd']
  have h2 := hB.2 d hd'
  generalize (wnFlat D N h).getD d 0 = k at h2
  simp only [Bool.not_eq_true', decide_eq_true_eq]
  rw [← Bool.not_eq_true, isSpecial_iff]
  constructor
  · intro hns hk; exact hns (Or.inl hk)
  · rintro hk (h0 | ⟨hev, hny⟩)
    · exact hk h0
    · split_ifs at hny <;> (rw [hny] at h2; simp only [abs_neg, Nat.abs_cast] at h2; omega)

/-- **G5 (full array).**  the regenerated coefficient extraction of one plane wave, every `D ≥ 1`, `N ≥ 1` -/
theorem get_fourier_coefficients_modeField [HasRoundTo ℂ] (D N : ℕ) (hD : 1 ≤ D) (hN : 0 < N) (κ : List ℤ)
    (hκ : BelowNyquist D N κ) (a φ : ℝ) :
    get_fourier_coefficients D N 1 (some "coef_extraction") none "ij" #[modeField D N κ a φ]
      = some (tab2 1 (numModes D N) (fun _ h =>
          (if wnFlat D N h = κ then (a / 2 : ℂ) * 2 ^ nzCount D κ * Complex.exp (φ * Complex.I) else 0)
            + (if wnFlat D N h = negK κ then (a / 2 : ℂ) * 2 ^ nzCount D κ * Complex.exp (-(φ * Complex.I))
                else 0))) := by
  rw [get_fourier_coefficients_eq D N 1 hD hN "coef_extraction" 2 (by simp [modeCodes]) none _]
  congr 1
  apply tab2_congr
  intro ch h hch hh
  have hch0 : ch = 0 := by omega
  subst hch0
  have hst : (#[modeField D N κ a φ] : MC ℂ).getD 0 #[] = modeField D N κ a φ := by simp
  have hND : ((N : ℂ) ^ D) ≠ 0 := pow_ne_zero _ (by exact_mod_cast hN.ne')
  have h2n : ((2 : ℂ) ^ nzCount D κ) ≠ 0 := pow_ne_zero _ two_ne_zero
  simp only [roundOpt]
  rw [hst, rfftnM_modeField D N (by omega) hN κ hκ a φ h hh]
  by_cases h1 : wnFlat D N h = κ
  · have hs := scaling_two_belowNyquist D N h (by rw [h1]; exact hκ)
    rw [h1] at hs
    rw [hs]
    by_cases h2 : wnFlat D N h = negK κ
    · rw [if_pos h1, if_pos h2, if_pos h1, if_pos h2]
      push_cast
      field_simp
      try ring
    · rw [if_pos h1, if_neg h2, if_pos h1, if_neg h2]
      push_cast
      field_simp
      try ring
  · by_cases h2 : wnFlat D N h = negK κ
    · have hs := scaling_two_belowNyquist D N h (by rw [h2]; exact hκ.negK)
      rw [h2, nzCount_negK] at hs
      rw [hs, if_neg h1, if_pos h2, if_neg h1, if_pos h2]
      push_cast
      field_simp
      try ring
    · rw [if_neg h1, if_neg h2, if_neg h1, if_neg h2, add_zero, zero_div]

/-- **G5 (read-off).**  value `a·e^{iφ}·2^(n−1)` at the stored index of `κ ≠ 0`, `a·e^{−iφ}·2^(n−1)` at the stored
    index of the conjugate partner `−κ` (stored iff `κ_last = 0`, `C04_stored_modes`), `a·cos φ` for the self-conjugate
    `κ = 0`, `0` at every other stored mode; `n = nzCount D κ` -/
theorem coef_extraction_readoff [HasRoundTo ℂ] (D N : ℕ) (hD : 1 ≤ D) (hN : 0 < N) (κ : List ℤ)
    (hκ : BelowNyquist D N κ) (a φ : ℝ) :
    ∃ out : MC ℂ,
      get_fourier_coefficients D N 1 (some "coef_extraction") none "ij" #[modeField D N κ a φ] = some out ∧
      (∀ h < numModes D N, wnFlat D N h = κ → (∃ d < D, κ.getD d 0 ≠ 0) →
        at2 out 0 h = (a : ℂ) * Complex.exp (φ * Complex.I) * 2 ^ (nzCount D κ - 1)) ∧
      (∀ h < numModes D N, wnFlat D N h = negK κ → (∃ d < D, κ.getD d 0 ≠ 0) →
        at2 out 0 h = (a : ℂ) * Complex.exp (-(φ * Complex.I)) * 2 ^ (nzCount D κ - 1)) ∧
      (∀ h < numModes D N, wnFlat D N h = κ → (∀ d < D, κ.getD d 0 = 0) →
        at2 out 0 h = ((a * Real.cos φ : ℝ) : ℂ)) ∧
      (∀ h < numModes D N, wnFlat D N h ≠ κ → wnFlat D N h ≠ negK κ → at2 out 0 h = 0) := by
  refine ⟨_, get_fourier_coefficients_modeField D N hD hN κ hκ a φ, ?_, ?_, ?_, ?_⟩
  · intro h hh hk hne
    have hnk : κ ≠ negK κ := fun he => by
      obtain ⟨d, hd, hne⟩ := hne
      exact hne ((eq_negK_iff D κ hκ.1).mp he d hd)
    have hpos := nzCount_pos D κ hne
    rw [at2_tab2 _ _ _ _ _ (by norm_num) hh, if_pos hk, if_neg (by rw [hk]; exact hnk), add_zero]
    have : (2 : ℂ) ^ nzCount D κ = 2 * 2 ^ (nzCount D κ - 1) := by
      rw [← pow_succ']; congr 1; omega
    rw [this]; ring
  · intro h hh hk hne
    have hnk : negK κ ≠ κ := fun he => by
      obtain ⟨d, hd, hne⟩ := hne
      exact hne ((eq_negK_iff D κ hκ.1).mp he.symm d hd)
    have hpos := nzCount_pos D κ hne
    rw [at2_tab2 _ _ _ _ _ (by norm_num) hh, if_neg (by rw [hk]; exact hnk), if_pos hk, zero_add]
    have : (2 : ℂ) ^ nzCount D κ = 2 * 2 ^ (nzCount D κ - 1) := by
      rw [← pow_succ']; congr 1; omega
    rw [this]; ring
  · intro h hh hk h0
    have hnk : κ = negK κ := (eq_negK_iff D κ hκ.1).mpr h0
    rw [at2_tab2 _ _ _ _ _ (by norm_num) hh, if_pos hk, if_pos (by rw [hk]; exact hnk), nzCount_zero D κ h0]
    push_cast
    rw [Complex.cos]
    ring_nf
  · intro h hh h1 h2
    rw [at2_tab2 _ _ _ _ _ (by norm_num) hh, if_neg h1, if_neg h2, add_zero]

/-- axis-aligned waves (exactly one non-zero component; every non-constant 1-D mode): the read-off is EXACTLY
    `a·e^{iφ}` -/
theorem coef_extraction_axis_aligned [HasRoundTo ℂ] (D N : ℕ) (hD : 1 ≤ D) (hN : 0 < N) (κ : List ℤ)
    (hκ : BelowNyquist D N κ) (h1 : nzCount D κ = 1) (a φ : ℝ) (h : ℕ) (hh : h < numModes D N)
    (hk : wnFlat D N h = κ) :
    ∃ out : MC ℂ,
      get_fourier_coefficients D N 1 (some "coef_extraction") none "ij" #[modeField D N κ a φ] = some out ∧
      at2 out 0 h = (a : ℂ) * Complex.exp (φ * Complex.I) := by
  obtain ⟨out, ho, hat, _, _, _⟩ := coef_extraction_readoff D N hD hN κ hκ a φ
  refine ⟨out, ho, ?_⟩
  have hne : ∃ d < D, κ.getD d 0 ≠ 0 := by
    by_contra hcon
    have : nzCount D κ = 0 := nzCount_zero D κ (fun d hd => by
      by_contra hx; exact hcon ⟨d, hd, hx⟩)
    omega
  rw [hat h hh hk hne, h1]; simp

/-! ### non-vacuity and the counterexample to "factor 1/2 or 1" -/

example : BelowNyquist 2 8 [1, 1] ∧ nzCount 2 [1, 1] = 2 ∧ (∃ d < 2, ([1, 1] : List ℤ).getD d 0 ≠ 0) :=
  ⟨⟨rfl, by intro d hd; interval_cases d <;> simp⟩, by decide, 0, by norm_num, by decide⟩

/-- D = 2, N = 8, κ = (1, 1) (stored at flat index `1·5 + 1 = 6`): the extracted coefficient is `2·a·e^{iφ}` -/
theorem coef_extraction_oblique_2d [HasRoundTo ℂ] (a φ : ℝ) :
    ∃ out : MC ℂ,
      get_fourier_coefficients 2 8 1 (some "coef_extraction") none "ij" #[modeField 2 8 [1, 1] a φ] = some out ∧
      at2 out 0 6 = 2 * ((a : ℂ) * Complex.exp (φ * Complex.I)) := by
  have hκ : BelowNyquist 2 8 [1, 1] := ⟨rfl, by intro d hd; interval_cases d <;> simp⟩
  obtain ⟨out, ho, hat, _, _, _⟩ := coef_extraction_readoff 2 8 (by norm_num) (by norm_num) [1, 1] hκ a φ
  refine ⟨out, ho, ?_⟩
  rw [hat 6 (by decide) (by decide) ⟨0, by norm_num, by decide⟩]
  have : nzCount 2 [1, 1] = 2 := by decide
  rw [this]; ring

example : nzCount 3 [0, 2, 0] = 1 ∧ BelowNyquist 3 8 [0, 2, 0] :=
  ⟨by decide, rfl, by intro d hd; interval_cases d <;> simp⟩

end Exponax.SmallGaps
