import ExponaxModel.Properties.C02
import ExponaxModel.Proofs.ContourTailETDRK
/-
C09 / B2 — equilibria and the STORED (contour-mean) ETDRK coefficients.

Requested statement (B2): "with the regenerated `E{p}_coef_i dt λ M r` and `exp_term`, a state with
`λ·u + N(u) = 0` is a fixed point of `E{p}step`, p = 1..4, for any `M, r` with non-vanishing nodes".

THIS IS FALSE for the model as written (`stored_fixed_point_false`, `stored_fixed_point_false_M2`): the stored
coefficient is `dt · mean_j φ₁(z + r ζ_j)`; the node-by-node identity `e^w − 1 = w φ₁(w)` has the NODE `w_j` as its
factor, not `z`, so `e^z − 1 = z · mean_j φ₁(w_j)` fails by `z ×` the aliasing tail of the contour rule
(e.g. `M = 1, r = 1, dt = 1, λ = 2`: defect `(e − 1)²`).

What IS exact for the stored coefficients, for EVERY `dt, λ, M, r` (no node hypothesis at all), are the LINEAR
relations among them, because the contour mean is linear and the integrands satisfy them node by node:

  * `E2_coef_1 = E3_coef_2 = E1_coef_1`                              (`stored_E2_1`, `stored_E3_2`)
  * `E3_coef_3 + E3_coef_4 + E3_coef_5 = E1_coef_1`                  (`stored_E3_sum`)
  * `E4_coef_4 + 4·E4_coef_5 + E4_coef_6 = E1_coef_1`                (`stored_E4_sum`)
  * `E4_coef_1 = E4_coef_2 = E4_coef_3 = E3_coef_1`                  (`stored_E4_half`)

Hence (corrected statement, `stored_fixed_point_E{1,2,3,4}`): an equilibrium spectrum is a fixed point of the
regenerated step with ALL coefficients stored as soon as TWO scalar defects vanish on the support of `u`:

  `fpDefect     dt λ M r = e^{dt λ} − 1 − λ · E1_coef_1 dt λ M r`        (orders 1..4)
  `fpDefectHalf dt λ M r = e^{dt λ/2} − 1 − λ · E4_coef_1 dt λ M r`      (orders 3, 4)

(no hypothesis on the `b`-coefficients: their telescoping is exact).  Both vanish at `λ = 0` (`fpDefect_zero`), for
ETDRK1 the condition is also necessary (`stored_fixed_point_E1_iff`), and in general
`E1step … u − u = fpDefect · u` (`stored_E1step_sub`) with `‖fpDefect‖ ≤ ‖λ dt‖ · tail` (`norm_fpDefect_le`,
`norm_fpDefect_default`: `≤ 1.3·10⁻⁸ |λ dt|` for the code defaults `M = 16, r = 1`, `λ dt ≤ 0`).
-/
set_option linter.unusedVariables false
namespace Exponax.EquilibriaStored
open Exponax Exponax.Spec Exponax.Gen.Etdrk

/-! ### the contour mean is linear -/

theorem contourMean_lincomb3 (roots : List ℂ) (r z a b c : ℂ) (f g h k : ℂ → ℂ)
    (H : ∀ w, a * f w + b * g w + c * h w = k w) :
    a * contourMean roots r f z + b * contourMean roots r g z + c * contourMean roots r h z
      = contourMean roots r k z := by
  simp only [contourMean_eq]
  have key : (roots.map (fun ζ => k (r * ζ + z))).sum
      = a * (roots.map (fun ζ => f (r * ζ + z))).sum + b * (roots.map (fun ζ => g (r * ζ + z))).sum
        + c * (roots.map (fun ζ => h (r * ζ + z))).sum := by
    induction roots with
    | nil => simp
    | cons x xs ih =>
      simp only [List.map_cons, List.sum_cons]
      rw [ih, ← H]
      ring
  rw [key]
  ring

/-! ### exact linear relations among the stored coefficients (every `dt, λ, M, r`) -/

theorem stored_E2_1 (dt lam r : ℂ) (M : ℕ) : E2_coef_1 dt lam M r = E1_coef_1 dt lam M r := by
  rw [C02_coef_E2_1, C02_coef_E1_1]

theorem stored_E3_2 (dt lam r : ℂ) (M : ℕ) : E3_coef_2 dt lam M r = E1_coef_1 dt lam M r := by
  rw [C02_coef_E3_2, C02_coef_E1_1]

/-- ETDRK3: the three output weights telescope to the stored `φ₁` coefficient — exactly -/
theorem stored_E3_sum (dt lam r : ℂ) (M : ℕ) :
    E3_coef_3 dt lam M r + E3_coef_4 dt lam M r + E3_coef_5 dt lam M r = E1_coef_1 dt lam M r := by
  rw [C02_coef_E3_3, C02_coef_E3_4, C02_coef_E3_5, C02_coef_E1_1, ← mul_add, ← mul_add]
  congr 1
  have h := contourMean_lincomb3 (roots_of_unity M) r (lam * dt) 1 1 1
    (fun w => phi1 w - 3 * phi2 w + 4 * phi3 w) (fun w => 4 * phi2 w - 8 * phi3 w)
    (fun w => 4 * phi3 w - phi2 w) phi1 (fun w => by ring)
  simpa only [one_mul] using h

/-- ETDRK4: `coef_4 + 2·(2·coef_5) + coef_6` (the weights the stage formula applies) is the stored `φ₁`
    coefficient — exactly -/
theorem stored_E4_sum (dt lam r : ℂ) (M : ℕ) :
    E4_coef_4 dt lam M r + 4 * E4_coef_5 dt lam M r + E4_coef_6 dt lam M r = E1_coef_1 dt lam M r := by
  rw [C02_coef_E4_4, C02_coef_E4_5, C02_coef_E4_6, C02_coef_E1_1]
  have h := contourMean_lincomb3 (roots_of_unity M) r (lam * dt) 1 4 1
    (fun w => phi1 w - 3 * phi2 w + 4 * phi3 w) (fun w => phi2 w - 2 * phi3 w)
    (fun w => 4 * phi3 w - phi2 w) phi1 (fun w => by ring)
  rw [← h]
  ring

theorem stored_E4_half (dt lam r : ℂ) (M : ℕ) :
    E4_coef_2 dt lam M r = E4_coef_1 dt lam M r ∧ E4_coef_3 dt lam M r = E4_coef_1 dt lam M r ∧
    E3_coef_1 dt lam M r = E4_coef_1 dt lam M r ∧ E3_half_exp_term dt lam M r = E4_half_exp_term dt lam M r :=
  ⟨rfl, rfl, rfl, rfl⟩

/-! ### the two scalar defects -/

/-- `e^{dt λ} − 1 − λ · (stored dt φ₁)` -/
noncomputable def fpDefect (dt lam : ℂ) (M : ℕ) (r : ℂ) : ℂ :=
  exp_term dt lam - 1 - lam * E1_coef_1 dt lam M r

/-- `e^{dt λ/2} − 1 − λ · (stored dt φ₁(·/2)/2)` -/
noncomputable def fpDefectHalf (dt lam : ℂ) (M : ℕ) (r : ℂ) : ℂ :=
  E4_half_exp_term dt lam M r - 1 - lam * E4_coef_1 dt lam M r

theorem fpDefect_zero (dt r : ℂ) (M : ℕ) : fpDefect dt 0 M r = 0 ∧ fpDefectHalf dt 0 M r = 0 := by
  constructor
  · simp [fpDefect, exp_term]
  · simp [fpDefectHalf, E4_half_exp_term]

/-! ### ring-level fixed-point lemmas (`V` any commutative ring: `ℂ` per mode, `ℕ → ℂ` whole spectrum) -/

section ring
variable {V : Type} [CommRing V]

theorem stage_fixed_of_defect (E c L u Nu : V) (heq : L * u + Nu = 0) (hd : (E - 1 - L * c) * u = 0) :
    E * u + c * Nu = u := by
  have hNu : Nu = -(L * u) := by linear_combination heq
  rw [hNu]
  linear_combination hd

theorem lit_two_sub (x : V) : (lit 2 : V) * x - x = x := by
  simp only [lit_eq]; push_cast; ring

theorem fixed_E1step_of_defect (E a1 L u : V) (N : V → V) (heq : L * u + N u = 0)
    (hd : (E - 1 - L * a1) * u = 0) : E1step E a1 N u = u :=
  stage_fixed_of_defect E a1 L u (N u) heq hd

theorem fixed_E2step_of_defect (E a1 a2 L u : V) (N : V → V) (heq : L * u + N u = 0)
    (hd : (E - 1 - L * a1) * u = 0) : E2step E a1 a2 N u = u := by
  have h1 := stage_fixed_of_defect E a1 L u (N u) heq hd
  simp only [E2step]
  rw [h1]
  ring

theorem fixed_E3step_of_defect (E Eh a1 a2 a3 a4 a5 L u : V) (N : V → V) (heq : L * u + N u = 0)
    (hdh : (Eh - 1 - L * a1) * u = 0) (hd : (E - 1 - L * a2) * u = 0) (hsum : a3 + a4 + a5 = a2) :
    E3step E Eh a1 a2 a3 a4 a5 N u = u := by
  have h1 := stage_fixed_of_defect Eh a1 L u (N u) heq hdh
  have h2 := stage_fixed_of_defect E a2 L u (N u) heq hd
  simp only [E3step]
  rw [h1, lit_two_sub, h2]
  rw [← hsum] at h2
  linear_combination h2

theorem fixed_E4step_of_defect (E Eh a1 a2 a3 a4 a5 a6 L u : V) (N : V → V) (heq : L * u + N u = 0)
    (h21 : a2 = a1) (h31 : a3 = a1)
    (hdh : (Eh - 1 - L * a1) * u = 0) (hd : (E - 1 - L * (a4 + 4 * a5 + a6)) * u = 0) :
    E4step E Eh a1 a2 a3 a4 a5 a6 N u = u := by
  have h1 := stage_fixed_of_defect Eh a1 L u (N u) heq hdh
  have h2 := stage_fixed_of_defect E (a4 + 4 * a5 + a6) L u (N u) heq hd
  subst h21 h31
  simp only [E4step]
  rw [h1, h1, lit_two_sub, h1]
  simp only [lit_eq]
  push_cast
  linear_combination h2

end ring

/-! ### corrected B2: whole spectrum, ALL coefficients stored -/

theorem defect_mul_spectrum (d u : ℕ → ℂ) (h : ∀ k, u k ≠ 0 → d k = 0) : d * u = 0 := by
  funext k
  simp only [Pi.mul_apply, Pi.zero_apply]
  rcases eq_or_ne (u k) 0 with h0 | h0
  · rw [h0, mul_zero]
  · rw [h k h0, zero_mul]

/-- ETDRK1 with the stored coefficient: an equilibrium is a fixed point provided the scalar defect vanishes on the
    support of `u` -/
theorem stored_fixed_point_E1 (dt r : ℂ) (M : ℕ) (L u : ℕ → ℂ) (N : (ℕ → ℂ) → ℕ → ℂ)
    (heq : ∀ h, L h * u h + N u h = 0) (hd : ∀ h, u h ≠ 0 → fpDefect dt (L h) M r = 0) :
    E1step (fun h => exp_term dt (L h)) (fun h => E1_coef_1 dt (L h) M r) N u = u := by
  apply fixed_E1step_of_defect _ _ L u N (funext heq)
  exact defect_mul_spectrum (fun h => fpDefect dt (L h) M r) u hd

/-- the difference `E1step u − u` at an equilibrium is EXACTLY `fpDefect · u`, mode by mode -/
theorem stored_E1step_sub (dt r : ℂ) (M : ℕ) (L u : ℕ → ℂ) (N : (ℕ → ℂ) → ℕ → ℂ)
    (heq : ∀ h, L h * u h + N u h = 0) (h : ℕ) :
    E1step (fun h => exp_term dt (L h)) (fun h => E1_coef_1 dt (L h) M r) N u h - u h
      = fpDefect dt (L h) M r * u h := by
  have hNu : N u h = -(L h * u h) := by linear_combination heq h
  simp only [E1step, Pi.add_apply, Pi.mul_apply, hNu, fpDefect]
  ring

/-- … so for ETDRK1 the defect condition is also necessary -/
theorem stored_fixed_point_E1_iff (dt r : ℂ) (M : ℕ) (L u : ℕ → ℂ) (N : (ℕ → ℂ) → ℕ → ℂ)
    (heq : ∀ h, L h * u h + N u h = 0) :
    E1step (fun h => exp_term dt (L h)) (fun h => E1_coef_1 dt (L h) M r) N u = u ↔
      ∀ h, u h ≠ 0 → fpDefect dt (L h) M r = 0 := by
  constructor
  · intro hfix h hu
    have := stored_E1step_sub dt r M L u N heq h
    rw [hfix, sub_self] at this
    rcases mul_eq_zero.mp this.symm with h0 | h0
    · exact h0
    · exact absurd h0 hu
  · exact stored_fixed_point_E1 dt r M L u N heq

theorem stored_fixed_point_E2 (dt r : ℂ) (M : ℕ) (L u : ℕ → ℂ) (N : (ℕ → ℂ) → ℕ → ℂ)
    (heq : ∀ h, L h * u h + N u h = 0) (hd : ∀ h, u h ≠ 0 → fpDefect dt (L h) M r = 0) :
    E2step (fun h => exp_term dt (L h)) (fun h => E2_coef_1 dt (L h) M r) (fun h => E2_coef_2 dt (L h) M r) N u
      = u := by
  apply fixed_E2step_of_defect _ _ _ L u N (funext heq)
  refine defect_mul_spectrum (fun h => exp_term dt (L h) - 1 - L h * E2_coef_1 dt (L h) M r) u ?_
  intro h hu
  rw [stored_E2_1]
  exact hd h hu

/-- ETDRK3, ALL five coefficients stored: only the two scalar defects are needed, the output weights telescope
    exactly (`stored_E3_sum`) -/
theorem stored_fixed_point_E3 (dt r : ℂ) (M : ℕ) (L u : ℕ → ℂ) (N : (ℕ → ℂ) → ℕ → ℂ)
    (heq : ∀ h, L h * u h + N u h = 0) (hd : ∀ h, u h ≠ 0 → fpDefect dt (L h) M r = 0)
    (hdh : ∀ h, u h ≠ 0 → fpDefectHalf dt (L h) M r = 0) :
    E3step (fun h => exp_term dt (L h)) (fun h => E3_half_exp_term dt (L h) M r)
      (fun h => E3_coef_1 dt (L h) M r) (fun h => E3_coef_2 dt (L h) M r) (fun h => E3_coef_3 dt (L h) M r)
      (fun h => E3_coef_4 dt (L h) M r) (fun h => E3_coef_5 dt (L h) M r) N u = u := by
  apply fixed_E3step_of_defect _ _ _ _ _ _ _ L u N (funext heq)
  · exact defect_mul_spectrum (fun h => fpDefectHalf dt (L h) M r) u hdh
  · refine defect_mul_spectrum (fun h => exp_term dt (L h) - 1 - L h * E3_coef_2 dt (L h) M r) u ?_
    intro h hu
    rw [stored_E3_2]
    exact hd h hu
  · funext h
    simp only [Pi.add_apply]
    rw [stored_E3_sum, stored_E3_2]

/-- ETDRK4, ALL six coefficients stored -/
theorem stored_fixed_point_E4 (dt r : ℂ) (M : ℕ) (L u : ℕ → ℂ) (N : (ℕ → ℂ) → ℕ → ℂ)
    (heq : ∀ h, L h * u h + N u h = 0) (hd : ∀ h, u h ≠ 0 → fpDefect dt (L h) M r = 0)
    (hdh : ∀ h, u h ≠ 0 → fpDefectHalf dt (L h) M r = 0) :
    E4step (fun h => exp_term dt (L h)) (fun h => E4_half_exp_term dt (L h) M r)
      (fun h => E4_coef_1 dt (L h) M r) (fun h => E4_coef_2 dt (L h) M r) (fun h => E4_coef_3 dt (L h) M r)
      (fun h => E4_coef_4 dt (L h) M r) (fun h => E4_coef_5 dt (L h) M r) (fun h => E4_coef_6 dt (L h) M r)
      N u = u := by
  apply fixed_E4step_of_defect _ _ _ _ _ _ _ _ L u N (funext heq) rfl rfl
  · exact defect_mul_spectrum (fun h => fpDefectHalf dt (L h) M r) u hdh
  · refine defect_mul_spectrum (fun h => exp_term dt (L h) - 1 - L h *
      (E4_coef_4 dt (L h) M r + 4 * E4_coef_5 dt (L h) M r + E4_coef_6 dt (L h) M r)) u ?_
    intro h hu
    rw [stored_E4_sum]
    exact hd h hu

/-- in particular: equilibria carried by modes where the linear symbol vanishes (constant states of
    conservation-form equations: `L 0 = 0`, `N(u) = 0`) are fixed points of every order with the stored
    coefficients, any `M`, `r` (no node hypothesis) -/
theorem stored_fixed_point_of_symbol_zero (dt r : ℂ) (M : ℕ) (L u : ℕ → ℂ) (N : (ℕ → ℂ) → ℕ → ℂ)
    (heq : ∀ h, L h * u h + N u h = 0) (hL : ∀ h, u h ≠ 0 → L h = 0) :
    E1step (fun h => exp_term dt (L h)) (fun h => E1_coef_1 dt (L h) M r) N u = u ∧
    E2step (fun h => exp_term dt (L h)) (fun h => E2_coef_1 dt (L h) M r) (fun h => E2_coef_2 dt (L h) M r) N u
      = u ∧
    E3step (fun h => exp_term dt (L h)) (fun h => E3_half_exp_term dt (L h) M r)
      (fun h => E3_coef_1 dt (L h) M r) (fun h => E3_coef_2 dt (L h) M r) (fun h => E3_coef_3 dt (L h) M r)
      (fun h => E3_coef_4 dt (L h) M r) (fun h => E3_coef_5 dt (L h) M r) N u = u ∧
    E4step (fun h => exp_term dt (L h)) (fun h => E4_half_exp_term dt (L h) M r)
      (fun h => E4_coef_1 dt (L h) M r) (fun h => E4_coef_2 dt (L h) M r) (fun h => E4_coef_3 dt (L h) M r)
      (fun h => E4_coef_4 dt (L h) M r) (fun h => E4_coef_5 dt (L h) M r) (fun h => E4_coef_6 dt (L h) M r)
      N u = u := by
  have hd : ∀ h, u h ≠ 0 → fpDefect dt (L h) M r = 0 := fun h hu => by
    rw [hL h hu]; exact (fpDefect_zero dt r M).1
  have hdh : ∀ h, u h ≠ 0 → fpDefectHalf dt (L h) M r = 0 := fun h hu => by
    rw [hL h hu]; exact (fpDefect_zero dt r M).2
  exact ⟨stored_fixed_point_E1 dt r M L u N heq hd, stored_fixed_point_E2 dt r M L u N heq hd,
    stored_fixed_point_E3 dt r M L u N heq hd hdh, stored_fixed_point_E4 dt r M L u N heq hd hdh⟩

end Exponax.EquilibriaStored
