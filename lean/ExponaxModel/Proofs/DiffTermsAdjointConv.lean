import ExponaxModel.Proofs.DiffTermsAdjoint
import ExponaxModel.Proofs.DiffTermsMain
/-
C07 support — T4, reverse mode for the convection term (single channel, non-conservative, any dimension `D`).

With `P = multOp mask` (dealiasing), `∂̃_d = multOp (mask · i s k_d)` (derivative of the dealiased field) and
`S = multOp (−b · mask)`:

  * `convection_phys_jvp_eq` : `DF(u)[v] = S (Σ_d P u · ∂̃_d v + P v · ∂̃_d u)`       (the JVP of `DiffTermsMain`, read off);
  * `convection_vjp`         : `⟪w, DF(u) v⟫ = ⟪DF(u)ᵀ w, v⟫` with
                               `DF(u)ᵀ w = Σ_d ( −∂̃_d (w̃ · P u) + P (w̃ · ∂̃_d u) )`,  `w̃ = multOp (conj(−b) · mask) w`
    — what reverse-mode AD must return; every `D`, every `N ≥ 1` (even `N` included), real `2π/L`, complex `b` allowed.
-/
set_option linter.unusedVariables false
namespace Exponax.DiffTerms
open Exponax Exponax.Layout Exponax.Transform Exponax.Nonlin Finset

/-! ### reading the model's physical fields as multipliers -/

/-- entry `j` of `nifft (σ ⊙ û_ch)` is the multiplier `mask · σ` applied to channel `ch` of the grid state -/
theorem nifft_fft_entry (c : Cfg ℂ) (hN : 0 < c.N) (C : ℕ) (σ : ℕ → ℂ) (u : Phys C (gridSize c)) (ch : Fin C)
    (j : Fin (gridSize c)) :
    (nifft c (tab (modes c) (fun h => σ h * at2 (fftC c C (embP C (gridSize c) u)) ch h))).getD j 0
      = ((multOp c (fun h => mask c h * σ h) (u ch) j : ℝ) : ℂ) := by
  rw [multOp_ofReal c hN]
  unfold nifft
  have : tab (modes c) (fun h => mask c h *
        (tab (modes c) (fun h => σ h * at2 (fftC c C (embP C (gridSize c) u)) ch h)).getD h 0)
      = tab (modes c) (fun h => mask c h * σ h * (rfftnM c.D c.N (emb1 (gridSize c) (u ch))).getD h 0) :=
    NonlinFunsEq.tab_congr' (fun m hm => by rw [tab_getD _ _ _ _ hm, at2_fftC_embP, mul_assoc])
  rw [this]

/-- entry `j` of the dealiased physical field `nifft û_ch` -/
theorem nifft_row_entry (c : Cfg ℂ) (hN : 0 < c.N) (C : ℕ) (u : Phys C (gridSize c)) (ch : Fin C)
    (j : Fin (gridSize c)) :
    (nifft c ((fftC c C (embP C (gridSize c) u)).getD ch #[])).getD j 0
      = ((multOp c (mask c) (u ch) j : ℝ) : ℂ) := by
  have e : nifft c ((fftC c C (embP C (gridSize c) u)).getD ch #[])
      = nifft c (tab (modes c) (fun h => 1 * at2 (fftC c C (embP C (gridSize c) u)) ch h)) :=
    NonlinFunsEq.nifft_congr c _ _ (fun m hm => by rw [tab_getD _ _ _ _ hm, one_mul]; rfl)
  rw [e, nifft_fft_entry c hN C (fun _ => 1) u ch j]
  congr 2
  funext m
  exact mul_one _

/-- `irfftn (τ ⊙ nfft A)` for an array `A` with real grid entries `a` -/
theorem irfft_nfft_entry (c : Cfg ℂ) (hN : 0 < c.N) (τ : ℕ → ℂ) (A : Array ℂ) (a : Fin (gridSize c) → ℝ)
    (hA : ∀ j : Fin (gridSize c), A.getD j 0 = ((a j : ℝ) : ℂ)) (j : Fin (gridSize c)) :
    ((irfftnM c.D c.N (tab (modes c) (fun h => τ h * (nfft c A).getD h 0))).getD j 0).re
      = multOp c (fun h => τ h * mask c h) a j := by
  unfold multOp
  have e1 : rfftnM c.D c.N A = rfftnM c.D c.N (emb1 (gridSize c) a) :=
    NonlinFunsEq.rfftnM_congr c.D c.N _ _ (fun i hi => by
      have hi' : i < gridSize c := hi
      rw [hA ⟨i, hi'⟩, emb1_getD (gridSize c) a ⟨i, hi'⟩])
  have e2 : tab (modes c) (fun h => τ h * (nfft c A).getD h 0)
      = tab (modes c) (fun h => τ h * mask c h * (rfftnM c.D c.N (emb1 (gridSize c) a)).getD h 0) :=
    NonlinFunsEq.tab_congr' (fun m hm => by
      unfold nfft
      rw [tab_getD _ _ _ _ hm, e1, mul_assoc])
  rw [e2]

/-! ### the JVP, read off -/

/-- dealiased field -/
noncomputable def Pm (c : Cfg ℂ) (f : Fin (gridSize c) → ℝ) : Fin (gridSize c) → ℝ := multOp c (mask c) f
/-- derivative along axis `d` of the dealiased field -/
noncomputable def Dm (c : Cfg ℂ) (d : ℕ) (f : Fin (gridSize c) → ℝ) : Fin (gridSize c) → ℝ :=
  multOp c (fun h => mask c h * Nonlin.deriv c d h) f
/-- the final scaling + mask -/
noncomputable def Sm (c : Cfg ℂ) (scale : ℂ) (f : Fin (gridSize c) → ℝ) : Fin (gridSize c) → ℝ :=
  multOp c (fun h => -scale * mask c h) f

/-- the JVP of the convection term in physical space: `S (Σ_d P u · ∂̃_d v + P v · ∂̃_d u)` -/
noncomputable def convJ (c : Cfg ℂ) (scale : ℂ) (u v : Fin (gridSize c) → ℝ) : Fin (gridSize c) → ℝ :=
  Sm c scale (fun j => ∑ d ∈ range c.D, (Pm c u j * Dm c d v j + Pm c v j * Dm c d u j))

/-- **T1/T4 link.** the Fréchet derivative of the model's convection term (single channel, non-conservative) between
    the model transforms IS `convJ`: `DF(u)[v] = −b·P(Σ_d P u · ∂_d P v + P v · ∂_d P u)` -/
theorem convection_phys_jvp_eq (c : Cfg ℂ) (hN : 0 < c.N) (scale : ℂ) (u v : Phys 1 (gridSize c)) :
    physJvp c 1 1 (convectionJvp c 1 scale true false) u v 0 = convJ c scale (u 0) (v 0) := by
  funext j
  -- the product array has real entries
  have hA : ∀ i : Fin (gridSize c),
      (tab (gridSize c) (fun j => sumList ((List.range c.D).map (fun d =>
          at2 (tabC 1 (fun ch => nifft c ((fftC c 1 (embP 1 (gridSize c) u)).getD ch #[]))) 0 j *
            at2 (tabC c.D (fun d => nifft c (tab (modes c) (fun h => Nonlin.deriv c d h * at2 (fftC c 1 (embP 1 (gridSize c) v)) 0 h)))) d j +
          at2 (tabC 1 (fun ch => nifft c ((fftC c 1 (embP 1 (gridSize c) v)).getD ch #[]))) 0 j *
            at2 (tabC c.D (fun d => nifft c (tab (modes c) (fun h => Nonlin.deriv c d h * at2 (fftC c 1 (embP 1 (gridSize c) u)) 0 h)))) d j)))).getD i 0
      = (((∑ d ∈ range c.D, (Pm c (u 0) i * Dm c d (v 0) i + Pm c (v 0) i * Dm c d (u 0) i) : ℝ)) : ℂ) := by
    intro i
    rw [tab_getD _ _ _ _ i.2, sumList_eq, DFT.list_range_map_sum]
    push_cast
    refine Finset.sum_congr rfl (fun d hd => ?_)
    have hd' := Finset.mem_range.mp hd
    have e0 : ∀ (w : Phys 1 (gridSize c)),
        at2 (tabC 1 (fun ch => nifft c ((fftC c 1 (embP 1 (gridSize c) w)).getD ch #[]))) 0 i = ((Pm c (w 0) i : ℝ) : ℂ) := by
      intro w
      unfold at2
      rw [NonlinFunsEq.tabC_getD _ _ _ Nat.one_pos]
      exact nifft_row_entry c hN 1 w 0 i
    have e1 : ∀ (w : Phys 1 (gridSize c)),
        at2 (tabC c.D (fun d => nifft c (tab (modes c) (fun h => Nonlin.deriv c d h * at2 (fftC c 1 (embP 1 (gridSize c) w)) 0 h)))) d i
          = ((Dm c d (w 0) i : ℝ) : ℂ) := by
      intro w
      unfold at2
      rw [NonlinFunsEq.tabC_getD _ _ _ hd']
      exact nifft_fft_entry c hN 1 (fun h => Nonlin.deriv c d h) w 0 i
    rw [e0 u, e0 v, e1 u, e1 v]
  have hX : (ifftC c 1 (convectionJvp c 1 scale true false (fftC c 1 (embP 1 (gridSize c) u))
        (fftC c 1 (embP 1 (gridSize c) v)))).getD 0 #[]
      = irfftnM c.D c.N (tab (modes c) (fun h => -scale * (nfft c (tab (gridSize c) (fun j => sumList ((List.range c.D).map (fun d =>
          at2 (tabC 1 (fun ch => nifft c ((fftC c 1 (embP 1 (gridSize c) u)).getD ch #[]))) 0 j *
            at2 (tabC c.D (fun d => nifft c (tab (modes c) (fun h => Nonlin.deriv c d h * at2 (fftC c 1 (embP 1 (gridSize c) v)) 0 h)))) d j +
          at2 (tabC 1 (fun ch => nifft c ((fftC c 1 (embP 1 (gridSize c) v)).getD ch #[]))) 0 j *
            at2 (tabC c.D (fun d => nifft c (tab (modes c) (fun h => Nonlin.deriv c d h * at2 (fftC c 1 (embP 1 (gridSize c) u)) 0 h)))) d j))))).getD h 0)) := by
    unfold ifftC
    rw [NonlinFunsEq.tabC_getD _ _ _ Nat.one_pos, convectionJvp_single_nc, NonlinFunsEq.tab2_getD _ _ _ _ Nat.one_pos]
  show (at2 (ifftC c 1 (convectionJvp c 1 scale true false (fftC c 1 (embP 1 (gridSize c) u))
        (fftC c 1 (embP 1 (gridSize c) v)))) 0 j).re = _
  unfold at2
  rw [hX]
  exact irfft_nfft_entry c hN (fun _ => -scale) _ _ hA j

/-! ### the transpose -/

theorem ip_finsum_right {G : ℕ} {ι : Type} (s : Finset ι) (f : Fin G → ℝ) (g : ι → Fin G → ℝ) :
    ip f (fun j => ∑ d ∈ s, g d j) = ∑ d ∈ s, ip f (g d) := by
  unfold ip
  simp only [Finset.mul_sum]
  exact Finset.sum_comm

theorem ip_finsum_left {G : ℕ} {ι : Type} (s : Finset ι) (f : Fin G → ℝ) (g : ι → Fin G → ℝ) :
    ip (fun j => ∑ d ∈ s, g d j) f = ∑ d ∈ s, ip (g d) f := by
  rw [ip_comm, ip_finsum_right]
  exact Finset.sum_congr rfl (fun d _ => ip_comm _ _)

/-- the symbol of `∂̃_d` is conjugated to its negative (real `2π/L`) -/
theorem Dm_transpose (c : Cfg ℂ) (hN : 0 < c.N) (s : ℝ) (hs : c.s = (s : ℂ)) (d : ℕ) (f g : Fin (gridSize c) → ℝ) :
    ip g (Dm c d f) = -ip (Dm c d g) f := by
  unfold Dm
  rw [multOp_adjoint c hN]
  have e : multOp c (fun h => (starRingEnd ℂ) (mask c h * Nonlin.deriv c d h)) g
      = fun j => -multOp c (fun h => mask c h * Nonlin.deriv c d h) g j := by
    funext j
    rw [← multOp_neg_symbol c hN]
    congr 1
    funext m
    rw [map_mul, conj_mask', conj_deriv c s hs]; ring
  rw [e]
  unfold ip
  rw [← Finset.sum_neg_distrib]
  exact Finset.sum_congr rfl (fun j _ => by ring)

theorem Pm_transpose (c : Cfg ℂ) (hN : 0 < c.N) (f g : Fin (gridSize c) → ℝ) :
    ip g (Pm c f) = ip (Pm c g) f := by
  unfold Pm
  rw [multOp_adjoint c hN]
  congr 1
  exact multOp_congr c _ _ (fun m _ => conj_mask' c m) g

/-- **the reverse-mode map** of the convection term at `u`, applied to the cotangent `w` -/
noncomputable def convVjp (c : Cfg ℂ) (scale : ℂ) (u w : Fin (gridSize c) → ℝ) : Fin (gridSize c) → ℝ :=
  fun j => ∑ d ∈ range c.D,
    (-Dm c d (fun i => multOp c (fun h => (starRingEnd ℂ) (-scale * mask c h)) w i * Pm c u i) j
      + Pm c (fun i => multOp c (fun h => (starRingEnd ℂ) (-scale * mask c h)) w i * Dm c d u i) j)

/-- **T4, convection.** `⟪w, DF(u) v⟫ = ⟪DF(u)ᵀ w, v⟫` with `DF(u)ᵀ = convVjp` -/
theorem convJ_transpose (c : Cfg ℂ) (hN : 0 < c.N) (s : ℝ) (hs : c.s = (s : ℂ)) (scale : ℂ)
    (u v w : Fin (gridSize c) → ℝ) :
    ip w (convJ c scale u v) = ip (convVjp c scale u w) v := by
  unfold convJ Sm convVjp
  rw [multOp_adjoint c hN, ip_finsum_right, ip_finsum_left]
  refine Finset.sum_congr rfl (fun d _ => ?_)
  set wt := multOp c (fun h => (starRingEnd ℂ) (-scale * mask c h)) w with hwt
  have h1 : ip wt (fun j => Pm c u j * Dm c d v j + Pm c v j * Dm c d u j)
      = ip (fun i => wt i * Pm c u i) (Dm c d v) + ip (fun i => wt i * Dm c d u i) (Pm c v) := by
    unfold ip
    rw [← Finset.sum_add_distrib]
    exact Finset.sum_congr rfl (fun j _ => by ring)
  have h2 : ip (fun j => -Dm c d (fun i => wt i * Pm c u i) j + Pm c (fun i => wt i * Dm c d u i) j) v
      = -ip (Dm c d (fun i => wt i * Pm c u i)) v + ip (Pm c (fun i => wt i * Dm c d u i)) v := by
    unfold ip
    rw [← Finset.sum_neg_distrib, ← Finset.sum_add_distrib]
    exact Finset.sum_congr rfl (fun j _ => by ring)
  rw [h1, h2, Dm_transpose c hN s hs, Pm_transpose c hN]

/-- **T4, convection, for the model term itself**: reverse mode through `irfftn ∘ convection ∘ rfftn` -/
theorem convection_vjp (c : Cfg ℂ) (hN : 0 < c.N) (s : ℝ) (hs : c.s = (s : ℂ)) (scale : ℂ)
    (u v : Phys 1 (gridSize c)) (w : Fin (gridSize c) → ℝ) :
    ip w (fderiv ℝ (physMap c 1 1 (convection c 1 scale true false)) u v 0)
      = ip (convVjp c scale (u 0) w) (v 0) := by
  rw [convection_phys_fderiv, convection_phys_jvp_eq c hN, convJ_transpose c hN s hs]

/-- non-vacuity of the hypotheses: `N = 4`, `D = 1`, `2π/L = 1` -/
example : ∃ (c : Cfg ℂ) (s : ℝ), 0 < c.N ∧ c.s = (s : ℂ) := ⟨⟨1, 4, 1, 2, 3⟩, 1, by norm_num, by norm_num⟩

end Exponax.DiffTerms
