import Mathlib.Tactic
import Mathlib.Analysis.Calculus.IteratedDeriv.Defs
import ExponaxModel.Proofs.Instances
import ExponaxModel.Proofs.SymbolAlgebra
import ExponaxModel.Proofs.MeanMode
import ExponaxModel.Model.Nonlin
/-
"Spectral differential operators are exact": the derivative-operator entry, the Laplace symbols of
every order and the per-mode Poisson solve, at `K := ℂ` with a real scale `c.s = ((s : ℝ) : ℂ)`.
-/
set_option linter.unusedVariables false
namespace Exponax.Operator
open Exponax Exponax.Layout Exponax.Nonlin Finset

section
variable (c : Cfg ℂ) (s : ℝ) (hs : c.s = (s : ℂ))
include hs

/-! ### O1 — the derivative symbol and exact differentiation of Fourier modes -/

/-- O1: `(deriv c d h)^m = i^m (s k_d)^m` -/
theorem deriv_pow_symbol (d h m : ℕ) :
    (Nonlin.deriv c d h) ^ m = Complex.I ^ m * (((s * (wnAt c d h : ℝ)) ^ m : ℝ) : ℂ) :=
  Exponax.deriv_pow c s hs d h m

omit hs in
/-- O1: for the Fourier mode `x ↦ exp(κ x)` with `κ = deriv c d h` the `m`-th derivative is `κ^m` times the mode:
    multiplying mode `k` by `(deriv c d h)^m` is exact differentiation of the trigonometric interpolant -/
theorem iteratedDeriv_mode (d h m : ℕ) :
    iteratedDeriv m (fun x : ℝ => Complex.exp (Nonlin.deriv c d h * (x : ℂ)))
      = fun x : ℝ => (Nonlin.deriv c d h) ^ m * Complex.exp (Nonlin.deriv c d h * (x : ℂ)) :=
  iteratedDeriv_planeWave _ m

/-- O1: the same with the explicit wave `exp(i (s k_d) x)` and factor `i^m (s k_d)^m` -/
theorem iteratedDeriv_mode_explicit (d h m : ℕ) :
    iteratedDeriv m (fun x : ℝ => Complex.exp (Complex.I * ((s * (wnAt c d h : ℝ) : ℝ) : ℂ) * (x : ℂ)))
      = fun x : ℝ => (Complex.I ^ m * (((s * (wnAt c d h : ℝ)) ^ m : ℝ) : ℂ))
          * Complex.exp (Complex.I * ((s * (wnAt c d h : ℝ) : ℝ) : ℂ) * (x : ℂ)) := by
  rw [← Exponax.deriv_eq c s hs d h, ← deriv_pow_symbol c s hs d h m]
  exact iteratedDeriv_planeWave _ m

/-! ### O3 — Laplace / gradient-inner-product symbols of general order -/

omit hs in
theorem I_pow_even (n : ℕ) : Complex.I ^ (2 * n) = (-1) ^ n := by
  rw [pow_mul, Complex.I_sq]

omit hs in
theorem I_pow_odd (n : ℕ) : Complex.I ^ (2 * n + 1) = Complex.I * (-1) ^ n := by
  rw [pow_succ, I_pow_even]; ring

/-- O3: `laplace c (2n) h = (−1)^n s^(2n) Σ_d k_d^(2n)` (a real number), `n ≥ 1` -/
theorem laplace_even (h n : ℕ) (hn : 1 ≤ n) :
    laplace c (2 * n) h
      = (((-1) ^ n * s ^ (2 * n) * ∑ d ∈ range c.D, (wnAt c d h : ℝ) ^ (2 * n) : ℝ) : ℂ) := by
  rw [laplace_eq_sum c h (2 * n) (by omega)]
  push_cast
  rw [Finset.mul_sum]
  apply Finset.sum_congr rfl
  intro d _
  rw [deriv_pow_symbol c s hs d h (2 * n), I_pow_even]
  push_cast
  ring

/-- O3: `Σ_d v_d (deriv c d h)^(2n+1) = i (−1)^n s^(2n+1) Σ_d v_d k_d^(2n+1)` (purely imaginary), real `v` -/
theorem gradInner_odd (h n : ℕ) (v : ℕ → ℝ) :
    ∑ d ∈ range c.D, ((v d : ℝ) : ℂ) * (Nonlin.deriv c d h) ^ (2 * n + 1)
      = Complex.I * (((-1) ^ n * s ^ (2 * n + 1)
          * ∑ d ∈ range c.D, v d * (wnAt c d h : ℝ) ^ (2 * n + 1) : ℝ) : ℂ) := by
  push_cast
  rw [Finset.mul_sum, Finset.mul_sum]
  apply Finset.sum_congr rfl
  intro d _
  rw [deriv_pow_symbol c s hs d h (2 * n + 1), I_pow_odd]
  push_cast
  ring

/-- O3: the even-order Laplace symbol vanishes exactly at the mean mode -/
theorem laplace_even_eq_zero_iff (hs0 : s ≠ 0) (h n : ℕ) (hn : 1 ≤ n) :
    laplace c (2 * n) h = 0 ↔ ∀ d < c.D, wnAt c d h = 0 := by
  rw [laplace_even c s hs h n hn]
  constructor
  · intro h0
    by_contra hne
    push Not at hne
    have hpos := sum_wn_pow_pos c h (2 * n) (even_two_mul n) hne
    have hs2 : 0 < s ^ (2 * n) := (even_two_mul n).pow_pos hs0
    have h1 : ((-1 : ℝ) ^ n * s ^ (2 * n) * ∑ d ∈ range c.D, (wnAt c d h : ℝ) ^ (2 * n)) = 0 := by
      exact_mod_cast h0
    have h2 : ((-1 : ℝ) ^ n) ≠ 0 := pow_ne_zero _ (by norm_num)
    rcases mul_eq_zero.1 h1 with h3 | h3
    · rcases mul_eq_zero.1 h3 with h4 | h4
      · exact h2 h4
      · exact hs2.ne' h4
    · exact hpos.ne' h3
  · intro hk
    have : ∑ d ∈ range c.D, (wnAt c d h : ℝ) ^ (2 * n) = 0 := by
      apply Finset.sum_eq_zero
      intro d hd
      rw [hk d (Finset.mem_range.mp hd)]
      have : 2 * n ≠ 0 := by omega
      simp [this]
    rw [this]
    simp

end

/-! ### O2 — the Poisson solver, per mode -/

/-- `Poisson.step_fourier` at one stored mode: `u_hat = -where(op == 0, 0, 1/op) * f_hat` with
    `op = build_laplace_operator(order)` -/
noncomputable def poissonMode (order : ℕ) (c : Cfg ℂ) (h : ℕ) (f : ℂ) : ℂ :=
  -(if laplace c order h = 0 then 0 else 1 / laplace c order h) * f

/-- O2: wherever the operator vanishes the solution coefficient is zero (never a division by zero) -/
theorem poissonMode_of_laplace_zero (order : ℕ) (c : Cfg ℂ) (h : ℕ) (f : ℂ) (hl : laplace c order h = 0) :
    poissonMode order c h f = 0 := by
  unfold poissonMode; rw [if_pos hl]; simp

/-- O2: wherever the operator does not vanish, applying it to the solution gives minus the right-hand side -/
theorem laplace_mul_poissonMode (order : ℕ) (c : Cfg ℂ) (h : ℕ) (f : ℂ) (hl : laplace c order h ≠ 0) :
    laplace c order h * poissonMode order c h f = -f := by
  unfold poissonMode; rw [if_neg hl]; field_simp

section
variable (c : Cfg ℂ) (s : ℝ) (hs : c.s = (s : ℂ)) (hs0 : s ≠ 0)
include hs hs0

/-- O2 (order 2): the operator vanishes ONLY at the mean mode -/
theorem laplace_two_eq_zero_iff_mean (h : ℕ) :
    laplace c 2 h = 0 ↔ ∀ d < c.D, wnAt c d h = 0 :=
  Exponax.laplace_two_eq_zero_iff c s hs h hs0

/-- O2 (order 2): zero-mean solution — the mean mode of the output is 0 -/
theorem poissonMode_two_mean (h : ℕ) (f : ℂ) (hk : ∀ d < c.D, wnAt c d h = 0) :
    poissonMode 2 c h f = 0 :=
  poissonMode_of_laplace_zero 2 c h f ((laplace_two_eq_zero_iff_mean c s hs hs0 h).2 hk)

/-- O2 (order 2): off the mean mode the Laplacian of the solution is minus the right-hand side -/
theorem laplace_two_mul_poissonMode (h : ℕ) (f : ℂ) (hk : ∃ d < c.D, wnAt c d h ≠ 0) :
    laplace c 2 h * poissonMode 2 c h f = -f := by
  apply laplace_mul_poissonMode
  rw [Ne, laplace_two_eq_zero_iff_mean c s hs hs0 h]
  push Not
  exact hk

/-- O2 (order 2): explicit solution coefficient `f / (s² |k|²)` off the mean mode -/
theorem poissonMode_two_formula (h : ℕ) (f : ℂ) (hk : ∃ d < c.D, wnAt c d h ≠ 0) :
    poissonMode 2 c h f = f / (((s ^ 2 * ∑ d ∈ range c.D, (wnAt c d h : ℝ) ^ 2 : ℝ)) : ℂ) := by
  have hne : laplace c 2 h ≠ 0 := by
    rw [Ne, laplace_two_eq_zero_iff_mean c s hs hs0 h]; push Not; exact hk
  unfold poissonMode
  rw [if_neg hne]
  rw [Exponax.laplace_two c s hs h] at hne ⊢
  have h2 : (((s ^ 2 * ∑ d ∈ range c.D, (wnAt c d h : ℝ) ^ 2 : ℝ)) : ℂ) ≠ 0 := by
    intro h0; apply hne; rw [Complex.ofReal_neg, h0, neg_zero]
  rw [Complex.ofReal_neg]
  field_simp

omit hs0 in
/-- O2 (order 4): `laplace c 4 h = s⁴ Σ_d k_d⁴`, the sum of pure fourth derivatives -/
theorem laplace_four (h : ℕ) :
    laplace c 4 h = ((s ^ 4 * ∑ d ∈ range c.D, (wnAt c d h : ℝ) ^ 4 : ℝ) : ℂ) := by
  have := laplace_even c s hs h 2 (by norm_num)
  rw [show 2 * 2 = 4 by norm_num] at this
  rw [this]; congr 1; ring

omit hs0 in
/-- O2 (order 4): the symbol is a non-negative real -/
theorem laplace_four_nonneg (h : ℕ) : (laplace c 4 h).im = 0 ∧ 0 ≤ (laplace c 4 h).re := by
  rw [laplace_four c s hs h]
  refine ⟨Complex.ofReal_im _, ?_⟩
  rw [Complex.ofReal_re]
  exact mul_nonneg ((by decide : Even 4).pow_nonneg s)
    (Finset.sum_nonneg (fun d _ => (by decide : Even 4).pow_nonneg _))

/-- O2 (order 4): zero exactly at the mean mode -/
theorem laplace_four_eq_zero_iff (h : ℕ) :
    laplace c 4 h = 0 ↔ ∀ d < c.D, wnAt c d h = 0 :=
  laplace_even_eq_zero_iff c s hs hs0 h 2 (by norm_num)

/-- O2 (order 4): zero-mean solution -/
theorem poissonMode_four_mean (h : ℕ) (f : ℂ) (hk : ∀ d < c.D, wnAt c d h = 0) :
    poissonMode 4 c h f = 0 :=
  poissonMode_of_laplace_zero 4 c h f ((laplace_four_eq_zero_iff c s hs hs0 h).2 hk)

/-- O2 (order 4): off the mean mode the operator applied to the solution is minus the right-hand side -/
theorem laplace_four_mul_poissonMode (h : ℕ) (f : ℂ) (hk : ∃ d < c.D, wnAt c d h ≠ 0) :
    laplace c 4 h * poissonMode 4 c h f = -f := by
  apply laplace_mul_poissonMode
  rw [Ne, laplace_four_eq_zero_iff c s hs hs0 h]
  push Not
  exact hk

/-- O2 (general even order `2n`, `n ≥ 1`) -/
theorem laplace_even_mul_poissonMode (h n : ℕ) (hn : 1 ≤ n) (f : ℂ) (hk : ∃ d < c.D, wnAt c d h ≠ 0) :
    laplace c (2 * n) h * poissonMode (2 * n) c h f = -f := by
  apply laplace_mul_poissonMode
  rw [Ne, laplace_even_eq_zero_iff c s hs hs0 h n hn]
  push Not
  exact hk

end

/-! ### the mean mode is the flat index `0` -/

theorem wnAt_zero (c : Cfg ℂ) (d : ℕ) : wnAt c d 0 = 0 := wnFlat_zero c.D c.N d

/-- a stored mode is the mean mode (all `k_d = 0`) iff its flat index is `0` -/
theorem mean_mode_iff (c : Cfg ℂ) (h : ℕ) (hD : 1 ≤ c.D) (hN : 0 < c.N) (hh : h < numModes c.D c.N) :
    (∀ d < c.D, wnAt c d h = 0) ↔ h = 0 :=
  wnFlat_eq_zero_iff c.D c.N h hD hN hh

theorem off_mean_of_ne_zero (c : Cfg ℂ) (h : ℕ) (hD : 1 ≤ c.D) (hN : 0 < c.N)
    (hh : h < numModes c.D c.N) (h0 : h ≠ 0) : ∃ d < c.D, wnAt c d h ≠ 0 := by
  by_contra hne
  push Not at hne
  exact h0 ((mean_mode_iff c h hD hN hh).1 hne)

section
variable (c : Cfg ℂ) (s : ℝ) (hs : c.s = (s : ℂ)) (hs0 : s ≠ 0)
include hs hs0

/-- O2 in index form (order `2n`, `n ≥ 1`; in particular orders 2 and 4): the coefficient of the flat index
    `0` (the mean) of the solution is `0` -/
theorem poissonMode_even_index_zero (n : ℕ) (hn : 1 ≤ n) (f : ℂ) : poissonMode (2 * n) c 0 f = 0 :=
  poissonMode_of_laplace_zero _ c 0 f
    ((laplace_even_eq_zero_iff c s hs hs0 0 n hn).2 (fun d _ => wnAt_zero c d))

/-- O2 in index form: at every other stored mode the operator applied to the solution is `-f` -/
theorem laplace_even_mul_poissonMode_index (n : ℕ) (hn : 1 ≤ n) (h : ℕ) (hD : 1 ≤ c.D) (hN : 0 < c.N)
    (hh : h < numModes c.D c.N) (h0 : h ≠ 0) (f : ℂ) :
    laplace c (2 * n) h * poissonMode (2 * n) c h f = -f :=
  laplace_even_mul_poissonMode c s hs hs0 h n hn f (off_mean_of_ne_zero c h hD hN hh h0)

/-- O2, order 2, index form -/
theorem poisson_two_index (h : ℕ) (hD : 1 ≤ c.D) (hN : 0 < c.N) (hh : h < numModes c.D c.N) (f : ℂ) :
    poissonMode 2 c 0 f = 0 ∧ (h ≠ 0 → laplace c 2 h * poissonMode 2 c h f = -f) :=
  ⟨poissonMode_even_index_zero c s hs hs0 1 le_rfl f,
   fun h0 => laplace_even_mul_poissonMode_index c s hs hs0 1 le_rfl h hD hN hh h0 f⟩

/-- O2, order 4, index form -/
theorem poisson_four_index (h : ℕ) (hD : 1 ≤ c.D) (hN : 0 < c.N) (hh : h < numModes c.D c.N) (f : ℂ) :
    poissonMode 4 c 0 f = 0 ∧ (h ≠ 0 → laplace c 4 h * poissonMode 4 c h f = -f) :=
  ⟨poissonMode_even_index_zero c s hs hs0 2 (by norm_num) f,
   fun h0 => laplace_even_mul_poissonMode_index c s hs hs0 2 (by norm_num) h hD hN hh h0 f⟩

end

end Exponax.Operator
