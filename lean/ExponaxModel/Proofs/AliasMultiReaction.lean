import ExponaxModel.Proofs.AliasMultiOperators2
import ExponaxModel.Proofs.AliasND2React
import ExponaxModel.Proofs.AliasND2Vort
/-
C03, T1 (link to the model), the reaction terms: the Cahn–Hilliard term `b·Δ(u³)` (`CahnHilliardNonlinearFun`,
`b = ν·c₃`, the documented `uₜ = ν Δ(c₃u³ + …)`) and the two Gray–Scott reaction terms `f(1 − u) − u v²`,
`−(f + k) v + u v²` (`GrayScottNonlinearFun`) as CONTINUOUS OPERATORS applied to the continuous band-truncated fields
`P_K u = PKfield c s x`.

  * `opCH b u = b·Σ_d ∂_d ∂_d (u³)` with honest partial derivatives (`pderiv`, differentiability: `opCH_derivs`),
    coefficient family `chCoef` (`opCH_hasCoeffs`, band `3K`, from `hasCoeffs_mul3` and `hasCoeffs_pderiv` twice),
  * `opGS0 f u v`, `opGS1 f k u v`, coefficient families `gs0Coef`, `gs1Coef` (`opGS0_hasCoeffs`, `opGS1_hasCoeffs`),

  **`cahnHilliard_continuous_nd`**, **`grayScott_continuous_nd`** (`4·Kc < N`, the 1/2 rule): on every retained stored
  mode the model output is `N^D ×` the coefficient at `k(h)` of the continuous operator applied to the band-truncated
  field(s) — a trigonometric polynomial of band `3Kc` whose coefficient family is unique (`hasCoeffs_unique`) — and `0` on
  dropped modes;  `*_fine_grid`: the same coefficient computed on an arbitrary finer grid `M > 4·Kc`.
-/
set_option linter.unusedVariables false
namespace Exponax.AliasMulti
open Exponax Exponax.Layout Exponax.Transform Exponax.DFT Exponax.Nonlin Exponax.Alias Exponax.AliasND Finset

/-! ### one more closure property -/

theorem hasCoeffs_sub {D : ℕ} {s : ℝ} {L : ℤ} {f g : (Fin D → ℝ) → ℂ} {A B : (Fin D → ℤ) → ℂ}
    (hf : HasCoeffs s L f A) (hg : HasCoeffs s L g B) :
    HasCoeffs s L (fun ξ => f ξ - g ξ) (fun p => A p - B p) := by
  intro ξ
  have h : f ξ + -1 * g ξ = tpoly s L (fun p => A p + -1 * B p) ξ :=
    hasCoeffs_add hf (hasCoeffs_smul (-1) hg) ξ
  have e : (fun p => A p - B p) = (fun p => A p + -1 * B p) := by
    funext p
    ring
  rw [e, ← h]
  ring

/-! ### the documented operators -/

/-- `b·Δ(u³) = b·Σ_d ∂_d ∂_d (u³)` (`CahnHilliardNonlinearFun`, `b = scale = ν·c₃`) -/
noncomputable def opCH {D : ℕ} (b : ℂ) (u : (Fin D → ℝ) → ℂ) : (Fin D → ℝ) → ℂ :=
  fun ξ => b * ∑ d : Fin D, pderiv d (pderiv d (fun η => u η * u η * u η)) ξ

/-- coefficient family of `opCH b u` for `u` with coefficient family `U`, band `K`:
    `b·Σ_d (i s r_d)²·Σ_{p+q+t=r} U_p U_q U_t` -/
noncomputable def chCoef {D : ℕ} (s : ℝ) (K : ℤ) (b : ℂ) (U : (Fin D → ℤ) → ℂ) : (Fin D → ℤ) → ℂ :=
  fun r => b * ∑ d : Fin D, dcoef s d (dcoef s d (conv3 K U U U)) r

/-- Gray–Scott, first species: `f(1 − u) − u v²` -/
noncomputable def opGS0 {D : ℕ} (f : ℂ) (u v : (Fin D → ℝ) → ℂ) : (Fin D → ℝ) → ℂ :=
  fun ξ => f * (1 - u ξ) - u ξ * v ξ * v ξ

/-- Gray–Scott, second species: `−(f + k) v + u v²` -/
noncomputable def opGS1 {D : ℕ} (f k : ℂ) (u v : (Fin D → ℝ) → ℂ) : (Fin D → ℝ) → ℂ :=
  fun ξ => -(f + k) * v ξ + u ξ * v ξ * v ξ

noncomputable def gs0Coef {D : ℕ} (K : ℤ) (f : ℂ) (U V : (Fin D → ℤ) → ℂ) : (Fin D → ℤ) → ℂ :=
  fun r => f * ((if r = 0 then 1 else 0) - truncV K U r) - conv3 K U V V r

noncomputable def gs1Coef {D : ℕ} (K : ℤ) (f k : ℂ) (U V : (Fin D → ℤ) → ℂ) : (Fin D → ℤ) → ℂ :=
  fun r => -(f + k) * truncV K V r + conv3 K U V V r

/-- `b·Δ(u³)` of a band-`K` trigonometric polynomial is the band-`3K` trigonometric polynomial with coefficients
    `b·(Σ_d (i s r_d)²)·Σ_{p+q+t=r} U_p U_q U_t` -/
theorem opCH_hasCoeffs {D : ℕ} {s : ℝ} {K : ℤ} (b : ℂ) {u : (Fin D → ℝ) → ℂ} {U : (Fin D → ℤ) → ℂ}
    (hu : HasCoeffs s K u U) : HasCoeffs s (K + K + K) (opCH b u) (chCoef s K b U) := by
  unfold opCH chCoef
  exact hasCoeffs_smul b
    (hasCoeffs_sum Finset.univ _ _ (fun d _ => hasCoeffs_pderiv d (hasCoeffs_pderiv d (hasCoeffs_mul3 hu hu hu))))

/-- both derivatives in `opCH` are honest: `u³` and `∂_d(u³)` are differentiable along every coordinate, with derivatives
    `pderiv d (u³)` resp. `pderiv d (pderiv d (u³))` -/
theorem opCH_derivs {D : ℕ} {s : ℝ} {K : ℤ} {u : (Fin D → ℝ) → ℂ} {U : (Fin D → ℤ) → ℂ}
    (hu : HasCoeffs s K u U) (d : Fin D) (ξ : Fin D → ℝ) :
    HasDerivAt (fun t : ℝ => (fun η => u η * u η * u η) (Function.update ξ d t))
      (pderiv d (fun η => u η * u η * u η) ξ) (ξ d) ∧
    HasDerivAt (fun t : ℝ => pderiv d (fun η => u η * u η * u η) (Function.update ξ d t))
      (pderiv d (pderiv d (fun η => u η * u η * u η)) ξ) (ξ d) :=
  ⟨hasCoeffs_hasDerivAt (hasCoeffs_mul3 hu hu hu) d ξ,
    hasCoeffs_hasDerivAt (hasCoeffs_pderiv d (hasCoeffs_mul3 hu hu hu)) d ξ⟩

theorem opGS0_hasCoeffs {D : ℕ} {s : ℝ} {K : ℤ} (hK : 0 ≤ K) (f : ℂ) {u v : (Fin D → ℝ) → ℂ}
    {U V : (Fin D → ℤ) → ℂ} (hu : HasCoeffs s K u U) (hv : HasCoeffs s K v V) :
    HasCoeffs s (K + K + K) (opGS0 f u v) (gs0Coef K f U V) := by
  unfold opGS0 gs0Coef
  exact hasCoeffs_sub (hasCoeffs_smul f (hasCoeffs_sub (hasCoeffs_const s (by omega) 1)
    (hasCoeffs_raise (by omega) hu))) (hasCoeffs_mul3 hu hv hv)

theorem opGS1_hasCoeffs {D : ℕ} {s : ℝ} {K : ℤ} (hK : 0 ≤ K) (f k : ℂ) {u v : (Fin D → ℝ) → ℂ}
    {U V : (Fin D → ℤ) → ℂ} (hu : HasCoeffs s K u U) (hv : HasCoeffs s K v V) :
    HasCoeffs s (K + K + K) (opGS1 f k u v) (gs1Coef K f k U V) := by
  unfold opGS1 gs1Coef
  exact hasCoeffs_add (hasCoeffs_smul (-(f + k)) (hasCoeffs_raise (by omega) hv)) (hasCoeffs_mul3 hu hv hv)

/-! ### link with the model's alias-free forms -/

theorem box_le_triple {D : ℕ} (K : ℤ) (k : Fin D → ℤ) (hk : ∀ d, |k d| ≤ K) : ∀ d, |k d| ≤ K + K + K := by
  intro d
  have := hk d
  have := abs_nonneg (k d)
  omega

theorem conv3_ucoef_mixed (c : Cfg ℂ) (xa xb xd : Array ℂ) (k : Fin c.D → ℤ) :
    conv3 (Kc c) (ucoef c xa) (ucoef c xb) (ucoef c xd) k
      = (1 / ((c.N ^ c.D : ℕ) : ℂ)) *
          linConv3 c.D c.N (Kc c) (dftV c.D c.N xa) (dftV c.D c.N xb) (dftV c.D c.N xd) k := by
  rw [linConv3_eq_conv3]
  unfold ucoef
  rw [conv3_smul]
  ring

/-- `N^D ×` the coefficient of `b·Δ(P_K u)³` is the model's alias-free form `Δ̂_h·(X⋆X⋆X)(k(h))·b` -/
theorem chCoef_model (c : Cfg ℂ) (hN : 0 < c.N) (s : ℝ) (hs : c.s = (s : ℂ)) (b : ℂ) (x : Array ℂ) (h : ℕ) :
    ((c.N ^ c.D : ℕ) : ℂ) * chCoef s (Kc c) b (ucoef c x) (kvec c.D c.N h)
      = laplace c 2 h * linConv3 c.D c.N (Kc c) (dftV c.D c.N x) (dftV c.D c.N x) (dftV c.D c.N x)
          (kvec c.D c.N h) * b := by
  have hne : ((c.N ^ c.D : ℕ) : ℂ) ≠ 0 := by exact_mod_cast (pow_pos hN c.D).ne'
  have hl : laplace c 2 h = ∑ d : Fin c.D, (Complex.I * ((s : ℂ) * ((kvec c.D c.N h d : ℤ) : ℂ))) ^ 2 := by
    rw [laplace_two_eq_sum, ← Fin.sum_univ_eq_sum_range (fun d => deriv c d h ^ 2) c.D]
    apply Finset.sum_congr rfl
    intro d _
    rw [← hs]
    rfl
  unfold chCoef dcoef
  rw [conv3_ucoef, hl]
  generalize linConv3 c.D c.N (Kc c) (dftV c.D c.N x) (dftV c.D c.N x) (dftV c.D c.N x) (kvec c.D c.N h) = Cv
  have e : ∀ d : Fin c.D,
      Complex.I * ((s : ℂ) * ((kvec c.D c.N h d : ℤ) : ℂ)) *
        (Complex.I * ((s : ℂ) * ((kvec c.D c.N h d : ℤ) : ℂ)) * (1 / ((c.N ^ c.D : ℕ) : ℂ) * Cv))
      = (Complex.I * ((s : ℂ) * ((kvec c.D c.N h d : ℤ) : ℂ))) ^ 2 * (1 / ((c.N ^ c.D : ℕ) : ℂ) * Cv) := by
    intro d
    ring
  rw [Finset.sum_congr rfl (fun d _ => e d), ← Finset.sum_mul]
  generalize (∑ d : Fin c.D, (Complex.I * ((s : ℂ) * ((kvec c.D c.N h d : ℤ) : ℂ))) ^ 2) = S
  field_simp

/-! ### the upgraded corollaries -/

/-- **Cahn–Hilliard term `b·Δ(u³)`, every `D ≥ 1`, `4·Kc < N` (the 1/2 rule)** — upgraded statement.
    With `u_K = PKfield c s x` the continuous band-truncated field:
    (1) the continuous operator `opCH b u_K` is the trigonometric polynomial of band `3Kc` with coefficient family
        `A = chCoef …` (unique, `hasCoeffs_unique`);
    (2) on every retained stored mode the model returns `N^D · A(k(h))` (`N^D`: un-normalised forward transform), i.e. the
        band-`Kc` truncation of the spectrum of the continuous operator applied to `u_K`;  (3) `0` on dropped modes. -/
theorem cahnHilliard_continuous_nd (c : Cfg ℂ) (hD : 0 < c.D) (hq : c.fq ≠ 0)
    (hK : 4 * Kc c < (c.N : ℤ)) (hN : 0 < c.N) (s : ℝ) (hs : c.s = (s : ℂ)) (b : ℂ) (x : Array ℂ)
    (hx : IsRealND c.D c.N x) :
    HasCoeffs s (Kc c + Kc c + Kc c) (opCH b (PKfield c s x)) (chCoef s (Kc c) b (ucoef c x)) ∧
    ∀ h, h < numModes c.D c.N →
      (mask c h = 1 → at2 (cahnHilliard c b #[rfftnM c.D c.N x]) 0 h
          = ((c.N ^ c.D : ℕ) : ℂ) * chCoef s (Kc c) b (ucoef c x) (kvec c.D c.N h)) ∧
      (mask c h = 0 → at2 (cahnHilliard c b #[rfftnM c.D c.N x]) 0 h = 0) := by
  refine ⟨opCH_hasCoeffs b (PKfield_hasCoeffs c s x), fun h hh => ?_⟩
  have := cahnHilliard_alias_free_nd c hD hq hK hN b x hx h hh
  refine ⟨fun hm => ?_, this.2⟩
  rw [this.1 hm, chCoef_model c hN s hs b x h]

/-- the same coefficient computed on an ARBITRARY finer grid `M > 4·Kc`: sample `b·Δ(u_K³)` (continuous operator,
    continuous truncated field) at the `M^D` grid points and transform -/
theorem cahnHilliard_fine_grid (c : Cfg ℂ) (hD : 0 < c.D) (hq : c.fq ≠ 0)
    (hK : 4 * Kc c < (c.N : ℤ)) (hN : 0 < c.N) (s : ℝ) (hs : c.s = (s : ℂ)) (hs0 : s ≠ 0) (b : ℂ) (x : Array ℂ)
    (hx : IsRealND c.D c.N x) (M : ℕ) (hM : 4 * Kc c < (M : ℤ)) (h : ℕ) (hh : h < numModes c.D c.N)
    (hm : mask c h = 1) :
    at2 (cahnHilliard c b #[rfftnM c.D c.N x]) 0 h
      = ((c.N ^ c.D : ℕ) : ℂ) / ((M ^ c.D : ℕ) : ℂ) *
          dftV c.D M (tab (M ^ c.D) fun j => opCH b (PKfield c s x) (gridPt s c.D M j))
            (kvec c.D c.N h) := by
  have hk : ∀ d, |kvec c.D c.N h d| ≤ Kc c := (mask_nd_eq_one_iff c hq h).mp hm
  have hM0 : 0 < M := by
    have := abs_nonneg (kvec c.D c.N h ⟨0, hD⟩)
    have := hk ⟨0, hD⟩
    omega
  have hne : ((M ^ c.D : ℕ) : ℂ) ≠ 0 := by exact_mod_cast (pow_pos hM0 c.D).ne'
  obtain ⟨hA, hmod⟩ := cahnHilliard_continuous_nd c hD hq hK hN s hs b x hx
  rw [(hmod h hh).1 hm, hasCoeffs_fine_grid hs0 hA M hM0 (Kc c) (by omega) _ hk,
    truncV_of_le _ _ _ (box_le_triple (Kc c) _ hk)]
  field_simp

/-- **Gray–Scott reaction `(f(1 − u) − u v², −(f + k) v + u v²)`, every `D ≥ 1`, `4·Kc < N` (the 1/2 rule)** — upgraded
    statement.  With `u_K = PKfield c s xa`, `v_K = PKfield c s xb` the continuous band-truncated species:
    (1) `opGS0 f u_K v_K`, `opGS1 f k u_K v_K` are trigonometric polynomials of band `3Kc` with coefficient families
        `gs0Coef …`, `gs1Coef …`;
    (2) on every retained stored mode channel `0` / `1` of the model output is `N^D ×` the respective coefficient at
        `k(h)`;  (3) both channels are `0` on dropped modes. -/
theorem grayScott_continuous_nd (c : Cfg ℂ) (hD : 0 < c.D) (hq : c.fq ≠ 0)
    (hK : 4 * Kc c < (c.N : ℤ)) (hN : 0 < c.N) (s : ℝ) (feed kill : ℂ) (xa xb : Array ℂ)
    (hxa : IsRealND c.D c.N xa) (hxb : IsRealND c.D c.N xb) :
    (0 ≤ Kc c →
      HasCoeffs s (Kc c + Kc c + Kc c) (opGS0 feed (PKfield c s xa) (PKfield c s xb))
        (gs0Coef (Kc c) feed (ucoef c xa) (ucoef c xb)) ∧
      HasCoeffs s (Kc c + Kc c + Kc c) (opGS1 feed kill (PKfield c s xa) (PKfield c s xb))
        (gs1Coef (Kc c) feed kill (ucoef c xa) (ucoef c xb))) ∧
    ∀ h, h < numModes c.D c.N →
      (mask c h = 1 →
        at2 (reaction c 2 (grayScottReact feed kill) #[rfftnM c.D c.N xa, rfftnM c.D c.N xb]) 0 h
          = ((c.N ^ c.D : ℕ) : ℂ) * gs0Coef (Kc c) feed (ucoef c xa) (ucoef c xb) (kvec c.D c.N h) ∧
        at2 (reaction c 2 (grayScottReact feed kill) #[rfftnM c.D c.N xa, rfftnM c.D c.N xb]) 1 h
          = ((c.N ^ c.D : ℕ) : ℂ) * gs1Coef (Kc c) feed kill (ucoef c xa) (ucoef c xb) (kvec c.D c.N h)) ∧
      (mask c h = 0 →
        at2 (reaction c 2 (grayScottReact feed kill) #[rfftnM c.D c.N xa, rfftnM c.D c.N xb]) 0 h = 0 ∧
        at2 (reaction c 2 (grayScottReact feed kill) #[rfftnM c.D c.N xa, rfftnM c.D c.N xb]) 1 h = 0) := by
  have hne : ((c.N ^ c.D : ℕ) : ℂ) ≠ 0 := by exact_mod_cast (pow_pos hN c.D).ne'
  refine ⟨fun hK0 => ⟨opGS0_hasCoeffs hK0 feed (PKfield_hasCoeffs c s xa) (PKfield_hasCoeffs c s xb),
    opGS1_hasCoeffs hK0 feed kill (PKfield_hasCoeffs c s xa) (PKfield_hasCoeffs c s xb)⟩, fun h hh => ?_⟩
  have := grayScott_alias_free_nd c hD hq hK hN feed kill xa xb hxa hxb h hh
  refine ⟨fun hm => ?_, this.2⟩
  have hk : ∀ d, |kvec c.D c.N h d| ≤ Kc c := (mask_nd_eq_one_iff c hq h).mp hm
  obtain ⟨e0, e1⟩ := this.1 hm
  rw [e0, e1]
  unfold gs0Coef gs1Coef
  rw [truncV_of_le _ _ _ hk, truncV_of_le _ _ _ hk, conv3_ucoef_mixed, rfftn_eq_dftV c.D c.N hN xa h hh,
    rfftn_eq_dftV c.D c.N hN xb h hh]
  simp only [kvec_eq_zero_iff c.D c.N h hD hN hh]
  unfold ucoef
  constructor
  · split_ifs
    · field_simp
    · field_simp
      ring
  · field_simp

/-- the Gray–Scott coefficients computed on an ARBITRARY finer grid `M > 4·Kc` -/
theorem grayScott_fine_grid (c : Cfg ℂ) (hD : 0 < c.D) (hq : c.fq ≠ 0)
    (hK : 4 * Kc c < (c.N : ℤ)) (hN : 0 < c.N) (s : ℝ) (hs0 : s ≠ 0) (feed kill : ℂ) (xa xb : Array ℂ)
    (hxa : IsRealND c.D c.N xa) (hxb : IsRealND c.D c.N xb) (M : ℕ) (hM : 4 * Kc c < (M : ℤ)) (h : ℕ)
    (hh : h < numModes c.D c.N) (hm : mask c h = 1) :
    at2 (reaction c 2 (grayScottReact feed kill) #[rfftnM c.D c.N xa, rfftnM c.D c.N xb]) 0 h
      = ((c.N ^ c.D : ℕ) : ℂ) / ((M ^ c.D : ℕ) : ℂ) *
          dftV c.D M (tab (M ^ c.D) fun j =>
            opGS0 feed (PKfield c s xa) (PKfield c s xb) (gridPt s c.D M j)) (kvec c.D c.N h) ∧
    at2 (reaction c 2 (grayScottReact feed kill) #[rfftnM c.D c.N xa, rfftnM c.D c.N xb]) 1 h
      = ((c.N ^ c.D : ℕ) : ℂ) / ((M ^ c.D : ℕ) : ℂ) *
          dftV c.D M (tab (M ^ c.D) fun j =>
            opGS1 feed kill (PKfield c s xa) (PKfield c s xb) (gridPt s c.D M j)) (kvec c.D c.N h) := by
  have hk : ∀ d, |kvec c.D c.N h d| ≤ Kc c := (mask_nd_eq_one_iff c hq h).mp hm
  have hK0 : 0 ≤ Kc c := (abs_nonneg (kvec c.D c.N h ⟨0, hD⟩)).trans (hk ⟨0, hD⟩)
  have hM0 : 0 < M := by omega
  have hne : ((M ^ c.D : ℕ) : ℂ) ≠ 0 := by exact_mod_cast (pow_pos hM0 c.D).ne'
  obtain ⟨hA, hmod⟩ := grayScott_continuous_nd c hD hq hK hN s feed kill xa xb hxa hxb
  obtain ⟨hA0, hA1⟩ := hA hK0
  obtain ⟨e0, e1⟩ := (hmod h hh).1 hm
  rw [e0, e1, hasCoeffs_fine_grid hs0 hA0 M hM0 (Kc c) (by omega) _ hk,
    hasCoeffs_fine_grid hs0 hA1 M hM0 (Kc c) (by omega) _ hk,
    truncV_of_le _ _ _ (box_le_triple (Kc c) _ hk), truncV_of_le _ _ _ (box_le_triple (Kc c) _ hk)]
  constructor <;> field_simp

end Exponax.AliasMulti
