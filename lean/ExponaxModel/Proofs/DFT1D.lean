import ExponaxModel.Proofs.DFTBasic
/-
The one-dimensional case `D = 1` of `rfftnM` / `irfftnM`, for every `N ≥ 1` (odd and even):
layout, orthogonality, single mode, round trip, Parseval (half layout), shift theorem.
-/
namespace Exponax.DFT
open Exponax Exponax.Layout Exponax.Transform Finset

/-! ### 3a. layout for `D = 1` -/

theorem wavenumberShape_one (N : ℕ) : wavenumberShape 1 N = [N / 2 + 1] := by
  simp [wavenumberShape]

theorem numModes_one (N : ℕ) : numModes 1 N = N / 2 + 1 := by
  simp [numModes, wavenumberShape, shapeSize]

/-- holds for every `h`, in particular for the stored `h ≤ N/2` -/
theorem wnFlat_one (N h : ℕ) : wnFlat 1 N h = [(h : ℤ)] := by
  simp [wnFlat, wnVec, wavenumberShape, unflatten, shapeSize, wn, rfftfreq]

theorem digit_one (N j : ℕ) : digit 1 N j 0 = j % N := by
  simp [digit]

theorem digit_one_of_lt (N j : ℕ) (hj : j < N) : digit 1 N j 0 = j := by
  rw [digit_one, Nat.mod_eq_of_lt hj]

theorem phaseK_one (N : ℕ) (k : ℤ) (j : ℕ) : phaseK 1 N [k] j = k * ((j % N : ℕ) : ℤ) := by
  simp [phaseK, digit]

theorem phaseK_one_of_lt (N : ℕ) (k : ℤ) (j : ℕ) (hj : j < N) : phaseK 1 N [k] j = k * (j : ℤ) := by
  rw [phaseK_one, Nat.mod_eq_of_lt hj]

theorem phase_one_of_lt (N h j : ℕ) (hj : j < N) : phase 1 N h j = (h : ℤ) * (j : ℤ) := by
  rw [phase, wnFlat_one, phaseK_one_of_lt N _ j hj]

theorem herm_weight_one (N h : ℕ) :
    herm_weight 1 N h = if h = 0 ∨ (N % 2 = 0 ∧ h = N / 2) then 1 else 2 := by
  simp [herm_weight, wavenumberShape, unflatten, shapeSize]

/-! ### 3b. orthogonality -/

theorem zeta_zpow_eq_one_iff (N : ℕ) (hN : 0 < N) (m : ℤ) : zeta N ^ m = 1 ↔ (N : ℤ) ∣ m :=
  (zeta_isPrimitiveRoot N hN).zpow_eq_one_iff_dvd m

/-- `Σ_{j<N} ζ^{m j} = N` if `N ∣ m`, else `0` -/
theorem zeta_sum_zpow (N : ℕ) (hN : 0 < N) (m : ℤ) :
    ∑ j ∈ range N, zeta N ^ (m * (j : ℤ)) = if (N : ℤ) ∣ m then (N : ℂ) else 0 := by
  have hpow : ∀ j : ℕ, zeta N ^ (m * (j : ℤ)) = (zeta N ^ m) ^ j := by
    intro j; rw [zpow_mul, zpow_natCast]
  simp only [hpow]
  split_ifs with hd
  · rw [(zeta_zpow_eq_one_iff N hN m).mpr hd]; simp
  · have h1 : zeta N ^ m ≠ 1 := fun h => hd ((zeta_zpow_eq_one_iff N hN m).mp h)
    rw [geom_sum_eq h1]
    have : (zeta N ^ m) ^ N = 1 := by
      rw [← zpow_natCast, ← zpow_mul, mul_comm, zpow_mul, zpow_natCast, zeta_pow_self, one_zpow]
    simp [this]

/-- the same statement for the model's `twiddle` -/
theorem twiddle_sum (N : ℕ) (hN : 0 < N) (m : ℤ) :
    ∑ j ∈ range N, (twiddle N (m * (j : ℤ)) : ℂ) = if (N : ℤ) ∣ m then (N : ℂ) else 0 := by
  simp only [twiddle_eq_zpow]
  exact zeta_sum_zpow N hN m

/-- orthogonality on the grid: for `0 ≤ a, b < N`, `Σ_h ζ^{(a-b) h} = N·[a = b]` -/
theorem zeta_sum_sub (N : ℕ) (hN : 0 < N) (a b : ℕ) (ha : a < N) (hb : b < N) :
    ∑ h ∈ range N, zeta N ^ (((a : ℤ) - (b : ℤ)) * (h : ℤ)) = if a = b then (N : ℂ) else 0 := by
  rw [zeta_sum_zpow N hN]
  have : (N : ℤ) ∣ (a : ℤ) - (b : ℤ) ↔ a = b := by
    constructor
    · intro hd
      have := Int.eq_zero_of_abs_lt_dvd hd (by rw [abs_lt]; constructor <;> omega)
      omega
    · rintro rfl; simp
  simp only [this]

/-! ### the 1-D transforms as sums of powers of `ζ` -/

/-- the (periodically extended) DFT of `u`: `F_h = Σ_{j<N} u_j ζ^{h j}`, `h : ℤ` -/
noncomputable def dft (N : ℕ) (u : Array ℂ) (h : ℤ) : ℂ :=
  ∑ j ∈ range N, u.getD j 0 * zeta N ^ (h * (j : ℤ))

theorem rfft1_getD (N : ℕ) (hN : 0 < N) (u : Array ℂ) (h : ℕ) (hh : h ≤ N / 2) :
    (rfftnM 1 N u).getD h 0 = dft N u h := by
  rw [rfftnM_getD 1 N hN u h (by rw [numModes_one]; omega), pow_one, dft]
  apply Finset.sum_congr rfl
  intro j hj
  rw [wnFlat_one, phaseK_one_of_lt N _ j (Finset.mem_range.mp hj), twiddle_eq_zpow]

theorem irfft1_getD (N : ℕ) (hN : 0 < N) (c : Array ℂ) (j : ℕ) (hj : j < N) :
    (irfftnM 1 N c).getD j 0
      = (∑ h ∈ range (N / 2 + 1), (herm_weight 1 N h : ℂ) *
          (((c.getD h 0 * zeta N ^ (-((h : ℤ) * (j : ℤ)))).re : ℝ) : ℂ)) / (N : ℂ) := by
  rw [irfftnM_getD 1 N hN c j (by simpa using hj), numModes_one, pow_one]
  congr 1
  apply Finset.sum_congr rfl
  intro h _
  rw [wnFlat_one, phaseK_one_of_lt N _ j hj, twiddle_eq_zpow]

theorem dft_add_period (N : ℕ) (u : Array ℂ) (h k : ℤ) : dft N u (h + (N : ℤ) * k) = dft N u h := by
  unfold dft
  apply Finset.sum_congr rfl
  intro j _
  congr 1
  rw [show (h + (N : ℤ) * k) * (j : ℤ) = h * j + (N : ℤ) * (k * j) by ring, zeta_zpow_add_mul]

/-- for real input the spectrum is Hermitian -/
theorem conj_dft (N : ℕ) (u : Array ℂ) (hu : ∀ j < N, (u.getD j 0).im = 0) (h : ℤ) :
    (starRingEnd ℂ) (dft N u h) = dft N u (-h) := by
  unfold dft
  rw [map_sum]
  apply Finset.sum_congr rfl
  intro j hj
  rw [map_mul, conj_zeta_zpow, Complex.conj_eq_iff_im.mpr (hu j (Finset.mem_range.mp hj)), neg_mul]

/-! ### folding a full sum with reflection symmetry onto the stored half -/

/-- if `f (N - h) = f h` for `0 < h < N` then `Σ_{h ≤ N/2} w_h f_h = Σ_{h < N} f_h` -/
theorem half_sum {R : Type} [Semiring R] (N : ℕ) (hN : 0 < N) (f : ℕ → R)
    (hf : ∀ h, 0 < h → h < N → f (N - h) = f h) :
    ∑ h ∈ range (N / 2 + 1), (herm_weight 1 N h : R) * f h = ∑ h ∈ range N, f h := by
  simp only [herm_weight_one]
  rcases Nat.even_or_odd' N with ⟨n, rfl | rfl⟩
  · -- N = 2n, n ≥ 1
    have hn : 0 < n := by omega
    have hdiv : 2 * n / 2 = n := by omega
    rw [hdiv]
    -- right side
    have hR : ∑ h ∈ range (2 * n), f h
        = f 0 + ∑ h ∈ Ico 1 n, f h + f n + ∑ h ∈ Ico 1 n, f h := by
      rw [Finset.range_eq_Ico, Finset.sum_eq_sum_Ico_succ_bot (by omega),
        ← Finset.sum_Ico_consecutive f (show 0 + 1 ≤ n by omega) (show n ≤ 2 * n by omega),
        Finset.sum_eq_sum_Ico_succ_bot (show n < 2 * n by omega)]
      have hrefl := Finset.sum_Ico_reflect f 1 (show n ≤ 2 * n + 1 by omega)
      rw [show 2 * n + 1 - n = n + 1 by omega, show 2 * n + 1 - 1 = 2 * n by omega] at hrefl
      rw [← hrefl]
      have : ∑ j ∈ Ico 1 n, f (2 * n - j) = ∑ j ∈ Ico 1 n, f j := by
        apply Finset.sum_congr rfl
        intro j hj
        rw [Finset.mem_Ico] at hj
        exact hf j (by omega) (by omega)
      rw [this]
      simp only [zero_add, add_assoc]
    have hL : ∑ h ∈ range (n + 1), ((if h = 0 ∨ (2 * n % 2 = 0 ∧ h = n) then 1 else 2 : ℕ) : R) * f h
        = f 0 + ∑ h ∈ Ico 1 n, (2 : R) * f h + f n := by
      rw [Finset.sum_range_succ, Finset.range_eq_Ico, Finset.sum_eq_sum_Ico_succ_bot (by omega)]
      congr 1
      · congr 1
        · simp
        · apply Finset.sum_congr rfl
          intro j hj
          rw [Finset.mem_Ico] at hj
          rw [if_neg (by omega)]
          norm_num
      · simp
    rw [hL, hR, ← Finset.mul_sum, two_mul]
    simp only [add_assoc]
    congr 1
    rw [add_comm (f n)]
  · -- N = 2n+1
    have hdiv : (2 * n + 1) / 2 = n := by omega
    rw [hdiv]
    have hR : ∑ h ∈ range (2 * n + 1), f h
        = f 0 + ∑ h ∈ Ico 1 (n + 1), f h + ∑ h ∈ Ico 1 (n + 1), f h := by
      rw [Finset.range_eq_Ico, Finset.sum_eq_sum_Ico_succ_bot (by omega),
        ← Finset.sum_Ico_consecutive f (show 0 + 1 ≤ n + 1 by omega) (show n + 1 ≤ 2 * n + 1 by omega)]
      have hrefl := Finset.sum_Ico_reflect f 1 (show n + 1 ≤ 2 * n + 1 + 1 by omega)
      rw [show 2 * n + 1 + 1 - (n + 1) = n + 1 by omega, show 2 * n + 1 + 1 - 1 = 2 * n + 1 by omega] at hrefl
      rw [← hrefl]
      have : ∑ j ∈ Ico 1 (n + 1), f (2 * n + 1 - j) = ∑ j ∈ Ico 1 (n + 1), f j := by
        apply Finset.sum_congr rfl
        intro j hj
        rw [Finset.mem_Ico] at hj
        exact hf j (by omega) (by omega)
      rw [this]
      simp only [zero_add, add_assoc]
    have hL : ∑ h ∈ range (n + 1), ((if h = 0 ∨ ((2 * n + 1) % 2 = 0 ∧ h = n) then 1 else 2 : ℕ) : R) * f h
        = f 0 + ∑ h ∈ Ico 1 (n + 1), (2 : R) * f h := by
      rw [Finset.range_eq_Ico, Finset.sum_eq_sum_Ico_succ_bot (by omega)]
      congr 1
      · simp
      · apply Finset.sum_congr rfl
        intro j hj
        rw [Finset.mem_Ico] at hj
        rw [if_neg (by omega)]
        norm_num
    rw [hL, hR, ← Finset.mul_sum, two_mul]
    simp only [add_assoc]

end Exponax.DFT
