import Mathlib.Tactic
import Mathlib.Data.Int.ModEq
import Mathlib.Analysis.Real.Sqrt
import Mathlib.Algebra.Order.Floor.Ring
import Mathlib.Data.Rat.Floor
import ExponaxModel.Proofs.LayoutLemmas
import ExponaxModel.Generated.SpectralLayout
/-
Facts about the per-entry semantics of the library primitives that
`harness/translate_layout.py` writes into `Generated/SpectralLayout.lean`
(`jnp_round`, `jnp_fftfreq`, `jnp_rfftfreq`, `stack_meshgrid`, `l2norm_le`,
`itertools_product`, `py_range`, `jnp_pad_wrap`, `jnp_linspace`).
-/
set_option linter.unusedVariables false
namespace Exponax
open Exponax.Layout Exponax.Gen.SpectralLayout

/-! ## `jnp_round` -/

theorem rat_floor_eq (q : ℚ) : q.floor = ⌊q⌋ := rfl

/-- `jnp.round` is the identity on integers -/
theorem jnp_round_intCast (z : ℤ) : jnp_round (z : ℚ) = z := by
  unfold jnp_round
  simp [rat_floor_eq]

/-- robustness (the reason for the `jnp.round` in `build_wavenumbers`): every value within `1/2` of
    an integer is rounded to that integer -/
theorem jnp_round_near (q : ℚ) (z : ℤ) (h : |q - z| < 1 / 2) : jnp_round q = z := by
  unfold jnp_round
  rw [abs_lt] at h
  obtain ⟨h1, h2⟩ := h
  by_cases hq : (z : ℚ) ≤ q
  · have hf : q.floor = z := by
      rw [rat_floor_eq, Int.floor_eq_iff]; constructor <;> linarith
    simp only [hf]
    have : q - (z : ℚ) < 1 / 2 := by linarith
    rw [if_pos this]
  · rw [not_le] at hq
    have hf : q.floor = z - 1 := by
      rw [rat_floor_eq, Int.floor_eq_iff]; push_cast; constructor <;> linarith
    simp only [hf]
    have h3 : ¬ (q - ((z - 1 : ℤ) : ℚ) < 1 / 2) := by push_cast; linarith
    have h4 : (1 : ℚ) / 2 < q - ((z - 1 : ℤ) : ℚ) := by push_cast; linarith
    rw [if_neg h3, if_pos h4]; ring

/-! ## `jnp.fft.rfftfreq(N, 1/N)`, `jnp.fft.fftfreq(N, 1/N)` and their rounding -/

theorem toNat_pred (D : ℕ) : Int.toNat ((D : ℤ) - (1 : ℤ)) = D - 1 := by omega

theorem jnp_rfftfreq_get (N i : ℕ) (hN : 0 < N) :
    (jnp_rfftfreq N (((1 : ℕ) : ℚ) / ((N : ℕ) : ℚ))).get i = ((rfftfreq N i : ℤ) : ℚ) := by
  have h : (N : ℚ) ≠ 0 := by exact_mod_cast hN.ne'
  simp only [jnp_rfftfreq, rfftfreq]
  push_cast
  field_simp

theorem jnp_fftfreq_get (N i : ℕ) (hN : 0 < N) :
    (jnp_fftfreq N (((1 : ℕ) : ℚ) / ((N : ℕ) : ℚ))).get i = ((fftfreq N i : ℤ) : ℚ) := by
  have h : (N : ℚ) ≠ 0 := by exact_mod_cast hN.ne'
  have hk : (if i < (N - 1) / 2 + 1 then (i : ℤ)
      else -((N / 2 : ℕ) : ℤ) + ((i : ℤ) - (((N - 1) / 2 + 1 : ℕ) : ℤ))) = fftfreq N i := by
    unfold fftfreq
    split_ifs <;> omega
  simp only [jnp_fftfreq, hk]
  push_cast
  field_simp

@[simp] theorem jnp_rfftfreq_len (N : ℕ) (d : ℚ) : (jnp_rfftfreq N d).len = N / 2 + 1 := rfl
@[simp] theorem jnp_fftfreq_len (N : ℕ) (d : ℚ) : (jnp_fftfreq N d).len = N := rfl

/-- the right-most wavenumbers of `build_wavenumbers` / `_build_scaling_array` -/
theorem rightmost_vec (N : ℕ) (hN : 0 < N) :
    Vec.mk (jnp_rfftfreq N (((1 : ℕ) : ℚ) / ((N : ℕ) : ℚ))).len
        (fun i_ => jnp_round ((jnp_rfftfreq N (((1 : ℕ) : ℚ) / ((N : ℕ) : ℚ))).get i_)) =
      Vec.mk (N / 2 + 1) (fun i => rfftfreq N i) := by
  congr 1
  funext i
  rw [jnp_rfftfreq_get N i hN, jnp_round_intCast]

/-- the other wavenumbers of `build_wavenumbers` / `_build_scaling_array` -/
theorem other_vec (N : ℕ) (hN : 0 < N) :
    Vec.mk (jnp_fftfreq N (((1 : ℕ) : ℚ) / ((N : ℕ) : ℚ))).len
        (fun i_ => jnp_round ((jnp_fftfreq N (((1 : ℕ) : ℚ) / ((N : ℕ) : ℚ))).get i_)) =
      Vec.mk N (fun i => fftfreq N i) := by
  congr 1
  funext i
  rw [jnp_fftfreq_get N i hN, jnp_round_intCast]

/-! ## `jnp.stack(jnp.meshgrid(...))` -/

theorem str_ij_ne_xy : (("ij" : String) == "xy") = false := by decide

@[simp] theorem meshgrid_axis_ij (n a : ℕ) : meshgrid_axis n "ij" a = a := by
  simp [meshgrid_axis, str_ij_ne_xy]

theorem meshgrid_axis_xy (n a : ℕ) (hn : 2 ≤ n) :
    meshgrid_axis n "xy" a = if a = 0 then 1 else if a = 1 then 0 else a := by
  simp [meshgrid_axis, hn]

theorem meshgrid_axis_xy_one (a : ℕ) : meshgrid_axis 1 "xy" a = a := by
  simp [meshgrid_axis]

theorem stack_meshgrid_ij {T : Type} (xs : List (Vec T)) (idx : List ℕ) :
    stack_meshgrid xs "ij" idx = xs.mapIdx (fun d x => x.get (idx.getD d 0)) := by
  simp [stack_meshgrid]

@[simp] theorem stack_meshgrid_length {T : Type} (xs : List (Vec T)) (ix : String) (idx : List ℕ) :
    (stack_meshgrid xs ix idx).length = xs.length := by
  simp [stack_meshgrid]

theorem meshgrid_shape_ij {T : Type} (xs : List (Vec T)) :
    meshgrid_shape xs "ij" = xs.map Vec.len := by
  unfold meshgrid_shape
  apply List.ext_getElem
  · simp
  · intro i h1 h2
    simp at h2
    simp [h2]

/-- the list `[a] * n + [b]` mapped with its positions -/
theorem mapIdx_replicate_append {α β : Type} (n : ℕ) (a b : α) (f : ℕ → α → β) :
    (List.replicate n a ++ [b]).mapIdx f =
      (List.range (n + 1)).map (fun d => if d = n then f d b else f d a) := by
  apply List.ext_getElem
  · simp
  · intro i h1 h2
    simp at h1
    by_cases hi : i = n
    · subst hi; simp
    · have : i < n := by omega
      simp [this, hi]

theorem map_replicate_append {α β : Type} (n : ℕ) (a b : α) (f : α → β) :
    (List.replicate n a ++ [b]).map f = List.replicate n (f a) ++ [f b] := by
  simp

/-! ## masks: the `for` loop of `low_pass_filter_mask`, `l2norm_le` -/

theorem foldl_and_eq_all {α : Type} (p : α → Bool) (l : List α) (b : Bool) :
    l.foldl (fun m x => m && p x) b = (b && l.all p) := by
  induction l generalizing b with
  | nil => simp
  | cons a l ih => simp [ih, Bool.and_assoc]

/-- the per-axis test `|k| <= p/q` in exact rational arithmetic is the integer test of the model -/
theorem decide_abs_le_div (k p q : ℤ) (hq : 0 < q) :
    decide (((((Int.natAbs k : ℕ) : ℤ) : ℤ) : ℚ) ≤ (p : ℚ) / (q : ℚ)) = absLe k p q := by
  unfold absLe
  have hq' : (0 : ℚ) < (q : ℚ) := by exact_mod_cast hq
  rw [decide_eq_decide, le_div_iff₀ hq']
  exact_mod_cast Iff.rfl

theorem foldl_add_cast (l : List ℤ) : ((l.foldl (· + ·) 0 : ℤ) : ℚ) = ((l.sum : ℤ) : ℚ) := by
  rw [foldl_add_eq_sum]

/-- `jnp.linalg.norm(k, axis=0) <= c` for an integer cut-off is the model's `lowPassSphere` -/
theorem l2norm_le_intCast (ks : List ℤ) (c : ℤ) : l2norm_le ks (c : ℚ) = lowPassSphere ks c := by
  unfold l2norm_le lowPassSphere
  congr 1
  · rw [decide_eq_decide]; exact_mod_cast Iff.rfl
  · rw [decide_eq_decide]; exact_mod_cast Iff.rfl

/-- `l2norm_le` decides `sqrt(Σ kᵢ²) ≤ c` over the reals (this justifies the prelude definition the
    translator uses for `jnp.linalg.norm(·, axis=0) <= cutoff`) -/
theorem l2norm_le_iff_sqrt (ks : List ℤ) (c : ℚ) :
    l2norm_le ks c = true ↔ Real.sqrt ((normSq ks : ℤ) : ℝ) ≤ (c : ℝ) := by
  unfold l2norm_le
  have hs : (ks.map (fun k => k * k)).foldl (· + ·) 0 = normSq ks := rfl
  rw [hs, Bool.and_eq_true, decide_eq_true_eq, decide_eq_true_eq]
  have hn : (0 : ℝ) ≤ ((normSq ks : ℤ) : ℝ) := by exact_mod_cast normSq_nonneg ks
  constructor
  · rintro ⟨h0, h1⟩
    have h0' : (0 : ℝ) ≤ (c : ℝ) := by exact_mod_cast h0
    rw [Real.sqrt_le_left h0']
    have : (((normSq ks : ℤ) : ℚ) : ℝ) ≤ ((c * c : ℚ) : ℝ) := by exact_mod_cast h1
    push_cast at this
    nlinarith
  · intro h
    have h0' : (0 : ℝ) ≤ (c : ℝ) := le_trans (Real.sqrt_nonneg _) h
    refine ⟨by exact_mod_cast h0', ?_⟩
    rw [Real.sqrt_le_left h0'] at h
    have : (((normSq ks : ℤ) : ℚ) : ℝ) ≤ ((c * c : ℚ) : ℝ) := by push_cast; nlinarith
    exact_mod_cast this

/-! ## `itertools.product`, `range` -/

theorem itertools_product_append_single {T : Type} (xs : List (List T)) (y : List T) :
    itertools_product (xs ++ [y]) =
      (itertools_product xs).flatMap (fun p => y.map (fun a => p ++ [a])) := by
  induction xs with
  | nil =>
    have h : ∀ y : List T, (List.map (fun a => [[a]]) y).flatten = List.map (fun a => [a]) y := by
      intro y
      induction y with
      | nil => rfl
      | cons b y ih => simp [ih]
    simpa [itertools_product, List.flatMap_def] using h y
  | cons x xs ih =>
    simp only [List.cons_append, itertools_product, ih, List.flatMap_assoc, List.map_flatMap,
      List.flatMap_map, List.map_map]
    rfl

/-- the elements of `itertools.product(*xs)` are exactly the tuples with `p[i] ∈ xs[i]` -/
theorem mem_itertools_product {T : Type} (xs : List (List T)) (p : List T) :
    p ∈ itertools_product xs ↔ List.Forall₂ (fun a x => a ∈ x) p xs := by
  induction xs generalizing p with
  | nil => simp [itertools_product]
  | cons x xs ih =>
    simp only [itertools_product, List.mem_flatMap, List.mem_map]
    constructor
    · rintro ⟨a, ha, q, hq, rfl⟩
      exact List.Forall₂.cons ha ((ih q).1 hq)
    · intro h
      cases h with
      | cons ha hq => exact ⟨_, ha, _, (ih _).2 hq, rfl⟩

theorem itertools_product_length {T : Type} (xs : List (List T)) :
    (itertools_product xs).length = (xs.map List.length).prod := by
  induction xs with
  | nil => simp [itertools_product]
  | cons x xs ih =>
    simp only [itertools_product, List.length_flatMap, List.length_map, ih, List.map_cons, List.prod_cons]
    induction x with
    | nil => simp
    | cons b x ihx => simp [Nat.add_mul]; ring

/-- `itertools.product([l, r], …, [l, r])` is the list the model's `modeSlices` enumerates -/
theorem itertools_product_replicate (l r : Option ℤ × Option ℤ) (n : ℕ) :
    itertools_product (List.replicate n [l, r]) = modeSlices.prod l r n := by
  induction n with
  | zero => rfl
  | succ n ih =>
    rw [List.replicate_succ', itertools_product_append_single, ih]
    rfl

theorem itertools_product_cons_singleton {T : Type} (a : T) (xs : List (List T)) :
    itertools_product ([a] :: xs) = (itertools_product xs).map (fun p => a :: p) := by
  simp [itertools_product]

theorem py_range_zero (n : ℤ) : py_range 0 n = (List.range n.toNat).map (fun (i : ℕ) => (i : ℤ)) := by
  simp [py_range]

theorem map_const_py_range {α : Type} (x : α) (D : ℕ) :
    List.map (fun _ => x) (py_range (0 : ℤ) ((D : ℤ) - (1 : ℤ))) = List.replicate (D - 1) x := by
  rw [py_range_zero, toNat_pred, List.map_map]
  apply List.ext_getElem <;> simp

end Exponax
