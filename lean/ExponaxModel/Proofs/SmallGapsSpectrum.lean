import ExponaxModel.Proofs.ReadOffSpectrum
/-
SmallGaps, part G4 (C17 "average = sum / count").

For EVERY dimension `D`, every state `u` (real or not) and EVERY bin index `b`:
  `spectrum D N p true u [b] = spectrum D N p false u [b] / binCount D N b`
where `binCount D N b` is the number of stored modes `h < numModes D N` with `inBin (wnFlat D N h) b`
(literally the length of the list `sel` the model divides by).  For `D = 1` the model does not bin and
ignores `average`; the identity then holds because every bin `b ≤ N/2` holds exactly one stored mode
(`binCount_one`).  For `1 ≤ D`, `0 < N` and `b ≤ N/2` the count is positive (`binCount_pos`: the on-axis
mode `(0,…,0,b)`, flat index `b`, lies in bin `b`), so the average never divides by zero.
-/
set_option linter.unusedVariables false
namespace Exponax.SmallGaps
open Exponax Exponax.Layout Exponax.Transform Exponax.DFT Finset

/-- the stored modes the model selects for radial bin `b` -/
def binModes (D N b : ℕ) : List ℕ :=
  (List.range (numModes D N)).filter (fun h => inBin (wnFlat D N h) b)

/-- number of stored modes `h` with `Layout.inBin (wnFlat D N h) b` -/
def binCount (D N b : ℕ) : ℕ := (binModes D N b).length

theorem mem_binModes (D N b h : ℕ) :
    h ∈ binModes D N b ↔ h < numModes D N ∧ inBin (wnFlat D N h) b = true := by
  simp [binModes]

theorem filter_range_single (p : ℕ → Bool) (b : ℕ) : ∀ (M : ℕ), b < M →
    (∀ h, h < M → (p h = true ↔ h = b)) → (List.range M).filter p = [b]
  | 0, hb, _ => absurd hb (Nat.not_lt_zero _)
  | M + 1, hb, hp => by
    rw [List.range_succ, List.filter_append]
    rcases Nat.lt_or_ge b M with hlt | hge
    · rw [filter_range_single p b M hlt (fun h hh => hp h (by omega))]
      have : p M = false := by
        have := hp M (by omega)
        cases hpm : p M
        · rfl
        · exact absurd (this.mp hpm) (by omega)
      simp [this]
    · have hbM : b = M := by omega
      have h1 : (List.range M).filter p = [] := by
        rw [List.filter_eq_nil_iff]
        intro a ha
        have ha' : a < M := List.mem_range.mp ha
        intro hpa
        have := (hp a (by omega)).mp hpa
        omega
      have h2 : p M = true := (hp M (by omega)).mpr hbM.symm
      rw [h1, hbM]
      simp [h2]

/-- 1-D: every bin `b ≤ N/2` holds exactly one stored mode (mode `b`) -/
theorem binCount_one (N b : ℕ) (hb : b < N / 2 + 1) : binCount 1 N b = 1 := by
  have hM : numModes 1 N = N / 2 + 1 := by rw [numModes_eq]; simp
  unfold binCount binModes
  rw [filter_range_single _ b (numModes 1 N) (by rw [hM]; exact hb)]
  · rfl
  · intro h hh
    rw [ReadOff.wnFlat_one N h hh, ReadOff.inBin_singleton]
    exact eq_comm

theorem getD_of_size_le (a : Array ℂ) (i : ℕ) (h : a.size ≤ i) : a.getD i 0 = 0 := by
  simp [Array.getD, Nat.not_lt.mpr h]

/-- **G4.** average binning = sum binning divided by the number of stored modes in the bin —
    every `D`, `N`, power/amplitude, every state, every bin index -/
theorem spectrum_average_eq_sum_div_count (D N : ℕ) (p : Bool) (u : Array ℂ) (b : ℕ) :
    (Spectrum.spectrum D N p true u).getD b 0
      = (Spectrum.spectrum D N p false u).getD b 0 / (binCount D N b : ℂ) := by
  by_cases hD1 : D = 1
  · subst hD1
    have e : Spectrum.spectrum 1 N p true u = Spectrum.spectrum 1 N p false u := by
      unfold Spectrum.spectrum
      simp only [if_true]
    rw [e]
    rcases Nat.lt_or_ge b (N / 2 + 1) with hb | hb
    · rw [binCount_one N b hb, Nat.cast_one, div_one]
    · rw [getD_of_size_le _ b (by rw [ReadOff.spectrum_size_1d]; exact hb), zero_div]
  · unfold Spectrum.spectrum
    simp only [if_neg hD1, if_true, Bool.false_eq_true, if_false]
    rcases Nat.lt_or_ge b (N / 2 + 1) with hb | hb
    · rw [tab_getD _ _ _ _ hb, tab_getD _ _ _ _ hb]
      have hsel : (List.range (numModes D N)).filter
          (fun h => inBin ((tab (numModes D N) (wnFlat D N)).getD h []) b) = binModes D N b := by
        unfold binModes
        apply List.filter_congr
        intro h hh
        rw [tab_getD _ _ _ _ (List.mem_range.mp hh)]
      rw [hsel]
      rfl
    · rw [tab_getD_of_le _ _ _ _ hb, tab_getD_of_le _ _ _ _ hb, zero_div]

/-! ### the count is positive on the bins `0 … N/2` -/

theorem fftfreq_zero (N : ℕ) : fftfreq N 0 = 0 := by simp [fftfreq]

/-- the stored mode with flat index `b ≤ N/2` is the on-axis mode `(0, …, 0, b)` -/
theorem wnFlat_axis (E N b : ℕ) (hN : 0 < N) (hb : b < N / 2 + 1) :
    wnFlat (E + 1) N b = List.replicate E 0 ++ [(b : ℤ)] := by
  have hpow : 0 < N ^ E := Nat.pow_pos hN
  have hlt : b < N ^ E * (N / 2 + 1) := by nlinarith
  apply ExactLinear.list_ext_getD _ _ (E + 1) (ExactLinear.wnFlat_length _ _ _) (by simp)
  intro d hd
  rw [wnFlat_getD' (E + 1) N b d hd, wavenumberShape_succ]
  rcases Nat.lt_or_ge d E with hdE | hdE
  · rw [wn_leading (E + 1) N _ d (by omega), unflatten_rep_getD_lt N (N / 2 + 1) E b d hdE hlt]
    have h0 : b / (N ^ (E - 1 - d) * (N / 2 + 1)) = 0 := by
      apply Nat.div_eq_of_lt
      have : 0 < N ^ (E - 1 - d) := Nat.pow_pos hN
      nlinarith
    rw [h0, Nat.zero_mod, fftfreq_zero]
    simp [List.getD_eq_getElem?_getD, List.getElem?_append_left, hdE]
  · have hdE' : d = E := by omega
    subst hdE'
    rw [wn_last (d + 1) N _ d rfl, unflatten_rep_getD_last N (N / 2 + 1) d b hlt, Nat.mod_eq_of_lt hb]
    simp [List.getD_eq_getElem?_getD]

theorem normSq_axis (E : ℕ) (b : ℤ) : normSq (List.replicate E 0 ++ [b]) = b ^ 2 := by
  induction E with
  | zero => simp [normSq_cons, normSq_nil]
  | succ E ih => rw [List.replicate_succ, List.cons_append, normSq_cons, ih]; ring

theorem inBin_axis (E b : ℕ) : inBin (List.replicate E 0 ++ [(b : ℤ)]) b = true := by
  rw [inBin_iff, normSq_axis]
  have hpos : (0 : ℤ) ≤ b := by positivity
  refine ⟨?_, by nlinarith⟩
  rcases Nat.eq_zero_or_pos b with h0 | h0
  · left; subst h0; simp
  · right
    have : (1 : ℤ) ≤ b := by exact_mod_cast h0
    nlinarith

/-- **G4 (no division by zero).** every bin `b ≤ N/2` holds at least one stored mode, in every
    dimension `D ≥ 1` (`N ≥ 1`): the on-axis mode `(0,…,0,b)` (generalises `C17_axis_mode_in_bin`) -/
theorem binCount_pos (D N b : ℕ) (hD : 1 ≤ D) (hN : 0 < N) (hb : b ≤ N / 2) : 0 < binCount D N b := by
  obtain ⟨E, rfl⟩ : ∃ E, D = E + 1 := ⟨D - 1, by omega⟩
  have hb' : b < N / 2 + 1 := by omega
  apply List.length_pos_of_mem (a := b)
  rw [mem_binModes, wnFlat_axis E N b hN hb', numModes_succ]
  refine ⟨?_, inBin_axis E b⟩
  have : 0 < N ^ E := Nat.pow_pos hN
  nlinarith

/-- the two facts together, in the form asked for -/
theorem spectrum_average (D N : ℕ) (hD : 1 ≤ D) (hN : 0 < N) (p : Bool) (u : Array ℂ) (b : ℕ) :
    (Spectrum.spectrum D N p true u).getD b 0
        = (Spectrum.spectrum D N p false u).getD b 0 / (binCount D N b : ℂ) ∧
      (b ≤ N / 2 → 0 < binCount D N b) :=
  ⟨spectrum_average_eq_sum_div_count D N p u b, binCount_pos D N b hD hN⟩

/-! non-vacuity / sanity: in 2-D on 4 points bin 1 holds the four modes (0,1), (1,0), (1,1), (−1,0), (−1,1)
minus those at distance ≥ 1.5: the count differs from 1, so "average" and "sum" really differ -/
example : binCount 2 4 1 = 5 := by decide
example : binCount 1 8 3 = 1 := binCount_one 8 3 (by norm_num)
example : (1 : ℕ) ≤ 2 ∧ 0 < 4 ∧ 1 ≤ 4 / 2 := by norm_num

end Exponax.SmallGaps
