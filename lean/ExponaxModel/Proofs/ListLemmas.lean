import ExponaxModel.Proofs.Instances
namespace Exponax

/-- `enumerate` comprehensions as rendered by the translator are `List.mapIdx` -/
theorem zipIdx_map_eq_mapIdx {K : Type} (f : ℕ → K → K) (l : List K) :
    List.map (fun (p : ℕ × K) => f p.1 p.2) (List.zip (List.range l.length) l) = List.mapIdx f l := by
  apply List.ext_getElem
  · simp
  · intro i h1 h2
    simp

end Exponax
