import ExponaxModel.Proofs.ContourTail
import Mathlib.Analysis.SpecialFunctions.Integrals.Basic
import Mathlib.Analysis.Complex.RemovableSingularity
/-
C02 support — T3: the ENTIRE φ-functions `φ₁, φ₂, φ₃`.

`phi?e w` is `Spec.phi? w` away from `0` and the limit value `1/j!` at `0`.  We prove
 (a) agreement with the closed forms `Spec.phi?` off `0`, (b) the values at `0`,
 (c) differentiability on all of `ℂ`, (d) `‖φ_j w‖ ≤ max 1 e^{Re w} / j!`,
via the integral representations `φ_j(w) = ∫₀¹ (1−t)^{j−1}/(j−1)! · e^{w t} dt`.
-/
set_option linter.unusedVariables false
namespace Exponax.ContourTail
open Exponax Exponax.Spec intervalIntegral

/-- entire `φ₁`: `(e^w − 1)/w`, `1` at `0` -/
noncomputable def phi1e (w : ℂ) : ℂ := if w = 0 then 1 else phi1 w
/-- entire `φ₂`: `(e^w − 1 − w)/w²`, `1/2` at `0` -/
noncomputable def phi2e (w : ℂ) : ℂ := if w = 0 then 1 / 2 else phi2 w
/-- entire `φ₃`: `(e^w − 1 − w − w²/2)/w³`, `1/6` at `0` -/
noncomputable def phi3e (w : ℂ) : ℂ := if w = 0 then 1 / 6 else phi3 w

/-! ### (a), (b) -/

theorem phi1e_of_ne (w : ℂ) (hw : w ≠ 0) : phi1e w = phi1 w := if_neg hw
theorem phi2e_of_ne (w : ℂ) (hw : w ≠ 0) : phi2e w = phi2 w := if_neg hw
theorem phi3e_of_ne (w : ℂ) (hw : w ≠ 0) : phi3e w = phi3 w := if_neg hw
@[simp] theorem phi1e_zero : phi1e 0 = 1 := if_pos rfl
@[simp] theorem phi2e_zero : phi2e 0 = 1 / 2 := if_pos rfl
@[simp] theorem phi3e_zero : phi3e 0 = 1 / 6 := if_pos rfl

theorem phi1_closed (w : ℂ) : phi1 w = (Complex.exp w - 1) / w := rfl
theorem phi2_closed (w : ℂ) : phi2 w = (Complex.exp w - 1 - w) / w ^ 2 := by
  simp only [phi2, hasExp_complex, pow_two]
theorem phi3_closed (w : ℂ) : phi3 w = (Complex.exp w - 1 - w - w ^ 2 / 2) / w ^ 3 := by
  simp only [phi3, hasExp_complex, lit_eq]
  push_cast
  ring_nf

/-! ### integral representations -/

theorem hasDerivAt_ofReal (t : ℝ) : HasDerivAt (fun t : ℝ => (t : ℂ)) 1 t := by
  simpa using (hasDerivAt_id t).ofReal_comp

theorem hasDerivAt_exp_mul (w : ℂ) (t : ℝ) :
    HasDerivAt (fun t : ℝ => Complex.exp (w * t)) (Complex.exp (w * t) * w) t := by
  simpa using ((hasDerivAt_ofReal t).const_mul w).cexp

theorem phi1e_eq_integral (w : ℂ) : phi1e w = ∫ t in (0 : ℝ)..1, Complex.exp (w * t) := by
  rcases eq_or_ne w 0 with rfl | hw
  · simp
  · rw [integral_exp_mul_complex hw, phi1e_of_ne w hw, phi1_closed]
    simp

theorem phi2e_eq_integral (w : ℂ) :
    phi2e w = ∫ t in (0 : ℝ)..1, (1 - (t : ℂ)) * Complex.exp (w * t) := by
  rcases eq_or_ne w 0 with rfl | hw
  · have h : ∀ t ∈ Set.uIcc (0 : ℝ) 1,
        HasDerivAt (fun t : ℝ => (t : ℂ) - (t : ℂ) ^ 2 / 2) (1 - (t : ℂ)) t := by
      intro t _
      have h := (hasDerivAt_ofReal t).sub (((hasDerivAt_ofReal t).pow 2).div_const 2)
      refine HasDerivAt.congr_deriv h ?_
      simp
    have hi := integral_eq_sub_of_hasDerivAt h
      ((by fun_prop : Continuous fun t : ℝ => 1 - (t : ℂ)).intervalIntegrable _ _)
    simp only [zero_mul, Complex.exp_zero, mul_one, phi2e_zero]
    rw [hi]
    norm_num
  · have h : ∀ t ∈ Set.uIcc (0 : ℝ) 1,
        HasDerivAt (fun t : ℝ => Complex.exp (w * t) * ((1 - (t : ℂ)) / w + 1 / w ^ 2))
          ((1 - (t : ℂ)) * Complex.exp (w * t)) t := by
      intro t _
      have h4 : HasDerivAt (fun t : ℝ => (1 - (t : ℂ)) / w + 1 / w ^ 2) (-1 / w) t :=
        (((hasDerivAt_ofReal t).const_sub 1).div_const w).add_const _
      have h5 := (hasDerivAt_exp_mul w t).mul h4
      refine HasDerivAt.congr_deriv h5 ?_
      field_simp
      ring
    have hi := integral_eq_sub_of_hasDerivAt h
      ((by fun_prop : Continuous fun t : ℝ => (1 - (t : ℂ)) * Complex.exp (w * t)).intervalIntegrable
        _ _)
    rw [hi, phi2e_of_ne w hw, phi2_closed]
    simp only [Complex.ofReal_one, Complex.ofReal_zero, mul_one, mul_zero, Complex.exp_zero,
      sub_self, sub_zero]
    field_simp
    ring

theorem phi3e_eq_integral (w : ℂ) :
    phi3e w = ∫ t in (0 : ℝ)..1, ((1 - (t : ℂ)) ^ 2 / 2) * Complex.exp (w * t) := by
  rcases eq_or_ne w 0 with rfl | hw
  · have h : ∀ t ∈ Set.uIcc (0 : ℝ) 1,
        HasDerivAt (fun t : ℝ => -(1 - (t : ℂ)) ^ 3 / 6) ((1 - (t : ℂ)) ^ 2 / 2) t := by
      intro t _
      have h := ((((hasDerivAt_ofReal t).const_sub 1).pow 3).neg).div_const 6
      refine HasDerivAt.congr_deriv h ?_
      simp
      ring
    have hi := integral_eq_sub_of_hasDerivAt h
      ((by fun_prop : Continuous fun t : ℝ => (1 - (t : ℂ)) ^ 2 / 2).intervalIntegrable _ _)
    simp only [zero_mul, Complex.exp_zero, mul_one, phi3e_zero]
    rw [hi]
    norm_num
  · have h : ∀ t ∈ Set.uIcc (0 : ℝ) 1,
        HasDerivAt (fun t : ℝ => Complex.exp (w * t) *
            ((1 - (t : ℂ)) ^ 2 / (2 * w) + (1 - (t : ℂ)) / w ^ 2 + 1 / w ^ 3))
          (((1 - (t : ℂ)) ^ 2 / 2) * Complex.exp (w * t)) t := by
      intro t _
      have h1 := (hasDerivAt_ofReal t).const_sub 1
      have h4 : HasDerivAt
          (fun t : ℝ => (1 - (t : ℂ)) ^ 2 / (2 * w) + (1 - (t : ℂ)) / w ^ 2 + 1 / w ^ 3)
          (((2 : ℕ) : ℂ) * (1 - (t : ℂ)) ^ (2 - 1) * (-1) / (2 * w) + (-1) / w ^ 2) t :=
        ((((h1.pow 2).div_const (2 * w)).add (h1.div_const (w ^ 2))).add_const _)
      have h5 := (hasDerivAt_exp_mul w t).mul h4
      refine HasDerivAt.congr_deriv h5 ?_
      push_cast
      field_simp
      ring
    have hi := integral_eq_sub_of_hasDerivAt h
      ((by fun_prop : Continuous
        fun t : ℝ => ((1 - (t : ℂ)) ^ 2 / 2) * Complex.exp (w * t)).intervalIntegrable _ _)
    rw [hi, phi3e_of_ne w hw, phi3_closed]
    simp only [Complex.ofReal_one, Complex.ofReal_zero, mul_one, mul_zero, Complex.exp_zero,
      sub_self, sub_zero]
    field_simp
    ring

/-! ### (c) differentiability on all of `ℂ` -/

theorem continuous_weighted_integral (g : ℝ → ℂ) (hg : Continuous g) :
    Continuous fun w : ℂ => ∫ t in (0 : ℝ)..1, g t * Complex.exp (w * t) := by
  refine continuous_parametric_intervalIntegral_of_continuous' ?_ 0 1
  simp only [Function.uncurry_def]
  fun_prop

theorem differentiable_of_removable (φ g : ℂ → ℂ) (hc : Continuous φ)
    (hg : DifferentiableOn ℂ g {0}ᶜ) (heq : ∀ w, w ≠ 0 → φ w = g w) : Differentiable ℂ φ := by
  have hsub : (Set.univ \ {0} : Set ℂ) ⊆ {0}ᶜ := fun w hw => hw.2
  have hd : DifferentiableOn ℂ φ (Set.univ \ {0}) :=
    (hg.mono hsub).congr (fun w hw => heq w hw.2)
  have h := (Complex.differentiableOn_compl_singleton_and_continuousAt_iff
    (s := Set.univ) (c := (0 : ℂ)) Filter.univ_mem).mp ⟨hd, hc.continuousAt⟩
  exact differentiableOn_univ.mp h

theorem continuous_phi1e : Continuous phi1e := by
  have h : phi1e = fun w => ∫ t in (0 : ℝ)..1, (fun _ => (1 : ℂ)) t * Complex.exp (w * t) := by
    funext w; rw [phi1e_eq_integral]; simp
  rw [h]
  exact continuous_weighted_integral _ (by fun_prop)

theorem continuous_phi2e : Continuous phi2e := by
  have h : phi2e = fun w => ∫ t in (0 : ℝ)..1, (fun t : ℝ => 1 - (t : ℂ)) t * Complex.exp (w * t) :=
    funext phi2e_eq_integral
  rw [h]
  exact continuous_weighted_integral _ (by fun_prop)

theorem continuous_phi3e : Continuous phi3e := by
  have h : phi3e = fun w => ∫ t in (0 : ℝ)..1,
      (fun t : ℝ => (1 - (t : ℂ)) ^ 2 / 2) t * Complex.exp (w * t) :=
    funext phi3e_eq_integral
  rw [h]
  exact continuous_weighted_integral _ (by fun_prop)

/-- **T3(c)** -/
theorem differentiable_phi1e : Differentiable ℂ phi1e := by
  refine differentiable_of_removable phi1e (fun w => (Complex.exp w - 1) / w) continuous_phi1e ?_
    (fun w hw => phi1e_of_ne w hw)
  exact DifferentiableOn.div (by fun_prop) (by fun_prop) (fun w hw => hw)

theorem differentiable_phi2e : Differentiable ℂ phi2e := by
  refine differentiable_of_removable phi2e (fun w => (Complex.exp w - 1 - w) / w ^ 2)
    continuous_phi2e ?_ (fun w hw => by rw [phi2e_of_ne w hw, phi2_closed])
  exact DifferentiableOn.div (by fun_prop) (by fun_prop) (fun w hw => pow_ne_zero 2 hw)

theorem differentiable_phi3e : Differentiable ℂ phi3e := by
  refine differentiable_of_removable phi3e (fun w => (Complex.exp w - 1 - w - w ^ 2 / 2) / w ^ 3)
    continuous_phi3e ?_ (fun w hw => by rw [phi3e_of_ne w hw, phi3_closed])
  exact DifferentiableOn.div (by fun_prop) (by fun_prop) (fun w hw => pow_ne_zero 3 hw)

/-! ### (d) bounds -/

theorem norm_exp_mul_le (w : ℂ) (t : ℝ) (h0 : 0 ≤ t) (h1 : t ≤ 1) :
    ‖Complex.exp (w * t)‖ ≤ max 1 (Real.exp w.re) := by
  rw [Complex.norm_exp]
  have h : (w * t).re = w.re * t := by simp
  rw [h]
  rcases le_total w.re 0 with hw | hw
  · exact le_max_of_le_left (Real.exp_le_one_iff.mpr (mul_nonpos_of_nonpos_of_nonneg hw h0))
  · exact le_max_of_le_right (Real.exp_le_exp.mpr (by nlinarith))

theorem norm_weighted_integral_le (g : ℝ → ℂ) (G : ℝ → ℝ) (I : ℝ) (w : ℂ) (hg : Continuous g)
    (hG : Continuous G) (hgG : ∀ t ∈ Set.Icc (0 : ℝ) 1, ‖g t‖ ≤ G t)
    (hI : ∫ t in (0 : ℝ)..1, G t = I) :
    ‖∫ t in (0 : ℝ)..1, g t * Complex.exp (w * t)‖ ≤ I * max 1 (Real.exp w.re) := by
  refine (norm_integral_le_integral_norm zero_le_one).trans ?_
  rw [← hI, ← integral_mul_const]
  refine integral_mono_on zero_le_one ?_ ?_ ?_
  · exact (by fun_prop : Continuous fun t : ℝ => ‖g t * Complex.exp (w * t)‖).intervalIntegrable _ _
  · exact (by fun_prop : Continuous fun t : ℝ => G t * max 1 (Real.exp w.re)).intervalIntegrable _ _
  · intro t ht
    rw [norm_mul]
    exact mul_le_mul (hgG t ht) (norm_exp_mul_le w t ht.1 ht.2) (norm_nonneg _)
      ((norm_nonneg _).trans (hgG t ht))

theorem real_int_one_sub : ∫ t in (0 : ℝ)..1, (1 - t) = 1 / 2 := by
  have h : ∀ t ∈ Set.uIcc (0 : ℝ) 1, HasDerivAt (fun t : ℝ => t - t ^ 2 / 2) (1 - t) t := by
    intro t _
    have h := (hasDerivAt_id t).sub (((hasDerivAt_id t).pow 2).div_const 2)
    refine HasDerivAt.congr_deriv h ?_
    simp
  rw [integral_eq_sub_of_hasDerivAt h
    ((by fun_prop : Continuous fun t : ℝ => 1 - t).intervalIntegrable _ _)]
  norm_num

theorem real_int_one_sub_sq : ∫ t in (0 : ℝ)..1, (1 - t) ^ 2 / 2 = 1 / 6 := by
  have h : ∀ t ∈ Set.uIcc (0 : ℝ) 1,
      HasDerivAt (fun t : ℝ => -(1 - t) ^ 3 / 6) ((1 - t) ^ 2 / 2) t := by
    intro t _
    have h := ((((hasDerivAt_id t).const_sub 1).pow 3).neg).div_const 6
    refine HasDerivAt.congr_deriv h ?_
    simp
    ring
  rw [integral_eq_sub_of_hasDerivAt h
    ((by fun_prop : Continuous fun t : ℝ => (1 - t) ^ 2 / 2).intervalIntegrable _ _)]
  norm_num

/-- **T3(d)** `‖φ₁ w‖ ≤ max(1, e^{Re w})` -/
theorem norm_phi1e_le (w : ℂ) : ‖phi1e w‖ ≤ max 1 (Real.exp w.re) := by
  have h := norm_weighted_integral_le (fun _ => (1 : ℂ)) (fun _ => (1 : ℝ)) 1 w (by fun_prop)
    (by fun_prop) (fun t _ => by simp) (by simp)
  rw [phi1e_eq_integral]
  simpa using h

/-- **T3(d)** `‖φ₂ w‖ ≤ max(1, e^{Re w})/2` -/
theorem norm_phi2e_le (w : ℂ) : ‖phi2e w‖ ≤ max 1 (Real.exp w.re) / 2 := by
  have h := norm_weighted_integral_le (fun t : ℝ => 1 - (t : ℂ)) (fun t : ℝ => 1 - t) (1 / 2) w
    (by fun_prop) (by fun_prop) (fun t ht => by
      have : (1 - (t : ℂ)) = ((1 - t : ℝ) : ℂ) := by push_cast; ring
      rw [this, Complex.norm_real, Real.norm_eq_abs, abs_of_nonneg (by linarith [ht.2])])
    real_int_one_sub
  rw [phi2e_eq_integral]
  linarith

/-- **T3(d)** `‖φ₃ w‖ ≤ max(1, e^{Re w})/6` -/
theorem norm_phi3e_le (w : ℂ) : ‖phi3e w‖ ≤ max 1 (Real.exp w.re) / 6 := by
  have h := norm_weighted_integral_le (fun t : ℝ => (1 - (t : ℂ)) ^ 2 / 2)
    (fun t : ℝ => (1 - t) ^ 2 / 2) (1 / 6) w
    (by fun_prop) (by fun_prop) (fun t ht => by
      have : (1 - (t : ℂ)) ^ 2 / 2 = (((1 - t) ^ 2 / 2 : ℝ) : ℂ) := by push_cast; ring
      rw [this, Complex.norm_real, Real.norm_eq_abs, abs_of_nonneg (by positivity)])
    real_int_one_sub_sq
  rw [phi3e_eq_integral]
  linarith

/-- `max 1 e^x` is monotone: the bounds above in the form "for `Re w ≤ c`" -/
theorem max_one_exp_mono {x c : ℝ} (h : x ≤ c) : max 1 (Real.exp x) ≤ max 1 (Real.exp c) :=
  max_le_max le_rfl (Real.exp_le_exp.mpr h)

theorem norm_phi1e_le_of_re_le (w : ℂ) (c : ℝ) (h : w.re ≤ c) :
    ‖phi1e w‖ ≤ max 1 (Real.exp c) := (norm_phi1e_le w).trans (max_one_exp_mono h)

theorem norm_phi2e_le_of_re_le (w : ℂ) (c : ℝ) (h : w.re ≤ c) :
    ‖phi2e w‖ ≤ max 1 (Real.exp c) / 2 :=
  (norm_phi2e_le w).trans (div_le_div_of_nonneg_right (max_one_exp_mono h) (by norm_num))

theorem norm_phi3e_le_of_re_le (w : ℂ) (c : ℝ) (h : w.re ≤ c) :
    ‖phi3e w‖ ≤ max 1 (Real.exp c) / 6 :=
  (norm_phi3e_le w).trans (div_le_div_of_nonneg_right (max_one_exp_mono h) (by norm_num))

/-- in the stiff half-plane the entire φ-functions are bounded by `1/j!` -/
theorem norm_phi_le_of_re_nonpos (w : ℂ) (h : w.re ≤ 0) :
    ‖phi1e w‖ ≤ 1 ∧ ‖phi2e w‖ ≤ 1 / 2 ∧ ‖phi3e w‖ ≤ 1 / 6 := by
  have h1 := norm_phi1e_le_of_re_le w 0 h
  have h2 := norm_phi2e_le_of_re_le w 0 h
  have h3 := norm_phi3e_le_of_re_le w 0 h
  simp only [Real.exp_zero, max_self] at h1 h2 h3
  exact ⟨h1, h2, h3⟩

/-! ### non-vacuity -/
example : phi1e 2 = phi1 2 := phi1e_of_ne 2 (by norm_num)
example : ((-3 : ℂ)).re ≤ 0 := by norm_num

end Exponax.ContourTail
