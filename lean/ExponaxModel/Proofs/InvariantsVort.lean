import ExponaxModel.Proofs.Invariants
import ExponaxModel.Proofs.AliasND2Examples
/-
C09 (invariants), part 2 — 2-D Navier–Stokes in vorticity form (`vorticity2d`, no injection): the
dealiased convection term conserves ENSTROPHY and ENERGY exactly.

Model conventions (see `AliasND2Vort`): `ψ̂ = Δ̂⁻¹ ω̂` (guarded inverse, value `1` at `k = 0`),
`u = ∂_1 ψ`, `v = −∂_0 ψ`, `N(ω) = −b·mask·F[u·∂_0 ω + v·∂_1 ω]`, every inverse transform preceded by
the mask.  With `X = dftV x` the lattice spectrum of the real vorticity `x`, `κ = invLapSym c`,
`d_j = dsym c j` (`= i s p_j`), `U = d_1 κ X`, `V = −d_0 κ X`:

  * `vorticity2d_enstrophy_spectral`  Σ_{k ∈ box} X̃(−k)·[(U ⋆ d_0X)(k) + (V ⋆ d_1X)(k)] = 0
                                       (ANY `X`, any band `K`, any dimension/scale — pure algebra),
  * `vorticity2d_energy_spectral`     the same with `κX` in the first slot,
  * `vorticity2d_triad_form`          both left-hand sides as sums over triads `p+q+r=0` in the box,
  * `vorticity2d_inner_grid`          grid inner product of ANY real band-limited test field with the
                                       model's nonlinear term = `−b·N^{-D}·`(that spectral sum),
  * **V1** `vorticity2d_enstrophy_grid`,  **V2** `vorticity2d_energy_grid` (+ literal `D = 2` forms).
-/
set_option linter.unusedVariables false
set_option linter.unusedSimpArgs false
namespace Exponax.Invariants
open Exponax Exponax.Layout Exponax.Transform Exponax.DFT Exponax.Nonlin Exponax.Alias Exponax.AliasND Exponax.Conserve Finset

/-! ### additivity of the derivative symbol -/

theorem comp_add {D : ℕ} (p q : Fin D → ℤ) (d : ℕ) : comp (p + q) d = comp p d + comp q d := by
  unfold comp
  split_ifs <;> simp

theorem dsym_add (c : Cfg ℂ) (d : ℕ) (p q : Fin c.D → ℤ) :
    dsym c d (p + q) = dsym c d p + dsym c d q := by
  unfold dsym
  rw [comp_add]
  push_cast
  ring

/-- on a triad `a + b + c = 0` the symbol at `a` is minus the sum of the other two -/
theorem dsym_triad (c : Cfg ℂ) (d : ℕ) (a b e : Fin c.D → ℤ) (h : a + b + e = 0) :
    dsym c d a = -(dsym c d b + dsym c d e) := by
  have ha : a = -(b + e) := by
    apply eq_neg_of_add_eq_zero_left
    rw [← add_assoc]; exact h
  rw [ha, dsym_neg, dsym_add]

/-! ### V1 / V2, spectral form -/

/-- the interaction weight of the model's vorticity convection on a triad `(p, q, r)`, `p` the index of
    the test field, `q` of the velocity, `r` of the vorticity gradient: `κ(q)·(d_1(q) d_0(r) − d_0(q) d_1(r))`
    `= s²·(q × r)/(−s²|q|²)` -/
noncomputable def vortWeight (c : Cfg ℂ) (q r : Fin c.D → ℤ) : ℂ :=
  usym c q * dsym c 0 r + vsym c q * dsym c 1 r

theorem vortWeight_eq (c : Cfg ℂ) (q r : Fin c.D → ℤ) :
    vortWeight c q r = invLapSym c q * (dsym c 1 q * dsym c 0 r - dsym c 0 q * dsym c 1 r) := by
  unfold vortWeight usym vsym
  ring

/-- **triad form** of the two spectral sums: with a multiplier `lam` on the test slot,
    `Σ_{k ∈ box} (lam X)~(−k)·[(U ⋆ d_0X)(k) + (V ⋆ d_1X)(k)]
       = N^{-D} Σ_{p+q+r=0 in the box} lam(p)·κ(q)(d_1(q)d_0(r) − d_0(q)d_1(r)) · X_p X_q X_r`. -/
theorem vorticity2d_triad_form (c : Cfg ℂ) (K : ℤ) (lam X : (Fin c.D → ℤ) → ℂ) :
    ∑ k ∈ box c.D K, truncV K (fun p => lam p * X p) (-k) *
        (linConv c.D c.N K (fun p => usym c p * X p) (fun p => dsym c 0 p * X p) k
          + linConv c.D c.N K (fun p => vsym c p * X p) (fun p => dsym c 1 p * X p) k)
      = (1 / ((c.N ^ c.D : ℕ) : ℂ)) * triV K X (fun p q r => lam p * vortWeight c q r) := by
  simp only [mul_add, Finset.sum_add_distrib]
  rw [sum_trunc_linConv_eq_triV c.N K lam (usym c) (fun p => dsym c 0 p) X,
    sum_trunc_linConv_eq_triV c.N K lam (vsym c) (fun p => dsym c 1 p) X, ← mul_add, triV_add]
  congr 1
  apply triV_congr
  intro a b e _
  unfold vortWeight
  ring

/-- on a triad the weight is antisymmetric under the exchange of the test index and the gradient index -/
theorem vortWeight_antisymm13 (c : Cfg ℂ) (a b e : Fin c.D → ℤ) (h : a + b + e = 0) :
    vortWeight c b a = -vortWeight c b e := by
  simp only [vortWeight_eq]
  rw [dsym_triad c 0 a b e h, dsym_triad c 1 a b e h]
  ring

/-- with the stream-function multiplier `κ` on the test slot the weight is antisymmetric under the
    exchange of the test index and the velocity index -/
theorem vortWeight_antisymm12 (c : Cfg ℂ) (a b e : Fin c.D → ℤ) (h : a + b + e = 0) :
    invLapSym c b * vortWeight c a e = -(invLapSym c a * vortWeight c b e) := by
  simp only [vortWeight_eq]
  rw [dsym_triad c 0 a b e h, dsym_triad c 1 a b e h]
  ring

/-- **V1, triad form (enstrophy).**  For ANY lattice function `X` and band `K`:
    `Σ_{p+q+r=0, p,q,r ∈ box} κ(q)(d_1(q)d_0(r) − d_0(q)d_1(r)) · X_p X_q X_r = 0`
    (`p × q = q × r = r × p` on a triad, so the kernel changes sign under `p ↔ r`). -/
theorem vorticity2d_enstrophy_triad (c : Cfg ℂ) (K : ℤ) (X : (Fin c.D → ℤ) → ℂ) :
    triV K X (fun _ q r => vortWeight c q r) = 0 :=
  triV_eq_zero_of_antisymm13 K X _ (fun a b e h => vortWeight_antisymm13 c a b e h)

/-- **V2, triad form (energy).**  `Σ_{p+q+r=0 in the box} κ(p)κ(q)(d_1(q)d_0(r) − d_0(q)d_1(r)) · X_p X_q X_r = 0`
    (the kernel changes sign under `p ↔ q`). -/
theorem vorticity2d_energy_triad (c : Cfg ℂ) (K : ℤ) (X : (Fin c.D → ℤ) → ℂ) :
    triV K X (fun p q r => invLapSym c p * vortWeight c q r) = 0 :=
  triV_eq_zero_of_antisymm12 K X _ (fun a b e h => vortWeight_antisymm12 c a b e h)

/-- **V1, spectral form (enstrophy), convolution layout.**  For ANY lattice function `X`, any band `K`:
    `Σ_{k ∈ box} X̃(−k) · [(U ⋆ D_0X)(k) + (V ⋆ D_1X)(k)] = 0`, `U = d_1κX`, `V = −d_0κX`
    — the bracket is what `vorticity2d_alias_free` reads off the model at a retained mode. -/
theorem vorticity2d_enstrophy_spectral (c : Cfg ℂ) (K : ℤ) (X : (Fin c.D → ℤ) → ℂ) :
    ∑ k ∈ box c.D K, truncV K X (-k) *
        (linConv c.D c.N K (fun p => usym c p * X p) (fun p => dsym c 0 p * X p) k
          + linConv c.D c.N K (fun p => vsym c p * X p) (fun p => dsym c 1 p * X p) k) = 0 := by
  have h1 : ∀ k, truncV K X (-k) = truncV K (fun p => (fun _ => (1 : ℂ)) p * X p) (-k) := by
    intro k
    simp only [one_mul]
  simp only [h1]
  rw [vorticity2d_triad_form c K (fun _ => 1) X,
    triV_congr K X _ (fun _ q r => vortWeight c q r) (fun a b e _ => one_mul _),
    vorticity2d_enstrophy_triad, mul_zero]

/-- **V2, spectral form (energy), convolution layout.**  The same with the stream function `κX` in the
    test slot. -/
theorem vorticity2d_energy_spectral (c : Cfg ℂ) (K : ℤ) (X : (Fin c.D → ℤ) → ℂ) :
    ∑ k ∈ box c.D K, truncV K (fun p => invLapSym c p * X p) (-k) *
        (linConv c.D c.N K (fun p => usym c p * X p) (fun p => dsym c 0 p * X p) k
          + linConv c.D c.N K (fun p => vsym c p * X p) (fun p => dsym c 1 p * X p) k) = 0 := by
  rw [vorticity2d_triad_form c K (invLapSym c) X, vorticity2d_energy_triad, mul_zero]

/-! ### the grid field handed to the forward transform -/

/-- `u·∂_0 ω + v·∂_1 ω` on the grid, verbatim the model's expression -/
noncomputable def vortGrid (c : Cfg ℂ) (uh : Array ℂ) : Array ℂ :=
  tab (c.N ^ c.D) fun x =>
    (mfield c (fun k => deriv c 1 k * invLapOne c k) uh).getD x 0 * (dfield c uh 0).getD x 0
      + (mfield c (fun k => -(deriv c 0 k) * invLapOne c k) uh).getD x 0 * (dfield c uh 1).getD x 0

/-- read-off: the stored output of `vorticity2d` is `−scale · nfft(vortGrid)` -/
theorem vorticity2d_getD (c : Cfg ℂ) (scale : ℂ) (uh : Array ℂ) (h : ℕ) (hh : h < numModes c.D c.N) :
    ((vorticity2d c scale none #[uh]).getD 0 #[]).getD h 0
      = -scale * (nfft c (vortGrid c uh)).getD h 0 := by
  have hM : h < modes c := hh
  have eu : nifft c (tab (modes c) fun k => deriv c 1 k *
        (tab (modes c) fun k => invLapOne c k * at2 (#[uh] : MC ℂ) 0 k).getD k 0)
      = mfield c (fun k => deriv c 1 k * invLapOne c k) uh := by
    unfold mfield
    apply Conserve.nifft_congr
    intro i hi
    rw [Nonlin.tab_getD _ _ _ _ hi, Nonlin.tab_getD _ _ _ _ hi, Nonlin.tab_getD _ _ _ _ hi, mul_assoc]
    rfl
  have ev : nifft c (tab (modes c) fun k => -(deriv c 0 k) *
        (tab (modes c) fun k => invLapOne c k * at2 (#[uh] : MC ℂ) 0 k).getD k 0)
      = mfield c (fun k => -(deriv c 0 k) * invLapOne c k) uh := by
    unfold mfield
    apply Conserve.nifft_congr
    intro i hi
    rw [Nonlin.tab_getD _ _ _ _ hi, Nonlin.tab_getD _ _ _ _ hi, Nonlin.tab_getD _ _ _ _ hi, mul_assoc]
    rfl
  show at2 (vorticity2d c scale none #[uh]) 0 h = _
  unfold vorticity2d
  simp only []
  rw [at2_tab2 _ _ _ _ _ Nat.zero_lt_one hM, eu, ev]
  rfl

theorem im_mul_add_mul (a b e f : ℂ) (ha : a.im = 0) (hb : b.im = 0) (he : e.im = 0) (hf : f.im = 0) :
    (a * b + e * f).im = 0 := by
  rw [Complex.add_im, Complex.mul_im, Complex.mul_im, ha, hb, he, hf]
  ring

theorem vortGrid_isRealND (c : Cfg ℂ) (hN : 0 < c.N) (uh : Array ℂ) :
    IsRealND c.D c.N (vortGrid c uh) := by
  intro j hj
  unfold vortGrid
  rw [DFT.tab_getD _ _ _ _ hj]
  exact im_mul_add_mul _ _ _ _ (nifft_isRealND c hN _ j hj) (dfield_isRealND c hN uh 0 j hj)
    (nifft_isRealND c hN _ j hj) (dfield_isRealND c hN uh 1 j hj)

/-- spectrum of `u·∂_0 ω + v·∂_1 ω` on the box (`3·Kc < N`): the two linear convolutions, alias-free -/
theorem dftV_vortGrid (c : Cfg ℂ) (hD : c.D = 2) (hq : c.fq ≠ 0)
    (hK : 3 * Kc c < (c.N : ℤ)) (hN : 0 < c.N) (s : ℝ) (hs : c.s = (s : ℂ))
    (x : Array ℂ) (hx : IsRealND c.D c.N x) (k : Fin c.D → ℤ) (hk : ∀ d, |k d| ≤ Kc c) :
    dftV c.D c.N (vortGrid c (rfftnM c.D c.N x)) k
      = linConv c.D c.N (Kc c) (uspec c x) (dspec c 0 x) k
        + linConv c.D c.N (Kc c) (vspec c x) (dspec c 1 x) k := by
  have hD0 : 0 < c.D := by omega
  have h2 := two_lt_of_three c.N (Kc c) hK
  have e : vortGrid c (rfftnM c.D c.N x)
      = tab (c.N ^ c.D) fun x' =>
          (fun x' => (mfield c (fun k => deriv c 1 k * invLapOne c k) (rfftnM c.D c.N x)).getD x' 0
            * (dfield c (rfftnM c.D c.N x) 0).getD x' 0) x'
          + (fun x' => (mfield c (fun k => -(deriv c 0 k) * invLapOne c k) (rfftnM c.D c.N x)).getD x' 0
            * (dfield c (rfftnM c.D c.N x) 1).getD x' 0) x' := rfl
  rw [e, dftV_add]
  congr 1
  · exact dftV_mul_of_box c.D c.N hN (Kc c) hK _ _ (mfield_bandLimitedV c hq hN _ _)
      (dfield_bandLimitedV c hq hN _ 0) _ _
      (fun p hp => dftV_ufield c hD hq hN h2 s hs x hx p hp)
      (fun p hp => dftV_dfield c hD0 hq hN h2 s hs x hx 0 (by omega) p hp) _ hk
  · exact dftV_mul_of_box c.D c.N hN (Kc c) hK _ _ (mfield_bandLimitedV c hq hN _ _)
      (dfield_bandLimitedV c hq hN _ 1) _ _
      (fun p hp => dftV_vfield c hD hq hN h2 s hs x hx p hp)
      (fun p hp => dftV_dfield c hD0 hq hN h2 s hs x hx 1 (by omega) p hp) _ hk

/-! ### grid inner products with the nonlinear term -/

/-- **the work of the dealiased vorticity convection on a band-limited test field.**  `D = 2`,
    `3·Kc < N`, real scales `s`, `b`, real vorticity `x`, `ω̂ = rfftn x`.  For ANY real grid field `f`
    band-limited to the box whose box spectrum is `lam·X` (`X = dftV x`):

      `Σ_j f_j · irfftn(N(ω̂))_j = −b · N^{-D} · Σ_{k ∈ box} (lam X)~(−k)·[(U ⋆ D_0X)(k) + (V ⋆ D_1X)(k)]`. -/
theorem vorticity2d_inner_grid (c : Cfg ℂ) (hD : c.D = 2) (hq : c.fq ≠ 0)
    (hK : 3 * Kc c < (c.N : ℤ)) (hN : 0 < c.N) (s : ℝ) (hs : c.s = (s : ℂ)) (b : ℝ)
    (x : Array ℂ) (hx : IsRealND c.D c.N x)
    (f : Array ℂ) (hf : IsRealND c.D c.N f) (hbf : BandLimitedV c.D c.N (Kc c) f)
    (lam : (Fin c.D → ℤ) → ℂ)
    (hF : ∀ p : Fin c.D → ℤ, (∀ d, |p d| ≤ Kc c) → dftV c.D c.N f p = lam p * dftV c.D c.N x p) :
    ∑ j ∈ range (c.N ^ c.D), f.getD j 0 *
        (irfftnM c.D c.N ((vorticity2d c (b : ℂ) none #[rfftnM c.D c.N x]).getD 0 #[])).getD j 0
      = ((-b : ℝ) : ℂ) * ((1 / ((c.N ^ c.D : ℕ) : ℂ)) *
          ∑ k ∈ box c.D (Kc c), truncV (Kc c) (fun p => lam p * dftV c.D c.N x p) (-k) *
            (linConv c.D c.N (Kc c) (uspec c x) (dspec c 0 x) k
              + linConv c.D c.N (Kc c) (vspec c x) (dspec c 1 x) k)) := by
  have hD0 : 0 < c.D := by omega
  have h2 := two_lt_of_three c.N (Kc c) hK
  rw [inner_irfftn_nfft c hD0 hq hN h2 f (vortGrid c (rfftnM c.D c.N x)) hf
      (vortGrid_isRealND c hN _) hbf (-b) _
      (fun h hh => by rw [vorticity2d_getD c _ _ h hh]; push_cast; ring),
    sum_mul_band c.D c.N hN (Kc c) h2 f _ hbf, sum_box_neg]
  congr 2
  apply Finset.sum_congr rfl
  intro k hk
  have hk' := mem_box.mp hk
  have hnk : ∀ d, |(-k) d| ≤ Kc c := mem_box.mp (box_neg_mem hk)
  rw [neg_neg, hF (-k) hnk, truncV_of_le _ _ _ hnk, dftV_vortGrid c hD hq hK hN s hs x hx k hk']

/-- **V1 on the grid (enstrophy).**  `D = 2`, dealiasing with `3·Kc < N` (e.g. the 2/3 rule), every `N`,
    real scales, real vorticity `x`, `ω̂ = rfftn x`: the band-truncated vorticity
    `ω_K = ifft(mask·ω̂)` is orthogonal on the grid to the nonlinear term `irfftn(N(ω̂))`:
    `Σ_j (ω_K)_j · N(ω)_j = 0` — the discrete convection leaves `½ Σ_j ω_K²` (enstrophy) unchanged. -/
theorem vorticity2d_enstrophy_grid (c : Cfg ℂ) (hD : c.D = 2) (hq : c.fq ≠ 0)
    (hK : 3 * Kc c < (c.N : ℤ)) (hN : 0 < c.N) (s : ℝ) (hs : c.s = (s : ℂ)) (b : ℝ)
    (x : Array ℂ) (hx : IsRealND c.D c.N x) :
    ∑ j ∈ range (c.N ^ c.D), (nifft c (rfftnM c.D c.N x)).getD j 0 *
        (irfftnM c.D c.N ((vorticity2d c (b : ℂ) none #[rfftnM c.D c.N x]).getD 0 #[])).getD j 0
      = 0 := by
  have hD0 : 0 < c.D := by omega
  have h2 := two_lt_of_three c.N (Kc c) hK
  rw [vorticity2d_inner_grid c hD hq hK hN s hs b x hx _ (nifft_isRealND c hN _)
    (nifft_bandLimitedV c hq hN _) (fun _ => 1)
    (fun p hp => by rw [dftV_nifft_rfftn c hD0 hq hN h2 x hx p hp, one_mul])]
  have := vorticity2d_enstrophy_spectral c (Kc c) (dftV c.D c.N x)
  simp only [one_mul]
  unfold uspec vspec dspec
  rw [this, mul_zero, mul_zero]

/-- the model's stream function on the grid, `ψ_K = ifft(mask·Δ̂⁻¹·ω̂)` (`Δ̂⁻¹ = invLapOne`) -/
noncomputable def psiGrid (c : Cfg ℂ) (uh : Array ℂ) : Array ℂ := mfield c (invLapOne c) uh

theorem dftV_psiGrid (c : Cfg ℂ) (hD : 0 < c.D) (hq : c.fq ≠ 0) (hN : 0 < c.N)
    (h2 : 2 * Kc c < (c.N : ℤ)) (s : ℝ) (hs : c.s = (s : ℂ)) (x : Array ℂ) (hx : IsRealND c.D c.N x)
    (m : Fin c.D → ℤ) (hm : ∀ d, |m d| ≤ Kc c) :
    dftV c.D c.N (psiGrid c (rfftnM c.D c.N x)) m = invLapSym c m * dftV c.D c.N x m :=
  dftV_nifft_mult c hD hq hN h2 x hx (invLapSym c) (conj_invLapSym c s hs) _
    (fun h _ _ => invLapOne_eq_invLapSym c h) m hm

/-- **V2 on the grid (energy).**  Same hypotheses; the band-truncated stream function
    `ψ_K = ifft(mask·Δ̂⁻¹·ω̂)` is orthogonal on the grid to the nonlinear term:
    `Σ_j (ψ_K)_j · N(ω)_j = 0` — the discrete convection leaves the kinetic energy `−½ Σ_j ψ_K ω_K`
    unchanged. -/
theorem vorticity2d_energy_grid (c : Cfg ℂ) (hD : c.D = 2) (hq : c.fq ≠ 0)
    (hK : 3 * Kc c < (c.N : ℤ)) (hN : 0 < c.N) (s : ℝ) (hs : c.s = (s : ℂ)) (b : ℝ)
    (x : Array ℂ) (hx : IsRealND c.D c.N x) :
    ∑ j ∈ range (c.N ^ c.D), (psiGrid c (rfftnM c.D c.N x)).getD j 0 *
        (irfftnM c.D c.N ((vorticity2d c (b : ℂ) none #[rfftnM c.D c.N x]).getD 0 #[])).getD j 0
      = 0 := by
  have hD0 : 0 < c.D := by omega
  have h2 := two_lt_of_three c.N (Kc c) hK
  rw [vorticity2d_inner_grid c hD hq hK hN s hs b x hx (psiGrid c (rfftnM c.D c.N x))
    (nifft_isRealND c hN _) (mfield_bandLimitedV c hq hN _ _) (invLapSym c)
    (fun p hp => dftV_psiGrid c hD0 hq hN h2 s hs x hx p hp)]
  have := vorticity2d_energy_spectral c (Kc c) (dftV c.D c.N x)
  unfold uspec vspec dspec
  rw [this, mul_zero, mul_zero]

/-- the stored output of `vorticity2d` vanishes at the dropped modes -/
theorem vorticity2d_getD_off_band (c : Cfg ℂ) (scale : ℂ) (uh : Array ℂ) (h : ℕ) (hm : mask c h = 0) :
    ((vorticity2d c scale none #[uh]).getD 0 #[]).getD h 0 = 0 :=
  vorticity2d_zero_off_band c scale #[uh] 0 h hm

/-- **V1 against the FULL state.**  Since the nonlinear term is band-limited, the untruncated real
    vorticity `x` is orthogonal to it as well: `Σ_j x_j · N(ω)_j = 0`. -/
theorem vorticity2d_enstrophy_grid_full (c : Cfg ℂ) (hD : c.D = 2) (hq : c.fq ≠ 0)
    (hK : 3 * Kc c < (c.N : ℤ)) (hN : 0 < c.N) (s : ℝ) (hs : c.s = (s : ℂ)) (b : ℝ)
    (x : Array ℂ) (hx : IsRealND c.D c.N x) :
    ∑ j ∈ range (c.N ^ c.D), x.getD j 0 *
        (irfftnM c.D c.N ((vorticity2d c (b : ℂ) none #[rfftnM c.D c.N x]).getD 0 #[])).getD j 0
      = 0 := by
  rw [inner_irfftn_trunc c (by omega) hq hN (two_lt_of_three c.N (Kc c) hK) x hx _
    (fun h _ hm => vorticity2d_getD_off_band c _ _ h hm)]
  exact vorticity2d_enstrophy_grid c hD hq hK hN s hs b x hx

/-! ### the literal `D = 2` forms -/

/-- V1 with the transforms written `rfftnM 2 N`, `irfftnM 2 N`, grid `N²` -/
theorem vorticity2d_enstrophy_grid_two (c : Cfg ℂ) (hD : c.D = 2) (hq : c.fq ≠ 0)
    (hK : 3 * Kc c < (c.N : ℤ)) (hN : 0 < c.N) (s : ℝ) (hs : c.s = (s : ℂ)) (b : ℝ)
    (x : Array ℂ) (hx : IsRealND 2 c.N x) :
    ∑ j ∈ range (c.N ^ 2), (nifft c (rfftnM 2 c.N x)).getD j 0 *
        (irfftnM 2 c.N ((vorticity2d c (b : ℂ) none #[rfftnM 2 c.N x]).getD 0 #[])).getD j 0
      = 0 := by
  have := vorticity2d_enstrophy_grid c hD hq hK hN s hs b x (by rw [hD]; exact hx)
  rw [hD] at this
  exact this

/-- V2 with the transforms written `rfftnM 2 N`, `irfftnM 2 N`; the stream function written out:
    `ψ_K = nifft c (Δ̂⁻¹ ⊙ ω̂)` -/
theorem vorticity2d_energy_grid_two (c : Cfg ℂ) (hD : c.D = 2) (hq : c.fq ≠ 0)
    (hK : 3 * Kc c < (c.N : ℤ)) (hN : 0 < c.N) (s : ℝ) (hs : c.s = (s : ℂ)) (b : ℝ)
    (x : Array ℂ) (hx : IsRealND 2 c.N x) :
    ∑ j ∈ range (c.N ^ 2),
        (nifft c (tab (modes c) fun h => invLapOne c h * (rfftnM 2 c.N x).getD h 0)).getD j 0 *
        (irfftnM 2 c.N ((vorticity2d c (b : ℂ) none #[rfftnM 2 c.N x]).getD 0 #[])).getD j 0
      = 0 := by
  have := vorticity2d_energy_grid c hD hq hK hN s hs b x (by rw [hD]; exact hx)
  unfold psiGrid mfield at this
  rw [hD] at this
  exact this

/-! ### non-vacuity -/

/-- `D = 2`, `N = 8`, fraction `2/3`: `Kc = 1`, `3 < 8`; the ramp is a real field -/
example : (cfg23 2).D = 2 ∧ (cfg23 2).fq ≠ 0 ∧ 3 * Kc (cfg23 2) < (((cfg23 2).N : ℕ) : ℤ) ∧ 0 < (cfg23 2).N ∧
    (cfg23 2).s = ((1 : ℝ) : ℂ) ∧ IsRealND (cfg23 2).D (cfg23 2).N (ramp ((cfg23 2).N ^ (cfg23 2).D)) :=
  ⟨rfl, by simp [cfg23], by rw [Kc_cfg23]; simp [cfg23], by simp [cfg23], cfg23_s 2, ramp_real _ _⟩

/-- hypotheses of `vorticity2d_inner_grid` on the test field: `f = nifft c (rfftn x)`, `lam = 1` -/
example (c : Cfg ℂ) (hD : 0 < c.D) (hq : c.fq ≠ 0) (hN : 0 < c.N) (h2 : 2 * Kc c < (c.N : ℤ))
    (x : Array ℂ) (hx : IsRealND c.D c.N x) :
    IsRealND c.D c.N (nifft c (rfftnM c.D c.N x)) ∧
      BandLimitedV c.D c.N (Kc c) (nifft c (rfftnM c.D c.N x)) ∧
      ∀ p : Fin c.D → ℤ, (∀ d, |p d| ≤ Kc c) →
        dftV c.D c.N (nifft c (rfftnM c.D c.N x)) p = (fun _ => (1 : ℂ)) p * dftV c.D c.N x p :=
  ⟨nifft_isRealND c hN _, nifft_bandLimitedV c hq hN _,
    fun p hp => by rw [dftV_nifft_rfftn c hD hq hN h2 x hx p hp, one_mul]⟩

end Exponax.Invariants
