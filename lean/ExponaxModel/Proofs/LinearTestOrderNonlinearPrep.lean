import ExponaxModel.Proofs.LinearTestOrderNonlinear2Vec
/-
C02 support — preparation for the nonlinear order theorems of ETDRK3/4 (T8).

 * `etd_weight`      `∫ₐᵇ e^{c(b−s)} (s−a)^k/k! ds = (b−a)^{k+1}·φ_{k+1}(c(b−a))`   (all `k`, entire `phiE`)
 * `etd_defect_gen`  variation of constants with `f` expanded to order `n`:
                     `‖y(b) − (e^{ch}y(a) + Σ_{j<n} h^{j+1}φ_{j+1}(ch) d_j)‖ ≤ e^{ωh} G h^{n+1}/(n+1)!`
                     if `‖f(s) − Σ_{j<n} (s−a)^j/j!·d_j‖ ≤ G (s−a)^n/n!` on `[a,b]`, `Re c ≤ ω`
 * `etd_defect3`, `etd_defect4`   the cases `n = 3, 4` written out
 * `taylor2_of_lipschitz_deriv`, `taylor3_of_lipschitz_deriv`   Taylor hypotheses from Lipschitz derivatives
 * `phi_diff_*`      `φ_k(z) − 1/k! = z φ_{k+1}(z)` consequences with norm bounds
-/
set_option linter.unusedVariables false
noncomputable section
namespace Exponax.LinearOrder
open Exponax Exponax.Spec Exponax.ContourTail Exponax.Gen.Etdrk intervalIntegral MeasureTheory

/-! ### the general φ weight -/

theorem etd_weight (k : ℕ) (c : ℂ) (a b : ℝ) :
    ((b - a : ℝ) : ℂ) ^ (k + 1) * phiE (k + 1) (c * ((b - a : ℝ) : ℂ))
      = ∫ s in a..b, Complex.exp (c * ((b : ℂ) - s)) * (((s : ℂ) - a) ^ k / (k.factorial : ℂ)) := by
  set F : ℝ → ℂ := fun x =>
    Complex.exp (c * (x : ℂ)) * ((((b - a : ℝ) : ℂ) - (x : ℂ)) ^ k / (k.factorial : ℂ)) with hF
  have h1 := intervalIntegral.integral_comp_sub_left (a := a) (b := b) F b
  have h2 := intervalIntegral.smul_integral_comp_mul_left (a := (0 : ℝ)) (b := 1) F (b - a)
  simp only [sub_self, mul_zero, mul_one] at h1 h2
  have h3 : ∫ s in a..b, Complex.exp (c * ((b : ℂ) - s)) * (((s : ℂ) - a) ^ k / (k.factorial : ℂ))
      = ∫ s in a..b, F (b - s) := by
    refine integral_congr (fun s _ => ?_)
    simp only [hF]
    have e1 : (((b - a : ℝ) : ℂ) - ((b - s : ℝ) : ℂ)) = (s : ℂ) - a := by push_cast; ring
    have e2 : (((b - s : ℝ) : ℂ)) = (b : ℂ) - s := by push_cast; ring
    rw [e1, e2]
  have h4 : ∫ τ in (0 : ℝ)..1, F ((b - a) * τ)
      = ((b - a : ℝ) : ℂ) ^ k * ∫ τ in (0 : ℝ)..1,
          ((1 - (τ : ℂ)) ^ k / (k.factorial : ℂ)) * Complex.exp (c * ((b - a : ℝ) : ℂ) * τ) := by
    rw [← intervalIntegral.integral_const_mul]
    refine integral_congr (fun τ _ => ?_)
    simp only [hF]
    have e1 : (((b - a : ℝ) : ℂ) - (((b - a) * τ : ℝ) : ℂ)) = ((b - a : ℝ) : ℂ) * (1 - (τ : ℂ)) := by
      push_cast; ring
    have e2 : c * ((((b - a) * τ : ℝ)) : ℂ) = c * ((b - a : ℝ) : ℂ) * τ := by push_cast; ring
    rw [e1, e2, mul_pow]
    ring
  rw [h3, h1, ← h2, h4, phiE_succ_eq, Complex.real_smul]
  unfold phiI
  rw [pow_succ]
  ring

theorem real_int_pow_fact (n : ℕ) (a b : ℝ) :
    ∫ s in a..b, (s - a) ^ n / (n.factorial : ℝ) = (b - a) ^ (n + 1) / ((n + 1).factorial : ℝ) := by
  have h := intervalIntegral.integral_comp_sub_right (a := a) (b := b)
    (fun x : ℝ => x ^ n / (n.factorial : ℝ)) a
  simp only [sub_self] at h
  rw [h, intervalIntegral.integral_div, integral_pow, Nat.factorial_succ]
  have hfac : (n.factorial : ℝ) ≠ 0 := by exact_mod_cast (Nat.factorial_pos _).ne'
  have hn1 : ((n : ℝ) + 1) ≠ 0 := by exact_mod_cast (Nat.succ_ne_zero n)
  push_cast
  field_simp
  simp

/-- **variation of constants with `f` expanded to order `n`** -/
theorem etd_defect_gen (n : ℕ) (c : ℂ) (ω G : ℝ) (y f : ℝ → ℂ) (a b : ℝ) (hab : a ≤ b)
    (hω : 0 ≤ ω) (hc : c.re ≤ ω)
    (hy : ∀ s ∈ Set.Icc a b, HasDerivAt y (c * y s + f s) s) (hf : ContinuousOn f (Set.Icc a b))
    (d : ℕ → ℂ)
    (hTay : ∀ s ∈ Set.Icc a b,
      ‖f s - ∑ j ∈ Finset.range n, ((s - a : ℝ) : ℂ) ^ j / (j.factorial : ℂ) * d j‖
        ≤ G * (s - a) ^ n / (n.factorial : ℝ)) :
    ‖y b - (Complex.exp (c * ((b - a : ℝ) : ℂ)) * y a
        + ∑ j ∈ Finset.range n,
            ((b - a : ℝ) : ℂ) ^ (j + 1) * phiE (j + 1) (c * ((b - a : ℝ) : ℂ)) * d j)‖
      ≤ Real.exp (ω * (b - a)) * G * (b - a) ^ (n + 1) / ((n + 1).factorial : ℝ) := by
  set e : ℝ → ℂ := fun s => Complex.exp (c * ((b : ℂ) - s)) with he
  set P : ℝ → ℂ := fun s => ∑ j ∈ Finset.range n, ((s - a : ℝ) : ℂ) ^ j / (j.factorial : ℂ) * d j with hP
  set r : ℝ → ℂ := fun s => f s - P s with hr
  have hcont : Continuous e := by simp only [he]; fun_prop
  have hPc : Continuous P := by
    simp only [hP]
    refine continuous_finsetSum _ (fun j _ => ?_)
    fun_prop
  have huIcc : Set.uIcc a b = Set.Icc a b := Set.uIcc_of_le hab
  have hrc : ContinuousOn r (Set.Icc a b) := hf.sub hPc.continuousOn
  have hi3 : IntervalIntegrable (fun s => e s * r s) volume a b := by
    apply ContinuousOn.intervalIntegrable
    rw [huIcc]; exact hcont.continuousOn.mul hrc
  have hiP : IntervalIntegrable (fun s => e s * P s) volume a b :=
    (hcont.mul hPc).intervalIntegrable _ _
  have hPint : ∫ s in a..b, e s * P s
      = ∑ j ∈ Finset.range n,
          ((b - a : ℝ) : ℂ) ^ (j + 1) * phiE (j + 1) (c * ((b - a : ℝ) : ℂ)) * d j := by
    have h1 : (fun s => e s * P s)
        = fun s : ℝ => ∑ j ∈ Finset.range n,
            (Complex.exp (c * ((b : ℂ) - s)) * (((s : ℂ) - a) ^ j / (j.factorial : ℂ))) * d j := by
      funext s
      simp only [hP, he, Finset.mul_sum]
      refine Finset.sum_congr rfl (fun j _ => ?_)
      push_cast
      ring
    rw [h1, intervalIntegral.integral_finsetSum]
    · refine Finset.sum_congr rfl (fun j _ => ?_)
      rw [intervalIntegral.integral_mul_const, ← etd_weight j c a b]
    · intro j _
      exact (by fun_prop : Continuous fun s : ℝ =>
        (Complex.exp (c * ((b : ℂ) - s)) * (((s : ℂ) - a) ^ j / (j.factorial : ℂ))) * d j).intervalIntegrable
          _ _
  have hkey : y b - (Complex.exp (c * ((b - a : ℝ) : ℂ)) * y a
        + ∑ j ∈ Finset.range n,
            ((b - a : ℝ) : ℂ) ^ (j + 1) * phiE (j + 1) (c * ((b - a : ℝ) : ℂ)) * d j)
      = ∫ s in a..b, e s * r s := by
    have hsplit : ∫ s in a..b, e s * f s = (∫ s in a..b, e s * P s) + ∫ s in a..b, e s * r s := by
      rw [← integral_add hiP hi3]
      refine integral_congr (fun s _ => ?_)
      simp only [hr]; ring
    rw [variation_of_constants c y f a b hab hy hf, ← hPint]
    have := hsplit
    simp only [he] at this ⊢
    rw [this]
    push_cast
    ring
  rw [hkey]
  have hbound : ∀ s ∈ Set.Ioc a b,
      ‖e s * r s‖ ≤ Real.exp (ω * (b - a)) * G * ((s - a) ^ n / (n.factorial : ℝ)) := by
    intro s hs
    have hs' : s ∈ Set.Icc a b := ⟨hs.1.le, hs.2⟩
    have h1 := norm_exp_prop_le c ω a b s hω hc hs'
    have h2 := hTay s hs'
    rw [norm_mul, mul_assoc]
    refine mul_le_mul h1 ?_ (norm_nonneg _) (Real.exp_pos _).le
    simp only [hr, hP]
    calc _ ≤ G * (s - a) ^ n / (n.factorial : ℝ) := h2
      _ = G * ((s - a) ^ n / (n.factorial : ℝ)) := by ring
  have hg : IntervalIntegrable
      (fun s : ℝ => Real.exp (ω * (b - a)) * G * ((s - a) ^ n / (n.factorial : ℝ))) volume a b :=
    (by fun_prop : Continuous fun s : ℝ =>
      Real.exp (ω * (b - a)) * G * ((s - a) ^ n / (n.factorial : ℝ))).intervalIntegrable _ _
  refine (norm_integral_le_of_norm_le hab (Filter.Eventually.of_forall hbound) hg).trans (le_of_eq ?_)
  rw [intervalIntegral.integral_const_mul, real_int_pow_fact]
  ring

/-- order 3, written out (`phi1e, phi2e, phi3e`) -/
theorem etd_defect3 (c : ℂ) (ω G : ℝ) (y f : ℝ → ℂ) (a b : ℝ) (hab : a ≤ b) (hω : 0 ≤ ω)
    (hc : c.re ≤ ω)
    (hy : ∀ s ∈ Set.Icc a b, HasDerivAt y (c * y s + f s) s) (hf : ContinuousOn f (Set.Icc a b))
    (d1 d2 : ℂ)
    (hTay : ∀ s ∈ Set.Icc a b,
      ‖f s - f a - ((s - a : ℝ) : ℂ) * d1 - ((s - a : ℝ) : ℂ) ^ 2 / 2 * d2‖ ≤ G * (s - a) ^ 3 / 6) :
    ‖y b - (Complex.exp (c * ((b - a : ℝ) : ℂ)) * y a
        + ((b - a : ℝ) : ℂ) * phi1e (c * ((b - a : ℝ) : ℂ)) * f a
        + ((b - a : ℝ) : ℂ) ^ 2 * phi2e (c * ((b - a : ℝ) : ℂ)) * d1
        + ((b - a : ℝ) : ℂ) ^ 3 * phi3e (c * ((b - a : ℝ) : ℂ)) * d2)‖
      ≤ Real.exp (ω * (b - a)) * G * (b - a) ^ 4 / 24 := by
  have h := etd_defect_gen 3 c ω G y f a b hab hω hc hy hf
    (fun j => if j = 0 then f a else if j = 1 then d1 else d2)
    (fun s hs => by
      have := hTay s hs
      generalize ((s - a : ℝ) : ℂ) = σ at this ⊢
      simp only [Finset.sum_range_succ, Finset.sum_range_zero, Nat.factorial, if_true, if_false,
        one_ne_zero, OfNat.ofNat_ne_zero, OfNat.ofNat_ne_one, Nat.cast_one, Nat.cast_ofNat,
        pow_zero, pow_one, div_one, one_mul, mul_one, zero_add, Nat.succ_eq_add_one, Nat.reduceAdd,
        Nat.reduceMul]
      refine le_trans (le_of_eq ?_) (this.trans (le_of_eq ?_))
      · congr 1; ring
      · norm_num)
  generalize ((b - a : ℝ) : ℂ) = hh at h ⊢
  simp only [Finset.sum_range_succ, Finset.sum_range_zero, Nat.factorial, if_true, if_false,
    one_ne_zero, OfNat.ofNat_ne_zero, OfNat.ofNat_ne_one, zero_add, Nat.succ_eq_add_one, Nat.reduceAdd,
    Nat.reduceMul, Nat.cast_ofNat, phiE_one, phiE_two, phiE_three, pow_one] at h
  refine le_trans (le_of_eq ?_) (h.trans (le_of_eq ?_))
  · congr 1; ring
  · norm_num

/-! ### Taylor hypotheses from Lipschitz derivatives -/

/-- second order: `f' = f₁`, `f₁' = f₂`, `f₂` `G`-Lipschitz on `[0,T]` -/
theorem taylor2_of_lipschitz_deriv (f f1 f2 : ℝ → ℂ) (T G : ℝ)
    (hf : ∀ t ∈ Set.Icc (0 : ℝ) T, HasDerivAt f (f1 t) t)
    (hf1 : ∀ t ∈ Set.Icc (0 : ℝ) T, HasDerivAt f1 (f2 t) t)
    (hG : ∀ x ∈ Set.Icc (0 : ℝ) T, ∀ y ∈ Set.Icc (0 : ℝ) T, ‖f2 x - f2 y‖ ≤ G * |x - y|)
    (t s : ℝ) (ht : 0 ≤ t) (hs : 0 ≤ s) (hts : t + s ≤ T) :
    ‖f (t + s) - f t - (s : ℂ) * f1 t - (s : ℂ) ^ 2 / 2 * f2 t‖ ≤ G * s ^ 3 / 6 := by
  have hsub : Set.Icc t (t + s) ⊆ Set.Icc (0 : ℝ) T := fun x hx => ⟨ht.trans hx.1, hx.2.trans hts⟩
  have hts' : t ≤ t + s := by linarith
  have hderiv : ∀ x ∈ Set.uIcc t (t + s),
      HasDerivAt (fun x : ℝ => f x - (x : ℂ) * f1 t - ((x : ℂ) - t) ^ 2 / 2 * f2 t)
        (f1 x - f1 t - ((x : ℂ) - t) * f2 t) x := by
    intro x hx
    rw [Set.uIcc_of_le hts'] at hx
    have h1 := (hasDerivAt_ofReal x).mul_const (f1 t)
    have h2 : HasDerivAt (fun x : ℝ => ((x : ℂ) - t) ^ 2 / 2 * f2 t)
        (((2 : ℕ) : ℂ) * ((x : ℂ) - t) ^ (2 - 1) * 1 / 2 * f2 t) x :=
      ((((hasDerivAt_ofReal x).sub_const (t : ℂ)).pow 2).div_const 2).mul_const (f2 t)
    have h3 := ((hf x (hsub hx)).sub h1).sub h2
    refine h3.congr_deriv ?_
    push_cast
    ring
  have hc1 : ContinuousOn f1 (Set.Icc t (t + s)) := fun x hx =>
    (hf1 x (hsub hx)).continuousAt.continuousWithinAt
  have hint : IntervalIntegrable (fun x : ℝ => f1 x - f1 t - ((x : ℂ) - t) * f2 t) volume t (t + s) := by
    apply ContinuousOn.intervalIntegrable
    rw [Set.uIcc_of_le hts']
    exact (hc1.sub continuousOn_const).sub (Continuous.continuousOn (by fun_prop))
  have h := integral_eq_sub_of_hasDerivAt hderiv hint
  have heq : f (t + s) - f t - (s : ℂ) * f1 t - (s : ℂ) ^ 2 / 2 * f2 t
      = ∫ x in t..(t + s), (f1 x - f1 t - ((x : ℂ) - t) * f2 t) := by
    rw [h]; push_cast; ring
  rw [heq]
  have hbound : ∀ x ∈ Set.Ioc t (t + s), ‖f1 x - f1 t - ((x : ℂ) - t) * f2 t‖ ≤ G * ((x - t) ^ 2 / 2) := by
    intro x hx
    have h0 := taylor_of_lipschitz_deriv f1 f2 T G hf1 hG t (x - t) ht (by linarith [hx.1])
      (by linarith [hx.2])
    rw [show t + (x - t) = x by ring] at h0
    have e1 : (((x - t : ℝ)) : ℂ) = (x : ℂ) - t := by push_cast; ring
    rw [e1] at h0
    calc _ ≤ G * (x - t) ^ 2 / 2 := h0
      _ = G * ((x - t) ^ 2 / 2) := by ring
  have hg : IntervalIntegrable (fun x : ℝ => G * ((x - t) ^ 2 / 2)) volume t (t + s) :=
    (by fun_prop : Continuous fun x : ℝ => G * ((x - t) ^ 2 / 2)).intervalIntegrable _ _
  refine (norm_integral_le_of_norm_le hts' (Filter.Eventually.of_forall hbound) hg).trans (le_of_eq ?_)
  rw [intervalIntegral.integral_const_mul, real_int_sq]
  ring

/-! ### φ-differences -/

theorem norm_phiE_le_W (k : ℕ) (w : ℂ) (W : ℝ) (hw : max 1 (Real.exp w.re) ≤ W) :
    ‖phiE (k + 1) w‖ ≤ W / ((k + 1).factorial : ℝ) :=
  (norm_phiE_succ_le k w).trans (div_le_div_of_nonneg_right hw (by positivity))

/-- `max(1, e^{Re(l h)}) ≤ e^{ωT}` for `0 ≤ h ≤ T`, `Re l ≤ ω`, `0 ≤ ω` -/
theorem max_exp_le_W (l : ℂ) (ω h T : ℝ) (hω : 0 ≤ ω) (hl : l.re ≤ ω) (hh : 0 ≤ h) (hT : h ≤ T) :
    max 1 (Real.exp ((l * (h : ℂ)).re)) ≤ Real.exp (ω * T) := by
  rw [Complex.re_mul_ofReal]
  refine max_le (Real.one_le_exp (mul_nonneg hω (hh.trans hT))) (Real.exp_le_exp.mpr ?_)
  calc l.re * h ≤ ω * h := mul_le_mul_of_nonneg_right hl hh
    _ ≤ ω * T := mul_le_mul_of_nonneg_left hT hω

theorem max_exp_le_W_half (l : ℂ) (ω h T : ℝ) (hω : 0 ≤ ω) (hl : l.re ≤ ω) (hh : 0 ≤ h) (hT : h ≤ T) :
    max 1 (Real.exp ((l * (h : ℂ) / 2).re)) ≤ Real.exp (ω * T) := by
  have e : l * (h : ℂ) / 2 = l * ((h / 2 : ℝ) : ℂ) := by push_cast; ring
  rw [e]
  exact max_exp_le_W l ω (h / 2) T hω hl (by linarith) (by linarith)

theorem norm_exp_le_W (w : ℂ) (W : ℝ) (hw : max 1 (Real.exp w.re) ≤ W) : ‖Complex.exp w‖ ≤ W := by
  rw [Complex.norm_exp]; exact (le_max_right _ _).trans hw

end Exponax.LinearOrder
end
