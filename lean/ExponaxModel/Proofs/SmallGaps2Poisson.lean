import ExponaxModel.Proofs.OperatorAlgebra
import ExponaxModel.Proofs.ReadOffND
import ExponaxModel.Proofs.SpectralOpsEq
import ExponaxModel.Proofs.InvariantsRot3d
/-
H1 (C05) — the Poisson solver of order 4 (and every even order `2n ≥ 2`) in PHYSICAL space.

For a Nyquist-free real right-hand side `f = Σ a cos(2π κ·j/N + φ)` the model routine
`irfftn ∘ Poisson.step_fourier(order = 2n) ∘ rfftn` returns the field with the modes of `f` multiplied by

    gainEven D s n κ = −1 / ((−1)^n s^{2n} Σ_d κ_d^{2n})     (κ ≠ 0),      0  (κ = 0: zero mean),

i.e. for order 4:  `u = −f / (s⁴ Σ_d κ_d⁴)`  — the sign is MINUS (the order-4 operator `Σ_d ∂_d⁴` has the POSITIVE symbol
`s⁴ Σ κ_d⁴`, and the code computes `û = −f̂ / op`), whereas for order 2 it is `+f/(s²|κ|²)` (`C05_poisson_physical`).
In every even order the model's operator applied to the solution returns `−(f − mean f)`:  operator·solution = −rhs.
-/
set_option linter.unusedVariables false
namespace Exponax.SmallGaps2
open Exponax Exponax.Layout Exponax.Transform Exponax.DFT Exponax.ExactLinear Exponax.ReadOff Finset
open Exponax.Nonlin (Cfg laplace poissonStep MC tabC)

/-- `Σ_{d<D} κ_d^p` -/
def kappaPow (D p : ℕ) (κ : List ℤ) : ℤ := ∑ d ∈ range D, κ.getD d 0 ^ p

theorem kappaPow_two (D : ℕ) (κ : List ℤ) : kappaPow D 2 κ = kappaSq D κ := rfl

theorem kappaPow_even_eq_zero_iff (D n : ℕ) (hn : 1 ≤ n) (κ : List ℤ) :
    kappaPow D (2 * n) κ = 0 ↔ ∀ d < D, κ.getD d 0 = 0 := by
  unfold kappaPow
  rw [Finset.sum_eq_zero_iff_of_nonneg (fun d _ => (even_two_mul n).pow_nonneg _)]
  have : 2 * n ≠ 0 := by omega
  simp [this]

theorem kappaPow_even_pos (D n : ℕ) (hn : 1 ≤ n) (κ : List ℤ) (hne : ∃ d < D, κ.getD d 0 ≠ 0) :
    0 < kappaPow D (2 * n) κ := by
  have h0 : 0 ≤ kappaPow D (2 * n) κ := Finset.sum_nonneg (fun d _ => (even_two_mul n).pow_nonneg _)
  rcases lt_or_eq_of_le h0 with h | h
  · exact h
  · obtain ⟨d, hd, hne⟩ := hne
    exact absurd ((kappaPow_even_eq_zero_iff D n hn κ).mp h.symm d hd) hne

/-- the multiplier of `Poisson.step_fourier`: `−where(op = 0, 0, 1/op)` -/
noncomputable def poissonMult (c : Cfg ℂ) (order h : ℕ) : ℂ :=
  if laplace c order h = 0 then 0 else -(1 / laplace c order h)

/-- the Poisson solve between the model transforms is a Fourier multiplier -/
theorem poisson_eq_specApply (c : Cfg ℂ) (order : ℕ) (u : Array ℂ) :
    irfftnM c.D c.N (poissonSpec c order (rfftnM c.D c.N u)) = specApply c.D c.N (poissonMult c order) u := by
  unfold specApply poissonSpec poissonMult
  simp only [poissonStep_mul]

/-- the even-order Laplace symbol at a stored mode carrying `±κ`: `(−1)^n s^{2n} Σ_d κ_d^{2n}` -/
theorem laplace_even_at (c : Cfg ℂ) (s : ℝ) (hs : c.s = (s : ℂ)) (h n : ℕ) (hn : 1 ≤ n) (κ : List ℤ)
    (hk : wnFlat c.D c.N h = κ ∨ wnFlat c.D c.N h = negK κ) :
    laplace c (2 * n) h = (((-1) ^ n * s ^ (2 * n) * (kappaPow c.D (2 * n) κ : ℝ) : ℝ) : ℂ) := by
  have e : ∑ d ∈ range c.D, (wnAt c d h : ℝ) ^ (2 * n) = (kappaPow c.D (2 * n) κ : ℝ) := by
    unfold kappaPow
    push_cast
    apply Finset.sum_congr rfl
    intro d _
    rcases hk with hk | hk
    · rw [wnAt_def, hk]
    · rw [wnAt_def, hk, negK_getD]
      push_cast
      rw [(even_two_mul n).neg_pow]
  rw [Operator.laplace_even c s hs h n hn, e]

/-- the gain of the even-order Poisson solve as a function of the wave vector -/
noncomputable def gainEven (D : ℕ) (s : ℝ) (n : ℕ) (κ : List ℤ) : ℝ :=
  if kappaPow D (2 * n) κ = 0 then 0 else -(1 / ((-1) ^ n * s ^ (2 * n) * (kappaPow D (2 * n) κ : ℝ)))

theorem poissonMult_at (c : Cfg ℂ) (s : ℝ) (hs : c.s = (s : ℂ)) (hs0 : s ≠ 0) (h n : ℕ) (hn : 1 ≤ n) (κ : List ℤ)
    (hk : wnFlat c.D c.N h = κ ∨ wnFlat c.D c.N h = negK κ) :
    poissonMult c (2 * n) h = ((gainEven c.D s n κ : ℝ) : ℂ) := by
  unfold poissonMult gainEven
  rw [laplace_even_at c s hs h n hn κ hk]
  by_cases h0 : kappaPow c.D (2 * n) κ = 0
  · rw [if_pos h0, if_pos (by rw [h0]; simp)]; simp
  · have hne : ((-1 : ℝ) ^ n * s ^ (2 * n) * (kappaPow c.D (2 * n) κ : ℝ)) ≠ 0 :=
      mul_ne_zero (mul_ne_zero (pow_ne_zero _ (by norm_num)) (pow_ne_zero _ hs0)) (by exact_mod_cast h0)
    rw [if_neg h0, if_neg (by exact_mod_cast hne)]
    push_cast
    rfl

/-- **one mode, every even order `2n ≥ 2`**: `irfftn(step_fourier(rfftn f)) = gain · f` -/
theorem poisson_even_modeField (c : Cfg ℂ) (s : ℝ) (hs : c.s = (s : ℂ)) (hs0 : s ≠ 0) (hD : 0 < c.D)
    (hN : 0 < c.N) (n : ℕ) (hn : 1 ≤ n) (κ : List ℤ) (hκ : BelowNyquist c.D c.N κ) (a φ : ℝ) :
    irfftnM c.D c.N (poissonSpec c (2 * n) (rfftnM c.D c.N (modeField c.D c.N κ a φ)))
      = modeField c.D c.N κ (a * gainEven c.D s n κ) φ := by
  rw [poisson_eq_specApply]
  exact specApply_modeField_real c.D c.N hD hN _ κ hκ _
    (fun h _ hk => poissonMult_at c s hs hs0 h n hn κ (Or.inl hk))
    (fun h _ hk => poissonMult_at c s hs hs0 h n hn κ (Or.inr hk)) a φ

/-- the modes of the even-order Poisson solution -/
noncomputable def poissonModesEven (D : ℕ) (s : ℝ) (n : ℕ) (ms : Modes) : Modes :=
  ms.map (fun q => (q.1, q.2.1 * gainEven D s n q.1, q.2.2))

/-- **every Nyquist-free right-hand side, every even order** -/
theorem poisson_even_stateOf (c : Cfg ℂ) (s : ℝ) (hs : c.s = (s : ℂ)) (hs0 : s ≠ 0) (hD : 0 < c.D)
    (hN : 0 < c.N) (n : ℕ) (hn : 1 ≤ n) (ms : Modes) (hms : ∀ q ∈ ms, BelowNyquist c.D c.N q.1) :
    irfftnM c.D c.N (poissonSpec c (2 * n) (rfftnM c.D c.N (stateOf c.D c.N ms)))
      = stateOf c.D c.N (poissonModesEven c.D s n ms) := by
  rw [poisson_eq_specApply]
  unfold stateOf poissonModesEven
  rw [specApply_vsum c.D c.N hN, List.map_map, List.map_map]
  congr 1
  apply List.map_congr_left
  intro q hq
  simp only [Function.comp]
  rw [← poisson_eq_specApply]
  exact poisson_even_modeField c s hs hs0 hD hN n hn q.1 (hms q hq) q.2.1 q.2.2

/-- the even-order model operator `Σ_d ∂_d^{2n}` on one mode -/
theorem laplace_even_modeField (c : Cfg ℂ) (s : ℝ) (hs : c.s = (s : ℂ)) (hD : 0 < c.D) (hN : 0 < c.N)
    (n : ℕ) (hn : 1 ≤ n) (κ : List ℤ) (hκ : BelowNyquist c.D c.N κ) (a φ : ℝ) :
    specApply c.D c.N (laplace c (2 * n)) (modeField c.D c.N κ a φ)
      = modeField c.D c.N κ (a * ((-1) ^ n * s ^ (2 * n) * (kappaPow c.D (2 * n) κ : ℝ))) φ :=
  specApply_modeField_real c.D c.N hD hN _ κ hκ _
    (fun h _ hk => laplace_even_at c s hs h n hn κ (Or.inl hk))
    (fun h _ hk => laplace_even_at c s hs h n hn κ (Or.inr hk)) a φ

/-- `−(f − mean f)`: the modes of the right-hand side with the sign flipped and the constant part dropped -/
noncomputable def negOffMean (D p : ℕ) (ms : Modes) : Modes :=
  ms.map (fun q => (q.1, if kappaPow D p q.1 = 0 then 0 else -q.2.1, q.2.2))

theorem gain_mul_symbol (D : ℕ) (s : ℝ) (hs0 : s ≠ 0) (n : ℕ) (κ : List ℤ) (a : ℝ) :
    a * gainEven D s n κ * ((-1) ^ n * s ^ (2 * n) * (kappaPow D (2 * n) κ : ℝ))
      = if kappaPow D (2 * n) κ = 0 then 0 else -a := by
  unfold gainEven
  by_cases h0 : kappaPow D (2 * n) κ = 0
  · rw [if_pos h0, if_pos h0]; ring
  · have hne : ((-1 : ℝ) ^ n * s ^ (2 * n) * (kappaPow D (2 * n) κ : ℝ)) ≠ 0 :=
      mul_ne_zero (mul_ne_zero (pow_ne_zero _ (by norm_num)) (pow_ne_zero _ hs0)) (by exact_mod_cast h0)
    rw [if_neg h0, if_neg h0]
    field_simp

/-- **sign convention, every even order**: the model operator applied to the returned solution gives back
    `−(f − mean f)` (operator · solution = −rhs) -/
theorem poisson_even_solves (c : Cfg ℂ) (s : ℝ) (hs : c.s = (s : ℂ)) (hs0 : s ≠ 0) (hD : 0 < c.D)
    (hN : 0 < c.N) (n : ℕ) (hn : 1 ≤ n) (ms : Modes) (hms : ∀ q ∈ ms, BelowNyquist c.D c.N q.1) :
    specApply c.D c.N (laplace c (2 * n))
        (irfftnM c.D c.N (poissonSpec c (2 * n) (rfftnM c.D c.N (stateOf c.D c.N ms))))
      = stateOf c.D c.N (negOffMean c.D (2 * n) ms) := by
  rw [poisson_even_stateOf c s hs hs0 hD hN n hn ms hms]
  unfold stateOf poissonModesEven negOffMean
  rw [specApply_vsum c.D c.N hN, List.map_map, List.map_map, List.map_map]
  congr 1
  apply List.map_congr_left
  intro q hq
  simp only [Function.comp]
  rw [laplace_even_modeField c s hs hD hN n hn q.1 (hms q hq), gain_mul_symbol c.D s hs0 n q.1 q.2.1]

/-- the mean coefficient of the Poisson output vanishes, every even order -/
theorem poissonSpec_even_mean_zero (c : Cfg ℂ) (s : ℝ) (hs : c.s = (s : ℂ)) (hs0 : s ≠ 0) (n : ℕ) (hn : 1 ≤ n)
    (fh : Array ℂ) : (poissonSpec c (2 * n) fh).getD 0 0 = 0 := by
  rcases Nat.eq_zero_or_pos (numModes c.D c.N) with h0 | hpos
  · rw [poissonSpec, tab_getD_of_le _ _ _ _ (by omega)]
  · rw [poissonSpec_getD c (2 * n) fh 0 hpos, poissonStep_mul]
    have := poissonMult_at c s hs hs0 0 n hn (wnFlat c.D c.N 0) (Or.inl rfl)
    unfold poissonMult at this
    rw [this]
    unfold gainEven
    rw [if_pos ((kappaPow_even_eq_zero_iff c.D n hn _).mpr (fun d _ => wnFlat_zero c.D c.N d))]
    simp

/-! ### order 4 -/

/-- the gain of the order-4 solve: `−1/(s⁴ Σ_d κ_d⁴)`, and `0` at `κ = 0` -/
noncomputable def poissonGain4 (D : ℕ) (s : ℝ) (κ : List ℤ) : ℝ :=
  if kappaPow D 4 κ = 0 then 0 else -(1 / (s ^ 4 * (kappaPow D 4 κ : ℝ)))

noncomputable def poissonModes4 (D : ℕ) (s : ℝ) (ms : Modes) : Modes :=
  ms.map (fun q => (q.1, q.2.1 * poissonGain4 D s q.1, q.2.2))

theorem gainEven_two (D : ℕ) (s : ℝ) (κ : List ℤ) : gainEven D s 2 κ = poissonGain4 D s κ := by
  unfold gainEven poissonGain4
  norm_num

theorem poissonModesEven_two (D : ℕ) (s : ℝ) (ms : Modes) : poissonModesEven D s 2 ms = poissonModes4 D s ms := by
  unfold poissonModesEven poissonModes4
  simp only [gainEven_two]

/-- consistency with the order-2 library: `gainEven D s 1 = ReadOff.poissonGain D s` -/
theorem gainEven_one (D : ℕ) (s : ℝ) (κ : List ℤ) : gainEven D s 1 κ = poissonGain D s κ := by
  unfold gainEven poissonGain
  rw [show 2 * 1 = 2 by norm_num, kappaPow_two]
  by_cases h0 : kappaSq D κ = 0
  · rw [if_pos h0, if_pos h0]
  · rw [if_neg h0, if_neg h0]
    rw [pow_one, neg_one_mul, neg_mul, one_div, one_div, inv_neg, neg_neg]

/-- **POISSON order 4 in physical space** (mirror of `C05_poisson_physical`): for every Nyquist-free right-hand
    side the solver returns the field whose modes are multiplied by `−1/(s⁴ Σ_d κ_d⁴)` (constant part dropped) -/
theorem poisson4_physical (c : Cfg ℂ) (s : ℝ) (hs : c.s = (s : ℂ)) (hs0 : s ≠ 0) (hD : 0 < c.D) (hN : 0 < c.N)
    (ms : Modes) (hms : ∀ q ∈ ms, BelowNyquist c.D c.N q.1) :
    irfftnM c.D c.N (poissonSpec c 4 (rfftnM c.D c.N (stateOf c.D c.N ms)))
      = stateOf c.D c.N (poissonModes4 c.D s ms) := by
  have := poisson_even_stateOf c s hs hs0 hD hN 2 (by norm_num) ms hms
  rwa [poissonModesEven_two] at this

/-- **… which solves `Σ_d ∂_d⁴ u = −f`** (mirror of `C05_poisson_solves`): the model's order-4 operator applied to
    the solution returns `−f` for one mode `κ ≠ 0`; and the mean coefficient of the output vanishes -/
theorem poisson4_solves (c : Cfg ℂ) (s : ℝ) (hs : c.s = (s : ℂ)) (hs0 : s ≠ 0) (hD : 0 < c.D) (hN : 0 < c.N)
    (κ : List ℤ) (hκ : BelowNyquist c.D c.N κ) (hne : ∃ d < c.D, κ.getD d 0 ≠ 0) (a φ : ℝ) (fh : Array ℂ) :
    specApply c.D c.N (laplace c 4) (irfftnM c.D c.N
        (poissonSpec c 4 (rfftnM c.D c.N (modeField c.D c.N κ a φ)))) =
      modeField c.D c.N κ (-a) φ ∧ (poissonSpec c 4 fh).getD 0 0 = 0 := by
  refine ⟨?_, poissonSpec_even_mean_zero c s hs hs0 2 (by norm_num) fh⟩
  have h1 := poisson_even_modeField c s hs hs0 hD hN 2 (by norm_num) κ hκ a φ
  have h2 := laplace_even_modeField c s hs hD hN 2 (by norm_num) κ hκ (a * gainEven c.D s 2 κ) φ
  rw [show 2 * 2 = 4 by norm_num] at h1 h2
  rw [h1, h2]
  have h3 := gain_mul_symbol c.D s hs0 2 κ a
  rw [show 2 * 2 = 4 by norm_num] at h3
  rw [h3, if_neg]
  have := kappaPow_even_pos c.D 2 (by norm_num) κ hne
  rw [show 2 * 2 = 4 by norm_num] at this
  exact this.ne'

/-- the same for a whole right-hand side: `Σ_d ∂_d⁴ u = −(f − mean f)` -/
theorem poisson4_solves_stateOf (c : Cfg ℂ) (s : ℝ) (hs : c.s = (s : ℂ)) (hs0 : s ≠ 0) (hD : 0 < c.D)
    (hN : 0 < c.N) (ms : Modes) (hms : ∀ q ∈ ms, BelowNyquist c.D c.N q.1) :
    specApply c.D c.N (laplace c 4)
        (irfftnM c.D c.N (poissonSpec c 4 (rfftnM c.D c.N (stateOf c.D c.N ms))))
      = stateOf c.D c.N (negOffMean c.D 4 ms) :=
  poisson_even_solves c s hs hs0 hD hN 2 (by norm_num) ms hms

/-- the order-4 symbol is the sum of the pure fourth derivatives computed by `derivativeM` -/
theorem laplace4_symbol_eq_sum_deriv (c : Cfg ℂ) (h : ℕ) :
    laplace c 4 h = ∑ d ∈ range c.D, npow (Nonlin.deriv c d h) 4 := by
  rw [Exponax.laplace_eq_sum c h 4 (by norm_num)]
  simp only [npow_eq]

/-! ### the REGENERATED `Poisson.step` (`exponax/_poisson.py`) -/
open Exponax.SpectralOpsEq Exponax.Gen.SpectralOps

theorem cfg_s_real (D N : ℕ) (L : ℝ) : (cfg D N (L : ℂ)).s = ((2 * Real.pi / L : ℝ) : ℂ) := by
  rw [cfg_s]; push_cast; rfl

/-- **generated `Poisson(D, L, N, order = 4).step(f)`** on `C` channels of Nyquist-free right-hand sides -/
theorem generated_poisson4_physical (D N C : ℕ) (hD : 1 ≤ D) (hN : 0 < N) (L : ℝ) (hL : L ≠ 0) (f : MC ℂ)
    (ms : ℕ → Modes) (hms : ∀ ch < C, ∀ q ∈ ms ch, BelowNyquist D N q.1)
    (hf : ∀ ch < C, f.getD ch #[] = stateOf D N (ms ch)) :
    Poisson_step D N C (L : ℂ) 4 f
      = tabC C (fun ch => stateOf D N (poissonModes4 D (2 * Real.pi / L) (ms ch))) := by
  rw [Poisson_step_eq D N C hD hN]
  apply Exponax.Invariants.tabC_congr
  intro ch hch
  rw [hf ch hch]
  have hs0 : 2 * Real.pi / L ≠ 0 := div_ne_zero (mul_ne_zero two_ne_zero Real.pi_ne_zero) hL
  exact poisson4_physical (cfg D N (L : ℂ)) (2 * Real.pi / L) (cfg_s_real D N L) hs0 hD hN (ms ch) (hms ch hch)

/-- generated, every even order -/
theorem generated_poisson_even_physical (D N C n : ℕ) (hn : 1 ≤ n) (hD : 1 ≤ D) (hN : 0 < N) (L : ℝ) (hL : L ≠ 0)
    (f : MC ℂ) (ms : ℕ → Modes) (hms : ∀ ch < C, ∀ q ∈ ms ch, BelowNyquist D N q.1)
    (hf : ∀ ch < C, f.getD ch #[] = stateOf D N (ms ch)) :
    Poisson_step D N C (L : ℂ) (2 * n) f
      = tabC C (fun ch => stateOf D N (poissonModesEven D (2 * Real.pi / L) n (ms ch))) := by
  rw [Poisson_step_eq D N C hD hN]
  apply Exponax.Invariants.tabC_congr
  intro ch hch
  rw [hf ch hch]
  have hs0 : 2 * Real.pi / L ≠ 0 := div_ne_zero (mul_ne_zero two_ne_zero Real.pi_ne_zero) hL
  exact poisson_even_stateOf (cfg D N (L : ℂ)) (2 * Real.pi / L) (cfg_s_real D N L) hs0 hD hN n hn (ms ch)
    (hms ch hch)

/-! non-vacuity -/
example : ∃ (c : Cfg ℂ) (s : ℝ) (κ : List ℤ), c.s = (s : ℂ) ∧ s ≠ 0 ∧ 0 < c.D ∧ 0 < c.N ∧
    BelowNyquist c.D c.N κ ∧ ∃ d < c.D, κ.getD d 0 ≠ 0 :=
  ⟨⟨2, 5, ((3 : ℝ) : ℂ), 2, 3⟩, 3, [2, -1], rfl, by norm_num, by norm_num, by norm_num,
    ⟨rfl, by intro d hd; interval_cases d <;> simp⟩, 0, by norm_num, by decide⟩
example : ∀ q ∈ ([([1, 1], 2, 0.5), ([-1, 0], 1, 0)] : Modes), BelowNyquist 2 4 q.1 := by
  intro q hq
  simp only [List.mem_cons, List.mem_nil_iff, or_false] at hq
  rcases hq with rfl | rfl
  · exact ⟨rfl, by intro d hd; interval_cases d <;> simp⟩
  · exact ⟨rfl, by intro d hd; interval_cases d <;> simp⟩
/-- the gain at `κ = (1, 1)`, `s = 1`: `−1/2` (order 4) versus `+1/2` (order 2) -/
example : poissonGain4 2 1 [1, 1] = -(1 / 2) ∧ poissonGain 2 1 [1, 1] = 1 / 2 := by
  constructor
  · unfold poissonGain4 kappaPow; norm_num [Finset.sum_range_succ]
  · unfold poissonGain kappaSq; norm_num [Finset.sum_range_succ]

end Exponax.SmallGaps2
