import ExponaxModel.Proofs.DiffTermsCalc
import Mathlib.Analysis.Calculus.FDeriv.Pi
import Mathlib.Analysis.Calculus.FDeriv.Linear
import Mathlib.Topology.Algebra.Module.FiniteDimension
import Mathlib.LinearAlgebra.Complex.FiniteDimensional
/-
C07 support — T1, the state spaces.

  * `Phys C G = Fin C → Fin G → ℝ`  : physical grid states (`C` channels, `G = N^D` points), a finite-dimensional real
                                       normed space;
  * `Spec C M = Fin C → Fin M → ℂ`  : stored spectra (`M = numModes D N`), as a REAL normed space.

`physMap c C C' term = read ∘ irfftn ∘ term ∘ rfftn ∘ embed` and `specMap c C C' term = read ∘ term ∘ embed` are the
maps the theorems are about; `term : MC ℂ → MC ℂ` is a model term (`Exponax.Nonlin.convection c C scale s k`, …).

`TermCalc term jvp` : the term carries every `FunAlg₂` relation, with tangent `jvp (point) (direction)`;
`TermLin term`      : the term carries every `FunMod₂` relation, with tangent the term itself (ℝ-linear terms).
From these:  `ContDiff ℝ n`, `HasFDerivAt` with the explicit derivative, and for linear terms `fderiv = the map`.
-/
set_option linter.unusedVariables false
namespace Exponax.DiffTerms
open Exponax Exponax.Layout Exponax.Transform Exponax.Nonlin

/-- physical grid states -/
abbrev Phys (C G : ℕ) := Fin C → Fin G → ℝ
/-- stored spectra -/
abbrev Spec (C M : ℕ) := Fin C → Fin M → ℂ

/-- a physical state as the model's multi-channel array -/
noncomputable def embP (C G : ℕ) (u : Phys C G) : MC ℂ :=
  tab2 C G (fun ch j => if h : ch < C ∧ j < G then ((u ⟨ch, h.1⟩ ⟨j, h.2⟩ : ℝ) : ℂ) else 0)

/-- a spectrum as the model's multi-channel array -/
noncomputable def embS (C M : ℕ) (x : Spec C M) : MC ℂ :=
  tab2 C M (fun ch m => if h : ch < C ∧ m < M then x ⟨ch, h.1⟩ ⟨m, h.2⟩ else 0)

/-- read a physical state off a multi-channel array (real parts) -/
noncomputable def readP (C G : ℕ) (a : MC ℂ) : Phys C G := fun ch j => (at2 a ch j).re

/-- read a spectrum off a multi-channel array -/
noncomputable def readS (C M : ℕ) (a : MC ℂ) : Spec C M := fun ch m => at2 a ch m

/-- channelwise `rfftn` -/
noncomputable def fftC (c : Cfg ℂ) (C : ℕ) (u : MC ℂ) : MC ℂ := tabC C (fun ch => rfftnM c.D c.N (u.getD ch #[]))

/-- channelwise `irfftn` -/
noncomputable def ifftC (c : Cfg ℂ) (C : ℕ) (uh : MC ℂ) : MC ℂ := tabC C (fun ch => irfftnM c.D c.N (uh.getD ch #[]))

/-- **the physical-space map of a term**: `irfftn ∘ term ∘ rfftn` on `C`-channel grid states, `C'` output channels -/
noncomputable def physMap (c : Cfg ℂ) (C C' : ℕ) (term : MC ℂ → MC ℂ) (u : Phys C (gridSize c)) : Phys C' (gridSize c) :=
  readP C' (gridSize c) (ifftC c C' (term (fftC c C (embP C (gridSize c) u))))

/-- the physical-space tangent: `irfftn (jvp (rfftn u) (rfftn v))` -/
noncomputable def physJvp (c : Cfg ℂ) (C C' : ℕ) (jvp : MC ℂ → MC ℂ → MC ℂ) (u v : Phys C (gridSize c)) :
    Phys C' (gridSize c) :=
  readP C' (gridSize c) (ifftC c C' (jvp (fftC c C (embP C (gridSize c) u)) (fftC c C (embP C (gridSize c) v))))

/-- **the spectral map of a term** on stored spectra -/
noncomputable def specMap (c : Cfg ℂ) (C C' : ℕ) (term : MC ℂ → MC ℂ) (x : Spec C (modes c)) : Spec C' (modes c) :=
  readS C' (modes c) (term (embS C (modes c) x))

/-- the spectral tangent -/
noncomputable def specJvp (c : Cfg ℂ) (C C' : ℕ) (jvp : MC ℂ → MC ℂ → MC ℂ) (x v : Spec C (modes c)) : Spec C' (modes c) :=
  readS C' (modes c) (jvp (embS C (modes c) x) (embS C (modes c) v))

/-! ### the embeddings are faithful -/

theorem at2_tab2 (nc n : ℕ) (g : ℕ → ℕ → ℂ) (ch i : ℕ) (hc : ch < nc) (hi : i < n) : at2 (tab2 nc n g) ch i = g ch i := by
  unfold at2 tab2
  rw [tab_getD _ _ _ _ hc, tab_getD _ _ _ _ hi]

theorem at2_embP (C G : ℕ) (u : Phys C G) (ch : Fin C) (j : Fin G) : at2 (embP C G u) ch j = ((u ch j : ℝ) : ℂ) := by
  unfold embP
  rw [at2_tab2 _ _ _ _ _ ch.2 j.2, dif_pos ⟨ch.2, j.2⟩]

theorem at2_embS (C M : ℕ) (x : Spec C M) (ch : Fin C) (m : Fin M) : at2 (embS C M x) ch m = x ch m := by
  unfold embS
  rw [at2_tab2 _ _ _ _ _ ch.2 m.2, dif_pos ⟨ch.2, m.2⟩]

theorem readP_embP (C G : ℕ) (u : Phys C G) : readP C G (embP C G u) = u := by
  funext ch j
  simp only [readP, at2_embP, Complex.ofReal_re]

theorem readS_embS (C M : ℕ) (x : Spec C M) : readS C M (embS C M x) = x := by
  funext ch m
  simp only [readS, at2_embS]

/-! ### relations through the embeddings and the channelwise transforms -/

section Rel
variable {X Y : Type} {R : (X → ℂ) → (Y → ℂ) → Prop}

theorem fftC_rel (hM : FunMod₂ R) (c : Cfg ℂ) (C : ℕ) {f : X → MC ℂ} {f' : Y → MC ℂ} (hf : RelM R f f') :
    RelM R (fun x => fftC c C (f x)) (fun v => fftC c C (f' v)) := fun ch m =>
  hM.tabC_rel C _ _ (fun ch _ m => hM.rfftnM_rel c.D c.N _ _ (fun j => hf ch j) m) ch m

theorem ifftC_rel (hM : FunMod₂ R) (c : Cfg ℂ) (C : ℕ) {f : X → MC ℂ} {f' : Y → MC ℂ} (hf : RelM R f f') :
    RelM R (fun x => ifftC c C (f x)) (fun v => ifftC c C (f' v)) := fun ch j =>
  hM.tabC_rel C _ _ (fun ch _ j => hM.irfftnM_rel c.D c.N _ _ (fun m => hf ch m) j) ch j

end Rel

section Emb
variable {C G : ℕ}

/-- the coordinate functional `u ↦ (u ch j : ℂ)` -/
noncomputable def coordP (ch : Fin C) (j : Fin G) : Phys C G →L[ℝ] ℂ :=
  Complex.ofRealCLM.comp ((ContinuousLinearMap.proj (R := ℝ) (φ := fun _ : Fin G => ℝ) j).comp
    (ContinuousLinearMap.proj (R := ℝ) (φ := fun _ : Fin C => Fin G → ℝ) ch))

theorem coordP_apply (ch : Fin C) (j : Fin G) (u : Phys C G) : coordP ch j u = ((u ch j : ℝ) : ℂ) := rfl

/-- the coordinate functional `x ↦ x ch m` on spectra -/
noncomputable def coordS {M : ℕ} (ch : Fin C) (m : Fin M) : Spec C M →L[ℝ] ℂ :=
  (ContinuousLinearMap.proj (R := ℝ) (φ := fun _ : Fin M => ℂ) m).comp
    (ContinuousLinearMap.proj (R := ℝ) (φ := fun _ : Fin C => Fin M → ℂ) ch)

theorem coordS_apply {M : ℕ} (ch : Fin C) (m : Fin M) (x : Spec C M) : coordS ch m x = x ch m := rfl

/-- any relation that contains the continuous linear functionals relates the embedding to itself -/
theorem embP_rel {R : (Phys C G → ℂ) → (Phys C G → ℂ) → Prop} (hM : FunMod₂ R)
    (hclm : ∀ L : Phys C G →L[ℝ] ℂ, R (fun x => L x) (fun v => L v)) : RelM R (embP C G) (embP C G) := by
  intro ch j
  unfold embP
  refine hM.tab2_rel _ _ _ _ (fun ch hc j hj => ?_) ch j
  have e : (fun x : Phys C G => if h : ch < C ∧ j < G then ((x ⟨ch, h.1⟩ ⟨j, h.2⟩ : ℝ) : ℂ) else 0)
      = fun x => coordP ⟨ch, hc⟩ ⟨j, hj⟩ x := funext fun x => by rw [dif_pos ⟨hc, hj⟩]; rfl
  rw [e]
  exact hclm _

theorem embS_rel {M : ℕ} {R : (Spec C M → ℂ) → (Spec C M → ℂ) → Prop} (hM : FunMod₂ R)
    (hclm : ∀ L : Spec C M →L[ℝ] ℂ, R (fun x => L x) (fun v => L v)) : RelM R (embS C M) (embS C M) := by
  intro ch m
  unfold embS
  refine hM.tab2_rel _ _ _ _ (fun ch hc m hm => ?_) ch m
  have e : (fun x : Spec C M => if h : ch < C ∧ m < M then x ⟨ch, h.1⟩ ⟨m, h.2⟩ else 0)
      = fun x => coordS ⟨ch, hc⟩ ⟨m, hm⟩ x := funext fun x => by rw [dif_pos ⟨hc, hm⟩]; rfl
  rw [e]
  exact hclm _

end Emb

/-! ### reading off: from entrywise statements to statements about the maps -/

section Read
variable {X : Type} [NormedAddCommGroup X] [NormedSpace ℝ X]

theorem contDiff_readP {n : WithTop ℕ∞} (C G : ℕ) (F : X → MC ℂ)
    (hF : RelM (lift₁ (fun g : X → ℂ => ContDiff ℝ n g)) F F) : ContDiff ℝ n (fun x => readP C G (F x)) :=
  contDiff_pi.2 (fun ch => contDiff_pi.2 (fun j => Complex.reCLM.contDiff.comp (hF ch j)))

theorem contDiff_readS {n : WithTop ℕ∞} (C M : ℕ) (F : X → MC ℂ)
    (hF : RelM (lift₁ (fun g : X → ℂ => ContDiff ℝ n g)) F F) : ContDiff ℝ n (fun x => readS C M (F x)) :=
  contDiff_pi.2 (fun ch => contDiff_pi.2 (fun m => hF ch m))

theorem hasFDerivAt_readP (C G : ℕ) (u : X) (F F' : X → MC ℂ) (hF : RelM (HasFD u) F F') :
    ∃ L : X →L[ℝ] Phys C G, HasFDerivAt (fun x => readP C G (F x)) L u ∧ ∀ v, L v = readP C G (F' v) := by
  choose L hL hv using hF
  refine ⟨ContinuousLinearMap.pi (fun ch : Fin C => ContinuousLinearMap.pi (fun j : Fin G =>
    Complex.reCLM.comp (L ch j))), ?_, fun v => ?_⟩
  · refine hasFDerivAt_pi.2 (fun ch => hasFDerivAt_pi.2 (fun j => ?_))
    exact Complex.reCLM.hasFDerivAt.comp u (hL ch j)
  · funext ch j
    simp only [readP, ContinuousLinearMap.pi_apply, ContinuousLinearMap.comp_apply, hv, Complex.reCLM_apply]

theorem hasFDerivAt_readS (C M : ℕ) (u : X) (F F' : X → MC ℂ) (hF : RelM (HasFD u) F F') :
    ∃ L : X →L[ℝ] Spec C M, HasFDerivAt (fun x => readS C M (F x)) L u ∧ ∀ v, L v = readS C M (F' v) := by
  choose L hL hv using hF
  refine ⟨ContinuousLinearMap.pi (fun ch : Fin C => ContinuousLinearMap.pi (fun m : Fin M => L ch m)), ?_, fun v => ?_⟩
  · exact hasFDerivAt_pi.2 (fun ch => hasFDerivAt_pi.2 (fun m => hL ch m))
  · funext ch m
    simp only [readS, ContinuousLinearMap.pi_apply, hv]

end Read

section ReadLin
variable {X : Type} [AddCommGroup X] [Module ℝ X]

theorem isLinearMap_readP (C G : ℕ) (F : X → MC ℂ)
    (hF : RelM (lift₁ (fun g : X → ℂ => IsLinearMap ℝ g)) F F) : IsLinearMap ℝ (fun x => readP C G (F x)) :=
  ⟨fun x y => by funext ch j; simp only [readP, (hF ch j).map_add, Complex.add_re, Pi.add_apply],
   fun r x => by
    funext ch j
    simp only [readP, (hF ch j).map_smul, Complex.real_smul, Complex.re_ofReal_mul, Pi.smul_apply, smul_eq_mul]⟩

theorem isLinearMap_readS (C M : ℕ) (F : X → MC ℂ)
    (hF : RelM (lift₁ (fun g : X → ℂ => IsLinearMap ℝ g)) F F) : IsLinearMap ℝ (fun x => readS C M (F x)) :=
  ⟨fun x y => by funext ch m; simp only [readS, (hF ch m).map_add, Pi.add_apply],
   fun r x => by funext ch m; simp only [readS, (hF ch m).map_smul, Pi.smul_apply]⟩

end ReadLin

/-! ### terms -/

/-- the term carries every `FunAlg₂` relation; the tangent is `jvp point direction` -/
structure TermCalc (term : MC ℂ → MC ℂ) (jvp : MC ℂ → MC ℂ → MC ℂ) : Prop where
  rel : ∀ {X Y : Type} (R : (X → ℂ) → (Y → ℂ) → Prop) (u : X), FunAlg₂ R u → ∀ (f : X → MC ℂ) (f' : Y → MC ℂ),
    RelM R f f' → RelM R (fun x => term (f x)) (fun v => jvp (f u) (f' v))

/-- the term carries every `FunMod₂` relation, the tangent being the term itself: an ℝ-LINEAR term -/
structure TermLin (term : MC ℂ → MC ℂ) : Prop where
  rel : ∀ {X Y : Type} (R : (X → ℂ) → (Y → ℂ) → Prop), FunMod₂ R → ∀ (f : X → MC ℂ) (f' : Y → MC ℂ),
    RelM R f f' → RelM R (fun x => term (f x)) (fun v => term (f' v))

/-- a linear term is its own tangent -/
theorem TermLin.termCalc {term : MC ℂ → MC ℂ} (h : TermLin term) : TermCalc term (fun _ vh => term vh) :=
  ⟨fun R u hR f f' hf => h.rel R hR.toFunMod₂ f f' hf⟩

namespace TermCalc
variable {term : MC ℂ → MC ℂ} {jvp : MC ℂ → MC ℂ → MC ℂ} (h : TermCalc term jvp)
include h

/-- **T1 (smoothness, physical space).** `irfftn ∘ term ∘ rfftn` is `C^n` for every `n` (in particular `n = ⊤`, `ω`) -/
theorem physMap_contDiff (c : Cfg ℂ) (C C' : ℕ) (n : WithTop ℕ∞) : ContDiff ℝ n (physMap c C C' term) := by
  have hA := funAlg₂_contDiff (X := Phys C (gridSize c)) n 0
  have hM := hA.toFunMod₂
  have h0 : RelM (lift₁ (fun g : Phys C (gridSize c) → ℂ => ContDiff ℝ n g)) (embP C (gridSize c)) (embP C (gridSize c)) :=
    embP_rel hM (fun L => L.contDiff)
  exact contDiff_readP C' (gridSize c) _
    (ifftC_rel hM c C' (h.rel _ 0 hA _ _ (fftC_rel hM c C h0)))

/-- **T1 (smoothness, stored spectra).** -/
theorem specMap_contDiff (c : Cfg ℂ) (C C' : ℕ) (n : WithTop ℕ∞) : ContDiff ℝ n (specMap c C C' term) := by
  have hA := funAlg₂_contDiff (X := Spec C (modes c)) n 0
  have h0 : RelM (lift₁ (fun g : Spec C (modes c) → ℂ => ContDiff ℝ n g)) (embS C (modes c)) (embS C (modes c)) :=
    embS_rel hA.toFunMod₂ (fun L => L.contDiff)
  exact contDiff_readS C' (modes c) _ (h.rel _ 0 hA _ _ h0)

/-- **T1 (derivative, physical space).** the Fréchet derivative of `irfftn ∘ term ∘ rfftn` at `u` is
    `v ↦ irfftn (jvp (rfftn u) (rfftn v))` -/
theorem physMap_hasFDerivAt (c : Cfg ℂ) (C C' : ℕ) (u : Phys C (gridSize c)) :
    ∃ L : Phys C (gridSize c) →L[ℝ] Phys C' (gridSize c),
      HasFDerivAt (physMap c C C' term) L u ∧ ∀ v, L v = physJvp c C C' jvp u v := by
  have hA := funAlg₂_hasFD u
  have hM := hA.toFunMod₂
  have h0 : RelM (HasFD u) (embP C (gridSize c)) (embP C (gridSize c)) := embP_rel hM (fun L => HasFD.of_clm u L)
  exact hasFDerivAt_readP C' (gridSize c) u _ _ (ifftC_rel hM c C' (h.rel _ u hA _ _ (fftC_rel hM c C h0)))

/-- the same, as a statement about `fderiv` -/
theorem physMap_fderiv (c : Cfg ℂ) (C C' : ℕ) (u v : Phys C (gridSize c)) :
    fderiv ℝ (physMap c C C' term) u v = physJvp c C C' jvp u v := by
  obtain ⟨L, hL, hv⟩ := h.physMap_hasFDerivAt c C C' u
  rw [hL.fderiv, hv]

/-- **T1 (derivative, stored spectra).** -/
theorem specMap_hasFDerivAt (c : Cfg ℂ) (C C' : ℕ) (x : Spec C (modes c)) :
    ∃ L : Spec C (modes c) →L[ℝ] Spec C' (modes c),
      HasFDerivAt (specMap c C C' term) L x ∧ ∀ v, L v = specJvp c C C' jvp x v := by
  have hA := funAlg₂_hasFD x
  have h0 : RelM (HasFD x) (embS C (modes c)) (embS C (modes c)) :=
    embS_rel hA.toFunMod₂ (fun L => HasFD.of_clm x L)
  exact hasFDerivAt_readS C' (modes c) x _ _ (h.rel _ x hA _ _ h0)

theorem specMap_fderiv (c : Cfg ℂ) (C C' : ℕ) (x v : Spec C (modes c)) :
    fderiv ℝ (specMap c C C' term) x v = specJvp c C C' jvp x v := by
  obtain ⟨L, hL, hv⟩ := h.specMap_hasFDerivAt c C C' x
  rw [hL.fderiv, hv]

end TermCalc

namespace TermLin
variable {term : MC ℂ → MC ℂ} (h : TermLin term)
include h

/-- a linear term gives an ℝ-linear physical-space map -/
theorem physMap_isLinearMap (c : Cfg ℂ) (C C' : ℕ) : IsLinearMap ℝ (physMap c C C' term) := by
  have hM := funMod₂_linear (X := Phys C (gridSize c))
  have h0 : RelM (lift₁ (fun g : Phys C (gridSize c) → ℂ => IsLinearMap ℝ g)) (embP C (gridSize c)) (embP C (gridSize c)) :=
    embP_rel hM (fun L => L.toLinearMap.isLinear)
  exact isLinearMap_readP C' (gridSize c) _ (ifftC_rel hM c C' (h.rel _ hM _ _ (fftC_rel hM c C h0)))

theorem specMap_isLinearMap (c : Cfg ℂ) (C C' : ℕ) : IsLinearMap ℝ (specMap c C C' term) := by
  have hM := funMod₂_linear (X := Spec C (modes c))
  have h0 : RelM (lift₁ (fun g : Spec C (modes c) → ℂ => IsLinearMap ℝ g)) (embS C (modes c)) (embS C (modes c)) :=
    embS_rel hM (fun L => L.toLinearMap.isLinear)
  exact isLinearMap_readS C' (modes c) _ (h.rel _ hM _ _ h0)

/-- the physical-space map of a linear term as a continuous linear map -/
noncomputable def physCLM (c : Cfg ℂ) (C C' : ℕ) : Phys C (gridSize c) →L[ℝ] Phys C' (gridSize c) :=
  LinearMap.toContinuousLinearMap (IsLinearMap.mk' _ (h.physMap_isLinearMap c C C'))

theorem physCLM_apply (c : Cfg ℂ) (C C' : ℕ) (u : Phys C (gridSize c)) : h.physCLM c C C' u = physMap c C C' term u := rfl

/-- **T3.** the Fréchet derivative of a linear map at every point is the map itself -/
theorem physMap_hasFDerivAt (c : Cfg ℂ) (C C' : ℕ) (u : Phys C (gridSize c)) :
    HasFDerivAt (physMap c C C' term) (h.physCLM c C C') u :=
  (h.physCLM c C C').hasFDerivAt

theorem physMap_fderiv (c : Cfg ℂ) (C C' : ℕ) (u v : Phys C (gridSize c)) :
    fderiv ℝ (physMap c C C' term) u v = physMap c C C' term v := by
  rw [(h.physMap_hasFDerivAt c C C' u).fderiv]; rfl

/-- the spectral map of a linear term as a continuous linear map -/
noncomputable def specCLM (c : Cfg ℂ) (C C' : ℕ) : Spec C (modes c) →L[ℝ] Spec C' (modes c) :=
  LinearMap.toContinuousLinearMap (IsLinearMap.mk' _ (h.specMap_isLinearMap c C C'))

theorem specMap_hasFDerivAt (c : Cfg ℂ) (C C' : ℕ) (x : Spec C (modes c)) :
    HasFDerivAt (specMap c C C' term) (h.specCLM c C C') x :=
  (h.specCLM c C C').hasFDerivAt

theorem specMap_fderiv (c : Cfg ℂ) (C C' : ℕ) (x v : Spec C (modes c)) :
    fderiv ℝ (specMap c C C' term) x v = specMap c C C' term v := by
  rw [(h.specMap_hasFDerivAt c C C' x).fderiv]; rfl

end TermLin

end Exponax.DiffTerms
