import ExponaxModel.Proofs.InvariantsRot3d
import ExponaxModel.Proofs.AliasND2Examples
/-
C09 (invariants), part 4 — V3 for a projected velocity, and non-vacuity of the V3 hypotheses.

  * `rfftn_nifft_of_hermitian`    `rfftn(ifft(mask·ûh)) = mask ⊙ ûh` for a stored array that is
                                   Hermitian-consistent on the retained band,
  * `lerayLattice`, `leray_eq_lattice`, `conj_lerayLattice`, `rfftn_nifft_leray`
                                   the Leray projection of the transforms of three real fields is such an
                                   array (lattice symbol `δ_de − d_d Δ̂⁻¹ d_e`, Hermitian for real `s`),
  * `projected3d_no_work_leray`   **V3 with `û = leray(rfftn w)`**: no divergence hypothesis at all,
  * non-vacuity examples: constant velocity fields satisfy the hypotheses of `projected3d_no_work_real`
    and of `projected3d_no_work`.
-/
set_option linter.unusedVariables false
set_option linter.unusedSimpArgs false
namespace Exponax.Invariants
open Exponax Exponax.Layout Exponax.Transform Exponax.DFT Exponax.Nonlin Exponax.Alias Exponax.AliasND Exponax.Conserve Finset

/-! ### `rfftn ∘ nifft` on a Hermitian-consistent stored array -/

theorem rfftn_nifft_of_hermitian (c : Cfg ℂ) (hD : 0 < c.D) (hq : c.fq ≠ 0) (hN : 0 < c.N)
    (h2 : 2 * Kc c < (c.N : ℤ)) (uh : Array ℂ) (F : (Fin c.D → ℤ) → ℂ)
    (hF : ∀ h, h < numModes c.D c.N → (∀ d, |kvec c.D c.N h d| ≤ Kc c) →
      uh.getD h 0 = F (kvec c.D c.N h) ∧ (starRingEnd ℂ) (uh.getD h 0) = F (-kvec c.D c.N h))
    (h : ℕ) (hh : h < numModes c.D c.N) :
    (rfftnM c.D c.N (nifft c uh)).getD h 0 = mask c h * uh.getD h 0 := by
  rw [rfftn_eq_dftV c.D c.N hN _ h hh]
  by_cases hk : ∀ d, |kvec c.D c.N h d| ≤ Kc c
  · rw [(mask_nd_eq_one_iff c hq h).mpr hk, one_mul,
      dftV_nifft_of_hermitian c hD hq hN h2 uh F hF _ hk, (hF h hh hk).1]
  · rw [(mask_nd_eq_zero_iff c hq h).mpr hk, zero_mul]
    apply nifft_bandLimitedV c hq hN
    exact not_congr_box (Kc c) ((c.N / 2 : ℕ) : ℤ) (by omega) _ hk (kvec_abs_le c.D c.N h hD hN hh)

/-! ### the Leray projection on the lattice -/

/-- lattice symbol of the guarded inverse Laplacian `where(Δ̂ ≠ 0, 1/Δ̂, 0)` -/
noncomputable def invLapZeroSym (c : Cfg ℂ) (p : Fin c.D → ℤ) : ℂ :=
  if lapsym c p = 0 then 0 else 1 / lapsym c p

theorem invLapZero_eq_sym (c : Cfg ℂ) (h : ℕ) : invLapZero c h = invLapZeroSym c (kvec c.D c.N h) := by
  rw [invLapZero_eq, laplace_eq_lapsym]
  rfl

theorem conj_invLapZeroSym (c : Cfg ℂ) (s : ℝ) (hs : c.s = (s : ℂ)) (p : Fin c.D → ℤ) :
    (starRingEnd ℂ) (invLapZeroSym c p) = invLapZeroSym c (-p) := by
  unfold invLapZeroSym
  rw [lapsym_neg]
  split_ifs with h0
  · exact map_zero _
  · rw [map_div₀, map_one, conj_lapsym c s hs]

/-- the Leray projection of the lattice spectra `W_e = dftV (w e)`:
    `W_d − d_d·Δ̂⁻¹·Σ_e d_e W_e` -/
noncomputable def lerayLattice (c : Cfg ℂ) (w : ℕ → Array ℂ) (d : ℕ) (k : Fin c.D → ℤ) : ℂ :=
  dftV c.D c.N (w d) k
    + dsym c d k * (-(invLapZeroSym c k) * ∑ e ∈ range c.D, dsym c e k * dftV c.D c.N (w e) k)

theorem conj_lerayLattice (c : Cfg ℂ) (s : ℝ) (hs : c.s = (s : ℂ)) (w : ℕ → Array ℂ)
    (hw : ∀ e, e < c.D → IsRealND c.D c.N (w e)) (d : ℕ) (hd : d < c.D) (k : Fin c.D → ℤ) :
    (starRingEnd ℂ) (lerayLattice c w d k) = lerayLattice c w d (-k) := by
  unfold lerayLattice
  rw [map_add, map_mul, map_mul, map_neg, map_sum, conj_dftV c.D c.N (w d) (hw d hd),
    conj_dsym c s hs, conj_invLapZeroSym c s hs]
  congr 3
  apply Finset.sum_congr rfl
  intro e he
  rw [map_mul, conj_dsym c s hs, conj_dftV c.D c.N (w e) (hw e (Finset.mem_range.mp he))]

theorem at2_three (a0 a1 a2 : Array ℂ) (e h : ℕ) (he : e < 3) (f : ℕ → Array ℂ)
    (h0 : f 0 = a0) (h1 : f 1 = a1) (h2 : f 2 = a2) :
    at2 (#[a0, a1, a2] : MC ℂ) e h = (f e).getD h 0 := by
  interval_cases e
  · rw [h0]; rfl
  · rw [h1]; rfl
  · rw [h2]; rfl

/-- at every stored mode the model's Leray projection of `(rfftn w_0, rfftn w_1, rfftn w_2)` is the
    lattice projection at the stored wavenumber vector -/
theorem leray_eq_lattice (c : Cfg ℂ) (hD : c.D = 3) (hN : 0 < c.N) (w : ℕ → Array ℂ) (d h : ℕ)
    (hd : d < 3) (hh : h < numModes c.D c.N) :
    ((leray c #[rfftnM c.D c.N (w 0), rfftnM c.D c.N (w 1), rfftnM c.D c.N (w 2)]).getD d #[]).getD h 0
      = lerayLattice c w d (kvec c.D c.N h) := by
  have hM : h < modes c := hh
  have hat : ∀ e, e < 3 →
      at2 (#[rfftnM c.D c.N (w 0), rfftnM c.D c.N (w 1), rfftnM c.D c.N (w 2)] : MC ℂ) e h
        = dftV c.D c.N (w e) (kvec c.D c.N h) := by
    intro e he
    rw [at2_three _ _ _ e h he (fun e => rfftnM c.D c.N (w e)) rfl rfl rfl,
      rfftn_eq_dftV c.D c.N hN (w e) h hh]
  show at2 (leray c _) d h = _
  rw [at2_leray c _ d h (by omega) hM, specDiv_eq_sum, hat d hd, deriv_eq_dsym c d (by omega) h,
    invLapZero_eq_sym]
  unfold lerayLattice
  congr 3
  apply Finset.sum_congr rfl
  intro e he
  have he' : e < 3 := by have := Finset.mem_range.mp he; omega
  rw [hat e he', deriv_eq_dsym c e (Finset.mem_range.mp he) h]

/-- `rfftn(ifft(mask·(P ŵ)_d)) = mask ⊙ (P ŵ)_d`: the truncated projected velocity has the stored
    spectrum one expects -/
theorem rfftn_nifft_leray (c : Cfg ℂ) (hD : c.D = 3) (hq : c.fq ≠ 0) (hN : 0 < c.N)
    (h2 : 2 * Kc c < (c.N : ℤ)) (s : ℝ) (hs : c.s = (s : ℂ)) (w : ℕ → Array ℂ)
    (hw : ∀ e, e < 3 → IsRealND c.D c.N (w e)) (d h : ℕ) (hd : d < 3) (hh : h < numModes c.D c.N) :
    (rfftnM c.D c.N (nifft c
        ((leray c #[rfftnM c.D c.N (w 0), rfftnM c.D c.N (w 1), rfftnM c.D c.N (w 2)]).getD d #[]))).getD h 0
      = mask c h *
        at2 (leray c #[rfftnM c.D c.N (w 0), rfftnM c.D c.N (w 1), rfftnM c.D c.N (w 2)]) d h := by
  have hw' : ∀ e, e < c.D → IsRealND c.D c.N (w e) := fun e he => hw e (by omega)
  exact rfftn_nifft_of_hermitian c (by omega) hq hN h2 _ (lerayLattice c w d)
    (fun h' hh' _ => by
      have e1 := leray_eq_lattice c hD hN w d h' hd hh'
      refine ⟨e1, ?_⟩
      rw [e1, conj_lerayLattice c s hs w hw' d (by omega)]) h hh

/-- **V3 for a projected velocity.**  `û = leray(rfftn w_0, rfftn w_1, rfftn w_2)` for ANY three real
    grid fields `w_i`, real scale `s ≠ 0`, `D = 3`, `2·Kc < N`: with `u_i = ifft(mask·û_i)`

      `Σ_i Σ_j (u_i)_j · irfftn(P[mask·fft(u × ω)]_i)_j = 0`. -/
theorem projected3d_no_work_leray (c : Cfg ℂ) (hD : c.D = 3) (hq : c.fq ≠ 0) (h2 : 2 * Kc c < (c.N : ℤ))
    (hN : 0 < c.N) (s : ℝ) (hs : c.s = (s : ℂ)) (hs0 : s ≠ 0) (w : ℕ → Array ℂ)
    (hw : ∀ e, e < 3 → IsRealND c.D c.N (w e)) :
    ∑ i ∈ range 3, ∑ j ∈ range (c.N ^ c.D),
        (nifft c ((leray c #[rfftnM c.D c.N (w 0), rfftnM c.D c.N (w 1), rfftnM c.D c.N (w 2)]).getD i #[])).getD j 0 *
        (irfftnM c.D c.N ((projected3d c none
          (leray c #[rfftnM c.D c.N (w 0), rfftnM c.D c.N (w 1), rfftnM c.D c.N (w 2)])).getD i #[])).getD j 0
      = 0 := by
  apply projected3d_no_work c hD hq h2 hN s hs
  intro h hh
  have hterm : ∀ d ∈ range c.D,
      deriv c d h * (rfftnM c.D c.N (nifft c
        ((leray c #[rfftnM c.D c.N (w 0), rfftnM c.D c.N (w 1), rfftnM c.D c.N (w 2)]).getD d #[]))).getD h 0
      = mask c h * (deriv c d h *
          at2 (leray c #[rfftnM c.D c.N (w 0), rfftnM c.D c.N (w 1), rfftnM c.D c.N (w 2)]) d h) := by
    intro d hd
    have hd' : d < 3 := by have := Finset.mem_range.mp hd; omega
    rw [rfftn_nifft_leray c hD hq hN h2 s hs w hw d h hd' hh]
    ring
  rw [Finset.sum_congr rfl hterm, ← Finset.mul_sum, ← specDiv_eq_sum, specDiv_leray c s hs hs0 _ h hh,
    mul_zero]

/-! ### non-vacuity -/

/-- the transform of a constant field is killed by every derivative entry -/
theorem deriv_mul_rfftn_const (c : Cfg ℂ) (hD : 0 < c.D) (hN : 0 < c.N) (a : ℂ) (d h : ℕ)
    (hh : h < numModes c.D c.N) :
    deriv c d h * (rfftnM c.D c.N (tab (c.N ^ c.D) fun _ => a)).getD h 0 = 0 := by
  rw [rfftn_eq_dftV c.D c.N hN _ h hh, dftV_const c.D c.N hN]
  split_ifs with hk
  · rw [(stored_dvd_iff c.D c.N h hD hN hh).mp hk, deriv_zero_mode, zero_mul]
  · rw [mul_zero]

theorem const_isRealND (D N : ℕ) (r : ℝ) : IsRealND D N (tab (N ^ D) fun _ => (r : ℂ)) := by
  intro j hj
  rw [DFT.tab_getD _ _ _ _ hj, Complex.ofReal_im]

/-- the hypotheses of `projected3d_no_work_real` are satisfiable: `D = 3`, `N = 8`, fraction 2/3
    (`Kc = 1`), unit scale, the constant velocity `(1, 2, 3)` -/
example : (cfg23 3).D = 3 ∧ (cfg23 3).fq ≠ 0 ∧ 2 * Kc (cfg23 3) < (((cfg23 3).N : ℕ) : ℤ) ∧ 0 < (cfg23 3).N ∧
    (cfg23 3).s = ((1 : ℝ) : ℂ) ∧
    (∀ i, i < 3 → IsRealND (cfg23 3).D (cfg23 3).N
      ((fun i => tab ((cfg23 3).N ^ (cfg23 3).D) fun _ => (((i + 1 : ℕ) : ℝ) : ℂ)) i)) ∧
    (∀ h, h < modes (cfg23 3) → mask (cfg23 3) h = 1 →
      ∑ d ∈ range (cfg23 3).D, deriv (cfg23 3) d h *
        (rfftnM (cfg23 3).D (cfg23 3).N
          ((fun i => tab ((cfg23 3).N ^ (cfg23 3).D) fun _ => (((i + 1 : ℕ) : ℝ) : ℂ)) d)).getD h 0 = 0) :=
  ⟨rfl, by simp [cfg23], by rw [Kc_cfg23]; simp [cfg23], by simp [cfg23], cfg23_s 3,
    fun i _ => const_isRealND _ _ _,
    fun h hh _ => Finset.sum_eq_zero (fun d _ =>
      deriv_mul_rfftn_const (cfg23 3) (by simp [cfg23]) (by simp [cfg23]) _ d h hh)⟩

/-- the divergence hypothesis of the general form `projected3d_no_work` is satisfiable: it holds for
    `û = leray(rfftn w)` with arbitrary real `w` (this is the content of `projected3d_no_work_leray`),
    e.g. for the ramp fields on the 8³ grid -/
example : ∀ h, h < modes (cfg23 3) →
    ∑ d ∈ range (cfg23 3).D, deriv (cfg23 3) d h *
      (rfftnM (cfg23 3).D (cfg23 3).N (nifft (cfg23 3)
        ((leray (cfg23 3) #[rfftnM (cfg23 3).D (cfg23 3).N (ramp ((cfg23 3).N ^ (cfg23 3).D)),
            rfftnM (cfg23 3).D (cfg23 3).N (ramp ((cfg23 3).N ^ (cfg23 3).D)),
            rfftnM (cfg23 3).D (cfg23 3).N (ramp ((cfg23 3).N ^ (cfg23 3).D))]).getD d #[]))).getD h 0 = 0 := by
  intro h hh
  have hD : (cfg23 3).D = 3 := rfl
  have hterm : ∀ d ∈ range (cfg23 3).D, _ := fun d hd =>
    congrArg (fun z => deriv (cfg23 3) d h * z)
      (rfftn_nifft_leray (cfg23 3) hD (by simp [cfg23]) (by simp [cfg23])
        (by rw [Kc_cfg23]; simp [cfg23]) 1 (cfg23_s 3) (fun _ => ramp ((cfg23 3).N ^ (cfg23 3).D))
        (fun _ _ => ramp_real _ _) d h (by have := Finset.mem_range.mp hd; omega) hh)
  rw [Finset.sum_congr rfl hterm]
  have : ∀ d ∈ range (cfg23 3).D,
      deriv (cfg23 3) d h * (mask (cfg23 3) h * at2 (leray (cfg23 3)
        #[rfftnM (cfg23 3).D (cfg23 3).N (ramp ((cfg23 3).N ^ (cfg23 3).D)),
          rfftnM (cfg23 3).D (cfg23 3).N (ramp ((cfg23 3).N ^ (cfg23 3).D)),
          rfftnM (cfg23 3).D (cfg23 3).N (ramp ((cfg23 3).N ^ (cfg23 3).D))]) d h)
      = mask (cfg23 3) h * (deriv (cfg23 3) d h * at2 (leray (cfg23 3)
        #[rfftnM (cfg23 3).D (cfg23 3).N (ramp ((cfg23 3).N ^ (cfg23 3).D)),
          rfftnM (cfg23 3).D (cfg23 3).N (ramp ((cfg23 3).N ^ (cfg23 3).D)),
          rfftnM (cfg23 3).D (cfg23 3).N (ramp ((cfg23 3).N ^ (cfg23 3).D))]) d h) :=
    fun d _ => by ring
  rw [Finset.sum_congr rfl this, ← Finset.mul_sum, ← specDiv_eq_sum,
    specDiv_leray (cfg23 3) 1 (cfg23_s 3) one_ne_zero _ h hh, mul_zero]

/-- hypotheses of `projected3d_no_work_real_three` (literal `D = 3` layout): the constant velocity `(1, 2, 3)` -/
example : IsRealND 3 (cfg23 3).N (tab ((cfg23 3).N ^ 3) fun _ => ((1 : ℝ) : ℂ)) ∧
    IsRealND 3 (cfg23 3).N (tab ((cfg23 3).N ^ 3) fun _ => ((2 : ℝ) : ℂ)) ∧
    IsRealND 3 (cfg23 3).N (tab ((cfg23 3).N ^ 3) fun _ => ((3 : ℝ) : ℂ)) ∧
    (∀ h, h < modes (cfg23 3) → mask (cfg23 3) h = 1 →
      deriv (cfg23 3) 0 h * (rfftnM 3 (cfg23 3).N (tab ((cfg23 3).N ^ 3) fun _ => ((1 : ℝ) : ℂ))).getD h 0
        + deriv (cfg23 3) 1 h * (rfftnM 3 (cfg23 3).N (tab ((cfg23 3).N ^ 3) fun _ => ((2 : ℝ) : ℂ))).getD h 0
        + deriv (cfg23 3) 2 h * (rfftnM 3 (cfg23 3).N (tab ((cfg23 3).N ^ 3) fun _ => ((3 : ℝ) : ℂ))).getD h 0
        = 0) := by
  refine ⟨const_isRealND 3 _ 1, const_isRealND 3 _ 2, const_isRealND 3 _ 3, fun h hh _ => ?_⟩
  have e := fun (a : ℂ) (d : ℕ) =>
    deriv_mul_rfftn_const (cfg23 3) (by simp [cfg23]) (by simp [cfg23]) a d h hh
  have e0 := e ((1 : ℝ) : ℂ) 0
  have e1 := e ((2 : ℝ) : ℂ) 1
  have e2 := e ((3 : ℝ) : ℂ) 2
  have hD : (cfg23 3).D = 3 := rfl
  rw [hD] at e0 e1 e2
  rw [e0, e1, e2]
  ring

/-- hypotheses of `projected3d_no_work_leray`: real fields, `s = 1 ≠ 0` -/
example : (∀ e, e < 3 → IsRealND (cfg23 3).D (cfg23 3).N ((fun _ => ramp ((cfg23 3).N ^ (cfg23 3).D)) e)) ∧
    (cfg23 3).s = ((1 : ℝ) : ℂ) ∧ (1 : ℝ) ≠ 0 :=
  ⟨fun _ _ => ramp_real _ _, cfg23_s 3, one_ne_zero⟩

/-- hypothesis `hF` of `rfftn_nifft_of_hermitian`: the stored transform of a real field, `F = dftV x` -/
example (c : Cfg ℂ) (hN : 0 < c.N) (x : Array ℂ) (hx : IsRealND c.D c.N x) :
    ∀ h, h < numModes c.D c.N → (∀ d, |kvec c.D c.N h d| ≤ Kc c) →
      (rfftnM c.D c.N x).getD h 0 = dftV c.D c.N x (kvec c.D c.N h) ∧
      (starRingEnd ℂ) ((rfftnM c.D c.N x).getD h 0) = dftV c.D c.N x (-kvec c.D c.N h) :=
  fun h hh _ => ⟨rfftn_eq_dftV c.D c.N hN x h hh, by
    rw [rfftn_eq_dftV c.D c.N hN x h hh, conj_dftV c.D c.N x hx]⟩

end Exponax.Invariants
