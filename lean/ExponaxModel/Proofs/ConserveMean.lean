import ExponaxModel.Proofs.MeanMode
import ExponaxModel.Proofs.DFTnD
import ExponaxModel.Proofs.AliasMore
import ExponaxModel.Proofs.LerayAlgebra
/-
C09 (part K1 a–e) — the stored mean mode (flat index `h = 0`) of the nonlinear terms.

All statements are about the model definitions in `Model/Nonlin.lean` at `K := ℂ`.
-/
set_option linter.unusedVariables false
set_option linter.unusedSimpArgs false
namespace Exponax.Conserve
open Exponax Exponax.Layout Exponax.Transform Exponax.DFT Exponax.Nonlin Exponax.Alias Finset

/-! ### the mean mode: symbols -/

/-- every wavenumber of the stored index `0` vanishes -/
theorem kInt_zero_mode (c : Cfg ℂ) (d : ℕ) : kInt c d 0 = 0 := wnFlat_zero c.D c.N d

/-- every derivative entry vanishes at the mean mode (any axis index `d`, any `s`) -/
theorem deriv_zero_mode (c : Cfg ℂ) (d : ℕ) : deriv c d 0 = 0 :=
  deriv_eq_zero_of_k c d 0 (kInt_zero_mode c d)

/-- the Laplace symbol vanishes at the mean mode -/
theorem laplace_zero_mode (c : Cfg ℂ) : laplace c 2 0 = 0 := by
  rw [laplace_two_eq_sum]
  exact Finset.sum_eq_zero (fun d _ => by rw [deriv_zero_mode]; ring)

theorem modes_pos (c : Cfg ℂ) (hN : 0 < c.N) : 0 < modes c :=
  shapeSize_pos _ (wavenumberShape_pos c.D c.N hN)

theorem gridSize_pos (c : Cfg ℂ) (hN : 0 < c.N) : 0 < gridSize c := pow_pos hN _

/-! ### the mean mode: forward transform -/

theorem phaseK_zero_mode (D N j : ℕ) : phaseK D N (wnFlat D N 0) j = 0 := by
  rw [phaseK_eq_sum]
  exact Finset.sum_eq_zero (fun d _ => by rw [wnFlat_zero]; ring)

/-- at the stored mean mode all twiddles are `1`: `(rfftn v)_0 = Σ_j v_j` (any `D`, `N ≥ 1`) -/
theorem rfftnM_zero_mode (D N : ℕ) (hN : 0 < N) (v : Array ℂ) :
    (rfftnM D N v).getD 0 0 = ∑ j ∈ range (N ^ D), v.getD j 0 := by
  rw [rfftnM_getD D N hN v 0 (shapeSize_pos _ (wavenumberShape_pos D N hN))]
  apply Finset.sum_congr rfl
  intro j _
  rw [phaseK_zero_mode, twiddle_eq_zpow, zpow_zero, mul_one]

/-- `nfft` at the mean mode: `mask(0) · Σ_j v_j` -/
theorem nfft_zero_mode (c : Cfg ℂ) (hN : 0 < c.N) (v : Array ℂ) :
    (nfft c v).getD 0 0 = mask c 0 * ∑ j ∈ range (gridSize c), v.getD j 0 := by
  rw [nfft_getD c v 0 (modes_pos c hN), rfftnM_zero_mode c.D c.N hN v]
  rfl

/-! ### K1 (a) conservative convection, both code paths -/

/-- **K1(a)** the conservative convection term has no mean: every channel (any channel count `C`,
    any dimension, any input spectrum, both the single-channel and the multi-channel code path) -/
theorem convection_conservative_mean (c : Cfg ℂ) (C : ℕ) (scale : ℂ) (single : Bool) (uh : MC ℂ)
    (ch : ℕ) : at2 (convection c C scale single true uh) ch 0 = 0 := by
  cases single
  · unfold convection
    simp only [Bool.false_eq_true, ↓reduceIte]
    apply at2_tab2_zero
    intro i
    rw [sumList_range_zero _ _ (fun j => by rw [deriv_zero_mode, zero_mul])]
    ring
  · unfold convection
    simp only [↓reduceIte]
    apply at2_tab2_zero
    intro i
    rw [sumList_range_zero _ _ (fun d => deriv_zero_mode c d)]
    ring

/-! ### K1 (b) Cahn–Hilliard -/

/-- **K1(b)** the Cahn–Hilliard nonlinear term `scale·Δ̂·fft(u³)` has no mean -/
theorem cahnHilliard_mean (c : Cfg ℂ) (scale : ℂ) (uh : MC ℂ) (ch : ℕ) :
    at2 (cahnHilliard c scale uh) ch 0 = 0 := by
  unfold cahnHilliard
  simp only []
  apply at2_tab2_zero
  intro i
  rw [laplace_zero_mode]
  ring

/-! ### K1 (c) gradient norm with the zero-mode fix -/

theorem sum_sub_mean (G : ℕ) (hG : 0 < G) (q : ℕ → ℂ) :
    ∑ j ∈ range G, (q j - (∑ x ∈ range G, q x) / (G : ℂ)) = 0 := by
  have hGne : (G : ℂ) ≠ 0 := by exact_mod_cast hG.ne'
  rw [Finset.sum_sub_distrib, Finset.sum_const, Finset.card_range, nsmul_eq_mul]
  field_simp
  ring

/-- **K1(c)** `GradientNormNonlinearFun` with `zero_mode_fix = True` has no mean: any `D`, any
    `N ≥ 1`, any channel count and input spectrum (pipeline proof: at `h = 0` the transform is the
    plain sum, and the mean has been subtracted on the grid) -/
theorem gradientNorm_zeroFix_mean (c : Cfg ℂ) (hN : 0 < c.N) (C : ℕ) (scale : ℂ) (uh : MC ℂ)
    (ch : ℕ) : at2 (gradientNorm c C scale true uh) ch 0 = 0 := by
  rcases Nat.lt_or_ge ch C with hch | hch
  · unfold gradientNorm
    simp only [↓reduceIte]
    rw [at2_tab2 _ _ _ _ _ hch (modes_pos c hN), at2_tabC _ _ _ _ hch, nfft_zero_mode c hN]
    have hq : ∀ j ∈ range (gridSize c), ∀ (F : ℕ → ℕ → ℂ) (m : Array ℂ),
        ((tab2 C (gridSize c) fun ch x => F ch x - m.getD ch 0).getD ch #[]).getD j 0
          = F ch j - m.getD ch 0 := by
      intro j hj F m
      exact at2_tab2 C (gridSize c) _ ch j hch (Finset.mem_range.mp hj)
    rw [Finset.sum_congr rfl (fun j hj => hq j hj _ _), Nonlin.tab_getD _ _ _ _ hch, sumRange_eq]
    simp only [lit_eq]
    have hq2 : ∀ (F : ℕ → ℕ → ℂ), ∀ j ∈ range (gridSize c),
        at2 (tab2 C (gridSize c) F) ch j = F ch j := by
      intro F j hj
      exact at2_tab2 C (gridSize c) F ch j hch (Finset.mem_range.mp hj)
    rw [Finset.sum_congr rfl (fun j hj => by rw [hq2 _ j hj]),
      Finset.sum_congr rfl (fun j hj => hq2 _ j hj)]
    rw [sum_sub_mean _ (gridSize_pos c hN)]
    ring
  · unfold gradientNorm
    simp only []
    exact at2_tab2_of_le_ch _ _ _ _ _ hch

/-! ### K1 (d) Leray projection and the projected 3-D convection -/

/-- **K1(d)** the Leray projection does nothing at the mean mode: channel `d < D` of `leray c ûh`
    at `h = 0` is `ûh_d(0)` -/
theorem leray_mean (c : Cfg ℂ) (hN : 0 < c.N) (uh : MC ℂ) (d : ℕ) (hd : d < c.D) :
    at2 (leray c uh) d 0 = at2 uh d 0 := by
  rw [at2_leray c uh d 0 hd (modes_pos c hN), deriv_zero_mode]
  ring

/-- the grid velocity, grid vorticity and their cross product inside `projected3d`
    (verbatim the expressions of the model) -/
noncomputable def velGrid (c : Cfg ℂ) (uh : MC ℂ) (k x : ℕ) : ℂ := (nifft c (uh.getD k #[])).getD x 0

noncomputable def curlGrid (c : Cfg ℂ) (uh : MC ℂ) (k x : ℕ) : ℂ :=
  (nifft c (tab (modes c) (fun h =>
    proj3 (Gen.Misc.cross_product_3d (deriv c 0 h, deriv c 1 h, deriv c 2 h)
      (at2 uh 0 h, at2 uh 1 h, at2 uh 2 h)) k))).getD x 0

noncomputable def crossGrid (c : Cfg ℂ) (uh : MC ℂ) (i x : ℕ) : ℂ :=
  proj3 (Gen.Misc.cross_product_3d (velGrid c uh 0 x, velGrid c uh 1 x, velGrid c uh 2 x)
    (curlGrid c uh 0 x, curlGrid c uh 1 x, curlGrid c uh 2 x)) i

/-- **K1(d)** `projected3d` without injection at the mean mode: the projection is the identity
    there, so channel `i` is the masked transform of `(u × ω)_i` at `h = 0`, i.e.
    `mask(0) · Σ_x (u × ω)_i(x)` -/
theorem projected3d_mean (c : Cfg ℂ) (hN : 0 < c.N) (hD : c.D = 3) (uh : MC ℂ) (i : ℕ) (hi : i < 3) :
    at2 (projected3d c none uh) i 0
      = mask c 0 * ∑ x ∈ range (gridSize c), crossGrid c uh i x := by
  have hM := modes_pos c hN
  unfold projected3d
  simp only []
  rw [at2_tab2 _ _ _ _ _ hi hM, leray_mean c hN _ i (by omega), at2_tabC _ _ _ _ hi,
    nfft_zero_mode c hN]
  congr 1
  apply Finset.sum_congr rfl
  intro x hx
  have hx' := Finset.mem_range.mp hx
  have e : ∀ F : ℕ → ℕ → ℂ, ((tab2 3 (gridSize c) F).getD i #[]).getD x 0 = F i x :=
    fun F => at2_tab2 3 (gridSize c) F i x hi hx'
  rw [e]
  have hv : ∀ k, k < 3 → at2 (tabC 3 fun i => nifft c (uh.getD i #[])) k x = velGrid c uh k x :=
    fun k hk => at2_tabC _ _ _ _ hk
  have hc : ∀ k, k < 3 →
      at2 (tabC 3 fun i => nifft c ((tab2 3 (modes c) fun i h =>
        proj3 (Gen.Misc.cross_product_3d (deriv c 0 h, deriv c 1 h, deriv c 2 h)
          (at2 uh 0 h, at2 uh 1 h, at2 uh 2 h)) i).getD i #[])) k x = curlGrid c uh k x := by
    intro k hk
    rw [at2_tabC _ _ _ _ hk]
    unfold curlGrid tab2
    rw [Nonlin.tab_getD _ _ _ _ hk]
  rw [hv 0 (by norm_num), hv 1 (by norm_num), hv 2 (by norm_num),
    hc 0 (by norm_num), hc 1 (by norm_num), hc 2 (by norm_num)]
  rfl

/-- `GeneralNonlinearFun` with the zero-mode fix: at the mean mode only the quadratic polynomial
    part survives -/
theorem general_zeroFix_mean (c : Cfg ℂ) (hN : 0 < c.N) (C : ℕ) (s0 s1 s2 : ℂ) (uh : MC ℂ) (ch : ℕ)
    (hch : ch < C) :
    at2 (general c C s0 s1 s2 true uh) ch 0 = at2 (polynomial c C [0, 0, s0] uh) ch 0 := by
  unfold general
  simp only []
  rw [at2_tab2 _ _ _ _ _ hch (modes_pos c hN), convection_conservative_mean,
    gradientNorm_zeroFix_mean c hN]
  ring

/-! ### K1 (e) non-conservative 1-D convection: `mean(u u_x) = 0` -/

/-- a sum over the symmetric window of a summand that is odd under `m ↦ −m` vanishes -/
theorem sum_Icc_odd (K : ℤ) (f : ℤ → ℂ) (hf : ∀ m, f (-m) = -f m) :
    ∑ m ∈ Finset.Icc (-K) K, f m = 0 := by
  have h1 : ∑ m ∈ Finset.Icc (-K) K, f m = ∑ m ∈ Finset.Icc (-K) K, f (-m) := by
    apply Finset.sum_nbij' (fun m => -m) (fun m => -m)
    · intro m hm; rw [Finset.mem_Icc] at hm ⊢; omega
    · intro m hm; rw [Finset.mem_Icc] at hm ⊢; omega
    · intro m _; ring
    · intro m _; ring
    · intro m _; rw [neg_neg]
  have h2 : ∑ m ∈ Finset.Icc (-K) K, f m + ∑ m ∈ Finset.Icc (-K) K, f m = 0 := by
    nth_rewrite 2 [h1]
    rw [← Finset.sum_add_distrib]
    exact Finset.sum_eq_zero (fun m _ => by rw [hf]; ring)
  have h3 : (2 : ℂ) * ∑ m ∈ Finset.Icc (-K) K, f m = 0 := by rw [two_mul]; exact h2
  exact (mul_eq_zero.mp h3).resolve_left two_ne_zero

theorem mask_zero_or_one (c : Cfg ℂ) (h : ℕ) : mask c h = 1 ∨ mask c h = 0 := by
  unfold mask
  split_ifs <;> simp

/-- **K1(e)** non-conservative convection `−b·u ∂ₓu` in 1-D (one channel, real state `x`,
    `û = rfft x`, cut-off `3·Kc < N`, both code paths): the output has no mean -/
theorem convection_nc_mean_1d (c : Cfg ℂ) (hD : c.D = 1) (hq : c.fq ≠ 0) (hK : 3 * Kc c < (c.N : ℤ))
    (hN : 0 < c.N) (s : ℝ) (hs : c.s = (s : ℂ)) (scale : ℂ) (x : Array ℂ) (hx : IsRealField c.N x)
    (single : Bool) :
    at2 (convection c 1 scale single false #[rfftnM 1 c.N x]) 0 0 = 0 := by
  obtain ⟨h1, h0⟩ := convection_nc_one_alias_free_of_cutoff c hD hq hK hN s hs scale x hx single 0
    (Nat.zero_le _)
  rcases mask_zero_or_one c 0 with hm | hm
  · rw [h1 hm]
    rw [sum_Icc_odd (Kc c) _ (fun m => by
      simp only [Nat.cast_zero, zero_sub, neg_neg]
      push_cast
      ring)]
    ring
  · exact h0 hm

end Exponax.Conserve
