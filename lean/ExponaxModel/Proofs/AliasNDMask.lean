import ExponaxModel.Proofs.AliasNDStored
import ExponaxModel.Proofs.AliasMask
import ExponaxModel.Proofs.AliasNonlin
import ExponaxModel.Proofs.ConserveVorticity
/-
C03 in general dimension `D ≥ 1`, part 4 (N2): the model pipeline `nifft c (mask ⊙ û)`.

  * `mask_nd`               the model mask is the indicator of the box `|k_d(h)| ≤ Kc` (every axis),
  * `dftV_irfftn`           the full spectrum of `irfftnM D N c` for ANY stored array `c`
                            (Hermitian completion),
  * `nifft_bandLimitedV`    `nifft c ûh` is band-limited to the box `Kc`, any `ûh`,
  * `dftV_nifft_rfftn`      for a real state `x`: the full spectrum of `nifft c (rfftnM x)` is that
                            of `x` on the box (and `0` off the box modulo `N`): band truncation,
  * `rfftn_nifft_rfftn`     the same in the stored layout: `rfftn (nifft c (rfftn x)) = mask ⊙ rfftn x`.
-/
namespace Exponax.AliasND
open Exponax Exponax.Layout Exponax.Transform Exponax.DFT Exponax.Nonlin Exponax.Alias Finset

/-! ### the mask -/

/-- **the model mask in `D` dimensions** is the indicator of the box `|k_d(h)| ≤ Kc` on every axis -/
theorem mask_nd (c : Cfg ℂ) (hq : c.fq ≠ 0) (h : ℕ) :
    mask c h = if ∀ d, |kvec c.D c.N h d| ≤ Kc c then 1 else 0 := by
  unfold mask
  rw [if_neg hq]
  have key : dealiasMask c.N c.fp c.fq (wnFlat c.D c.N h) = true ↔
      ∀ d, |kvec c.D c.N h d| ≤ Kc c := by
    rw [dealiasMask_iff]
    constructor
    · intro H d
      rw [le_Kc_iff c hq]
      apply H
      show (wnFlat c.D c.N h).getD (d : ℕ) 0 ∈ wnFlat c.D c.N h
      rw [wnFlat_getD _ _ _ _ d.2]
      unfold wnFlat
      rw [mem_wnVec]
      exact ⟨d, d.2, rfl⟩
    · intro H kd hkd
      unfold wnFlat at hkd
      obtain ⟨d, hd, rfl⟩ := (mem_wnVec _ _ _ _).1 hkd
      have := H ⟨d, hd⟩
      rw [le_Kc_iff c hq] at this
      have e : kvec c.D c.N h ⟨d, hd⟩ = wn c.D c.N (unflatten (wavenumberShape c.D c.N) h) d :=
        wnFlat_getD _ _ _ _ hd
      rwa [e] at this
  by_cases hm : dealiasMask c.N c.fp c.fq (wnFlat c.D c.N h) = true
  · rw [if_pos hm, if_pos (key.mp hm)]
  · rw [if_neg hm, if_neg (fun h' => hm (key.mpr h'))]

theorem mask_nd_eq_one_iff (c : Cfg ℂ) (hq : c.fq ≠ 0) (h : ℕ) :
    mask c h = 1 ↔ ∀ d, |kvec c.D c.N h d| ≤ Kc c := by
  rw [mask_nd c hq]
  split_ifs with hk <;> simp [hk]

theorem mask_nd_eq_zero_iff (c : Cfg ℂ) (hq : c.fq ≠ 0) (h : ℕ) :
    mask c h = 0 ↔ ¬ ∀ d, |kvec c.D c.N h d| ≤ Kc c := by
  rw [mask_nd c hq]
  split_ifs with hk <;> simp [hk]

theorem conj_mask (c : Cfg ℂ) (h : ℕ) : (starRingEnd ℂ) (mask c h) = mask c h := by
  rcases Conserve.mask_zero_or_one c h with h1 | h0
  · rw [h1, map_one]
  · rw [h0, map_zero]

/-! ### the full spectrum of `irfftnM D N c` for any stored array `c` -/

/-- **what the c2r transform does in `D` dimensions.**  For ANY array `c` of stored coefficients
    the full spectrum of the real field `irfftnM D N c` is the Hermitian completion of `c`: stored
    mode `h` contributes `w_h/2 · c_h` at the wavenumber vectors `≡ k(h)` and `w_h/2 · conj c_h` at
    those `≡ −k(h)` (mod `N`). -/
theorem dftV_irfftn (D N : ℕ) (hN : 0 < N) (c : Array ℂ) (m : Fin D → ℤ) :
    dftV D N (irfftnM D N c) m
      = ∑ h ∈ range (numModes D N), ((herm_weight D N h : ℂ) / 2) *
          (c.getD h 0 * (if ∀ d, (N : ℤ) ∣ m d - kvec D N h d then 1 else 0)
            + (starRingEnd ℂ) (c.getD h 0) * (if ∀ d, (N : ℤ) ∣ m d + kvec D N h d then 1 else 0)) := by
  have hNne : ((N ^ D : ℕ) : ℂ) ≠ 0 := by exact_mod_cast (pow_pos hN D).ne'
  unfold dftV
  have hj : ∀ j ∈ range (N ^ D), (irfftnM D N c).getD j 0 * zeta N ^ vdot D N m j
      = ∑ h ∈ range (numModes D N), ((herm_weight D N h : ℂ) / 2) / ((N ^ D : ℕ) : ℂ) *
          (c.getD h 0 * zeta N ^ vdot D N (m - kvec D N h) j
            + (starRingEnd ℂ) (c.getD h 0) * zeta N ^ vdot D N (m + kvec D N h) j) := by
    intro j hj
    rw [irfftnM_getD D N hN c j (Finset.mem_range.mp hj), div_mul_eq_mul_div, Finset.sum_mul,
      Finset.sum_div]
    apply Finset.sum_congr rfl
    intro h _
    rw [Complex.re_eq_add_conj, map_mul, twiddle_eq_zpow, phaseK_kvec, conj_zeta_zpow, neg_neg,
      vdot_sub, vdot_add,
      show vdot D N m j - vdot D N (kvec D N h) j = -(vdot D N (kvec D N h) j) + vdot D N m j by ring,
      show vdot D N m j + vdot D N (kvec D N h) j = vdot D N (kvec D N h) j + vdot D N m j by ring,
      zpow_add₀ (zeta_ne_zero N), zpow_add₀ (zeta_ne_zero N)]
    field_simp
  rw [Finset.sum_congr rfl hj, Finset.sum_comm]
  apply Finset.sum_congr rfl
  intro h _
  rw [← Finset.mul_sum, Finset.sum_add_distrib, ← Finset.mul_sum, ← Finset.mul_sum,
    sum_zeta_vdot D N hN, sum_zeta_vdot D N hN]
  simp only [Pi.sub_apply, Pi.add_apply]
  split_ifs <;> field_simp <;> ring

/-! ### `nifft` in `D` dimensions -/

theorem nifft_nd (c : Cfg ℂ) (uh : Array ℂ) :
    nifft c uh = irfftnM c.D c.N (tab (numModes c.D c.N) (fun h => mask c h * uh.getD h 0)) := rfl

/-- the full spectrum of `nifft c ûh`, any `ûh` -/
theorem dftV_nifft (c : Cfg ℂ) (hN : 0 < c.N) (uh : Array ℂ) (m : Fin c.D → ℤ) :
    dftV c.D c.N (nifft c uh) m
      = ∑ h ∈ range (numModes c.D c.N), ((herm_weight c.D c.N h : ℂ) / 2) *
          ((mask c h * uh.getD h 0) * (if ∀ d, (c.N : ℤ) ∣ m d - kvec c.D c.N h d then 1 else 0)
            + (starRingEnd ℂ) (mask c h * uh.getD h 0)
                * (if ∀ d, (c.N : ℤ) ∣ m d + kvec c.D c.N h d then 1 else 0)) := by
  rw [nifft_nd, dftV_irfftn c.D c.N hN]
  apply Finset.sum_congr rfl
  intro h hh
  rw [DFT.tab_getD _ _ _ _ (Finset.mem_range.mp hh)]

/-- **N2 (band-limited).** For ANY stored array `ûh`, the field `nifft c ûh` (mask, then inverse
    transform) has its full spectrum supported on the box `|m_d| ≤ Kc` modulo `N`. -/
theorem nifft_bandLimitedV (c : Cfg ℂ) (hq : c.fq ≠ 0) (hN : 0 < c.N) (uh : Array ℂ) :
    BandLimitedV c.D c.N (Kc c) (nifft c uh) := by
  intro a ha
  rw [dftV_nifft c hN]
  apply Finset.sum_eq_zero
  intro h _
  by_cases hk : ∀ d, |kvec c.D c.N h d| ≤ Kc c
  · have h1 : ¬ ∀ d, (c.N : ℤ) ∣ a d - kvec c.D c.N h d := fun hd =>
      ha ⟨kvec c.D c.N h, hk, hd⟩
    have h2 : ¬ ∀ d, (c.N : ℤ) ∣ a d + kvec c.D c.N h d := fun hd =>
      ha ⟨-kvec c.D c.N h, fun d => by rw [Pi.neg_apply, abs_neg]; exact hk d,
        fun d => by rw [Pi.neg_apply, sub_neg_eq_add]; exact hd d⟩
    rw [if_neg h1, if_neg h2]; simp
  · rw [(mask_nd_eq_zero_iff c hq h).mpr hk]; simp

/-! ### the reachable case `ûh = rfftnM D N x`, `x` real -/

/-- the total weight with which the stored modes cover a wavenumber vector -/
noncomputable def cover (D N : ℕ) (m : Fin D → ℤ) : ℂ :=
  ∑ h ∈ range (numModes D N), ((herm_weight D N h : ℂ) / 2) *
    ((if ∀ d, (N : ℤ) ∣ m d - kvec D N h d then 1 else 0)
      + (if ∀ d, (N : ℤ) ∣ m d + kvec D N h d then 1 else 0))

/-- the unit impulse at the grid point `0` -/
noncomputable def delta0 (D N : ℕ) : Array ℂ := tab (N ^ D) (fun j => if j = 0 then 1 else 0)

theorem delta0_real (D N : ℕ) : IsRealND D N (delta0 D N) := by
  intro j hj
  unfold delta0
  rw [DFT.tab_getD _ _ _ _ hj]
  split_ifs <;> simp

theorem dftV_delta0 (D N : ℕ) (hN : 0 < N) (k : Fin D → ℤ) : dftV D N (delta0 D N) k = 1 := by
  unfold delta0
  rw [dftV_tab, Finset.sum_eq_single_of_mem 0 (Finset.mem_range.mpr (pow_pos hN D))]
  · rw [if_pos rfl, vdot_zero_index, zpow_zero, one_mul]
  · intro j _ hj
    rw [if_neg hj, zero_mul]

/-- **every wavenumber vector is covered with total weight exactly `1`** by the stored half
    spectrum (obtained from the round trip `irfftn ∘ rfftn = id` applied to the unit impulse) -/
theorem cover_eq_one (D N : ℕ) (hD : 0 < D) (hN : 0 < N) (m : Fin D → ℤ) : cover D N m = 1 := by
  have h1 : dftV D N (irfftnM D N (rfftnM D N (delta0 D N))) m = 1 := by
    rw [dftV_congr D N _ (delta0 D N)
      (fun j hj => irfftn_rfftn D N hD hN (delta0 D N) (delta0_real D N) j hj), dftV_delta0 D N hN]
  rw [dftV_irfftn D N hN] at h1
  rw [← h1]
  unfold cover
  apply Finset.sum_congr rfl
  intro h hh
  rw [rfftn_eq_dftV D N hN _ h (Finset.mem_range.mp hh), dftV_delta0 D N hN]
  simp

/-- for a real state the spectrum of `nifft c (rfftn x)` is the spectrum of `x` times the masked
    cover weight, at EVERY wavenumber vector -/
theorem dftV_nifft_rfftn_general (c : Cfg ℂ) (hN : 0 < c.N) (x : Array ℂ) (hx : IsRealND c.D c.N x)
    (m : Fin c.D → ℤ) :
    dftV c.D c.N (nifft c (rfftnM c.D c.N x)) m
      = dftV c.D c.N x m * ∑ h ∈ range (numModes c.D c.N), ((herm_weight c.D c.N h : ℂ) / 2) *
          (mask c h * ((if ∀ d, (c.N : ℤ) ∣ m d - kvec c.D c.N h d then 1 else 0)
            + (if ∀ d, (c.N : ℤ) ∣ m d + kvec c.D c.N h d then 1 else 0))) := by
  rw [dftV_nifft c hN, Finset.mul_sum]
  apply Finset.sum_congr rfl
  intro h hh
  rw [rfftn_eq_dftV c.D c.N hN x h (Finset.mem_range.mp hh), map_mul, conj_mask,
    conj_dftV c.D c.N x hx]
  have e1 : dftV c.D c.N x (kvec c.D c.N h) * (if ∀ d, (c.N : ℤ) ∣ m d - kvec c.D c.N h d then 1 else 0)
      = dftV c.D c.N x m * (if ∀ d, (c.N : ℤ) ∣ m d - kvec c.D c.N h d then 1 else 0) := by
    split_ifs with hc
    · have hc' : VCongr c.D c.N m (kvec c.D c.N h) := hc
      rw [dftV_of_congr x hc']
    · simp
  have e2 : dftV c.D c.N x (-kvec c.D c.N h) * (if ∀ d, (c.N : ℤ) ∣ m d + kvec c.D c.N h d then 1 else 0)
      = dftV c.D c.N x m * (if ∀ d, (c.N : ℤ) ∣ m d + kvec c.D c.N h d then 1 else 0) := by
    split_ifs with hc
    · have hc' : VCongr c.D c.N m (-kvec c.D c.N h) := fun d => by
        rw [Pi.neg_apply, sub_neg_eq_add]; exact hc d
      rw [dftV_of_congr x hc']
    · simp
  calc (herm_weight c.D c.N h : ℂ) / 2 *
        (mask c h * dftV c.D c.N x (kvec c.D c.N h) * (if ∀ d, (c.N : ℤ) ∣ m d - kvec c.D c.N h d then 1 else 0)
          + mask c h * dftV c.D c.N x (-kvec c.D c.N h)
              * (if ∀ d, (c.N : ℤ) ∣ m d + kvec c.D c.N h d then 1 else 0))
      = (herm_weight c.D c.N h : ℂ) / 2 *
        (mask c h * (dftV c.D c.N x (kvec c.D c.N h) * (if ∀ d, (c.N : ℤ) ∣ m d - kvec c.D c.N h d then 1 else 0))
          + mask c h * (dftV c.D c.N x (-kvec c.D c.N h)
              * (if ∀ d, (c.N : ℤ) ∣ m d + kvec c.D c.N h d then 1 else 0))) := by ring
    _ = _ := by rw [e1, e2]; ring

/-- a box vector congruent to `± k(h)` for a stored mode `h` IS `± k(h)` (`2K < N`), hence the
    stored mode is retained by the mask -/
theorem box_congr_stored {D N : ℕ} (hD : 0 < D) (hN : 0 < N) (K : ℤ) (hK : 2 * K < (N : ℤ))
    (m : Fin D → ℤ) (hm : ∀ d, |m d| ≤ K) (h : ℕ) (hh : h < numModes D N)
    (hc : (∀ d, (N : ℤ) ∣ m d - kvec D N h d) ∨ (∀ d, (N : ℤ) ∣ m d + kvec D N h d)) :
    ∀ d, |kvec D N h d| ≤ K := by
  intro d
  have hb := abs_le.mp (kvec_abs_le D N h hD hN hh d)
  have hmd := abs_le.mp (hm d)
  rcases hc with hc | hc
  · have : m d - kvec D N h d = 0 := by
      apply Int.eq_zero_of_abs_lt_dvd (hc d)
      rw [abs_lt]; constructor <;> omega
    rw [show kvec D N h d = m d by omega]
    exact hm d
  · have : m d + kvec D N h d = 0 := by
      apply Int.eq_zero_of_abs_lt_dvd (hc d)
      rw [abs_lt]; constructor <;> omega
    rw [show kvec D N h d = -m d by omega, abs_neg]
    exact hm d

/-- **N2 (band truncation, on the box).**  For a real state `x`, `û = rfftnM D N x`, any `D ≥ 1`,
    `2·Kc < N` (true for every fraction `≤ 1`): at every wavenumber vector of the box `|m_d| ≤ Kc`
    the full spectrum of `nifft c û = ifft(mask·û)` is the spectrum of `x` … -/
theorem dftV_nifft_rfftn (c : Cfg ℂ) (hD : 0 < c.D) (hq : c.fq ≠ 0) (hN : 0 < c.N)
    (h2 : 2 * Kc c < (c.N : ℤ)) (x : Array ℂ) (hx : IsRealND c.D c.N x)
    (m : Fin c.D → ℤ) (hm : ∀ d, |m d| ≤ Kc c) :
    dftV c.D c.N (nifft c (rfftnM c.D c.N x)) m = dftV c.D c.N x m := by
  rw [dftV_nifft_rfftn_general c hN x hx m]
  have hcov := cover_eq_one c.D c.N hD hN m
  unfold cover at hcov
  have : ∑ h ∈ range (numModes c.D c.N), ((herm_weight c.D c.N h : ℂ) / 2) *
          (mask c h * ((if ∀ d, (c.N : ℤ) ∣ m d - kvec c.D c.N h d then 1 else 0)
            + (if ∀ d, (c.N : ℤ) ∣ m d + kvec c.D c.N h d then 1 else 0))) = 1 := by
    refine Eq.trans ?_ hcov
    apply Finset.sum_congr rfl
    intro h hh
    congr 1
    by_cases hc : (∀ d, (c.N : ℤ) ∣ m d - kvec c.D c.N h d) ∨ (∀ d, (c.N : ℤ) ∣ m d + kvec c.D c.N h d)
    · rw [(mask_nd_eq_one_iff c hq h).mpr
        (box_congr_stored hD hN (Kc c) h2 m hm h (Finset.mem_range.mp hh) hc), one_mul]
    · rw [if_neg (fun h' => hc (Or.inl h')), if_neg (fun h' => hc (Or.inr h'))]
      simp
  rw [this, mul_one]

/-- … and zero at every wavenumber vector not congruent to a box vector. -/
theorem dftV_nifft_rfftn_off (c : Cfg ℂ) (hq : c.fq ≠ 0) (hN : 0 < c.N)
    (x : Array ℂ) (a : Fin c.D → ℤ)
    (ha : ¬ ∃ m : Fin c.D → ℤ, (∀ d, |m d| ≤ Kc c) ∧ VCongr c.D c.N a m) :
    dftV c.D c.N (nifft c (rfftnM c.D c.N x)) a = 0 :=
  nifft_bandLimitedV c hq hN _ a ha

/-- the truncated spectrum of `nifft c (rfftn x)` is the truncated spectrum of `x` -/
theorem truncV_dftV_nifft_rfftn (c : Cfg ℂ) (hD : 0 < c.D) (hq : c.fq ≠ 0) (hN : 0 < c.N)
    (h2 : 2 * Kc c < (c.N : ℤ)) (x : Array ℂ) (hx : IsRealND c.D c.N x) (m : Fin c.D → ℤ) :
    truncV (Kc c) (dftV c.D c.N (nifft c (rfftnM c.D c.N x))) m = truncV (Kc c) (dftV c.D c.N x) m := by
  unfold truncV
  split_ifs with hm
  · exact dftV_nifft_rfftn c hD hq hN h2 x hx m hm
  · rfl

/-- the field `nifft c ûh` is real, any `D` -/
theorem nifft_isRealND (c : Cfg ℂ) (hN : 0 < c.N) (uh : Array ℂ) : IsRealND c.D c.N (nifft c uh) :=
  fun j hj => Conserve.nifft_real_nd c hN uh j hj

/-- **N2 in the stored layout.**  `rfftn (nifft c (rfftn x)) = mask ⊙ rfftn x` at every stored mode:
    the pipeline `ifft(mask·û)` is the band truncation `P_K x` of the real state to the box `Kc`. -/
theorem rfftn_nifft_rfftn (c : Cfg ℂ) (hD : 0 < c.D) (hq : c.fq ≠ 0) (hN : 0 < c.N)
    (h2 : 2 * Kc c < (c.N : ℤ)) (x : Array ℂ) (hx : IsRealND c.D c.N x)
    (h : ℕ) (hh : h < numModes c.D c.N) :
    (rfftnM c.D c.N (nifft c (rfftnM c.D c.N x))).getD h 0 = mask c h * (rfftnM c.D c.N x).getD h 0 := by
  rw [rfftn_eq_dftV c.D c.N hN _ h hh, rfftn_eq_dftV c.D c.N hN x h hh]
  by_cases hk : ∀ d, |kvec c.D c.N h d| ≤ Kc c
  · rw [(mask_nd_eq_one_iff c hq h).mpr hk, one_mul]
    exact dftV_nifft_rfftn c hD hq hN h2 x hx _ hk
  · rw [(mask_nd_eq_zero_iff c hq h).mpr hk, zero_mul]
    apply nifft_bandLimitedV c hq hN
    exact not_congr_box (Kc c) ((c.N / 2 : ℕ) : ℤ) (by omega) _ hk (kvec_abs_le c.D c.N h hD hN hh)

/-- **N2 on the grid.**  `ifft(mask·rfftn x)` is the trigonometric polynomial with the box-truncated
    spectrum of `x`, sampled on the grid:
    `(nifft c (rfftn x))_j = N^{-D} Σ_{|m_d| ≤ Kc} X(m) e^{+2πi m·j/N}`. -/
theorem nifft_rfftn_grid (c : Cfg ℂ) (hD : 0 < c.D) (hq : c.fq ≠ 0) (hN : 0 < c.N)
    (h2 : 2 * Kc c < (c.N : ℤ)) (x : Array ℂ) (hx : IsRealND c.D c.N x) (j : ℕ) (hj : j < c.N ^ c.D) :
    (nifft c (rfftnM c.D c.N x)).getD j 0
      = (1 / ((c.N ^ c.D : ℕ) : ℂ)) * ∑ m ∈ box c.D (Kc c),
          dftV c.D c.N x m * zeta c.N ^ (-(vdot c.D c.N m j)) := by
  rw [bandLimitedV_grid c.D c.N hN (Kc c) h2 _ (nifft_bandLimitedV c hq hN _) j hj]
  congr 1
  apply Finset.sum_congr rfl
  intro m hm
  rw [dftV_nifft_rfftn c hD hq hN h2 x hx m (mem_box.mp hm)]

end Exponax.AliasND
