import ExponaxModel.Proofs.SpectralOpsEq
import ExponaxModel.Proofs.SmallGaps2XY
import ExponaxModel.Proofs.LerayAlgebra
import ExponaxModel.Proofs.C2RHermitian
import ExponaxModel.Proofs.SmallGapsSymbols
/-
`exponax.make_incompressible(field, indexing="xy")`  (C10 / C04), over `ℂ`, `D ≥ 2`, `N ≥ 1`.

The regenerated `Gen.SpectralOps.make_incompressible D N D "xy"` is the `"ij"` function conjugated with the exchange of
channels 0 and 1 (`swapCh`): under `"xy"` channel `c` is the velocity component along array axis `sw c`.

  1. `derivative_operator_entry_xy`        d^{xy}[d, h] = d^{ij}[sw d, h]   (`_one`: for `D = 1` the indexings coincide)
  2. `make_incompressible_xy` (MAIN)       make_incompressible(f, "xy") = swapCh (make_incompressible(swapCh f, "ij"))
     `make_incompressible_spec`            any indexing string: = irfftn of `projSpec` (the source's formula, per mode)
     `make_incompressible_xy_leray`        = irfftn ∘ `lerayXY` ∘ rfftn,  `lerayXY û = swapCh (Nonlin.leray (swapCh û))`
  3. `lerayXY_divfree`, `lerayXY_idem`     in Fourier space: divergence-free (xy convention) at EVERY stored mode, idempotent
     `make_incompressible_xy_divfree`      result (after irfftn, re-transformed): divergence-free at every stored mode with
                                           `herm_weight = 2`, every complex field
     `…_divfree_of_fixed`, `…_idem_of_fixed`   … wherever / whenever the projected spectrum survives `rfftn ∘ irfftn` (`FixedAt`)
     `fixedAt_of_real_odd`                 which holds at every stored mode for REAL fields on ODD grids, hence
     `…_divfree_real_odd`, `…_idem_real_odd`   unconditional statements there; the same for `"ij"` (`make_incompressible_ij_…`)
  4. `build_wavenumbers_xy_ne_reverse`     "xy reverses all components" is wrong in `D = 3`

NOT a theorem (checked by evaluating the model at floating point, `D = 2, 3`, `N = 4, 6`, real fields, both indexings):
on EVEN grids the result is not divergence-free at stored modes of the Nyquist column that mix a Nyquist and a
non-Nyquist wavenumber (`herm_weight = 1`, e.g. `D = 2, N = 4`, modes `(1, 2)` and `(3, 2)`), and `make_incompressible`
is not idempotent there: `irfftn` keeps only the Hermitian part of the projected spectrum, and the conjugate partner of
such a mode carries a wave vector that is not the opposite one.  Hence the restriction to `herm_weight = 2` resp. odd `N`.
-/
set_option linter.unusedVariables false
namespace Exponax.IncompressibleXY
open Exponax Exponax.Layout Exponax.Transform Exponax.Nonlin Exponax.Gen.SpectralOps Exponax.NonlinFunsEq
  Exponax.SpectralOpsEq Exponax.SmallGaps2 Exponax.Gen.SpectralLayout

attribute [local congr] tab_congr' tab2_congr' tabC_congr' sumRange_congr'

/-! ### 1. the derivative operator under `"xy"` -/

/-- **`build_derivative_operator(…, indexing="xy")[d, h] = build_derivative_operator(…, indexing="ij")[sw d, h]`**
    (`D ≥ 2`; every `d`, also `d ≥ D` where both sides are the default `0`) -/
theorem derivative_operator_entry_xy (D N : ℕ) (hD : 2 ≤ D) (hN : 0 < N) (L : ℂ) (d h : ℕ) :
    derivative_operator_entry D L N "xy" d h = derivative_operator_entry D L N "ij" (sw d) h := by
  unfold derivative_operator_entry build_derivative_operator build_scaled_wavenumbers
  simp only []
  rw [(build_wavenumbers_xy_swap D N hD hN _).1, ← swap01_map, ← swap01_map]
  apply swap01_getD
  rw [List.length_map, List.length_map, build_wavenumbers_ij D N (by omega) hN, wnVec_length]
  exact hD

/-- for `D = 1` the two indexings coincide -/
theorem derivative_operator_entry_xy_one (N : ℕ) (hN : 0 < N) (L : ℂ) (d h : ℕ) :
    derivative_operator_entry 1 L N "xy" d h = derivative_operator_entry 1 L N "ij" d h := by
  unfold derivative_operator_entry build_derivative_operator build_scaled_wavenumbers build_wavenumbers
  have e : ((("xy" : String) == "xy") && (1 == 2)) = false := by decide
  have e' : ((("ij" : String) == "xy") && (1 == 2)) = false := by decide
  simp only [e, e', Bool.false_eq_true, if_false]
  have : Int.toNat (((1 : ℕ) : ℤ) - 1) = 0 := by simp
  simp only [this, List.replicate_zero, List.nil_append, stack_meshgrid_xy_one]

/-! ### 2. exchanging channels 0 and 1 -/

/-- exchange channels 0 and 1 of a multi-channel array (identity on fewer than 2 channels) -/
def swapCh {K : Type} (u : MC K) : MC K := (swap01 u.toList).toArray

@[simp] theorem swapCh_swapCh {K : Type} (u : MC K) : swapCh (swapCh u) = u := by
  simp [swapCh]

@[simp] theorem swapCh_size {K : Type} (u : MC K) : (swapCh u).size = u.size := by
  simp [swapCh]

theorem swapCh_getD {K : Type} (u : MC K) (hu : 2 ≤ u.size) (i : ℕ) :
    (swapCh u).getD i #[] = u.getD (sw i) #[] := by
  have h1 : (swapCh u).getD i #[] = (swap01 u.toList).getD i #[] := by
    simp [swapCh, Array.getD_eq_getD_getElem?, List.getD_eq_getElem?_getD]
  have h2 : u.getD (sw i) #[] = u.toList.getD (sw i) #[] := by
    simp [Array.getD_eq_getD_getElem?, List.getD_eq_getElem?_getD]
  rw [h1, h2]
  exact swap01_getD _ (by simpa using hu) _ _

theorem at2_swapCh (u : MC ℂ) (hu : 2 ≤ u.size) (i x : ℕ) : at2 (swapCh u) i x = at2 u (sw i) x := by
  unfold at2; rw [swapCh_getD u hu]

theorem swapCh_tabC (D : ℕ) (hD : 2 ≤ D) (F : ℕ → Array ℂ) :
    swapCh (tabC D F) = tabC D (fun i => F (sw i)) := by
  unfold swapCh tabC tab
  have : ((Array.range D).map F).toList = (List.range D).map F := by simp
  rw [this, ← range_map_sw D hD F]
  apply Array.ext'
  simp

/-! ### the spectrum `make_incompressible` hands to `irfftn`, any indexing string -/

theorem sumList_swap01 (l : List ℂ) : sumList (swap01 l) = sumList l := by
  rw [sumList_eq, sumList_eq]
  rcases l with _ | ⟨a, _ | ⟨b, t⟩⟩
  · rfl
  · rfl
  · simp only [swap01, List.sum_cons]; ring

theorem sumList_map_sw (D : ℕ) (hD : 2 ≤ D) (f : ℕ → ℂ) :
    sumList ((List.range D).map (fun d => f (sw d))) = sumList ((List.range D).map f) := by
  rw [range_map_sw D hD f, sumList_swap01]

theorem laplace_op_swap01 (l : List ℂ) (order : ℕ) :
    Gen.Steppers.laplace_op (swap01 l) order = Gen.Steppers.laplace_op l order := by
  unfold Gen.Steppers.laplace_op
  rw [← swap01_map, sumList_swap01]

/-- the projected spectrum of channel `i` at the stored mode `h`, exactly as the source computes it:
    `û_i − d_i · (where(Δ̂ == 0, 1, 1/Δ̂) · Σ_k d_k û_k)` with `d = build_derivative_operator(D, 1.0, N, indexing)` -/
noncomputable def projSpec (D N : ℕ) (ix : String) (field : MC ℂ) (i h : ℕ) : ℂ :=
  (rfftnM D N (field.getD i #[])).getD h 0 -
    derivative_operator_entry D (1 : ℂ) N ix i h *
      ((if Gen.Steppers.laplace_op (List.map (fun k => derivative_operator_entry D (1 : ℂ) N ix k h) (List.range D)) 2 = 0
          then 1
          else 1 / Gen.Steppers.laplace_op (List.map (fun k => derivative_operator_entry D (1 : ℂ) N ix k h) (List.range D)) 2) *
        sumList (List.map (fun k => derivative_operator_entry D (1 : ℂ) N ix k h * (rfftnM D N (field.getD k #[])).getD h 0)
          (List.range D)))

/-- `make_incompressible` = `irfftn` of `projSpec`, channel by channel (every indexing string, every `D`, `N`) -/
theorem make_incompressible_spec (D N : ℕ) (ix : String) (field : MC ℂ) :
    make_incompressible D N D ix field
      = tabC D (fun i => irfftnM D N (tab (numModes D N) (fun h => projSpec D N ix field i h))) := by
  unfold make_incompressible
  snorm
  apply tabC_congr; intro i hi
  apply SpectralOpsEq.irfftnM_congr; intro h hh
  srd
  simp only [isZero_iff]
  unfold projSpec
  congr 3
  apply sumList_range_congr
  intro k hk
  rw [at2_rfft D N D field k h hk]

/-- the `"xy"` projected spectrum is the `"ij"` one of the channel-swapped field, read at the swapped channel -/
theorem projSpec_xy (D N : ℕ) (hD : 2 ≤ D) (hN : 0 < N) (field : MC ℂ) (hf : 2 ≤ field.size) (i h : ℕ) :
    projSpec D N "xy" field i h = projSpec D N "ij" (swapCh field) (sw i) h := by
  unfold projSpec
  simp only [derivative_operator_entry_xy D N hD hN, swapCh_getD field hf, sw_sw]
  rw [range_map_sw D hD (fun k => derivative_operator_entry D (1 : ℂ) N "ij" k h), laplace_op_swap01]
  congr 3
  rw [← sumList_map_sw D hD (fun k => derivative_operator_entry D (1 : ℂ) N "ij" k h *
    (rfftnM D N (field.getD (sw k) #[])).getD h 0)]
  simp only [sw_sw]

/-! ### 2. MAIN -/

/-- **`make_incompressible(field, indexing="xy") = swapCh (make_incompressible(swapCh field, indexing="ij"))`**:
    structural equality of the `(D, N, …, N)` arrays, `D ≥ 2`, `N ≥ 1`, any complex field with at least two channels
    (the source requires exactly `D`). -/
theorem make_incompressible_xy (D N : ℕ) (hD : 2 ≤ D) (hN : 0 < N) (field : MC ℂ) (hf : 2 ≤ field.size) :
    make_incompressible D N D "xy" field = swapCh (make_incompressible D N D "ij" (swapCh field)) := by
  rw [make_incompressible_spec, make_incompressible_spec, swapCh_tabC D hD]
  apply tabC_congr; intro i hi
  apply SpectralOpsEq.irfftnM_congr; intro h hh
  rw [tab_getD _ _ _ _ hh, tab_getD _ _ _ _ hh, projSpec_xy D N hD hN field hf]

/-- the same read entry-wise, every channel `i` and grid point `x` (also out of range) -/
theorem make_incompressible_xy_at2 (D N : ℕ) (hD : 2 ≤ D) (hN : 0 < N) (field : MC ℂ) (hf : 2 ≤ field.size)
    (i x : ℕ) :
    at2 (make_incompressible D N D "xy" field) i x
      = at2 (make_incompressible D N D "ij" (swapCh field)) (sw i) x := by
  rw [make_incompressible_xy D N hD hN field hf, at2_swapCh]
  unfold make_incompressible
  simp only [tabC, tab, Array.size_map, Array.size_range]
  exact hD

/-- for `D = 1` the indexing argument has no effect -/
theorem make_incompressible_xy_one (N : ℕ) (hN : 0 < N) (field : MC ℂ) :
    make_incompressible 1 N 1 "xy" field = make_incompressible 1 N 1 "ij" field := by
  rw [make_incompressible_spec, make_incompressible_spec]
  unfold projSpec
  simp only [derivative_operator_entry_xy_one N hN]

/-! ### 3. the projection in the `"xy"` convention: divergence-free, idempotent -/

theorem cfg_s_one (D N : ℕ) : (cfg D N 1).s = (((2 * Real.pi : ℝ)) : ℂ) := by
  rw [cfg_s]; push_cast; ring

theorem two_pi_ne_zero : (2 * Real.pi : ℝ) ≠ 0 := by positivity

theorem leray_size (c : Cfg ℂ) (uh : MC ℂ) : (leray c uh).size = c.D := by
  rw [leray_eq_tab2]; simp [tab2, tab]

/-- the spectra of the channels of a field (what `make_incompressible` computes first) -/
noncomputable def specOf (D N : ℕ) (field : MC ℂ) : MC ℂ := tabC D (fun j => rfftnM D N (field.getD j #[]))

/-- the Leray projection in the `"xy"` convention: channel `c` is the component along array axis `sw c` -/
noncomputable def lerayXY (D N : ℕ) (uh : MC ℂ) : MC ℂ := swapCh (leray (cfg D N 1) (swapCh uh))

theorem specOf_size (D N : ℕ) (field : MC ℂ) : (specOf D N field).size = D := by simp [specOf, tabC, tab]

theorem specOf_getD (D N : ℕ) (field : MC ℂ) (i : ℕ) (hi : i < D) :
    (specOf D N field).getD i #[] = rfftnM D N (field.getD i #[]) := tabC_getD _ _ _ hi

theorem swapCh_specOf (D N : ℕ) (hD : 2 ≤ D) (field : MC ℂ) (hf : 2 ≤ field.size) :
    swapCh (specOf D N field) = specOf D N (swapCh field) := by
  unfold specOf
  rw [swapCh_tabC D hD]
  apply tabC_congr; intro i hi
  rw [swapCh_getD field hf]

theorem lerayXY_getD (D N : ℕ) (hD : 2 ≤ D) (uh : MC ℂ) (i : ℕ) :
    (lerayXY D N uh).getD i #[] = (leray (cfg D N 1) (swapCh uh)).getD (sw i) #[] :=
  swapCh_getD _ (by rw [leray_size]; exact hD) i

theorem at2_lerayXY (D N : ℕ) (hD : 2 ≤ D) (uh : MC ℂ) (i h : ℕ) :
    at2 (lerayXY D N uh) i h = at2 (leray (cfg D N 1) (swapCh uh)) (sw i) h := by
  unfold at2; rw [lerayXY_getD D N hD]

/-- **`make_incompressible(·, "xy") = irfftn ∘ lerayXY ∘ rfftn`**, channel by channel -/
theorem make_incompressible_xy_leray (D N : ℕ) (hD : 2 ≤ D) (hN : 0 < N) (field : MC ℂ) (hf : 2 ≤ field.size) :
    make_incompressible D N D "xy" field
      = tabC D (fun i => irfftnM D N ((lerayXY D N (specOf D N field)).getD i #[])) := by
  rw [make_incompressible_xy D N hD hN field hf, make_incompressible_eq D N (by omega) hN, swapCh_tabC D hD]
  apply tabC_congr; intro i hi
  rw [lerayXY_getD D N hD, swapCh_specOf D N hD field hf]
  rfl

/-- **divergence-free in the `"xy"` convention, in Fourier space**: at EVERY stored mode (also `k = 0`), for every
    spectrum, `Σ_d build_derivative_operator(D, 1, N, "xy")[d, h] · (lerayXY û)[d, h] = 0` -/
theorem lerayXY_divfree (D N : ℕ) (hD : 2 ≤ D) (hN : 0 < N) (uh : MC ℂ) (h : ℕ) (hh : h < numModes D N) :
    sumList ((List.range D).map (fun d =>
      derivative_operator_entry D (1 : ℂ) N "xy" d h * at2 (lerayXY D N uh) d h)) = 0 := by
  have key := leray_div_free (cfg D N 1) (2 * Real.pi) (cfg_s_one D N) two_pi_ne_zero (swapCh uh) h hh
  simp only [cfg_D] at key
  rw [← sumList_map_sw D hD] at key
  refine Eq.trans ?_ key
  apply sumList_range_congr; intro d hd
  rw [derivative_operator_entry_xy D N hD hN,
    derivative_operator_entry_eq D N (by omega) hN 1 (sw d) h (sw_lt D d hD hd), at2_lerayXY D N hD]

/-- `lerayXY` is idempotent (spectra with at least two channels) -/
theorem lerayXY_idem (D N : ℕ) (hD : 2 ≤ D) (uh : MC ℂ) :
    lerayXY D N (lerayXY D N uh) = lerayXY D N uh := by
  unfold lerayXY
  rw [swapCh_swapCh, leray_idempotent (cfg D N 1) (2 * Real.pi) (cfg_s_one D N) two_pi_ne_zero]

/-- channel `i` of the result -/
theorem make_incompressible_xy_getD (D N : ℕ) (hD : 2 ≤ D) (hN : 0 < N) (field : MC ℂ) (hf : 2 ≤ field.size)
    (i : ℕ) (hi : i < D) :
    (make_incompressible D N D "xy" field).getD i #[]
      = irfftnM D N ((lerayXY D N (specOf D N field)).getD i #[]) := by
  rw [make_incompressible_xy_leray D N hD hN field hf, tabC_getD _ _ _ hi]

/-- `P` is a fixed point of `rfftn ∘ irfftn` at the stored mode `h`, on the first `D` channels -/
def FixedAt (D N : ℕ) (P : MC ℂ) (h : ℕ) : Prop :=
  ∀ d < D, (rfftnM D N (irfftnM D N (P.getD d #[]))).getD h 0 = at2 P d h

/-- away from the self-conjugate columns (`herm_weight = 2`) EVERY spectrum is a fixed point at `h` -/
theorem fixedAt_of_weight_two (D N : ℕ) (hD : 0 < D) (hN : 0 < N) (P : MC ℂ) (h : ℕ) (hh : h < numModes D N)
    (hw : herm_weight D N h = 2) : FixedAt D N P h :=
  fun d _ => C2R.rfftn_irfftn_nd_w2 D N hD hN _ h hh hw

/-- **the result is divergence-free in the `"xy"` convention** at every stored mode where the projected spectrum
    survives `rfftn ∘ irfftn` (`FixedAt`) -/
theorem make_incompressible_xy_divfree_of_fixed (D N : ℕ) (hD : 2 ≤ D) (hN : 0 < N) (field : MC ℂ)
    (hf : 2 ≤ field.size) (h : ℕ) (hh : h < numModes D N)
    (hfix : FixedAt D N (lerayXY D N (specOf D N field)) h) :
    sumList ((List.range D).map (fun d => derivative_operator_entry D (1 : ℂ) N "xy" d h *
      (rfftnM D N ((make_incompressible D N D "xy" field).getD d #[])).getD h 0)) = 0 := by
  refine Eq.trans ?_ (lerayXY_divfree D N hD hN (specOf D N field) h hh)
  apply sumList_range_congr; intro d hd
  rw [make_incompressible_xy_getD D N hD hN field hf d hd, hfix d hd]

/-- … in particular at every stored mode off the self-conjugate columns, for EVERY complex field -/
theorem make_incompressible_xy_divfree (D N : ℕ) (hD : 2 ≤ D) (hN : 0 < N) (field : MC ℂ)
    (hf : 2 ≤ field.size) (h : ℕ) (hh : h < numModes D N) (hw : herm_weight D N h = 2) :
    sumList ((List.range D).map (fun d => derivative_operator_entry D (1 : ℂ) N "xy" d h *
      (rfftnM D N ((make_incompressible D N D "xy" field).getD d #[])).getD h 0)) = 0 :=
  make_incompressible_xy_divfree_of_fixed D N hD hN field hf h hh
    (fixedAt_of_weight_two D N (by omega) hN _ h hh hw)

theorem make_incompressible_size (D N : ℕ) (ix : String) (field : MC ℂ) :
    (make_incompressible D N D ix field).size = D := by
  rw [make_incompressible_spec]; simp [tabC, tab]

/-- **idempotence of `make_incompressible(·, "xy")`** when the projected spectrum survives `rfftn ∘ irfftn` at every
    stored mode -/
theorem make_incompressible_xy_idem_of_fixed (D N : ℕ) (hD : 2 ≤ D) (hN : 0 < N) (field : MC ℂ)
    (hf : 2 ≤ field.size)
    (hfix : ∀ h < numModes D N, FixedAt D N (lerayXY D N (specOf D N field)) h) :
    make_incompressible D N D "xy" (make_incompressible D N D "xy" field)
      = make_incompressible D N D "xy" field := by
  have hs : 2 ≤ (make_incompressible D N D "xy" field).size := by rw [make_incompressible_size]; exact hD
  have key : lerayXY D N (specOf D N (make_incompressible D N D "xy" field))
      = lerayXY D N (specOf D N field) := by
    conv_rhs => rw [← lerayXY_idem D N hD]
    unfold lerayXY
    congr 1
    apply leray_congr
    intro d h hd hh
    simp only [cfg_D] at hd
    simp only [modes_cfg] at hh
    rw [swapCh_swapCh, at2_swapCh _ (by rw [specOf_size]; exact hD)]
    unfold at2
    rw [specOf_getD D N _ _ (sw_lt D d hD hd), make_incompressible_xy_getD D N hD hN field hf _ (sw_lt D d hD hd)]
    have := hfix h hh _ (sw_lt D d hD hd)
    rw [this, at2_lerayXY D N hD, sw_sw]
    rfl
  rw [make_incompressible_xy_leray D N hD hN _ hs, key, ← make_incompressible_xy_leray D N hD hN field hf]

/-! ### real fields on odd grids: the hypotheses `FixedAt` hold at every stored mode -/

/-- the Leray projection commutes with conjugation between two stored modes carrying opposite wave vectors -/
theorem leray_conj_pair (c : Cfg ℂ) (uh : MC ℂ) (h h' : ℕ) (hh : h < modes c) (hh' : h' < modes c)
    (hd : ∀ d < c.D, deriv c d h' = (starRingEnd ℂ) (deriv c d h))
    (hu : ∀ d < c.D, at2 uh d h' = (starRingEnd ℂ) (at2 uh d h)) (d : ℕ) (hdD : d < c.D) :
    at2 (leray c uh) d h' = (starRingEnd ℂ) (at2 (leray c uh) d h) := by
  have hl : laplace c 2 h' = (starRingEnd ℂ) (laplace c 2 h) := by
    rw [laplace_two_eq_sum, laplace_two_eq_sum, map_sum]
    exact Finset.sum_congr rfl (fun e he => by rw [hd e (Finset.mem_range.mp he), map_pow])
  have hi : invLapZero c h' = (starRingEnd ℂ) (invLapZero c h) := by
    rw [invLapZero_eq, invLapZero_eq, hl]
    by_cases h0 : laplace c 2 h = 0
    · simp [h0]
    · have : (starRingEnd ℂ) (laplace c 2 h) ≠ 0 := by simpa using h0
      rw [if_neg h0, if_neg this, map_div₀, map_one]
  rw [at2_leray_matrix c uh d h' hdD hh', at2_leray_matrix c uh d h hdD hh, map_sum]
  apply Finset.sum_congr rfl; intro e he
  have he' := Finset.mem_range.mp he
  rw [hd d hdD, hd e he', hu e he', hi]
  simp only [map_mul, map_sub]
  split_ifs <;> simp

theorem deriv_conjIdx_odd (D N : ℕ) (hD : 0 < D) (hodd : N % 2 = 1) (h : ℕ) (hh : h < numModes D N)
    (hw : herm_weight D N h = 1) (d : ℕ) (hd : d < D) :
    deriv (cfg D N 1) d (C2R.conjIdx D N h) = (starRingEnd ℂ) (deriv (cfg D N 1) d h) := by
  rw [deriv_eq_real _ _ (cfg_s_one D N), deriv_eq_real _ _ (cfg_s_one D N)]
  have := SmallGaps.wnFlat_conjIdx_odd D N h hD hodd hh hw d hd
  simp only [kInt, cfg_D, cfg_N, this, map_mul, Complex.conj_I, Complex.conj_ofReal]
  push_cast
  ring

/-- **odd `N`, real field**: the projected spectrum is the spectrum of a real field — a fixed point of
    `rfftn ∘ irfftn` at every stored mode -/
theorem fixedAt_of_real_odd (D N : ℕ) (hD : 2 ≤ D) (hodd : N % 2 = 1) (field : MC ℂ) (hf : 2 ≤ field.size)
    (hreal : ∀ d < D, ∀ j < N ^ D, ((field.getD d #[]).getD j 0).im = 0) (h : ℕ) (hh : h < numModes D N) :
    FixedAt D N (lerayXY D N (specOf D N field)) h := by
  have hN : 0 < N := by omega
  have hD0 : 0 < D := by omega
  intro d hd
  refine (C2R.c2r_fixed_iff_herm D N hD0 hN _).mpr ?_ h hh
  intro m hm hw
  have hm' := C2R.conjIdx_lt D N m hD0 hN
  have key := leray_conj_pair (cfg D N 1) (swapCh (specOf D N field)) m (C2R.conjIdx D N m) hm hm'
    (fun e he => deriv_conjIdx_odd D N hD0 hodd m hm hw e he)
    (fun e he => by
      simp only [cfg_D] at he
      rw [at2_swapCh _ (by rw [specOf_size]; exact hD), at2_swapCh _ (by rw [specOf_size]; exact hD)]
      unfold at2
      rw [specOf_getD D N _ _ (sw_lt D e hD he)]
      exact C2R.rfftn_conjIdx_of_real D N hD0 hN _ (hreal _ (sw_lt D e hD he)) m hm hw)
    (sw d) (sw_lt D d hD hd)
  have e1 : ∀ x, ((lerayXY D N (specOf D N field)).getD d #[]).getD x 0
      = at2 (leray (cfg D N 1) (swapCh (specOf D N field))) (sw d) x := fun x => at2_lerayXY D N hD _ d x
  rw [e1, e1, key, Complex.conj_conj]

/-- **odd `N`, real field: the result of `make_incompressible(·, "xy")` is divergence-free in the `"xy"` convention at
    EVERY stored mode** -/
theorem make_incompressible_xy_divfree_real_odd (D N : ℕ) (hD : 2 ≤ D) (hodd : N % 2 = 1) (field : MC ℂ)
    (hf : 2 ≤ field.size) (hreal : ∀ d < D, ∀ j < N ^ D, ((field.getD d #[]).getD j 0).im = 0)
    (h : ℕ) (hh : h < numModes D N) :
    sumList ((List.range D).map (fun d => derivative_operator_entry D (1 : ℂ) N "xy" d h *
      (rfftnM D N ((make_incompressible D N D "xy" field).getD d #[])).getD h 0)) = 0 :=
  make_incompressible_xy_divfree_of_fixed D N hD (by omega) field hf h hh
    (fixedAt_of_real_odd D N hD hodd field hf hreal h hh)

/-- **odd `N`, real field: `make_incompressible(·, "xy")` is idempotent** -/
theorem make_incompressible_xy_idem_real_odd (D N : ℕ) (hD : 2 ≤ D) (hodd : N % 2 = 1) (field : MC ℂ)
    (hf : 2 ≤ field.size) (hreal : ∀ d < D, ∀ j < N ^ D, ((field.getD d #[]).getD j 0).im = 0) :
    make_incompressible D N D "xy" (make_incompressible D N D "xy" field)
      = make_incompressible D N D "xy" field :=
  make_incompressible_xy_idem_of_fixed D N hD (by omega) field hf
    (fun h hh => fixedAt_of_real_odd D N hD hodd field hf hreal h hh)

/-! ### the same statements for the default `indexing="ij"` (by the conjugation of the MAIN theorem) -/

theorem make_incompressible_ij_of_xy (D N : ℕ) (hD : 2 ≤ D) (hN : 0 < N) (field : MC ℂ) (hf : 2 ≤ field.size) :
    make_incompressible D N D "ij" field = swapCh (make_incompressible D N D "xy" (swapCh field)) := by
  rw [make_incompressible_xy D N hD hN (swapCh field) (by rw [swapCh_size]; exact hf), swapCh_swapCh, swapCh_swapCh]

theorem swapCh_real (D N : ℕ) (hD : 2 ≤ D) (field : MC ℂ) (hf : 2 ≤ field.size)
    (hreal : ∀ d < D, ∀ j < N ^ D, ((field.getD d #[]).getD j 0).im = 0) :
    ∀ d < D, ∀ j < N ^ D, (((swapCh field).getD d #[]).getD j 0).im = 0 := by
  intro d hd j hj
  rw [swapCh_getD field hf]
  exact hreal _ (sw_lt D d hD hd) j hj

/-- `"ij"`: divergence-free result at every stored mode where the `"xy"` statement holds for the swapped field -/
theorem make_incompressible_ij_divfree_of_xy (D N : ℕ) (hD : 2 ≤ D) (hN : 0 < N) (field : MC ℂ)
    (hf : 2 ≤ field.size) (h : ℕ)
    (hxy : sumList ((List.range D).map (fun d => derivative_operator_entry D (1 : ℂ) N "xy" d h *
      (rfftnM D N ((make_incompressible D N D "xy" (swapCh field)).getD d #[])).getD h 0)) = 0) :
    sumList ((List.range D).map (fun d => derivative_operator_entry D (1 : ℂ) N "ij" d h *
      (rfftnM D N ((make_incompressible D N D "ij" field).getD d #[])).getD h 0)) = 0 := by
  rw [← sumList_map_sw D hD]
  refine Eq.trans ?_ hxy
  apply sumList_range_congr; intro d hd
  rw [derivative_operator_entry_xy D N hD hN, make_incompressible_ij_of_xy D N hD hN field hf,
    swapCh_getD _ (by rw [make_incompressible_size]; exact hD), sw_sw]

/-- `"ij"`, every complex field: divergence-free result at every stored mode off the self-conjugate columns -/
theorem make_incompressible_ij_divfree (D N : ℕ) (hD : 2 ≤ D) (hN : 0 < N) (field : MC ℂ)
    (hf : 2 ≤ field.size) (h : ℕ) (hh : h < numModes D N) (hw : herm_weight D N h = 2) :
    sumList ((List.range D).map (fun d => derivative_operator_entry D (1 : ℂ) N "ij" d h *
      (rfftnM D N ((make_incompressible D N D "ij" field).getD d #[])).getD h 0)) = 0 :=
  make_incompressible_ij_divfree_of_xy D N hD hN field hf h
    (make_incompressible_xy_divfree D N hD hN _ (by rw [swapCh_size]; exact hf) h hh hw)

/-- `"ij"`, odd `N`, real field: divergence-free result at EVERY stored mode -/
theorem make_incompressible_ij_divfree_real_odd (D N : ℕ) (hD : 2 ≤ D) (hodd : N % 2 = 1) (field : MC ℂ)
    (hf : 2 ≤ field.size) (hreal : ∀ d < D, ∀ j < N ^ D, ((field.getD d #[]).getD j 0).im = 0)
    (h : ℕ) (hh : h < numModes D N) :
    sumList ((List.range D).map (fun d => derivative_operator_entry D (1 : ℂ) N "ij" d h *
      (rfftnM D N ((make_incompressible D N D "ij" field).getD d #[])).getD h 0)) = 0 :=
  make_incompressible_ij_divfree_of_xy D N hD (by omega) field hf h
    (make_incompressible_xy_divfree_real_odd D N hD hodd _ (by rw [swapCh_size]; exact hf)
      (swapCh_real D N hD field hf hreal) h hh)

/-- `"ij"`, odd `N`, real field: `make_incompressible` is idempotent -/
theorem make_incompressible_ij_idem_real_odd (D N : ℕ) (hD : 2 ≤ D) (hodd : N % 2 = 1) (field : MC ℂ)
    (hf : 2 ≤ field.size) (hreal : ∀ d < D, ∀ j < N ^ D, ((field.getD d #[]).getD j 0).im = 0) :
    make_incompressible D N D "ij" (make_incompressible D N D "ij" field)
      = make_incompressible D N D "ij" field := by
  have hN : 0 < N := by omega
  have hs : 2 ≤ (make_incompressible D N D "ij" field).size := by rw [make_incompressible_size]; exact hD
  rw [make_incompressible_ij_of_xy D N hD hN _ hs, make_incompressible_ij_of_xy D N hD hN field hf, swapCh_swapCh,
    make_incompressible_xy_idem_real_odd D N hD hodd _ (by rw [swapCh_size]; exact hf)
      (swapCh_real D N hD field hf hreal)]

/-! ### 4. non-vacuity, and the wrong reading "`xy` reverses all components" -/

/-- the hypotheses of the theorems above are satisfiable: `D = 3`, `N = 3`, a real three-channel field -/
example : ∃ (D N : ℕ) (field : MC ℂ), 2 ≤ D ∧ 0 < N ∧ N % 2 = 1 ∧ 2 ≤ field.size ∧
    (∀ d < D, ∀ j < N ^ D, ((field.getD d #[]).getD j 0).im = 0) ∧ 0 < numModes D N := by
  refine ⟨3, 3, tab2 3 27 (fun ch j => ((ch + j : ℕ) : ℂ)), by norm_num, by norm_num, by norm_num, ?_, ?_, by decide⟩
  · simp [tab2, tab]
  · intro d hd j hj
    rw [tab2_getD _ _ _ _ hd, tab_getD _ _ _ _ (by simpa using hj)]
    exact Complex.natCast_im _

/-- a stored mode off the self-conjugate columns (`herm_weight = 2`) exists: `D = 3`, `N = 4`, `h = 1` -/
example : (1 : ℕ) < numModes 3 4 ∧ herm_weight 3 4 1 = 2 := by decide

/-- **the wrong reading**: in `D = 3` the `"xy"` wavenumber vector is NOT the reversed `"ij"` one (only the first two
    components are exchanged): `N = 4`, index `(1, 0, 0)`: `"xy"` reads `(0, 1, 0)`, the reversal `(0, 0, 1)` -/
theorem build_wavenumbers_xy_ne_reverse :
    build_wavenumbers 3 4 "xy" [1, 0, 0] ≠ (build_wavenumbers 3 4 "ij" [1, 0, 0]).reverse := by
  obtain ⟨_, _, h3, h3'⟩ := build_wavenumbers_xy_two_three 4 (by norm_num) [1, 0, 0]
  rw [h3, h3']
  decide

/-- … and it is the swap: `"xy"` reads `(k₁, k₀, k₂)` -/
theorem build_wavenumbers_xy_three_example :
    build_wavenumbers 3 4 "ij" [1, 0, 0] = [1, 0, 0] ∧ build_wavenumbers 3 4 "xy" [1, 0, 0] = [0, 1, 0] := by
  obtain ⟨_, _, h3, h3'⟩ := build_wavenumbers_xy_two_three 4 (by norm_num) [1, 0, 0]
  rw [h3, h3']
  decide

end Exponax.IncompressibleXY
