import Mathlib.Tactic
import Mathlib.Data.Complex.Basic
import ExponaxModel.Proofs.Instances
import ExponaxModel.Model.Nonlin
/-
P0 / P4 — array read-off lemmas (`tab`, `tab2`, `at2`), the derivative-operator entry, the
second-order Laplace symbol and the two guarded inverse Laplacians at `K := ℂ`.

Throughout, a configuration `c : Nonlin.Cfg ℂ` has a REAL scale `c.s = ((s : ℝ) : ℂ)`, `s ≠ 0`.
-/
set_option linter.unusedVariables false
namespace Exponax.Nonlin
open Exponax Exponax.Layout Exponax.Transform

/-! ### P0.1 arrays -/

@[simp] theorem tab_size {α : Type} (n : ℕ) (f : ℕ → α) : (tab n f).size = n := by
  simp [tab]

theorem tab_getD {α : Type} (n : ℕ) (f : ℕ → α) (i : ℕ) (d : α) (hi : i < n) :
    (tab n f).getD i d = f i := by
  simp [tab, Array.getD, hi]

theorem tab_getD_of_le {α : Type} (n : ℕ) (f : ℕ → α) (i : ℕ) (d : α) (hi : n ≤ i) :
    (tab n f).getD i d = d := by
  have : ¬ i < n := by omega
  simp [tab, Array.getD, this]

/-- extensionality of `tab`: only the values at `i < n` matter -/
theorem tab_congr {α : Type} (n : ℕ) (f g : ℕ → α) (h : ∀ i, i < n → f i = g i) : tab n f = tab n g := by
  apply Array.ext
  · simp
  · intro i h1 h2
    simp only [tab_size] at h1
    simpa [tab] using h i h1

theorem at2_tab2 (nc n : ℕ) (f : ℕ → ℕ → ℂ) (ch i : ℕ) (hch : ch < nc) (hi : i < n) :
    at2 (tab2 nc n f) ch i = f ch i := by
  unfold at2 tab2
  rw [tab_getD _ _ _ _ hch, tab_getD _ _ _ _ hi]

theorem at2_tab2_of_le_ch (nc n : ℕ) (f : ℕ → ℕ → ℂ) (ch i : ℕ) (hch : nc ≤ ch) :
    at2 (tab2 nc n f) ch i = 0 := by
  unfold at2 tab2
  rw [tab_getD_of_le _ _ _ _ hch]
  simp [Array.getD]

theorem at2_tab2_of_le_idx (nc n : ℕ) (f : ℕ → ℕ → ℂ) (ch i : ℕ) (hi : n ≤ i) :
    at2 (tab2 nc n f) ch i = 0 := by
  unfold at2 tab2
  rcases Nat.lt_or_ge ch nc with hch | hch
  · rw [tab_getD _ _ _ _ hch, tab_getD_of_le _ _ _ _ hi]
  · rw [tab_getD_of_le _ _ _ _ hch]
    simp [Array.getD]

/-- extensionality of `tab2` -/
theorem tab2_congr (nc n : ℕ) (f g : ℕ → ℕ → ℂ) (h : ∀ ch i, ch < nc → i < n → f ch i = g ch i) :
    tab2 nc n f = tab2 nc n g := by
  unfold tab2
  exact tab_congr _ _ _ (fun ch hch => tab_congr _ _ _ (fun i hi => h ch i hch hi))

/-- `tabC` of whole-channel constructors, read entrywise -/
theorem at2_tabC (nc : ℕ) (f : ℕ → Array ℂ) (ch i : ℕ) (hch : ch < nc) :
    at2 (tabC nc f) ch i = (f ch).getD i 0 := by
  unfold at2 tabC
  rw [tab_getD _ _ _ _ hch]

/-! ### P0.2 sums over `List.range` -/

theorem sumList_range_eq (n : ℕ) (f : ℕ → ℂ) :
    sumList ((List.range n).map f) = ∑ d ∈ Finset.range n, f d := by
  rw [sumList_eq]
  induction n with
  | zero => simp
  | succ n ih => simp [List.range_succ, Finset.sum_range_succ, ih]

/-! ### P0.3 derivative operator and Laplace symbol -/

/-- the integer wavenumber of stored mode `h` along axis `d` -/
def kInt (c : Cfg ℂ) (d h : ℕ) : ℤ := (wnFlat c.D c.N h).getD d 0

/-- `deriv c d h = i · (s · k_d)` -/
theorem deriv_eq (c : Cfg ℂ) (d h : ℕ) :
    deriv c d h = Complex.I * (c.s * ((kInt c d h : ℤ) : ℂ)) := rfl

theorem deriv_eq_real (c : Cfg ℂ) (s : ℝ) (hs : c.s = (s : ℂ)) (d h : ℕ) :
    deriv c d h = Complex.I * (((s * (kInt c d h : ℝ) : ℝ)) : ℂ) := by
  rw [deriv_eq, hs]; push_cast; ring

theorem deriv_eq_zero_of_k (c : Cfg ℂ) (d h : ℕ) (hk : kInt c d h = 0) : deriv c d h = 0 := by
  rw [deriv_eq, hk]; simp

theorem deriv_sq (c : Cfg ℂ) (d h : ℕ) :
    deriv c d h ^ 2 = -(c.s ^ 2 * ((kInt c d h : ℤ) : ℂ) ^ 2) := by
  rw [deriv_eq, mul_pow, Complex.I_sq]; ring

/-- the Laplace symbol is the sum of the squared derivative entries (any `s`) -/
theorem laplace_two_eq_sum (c : Cfg ℂ) (h : ℕ) :
    laplace c 2 h = ∑ d ∈ Finset.range c.D, deriv c d h ^ 2 := by
  simp only [laplace, show (2 : ℕ) ≠ 0 by norm_num, if_false, npow_eq]
  exact sumList_range_eq _ _

/-- `|k|² = Σ_d k_d²` as an integer -/
def kSq (c : Cfg ℂ) (h : ℕ) : ℤ := ∑ d ∈ Finset.range c.D, kInt c d h ^ 2

theorem kSq_nonneg (c : Cfg ℂ) (h : ℕ) : 0 ≤ kSq c h :=
  Finset.sum_nonneg (fun d _ => sq_nonneg _)

theorem kSq_eq_zero_iff (c : Cfg ℂ) (h : ℕ) : kSq c h = 0 ↔ ∀ d, d < c.D → kInt c d h = 0 := by
  unfold kSq
  rw [Finset.sum_eq_zero_iff_of_nonneg (fun d _ => sq_nonneg _)]
  simp

/-- `laplace c 2 h = −(s² · Σ_d k_d²)` (any complex `s`) -/
theorem laplace_two_eq (c : Cfg ℂ) (h : ℕ) :
    laplace c 2 h = -(c.s ^ 2 * ((kSq c h : ℤ) : ℂ)) := by
  rw [laplace_two_eq_sum, kSq]
  push_cast
  rw [Finset.mul_sum, ← Finset.sum_neg_distrib]
  exact Finset.sum_congr rfl (fun d _ => deriv_sq c d h)

/-- for a real scale the Laplace symbol is the non-positive real `−s²|k|²` -/
theorem laplace_two_eq_real (c : Cfg ℂ) (s : ℝ) (hs : c.s = (s : ℂ)) (h : ℕ) :
    laplace c 2 h = ((-(s ^ 2 * (kSq c h : ℝ)) : ℝ) : ℂ) := by
  rw [laplace_two_eq, hs]; push_cast; ring

theorem laplace_two_nonpos (c : Cfg ℂ) (s : ℝ) (hs : c.s = (s : ℂ)) (h : ℕ) :
    (laplace c 2 h).im = 0 ∧ (laplace c 2 h).re ≤ 0 := by
  rw [laplace_two_eq_real c s hs h]
  refine ⟨Complex.ofReal_im _, ?_⟩
  rw [Complex.ofReal_re]
  have : (0 : ℝ) ≤ (kSq c h : ℝ) := by exact_mod_cast kSq_nonneg c h
  nlinarith [sq_nonneg s]

/-- `laplace c 2 h = 0 ↔ k = 0` (needs `s ≠ 0`; the sum-of-squares step needs integer/real `k`) -/
theorem laplace_two_eq_zero_iff (c : Cfg ℂ) (hs0 : c.s ≠ 0) (h : ℕ) :
    laplace c 2 h = 0 ↔ ∀ d, d < c.D → kInt c d h = 0 := by
  rw [laplace_two_eq, ← kSq_eq_zero_iff]
  simp [hs0]

theorem laplace_two_eq_zero_iff_real (c : Cfg ℂ) (s : ℝ) (hs : c.s = (s : ℂ)) (hs0 : s ≠ 0) (h : ℕ) :
    laplace c 2 h = 0 ↔ ∀ d, d < c.D → kInt c d h = 0 :=
  laplace_two_eq_zero_iff c (by rw [hs]; exact_mod_cast hs0) h

/-- at `k = 0` every derivative entry vanishes -/
theorem deriv_eq_zero_of_laplace (c : Cfg ℂ) (hs0 : c.s ≠ 0) (h : ℕ) (hl : laplace c 2 h = 0)
    (d : ℕ) (hd : d < c.D) : deriv c d h = 0 :=
  deriv_eq_zero_of_k c d h ((laplace_two_eq_zero_iff c hs0 h).1 hl d hd)

/-! ### P0.4 / P4 guarded inverse Laplacians: functions of `(c, h)` only, never a division by zero -/

theorem invLapZero_eq (c : Cfg ℂ) (h : ℕ) :
    invLapZero c h = if laplace c 2 h = 0 then 0 else 1 / laplace c 2 h := by
  simp only [invLapZero, HasIsZero.isZero, decide_eq_true_eq]

theorem invLapOne_eq (c : Cfg ℂ) (h : ℕ) :
    invLapOne c h = if laplace c 2 h = 0 then 1 else 1 / laplace c 2 h := by
  simp only [invLapOne, HasIsZero.isZero, decide_eq_true_eq]

/-- `invLapZero c h = if k = 0 then 0 else −1/(s² Σ k_d²)`, and the denominator in the second branch
    is non-zero -/
theorem invLapZero_formula (c : Cfg ℂ) (s : ℝ) (hs : c.s = (s : ℂ)) (hs0 : s ≠ 0) (h : ℕ) :
    invLapZero c h
      = (if ∀ d, d < c.D → kInt c d h = 0 then 0 else ((-1 / (s ^ 2 * (kSq c h : ℝ)) : ℝ) : ℂ))
    ∧ ((¬ ∀ d, d < c.D → kInt c d h = 0) → s ^ 2 * (kSq c h : ℝ) ≠ 0) := by
  constructor
  · rw [invLapZero_eq]
    simp only [laplace_two_eq_zero_iff_real c s hs hs0 h]
    split_ifs with hk
    · rfl
    · rw [laplace_two_eq_real c s hs h]; push_cast; ring
  · intro hk
    rw [← kSq_eq_zero_iff] at hk
    have : (kSq c h : ℝ) ≠ 0 := by exact_mod_cast hk
    positivity

theorem invLapOne_formula (c : Cfg ℂ) (s : ℝ) (hs : c.s = (s : ℂ)) (hs0 : s ≠ 0) (h : ℕ) :
    invLapOne c h
      = (if ∀ d, d < c.D → kInt c d h = 0 then 1 else ((-1 / (s ^ 2 * (kSq c h : ℝ)) : ℝ) : ℂ))
    ∧ ((¬ ∀ d, d < c.D → kInt c d h = 0) → s ^ 2 * (kSq c h : ℝ) ≠ 0) := by
  constructor
  · rw [invLapOne_eq]
    simp only [laplace_two_eq_zero_iff_real c s hs hs0 h]
    split_ifs with hk
    · rfl
    · rw [laplace_two_eq_real c s hs h]; push_cast; ring
  · intro hk
    rw [← kSq_eq_zero_iff] at hk
    have : (kSq c h : ℝ) ≠ 0 := by exact_mod_cast hk
    positivity

/-- both guarded inverses are real numbers (real scale) -/
theorem invLap_im (c : Cfg ℂ) (s : ℝ) (hs : c.s = (s : ℂ)) (h : ℕ) :
    (invLapZero c h).im = 0 ∧ (invLapOne c h).im = 0 := by
  rw [invLapZero_eq, invLapOne_eq, laplace_two_eq_real c s hs h]
  have e : ∀ r : ℝ, ((1 : ℂ) / (r : ℂ)).im = 0 := fun r => by
    rw [← Complex.ofReal_one, ← Complex.ofReal_div]; exact Complex.ofReal_im _
  constructor <;> split_ifs <;> first | exact e _ | simp

/-- the defining property: `Δ̂ · invLap = 1` off `k = 0`, and the guard value at `k = 0` (no hypothesis on `s`) -/
theorem laplace_mul_invLapZero (c : Cfg ℂ) (h : ℕ) :
    laplace c 2 h * invLapZero c h = if laplace c 2 h = 0 then 0 else 1 := by
  rw [invLapZero_eq]
  split_ifs with hl
  · simp
  · field_simp

theorem laplace_mul_invLapOne (c : Cfg ℂ) (h : ℕ) :
    laplace c 2 h * invLapOne c h = if laplace c 2 h = 0 then 0 else 1 := by
  rw [invLapOne_eq]
  split_ifs with hl
  · simp [hl]
  · field_simp

theorem invLapZero_at_zero (c : Cfg ℂ) (h : ℕ) (hl : laplace c 2 h = 0) : invLapZero c h = 0 := by
  rw [invLapZero_eq, if_pos hl]

theorem invLapOne_at_zero (c : Cfg ℂ) (h : ℕ) (hl : laplace c 2 h = 0) : invLapOne c h = 1 := by
  rw [invLapOne_eq, if_pos hl]

/-- P4: the projection / stream-function multipliers are determined by `(c.D, c.N, c.s, h)` alone — in particular
    they do not depend on the state, on the dealiasing fraction, nor on anything else -/
theorem invLap_depends_only_on_D_N_s (c c' : Cfg ℂ) (hD : c.D = c'.D) (hN : c.N = c'.N) (hs : c.s = c'.s) (h : ℕ) :
    invLapZero c h = invLapZero c' h ∧ invLapOne c h = invLapOne c' h := by
  have hl : laplace c 2 h = laplace c' 2 h := by
    simp only [laplace, deriv, hD, hN, hs]
  simp only [invLapZero, invLapOne, hl, and_self]

end Exponax.Nonlin
