import ExponaxModel.Proofs.AliasND3Rot
import ExponaxModel.Proofs.ConserveMean
/-
SmallGaps3, part K1 (C09): the mean mode of the 3-D rotational convection term `projected3d`.

What the model does at the mean mode `h = 0`: `leray` is the IDENTITY there (`invLapZero c 0 = 0`, `deriv c d 0 = 0`;
`Conserve.leray_mean`), so `projected3d c none û` at `(i, 0)` is `mask(0) · Σ_x (u × ω)_i(x)`
(`Conserve.projected3d_mean`).  The grid sum does NOT vanish for every spectrum: in the continuum
`∫ (u × ω)_i = ∫ u_i (∇·u)`, and exactly the same holds on the grid for a Nyquist-free cut-off `MaskIn c K`, `2·K < N`:

  * `MaskIn c K` with `2K < N`   the Nyquist-free hypothesis: a dealiasing mask with cut-off `Kc` (`maskIn_Kc`), or no mask on
                                an odd grid (`maskIn_half`);
  * `projected3d_mean_eq_div`   EXACT value, ANY 3-channel spectrum `û` (not necessarily Hermitian, not divergence free):
        `projected3d c none û (i, 0) = mask(0) · Σ_x u_i(x) · (∇·u)(x)`,  `u = ifft(mask·û)`, `∇·u = ifft(mask·Σ_d (i s k_d) û_d)`;
  * `projected3d_mean_zero`     hence `= 0` when `û` is divergence free on the retained stored modes;
  * the statement "zero mean for EVERY spectrum" is FALSE: see `SmallGaps3MeanCounter.lean`.

Tools (any stored array, no reality assumption): `dftV_nifft_mult_any` (a Hermitian multiplier commutes with the Hermitian
completion performed by the c2r transform), `dftV_nifft_tab_sub/add`, `sum_mul_band` (grid inner product = box sum).
-/
set_option linter.unusedVariables false
namespace Exponax.SmallGaps3
open Exponax Exponax.Layout Exponax.Transform Exponax.DFT Exponax.Nonlin Exponax.Alias Exponax.AliasND Finset
open Exponax.Gen.Misc

/-! ### `nifft` of arbitrary stored arrays: multipliers and linearity on the lattice spectrum -/

/-- `nifft` reads only the stored entries -/
theorem nifft_eq_tab (c : Cfg ℂ) (a : Array ℂ) : nifft c a = nifft c (tab (modes c) fun h => a.getD h 0) := by
  unfold nifft
  congr 1
  apply Nonlin.tab_congr
  intro h hh
  rw [Nonlin.tab_getD _ _ _ _ hh]

/-- **the Nyquist-free hypothesis.**  Every stored mode that survives the mask lies in the box `|k_d| ≤ K` (used with
    `2K < N`).  Two ways to satisfy it: a dealiasing mask with cut-off `Kc` (`maskIn_Kc`), or NO mask at all on an odd grid
    (`maskIn_half`, `K = ⌊N/2⌋`, `2K < N` iff `N` odd). -/
def MaskIn (c : Cfg ℂ) (K : ℤ) : Prop :=
  ∀ h, h < numModes c.D c.N → mask c h = 0 ∨ ∀ d, |kvec c.D c.N h d| ≤ K

theorem maskIn_Kc (c : Cfg ℂ) (hq : c.fq ≠ 0) : MaskIn c (Kc c) := by
  intro h _
  by_cases hk : ∀ d, |kvec c.D c.N h d| ≤ Kc c
  · exact Or.inr hk
  · exact Or.inl ((mask_nd_eq_zero_iff c hq h).mpr hk)

theorem maskIn_half (c : Cfg ℂ) (hD : 0 < c.D) (hN : 0 < c.N) : MaskIn c ((c.N / 2 : ℕ) : ℤ) :=
  fun h hh => Or.inr (fun d => kvec_abs_le c.D c.N h hD hN hh d)

/-- band-limitedness of `ifft(mask·û)` from `MaskIn` alone -/
theorem nifft_bandLimitedV_of (c : Cfg ℂ) (hN : 0 < c.N) (K : ℤ) (hM : MaskIn c K) (uh : Array ℂ) :
    BandLimitedV c.D c.N K (nifft c uh) := by
  intro a ha
  rw [dftV_nifft c hN]
  apply Finset.sum_eq_zero
  intro h hh
  rcases hM h (Finset.mem_range.mp hh) with h0 | hk
  · rw [h0]; simp
  · have h1 : ¬ ∀ d, (c.N : ℤ) ∣ a d - kvec c.D c.N h d := fun hd => ha ⟨kvec c.D c.N h, hk, hd⟩
    have h2 : ¬ ∀ d, (c.N : ℤ) ∣ a d + kvec c.D c.N h d := fun hd =>
      ha ⟨-kvec c.D c.N h, fun d => by rw [Pi.neg_apply, abs_neg]; exact hk d,
        fun d => by rw [Pi.neg_apply, sub_neg_eq_add]; exact hd d⟩
    rw [if_neg h1, if_neg h2]; simp

/-- **multiplier lemma, ANY stored array.**  `μ` a Hermitian lattice multiplier (`conj μ(k) = μ(−k)`), `σ_h = μ(k(h))` on the
    retained stored modes, cut-off `2·K < N`: on the box the full spectrum of `ifft(mask·σ·a)` is `μ` times that of
    `ifft(mask·a)` — for every stored array `a` (Hermitian-consistent or not). -/
theorem dftV_nifft_mult_any (c : Cfg ℂ) (hD : 0 < c.D) (hN : 0 < c.N) (K : ℤ)
    (h2 : 2 * K < (c.N : ℤ)) (a : Array ℂ)
    (μ : (Fin c.D → ℤ) → ℂ) (hμ : ∀ k, (starRingEnd ℂ) (μ k) = μ (-k)) (σ : ℕ → ℂ)
    (hσ : ∀ h, h < numModes c.D c.N → (∀ d, |kvec c.D c.N h d| ≤ K) → σ h = μ (kvec c.D c.N h))
    (m : Fin c.D → ℤ) (hm : ∀ d, |m d| ≤ K) :
    dftV c.D c.N (nifft c (tab (modes c) fun h => σ h * a.getD h 0)) m = μ m * dftV c.D c.N (nifft c a) m := by
  rw [dftV_nifft c hN, dftV_nifft c hN, Finset.mul_sum]
  apply Finset.sum_congr rfl
  intro h hh
  have hh' := Finset.mem_range.mp hh
  have hM : h < modes c := hh'
  rw [DFT.tab_getD _ _ _ _ hM]
  have eA : (mask c h * (σ h * a.getD h 0)) * (if ∀ d, (c.N : ℤ) ∣ m d - kvec c.D c.N h d then 1 else 0)
      = μ m * ((mask c h * a.getD h 0) * (if ∀ d, (c.N : ℤ) ∣ m d - kvec c.D c.N h d then 1 else 0)) := by
    split_ifs with hc
    · have hk := box_congr_stored hD hN K h2 m hm h hh' (Or.inl hc)
      rw [hσ h hh' hk, box_congr_eq hD hN K h2 m hm h hh' hc]
      ring
    · simp
  have eB : (starRingEnd ℂ) (mask c h * (σ h * a.getD h 0))
        * (if ∀ d, (c.N : ℤ) ∣ m d + kvec c.D c.N h d then 1 else 0)
      = μ m * ((starRingEnd ℂ) (mask c h * a.getD h 0)
        * (if ∀ d, (c.N : ℤ) ∣ m d + kvec c.D c.N h d then 1 else 0)) := by
    split_ifs with hc
    · have hk := box_congr_stored hD hN K h2 m hm h hh' (Or.inr hc)
      rw [hσ h hh' hk, map_mul, map_mul, map_mul, hμ, box_congr_eq_neg hD hN K h2 m hm h hh' hc, neg_neg]
      ring
    · simp
  rw [eA, eB]
  ring

theorem dftV_nifft_tab_sub (c : Cfg ℂ) (hN : 0 < c.N) (f g : ℕ → ℂ) (m : Fin c.D → ℤ) :
    dftV c.D c.N (nifft c (tab (modes c) fun h => f h - g h)) m
      = dftV c.D c.N (nifft c (tab (modes c) f)) m - dftV c.D c.N (nifft c (tab (modes c) g)) m := by
  rw [dftV_nifft c hN, dftV_nifft c hN, dftV_nifft c hN, ← Finset.sum_sub_distrib]
  apply Finset.sum_congr rfl
  intro h hh
  have hM : h < modes c := Finset.mem_range.mp hh
  rw [DFT.tab_getD _ _ _ _ hM, DFT.tab_getD _ _ _ _ hM, DFT.tab_getD _ _ _ _ hM]
  simp only [mul_sub, map_sub, map_mul]
  ring

theorem dftV_nifft_tab_add (c : Cfg ℂ) (hN : 0 < c.N) (f g : ℕ → ℂ) (m : Fin c.D → ℤ) :
    dftV c.D c.N (nifft c (tab (modes c) fun h => f h + g h)) m
      = dftV c.D c.N (nifft c (tab (modes c) f)) m + dftV c.D c.N (nifft c (tab (modes c) g)) m := by
  rw [dftV_nifft c hN, dftV_nifft c hN, dftV_nifft c hN, ← Finset.sum_add_distrib]
  apply Finset.sum_congr rfl
  intro h hh
  have hM : h < modes c := Finset.mem_range.mp hh
  rw [DFT.tab_getD _ _ _ _ hM, DFT.tab_getD _ _ _ _ hM, DFT.tab_getD _ _ _ _ hM]
  simp only [mul_add, map_add, map_mul]
  ring

/-- a stored array that vanishes on the retained modes gives the zero field -/
theorem dftV_nifft_zero (c : Cfg ℂ) (hN : 0 < c.N) (a : Array ℂ)
    (ha : ∀ h, h < modes c → mask c h * a.getD h 0 = 0) (m : Fin c.D → ℤ) :
    dftV c.D c.N (nifft c a) m = 0 := by
  rw [dftV_nifft c hN]
  apply Finset.sum_eq_zero
  intro h hh
  rw [ha h (Finset.mem_range.mp hh)]
  simp

/-! ### grid inner products as box sums -/

theorem neg_mem_box {D : ℕ} {K : ℤ} {p : Fin D → ℤ} (hp : p ∈ box D K) : -p ∈ box D K := by
  rw [mem_box] at hp ⊢
  intro d
  rw [Pi.neg_apply, abs_neg]
  exact hp d

/-- a sum over the symmetric box of a summand that is odd under `m ↦ −m` vanishes -/
theorem sum_box_odd {D : ℕ} (K : ℤ) (g : (Fin D → ℤ) → ℂ) (hg : ∀ m, g (-m) = -g m) :
    ∑ m ∈ box D K, g m = 0 := by
  have h1 : ∑ m ∈ box D K, g m = ∑ m ∈ box D K, g (-m) := by
    apply Finset.sum_nbij' (fun m => -m) (fun m => -m)
    · intro m hm; exact neg_mem_box hm
    · intro m hm; exact neg_mem_box hm
    · intro m _; exact neg_neg m
    · intro m _; exact neg_neg m
    · intro m _; rw [neg_neg]
  have h2 : ∑ m ∈ box D K, g m + ∑ m ∈ box D K, g m = 0 := by
    nth_rewrite 2 [h1]
    rw [← Finset.sum_add_distrib]
    apply Finset.sum_eq_zero
    intro m _
    rw [hg]; ring
  have h3 : (2 : ℂ) * ∑ m ∈ box D K, g m = 0 := by rw [two_mul]; exact h2
  rcases mul_eq_zero.mp h3 with h | h
  · norm_num at h
  · exact h

/-- **grid inner product = box sum** (`u` band-limited to `K`, `2K < N`; `v` arbitrary) -/
theorem sum_mul_band (D N : ℕ) (hN : 0 < N) (K : ℤ) (hK : 2 * K < (N : ℤ)) (u v : Array ℂ)
    (hu : BandLimitedV D N K u) :
    ∑ x ∈ range (N ^ D), u.getD x 0 * v.getD x 0
      = (1 / ((N ^ D : ℕ) : ℂ)) * ∑ m ∈ box D K, dftV D N u m * dftV D N v (-m) := by
  rw [← dftV_zero_eq_sum D N (fun x => u.getD x 0 * v.getD x 0), dftV_mul_band D N hN K hK u v hu 0]
  simp only [zero_sub]

/-! ### the spectra of velocity, vorticity and divergence fields of `projected3d`, any input -/

/-- lattice spectrum of the velocity component `u_k = ifft(mask·û_k)` -/
noncomputable def velS (c : Cfg ℂ) (uh : MC ℂ) (k : ℕ) (m : Fin c.D → ℤ) : ℂ :=
  dftV c.D c.N (nifft c (uh.getD k #[])) m

/-- the stored spectral divergence `Σ_d (i s k_d) û_d` and the grid divergence `∇·u = ifft(mask·that)` -/
noncomputable def divHat (c : Cfg ℂ) (uh : MC ℂ) : Array ℂ :=
  tab (modes c) fun h => deriv c 0 h * at2 uh 0 h + deriv c 1 h * at2 uh 1 h + deriv c 2 h * at2 uh 2 h

noncomputable def divGrid (c : Cfg ℂ) (uh : MC ℂ) (x : ℕ) : ℂ := (nifft c (divHat c uh)).getD x 0

theorem dftV_nifft_deriv_any (c : Cfg ℂ) (hD : 0 < c.D) (hN : 0 < c.N) (K : ℤ)
    (h2 : 2 * K < (c.N : ℤ)) (s : ℝ) (hs : c.s = (s : ℂ)) (uh : MC ℂ) (d k : ℕ) (hd : d < c.D)
    (m : Fin c.D → ℤ) (hm : ∀ d, |m d| ≤ K) :
    dftV c.D c.N (nifft c (tab (modes c) fun h => deriv c d h * at2 uh k h)) m = dsym c d m * velS c uh k m :=
  dftV_nifft_mult_any c hD hN K h2 (uh.getD k #[]) (fun p => dsym c d p) (fun p => conj_dsym c s hs d p)
    (fun h => deriv c d h) (fun h _ _ => deriv_eq_dsym c d hd h) m hm

/-- vorticity spectrum on the box, component by component (ANY stored input) -/
theorem dftV_curl_any (c : Cfg ℂ) (hD : c.D = 3) (hN : 0 < c.N) (K : ℤ) (hM : MaskIn c K)
    (h2 : 2 * K < (c.N : ℤ)) (s : ℝ) (hs : c.s = (s : ℂ)) (uh : MC ℂ)
    (m : Fin c.D → ℤ) (hm : ∀ d, |m d| ≤ K) :
    dftV c.D c.N (curlField c uh 0) m = dsym c 1 m * velS c uh 2 m - dsym c 2 m * velS c uh 1 m ∧
    dftV c.D c.N (curlField c uh 1) m = dsym c 2 m * velS c uh 0 m - dsym c 0 m * velS c uh 2 m ∧
    dftV c.D c.N (curlField c uh 2) m = dsym c 0 m * velS c uh 1 m - dsym c 1 m * velS c uh 0 m := by
  have hD0 : 0 < c.D := by omega
  have key : ∀ a b, a < 3 → b < 3 →
      dftV c.D c.N (nifft c (tab (modes c) fun h => deriv c a h * at2 uh b h - deriv c b h * at2 uh a h)) m
        = dsym c a m * velS c uh b m - dsym c b m * velS c uh a m := by
    intro a b ha hb
    rw [dftV_nifft_tab_sub c hN, dftV_nifft_deriv_any c hD0 hN K h2 s hs uh a b (by omega) m hm,
      dftV_nifft_deriv_any c hD0 hN K h2 s hs uh b a (by omega) m hm]
  refine ⟨?_, ?_, ?_⟩
  · rw [← key 1 2 (by norm_num) (by norm_num)]
    unfold curlField curlHat
    simp only [proj3_cross_zero]
  · rw [← key 2 0 (by norm_num) (by norm_num)]
    unfold curlField curlHat
    simp only [proj3_cross_one]
  · rw [← key 0 1 (by norm_num) (by norm_num)]
    unfold curlField curlHat
    simp only [proj3_cross_two]

/-- divergence spectrum on the box -/
theorem dftV_div_any (c : Cfg ℂ) (hD : c.D = 3) (hN : 0 < c.N) (K : ℤ) (hM : MaskIn c K)
    (h2 : 2 * K < (c.N : ℤ)) (s : ℝ) (hs : c.s = (s : ℂ)) (uh : MC ℂ)
    (m : Fin c.D → ℤ) (hm : ∀ d, |m d| ≤ K) :
    dftV c.D c.N (nifft c (divHat c uh)) m
      = dsym c 0 m * velS c uh 0 m + dsym c 1 m * velS c uh 1 m + dsym c 2 m * velS c uh 2 m := by
  have hD0 : 0 < c.D := by omega
  unfold divHat
  rw [dftV_nifft_tab_add c hN, dftV_nifft_tab_add c hN,
    dftV_nifft_deriv_any c hD0 hN K h2 s hs uh 0 0 (by omega) m hm,
    dftV_nifft_deriv_any c hD0 hN K h2 s hs uh 1 1 (by omega) m hm,
    dftV_nifft_deriv_any c hD0 hN K h2 s hs uh 2 2 (by omega) m hm]

/-! ### the mean of `u × ω` -/

theorem crossGrid_zero (c : Cfg ℂ) (uh : MC ℂ) (x : ℕ) :
    Conserve.crossGrid c uh 0 x
      = (nifft c (uh.getD 1 #[])).getD x 0 * (curlField c uh 2).getD x 0
        - (nifft c (uh.getD 2 #[])).getD x 0 * (curlField c uh 1).getD x 0 := by
  unfold Conserve.crossGrid
  rw [proj3_cross_zero]
  rfl

theorem crossGrid_one (c : Cfg ℂ) (uh : MC ℂ) (x : ℕ) :
    Conserve.crossGrid c uh 1 x
      = (nifft c (uh.getD 2 #[])).getD x 0 * (curlField c uh 0).getD x 0
        - (nifft c (uh.getD 0 #[])).getD x 0 * (curlField c uh 2).getD x 0 := by
  unfold Conserve.crossGrid
  rw [proj3_cross_one]
  rfl

theorem crossGrid_two (c : Cfg ℂ) (uh : MC ℂ) (x : ℕ) :
    Conserve.crossGrid c uh 2 x
      = (nifft c (uh.getD 0 #[])).getD x 0 * (curlField c uh 1).getD x 0
        - (nifft c (uh.getD 1 #[])).getD x 0 * (curlField c uh 0).getD x 0 := by
  unfold Conserve.crossGrid
  rw [proj3_cross_two]
  rfl

/-- **discrete `∫ (u × ω)_i = ∫ u_i ∇·u`** for the fields built by `projected3d` from ANY 3-channel spectrum, Nyquist-free
    cut-off `2·Kc < N`, real `s` -/
theorem sum_crossGrid_eq_div (c : Cfg ℂ) (hD : c.D = 3) (hN : 0 < c.N) (K : ℤ) (hM : MaskIn c K)
    (h2 : 2 * K < (c.N : ℤ)) (s : ℝ) (hs : c.s = (s : ℂ)) (uh : MC ℂ) (i : ℕ) (hi : i < 3) :
    ∑ x ∈ range (c.N ^ c.D), Conserve.crossGrid c uh i x
      = ∑ x ∈ range (c.N ^ c.D), Conserve.velGrid c uh i x * divGrid c uh x := by
  have hD0 : 0 < c.D := by omega
  have hbl : ∀ k, BandLimitedV c.D c.N K (nifft c (uh.getD k #[])) := fun k => nifft_bandLimitedV_of c hN K hM _
  have P : ∀ (k : ℕ) (v : Array ℂ), ∑ x ∈ range (c.N ^ c.D), (nifft c (uh.getD k #[])).getD x 0 * v.getD x 0
      = (1 / ((c.N ^ c.D : ℕ) : ℂ)) * ∑ m ∈ box c.D K, velS c uh k m * dftV c.D c.N v (-m) :=
    fun k v => sum_mul_band c.D c.N hN K h2 _ v (hbl k)
  have hneg : ∀ m ∈ box c.D K, ∀ d, |(-m) d| ≤ K := fun m hm => mem_box.mp (neg_mem_box hm)
  -- the difference of the two sides is the box sum of an odd summand
  rw [← sub_eq_zero, ← Finset.sum_sub_distrib]
  have hR : ∑ x ∈ range (c.N ^ c.D), Conserve.velGrid c uh i x * divGrid c uh x
      = (1 / ((c.N ^ c.D : ℕ) : ℂ)) * ∑ m ∈ box c.D K, velS c uh i m *
          (dsym c 0 (-m) * velS c uh 0 (-m) + dsym c 1 (-m) * velS c uh 1 (-m) + dsym c 2 (-m) * velS c uh 2 (-m)) := by
    unfold Conserve.velGrid divGrid
    rw [P i]
    congr 1
    apply Finset.sum_congr rfl
    intro m hm
    rw [dftV_div_any c hD hN K hM h2 s hs uh (-m) (hneg m hm)]
  rw [Finset.sum_sub_distrib, hR]
  have hC : ∀ (a b : ℕ), ∑ x ∈ range (c.N ^ c.D),
      ((nifft c (uh.getD a #[])).getD x 0 * (curlField c uh b).getD x 0)
      = (1 / ((c.N ^ c.D : ℕ) : ℂ)) * ∑ m ∈ box c.D K, velS c uh a m * dftV c.D c.N (curlField c uh b) (-m) :=
    fun a b => P a _
  have hcurl := fun m (hm : m ∈ box c.D K) => dftV_curl_any c hD hN K hM h2 s hs uh (-m) (hneg m hm)
  have fin : ∀ (F : (Fin c.D → ℤ) → ℂ), (∀ m, F (-m) = -F m) →
      (1 / ((c.N ^ c.D : ℕ) : ℂ)) * ∑ m ∈ box c.D K, F m = 0 := by
    intro F hF
    rw [sum_box_odd K F hF, mul_zero]
  have i3 : i = 0 ∨ i = 1 ∨ i = 2 := by omega
  rcases i3 with rfl | rfl | rfl
  · simp only [crossGrid_zero]
    rw [Finset.sum_sub_distrib, hC 1 2, hC 2 1, ← mul_sub, ← mul_sub, ← Finset.sum_sub_distrib,
      ← Finset.sum_sub_distrib]
    rw [Finset.sum_congr rfl (fun m hm => by rw [(hcurl m hm).2.2, (hcurl m hm).2.1])]
    rw [← fin (fun m => dsym c 0 m * (velS c uh 0 m * velS c uh 0 (-m) - velS c uh 1 m * velS c uh 1 (-m)
        - velS c uh 2 m * velS c uh 2 (-m))
      + dsym c 1 m * (velS c uh 1 m * velS c uh 0 (-m) + velS c uh 0 m * velS c uh 1 (-m))
      + dsym c 2 m * (velS c uh 2 m * velS c uh 0 (-m) + velS c uh 0 m * velS c uh 2 (-m)))
      (fun m => by simp only [dsym_neg, neg_neg]; ring)]
    congr 1
    apply Finset.sum_congr rfl
    intro m _
    simp only [dsym_neg]
    ring
  · simp only [crossGrid_one]
    rw [Finset.sum_sub_distrib, hC 2 0, hC 0 2, ← mul_sub, ← mul_sub, ← Finset.sum_sub_distrib,
      ← Finset.sum_sub_distrib]
    rw [Finset.sum_congr rfl (fun m hm => by rw [(hcurl m hm).1, (hcurl m hm).2.2])]
    rw [← fin (fun m => dsym c 1 m * (velS c uh 1 m * velS c uh 1 (-m) - velS c uh 2 m * velS c uh 2 (-m)
        - velS c uh 0 m * velS c uh 0 (-m))
      + dsym c 2 m * (velS c uh 2 m * velS c uh 1 (-m) + velS c uh 1 m * velS c uh 2 (-m))
      + dsym c 0 m * (velS c uh 0 m * velS c uh 1 (-m) + velS c uh 1 m * velS c uh 0 (-m)))
      (fun m => by simp only [dsym_neg, neg_neg]; ring)]
    congr 1
    apply Finset.sum_congr rfl
    intro m _
    simp only [dsym_neg]
    ring
  · simp only [crossGrid_two]
    rw [Finset.sum_sub_distrib, hC 0 1, hC 1 0, ← mul_sub, ← mul_sub, ← Finset.sum_sub_distrib,
      ← Finset.sum_sub_distrib]
    rw [Finset.sum_congr rfl (fun m hm => by rw [(hcurl m hm).2.1, (hcurl m hm).1])]
    rw [← fin (fun m => dsym c 2 m * (velS c uh 2 m * velS c uh 2 (-m) - velS c uh 0 m * velS c uh 0 (-m)
        - velS c uh 1 m * velS c uh 1 (-m))
      + dsym c 0 m * (velS c uh 0 m * velS c uh 2 (-m) + velS c uh 2 m * velS c uh 0 (-m))
      + dsym c 1 m * (velS c uh 1 m * velS c uh 2 (-m) + velS c uh 2 m * velS c uh 1 (-m)))
      (fun m => by simp only [dsym_neg, neg_neg]; ring)]
    congr 1
    apply Finset.sum_congr rfl
    intro m _
    simp only [dsym_neg]
    ring

/-- **K1 (exact value).**  ANY 3-channel spectrum `û`, Nyquist-free cut-off `MaskIn c K`, `2·K < N`, real `s`: the mean mode of the 3-D
    rotational term is `mask(0)` times the grid sum of `u_i · ∇·u` (fields as the model builds them) -/
theorem projected3d_mean_eq_div (c : Cfg ℂ) (hD : c.D = 3) (hN : 0 < c.N) (K : ℤ) (hM : MaskIn c K)
    (h2 : 2 * K < (c.N : ℤ)) (s : ℝ) (hs : c.s = (s : ℂ)) (uh : MC ℂ) (i : ℕ) (hi : i < 3) :
    at2 (projected3d c none uh) i 0
      = mask c 0 * ∑ x ∈ range (c.N ^ c.D), Conserve.velGrid c uh i x * divGrid c uh x := by
  rw [Conserve.projected3d_mean c hN hD uh i hi]
  show mask c 0 * ∑ x ∈ range (c.N ^ c.D), Conserve.crossGrid c uh i x = _
  rw [sum_crossGrid_eq_div c hD hN K hM h2 s hs uh i hi]

/-- the divergence field of a spectrum that is divergence free on the retained stored modes vanishes -/
theorem divGrid_zero (c : Cfg ℂ) (hN : 0 < c.N) (uh : MC ℂ)
    (hdiv : ∀ h, h < modes c → mask c h = 1 →
      deriv c 0 h * at2 uh 0 h + deriv c 1 h * at2 uh 1 h + deriv c 2 h * at2 uh 2 h = 0)
    (x : ℕ) (hx : x < c.N ^ c.D) : divGrid c uh x = 0 := by
  have e : nifft c (divHat c uh) = nifft c (tab (modes c) fun _ => 0) := by
    unfold nifft
    congr 1
    apply Nonlin.tab_congr
    intro h hh
    rw [Nonlin.tab_getD _ _ _ _ hh]
    unfold divHat
    rw [Nonlin.tab_getD _ _ _ _ hh]
    rcases Conserve.mask_zero_or_one c h with h1 | h0
    · rw [hdiv h hh h1]
    · rw [h0, zero_mul, zero_mul]
  unfold divGrid
  rw [e]
  unfold nifft
  rw [irfftnM_getD c.D c.N hN _ x hx]
  have : ∀ h ∈ range (numModes c.D c.N), ((herm_weight c.D c.N h : ℕ) : ℂ) *
      (((((tab (modes c) fun h => mask c h * (tab (modes c) fun _ => (0 : ℂ)).getD h 0).getD h 0
        * twiddle c.N (-(phaseK c.D c.N (wnFlat c.D c.N h) x))).re : ℝ)) : ℂ) = 0 := by
    intro h hh
    have hM : h < modes c := Finset.mem_range.mp hh
    rw [Nonlin.tab_getD _ _ _ _ hM, Nonlin.tab_getD _ _ _ _ hM]
    simp
  rw [Finset.sum_eq_zero this, zero_div]

/-- **K1 (zero mean).**  If `û` is divergence free on the retained stored modes (`mask = 1`), with a Nyquist-free cut-off
    `2·Kc < N` and real `s`, the 3-D rotational convection term has zero mean mode in every channel.  No reality (Hermitian
    symmetry) of `û` is needed. -/
theorem projected3d_mean_zero (c : Cfg ℂ) (hD : c.D = 3) (hN : 0 < c.N) (K : ℤ) (hM : MaskIn c K)
    (h2 : 2 * K < (c.N : ℤ)) (s : ℝ) (hs : c.s = (s : ℂ)) (uh : MC ℂ)
    (hdiv : ∀ h, h < modes c → mask c h = 1 →
      deriv c 0 h * at2 uh 0 h + deriv c 1 h * at2 uh 1 h + deriv c 2 h * at2 uh 2 h = 0)
    (i : ℕ) : at2 (projected3d c none uh) i 0 = 0 := by
  rcases Nat.lt_or_ge i 3 with hi | hi
  · rw [projected3d_mean_eq_div c hD hN K hM h2 s hs uh i hi]
    rw [Finset.sum_eq_zero (fun x hx => by rw [divGrid_zero c hN uh hdiv x (Finset.mem_range.mp hx), mul_zero]),
      mul_zero]
  · unfold projected3d
    exact at2_tab2_of_le_ch _ _ _ _ _ hi

/-! non-vacuity: the 2/3 rule on `N = 8` (`Kc = 1`), the unmasked odd grid `N = 7` (`K = 3`), and a spectrum that is
divergence free on the retained modes (the rest state; every Leray output is another, `C10_leray_divfree`) -/
example : ∃ c : Cfg ℂ, ∃ s : ℝ, c.D = 3 ∧ 0 < c.N ∧ MaskIn c (Kc c) ∧ 2 * Kc c < (c.N : ℤ) ∧ c.s = (s : ℂ) :=
  ⟨{ D := 3, N := 8, s := ((1 : ℝ) : ℂ), fp := 2, fq := 3 }, 1, rfl, by decide, maskIn_Kc _ (by decide), by decide, rfl⟩
example : ∃ c : Cfg ℂ, c.D = 3 ∧ 0 < c.N ∧ c.fq = 0 ∧ MaskIn c ((c.N / 2 : ℕ) : ℤ) ∧ 2 * ((c.N / 2 : ℕ) : ℤ) < (c.N : ℤ) :=
  ⟨{ D := 3, N := 7, s := ((1 : ℝ) : ℂ), fp := 0, fq := 0 }, rfl, by decide, rfl, maskIn_half _ (by decide) (by decide),
    by decide⟩
example (c : Cfg ℂ) : ∀ h, h < modes c → mask c h = 1 →
    deriv c 0 h * at2 (#[] : MC ℂ) 0 h + deriv c 1 h * at2 (#[] : MC ℂ) 1 h + deriv c 2 h * at2 (#[] : MC ℂ) 2 h = 0 := by
  intro h _ _
  have e : ∀ k, at2 (#[] : MC ℂ) k h = 0 := fun k => by simp [at2]
  rw [e, e, e]; ring

end Exponax.SmallGaps3
