import Mathlib.Tactic
import ExponaxModel.Proofs.LayoutLemmas
/-
The mean (DC) mode of the stored half spectrum is exactly the flat index `0`.
-/
set_option linter.unusedVariables false
namespace Exponax.Layout

theorem unflatten_zero_getD (shape : List ℕ) (d : ℕ) : (unflatten shape 0).getD d 0 = 0 := by
  induction shape generalizing d with
  | nil => simp [unflatten]
  | cons a rest ih =>
    simp only [unflatten, Nat.zero_div, Nat.zero_mod]
    cases d with
    | zero => simp
    | succ d => simpa using ih d

theorem wnFlat_getD' (D N h d : ℕ) (hd : d < D) :
    (wnFlat D N h).getD d 0 = wn D N (unflatten (wavenumberShape D N) h) d := by
  simp [wnFlat, wnVec, List.getD_eq_getElem?_getD, hd]

theorem wnFlat_getD_of_le (D N h d : ℕ) (hd : D ≤ d) : (wnFlat D N h).getD d 0 = 0 := by
  have : ¬ d < D := by omega
  simp [wnFlat, wnVec, List.getD_eq_getElem?_getD, this]

/-- every wavenumber of the flat index `0` vanishes -/
theorem wnFlat_zero (D N d : ℕ) : (wnFlat D N 0).getD d 0 = 0 := by
  rcases Nat.lt_or_ge d D with hd | hd
  · rw [wnFlat_getD' D N 0 d hd]
    unfold wn
    rw [unflatten_zero_getD]
    simp [rfftfreq, fftfreq]
  · exact wnFlat_getD_of_le D N 0 d hd

/-- a stored mode has all wavenumbers zero iff it is the flat index `0` -/
theorem wnFlat_eq_zero_iff (D N h : ℕ) (hD : 1 ≤ D) (hN : 0 < N) (hh : h < numModes D N) :
    (∀ d < D, (wnFlat D N h).getD d 0 = 0) ↔ h = 0 := by
  constructor
  · intro hk
    have hpos := wavenumberShape_pos D N hN
    have hM : 0 < numModes D N := by omega
    have hidx : ∀ d < D, (unflatten (wavenumberShape D N) h).getD d 0 = 0 := by
      intro d hd
      have h1 := hk d hd
      rw [wnFlat_getD' D N h d hd] at h1
      have hlt := unflatten_getD_lt (wavenumberShape D N) hpos h hh d
        (by rw [wavenumberShape_length D N hD]; exact hd)
      rw [wavenumberShape_getD D N d hd] at hlt
      by_cases hl : d + 1 = D
      · rw [wn_last D N _ d hl] at h1
        exact_mod_cast h1
      · rw [wn_leading D N _ d hl] at h1
        rw [if_neg hl] at hlt
        exact (fftfreq_eq_zero_iff N _ hlt).1 h1
    have heq : unflatten (wavenumberShape D N) h = unflatten (wavenumberShape D N) 0 := by
      apply List.ext_getElem
      · rw [unflatten_length, unflatten_length]
      · intro d h1 h2
        have hd : d < D := by
          rw [unflatten_length, wavenumberShape_length D N hD] at h1; exact h1
        have e1 := hidx d hd
        have e2 := unflatten_zero_getD (wavenumberShape D N) d
        rw [List.getD_eq_getElem?_getD, List.getElem?_eq_getElem h1] at e1
        rw [List.getD_eq_getElem?_getD, List.getElem?_eq_getElem h2] at e2
        simp only [Option.getD_some] at e1 e2
        rw [e1, e2]
    have f1 := flatten_unflatten (wavenumberShape D N) hpos h hh
    have f2 := flatten_unflatten (wavenumberShape D N) hpos 0 hM
    rw [← f1, heq, f2]
  · rintro rfl d _
    exact wnFlat_zero D N d

end Exponax.Layout
