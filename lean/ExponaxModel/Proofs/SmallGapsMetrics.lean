import ExponaxModel.Proofs.MetricsGenFourierEq
/-
SmallGaps, part G3 (C16 Sobolev metrics: "H1 metric = plain metric + metric of the spectral gradient").

(a) REGENERATED code, ANY scalar type `K` (no algebraic law used — holds for the binary64 scalar of the driver
    too), with or without a reference state: each of the six `H1_X` of `exponax/metrics/_derivative.py` is
    `fourier_X(derivative_order=None) + fourier_X(derivative_order=1)`, and neither summand can fail
    (`H1_MAE_split … H1_nRMSE_split`).
(b) MODEL (`Metrics.fourierAggregator` at `ℝ`): the aggregator with `derivative_order = 1` IS the sum over the
    axes of the PLAIN aggregator (no derivative, no further floor/band) applied to the magnitudes of the
    spectral derivative `|i·s·k_d·û_h| = |s k_d|·|û_h|` of the floored, band-masked spectrum
    (`fourierAggregator_deriv_one_eq_gradient`; `gradMag_magnitudes` identifies the magnitudes).
    The floor `1e-5` and the band mask act on `û` BEFORE the derivative factor is applied (as in the code), which
    is why the gradient is taken of the kept spectrum.
(c) together (`H1_model_gradient_form`): on complex-embedded real states the regenerated `H1_X` equal
    `model(plain) + model(gradient)` with the per-channel gradient aggregates in the form (b).
-/
set_option linter.unusedVariables false
set_option linter.unusedSectionVars false
namespace Exponax.SmallGaps
open Exponax Exponax.Layout Exponax.Transform Exponax.DFT Exponax.Gen Exponax.Gen.Prelude Exponax.Metrics
open Exponax.Gen.MetricsGen Finset

/-! ### (a) the regenerated `_derivative.py`, any scalar type -/
section
variable {K : Type} [Add K] [Sub K] [Mul K] [Div K] [Neg K] [Zero K] [One K] [NatCast K] [IntCast K]
  [HasRpow K] [HasAbs K] [HasLtB K] [HasSqrt K] [HasExp K] [HasI K] [HasPi K] [HasCpow K]

/-- `fourier_norm` in `"absolute"` mode without a reference state never fails -/
theorem fourier_norm_absolute_none (D N : ℕ) (u : List (Array K)) (L p q : K) (lo hi : Option ℕ) (m : Option K) :
    fourier_norm D N u none "absolute" L p (some q) lo hi m
      = some (Metrics.combine 0 (chanFAgg D N L p q lo hi m u) [] []) := by
  rw [fourier_norm_none, if_neg (by decide)]

variable (D N : ℕ) (u : List (Array K)) (L : K) (lo hi : Option ℕ)

/-- **G3a.** `H1_MAE = fourier_MAE + fourier_MAE(derivative_order = 1)`, with or without reference -/
theorem H1_MAE_split (ref : Option (List (Array K))) :
    ∃ a b, fourier_MAE D N u ref L lo hi none = some a ∧
      fourier_MAE D N u ref L lo hi (some (lit 1)) = some b ∧ H1_MAE D N u ref L lo hi = some (a + b) := by
  rcases ref with _ | r
  · refine ⟨_, _, fourier_norm_absolute_none D N u L _ _ lo hi none,
      fourier_norm_absolute_none D N u L _ _ lo hi (some (lit 1)), ?_⟩
    unfold H1_MAE fourier_MAE
    rw [fourier_norm_absolute_none, fourier_norm_absolute_none]; rfl
  · exact ⟨_, _, fourier_MAE_eq D N u r L lo hi none, fourier_MAE_eq D N u r L lo hi _, H1_MAE_eq D N u r L lo hi⟩

/-- **G3a.** `H1_MSE = fourier_MSE + fourier_MSE(derivative_order = 1)`, with or without reference -/
theorem H1_MSE_split (ref : Option (List (Array K))) :
    ∃ a b, fourier_MSE D N u ref L lo hi none = some a ∧
      fourier_MSE D N u ref L lo hi (some (lit 1)) = some b ∧ H1_MSE D N u ref L lo hi = some (a + b) := by
  rcases ref with _ | r
  · refine ⟨_, _, fourier_norm_absolute_none D N u L _ _ lo hi none,
      fourier_norm_absolute_none D N u L _ _ lo hi (some (lit 1)), ?_⟩
    unfold H1_MSE fourier_MSE
    rw [fourier_norm_absolute_none, fourier_norm_absolute_none]; rfl
  · exact ⟨_, _, fourier_MSE_eq D N u r L lo hi none, fourier_MSE_eq D N u r L lo hi _, H1_MSE_eq D N u r L lo hi⟩

/-- **G3a.** `H1_RMSE = fourier_RMSE + fourier_RMSE(derivative_order = 1)` (a SUM of two roots, as the code
    defines it — not the root of the sum), with or without reference -/
theorem H1_RMSE_split (ref : Option (List (Array K))) :
    ∃ a b, fourier_RMSE D N u ref L lo hi none = some a ∧
      fourier_RMSE D N u ref L lo hi (some (lit 1)) = some b ∧ H1_RMSE D N u ref L lo hi = some (a + b) := by
  rcases ref with _ | r
  · refine ⟨_, _, fourier_norm_absolute_none D N u L _ _ lo hi none,
      fourier_norm_absolute_none D N u L _ _ lo hi (some (lit 1)), ?_⟩
    unfold H1_RMSE fourier_RMSE
    rw [fourier_norm_absolute_none, fourier_norm_absolute_none]; rfl
  · exact ⟨_, _, fourier_RMSE_eq D N u r L lo hi none, fourier_RMSE_eq D N u r L lo hi _, H1_RMSE_eq D N u r L lo hi⟩

/-- **G3a.** `H1_nMAE = fourier_nMAE + fourier_nMAE(derivative_order = 1)`: each summand is normalised by ITS OWN
    reference aggregate (plain resp. gradient), as the code defines it -/
theorem H1_nMAE_split (r : List (Array K)) :
    ∃ a b, fourier_nMAE D N u r L lo hi none = some a ∧
      fourier_nMAE D N u r L lo hi (some (lit 1)) = some b ∧ H1_nMAE D N u r L lo hi = some (a + b) :=
  ⟨_, _, fourier_nMAE_eq D N u r L lo hi none, fourier_nMAE_eq D N u r L lo hi _, H1_nMAE_eq D N u r L lo hi⟩

theorem H1_nMSE_split (r : List (Array K)) :
    ∃ a b, fourier_nMSE D N u r L lo hi none = some a ∧
      fourier_nMSE D N u r L lo hi (some (lit 1)) = some b ∧ H1_nMSE D N u r L lo hi = some (a + b) :=
  ⟨_, _, fourier_nMSE_eq D N u r L lo hi none, fourier_nMSE_eq D N u r L lo hi _, H1_nMSE_eq D N u r L lo hi⟩

theorem H1_nRMSE_split (r : List (Array K)) :
    ∃ a b, fourier_nRMSE D N u r L lo hi none = some a ∧
      fourier_nRMSE D N u r L lo hi (some (lit 1)) = some b ∧ H1_nRMSE D N u r L lo hi = some (a + b) :=
  ⟨_, _, fourier_nRMSE_eq D N u r L lo hi none, fourier_nRMSE_eq D N u r L lo hi _, H1_nRMSE_eq D N u r L lo hi⟩

end

/-! ### (b) the model aggregator with derivative order 1 is the plain aggregator of the spectral gradient -/

/-- magnitudes of the `d`-th spectral derivative of the kept (floored, band-masked) spectrum:
    `|i·s·k_d|·kept_h = |s·k_d|·kept_h` -/
noncomputable def gradMag (D N : ℕ) (s : ℝ) (band : Option (ℕ × ℕ)) (floor : ℝ) (mag : Array ℝ) (d : ℕ) :
    Array ℝ :=
  tab (numModes D N) (fun h => keptVal D N band floor mag h * |s * (((wnFlat D N h).getD d 0 : ℤ) : ℝ)|)

theorem derivFactor_one (D N : ℕ) (s : ℝ) (d h : ℕ) :
    derivFactor D N s 1 d h = |s * (((wnFlat D N h).getD d 0 : ℤ) : ℝ)| := by
  unfold derivFactor
  split_ifs with h0
  · rw [h0]; simp
  · rw [Real.rpow_one]

theorem keptVal_nonneg (D N : ℕ) (band : Option (ℕ × ℕ)) (floor : ℝ) (mag : Array ℝ)
    (hmag : ∀ h, 0 ≤ mag.getD h 0) (h : ℕ) : 0 ≤ keptVal D N band floor mag h := by
  unfold keptVal
  rcases band with _ | ⟨lo, hi⟩
  · simp only; split_ifs
    · exact le_rfl
    · exact hmag h
  · simp only; split_ifs
    · exact le_rfl
    · exact hmag h
    · exact le_rfl

/-- a non-negative array is not changed by a zero floor and no band -/
theorem keptVal_none_zero (D N : ℕ) (a : Array ℝ) (h : ℕ) (ha : 0 ≤ a.getD h 0) :
    keptVal D N none 0 a h = a.getD h 0 := by
  unfold keptVal
  simp only
  rw [if_neg (not_lt.mpr ha)]

/-- **G3b.** For non-negative magnitudes (any floor, any band, any exponents `p`, `q`): the model aggregator
    with `derivative_order = 1` is the sum over the axes of the PLAIN aggregator of the gradient magnitudes. -/
theorem fourierAggregator_deriv_one_eq_gradient (D N : ℕ) (L s p q : ℝ) (band : Option (ℕ × ℕ)) (floor : ℝ)
    (mag : Array ℝ) (hmag : ∀ h, 0 ≤ mag.getD h 0) :
    fourierAggregator D N L s p q band (some 1) floor mag
      = ∑ d ∈ range D, fourierAggregator D N L s p q none none 0 (gradMag D N s band floor mag d) := by
  rw [fourierAggregator_some]
  apply Finset.sum_congr rfl
  intro d _
  rw [fourierAggregator_none]
  congr 2
  apply Finset.sum_congr rfl
  intro h hh
  have hh' := Finset.mem_range.mp hh
  have hg : (gradMag D N s band floor mag d).getD h 0
      = keptVal D N band floor mag h * |s * (((wnFlat D N h).getD d 0 : ℤ) : ℝ)| := by
    unfold gradMag; rw [tab_getD _ _ _ _ hh']
  rw [keptVal_none_zero D N _ h (by rw [hg]; exact mul_nonneg (keptVal_nonneg D N band floor mag hmag h) (abs_nonneg _)),
    hg, derivFactor_one]

theorem magnitudes_nonneg (D N : ℕ) (u : Array ℝ) (h : ℕ) : 0 ≤ (magnitudes D N u).getD h 0 := by
  rcases Nat.lt_or_ge h (numModes D N) with hh | hh
  · rw [mag_getD D N u h hh]; exact norm_nonneg _
  · unfold magnitudes; rw [tab_getD_of_le _ _ _ _ hh]

/-- without floor and band the gradient magnitudes ARE the magnitudes of `(i s k_d)·û`, the stored spectrum of
    the spectral derivative `∂_d u` -/
theorem gradMag_magnitudes (D N : ℕ) (s : ℝ) (u : Array ℝ) (d h : ℕ) (hh : h < numModes D N) :
    (gradMag D N s none 0 (magnitudes D N u) d).getD h 0
      = ‖Complex.I * ((s : ℂ) * (((wnFlat D N h).getD d 0 : ℤ) : ℂ)) * (rfftnM D N (toComplex u)).getD h 0‖ := by
  unfold gradMag
  rw [tab_getD _ _ _ _ hh, keptVal_none_zero D N _ h (magnitudes_nonneg D N u h), mag_getD D N u h hh,
    norm_mul, norm_mul, Complex.norm_I, one_mul, mul_comm]
  congr 1
  rw [← Complex.ofReal_intCast, ← Complex.ofReal_mul, Complex.norm_real, Real.norm_eq_abs]

/-! ### (c) the regenerated Sobolev metrics on complex-embedded real states, gradient form -/

/-- the per-channel model aggregates with derivative order 1, in gradient form -/
theorem modelFAgg_deriv_one (D N : ℕ) (L p q : ℝ) (low high : Option ℕ) (us : List (Array ℝ)) :
    modelFAgg D N L p q low high (some 1) us
      = us.map (fun c => ∑ d ∈ range D, fourierAggregator D N L (2 * Real.pi / L) p q none none 0
          (gradMag D N (2 * Real.pi / L) (bandOf N low high) (1 / 100000) (magnitudes D N c) d)) := by
  unfold modelFAgg
  apply List.map_congr_left
  intro c _
  exact fourierAggregator_deriv_one_eq_gradient D N L _ p q _ _ _ (magnitudes_nonneg D N c)

/-- **G3c.** `H1_MSE`, regenerated code on complex-embedded real states = model plain MSE + the channel sum of the
    axis sums of the plain aggregates of the gradient magnitudes (and likewise, through `fourierModel`, for the other
    five: `H1_MAE_eq_model`, … with `modelFAgg_deriv_one`) -/
theorem H1_MSE_model_gradient_form (D N : ℕ) (u r : List (Array ℝ)) (L : ℝ) (low high : Option ℕ) :
    H1_MSE (K := ℂ) D N (toComplexL u) (some (toComplexL r)) (L : ℂ) low high
      = some ((fourierModel 0 D N L 2 1 low high none u r
          + ((chanSub u r).map (fun c => ∑ d ∈ range D, fourierAggregator D N L (2 * Real.pi / L) 2 1 none none 0
              (gradMag D N (2 * Real.pi / L) (bandOf N low high) (1 / 100000) (magnitudes D N c) d))).sum : ℝ) : ℂ) := by
  rw [H1_MSE_eq_model]
  congr 3
  unfold fourierModel
  rw [Metrics.combine_zero, modelFAgg_deriv_one]

/-! non-vacuity -/
example : ∀ h, 0 ≤ (magnitudes 2 4 #[1, 2, 3]).getD h 0 := magnitudes_nonneg 2 4 _

end Exponax.SmallGaps
