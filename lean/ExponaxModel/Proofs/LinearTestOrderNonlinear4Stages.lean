import ExponaxModel.Proofs.LinearTestOrderNonlinear4
/-
C02 support — T8 for systems, ETDRK4: the per-mode (scalar) stage lemmas.  The values of `N` and of the linearisation
`L τ` at the relevant vectors enter as plain complex numbers (`Na, Nb, A1 = (L_a ε_a)_k, A2 = (L_a f₁)_k, …`), so the
lemmas can be applied mode by mode while `L τ` may couple the modes.  (Same estimates as in `etd4_core`.)
-/
set_option linter.unusedVariables false
noncomputable section
namespace Exponax.LinearOrder
open Exponax Exponax.Spec Exponax.ContourTail Exponax.Gen.Etdrk

theorem NL4.nonnegs (c : NL4) (hK0 : 0 ≤ c.K) (hM10 : 0 ≤ c.M1) (hM20 : 0 ≤ c.M2) (hM30 : 0 ≤ c.M3)
    (hG4 : 0 ≤ c.G4) (hH : 0 ≤ c.H) (hHL : 0 ≤ c.HL) (hΛ0 : 0 ≤ c.Lam) (hT : 0 ≤ c.T) :
    0 ≤ c.W ∧ 0 ≤ c.G3 ∧ 0 ≤ c.G2 ∧ 0 ≤ c.EA ∧ 0 ≤ c.Ea2 ∧ 0 ≤ c.EB ∧ 0 ≤ c.Eb2 ∧ 0 ≤ c.Pb ∧
    0 ≤ c.EAB ∧ 0 ≤ c.EC ∧ 0 ≤ c.Ec3 ∧ 0 ≤ c.Cloc := by
  have hW0 : 0 ≤ c.W := (Real.exp_pos _).le
  have hG30 : 0 ≤ c.G3 := by unfold NL4.G3; positivity
  have hG20 : 0 ≤ c.G2 := by unfold NL4.G2; positivity
  have hEA0 : 0 ≤ c.EA := by unfold NL4.EA; positivity
  have hEa20 : 0 ≤ c.Ea2 := by unfold NL4.Ea2; positivity
  have hEB0 : 0 ≤ c.EB := by unfold NL4.EB; positivity
  have hEb20 : 0 ≤ c.Eb2 := by unfold NL4.Eb2; positivity
  have hPb0 : 0 ≤ c.Pb := by unfold NL4.Pb; positivity
  have hEAB0 : 0 ≤ c.EAB := by unfold NL4.EAB; positivity
  have hEC0 : 0 ≤ c.EC := by unfold NL4.EC; positivity
  have hEc30 : 0 ≤ c.Ec3 := by unfold NL4.Ec3; positivity
  refine ⟨hW0, hG30, hG20, hEA0, hEa20, hEB0, hEb20, hPb0, hEAB0, hEC0, hEc30, ?_⟩
  unfold NL4.Cloc; positivity

theorem nrm_hpow (h : ℝ) (hh : 0 ≤ h) (k : ℕ) (r : ℝ) (hr : 0 < r) :
    ‖(h : ℂ) ^ k / (r : ℂ)‖ ≤ h ^ k / r := by
  rw [norm_div, norm_pow, Complex.norm_real, Real.norm_eq_abs, abs_of_nonneg hh, Complex.norm_real,
    Real.norm_eq_abs, abs_of_pos hr]

theorem nrm_hpow' (h : ℝ) (hh : 0 ≤ h) (k : ℕ) : ‖(h : ℂ) ^ k‖ ≤ h ^ k := by
  rw [norm_pow, Complex.norm_real, Real.norm_eq_abs, abs_of_nonneg hh]

/-- stage `a` (per mode) -/
theorem etd4_stageA (c : NL4) (h : ℝ) (hK0 : 0 ≤ c.K) (hM10 : 0 ≤ c.M1) (hM20 : 0 ≤ c.M2)
    (hM30 : 0 ≤ c.M3) (hG4 : 0 ≤ c.G4) (hH : 0 ≤ c.H) (hHL : 0 ≤ c.HL) (hΛ0 : 0 ≤ c.Lam) (hT : 0 ≤ c.T)
    (hh : 0 ≤ h) (hhT : h ≤ c.T)
    (u0 uh d1 d2 Eh q1 q2 q3 f0 : ℂ) (bq3 : ‖q3‖ ≤ c.W / 6)
    (dA : ‖q2 - 1 / 2‖ ≤ c.Lam * h * c.W / 12) (hd1M : ‖d1‖ ≤ c.M1) (hd2M : ‖d2‖ ≤ c.M2)
    (nρa : ‖uh - (Eh * u0 + (h : ℂ) / 2 * q1 * f0 + ((h : ℂ) / 2) ^ 2 * q2 * d1
        + ((h : ℂ) / 2) ^ 3 * q3 * d2)‖ ≤ c.W * c.G3 * h ^ 4 / 384) :
    ‖(Eh * u0 + (h : ℂ) * (q1 / 2) * f0) - uh + ((h ^ 2 / 8 : ℝ) : ℂ) * d1‖ ≤ c.EA * h ^ 3 ∧
    ‖(Eh * u0 + (h : ℂ) * (q1 / 2) * f0) - uh‖ ≤ c.Ea2 * h ^ 2 := by
  obtain ⟨hW0, hG30, hG20, hEA0, hEa20, hEB0, hEb20, hPb0, hEAB0, hEC0, hEc30, hCl0⟩ :=
    c.nonnegs hK0 hM10 hM20 hM30 hG4 hH hHL hΛ0 hT
  have bh2_4 : ‖(h : ℂ) ^ 2 / 4‖ ≤ h ^ 2 / 4 := by
    have := nrm_hpow h hh 2 4 (by norm_num); simpa using this
  have bh_2 : ‖(h : ℂ) / 2‖ ≤ h / 2 := by have := nrm_hpow h hh 1 2 (by norm_num); simpa using this
  have bhh3 : ‖((h : ℂ) / 2) ^ 3‖ ≤ h ^ 3 / 8 := by
    rw [norm_pow]
    calc ‖(h : ℂ) / 2‖ ^ 3 ≤ (h / 2) ^ 3 := pow_le_pow_left₀ (norm_nonneg _) bh_2 3
      _ = h ^ 3 / 8 := by ring
  have h4T : h ^ 4 ≤ c.T * h ^ 3 := by
    calc h ^ 4 = h * h ^ 3 := by ring
      _ ≤ c.T * h ^ 3 := mul_le_mul_of_nonneg_right hhT (by positivity)
  have h3T : h ^ 3 ≤ c.T * h ^ 2 := by
    calc h ^ 3 = h * h ^ 2 := by ring
      _ ≤ c.T * h ^ 2 := mul_le_mul_of_nonneg_right hhT (sq_nonneg h)
  obtain ⟨ρa, hρa⟩ : ∃ ρ, ρ = uh - (Eh * u0 + (h : ℂ) / 2 * q1 * f0 + ((h : ℂ) / 2) ^ 2 * q2 * d1
      + ((h : ℂ) / 2) ^ 3 * q3 * d2) := ⟨_, rfl⟩
  rw [← hρa] at nρa
  obtain ⟨a, ha⟩ : ∃ a, a = Eh * u0 + (h : ℂ) * (q1 / 2) * f0 := ⟨_, rfl⟩
  rw [← ha]
  obtain ⟨εa, hεa⟩ : ∃ ε, ε = a - uh + ((h ^ 2 / 8 : ℝ) : ℂ) * d1 := ⟨_, rfl⟩
  rw [← hεa]
  have eεa : εa = -((h : ℂ) ^ 2 / 4 * (q2 - 1 / 2) * d1) - ((h : ℂ) / 2) ^ 3 * q3 * d2 - ρa := by
    rw [hεa, hρa, ha]; push_cast; ring
  have nεa : ‖εa‖ ≤ c.EA * h ^ 3 := by
    rw [eεa]
    have h1 : ‖(h : ℂ) ^ 2 / 4 * (q2 - 1 / 2) * d1‖ ≤ h ^ 2 / 4 * (c.Lam * h * c.W / 12) * c.M1 :=
      nrm_mul (nrm_mul bh2_4 dA (by positivity)) hd1M (by positivity)
    have h1' : ‖-((h : ℂ) ^ 2 / 4 * (q2 - 1 / 2) * d1)‖ ≤ h ^ 2 / 4 * (c.Lam * h * c.W / 12) * c.M1 := by
      rwa [norm_neg]
    have h2 : ‖((h : ℂ) / 2) ^ 3 * q3 * d2‖ ≤ h ^ 3 / 8 * (c.W / 6) * c.M2 :=
      nrm_mul (nrm_mul bhh3 bq3 (by positivity)) hd2M (by positivity)
    refine (nrm_sub (nrm_sub h1' h2) nρa).trans ?_
    have : c.W * c.G3 * h ^ 4 / 384 ≤ c.W * c.G3 * (c.T * h ^ 3) / 384 := by gcongr
    unfold NL4.EA
    linarith
  refine ⟨nεa, ?_⟩
  have e1 : a - uh = εa - ((h ^ 2 / 8 : ℝ) : ℂ) * d1 := by rw [hεa]; ring
  rw [e1]
  have h1 : ‖((h ^ 2 / 8 : ℝ) : ℂ) * d1‖ ≤ h ^ 2 / 8 * c.M1 :=
    nrm_mul (nrm_ofReal (by positivity) le_rfl) hd1M (by positivity)
  refine (nrm_sub nεa h1).trans ?_
  have : c.EA * h ^ 3 ≤ c.EA * (c.T * h ^ 2) := mul_le_mul_of_nonneg_left h3T hEA0
  unfold NL4.Ea2
  linarith

/-- stage `b` (per mode); `Na` is the mode of `N(a)`, `fh` of `N(u(t+h/2))` -/
theorem etd4_stageB (c : NL4) (h : ℝ) (hK0 : 0 ≤ c.K) (hM10 : 0 ≤ c.M1) (hM20 : 0 ≤ c.M2)
    (hM30 : 0 ≤ c.M3) (hG4 : 0 ≤ c.G4) (hH : 0 ≤ c.H) (hHL : 0 ≤ c.HL) (hΛ0 : 0 ≤ c.Lam) (hT : 0 ≤ c.T)
    (hh : 0 ≤ h) (hhT : h ≤ c.T)
    (u0 uh d1 Eh q1 f0 fh Na : ℂ) (bq1 : ‖q1‖ ≤ c.W) (dB : ‖q1 - 1‖ ≤ c.Lam * h * c.W / 4)
    (hd1M : ‖d1‖ ≤ c.M1)
    (nεa : ‖(Eh * u0 + (h : ℂ) * (q1 / 2) * f0) - uh + ((h ^ 2 / 8 : ℝ) : ℂ) * d1‖ ≤ c.EA * h ^ 3)
    (nσ2 : ‖fh - f0 - (h : ℂ) / 2 * d1‖ ≤ c.G2 * h ^ 2 / 8)
    (nδa : ‖Na - fh‖ ≤ c.K * (c.Ea2 * h ^ 2)) :
    ‖(Eh * u0 + (h : ℂ) * (q1 / 2) * Na) - uh - ((h ^ 2 / 8 : ℝ) : ℂ) * d1‖ ≤ c.EB * h ^ 3 ∧
    ‖(Eh * u0 + (h : ℂ) * (q1 / 2) * Na) - uh‖ ≤ c.Eb2 * h ^ 2 := by
  obtain ⟨hW0, hG30, hG20, hEA0, hEa20, hEB0, hEb20, hPb0, hEAB0, hEC0, hEc30, hCl0⟩ :=
    c.nonnegs hK0 hM10 hM20 hM30 hG4 hH hHL hΛ0 hT
  have bh2_4 : ‖(h : ℂ) ^ 2 / 4‖ ≤ h ^ 2 / 4 := by
    have := nrm_hpow h hh 2 4 (by norm_num); simpa using this
  have bh_2 : ‖(h : ℂ) / 2‖ ≤ h / 2 := by have := nrm_hpow h hh 1 2 (by norm_num); simpa using this
  have h3T : h ^ 3 ≤ c.T * h ^ 2 := by
    calc h ^ 3 = h * h ^ 2 := by ring
      _ ≤ c.T * h ^ 2 := mul_le_mul_of_nonneg_right hhT (sq_nonneg h)
  obtain ⟨εa, hεa⟩ : ∃ ε, ε = (Eh * u0 + (h : ℂ) * (q1 / 2) * f0) - uh + ((h ^ 2 / 8 : ℝ) : ℂ) * d1 :=
    ⟨_, rfl⟩
  rw [← hεa] at nεa
  obtain ⟨σ2, hσ2⟩ : ∃ σ, σ = fh - f0 - (h : ℂ) / 2 * d1 := ⟨_, rfl⟩
  obtain ⟨δa, hδa⟩ : ∃ δ, δ = Na - fh := ⟨_, rfl⟩
  rw [← hσ2] at nσ2
  rw [← hδa] at nδa
  obtain ⟨b, hb⟩ : ∃ b, b = Eh * u0 + (h : ℂ) * (q1 / 2) * Na := ⟨_, rfl⟩
  rw [← hb]
  obtain ⟨εb, hεb⟩ : ∃ ε, ε = b - uh - ((h ^ 2 / 8 : ℝ) : ℂ) * d1 := ⟨_, rfl⟩
  rw [← hεb]
  have eεb : εb = εa + (h : ℂ) ^ 2 / 4 * (q1 - 1) * d1 + (h : ℂ) / 2 * q1 * (σ2 + δa) := by
    rw [hεb, hεa, hb, hσ2, hδa]; push_cast; ring
  have nεb : ‖εb‖ ≤ c.EB * h ^ 3 := by
    rw [eεb]
    have h1 : ‖(h : ℂ) ^ 2 / 4 * (q1 - 1) * d1‖ ≤ h ^ 2 / 4 * (c.Lam * h * c.W / 4) * c.M1 :=
      nrm_mul (nrm_mul bh2_4 dB (by positivity)) hd1M (by positivity)
    have h2 : ‖(h : ℂ) / 2 * q1 * (σ2 + δa)‖ ≤ h / 2 * c.W * (c.G2 * h ^ 2 / 8 + c.K * (c.Ea2 * h ^ 2)) :=
      nrm_mul (nrm_mul bh_2 bq1 (by positivity)) (nrm_add nσ2 nδa) (by positivity)
    refine (nrm_add (nrm_add nεa h1) h2).trans (le_of_eq ?_)
    unfold NL4.EB; ring
  refine ⟨nεb, ?_⟩
  have e1 : b - uh = εb + ((h ^ 2 / 8 : ℝ) : ℂ) * d1 := by rw [hεb]; ring
  rw [e1]
  have h1 : ‖((h ^ 2 / 8 : ℝ) : ℂ) * d1‖ ≤ h ^ 2 / 8 * c.M1 :=
    nrm_mul (nrm_ofReal (by positivity) le_rfl) hd1M (by positivity)
  refine (nrm_add nεb h1).trans ?_
  have : c.EB * h ^ 3 ≤ c.EB * (c.T * h ^ 2) := mul_le_mul_of_nonneg_left h3T hEB0
  unfold NL4.Eb2
  linarith

/-- bound of the cubic coefficient `P` (per mode) -/
theorem etd4_P_bound (c : NL4) (hK0 : 0 ≤ c.K) (hM10 : 0 ≤ c.M1) (hΛ0 : 0 ≤ c.Lam)
    (l d1 d2 A2 : ℂ) (hlΛ : ‖l‖ ≤ c.Lam) (hd1M : ‖d1‖ ≤ c.M1) (hd2M : ‖d2‖ ≤ c.M2)
    (nA2 : ‖A2‖ ≤ c.K * c.M1) :
    ‖(1 / 48 : ℂ) * (l * d1 + d2) - (1 / 16 : ℂ) * A2‖ ≤ c.Pb := by
  have h1 : ‖(1 / 48 : ℂ) * (l * d1 + d2)‖ ≤ 1 / 48 * (c.Lam * c.M1 + c.M2) :=
    nrm_mul (by simp) (nrm_add (nrm_mul hlΛ hd1M hΛ0) hd2M) (by norm_num)
  have h2 : ‖(1 / 16 : ℂ) * A2‖ ≤ 1 / 16 * (c.K * c.M1) := nrm_mul (by simp) nA2 (by norm_num)
  refine (nrm_sub h1 h2).trans (le_of_eq ?_)
  unfold NL4.Pb; ring

/-- sum of the two half-step stage errors (per mode): `A1, A2, qa` modes of `L_a ε_a, L_a f₁`, remainder -/
theorem etd4_stageAB (c : NL4) (h : ℝ) (hK0 : 0 ≤ c.K) (hM10 : 0 ≤ c.M1) (hM20 : 0 ≤ c.M2)
    (hM30 : 0 ≤ c.M3) (hG4 : 0 ≤ c.G4) (hH : 0 ≤ c.H) (hHL : 0 ≤ c.HL) (hΛ0 : 0 ≤ c.Lam) (hT : 0 ≤ c.T)
    (hh : 0 ≤ h) (hhT : h ≤ c.T)
    (l u0 uh d1 d2 Eh q1 q2 q3 f0 fh Na A1 A2 qa : ℂ) (bq1 : ‖q1‖ ≤ c.W)
    (dB : ‖q1 - 1‖ ≤ c.Lam * h * c.W / 4)
    (dAB1 : ‖q1 - 2 * q2 - l * h / 12‖ ≤ (c.Lam * h) ^ 2 * c.W / 16)
    (dAB2 : ‖q1 - 4 * q3 - 1 / 3‖ ≤ c.Lam * h * c.W / 3)
    (hd1M : ‖d1‖ ≤ c.M1) (hd2M : ‖d2‖ ≤ c.M2)
    (nρa : ‖uh - (Eh * u0 + (h : ℂ) / 2 * q1 * f0 + ((h : ℂ) / 2) ^ 2 * q2 * d1
        + ((h : ℂ) / 2) ^ 3 * q3 * d2)‖ ≤ c.W * c.G3 * h ^ 4 / 384)
    (nσ3 : ‖fh - f0 - (h : ℂ) / 2 * d1 - ((h : ℂ) / 2) ^ 2 / 2 * d2‖ ≤ c.G3 * h ^ 3 / 48)
    (e1 : Na = fh + (A1 + ((-(h ^ 2 / 8) : ℝ) : ℂ) * A2) + qa)
    (nA1 : ‖A1‖ ≤ c.K * (c.EA * h ^ 3)) (nA2 : ‖A2‖ ≤ c.K * c.M1)
    (nqa : ‖qa‖ ≤ c.H / 2 * (c.Ea2 * h ^ 2) ^ 2) :
    ‖((Eh * u0 + (h : ℂ) * (q1 / 2) * f0) - uh) + ((Eh * u0 + (h : ℂ) * (q1 / 2) * Na) - uh)
        - ((h ^ 3 : ℝ) : ℂ) * ((1 / 48 : ℂ) * (l * d1 + d2) - (1 / 16 : ℂ) * A2)‖ ≤ c.EAB * h ^ 4 := by
  obtain ⟨hW0, hG30, hG20, hEA0, hEa20, hEB0, hEb20, hPb0, hEAB0, hEC0, hEc30, hCl0⟩ :=
    c.nonnegs hK0 hM10 hM20 hM30 hG4 hH hHL hΛ0 hT
  have b2 : ‖(2 : ℂ)‖ ≤ 2 := by simp
  have bh2_4 : ‖(h : ℂ) ^ 2 / 4‖ ≤ h ^ 2 / 4 := by
    have := nrm_hpow h hh 2 4 (by norm_num); simpa using this
  have bh3_16 : ‖(h : ℂ) ^ 3 / 16‖ ≤ h ^ 3 / 16 := by
    have := nrm_hpow h hh 3 16 (by norm_num); simpa using this
  have bh_2 : ‖(h : ℂ) / 2‖ ≤ h / 2 := by have := nrm_hpow h hh 1 2 (by norm_num); simpa using this
  have h4T : h ^ 4 ≤ c.T * h ^ 3 := by
    calc h ^ 4 = h * h ^ 3 := by ring
      _ ≤ c.T * h ^ 3 := mul_le_mul_of_nonneg_right hhT (by positivity)
  obtain ⟨ρa, hρa⟩ : ∃ ρ, ρ = uh - (Eh * u0 + (h : ℂ) / 2 * q1 * f0 + ((h : ℂ) / 2) ^ 2 * q2 * d1
      + ((h : ℂ) / 2) ^ 3 * q3 * d2) := ⟨_, rfl⟩
  obtain ⟨σ3, hσ3⟩ : ∃ σ, σ = fh - f0 - (h : ℂ) / 2 * d1 - ((h : ℂ) / 2) ^ 2 / 2 * d2 := ⟨_, rfl⟩
  rw [← hρa] at nρa
  rw [← hσ3] at nσ3
  have eεab : ((Eh * u0 + (h : ℂ) * (q1 / 2) * f0) - uh) + ((Eh * u0 + (h : ℂ) * (q1 / 2) * Na) - uh)
        - ((h ^ 3 : ℝ) : ℂ) * ((1 / 48 : ℂ) * (l * d1 + d2) - (1 / 16 : ℂ) * A2)
      = (h : ℂ) ^ 2 / 4 * (q1 - 2 * q2 - l * h / 12) * d1
      + (h : ℂ) ^ 3 / 16 * (q1 - 4 * q3 - 1 / 3) * d2 - (h : ℂ) ^ 3 / 16 * (q1 - 1) * A2 - 2 * ρa
      + (h : ℂ) / 2 * q1 * (σ3 + A1 + qa) := by
    rw [e1, hρa, hσ3]; push_cast; ring
  rw [eεab]
  have h1 : ‖(h : ℂ) ^ 2 / 4 * (q1 - 2 * q2 - l * h / 12) * d1‖
      ≤ h ^ 2 / 4 * ((c.Lam * h) ^ 2 * c.W / 16) * c.M1 :=
    nrm_mul (nrm_mul bh2_4 dAB1 (by positivity)) hd1M (by positivity)
  have h2 : ‖(h : ℂ) ^ 3 / 16 * (q1 - 4 * q3 - 1 / 3) * d2‖
      ≤ h ^ 3 / 16 * (c.Lam * h * c.W / 3) * c.M2 :=
    nrm_mul (nrm_mul bh3_16 dAB2 (by positivity)) hd2M (by positivity)
  have h3 : ‖(h : ℂ) ^ 3 / 16 * (q1 - 1) * A2‖
      ≤ h ^ 3 / 16 * (c.Lam * h * c.W / 4) * (c.K * c.M1) :=
    nrm_mul (nrm_mul bh3_16 dB (by positivity)) nA2 (by positivity)
  have h4 : ‖2 * ρa‖ ≤ 2 * (c.W * c.G3 * h ^ 4 / 384) := nrm_mul b2 nρa (by norm_num)
  have h5 : ‖(h : ℂ) / 2 * q1 * (σ3 + A1 + qa)‖
      ≤ h / 2 * c.W * (c.G3 * h ^ 3 / 48 + c.K * (c.EA * h ^ 3) + c.H / 2 * (c.Ea2 * h ^ 2) ^ 2) :=
    nrm_mul (nrm_mul bh_2 bq1 (by positivity)) (nrm_add (nrm_add nσ3 nA1) nqa) (by positivity)
  refine (nrm_add (nrm_sub (nrm_sub (nrm_add h1 h2) h3) h4) h5).trans ?_
  have hq : c.H / 2 * (c.Ea2 * h ^ 2) ^ 2 ≤ c.H / 2 * c.Ea2 ^ 2 * c.T * h ^ 3 := by
    have : (c.Ea2 * h ^ 2) ^ 2 = c.Ea2 ^ 2 * h ^ 4 := by ring
    rw [this]
    have : c.H / 2 * (c.Ea2 ^ 2 * h ^ 4) ≤ c.H / 2 * (c.Ea2 ^ 2 * (c.T * h ^ 3)) := by gcongr
    linarith
  have hq' : h / 2 * c.W * (c.H / 2 * (c.Ea2 * h ^ 2) ^ 2)
      ≤ h / 2 * c.W * (c.H / 2 * c.Ea2 ^ 2 * c.T * h ^ 3) :=
    mul_le_mul_of_nonneg_left hq (by positivity)
  unfold NL4.EAB
  calc _ ≤ h ^ 2 / 4 * ((c.Lam * h) ^ 2 * c.W / 16) * c.M1 + h ^ 3 / 16 * (c.Lam * h * c.W / 3) * c.M2
        + h ^ 3 / 16 * (c.Lam * h * c.W / 4) * (c.K * c.M1) + 2 * (c.W * c.G3 * h ^ 4 / 384)
        + h / 2 * c.W * (c.G3 * h ^ 3 / 48 + c.K * (c.EA * h ^ 3) + c.H / 2 * c.Ea2 ^ 2 * c.T * h ^ 3) := by
        linarith
    _ = _ := by ring

/-- stage `c` (per mode): `Nb` mode of `N(b)`, `B1, A2, qb` modes of `L_a ε_b, L_a f₁`, remainder; `P` the cubic
    coefficient -/
theorem etd4_stageC (c : NL4) (h : ℝ) (hK0 : 0 ≤ c.K) (hM10 : 0 ≤ c.M1) (hM20 : 0 ≤ c.M2)
    (hM30 : 0 ≤ c.M3) (hG4 : 0 ≤ c.G4) (hH : 0 ≤ c.H) (hHL : 0 ≤ c.HL) (hΛ0 : 0 ≤ c.Lam) (hT : 0 ≤ c.T)
    (hh : 0 ≤ h) (hhT : h ≤ c.T)
    (l u0 u1 d1 d2 E Eh p1 p2 p3 q1 f0 fh Nb B1 A2 qb : ℂ) (eE : E = Eh * Eh)
    (eP1 : (h : ℂ) * p1 = (h : ℂ) / 2 * q1 * (Eh + 1)) (bq1 : ‖q1‖ ≤ c.W)
    (dB : ‖q1 - 1‖ ≤ c.Lam * h * c.W / 4)
    (dC1 : ‖q1 / 2 - p2 + l * h / 24‖ ≤ (c.Lam * h) ^ 2 * c.W / 16)
    (dC2 : ‖q1 / 8 - p3 + 1 / 24‖ ≤ c.Lam * h * c.W * (7 / 96))
    (hd1M : ‖d1‖ ≤ c.M1) (hd2M : ‖d2‖ ≤ c.M2)
    (nρ3 : ‖u1 - (E * u0 + (h : ℂ) * p1 * f0 + (h : ℂ) ^ 2 * p2 * d1 + (h : ℂ) ^ 3 * p3 * d2)‖
      ≤ c.W * c.G3 * h ^ 4 / 24)
    (nσ3 : ‖fh - f0 - (h : ℂ) / 2 * d1 - ((h : ℂ) / 2) ^ 2 / 2 * d2‖ ≤ c.G3 * h ^ 3 / 48)
    (e2 : Nb = fh + (B1 + ((h ^ 2 / 8 : ℝ) : ℂ) * A2) + qb)
    (nB1 : ‖B1‖ ≤ c.K * (c.EB * h ^ 3)) (nA2 : ‖A2‖ ≤ c.K * c.M1)
    (nqb : ‖qb‖ ≤ c.H / 2 * (c.Eb2 * h ^ 2) ^ 2)
    (nP : ‖(1 / 48 : ℂ) * (l * d1 + d2) - (1 / 16 : ℂ) * A2‖ ≤ c.Pb) :
    ‖(Eh * (Eh * u0 + (h : ℂ) * (q1 / 2) * f0) + (h : ℂ) * (q1 / 2) * (2 * Nb - f0)) - u1
        + ((2 * h ^ 3 : ℝ) : ℂ) * ((1 / 48 : ℂ) * (l * d1 + d2) - (1 / 16 : ℂ) * A2)‖ ≤ c.EC * h ^ 4 ∧
    ‖(Eh * (Eh * u0 + (h : ℂ) * (q1 / 2) * f0) + (h : ℂ) * (q1 / 2) * (2 * Nb - f0)) - u1‖
      ≤ c.Ec3 * h ^ 3 := by
  obtain ⟨hW0, hG30, hG20, hEA0, hEa20, hEB0, hEb20, hPb0, hEAB0, hEC0, hEc30, hCl0⟩ :=
    c.nonnegs hK0 hM10 hM20 hM30 hG4 hH hHL hΛ0 hT
  have bhc : ‖(h : ℂ)‖ ≤ h := nrm_ofReal hh le_rfl
  have bh3_8 : ‖(h : ℂ) ^ 3 / 8‖ ≤ h ^ 3 / 8 := by
    have := nrm_hpow h hh 3 8 (by norm_num); simpa using this
  have bh2' := nrm_hpow' h hh 2
  have bh3' := nrm_hpow' h hh 3
  have h4T : h ^ 4 ≤ c.T * h ^ 3 := by
    calc h ^ 4 = h * h ^ 3 := by ring
      _ ≤ c.T * h ^ 3 := mul_le_mul_of_nonneg_right hhT (by positivity)
  obtain ⟨ρ3, hρ3⟩ : ∃ ρ, ρ = u1 - (E * u0 + (h : ℂ) * p1 * f0 + (h : ℂ) ^ 2 * p2 * d1
      + (h : ℂ) ^ 3 * p3 * d2) := ⟨_, rfl⟩
  obtain ⟨σ3, hσ3⟩ : ∃ σ, σ = fh - f0 - (h : ℂ) / 2 * d1 - ((h : ℂ) / 2) ^ 2 / 2 * d2 := ⟨_, rfl⟩
  rw [← hρ3] at nρ3
  rw [← hσ3] at nσ3
  obtain ⟨P, hP⟩ : ∃ P, P = (1 / 48 : ℂ) * (l * d1 + d2) - (1 / 16 : ℂ) * A2 := ⟨_, rfl⟩
  rw [← hP] at nP ⊢
  obtain ⟨cc, hcc⟩ : ∃ x, x = Eh * (Eh * u0 + (h : ℂ) * (q1 / 2) * f0)
      + (h : ℂ) * (q1 / 2) * (2 * Nb - f0) := ⟨_, rfl⟩
  rw [← hcc]
  obtain ⟨εc, hεc⟩ : ∃ ε, ε = cc - u1 + ((2 * h ^ 3 : ℝ) : ℂ) * P := ⟨_, rfl⟩
  rw [← hεc]
  have eεc : εc = (h : ℂ) ^ 2 * (q1 / 2 - p2 + l * h / 24) * d1
      + (h : ℂ) ^ 3 * (q1 / 8 - p3 + 1 / 24) * d2 + (h : ℂ) ^ 3 / 8 * (q1 - 1) * A2
      + (h : ℂ) * q1 * (σ3 + B1 + qb) - ρ3 := by
    rw [hεc, hcc, e2, hρ3, hσ3, hP]
    push_cast
    linear_combination (-u0) * eE + (-f0) * eP1
  have nεc : ‖εc‖ ≤ c.EC * h ^ 4 := by
    rw [eεc]
    have h1 : ‖(h : ℂ) ^ 2 * (q1 / 2 - p2 + l * h / 24) * d1‖
        ≤ h ^ 2 * ((c.Lam * h) ^ 2 * c.W / 16) * c.M1 :=
      nrm_mul (nrm_mul bh2' dC1 (by positivity)) hd1M (by positivity)
    have h2 : ‖(h : ℂ) ^ 3 * (q1 / 8 - p3 + 1 / 24) * d2‖
        ≤ h ^ 3 * (c.Lam * h * c.W * (7 / 96)) * c.M2 :=
      nrm_mul (nrm_mul bh3' dC2 (by positivity)) hd2M (by positivity)
    have h3 : ‖(h : ℂ) ^ 3 / 8 * (q1 - 1) * A2‖
        ≤ h ^ 3 / 8 * (c.Lam * h * c.W / 4) * (c.K * c.M1) :=
      nrm_mul (nrm_mul bh3_8 dB (by positivity)) nA2 (by positivity)
    have h5 : ‖(h : ℂ) * q1 * (σ3 + B1 + qb)‖
        ≤ h * c.W * (c.G3 * h ^ 3 / 48 + c.K * (c.EB * h ^ 3) + c.H / 2 * (c.Eb2 * h ^ 2) ^ 2) :=
      nrm_mul (nrm_mul bhc bq1 hh) (nrm_add (nrm_add nσ3 nB1) nqb) (by positivity)
    refine (nrm_sub (nrm_add (nrm_add (nrm_add h1 h2) h3) h5) nρ3).trans ?_
    have hq : c.H / 2 * (c.Eb2 * h ^ 2) ^ 2 ≤ c.H / 2 * c.Eb2 ^ 2 * c.T * h ^ 3 := by
      have : (c.Eb2 * h ^ 2) ^ 2 = c.Eb2 ^ 2 * h ^ 4 := by ring
      rw [this]
      have : c.H / 2 * (c.Eb2 ^ 2 * h ^ 4) ≤ c.H / 2 * (c.Eb2 ^ 2 * (c.T * h ^ 3)) := by gcongr
      linarith
    have hq' : h * c.W * (c.H / 2 * (c.Eb2 * h ^ 2) ^ 2)
        ≤ h * c.W * (c.H / 2 * c.Eb2 ^ 2 * c.T * h ^ 3) :=
      mul_le_mul_of_nonneg_left hq (by positivity)
    unfold NL4.EC
    calc _ ≤ h ^ 2 * ((c.Lam * h) ^ 2 * c.W / 16) * c.M1 + h ^ 3 * (c.Lam * h * c.W * (7 / 96)) * c.M2
          + h ^ 3 / 8 * (c.Lam * h * c.W / 4) * (c.K * c.M1)
          + h * c.W * (c.G3 * h ^ 3 / 48 + c.K * (c.EB * h ^ 3) + c.H / 2 * c.Eb2 ^ 2 * c.T * h ^ 3)
          + c.W * c.G3 * h ^ 4 / 24 := by linarith
      _ = _ := by ring
  refine ⟨nεc, ?_⟩
  have e : cc - u1 = εc - ((2 * h ^ 3 : ℝ) : ℂ) * P := by rw [hεc]; ring
  rw [e]
  have h1 : ‖((2 * h ^ 3 : ℝ) : ℂ) * P‖ ≤ 2 * h ^ 3 * c.Pb :=
    nrm_mul (nrm_ofReal (by positivity) le_rfl) nP (by positivity)
  refine (nrm_sub nεc h1).trans ?_
  have : c.EC * h ^ 4 ≤ c.EC * (c.T * h ^ 3) := mul_le_mul_of_nonneg_left h4T hEC0
  unfold NL4.Ec3
  linarith

/-- final stage (per mode) -/
theorem etd4_final (c : NL4) (h : ℝ) (hK0 : 0 ≤ c.K) (hM10 : 0 ≤ c.M1) (hM20 : 0 ≤ c.M2)
    (hM30 : 0 ≤ c.M3) (hG4 : 0 ≤ c.G4) (hH : 0 ≤ c.H) (hHL : 0 ≤ c.HL) (hΛ0 : 0 ≤ c.Lam) (hT : 0 ≤ c.T)
    (hh : 0 ≤ h) (hhT : h ≤ c.T)
    (u0 u1 d1 d2 d3 E p1 p2 p3 p4 f0 fh fe Na Nb Nc AB1 C1 LaP LbP qa qb qc : ℂ)
    (dβγ : ‖(p2 - 2 * p3) - (4 * p3 - p2)‖ ≤ c.Lam * h * (7 * c.W / 12))
    (dQ : ‖-p2 / 12 + p3 / 2 - p4‖ ≤ c.Lam * h * (c.W / 72 + c.W / 48 + c.W / 120))
    (bβ : ‖p2 - 2 * p3‖ ≤ 5 * c.W / 6) (bγ : ‖4 * p3 - p2‖ ≤ 7 * c.W / 6) (hd3M : ‖d3‖ ≤ c.M3)
    (nρ4 : ‖u1 - (E * u0 + (h : ℂ) * p1 * f0 + (h : ℂ) ^ 2 * p2 * d1 + (h : ℂ) ^ 3 * p3 * d2
        + (h : ℂ) ^ 4 * p4 * d3)‖ ≤ c.W * c.G4 * h ^ 5 / 120)
    (nτh : ‖fh - f0 - (h : ℂ) / 2 * d1 - ((h : ℂ) / 2) ^ 2 / 2 * d2 - ((h : ℂ) / 2) ^ 3 / 6 * d3‖
      ≤ c.G4 * h ^ 4 / 384)
    (nτe : ‖fe - f0 - (h : ℂ) * d1 - (h : ℂ) ^ 2 / 2 * d2 - (h : ℂ) ^ 3 / 6 * d3‖ ≤ c.G4 * h ^ 4 / 24)
    (e3 : Na + Nb = 2 * fh + (AB1 + ((h ^ 3 : ℝ) : ℂ) * LaP) + qa + qb)
    (e4 : Nc = fe + (C1 + ((-(2 * h ^ 3) : ℝ) : ℂ) * LbP) + qc)
    (nAB1 : ‖AB1‖ ≤ c.K * (c.EAB * h ^ 4)) (nC1 : ‖C1‖ ≤ c.K * (c.EC * h ^ 4))
    (nLaP : ‖LaP‖ ≤ c.K * c.Pb) (nLabP : ‖LaP - LbP‖ ≤ c.HL * (h / 2) * c.Pb)
    (nqa : ‖qa‖ ≤ c.H / 2 * (c.Ea2 * h ^ 2) ^ 2) (nqb : ‖qb‖ ≤ c.H / 2 * (c.Eb2 * h ^ 2) ^ 2)
    (nqc : ‖qc‖ ≤ c.H / 2 * (c.Ec3 * h ^ 3) ^ 2) :
    ‖u1 - (E * u0 + (h : ℂ) * (p1 - 3 * p2 + 4 * p3) * f0 + (h : ℂ) * (p2 - 2 * p3) * 2 * (Na + Nb)
        + (h : ℂ) * (4 * p3 - p2) * Nc)‖ ≤ c.Cloc * h ^ 5 := by
  obtain ⟨hW0, hG30, hG20, hEA0, hEa20, hEB0, hEb20, hPb0, hEAB0, hEC0, hEc30, hCl0⟩ :=
    c.nonnegs hK0 hM10 hM20 hM30 hG4 hH hHL hΛ0 hT
  have b2 : ‖(2 : ℂ)‖ ≤ 2 := by simp
  have b4c : ‖(4 : ℂ)‖ ≤ 4 := by simp
  have bhc : ‖(h : ℂ)‖ ≤ h := nrm_ofReal hh le_rfl
  have bh4' := nrm_hpow' h hh 4
  obtain ⟨ρ4, hρ4⟩ : ∃ ρ, ρ = u1 - (E * u0 + (h : ℂ) * p1 * f0 + (h : ℂ) ^ 2 * p2 * d1
      + (h : ℂ) ^ 3 * p3 * d2 + (h : ℂ) ^ 4 * p4 * d3) := ⟨_, rfl⟩
  obtain ⟨τh, hτh⟩ : ∃ τ, τ = fh - f0 - (h : ℂ) / 2 * d1 - ((h : ℂ) / 2) ^ 2 / 2 * d2
      - ((h : ℂ) / 2) ^ 3 / 6 * d3 := ⟨_, rfl⟩
  obtain ⟨τe, hτe⟩ : ∃ τ, τ = fe - f0 - (h : ℂ) * d1 - (h : ℂ) ^ 2 / 2 * d2
      - (h : ℂ) ^ 3 / 6 * d3 := ⟨_, rfl⟩
  rw [← hρ4] at nρ4
  rw [← hτh] at nτh
  rw [← hτe] at nτe
  have hid : u1 - (E * u0 + (h : ℂ) * (p1 - 3 * p2 + 4 * p3) * f0
        + (h : ℂ) * (p2 - 2 * p3) * 2 * (Na + Nb) + (h : ℂ) * (4 * p3 - p2) * Nc)
      = -((h : ℂ) * (4 * (p2 - 2 * p3) * τh + (4 * p3 - p2) * τe)
        + (h : ℂ) ^ 4 * (-p2 / 12 + p3 / 2 - p4) * d3
        + (h : ℂ) * (2 * (p2 - 2 * p3) * (AB1 + qa + qb) + (4 * p3 - p2) * (C1 + qc))
        + 2 * ((h : ℂ) ^ 4 * (((p2 - 2 * p3) - (4 * p3 - p2)) * LaP + (4 * p3 - p2) * (LaP - LbP)))
        - ρ4) := by
    rw [e3, e4, hτh, hτe, hρ4]
    push_cast
    ring
  rw [hid, norm_neg]
  have g1 : ‖(h : ℂ) * (4 * (p2 - 2 * p3) * τh + (4 * p3 - p2) * τe)‖
      ≤ h * (4 * (5 * c.W / 6) * (c.G4 * h ^ 4 / 384) + (7 * c.W / 6) * (c.G4 * h ^ 4 / 24)) :=
    nrm_mul bhc (nrm_add (nrm_mul (nrm_mul b4c bβ (by norm_num)) nτh (by positivity))
      (nrm_mul bγ nτe (by positivity))) hh
  have g2 : ‖(h : ℂ) ^ 4 * (-p2 / 12 + p3 / 2 - p4) * d3‖
      ≤ h ^ 4 * (c.Lam * h * (c.W / 72 + c.W / 48 + c.W / 120)) * c.M3 :=
    nrm_mul (nrm_mul bh4' dQ (by positivity)) hd3M (by positivity)
  have g3 : ‖(h : ℂ) * (2 * (p2 - 2 * p3) * (AB1 + qa + qb) + (4 * p3 - p2) * (C1 + qc))‖
      ≤ h * (2 * (5 * c.W / 6) * (c.K * (c.EAB * h ^ 4) + c.H / 2 * (c.Ea2 * h ^ 2) ^ 2
            + c.H / 2 * (c.Eb2 * h ^ 2) ^ 2)
          + (7 * c.W / 6) * (c.K * (c.EC * h ^ 4) + c.H / 2 * (c.Ec3 * h ^ 3) ^ 2)) :=
    nrm_mul bhc (nrm_add (nrm_mul (nrm_mul b2 bβ (by norm_num)) (nrm_add (nrm_add nAB1 nqa) nqb)
      (by positivity)) (nrm_mul bγ (nrm_add nC1 nqc) (by positivity))) hh
  have g4 : ‖2 * ((h : ℂ) ^ 4 * (((p2 - 2 * p3) - (4 * p3 - p2)) * LaP + (4 * p3 - p2) * (LaP - LbP)))‖
      ≤ 2 * (h ^ 4 * (c.Lam * h * (7 * c.W / 12) * (c.K * c.Pb)
          + (7 * c.W / 6) * (c.HL * (h / 2) * c.Pb))) :=
    nrm_mul b2 (nrm_mul bh4' (nrm_add (nrm_mul dβγ nLaP (by positivity))
      (nrm_mul bγ nLabP (by positivity))) (by positivity)) (by norm_num)
  refine (nrm_sub (nrm_add (nrm_add (nrm_add g1 g2) g3) g4) nρ4).trans ?_
  have hh2 : h ^ 2 ≤ c.T ^ 2 := pow_le_pow_left₀ hh hhT 2
  have hfin : h * (4 * (5 * c.W / 6) * (c.G4 * h ^ 4 / 384) + (7 * c.W / 6) * (c.G4 * h ^ 4 / 24))
      + h ^ 4 * (c.Lam * h * (c.W / 72 + c.W / 48 + c.W / 120)) * c.M3
      + h * (2 * (5 * c.W / 6) * (c.K * (c.EAB * h ^ 4) + c.H / 2 * (c.Ea2 * h ^ 2) ^ 2
            + c.H / 2 * (c.Eb2 * h ^ 2) ^ 2)
          + (7 * c.W / 6) * (c.K * (c.EC * h ^ 4) + c.H / 2 * (c.Ec3 * h ^ 3) ^ 2))
      + 2 * (h ^ 4 * (c.Lam * h * (7 * c.W / 12) * (c.K * c.Pb)
          + (7 * c.W / 6) * (c.HL * (h / 2) * c.Pb)))
      + c.W * c.G4 * h ^ 5 / 120
      = ((10 * c.W / 3) * (c.G4 / 384) + (7 * c.W / 6) * (c.G4 / 24) + c.W * c.G4 / 120
          + c.Lam * (c.W / 72 + c.W / 48 + c.W / 120) * c.M3
          + 2 * (c.Lam * (7 * c.W / 12) * (c.K * c.Pb) + (7 * c.W / 6) * (c.HL / 2 * c.Pb))
          + 2 * (5 * c.W / 6) * (c.K * c.EAB + c.H / 2 * c.Ea2 ^ 2 + c.H / 2 * c.Eb2 ^ 2)
          + (7 * c.W / 6) * (c.K * c.EC + c.H / 2 * c.Ec3 ^ 2 * h ^ 2)) * h ^ 5 := by ring
  rw [hfin]
  unfold NL4.Cloc
  gcongr

end Exponax.LinearOrder
end
