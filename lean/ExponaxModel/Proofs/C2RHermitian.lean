import ExponaxModel.Proofs.C2RProjection
/-
C11 support — what `rfftn ∘ irfftn` does to an ARBITRARY stored half spectrum, every `D ≥ 1`, `N ≥ 1`
(generalises `Conserve.rfftn_irfftn_2d`):

  * `conjIdx D N h`        : stored index of the conjugate wavenumber (leading axes negated mod `N`, last
                             axis kept); links `conjIdx_lt`, `conjIdx_conjIdx`, `herm_weight_conjIdx`,
                             `twiddle_conjIdx` (its basis function is the complex conjugate one on the
                             self-conjugate columns);
  * `rfftn_irfftn_nd`      : off the self-conjugate columns (`w = 2`) the stored coefficient comes back,
                             on them (`w = 1`) only the Hermitian part `(C_h + conj C_{σh})/2` survives;
  * `rfftn_conjIdx_of_real`: the spectrum of a real field is Hermitian on the self-conjugate columns;
  * `c2r_fixed_iff_herm`   : fixed points of `rfftn ∘ irfftn` = Hermitian-consistent stored spectra.
-/
set_option linter.unusedVariables false
set_option linter.unusedSimpArgs false
namespace Exponax.C2R
open Exponax Exponax.Layout Exponax.Transform Exponax.DFT Exponax.Conserve Finset

/-! ### digit-wise negation of a leading multi-index -/

/-- the flat index `< N^E` whose base-`N` digits are the negatives (mod `N`) of those of `b` -/
def negIdx (N : ℕ) : ℕ → ℕ → ℕ
  | 0, _ => 0
  | E + 1, b => negIdx N E (b / N) * N + sigA N (b % N)

theorem negIdx_div (N E b : ℕ) (hN : 0 < N) : negIdx N (E + 1) b / N = negIdx N E (b / N) := by
  show (negIdx N E (b / N) * N + sigA N (b % N)) / N = _
  rw [show negIdx N E (b / N) * N + sigA N (b % N) = sigA N (b % N) + N * negIdx N E (b / N) by ring,
    Nat.add_mul_div_left _ _ hN, Nat.div_eq_of_lt (sigA_lt N _ hN), zero_add]

theorem negIdx_mod (N E b : ℕ) (hN : 0 < N) : negIdx N (E + 1) b % N = sigA N (b % N) := by
  show (negIdx N E (b / N) * N + sigA N (b % N)) % N = _
  rw [show negIdx N E (b / N) * N + sigA N (b % N) = sigA N (b % N) + N * negIdx N E (b / N) by ring,
    Nat.add_mul_mod_self_left, Nat.mod_eq_of_lt (sigA_lt N _ hN)]

theorem negIdx_lt (N : ℕ) (hN : 0 < N) : ∀ (E b : ℕ), negIdx N E b < N ^ E
  | 0, _ => by simp [negIdx]
  | E + 1, b => by
    have h1 := negIdx_lt N hN E (b / N)
    have h2 := sigA_lt N (b % N) hN
    show negIdx N E (b / N) * N + sigA N (b % N) < N ^ (E + 1)
    calc negIdx N E (b / N) * N + sigA N (b % N) < negIdx N E (b / N) * N + N := by omega
      _ = (negIdx N E (b / N) + 1) * N := by ring
      _ ≤ N ^ E * N := Nat.mul_le_mul_right _ h1
      _ = N ^ (E + 1) := (pow_succ _ _).symm

theorem negIdx_negIdx (N : ℕ) (hN : 0 < N) : ∀ (E b : ℕ), b < N ^ E → negIdx N E (negIdx N E b) = b
  | 0, b, hb => by
    have : b = 0 := by simpa using hb
    simp [negIdx, this]
  | E + 1, b, hb => by
    have hb' : b / N < N ^ E := Nat.div_lt_of_lt_mul (by rw [pow_succ'] at hb; exact hb)
    apply eq_of_div_mod N
    · rw [negIdx_div N E _ hN, negIdx_div N E _ hN, negIdx_negIdx N hN E _ hb']
    · rw [negIdx_mod N E _ hN, negIdx_mod N E _ hN, sigA_sigA N _ (Nat.mod_lt _ hN)]

theorem sigA_modEq (N x : ℕ) (hx : x < N) : ((sigA N x : ℕ) : ℤ) ≡ -(x : ℤ) [ZMOD (N : ℤ)] := by
  rcases Nat.eq_zero_or_pos x with h0 | h0
  · subst h0; rw [sigA_zero]; simp
  · rw [sigA_pos N x h0 hx, Int.modEq_iff_dvd]
    refine ⟨-1, ?_⟩
    push_cast [Nat.cast_sub hx.le]
    ring

theorem dotPhase_comm (E N a b : ℕ) : dotPhase E N a b = dotPhase E N b a := by
  unfold dotPhase
  exact Finset.sum_congr rfl (fun d _ => mul_comm _ _)

theorem dotPhase_negIdx (N : ℕ) (hN : 0 < N) : ∀ (E a J : ℕ),
    dotPhase E N (negIdx N E a) J ≡ -dotPhase E N a J [ZMOD (N : ℤ)]
  | 0, a, J => by simp
  | E + 1, a, J => by
    rw [dotPhase_succ, dotPhase_succ, negIdx_div N E a hN, negIdx_mod N E a hN, neg_add, ← neg_mul]
    exact Int.ModEq.add (dotPhase_negIdx N hN E (a / N) (J / N))
      (Int.ModEq.mul_right _ (sigA_modEq N _ (Nat.mod_lt _ hN)))

/-! ### orthogonality over the leading axes, both signs -/

theorem lead_sub (N : ℕ) (hN : 0 < N) (E a a' : ℕ) (ha : a < N ^ E) (ha' : a' < N ^ E) :
    ∑ x ∈ range (N ^ E), zeta N ^ (dotPhase E N a x + (-1) * dotPhase E N a' x)
      = if a = a' then ((N ^ E : ℕ) : ℂ) else 0 := by
  rw [← dotPhase_orth N hN E a a' ha ha']
  apply Finset.sum_congr rfl
  intro x _
  rw [dotPhase_comm E N a x, dotPhase_comm E N a' x]
  congr 1
  ring

theorem lead_add (N : ℕ) (hN : 0 < N) (E a a' : ℕ) (ha : a < N ^ E) (ha' : a' < N ^ E) :
    ∑ x ∈ range (N ^ E), zeta N ^ (dotPhase E N a x + 1 * dotPhase E N a' x)
      = if a' = negIdx N E a then ((N ^ E : ℕ) : ℂ) else 0 := by
  rw [← dotPhase_orth N hN E a' (negIdx N E a) ha' (negIdx_lt N hN E a)]
  apply Finset.sum_congr rfl
  intro x _
  apply zeta_zpow_eq_of_modEq
  have h1 := dotPhase_negIdx N hN E a x
  rw [dotPhase_comm E N x a', dotPhase_comm E N x (negIdx N E a)]
  have h2 : dotPhase E N a' x - dotPhase E N (negIdx N E a) x
      ≡ dotPhase E N a' x - -dotPhase E N a x [ZMOD (N : ℤ)] := Int.ModEq.sub_left _ h1
  refine Int.ModEq.trans ?_ h2.symm
  rw [show dotPhase E N a x + 1 * dotPhase E N a' x = dotPhase E N a' x - -dotPhase E N a x by ring]

/-- the `(E+1)`-dimensional phase in `(a, l; J)` coordinates: `a·(J / N) + l·(J % N)` -/
noncomputable def phiE (E N a l J : ℕ) : ℤ := dotPhase E N a (J / N) + (l : ℤ) * ((J % N : ℕ) : ℤ)

theorem sum_zeta_phiE (E N : ℕ) (hN : 0 < N) (a l a' l' : ℕ) (sg : ℤ) :
    ∑ J ∈ range (N ^ (E + 1)), zeta N ^ (phiE E N a l J + sg * phiE E N a' l' J)
      = (∑ x ∈ range (N ^ E), zeta N ^ (dotPhase E N a x + sg * dotPhase E N a' x))
        * (if (N : ℤ) ∣ (l : ℤ) + sg * (l' : ℤ) then (N : ℂ) else 0) := by
  have key := sum_range_mul_div_mod (N ^ E) N (fun x y : ℕ =>
    zeta N ^ (dotPhase E N a x + sg * dotPhase E N a' x)
      * zeta N ^ (((l : ℤ) + sg * (l' : ℤ)) * (y : ℤ)))
  rw [← zeta_sum_zpow N hN, Finset.sum_mul_sum, ← key, pow_succ]
  apply Finset.sum_congr rfl
  intro J _
  rw [← zpow_add₀ (zeta_ne_zero N)]
  congr 1
  unfold phiE
  ring

/-! ### the stored index of the conjugate wavenumber -/

/-- stored (flat, half-layout) index of the mode with all LEADING wavenumbers negated (mod `N`) and
    the same last-axis wavenumber.  On the self-conjugate columns (`herm_weight = 1`) this is the
    stored index of the conjugate wavenumber `−k` (`twiddle_conjIdx`).  For `D = 1` it is `h`. -/
def conjIdx (D N h : ℕ) : ℕ := negIdx N (D - 1) (h / (N / 2 + 1)) * (N / 2 + 1) + h % (N / 2 + 1)

theorem conjIdx_div (D N h : ℕ) : conjIdx D N h / (N / 2 + 1) = negIdx N (D - 1) (h / (N / 2 + 1)) := by
  unfold conjIdx
  rw [show negIdx N (D - 1) (h / (N / 2 + 1)) * (N / 2 + 1) + h % (N / 2 + 1)
      = h % (N / 2 + 1) + (N / 2 + 1) * negIdx N (D - 1) (h / (N / 2 + 1)) by ring,
    Nat.add_mul_div_left _ _ (by omega), Nat.div_eq_of_lt (Nat.mod_lt _ (by omega)), zero_add]

theorem conjIdx_mod (D N h : ℕ) : conjIdx D N h % (N / 2 + 1) = h % (N / 2 + 1) := by
  unfold conjIdx
  rw [show negIdx N (D - 1) (h / (N / 2 + 1)) * (N / 2 + 1) + h % (N / 2 + 1)
      = h % (N / 2 + 1) + (N / 2 + 1) * negIdx N (D - 1) (h / (N / 2 + 1)) by ring,
    Nat.add_mul_mod_self_left, Nat.mod_mod]

theorem conjIdx_lt' (E N h : ℕ) (hN : 0 < N) : conjIdx (E + 1) N h < N ^ E * (N / 2 + 1) := by
  unfold conjIdx
  rw [Nat.add_sub_cancel]
  have h1 := negIdx_lt N hN E (h / (N / 2 + 1))
  have h2 : h % (N / 2 + 1) < N / 2 + 1 := Nat.mod_lt _ (by omega)
  calc negIdx N E (h / (N / 2 + 1)) * (N / 2 + 1) + h % (N / 2 + 1)
      < negIdx N E (h / (N / 2 + 1)) * (N / 2 + 1) + (N / 2 + 1) := by omega
    _ = (negIdx N E (h / (N / 2 + 1)) + 1) * (N / 2 + 1) := by ring
    _ ≤ N ^ E * (N / 2 + 1) := Nat.mul_le_mul_right _ h1

/-- `conjIdx` is a stored index -/
theorem conjIdx_lt (D N h : ℕ) (hD : 0 < D) (hN : 0 < N) : conjIdx D N h < numModes D N := by
  obtain ⟨E, rfl⟩ : ∃ E, D = E + 1 := ⟨D - 1, by omega⟩
  rw [numModes_succ]
  exact conjIdx_lt' E N h hN

/-- `conjIdx` is an involution of the stored indices -/
theorem conjIdx_conjIdx (D N h : ℕ) (hD : 0 < D) (hN : 0 < N) (hh : h < numModes D N) :
    conjIdx D N (conjIdx D N h) = h := by
  obtain ⟨E, rfl⟩ : ∃ E, D = E + 1 := ⟨D - 1, by omega⟩
  rw [numModes_succ] at hh
  have ha : h / (N / 2 + 1) < N ^ E := Nat.div_lt_of_lt_mul (by rw [mul_comm]; exact hh)
  apply eq_of_div_mod (N / 2 + 1)
  · rw [conjIdx_div, conjIdx_div, Nat.add_sub_cancel, negIdx_negIdx N hN E _ ha]
  · rw [conjIdx_mod, conjIdx_mod]

/-- `conjIdx` stays in the same last-axis column, so it keeps the c2r weight -/
theorem herm_weight_conjIdx (D N h : ℕ) (hD : 0 < D) (hN : 0 < N) (hh : h < numModes D N) :
    herm_weight D N (conjIdx D N h) = herm_weight D N h := by
  obtain ⟨E, rfl⟩ : ∃ E, D = E + 1 := ⟨D - 1, by omega⟩
  rw [herm_weight_succ E N h hh, herm_weight_succ E N _ (conjIdx_lt (E + 1) N h hD hN), conjIdx_mod]

/-- in one dimension every stored mode is its own conjugate partner -/
theorem conjIdx_one (N h : ℕ) (hh : h < numModes 1 N) : conjIdx 1 N h = h := by
  rw [numModes_one] at hh
  unfold conjIdx
  simp [negIdx, Nat.mod_eq_of_lt hh]

theorem herm_weight_eq (D N h : ℕ) : herm_weight D N h = 1 ∨ herm_weight D N h = 2 := by
  unfold herm_weight
  simp only
  split_ifs
  · exact Or.inl rfl
  · exact Or.inr rfl

theorem herm_weight_one_iff (N l : ℕ) :
    herm_weight 1 N l = 1 ↔ (l = 0 ∨ (N % 2 = 0 ∧ l = N / 2)) := by
  rw [herm_weight_one]
  split_ifs with h
  · exact ⟨fun _ => h, fun _ => rfl⟩
  · exact ⟨fun h2 => absurd h2 (by norm_num), fun h2 => absurd h2 h⟩

/-- **link**: on the self-conjugate columns the `rfftn` basis function of `conjIdx D N h` is the
    complex conjugate of that of `h`, i.e. `conjIdx D N h` stores the wavenumber `−k(h)`. -/
theorem twiddle_conjIdx (D N h j : ℕ) (hD : 0 < D) (hN : 0 < N) (hh : h < numModes D N)
    (hw : herm_weight D N h = 1) :
    (twiddle N (phaseK D N (wnFlat D N (conjIdx D N h)) j) : ℂ)
      = (starRingEnd ℂ) (twiddle N (phaseK D N (wnFlat D N h) j)) := by
  obtain ⟨E, rfl⟩ : ∃ E, D = E + 1 := ⟨D - 1, by omega⟩
  rw [herm_weight_succ E N h hh, herm_weight_one_iff] at hw
  rw [twiddle_phaseK_wnFlat E N _ j (conjIdx_lt (E + 1) N h hD hN), twiddle_phaseK_wnFlat E N h j hh,
    conj_zeta_zpow, conjIdx_div, conjIdx_mod, Nat.add_sub_cancel]
  apply zeta_zpow_eq_of_modEq
  rw [neg_add]
  apply Int.ModEq.add (dotPhase_negIdx N hN E _ _)
  rw [Int.modEq_iff_dvd]
  rcases hw with h0 | ⟨hev, hny⟩
  · rw [h0]; simp
  · refine ⟨-((j % N : ℕ) : ℤ), ?_⟩
    have : (((h % (N / 2 + 1) : ℕ) : ℤ)) + ((h % (N / 2 + 1) : ℕ) : ℤ) = (N : ℤ) := by omega
    linear_combination (-((j % N : ℕ) : ℤ)) * this

/-! ### `rfftn ∘ irfftn` in `D = E + 1` dimensions -/

/-- **`rfftn ∘ irfftn`, `D = E+1` dimensions, any stored half spectrum `C`.** -/
theorem rfftn_irfftn_succ (E N : ℕ) (hN : 0 < N) (C : Array ℂ) (h : ℕ) (hh : h < N ^ E * (N / 2 + 1)) :
    (rfftnM (E + 1) N (irfftnM (E + 1) N C)).getD h 0
      = ((herm_weight 1 N (h % (N / 2 + 1)) : ℂ) / 2) * C.getD h 0
        + ((2 - (herm_weight 1 N (h % (N / 2 + 1)) : ℂ)) / 2)
            * (starRingEnd ℂ) (C.getD (conjIdx (E + 1) N h) 0) := by
  have hM : h < numModes (E + 1) N := by rw [numModes_succ]; exact hh
  have ha : h / (N / 2 + 1) < N ^ E := Nat.div_lt_of_lt_mul (by rw [mul_comm]; exact hh)
  have hl : h % (N / 2 + 1) < N / 2 + 1 := Nat.mod_lt _ (by omega)
  have hNne : (N : ℂ) ≠ 0 := by exact_mod_cast hN.ne'
  have hGne : ((N ^ E : ℕ) : ℂ) ≠ 0 := by exact_mod_cast (pow_pos hN E).ne'
  have hdiv : ∀ h' ∈ range (N ^ E * (N / 2 + 1)), h' / (N / 2 + 1) < N ^ E := by
    intro h' hh'
    exact Nat.div_lt_of_lt_mul (by rw [mul_comm]; exact Finset.mem_range.mp hh')
  rw [rfftn_getD E N hN _ h hM, dftn]
  have hterm : ∀ J ∈ range (N ^ (E + 1)),
      (irfftnM (E + 1) N C).getD J 0 * zeta N ^ (dotPhase E N (h / (N / 2 + 1)) (J / N)
          + ((h % (N / 2 + 1) : ℕ) : ℤ) * ((J % N : ℕ) : ℤ))
        = ∑ h' ∈ range (N ^ E * (N / 2 + 1)),
            ((herm_weight 1 N (h' % (N / 2 + 1)) : ℂ) / 2) / ((N ^ (E + 1) : ℕ) : ℂ) *
            (C.getD h' 0 * zeta N ^ (phiE E N (h / (N / 2 + 1)) (h % (N / 2 + 1)) J
                + (-1) * phiE E N (h' / (N / 2 + 1)) (h' % (N / 2 + 1)) J)
              + (starRingEnd ℂ) (C.getD h' 0) * zeta N ^ (phiE E N (h / (N / 2 + 1)) (h % (N / 2 + 1)) J
                + 1 * phiE E N (h' / (N / 2 + 1)) (h' % (N / 2 + 1)) J)) := by
    intro J hJ
    rw [irfftn_getD E N hN C J (Finset.mem_range.mp hJ), div_mul_eq_mul_div, Finset.sum_mul,
      Finset.sum_div]
    apply Finset.sum_congr rfl
    intro h' _
    exact re_term N _ _ _ _ _
  rw [Finset.sum_congr rfl hterm, Finset.sum_comm]
  have hper : ∀ h' ∈ range (N ^ E * (N / 2 + 1)),
      ∑ J ∈ range (N ^ (E + 1)),
          ((herm_weight 1 N (h' % (N / 2 + 1)) : ℂ) / 2) / ((N ^ (E + 1) : ℕ) : ℂ) *
            (C.getD h' 0 * zeta N ^ (phiE E N (h / (N / 2 + 1)) (h % (N / 2 + 1)) J
                + (-1) * phiE E N (h' / (N / 2 + 1)) (h' % (N / 2 + 1)) J)
              + (starRingEnd ℂ) (C.getD h' 0) * zeta N ^ (phiE E N (h / (N / 2 + 1)) (h % (N / 2 + 1)) J
                + 1 * phiE E N (h' / (N / 2 + 1)) (h' % (N / 2 + 1)) J))
        = ((herm_weight 1 N (h' % (N / 2 + 1)) : ℂ) / 2) / ((N ^ (E + 1) : ℕ) : ℂ) *
            (C.getD h' 0 *
              ((if h / (N / 2 + 1) = h' / (N / 2 + 1) then ((N ^ E : ℕ) : ℂ) else 0)
                * (if (N : ℤ) ∣ ((h % (N / 2 + 1) : ℕ) : ℤ) + (-1) * ((h' % (N / 2 + 1) : ℕ) : ℤ)
                  then (N : ℂ) else 0)))
          + ((herm_weight 1 N (h' % (N / 2 + 1)) : ℂ) / 2) / ((N ^ (E + 1) : ℕ) : ℂ) *
            ((starRingEnd ℂ) (C.getD h' 0) *
              ((if h' / (N / 2 + 1) = negIdx N E (h / (N / 2 + 1)) then ((N ^ E : ℕ) : ℂ) else 0)
                * (if (N : ℤ) ∣ ((h % (N / 2 + 1) : ℕ) : ℤ) + 1 * ((h' % (N / 2 + 1) : ℕ) : ℤ)
                  then (N : ℂ) else 0))) := by
    intro h' hh'
    have ha' := hdiv h' hh'
    rw [← Finset.mul_sum, Finset.sum_add_distrib, ← Finset.mul_sum, ← Finset.mul_sum,
      sum_zeta_phiE E N hN, sum_zeta_phiE E N hN, lead_sub N hN E _ _ ha ha',
      lead_add N hN E _ _ ha ha', mul_add]
  rw [Finset.sum_congr rfl hper, Finset.sum_add_distrib]
  -- the direct term: only `h' = h`
  have h1 : ∑ h' ∈ range (N ^ E * (N / 2 + 1)),
        ((herm_weight 1 N (h' % (N / 2 + 1)) : ℂ) / 2) / ((N ^ (E + 1) : ℕ) : ℂ) *
            (C.getD h' 0 *
              ((if h / (N / 2 + 1) = h' / (N / 2 + 1) then ((N ^ E : ℕ) : ℂ) else 0)
                * (if (N : ℤ) ∣ ((h % (N / 2 + 1) : ℕ) : ℤ) + (-1) * ((h' % (N / 2 + 1) : ℕ) : ℤ)
                  then (N : ℂ) else 0)))
      = ((herm_weight 1 N (h % (N / 2 + 1)) : ℂ) / 2) * C.getD h 0 := by
    rw [Finset.sum_eq_single_of_mem h (Finset.mem_range.mpr hh)]
    · rw [if_pos rfl, if_pos ((dvd_sub_iff_eq N _ _ (by omega) (by omega)).mpr rfl)]
      push_cast
      field_simp
      ring
    · intro h' hh' hne
      have hl' : h' % (N / 2 + 1) < N / 2 + 1 := Nat.mod_lt _ (by omega)
      rw [ite_mul_ite_zero, mul_zero, mul_zero]
      rintro ⟨ca, cl⟩
      apply hne
      exact eq_of_div_mod (N / 2 + 1) h h' ca.symm
        ((dvd_sub_iff_eq N _ _ (by omega) (by omega)).mp cl).symm
  -- the conjugate term: only `h' = σh`, and only on the self-conjugate columns
  have h2 : ∑ h' ∈ range (N ^ E * (N / 2 + 1)),
        ((herm_weight 1 N (h' % (N / 2 + 1)) : ℂ) / 2) / ((N ^ (E + 1) : ℕ) : ℂ) *
            ((starRingEnd ℂ) (C.getD h' 0) *
              ((if h' / (N / 2 + 1) = negIdx N E (h / (N / 2 + 1)) then ((N ^ E : ℕ) : ℂ) else 0)
                * (if (N : ℤ) ∣ ((h % (N / 2 + 1) : ℕ) : ℤ) + 1 * ((h' % (N / 2 + 1) : ℕ) : ℤ)
                  then (N : ℂ) else 0)))
      = ((2 - (herm_weight 1 N (h % (N / 2 + 1)) : ℂ)) / 2)
            * (starRingEnd ℂ) (C.getD (conjIdx (E + 1) N h) 0) := by
    by_cases sp : h % (N / 2 + 1) = 0 ∨ (N % 2 = 0 ∧ h % (N / 2 + 1) = N / 2)
    · rw [Finset.sum_eq_single_of_mem (conjIdx (E + 1) N h)
        (Finset.mem_range.mpr (conjIdx_lt' E N h hN))]
      · rw [conjIdx_div, conjIdx_mod, Nat.add_sub_cancel, if_pos rfl,
          if_pos ((dvd_last_add_iff N _ _ hN (by omega) (by omega)).mpr ⟨rfl, sp⟩),
          herm_weight_one, if_pos sp]
        push_cast
        field_simp
        ring
      · intro h' hh' hne
        have hl' : h' % (N / 2 + 1) < N / 2 + 1 := Nat.mod_lt _ (by omega)
        rw [ite_mul_ite_zero, mul_zero, mul_zero]
        rintro ⟨ca, cl⟩
        apply hne
        apply eq_of_div_mod (N / 2 + 1)
        · rw [conjIdx_div, Nat.add_sub_cancel]; exact ca
        · rw [conjIdx_mod]; exact ((dvd_last_add_iff N _ _ hN (by omega) (by omega)).mp cl).1
    · rw [herm_weight_one, if_neg sp]
      rw [Finset.sum_eq_zero]
      · push_cast; ring
      · intro h' hh'
        have hl' : h' % (N / 2 + 1) < N / 2 + 1 := Nat.mod_lt _ (by omega)
        rw [ite_mul_ite_zero, mul_zero, mul_zero]
        rintro ⟨_, cl⟩
        exact sp ((dvd_last_add_iff N _ _ hN (by omega) (by omega)).mp cl).2
  rw [h1, h2]

/-- **`rfftn ∘ irfftn`, general `D ≥ 1`, `N ≥ 1`, ANY stored half spectrum `C`.**  With
    `w = herm_weight D N h`: `rfftn(irfftn C)_h = (w/2)·C_h + ((2−w)/2)·conj C_{σh}`, i.e. `C_h` where
    `w = 2` and the Hermitian part `(C_h + conj C_{σh})/2` on the self-conjugate columns (`w = 1`). -/
theorem rfftn_irfftn_nd (D N : ℕ) (hD : 0 < D) (hN : 0 < N) (C : Array ℂ) (h : ℕ)
    (hh : h < numModes D N) :
    (rfftnM D N (irfftnM D N C)).getD h 0
      = ((herm_weight D N h : ℂ) / 2) * C.getD h 0
        + ((2 - (herm_weight D N h : ℂ)) / 2) * (starRingEnd ℂ) (C.getD (conjIdx D N h) 0) := by
  obtain ⟨E, rfl⟩ : ∃ E, D = E + 1 := ⟨D - 1, by omega⟩
  rw [herm_weight_succ E N h hh]
  exact rfftn_irfftn_succ E N hN C h (by rw [numModes_succ] at hh; exact hh)

theorem rfftn_irfftn_nd_w2 (D N : ℕ) (hD : 0 < D) (hN : 0 < N) (C : Array ℂ) (h : ℕ)
    (hh : h < numModes D N) (hw : herm_weight D N h = 2) :
    (rfftnM D N (irfftnM D N C)).getD h 0 = C.getD h 0 := by
  rw [rfftn_irfftn_nd D N hD hN C h hh, hw]
  push_cast
  ring

theorem rfftn_irfftn_nd_w1 (D N : ℕ) (hD : 0 < D) (hN : 0 < N) (C : Array ℂ) (h : ℕ)
    (hh : h < numModes D N) (hw : herm_weight D N h = 1) :
    (rfftnM D N (irfftnM D N C)).getD h 0
      = (C.getD h 0 + (starRingEnd ℂ) (C.getD (conjIdx D N h) 0)) / 2 := by
  rw [rfftn_irfftn_nd D N hD hN C h hh, hw]
  push_cast
  ring

/-- **fixed points of `rfftn ∘ irfftn` = Hermitian-consistent stored spectra**: `C_h = conj C_{σh}` on
    the self-conjugate columns (no condition elsewhere). -/
theorem c2r_fixed_iff_herm (D N : ℕ) (hD : 0 < D) (hN : 0 < N) (C : Array ℂ) :
    (∀ h < numModes D N, (rfftnM D N (irfftnM D N C)).getD h 0 = C.getD h 0)
      ↔ ∀ h < numModes D N, herm_weight D N h = 1 →
          C.getD h 0 = (starRingEnd ℂ) (C.getD (conjIdx D N h) 0) := by
  constructor
  · intro H h hh hw
    have := H h hh
    rw [rfftn_irfftn_nd_w1 D N hD hN C h hh hw] at this
    linear_combination (-2 : ℂ) * this
  · intro H h hh
    rcases herm_weight_eq D N h with hw | hw
    · rw [rfftn_irfftn_nd_w1 D N hD hN C h hh hw, ← H h hh hw]
      ring
    · exact rfftn_irfftn_nd_w2 D N hD hN C h hh hw

/-- the spectrum of a REAL field is Hermitian on the self-conjugate columns -/
theorem rfftn_conjIdx_of_real (D N : ℕ) (hD : 0 < D) (hN : 0 < N) (u : Array ℂ)
    (hu : ∀ j < N ^ D, (u.getD j 0).im = 0) (h : ℕ) (hh : h < numModes D N)
    (hw : herm_weight D N h = 1) :
    (rfftnM D N u).getD (conjIdx D N h) 0 = (starRingEnd ℂ) ((rfftnM D N u).getD h 0) := by
  have hfix := (fixed_iff_spectrum_of_real D N hD hN (rfftnM D N u)).mpr ⟨u, hu, fun _ _ => rfl⟩
  have := (c2r_fixed_iff_herm D N hD hN (rfftnM D N u)).mp hfix h hh hw
  rw [this, Complex.conj_conj]

/-! ### non-vacuity -/

/-- a self-conjugate-column mode (`w = 1`) and one off those columns (`w = 2`), `D = 2`, `N = 4` -/
example : (0 : ℕ) < numModes 2 4 ∧ herm_weight 2 4 0 = 1 ∧ (1 : ℕ) < numModes 2 4 ∧
    herm_weight 2 4 1 = 2 := by decide

/-- `conjIdx` is non-trivial for `D = 2`: mode `(1, 0)` on the `4 × 4` grid is paired with `(3, 0)` -/
example : conjIdx 2 4 3 = 9 ∧ conjIdx 2 4 9 = 3 := by decide

end Exponax.C2R
