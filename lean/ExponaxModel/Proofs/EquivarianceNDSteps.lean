import ExponaxModel.Proofs.EquivarianceNDTerms2
/-
C08 in general dimension — Q3: ETDRK steps, `n` steps and whole rollouts of every order 0–4 with
ANY of the model's nonlinear terms commute with the n-D roll of a MULTI-CHANNEL state.

State space: `ℕ → ℕ → ℂ` (channel → flat stored mode → value), a commutative ring under the
pointwise operations; the coefficient arrays `E, Eh, c₁ … c₆ : ℕ → ℕ → ℂ` are ARBITRARY.

* `TermEquivariant c s T` : the Q2 statement for a model term `T : MC ℂ → MC ℂ`; proved for every
  model term (`*_termEquivariant`).
* `liftTermND c C T` : the model term read as a map on `ℕ → ℕ → ℂ` (`C` input channels, stored
  modes; zero beyond) — it IS `T` applied to the tabulated state (`liftTermND_apply`).
* `E?step_translation_nd`, `…_iterate_…`, `…_repeatN_…`, `…_rollout_…` : spectral statements.
* `E?_physical_translation_nd` : `irfftn(step^n(rfftn(rollND u))) = rollND(irfftn(step^n(rfftn u)))`
  channelwise, every `D`, any term; `E4_convection_physical_translation_2d` the `D = 2`
  multi-channel convection capstone.
-/
set_option linter.unusedVariables false
namespace Exponax.EquivND
open Exponax Exponax.Layout Exponax.Transform Exponax.Nonlin Exponax.Alias Exponax.Symmetry
open Exponax.SymmetryND Exponax.Gen.Etdrk Finset

/-! ## terms as maps on `ℕ → ℕ → ℂ` -/

/-- the Q2 statement for a term -/
def TermEquivariant (c : Cfg ℂ) (s : List ℤ) (T : MC ℂ → MC ℂ) : Prop :=
  ∀ uh uh' : MC ℂ, MCShift c s uh uh' → MCShift c s (T uh) (T uh')

/-- the phase array of the shift `s`, the same for every channel -/
noncomputable def phaseMC (D N : ℕ) (s : List ℤ) : ℕ → ℕ → ℂ := fun _ h => shiftPhaseND D N s h

/-- a model term with `C` input channels read as a map on channel/mode-indexed functions
    (stored modes `h < modes c`; zero beyond) -/
noncomputable def liftTermND (c : Cfg ℂ) (C : ℕ) (T : MC ℂ → MC ℂ) (v : ℕ → ℕ → ℂ) : ℕ → ℕ → ℂ :=
  fun ch h => if h < modes c then at2 (T (tab2 C (modes c) v)) ch h else 0

theorem liftTermND_apply (c : Cfg ℂ) (C : ℕ) (T : MC ℂ → MC ℂ) (v : ℕ → ℕ → ℂ) (ch h : ℕ)
    (hh : h < modes c) : liftTermND c C T v ch h = at2 (T (tab2 C (modes c) v)) ch h := by
  rw [liftTermND, if_pos hh]

theorem phaseMC_mul_apply (D N : ℕ) (s : List ℤ) (v : ℕ → ℕ → ℂ) (ch h : ℕ) :
    (phaseMC D N s * v) ch h = shiftPhaseND D N s h * v ch h := rfl

/-- the tabulated phase-shifted state is the phase-shifted tabulated state -/
theorem mcShift_tab2_phaseMC (c : Cfg ℂ) (s : List ℤ) (C : ℕ) (v : ℕ → ℕ → ℂ) :
    MCShift c s (tab2 C (modes c) v) (tab2 C (modes c) (phaseMC c.D c.N s * v)) :=
  mcShift_tab2 c s C _ _ (fun ch _ m _ => rfl)

/-- an equivariant term (Q2) satisfies the hypothesis of the `E?step_phase` lemmas -/
theorem liftTermND_phase (c : Cfg ℂ) (s : List ℤ) (C : ℕ) (T : MC ℂ → MC ℂ)
    (hT : TermEquivariant c s T) (v : ℕ → ℕ → ℂ) :
    liftTermND c C T (phaseMC c.D c.N s * v) = phaseMC c.D c.N s * liftTermND c C T v := by
  funext ch h
  rw [phaseMC_mul_apply]
  unfold liftTermND
  split_ifs with hh
  · exact hT _ _ (mcShift_tab2_phaseMC c s C v) ch h hh
  · rw [mul_zero]

/-! ### every model term is equivariant -/

theorem convection_termEquivariant (c : Cfg ℂ) (hN : 0 < c.N) (C : ℕ) (scale : ℂ)
    (single conservative : Bool) (s : List ℤ) :
    TermEquivariant c s (convection c C scale single conservative) :=
  fun uh uh' h => convection_mcShift c hN C scale single conservative s uh uh' h

theorem polynomial_termEquivariant (c : Cfg ℂ) (hN : 0 < c.N) (C : ℕ) (coeffs : List ℂ) (s : List ℤ) :
    TermEquivariant c s (polynomial c C coeffs) :=
  fun uh uh' h => polynomial_mcShift c hN C coeffs s uh uh' h

theorem reaction_termEquivariant (c : Cfg ℂ) (hN : 0 < c.N) (C : ℕ) (react : List ℂ → List ℂ)
    (s : List ℤ) : TermEquivariant c s (reaction c C react) :=
  fun uh uh' h => reaction_mcShift c hN C react s uh uh' h

theorem cahnHilliard_termEquivariant (c : Cfg ℂ) (hN : 0 < c.N) (scale : ℂ) (s : List ℤ) :
    TermEquivariant c s (cahnHilliard c scale) :=
  fun uh uh' h => cahnHilliard_mcShift c hN scale s uh uh' h

theorem gradientNorm_termEquivariant (c : Cfg ℂ) (hN : 0 < c.N) (C : ℕ) (scale : ℂ) (zeroFix : Bool)
    (s : List ℤ) : TermEquivariant c s (gradientNorm c C scale zeroFix) :=
  fun uh uh' h => gradientNorm_mcShift c hN C scale zeroFix s uh uh' h

theorem general_termEquivariant (c : Cfg ℂ) (hN : 0 < c.N) (C : ℕ) (s0 s1 s2 : ℂ) (zeroFix : Bool)
    (s : List ℤ) : TermEquivariant c s (general c C s0 s1 s2 zeroFix) :=
  fun uh uh' h => general_mcShift c hN C s0 s1 s2 zeroFix s uh uh' h

theorem vorticity2d_termEquivariant (c : Cfg ℂ) (hN : 0 < c.N) (scale : ℂ) (s : List ℤ) :
    TermEquivariant c s (vorticity2d c scale none) :=
  fun uh uh' h => vorticity2d_mcShift c hN scale s uh uh' h

theorem vorticity2d_inj_termEquivariant (c : Cfg ℂ) (hD : c.D = 2) (hN : 0 < c.N) (scale : ℂ) (m : ℕ)
    (gam : ℂ) (s : List ℤ) (hs : (c.N : ℤ) ∣ (m : ℤ) * s.getD 1 0) :
    TermEquivariant c s (vorticity2d c scale (some (m, gam))) :=
  fun uh uh' h => vorticity2d_inj_mcShift c hD hN scale m gam s hs uh uh' h

theorem projected3d_termEquivariant (c : Cfg ℂ) (hN : 0 < c.N) (s : List ℤ) :
    TermEquivariant c s (projected3d c none) :=
  fun uh uh' h => projected3d_mcShift c hN s uh uh' h

theorem projected3d_inj_termEquivariant (c : Cfg ℂ) (hD : c.D = 3) (hN : 0 < c.N) (m : ℕ) (gam : ℂ)
    (s : List ℤ) (hs : (c.N : ℤ) ∣ (m : ℤ) * s.getD 1 0) :
    TermEquivariant c s (projected3d c (some (m, gam))) :=
  fun uh uh' h => projected3d_inj_mcShift c hD hN m gam s hs uh uh' h

/-- sums of equivariant terms composed with per-mode multipliers stay equivariant: the Leray
    projection of an equivariant term -/
theorem leray_comp_termEquivariant (c : Cfg ℂ) (s : List ℤ) (T : MC ℂ → MC ℂ)
    (hT : TermEquivariant c s T) : TermEquivariant c s (fun uh => leray c (T uh)) :=
  fun uh uh' h => leray_mcShift c s _ _ (hT uh uh' h)

/-! ## Q3 — one step of every order

`c`, `C`, `T` with `hT : TermEquivariant c s T` fixed; ARBITRARY coefficient arrays. -/

section Steps
variable (c : Cfg ℂ) (s : List ℤ) (C : ℕ) (T : MC ℂ → MC ℂ) (hT : TermEquivariant c s T)
include hT

omit hT in
/-- **Q3, order 0** (linear stepper; no term needed) -/
theorem E0step_translation_nd (E u : ℕ → ℕ → ℂ) :
    E0step E (phaseMC c.D c.N s * u) = phaseMC c.D c.N s * E0step E u :=
  E0step_phase _ E u

/-- **Q3, ETDRK1 step.** -/
theorem E1step_translation_nd (E c1 u : ℕ → ℕ → ℂ) :
    E1step E c1 (liftTermND c C T) (phaseMC c.D c.N s * u)
      = phaseMC c.D c.N s * E1step E c1 (liftTermND c C T) u :=
  E1step_phase _ _ (liftTermND_phase c s C T hT) E c1 u

/-- **Q3, ETDRK2 step.** -/
theorem E2step_translation_nd (E c1 c2 u : ℕ → ℕ → ℂ) :
    E2step E c1 c2 (liftTermND c C T) (phaseMC c.D c.N s * u)
      = phaseMC c.D c.N s * E2step E c1 c2 (liftTermND c C T) u :=
  E2step_phase _ _ (liftTermND_phase c s C T hT) E c1 c2 u

/-- **Q3, ETDRK3 step.** -/
theorem E3step_translation_nd (E Eh c1 c2 c3 c4 c5 u : ℕ → ℕ → ℂ) :
    E3step E Eh c1 c2 c3 c4 c5 (liftTermND c C T) (phaseMC c.D c.N s * u)
      = phaseMC c.D c.N s * E3step E Eh c1 c2 c3 c4 c5 (liftTermND c C T) u :=
  E3step_phase _ _ (liftTermND_phase c s C T hT) E Eh c1 c2 c3 c4 c5 u

/-- **Q3, ETDRK4 step.** -/
theorem E4step_translation_nd (E Eh c1 c2 c3 c4 c5 c6 u : ℕ → ℕ → ℂ) :
    E4step E Eh c1 c2 c3 c4 c5 c6 (liftTermND c C T) (phaseMC c.D c.N s * u)
      = phaseMC c.D c.N s * E4step E Eh c1 c2 c3 c4 c5 c6 (liftTermND c C T) u :=
  E4step_phase _ _ (liftTermND_phase c s C T hT) E Eh c1 c2 c3 c4 c5 c6 u

end Steps

/-! ## Q3 — `n` steps, `repeat`, `rollout` (any step map commuting with the phases) -/

section Iterate
variable (D N : ℕ) (s : List ℤ) (step : (ℕ → ℕ → ℂ) → (ℕ → ℕ → ℂ))
  (hstep : ∀ u, step (phaseMC D N s * u) = phaseMC D N s * step u)
include hstep

theorem iterate_translation_nd (n : ℕ) (u : ℕ → ℕ → ℂ) :
    step^[n] (phaseMC D N s * u) = phaseMC D N s * step^[n] u :=
  iterate_equivariant (fun x => phaseMC D N s * x) step hstep n u

theorem repeatN_translation_nd (n : ℕ) (u : ℕ → ℕ → ℂ) :
    Loops.repeatN step n (phaseMC D N s * u) = phaseMC D N s * Loops.repeatN step n u :=
  repeatN_equivariant (fun x => phaseMC D N s * x) step hstep n u

theorem rollout_translation_nd (n : ℕ) (incl : Bool) (u : ℕ → ℕ → ℂ) :
    Loops.rollout step n incl (phaseMC D N s * u)
      = (Loops.rollout step n incl u).map (fun x => phaseMC D N s * x) :=
  rollout_equivariant (fun x => phaseMC D N s * x) step hstep n incl u

end Iterate

section StepsN
variable (c : Cfg ℂ) (s : List ℤ) (C : ℕ) (T : MC ℂ → MC ℂ) (hT : TermEquivariant c s T)
include hT

/-- **Q3, `n` ETDRK1 steps.** -/
theorem E1step_iterate_translation_nd (E c1 : ℕ → ℕ → ℂ) (n : ℕ) (u : ℕ → ℕ → ℂ) :
    (E1step E c1 (liftTermND c C T))^[n] (phaseMC c.D c.N s * u)
      = phaseMC c.D c.N s * (E1step E c1 (liftTermND c C T))^[n] u :=
  iterate_translation_nd c.D c.N s _ (E1step_translation_nd c s C T hT E c1) n u

/-- **Q3, `n` ETDRK2 steps.** -/
theorem E2step_iterate_translation_nd (E c1 c2 : ℕ → ℕ → ℂ) (n : ℕ) (u : ℕ → ℕ → ℂ) :
    (E2step E c1 c2 (liftTermND c C T))^[n] (phaseMC c.D c.N s * u)
      = phaseMC c.D c.N s * (E2step E c1 c2 (liftTermND c C T))^[n] u :=
  iterate_translation_nd c.D c.N s _ (E2step_translation_nd c s C T hT E c1 c2) n u

/-- **Q3, `n` ETDRK3 steps.** -/
theorem E3step_iterate_translation_nd (E Eh c1 c2 c3 c4 c5 : ℕ → ℕ → ℂ) (n : ℕ) (u : ℕ → ℕ → ℂ) :
    (E3step E Eh c1 c2 c3 c4 c5 (liftTermND c C T))^[n] (phaseMC c.D c.N s * u)
      = phaseMC c.D c.N s * (E3step E Eh c1 c2 c3 c4 c5 (liftTermND c C T))^[n] u :=
  iterate_translation_nd c.D c.N s _ (E3step_translation_nd c s C T hT E Eh c1 c2 c3 c4 c5) n u

/-- **Q3, `n` ETDRK4 steps.** -/
theorem E4step_iterate_translation_nd (E Eh c1 c2 c3 c4 c5 c6 : ℕ → ℕ → ℂ) (n : ℕ)
    (u : ℕ → ℕ → ℂ) :
    (E4step E Eh c1 c2 c3 c4 c5 c6 (liftTermND c C T))^[n] (phaseMC c.D c.N s * u)
      = phaseMC c.D c.N s * (E4step E Eh c1 c2 c3 c4 c5 c6 (liftTermND c C T))^[n] u :=
  iterate_translation_nd c.D c.N s _ (E4step_translation_nd c s C T hT E Eh c1 c2 c3 c4 c5 c6) n u

/-- **Q3, rollout of ETDRK1**: the whole trajectory is phase-shifted entry by entry. -/
theorem E1step_rollout_translation_nd (E c1 : ℕ → ℕ → ℂ) (n : ℕ) (incl : Bool) (u : ℕ → ℕ → ℂ) :
    Loops.rollout (E1step E c1 (liftTermND c C T)) n incl (phaseMC c.D c.N s * u)
      = (Loops.rollout (E1step E c1 (liftTermND c C T)) n incl u).map
          (fun x => phaseMC c.D c.N s * x) :=
  rollout_translation_nd c.D c.N s _ (E1step_translation_nd c s C T hT E c1) n incl u

/-- **Q3, rollout of ETDRK2.** -/
theorem E2step_rollout_translation_nd (E c1 c2 : ℕ → ℕ → ℂ) (n : ℕ) (incl : Bool)
    (u : ℕ → ℕ → ℂ) :
    Loops.rollout (E2step E c1 c2 (liftTermND c C T)) n incl (phaseMC c.D c.N s * u)
      = (Loops.rollout (E2step E c1 c2 (liftTermND c C T)) n incl u).map
          (fun x => phaseMC c.D c.N s * x) :=
  rollout_translation_nd c.D c.N s _ (E2step_translation_nd c s C T hT E c1 c2) n incl u

/-- **Q3, rollout of ETDRK3.** -/
theorem E3step_rollout_translation_nd (E Eh c1 c2 c3 c4 c5 : ℕ → ℕ → ℂ) (n : ℕ) (incl : Bool)
    (u : ℕ → ℕ → ℂ) :
    Loops.rollout (E3step E Eh c1 c2 c3 c4 c5 (liftTermND c C T)) n incl (phaseMC c.D c.N s * u)
      = (Loops.rollout (E3step E Eh c1 c2 c3 c4 c5 (liftTermND c C T)) n incl u).map
          (fun x => phaseMC c.D c.N s * x) :=
  rollout_translation_nd c.D c.N s _ (E3step_translation_nd c s C T hT E Eh c1 c2 c3 c4 c5) n incl u

/-- **Q3, rollout of ETDRK4.** -/
theorem E4step_rollout_translation_nd (E Eh c1 c2 c3 c4 c5 c6 : ℕ → ℕ → ℂ) (n : ℕ) (incl : Bool)
    (u : ℕ → ℕ → ℂ) :
    Loops.rollout (E4step E Eh c1 c2 c3 c4 c5 c6 (liftTermND c C T)) n incl (phaseMC c.D c.N s * u)
      = (Loops.rollout (E4step E Eh c1 c2 c3 c4 c5 c6 (liftTermND c C T)) n incl u).map
          (fun x => phaseMC c.D c.N s * x) :=
  rollout_translation_nd c.D c.N s _ (E4step_translation_nd c s C T hT E Eh c1 c2 c3 c4 c5 c6) n incl u

/-- **Q3, `repeat` of ETDRK4** (`RepeatedStepper`). -/
theorem E4step_repeatN_translation_nd (E Eh c1 c2 c3 c4 c5 c6 : ℕ → ℕ → ℂ) (n : ℕ)
    (u : ℕ → ℕ → ℂ) :
    Loops.repeatN (E4step E Eh c1 c2 c3 c4 c5 c6 (liftTermND c C T)) n (phaseMC c.D c.N s * u)
      = phaseMC c.D c.N s * Loops.repeatN (E4step E Eh c1 c2 c3 c4 c5 c6 (liftTermND c C T)) n u :=
  repeatN_translation_nd c.D c.N s _ (E4step_translation_nd c s C T hT E Eh c1 c2 c3 c4 c5 c6) n u

end StepsN

/-! ## Q3 — physical space -/

/-- stored spectra of all channels of a physical multi-channel field -/
noncomputable def specMC (D N : ℕ) (u : MC ℂ) : ℕ → ℕ → ℂ :=
  fun ch h => (rfftnM D N (u.getD ch #[])).getD h 0

/-- channel `ch` of a spectral state back in physical space -/
noncomputable def physCh (D N : ℕ) (v : ℕ → ℕ → ℂ) (ch : ℕ) : Array ℂ :=
  irfftnM D N (tab (numModes D N) (v ch))

theorem getD_map (f : Array ℂ → Array ℂ) (u : MC ℂ) (ch : ℕ) :
    (u.map f).getD ch #[] = if ch < u.size then f (u.getD ch #[]) else #[] := by
  split_ifs with h
  · simp [Array.getD, h]
  · simp [Array.getD, h]

/-- `shiftMC` channel by channel: it is `shiftSpecND` on every existing channel -/
theorem shiftMC_getD (D N : ℕ) (s : List ℤ) (uh : MC ℂ) (ch : ℕ) (hc : ch < uh.size) :
    (shiftMC D N s uh).getD ch #[] = shiftSpecND D N s (uh.getD ch #[]) := by
  rw [shiftMC, getD_map, if_pos hc]

/-- `rollMC` channel by channel: it is `rollND` on every existing channel -/
theorem rollMC_getD (D N : ℕ) (s : List ℤ) (u : MC ℂ) (ch : ℕ) (hc : ch < u.size) :
    (rollMC D N s u).getD ch #[] = rollND D N (u.getD ch #[]) s := by
  rw [rollMC, getD_map, if_pos hc]

/-- one channel: the 1-D style input `#[phase ⊙ û]` -/
theorem shiftMC_singleton (D N : ℕ) (s : List ℤ) (uh : Array ℂ) :
    shiftMC D N s #[uh] = #[shiftSpecND D N s uh] := by
  simp [shiftMC]

theorem shiftMC_pair (D N : ℕ) (s : List ℤ) (uh vh : Array ℂ) :
    shiftMC D N s #[uh, vh] = #[shiftSpecND D N s uh, shiftSpecND D N s vh] := by
  simp [shiftMC]

/-- **forward shift theorem, all channels**: the spectra of the rolled multi-channel field are the
    phase-shifted spectra (as functions of channel and mode index) -/
theorem specMC_rollMC (D N : ℕ) (hN : 0 < N) (s : List ℤ) (u : MC ℂ) :
    specMC D N (rollMC D N s u) = phaseMC D N s * specMC D N u := by
  funext ch h
  rw [phaseMC_mul_apply]
  unfold specMC rollMC
  rw [getD_map]
  have key : ∀ v : Array ℂ, (rfftnM D N (rollND D N v s)).getD h 0
      = shiftPhaseND D N s h * (rfftnM D N v).getD h 0 := by
    intro v
    have := congrFun (specFun_rollND D N hN v s) h
    simpa [specFun] using this
  by_cases hc : ch < u.size
  · rw [if_pos hc]
    exact key _
  · rw [if_neg hc]
    have e : u.getD ch #[] = #[] := by simp [Array.getD, hc]
    rw [e, ← key #[]]
    congr 1
    apply rfftnM_congr
    intro j hj
    rw [rollND_getD _ _ _ _ j hj]
    simp

/-- **inverse shift theorem, channelwise** -/
theorem physCh_phaseMC (D N : ℕ) (hN : 0 < N) (s : List ℤ) (v : ℕ → ℕ → ℂ) (ch : ℕ) :
    physCh D N (phaseMC D N s * v) ch = rollND D N (physCh D N v ch) s := by
  unfold physCh
  rw [← irfftn_shiftSpecND D N hN]
  congr 1
  unfold shiftSpecND
  apply Nonlin.tab_congr
  intro h hh
  rw [Nonlin.tab_getD _ _ _ _ hh]
  rfl

/-- **Q3, physical space, any step map commuting with the phases**: transform every channel, take
    `n` steps, transform back — rolling the initial multi-channel state rolls every channel of the
    result. -/
theorem physical_translation_nd (D N : ℕ) (hN : 0 < N) (s : List ℤ)
    (step : (ℕ → ℕ → ℂ) → (ℕ → ℕ → ℂ))
    (hstep : ∀ u, step (phaseMC D N s * u) = phaseMC D N s * step u) (n : ℕ) (u : MC ℂ) (ch : ℕ) :
    physCh D N (step^[n] (specMC D N (rollMC D N s u))) ch
      = rollND D N (physCh D N (step^[n] (specMC D N u)) ch) s := by
  rw [specMC_rollMC D N hN, iterate_translation_nd D N s step hstep, physCh_phaseMC D N hN]

section Physical
variable (c : Cfg ℂ) (hN : 0 < c.N) (s : List ℤ) (C : ℕ) (T : MC ℂ → MC ℂ)
  (hT : TermEquivariant c s T)
include hN hT

/-- **Q3, physical space, ETDRK1**, every `D`, any equivariant term, arbitrary coefficients. -/
theorem E1_physical_translation_nd (E c1 : ℕ → ℕ → ℂ) (n : ℕ) (u : MC ℂ) (ch : ℕ) :
    physCh c.D c.N ((E1step E c1 (liftTermND c C T))^[n] (specMC c.D c.N (rollMC c.D c.N s u))) ch
      = rollND c.D c.N (physCh c.D c.N ((E1step E c1 (liftTermND c C T))^[n] (specMC c.D c.N u)) ch) s :=
  physical_translation_nd c.D c.N hN s _ (E1step_translation_nd c s C T hT E c1) n u ch

/-- **Q3, physical space, ETDRK2.** -/
theorem E2_physical_translation_nd (E c1 c2 : ℕ → ℕ → ℂ) (n : ℕ) (u : MC ℂ) (ch : ℕ) :
    physCh c.D c.N ((E2step E c1 c2 (liftTermND c C T))^[n] (specMC c.D c.N (rollMC c.D c.N s u))) ch
      = rollND c.D c.N
          (physCh c.D c.N ((E2step E c1 c2 (liftTermND c C T))^[n] (specMC c.D c.N u)) ch) s :=
  physical_translation_nd c.D c.N hN s _ (E2step_translation_nd c s C T hT E c1 c2) n u ch

/-- **Q3, physical space, ETDRK3.** -/
theorem E3_physical_translation_nd (E Eh c1 c2 c3 c4 c5 : ℕ → ℕ → ℂ) (n : ℕ) (u : MC ℂ) (ch : ℕ) :
    physCh c.D c.N ((E3step E Eh c1 c2 c3 c4 c5 (liftTermND c C T))^[n]
        (specMC c.D c.N (rollMC c.D c.N s u))) ch
      = rollND c.D c.N (physCh c.D c.N ((E3step E Eh c1 c2 c3 c4 c5 (liftTermND c C T))^[n]
        (specMC c.D c.N u)) ch) s :=
  physical_translation_nd c.D c.N hN s _ (E3step_translation_nd c s C T hT E Eh c1 c2 c3 c4 c5) n u ch

/-- **Q3, physical space, ETDRK4.** -/
theorem E4_physical_translation_nd (E Eh c1 c2 c3 c4 c5 c6 : ℕ → ℕ → ℂ) (n : ℕ) (u : MC ℂ)
    (ch : ℕ) :
    physCh c.D c.N ((E4step E Eh c1 c2 c3 c4 c5 c6 (liftTermND c C T))^[n]
        (specMC c.D c.N (rollMC c.D c.N s u))) ch
      = rollND c.D c.N (physCh c.D c.N ((E4step E Eh c1 c2 c3 c4 c5 c6 (liftTermND c C T))^[n]
        (specMC c.D c.N u)) ch) s :=
  physical_translation_nd c.D c.N hN s _ (E4step_translation_nd c s C T hT E Eh c1 c2 c3 c4 c5 c6) n u ch

end Physical

/-- **Capstone (physical space, `D = 2`, ETDRK4, multi-channel convection).**  Written out on the
    model's transforms: for the 2-D two-channel (Navier–Stokes-type / Burgers) convection term,
    conservative or not, ARBITRARY coefficient arrays, `n` steps, any shift `(s₀, s₁)`, any (real
    or complex, any channel count) state `u`, every `N ≥ 1`, any dealiasing fraction:
    `irfftn(step^n(rfftn(rollND u))) = rollND(irfftn(step^n(rfftn u)))` for every channel. -/
theorem E4_convection_physical_translation_2d (c : Cfg ℂ) (hD : c.D = 2) (hN : 0 < c.N) (scale : ℂ)
    (conservative : Bool) (s : List ℤ) (E Eh c1 c2 c3 c4 c5 c6 : ℕ → ℕ → ℂ) (n : ℕ) (u : MC ℂ)
    (ch : ℕ) :
    irfftnM 2 c.N (tab (numModes 2 c.N)
        (((E4step E Eh c1 c2 c3 c4 c5 c6 (liftTermND c 2 (convection c 2 scale false conservative)))^[n]
          (fun ch h => (rfftnM 2 c.N ((u.map fun v => rollND 2 c.N v s).getD ch #[])).getD h 0)) ch))
      = rollND 2 c.N (irfftnM 2 c.N (tab (numModes 2 c.N)
        (((E4step E Eh c1 c2 c3 c4 c5 c6 (liftTermND c 2 (convection c 2 scale false conservative)))^[n]
          (fun ch h => (rfftnM 2 c.N (u.getD ch #[])).getD h 0)) ch))) s := by
  have h := E4_physical_translation_nd c hN s 2 _
    (convection_termEquivariant c hN 2 scale false conservative s) E Eh c1 c2 c3 c4 c5 c6 n u ch
  rw [hD] at h
  exact h

/-- the same written out in every dimension `D`, any channel count `C`, all four convection variants -/
theorem E4_convection_physical_translation_nd (c : Cfg ℂ) (hN : 0 < c.N) (C : ℕ) (scale : ℂ)
    (single conservative : Bool) (s : List ℤ) (E Eh c1 c2 c3 c4 c5 c6 : ℕ → ℕ → ℂ) (n : ℕ)
    (u : MC ℂ) (ch : ℕ) :
    irfftnM c.D c.N (tab (numModes c.D c.N)
        (((E4step E Eh c1 c2 c3 c4 c5 c6
            (liftTermND c C (convection c C scale single conservative)))^[n]
          (fun ch h => (rfftnM c.D c.N ((u.map fun v => rollND c.D c.N v s).getD ch #[])).getD h 0)) ch))
      = rollND c.D c.N (irfftnM c.D c.N (tab (numModes c.D c.N)
        (((E4step E Eh c1 c2 c3 c4 c5 c6
            (liftTermND c C (convection c C scale single conservative)))^[n]
          (fun ch h => (rfftnM c.D c.N (u.getD ch #[])).getD h 0)) ch))) s :=
  E4_physical_translation_nd c hN s C _
    (convection_termEquivariant c hN C scale single conservative s) E Eh c1 c2 c3 c4 c5 c6 n u ch

/-! ## non-vacuity -/

/-- equivariant terms exist for every configuration with `N ≥ 1` (so `hT` is satisfiable) -/
example (c : Cfg ℂ) (hN : 0 < c.N) (s : List ℤ) : ∃ T : MC ℂ → MC ℂ, TermEquivariant c s T :=
  ⟨convection c 2 1 false true, convection_termEquivariant c hN 2 1 false true s⟩

/-- step maps commuting with the phases exist -/
example (D N : ℕ) (s : List ℤ) : ∃ step : (ℕ → ℕ → ℂ) → (ℕ → ℕ → ℂ),
    ∀ u, step (phaseMC D N s * u) = phaseMC D N s * step u := ⟨id, fun _ => rfl⟩

example : ∃ c : Cfg ℂ, c.D = 2 ∧ 0 < c.N := ⟨⟨2, 4, 1, 2, 3⟩, rfl, by norm_num⟩

end Exponax.EquivND
