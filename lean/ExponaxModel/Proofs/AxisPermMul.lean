import ExponaxModel.Proofs.AxisPermBasic
import ExponaxModel.Proofs.AliasNDMask
/-
C08, T2/T3 support — the FULL-SPECTRUM MULTIPLIER CALCULUS.

What a per-mode multiplier `E_h = g(k(h))` on the stored half spectrum followed by the c2r transform does
to the full spectrum: for a conj-symmetric `g` (`g(−k) = conj g(k)`, every symbol of a real-coefficient
operator) and a stored array `a` that is NYQUIST-FREE (or a `g` that vanishes on Nyquist wavenumber
vectors, e.g. anything containing the dealiasing mask of a fraction `≤ 1`),

  `dftV (irfftn (g(k(·)) ⊙ a)) m = g(cent m) · dftV (irfftn a) m`        (`dftV_irfftn_mul`)

at EVERY integer wavenumber vector `m`, `cent m` the centred representative of `m` modulo `N`.
Without one of the two provisos the statement is false (the leading axes store the Nyquist wavenumber as
`−N/2`, the last axis as `+N/2`: `SymmetryND.fullMul_counterexample`).

* `NyqVec N m`    : some component of `m` is `≡ N/2 (mod N)` (impossible for odd `N`);
  `NyqFreeS D N a` : the stored array `a` vanishes at every stored mode with a Nyquist wavenumber.
* `FieldPerm D N σ v v'` : `v' = P_σ v` on the grid; `fieldPerm_iff_dftV` : iff `dftV v' m = dftV v (m ∘ σ)`.
-/
set_option linter.unusedVariables false
namespace Exponax.AxisPerm
open Exponax Exponax.Layout Exponax.Transform Exponax.DFT Exponax.AliasND Exponax.Nonlin Exponax.Alias Finset

/-! ## Nyquist wavenumber vectors -/

/-- some component of `m` is `≡ N/2 (mod N)`: `N ∣ 2 m_d` but `N ∤ m_d` -/
def NyqVec {D : ℕ} (N : ℕ) (m : Fin D → ℤ) : Prop := ∃ d, (N : ℤ) ∣ 2 * m d ∧ ¬ (N : ℤ) ∣ m d

/-- the stored array vanishes at every stored mode whose wavenumber vector has a Nyquist component
    (vacuous for odd `N`) -/
def NyqFreeS (D N : ℕ) (a : Array ℂ) : Prop :=
  ∀ h, h < numModes D N → NyqVec N (kvec D N h) → a.getD h 0 = 0

theorem not_nyqVec_of_odd {D : ℕ} (N : ℕ) (hodd : N % 2 = 1) (m : Fin D → ℤ) : ¬ NyqVec N m := by
  rintro ⟨d, h2, hn⟩
  apply hn
  have hco : IsCoprime (N : ℤ) 2 := by
    rw [Int.isCoprime_iff_gcd_eq_one]
    have : Nat.gcd N 2 = 1 := by
      rw [Nat.gcd_comm, Nat.gcd_rec]
      simp [hodd]
    simpa [Int.gcd] using this
  exact hco.dvd_of_dvd_mul_left h2

theorem nyqFreeS_of_odd (D N : ℕ) (hodd : N % 2 = 1) (a : Array ℂ) : NyqFreeS D N a :=
  fun h _ hny => absurd hny (not_nyqVec_of_odd N hodd _)

theorem NyqVec.congr {D N : ℕ} {m m' : Fin D → ℤ} (hc : VCongr D N m m') (h : NyqVec N m) : NyqVec N m' := by
  obtain ⟨d, h2, hn⟩ := h
  refine ⟨d, ?_, ?_⟩
  · have : 2 * m' d = 2 * m d - 2 * (m d - m' d) := by ring
    rw [this]
    exact Dvd.dvd.sub h2 (Dvd.dvd.mul_left (hc d) 2)
  · intro h'
    apply hn
    have : m d = m' d + (m d - m' d) := by ring
    rw [this]
    exact Dvd.dvd.add h' (hc d)

theorem NyqVec.neg {D N : ℕ} {m : Fin D → ℤ} (h : NyqVec N m) : NyqVec N (-m) := by
  obtain ⟨d, h2, hn⟩ := h
  refine ⟨d, ?_, ?_⟩
  · rw [Pi.neg_apply, mul_neg]; exact (dvd_neg).mpr h2
  · rw [Pi.neg_apply]; intro h'; exact hn ((dvd_neg).mp h')

theorem NyqVec.comp {D N : ℕ} {m : Fin D → ℤ} (σ : Equiv.Perm (Fin D)) (h : NyqVec N m) : NyqVec N (m ∘ σ) := by
  obtain ⟨d, h2, hn⟩ := h
  exact ⟨σ.symm d, by simpa using h2, by simpa using hn⟩

theorem nyqVec_comp_iff {D N : ℕ} (m : Fin D → ℤ) (σ : Equiv.Perm (Fin D)) : NyqVec N (m ∘ σ) ↔ NyqVec N m := by
  constructor
  · intro h
    have := h.comp σ.symm
    have e : (m ∘ σ) ∘ σ.symm = m := by funext d; simp
    rwa [e] at this
  · exact fun h => h.comp σ

/-- a stored mode without Nyquist component has all wavenumbers strictly below Nyquist -/
theorem kvec_lt_of_not_nyq (D N h : ℕ) (hD : 0 < D) (hN : 0 < N) (hh : h < numModes D N)
    (hny : ¬ NyqVec N (kvec D N h)) (d : Fin D) : 2 * |kvec D N h d| < (N : ℤ) := by
  have hb := kvec_abs_le D N h hD hN hh d
  have h2 : 2 * ((N / 2 : ℕ) : ℤ) ≤ N := by exact_mod_cast Nat.mul_div_le N 2
  by_contra hcon
  have heq : 2 * |kvec D N h d| = (N : ℤ) := by omega
  apply hny
  refine ⟨d, ?_, ?_⟩
  · rcases abs_cases (kvec D N h d) with ⟨e, _⟩ | ⟨e, _⟩
    · rw [e] at heq; rw [heq]
    · rw [e] at heq
      have : 2 * kvec D N h d = -(N : ℤ) := by omega
      rw [this]; exact (dvd_neg).mpr (dvd_refl _)
  · intro hdvd
    have h0 : kvec D N h d = 0 := by
      apply Int.eq_zero_of_abs_lt_dvd hdvd
      have : (0 : ℤ) < N := by exact_mod_cast hN
      omega
    rw [h0] at heq
    have : (0 : ℤ) < N := by exact_mod_cast hN
    simp at heq
    omega

/-! ## the centred representative -/

/-- the representative of `x` modulo `N` in `[−N/2, N/2)` -/
def cent (N : ℕ) (x : ℤ) : ℤ := if 2 * (x % (N : ℤ)) < (N : ℤ) then x % (N : ℤ) else x % (N : ℤ) - (N : ℤ)

/-- componentwise centred representative of a wavenumber vector -/
def centV {D : ℕ} (N : ℕ) (m : Fin D → ℤ) : Fin D → ℤ := fun d => cent N (m d)

theorem centV_comp {D : ℕ} (N : ℕ) (m : Fin D → ℤ) (σ : Equiv.Perm (Fin D)) : centV N (m ∘ σ) = centV N m ∘ σ := rfl

theorem cent_dvd (N : ℕ) (x : ℤ) : (N : ℤ) ∣ cent N x - x := by
  unfold cent
  have h := Int.emod_add_mul_ediv x (N : ℤ)
  split_ifs
  · exact ⟨-(x / (N : ℤ)), by linarith⟩
  · exact ⟨-(x / (N : ℤ)) - 1, by linarith⟩

theorem cent_congr (N : ℕ) {x y : ℤ} (h : (N : ℤ) ∣ x - y) : cent N x = cent N y := by
  have : x % (N : ℤ) = y % (N : ℤ) := Int.modEq_iff_dvd.mpr (by
    have := h.neg_right; rwa [neg_sub] at this)
  unfold cent
  rw [this]

theorem cent_of_small (N : ℕ) (y : ℤ) (hy : 2 * |y| < (N : ℤ)) : cent N y = y := by
  have hb := abs_lt.mp (show |y| < (N : ℤ) by have := abs_nonneg y; omega)
  unfold cent
  rcases le_or_gt 0 y with h0 | h0
  · rw [Int.emod_eq_of_lt h0 hb.2, abs_of_nonneg h0] at *
    rw [if_pos hy]
  · have e : y % (N : ℤ) = y + N := by
      rw [← Int.add_emod_right y N]
      exact Int.emod_eq_of_lt (by omega) (by omega)
    rw [e, abs_of_neg h0] at *
    rw [if_neg (by omega)]
    ring

theorem centV_of_congr_small {D N : ℕ} (m k : Fin D → ℤ) (hc : VCongr D N m k) (hk : ∀ d, 2 * |k d| < (N : ℤ)) :
    centV N m = k := by
  funext d
  show cent N (m d) = k d
  rw [cent_congr N (hc d), cent_of_small N _ (hk d)]

theorem centV_congr_self {D : ℕ} (N : ℕ) (m : Fin D → ℤ) : VCongr D N (centV N m) m := fun d => cent_dvd N (m d)

/-! ## the multiplier lemma -/

/-- **the full-spectrum multiplier lemma.**  `g` conj-symmetric; `a` Nyquist-free or `g` vanishing on
    Nyquist wavenumber vectors.  Then multiplying the stored array by `g(k(h))` multiplies the full
    spectrum of the c2r transform by `g(cent m)`, at every integer wavenumber vector `m`. -/
theorem dftV_irfftn_mul (D N : ℕ) (hD : 0 < D) (hN : 0 < N) (g : (Fin D → ℤ) → ℂ)
    (hg : ∀ k, g (-k) = (starRingEnd ℂ) (g k)) (a : Array ℂ)
    (hNy : NyqFreeS D N a ∨ ∀ k : Fin D → ℤ, NyqVec N k → g k = 0) (m : Fin D → ℤ) :
    dftV D N (irfftnM D N (tab (numModes D N) fun h => g (kvec D N h) * a.getD h 0)) m
      = g (centV N m) * dftV D N (irfftnM D N a) m := by
  rw [dftV_irfftn D N hN, dftV_irfftn D N hN, Finset.mul_sum]
  apply Finset.sum_congr rfl
  intro h hh
  have hh' := Finset.mem_range.mp hh
  rw [DFT.tab_getD _ _ _ _ hh']
  -- the two congruence cases
  have key : ∀ k' : Fin D → ℤ, (k' = kvec D N h ∨ k' = -kvec D N h) → VCongr D N m k' →
      (g (kvec D N h) * a.getD h 0 = 0 ∧ g (centV N m) * a.getD h 0 = 0) ∨ centV N m = k' := by
    intro k' hk' hc
    by_cases hny : NyqVec N (kvec D N h)
    · left
      rcases hNy with hfree | hzero
      · rw [hfree h hh' hny]; simp
      · have hnk' : NyqVec N k' := by
          rcases hk' with rfl | rfl
          · exact hny
          · exact hny.neg
        have hnm : NyqVec N (centV N m) := (hnk'.congr hc.symm).congr (centV_congr_self N m).symm
        rw [hzero _ hny, hzero _ hnm]; simp
    · right
      apply centV_of_congr_small m k' hc
      intro d
      have := kvec_lt_of_not_nyq D N h hD hN hh' hny d
      rcases hk' with rfl | rfl
      · exact this
      · rw [Pi.neg_apply, abs_neg]; exact this
  have e1 : g (kvec D N h) * a.getD h 0 * (if ∀ d, (N : ℤ) ∣ m d - kvec D N h d then (1 : ℂ) else 0)
      = g (centV N m) * (a.getD h 0 * (if ∀ d, (N : ℤ) ∣ m d - kvec D N h d then (1 : ℂ) else 0)) := by
    split_ifs with hc
    · rcases key (kvec D N h) (Or.inl rfl) hc with ⟨z1, z2⟩ | hcent
      · rw [mul_one, mul_one, z1, z2]
      · rw [hcent]; ring
    · simp
  have e2 : (starRingEnd ℂ) (g (kvec D N h) * a.getD h 0)
        * (if ∀ d, (N : ℤ) ∣ m d + kvec D N h d then (1 : ℂ) else 0)
      = g (centV N m) * ((starRingEnd ℂ) (a.getD h 0)
          * (if ∀ d, (N : ℤ) ∣ m d + kvec D N h d then (1 : ℂ) else 0)) := by
    split_ifs with hc
    · have hc' : VCongr D N m (-kvec D N h) := fun d => by
        rw [Pi.neg_apply, sub_neg_eq_add]; exact hc d
      rcases key (-kvec D N h) (Or.inr rfl) hc' with ⟨z1, z2⟩ | hcent
      · rw [mul_one, mul_one, z1, map_zero]
        have : (starRingEnd ℂ) (a.getD h 0) = 0 ∨ g (centV N m) = 0 := by
          rcases mul_eq_zero.mp z2 with h0 | h0
          · exact Or.inr h0
          · exact Or.inl (by rw [h0, map_zero])
        rcases this with h0 | h0 <;> rw [h0] <;> simp
      · rw [hcent, hg, map_mul]; ring
    · simp
  rw [e1, e2]
  ring

/-! ## fields and their permutations -/

/-- `v'` is the axis-permuted `v` (entrywise on the grid) -/
def FieldPerm (D N : ℕ) (σ : Equiv.Perm (Fin D)) (v v' : Array ℂ) : Prop :=
  ∀ j, j < N ^ D → v'.getD j 0 = v.getD (permIdx D N σ j) 0

theorem fieldPerm_permField (D N : ℕ) (σ : Equiv.Perm (Fin D)) (v : Array ℂ) :
    FieldPerm D N σ v (permField D N σ v) := fun j hj => permField_getD D N σ v j hj

/-- a field is determined on the grid by its full spectrum -/
theorem eq_of_dftV_eq (D N : ℕ) (hN : 0 < N) (u v : Array ℂ) (h : ∀ m, dftV D N u m = dftV D N v m)
    (j : ℕ) (hj : j < N ^ D) : u.getD j 0 = v.getD j 0 := by
  rw [dftV_inversion D N hN u j hj, dftV_inversion D N hN v j hj]
  congr 1
  exact Finset.sum_congr rfl (fun a _ => by rw [h])

/-- **`v' = P_σ v` iff the full spectrum of `v'` is the `σ`-relabelled full spectrum of `v`** -/
theorem fieldPerm_iff_dftV (D N : ℕ) (hN : 0 < N) (σ : Equiv.Perm (Fin D)) (v v' : Array ℂ) :
    FieldPerm D N σ v v' ↔ ∀ m, dftV D N v' m = dftV D N v (m ∘ σ) := by
  constructor
  · intro h m
    rw [← dftV_permField D N hN σ v m]
    exact dftV_congr D N _ _ (fun j hj => by rw [h j hj, permField_getD D N σ v j hj]) m
  · intro h j hj
    rw [← permField_getD D N σ v j hj]
    exact eq_of_dftV_eq D N hN _ _ (fun m => by rw [h m, dftV_permField D N hN]) j hj

theorem fieldPerm_real (D N : ℕ) (σ : Equiv.Perm (Fin D)) (v v' : Array ℂ) (h : FieldPerm D N σ v v')
    (hv : IsRealND D N v) : IsRealND D N v' := by
  intro j hj
  rw [h j hj]
  exact hv _ (permIdx_lt' D N σ j hj)

/-! ## the mask and the derivative operators as functions of the wavenumber vector -/

/-- the dealiasing mask as a function of the wavenumber vector -/
noncomputable def maskFn (c : Cfg ℂ) (k : Fin c.D → ℤ) : ℂ :=
  if c.fq = 0 then 1 else if ∀ d, |k d| ≤ Kc c then 1 else 0

theorem mask_eq_maskFn (c : Cfg ℂ) (h : ℕ) : mask c h = maskFn c (kvec c.D c.N h) := by
  unfold maskFn
  by_cases hq : c.fq = 0
  · unfold mask; rw [if_pos hq, if_pos hq]
  · rw [if_neg hq, mask_nd c hq]

theorem maskFn_neg (c : Cfg ℂ) (k : Fin c.D → ℤ) : maskFn c (-k) = (starRingEnd ℂ) (maskFn c k) := by
  unfold maskFn
  simp only [Pi.neg_apply, abs_neg]
  split_ifs <;> simp

theorem maskFn_comp (c : Cfg ℂ) (σ : Equiv.Perm (Fin c.D)) (k : Fin c.D → ℤ) : maskFn c (k ∘ σ) = maskFn c k := by
  unfold maskFn
  have : (∀ d, |(k ∘ σ) d| ≤ Kc c) ↔ (∀ d, |k d| ≤ Kc c) := by
    constructor
    · intro H d
      have := H (σ.symm d)
      simpa using this
    · intro H d
      exact H (σ d)
  simp only [this]

/-- the configuration kills (or does not have) Nyquist modes: `N` odd, or an active dealiasing mask
    with fraction `fp/fq ≤ 1` -/
def NyqCfg (c : Cfg ℂ) : Prop := c.N % 2 = 1 ∨ (c.fq ≠ 0 ∧ c.fp ≤ c.fq)

/-- under `NyqCfg` with even `N` the mask vanishes on Nyquist wavenumber vectors -/
theorem maskFn_nyq (c : Cfg ℂ) (hN : 0 < c.N) (hq : c.fq ≠ 0) (hp : c.fp ≤ c.fq) (k : Fin c.D → ℤ)
    (hny : NyqVec c.N k) : maskFn c k = 0 := by
  unfold maskFn
  rw [if_neg hq, if_neg]
  intro H
  obtain ⟨d, h2, hn⟩ := hny
  have hle := H d
  rw [le_Kc_iff c hq] at hle
  -- `|k_d| ≥ N/2` (real division): `N ≤ 2|k_d|`
  have hk0 : k d ≠ 0 := fun h0 => hn (by rw [h0]; exact dvd_zero _)
  have hNle : (c.N : ℤ) ≤ 2 * |k d| := by
    have h2' : (c.N : ℤ) ∣ 2 * |k d| := by
      rcases abs_cases (k d) with ⟨e, _⟩ | ⟨e, _⟩
      · rw [e]; exact h2
      · rw [e, mul_neg]; exact (dvd_neg).mpr h2
    exact Int.le_of_dvd (by have := abs_pos.mpr hk0; omega) h2'
  have hq' : (0 : ℤ) < c.fq := by exact_mod_cast Nat.pos_of_ne_zero hq
  have hp' : (c.fp : ℤ) ≤ c.fq := by exact_mod_cast hp
  have hhalf : 2 * ((c.N / 2 : ℕ) : ℤ) ≤ c.N := by exact_mod_cast Nat.mul_div_le c.N 2
  have hnn : (0 : ℤ) ≤ ((c.N / 2 : ℕ) : ℤ) := by positivity
  -- `2·|k|·fq ≤ 2·fp·(N/2) − 2·fq ≤ fq·N − 2·fq < N·fq ≤ 2·|k|·fq`
  have h1 : (c.fp : ℤ) * ((c.N / 2 : ℕ) : ℤ) ≤ (c.fq : ℤ) * ((c.N / 2 : ℕ) : ℤ) :=
    mul_le_mul_of_nonneg_right hp' hnn
  have h3 : (c.N : ℤ) * (c.fq : ℤ) ≤ 2 * |k d| * (c.fq : ℤ) := mul_le_mul_of_nonneg_right hNle hq'.le
  have h4 : 2 * ((c.fq : ℤ) * ((c.N / 2 : ℕ) : ℤ)) ≤ (c.fq : ℤ) * (c.N : ℤ) := by
    have := mul_le_mul_of_nonneg_left hhalf hq'.le
    linarith
  nlinarith

/-- the derivative operator `i s k_e` as a function of the wavenumber vector -/
noncomputable def derivFn (c : Cfg ℂ) (e : Fin c.D) (k : Fin c.D → ℤ) : ℂ := Complex.I * (c.s * ((k e : ℤ) : ℂ))

theorem deriv_eq_derivFn (c : Cfg ℂ) (e : Fin c.D) (h : ℕ) : Nonlin.deriv c e h = derivFn c e (kvec c.D c.N h) := rfl

/-- derivative operators of axes beyond `D` vanish -/
theorem deriv_of_ge (c : Cfg ℂ) (e h : ℕ) (he : c.D ≤ e) : Nonlin.deriv c e h = 0 := by
  unfold Nonlin.deriv
  have : (wnFlat c.D c.N h).getD e 0 = 0 := by
    unfold wnFlat wnVec
    rw [List.getD_eq_getElem?_getD, List.getElem?_eq_none (by simpa using he)]
    rfl
  rw [this]
  simp

theorem derivFn_neg (c : Cfg ℂ) (hs : c.s.im = 0) (e : Fin c.D) (k : Fin c.D → ℤ) :
    derivFn c e (-k) = (starRingEnd ℂ) (derivFn c e k) := by
  unfold derivFn
  have hsc : (starRingEnd ℂ) c.s = c.s := Complex.conj_eq_iff_im.mpr hs
  rw [map_mul, map_mul, Complex.conj_I, hsc, map_intCast, Pi.neg_apply]
  push_cast
  ring

theorem derivFn_comp (c : Cfg ℂ) (σ : Equiv.Perm (Fin c.D)) (e : Fin c.D) (k : Fin c.D → ℤ) :
    derivFn c e (k ∘ σ) = derivFn c (σ e) k := rfl

/-! ## non-vacuity -/

example : ∃ (N : ℕ) (m : Fin 2 → ℤ), NyqVec N m := ⟨4, ![2, 1], 0, by decide, by decide⟩
example : ∃ c : Cfg ℂ, NyqCfg c ∧ c.N % 2 = 0 := ⟨⟨2, 8, 1, 2, 3⟩, Or.inr ⟨by norm_num, by norm_num⟩, rfl⟩
example (D N : ℕ) : NyqFreeS D N #[] := fun _ _ _ => by simp
example : ∃ g : (Fin 2 → ℤ) → ℂ, ∀ k, g (-k) = (starRingEnd ℂ) (g k) := ⟨fun _ => 1, fun _ => by simp⟩

end Exponax.AxisPerm
