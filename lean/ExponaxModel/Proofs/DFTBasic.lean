import Mathlib.RingTheory.RootsOfUnity.Complex
import Mathlib.Analysis.SpecialFunctions.Trigonometric.Basic
import Mathlib.Tactic
import ExponaxModel.Proofs.Instances
import ExponaxModel.Model.Transform
/-
Basic facts about the array / DFT model in `Model/Transform.lean` interpreted at `K := ℂ`:
`tab`, `sumRange`, `twiddle` as powers of the primitive root `ζ_N = e^{-2πi/N}`, and the pointwise
formulas for `rfftnM` / `irfftnM`.
-/
namespace Exponax.DFT
open Exponax Exponax.Layout Exponax.Transform Finset

/-! ### `tab` -/

@[simp] theorem tab_size {α : Type} (n : ℕ) (f : ℕ → α) : (tab n f).size = n := by
  simp [tab]

theorem tab_getD {α : Type} (n : ℕ) (f : ℕ → α) (i : ℕ) (d : α) (h : i < n) :
    (tab n f).getD i d = f i := by
  simp [tab, Array.getD, h]

theorem tab_getD_of_le {α : Type} (n : ℕ) (f : ℕ → α) (i : ℕ) (d : α) (h : n ≤ i) :
    (tab n f).getD i d = d := by
  simp [tab, Array.getD, Nat.not_lt.mpr h]

theorem tab_getElem {α : Type} (n : ℕ) (f : ℕ → α) (i : ℕ) (h : i < (tab n f).size) :
    (tab n f)[i] = f i := by
  simp [tab]

/-! ### `sumRange` -/

theorem list_range_map_sum {K : Type} [AddCommMonoid K] (f : ℕ → K) (n : ℕ) :
    ((List.range n).map f).sum = ∑ i ∈ Finset.range n, f i := by
  induction n with
  | zero => simp
  | succ n ih => simp [List.range_succ, Finset.sum_range_succ, ih]

theorem sumRange_eq {K : Type} [Semiring K] (n : ℕ) (f : ℕ → K) :
    sumRange n f = ∑ i ∈ Finset.range n, f i := by
  unfold sumRange
  rw [sumList_eq, list_range_map_sum]

/-! ### the root of unity `ζ_N = e^{-2πi/N}` and `twiddle` -/

/-- `ζ_N = exp(-2πi/N)` -/
noncomputable def zeta (N : ℕ) : ℂ := Complex.exp (-(2 * Real.pi * Complex.I / N))

theorem zeta_isPrimitiveRoot (N : ℕ) (hN : 0 < N) : IsPrimitiveRoot (zeta N) N := by
  have h := (Complex.isPrimitiveRoot_exp N (Nat.pos_iff_ne_zero.mp hN)).inv
  rwa [← Complex.exp_neg] at h

theorem zeta_pow_self (N : ℕ) : zeta N ^ N = 1 := by
  rcases Nat.eq_zero_or_pos N with h | h
  · subst h; simp
  · exact (zeta_isPrimitiveRoot N h).pow_eq_one

theorem zeta_ne_zero (N : ℕ) : zeta N ≠ 0 := Complex.exp_ne_zero _

theorem zeta_zpow_eq_exp (N : ℕ) (m : ℤ) :
    zeta N ^ m = Complex.exp (-(2 * Real.pi * Complex.I * (m : ℂ) / N)) := by
  unfold zeta
  rw [← Complex.exp_int_mul]
  congr 1
  ring

theorem zeta_zpow_add_mul (N : ℕ) (m k : ℤ) : zeta N ^ (m + (N : ℤ) * k) = zeta N ^ m := by
  rw [zpow_add₀ (zeta_ne_zero N), zpow_mul, zpow_natCast, zeta_pow_self, one_zpow, mul_one]

theorem zeta_zpow_emod (N : ℕ) (m : ℤ) : zeta N ^ (m % (N : ℤ)) = zeta N ^ m := by
  conv_rhs => rw [← Int.emod_add_mul_ediv m N]
  rw [zeta_zpow_add_mul]

theorem zeta_zpow_eq_of_modEq (N : ℕ) {a b : ℤ} (h : a ≡ b [ZMOD (N : ℤ)]) :
    zeta N ^ a = zeta N ^ b := by
  rw [← zeta_zpow_emod N a, ← zeta_zpow_emod N b, h]

/-- `twiddle N m = ζ_N ^ m` (integer power) -/
theorem twiddle_eq_zpow (N : ℕ) (m : ℤ) : (twiddle N m : ℂ) = zeta N ^ m := by
  rw [← zeta_zpow_emod, zeta_zpow_eq_exp]
  simp only [twiddle, hasExp_complex, lit_eq, hasI_complex, hasPi_complex]
  rfl

/-- `twiddle N m = ζ_N ^ (m mod N)` as a natural power -/
theorem twiddle_eq_pow_mod (N : ℕ) (m : ℤ) (hN : 0 < N) :
    (twiddle N m : ℂ) = zeta N ^ (m % (N : ℤ)).toNat := by
  rw [twiddle_eq_zpow, ← zeta_zpow_emod, ← zpow_natCast]
  congr 1
  rw [Int.toNat_of_nonneg]
  exact Int.emod_nonneg _ (by exact_mod_cast hN.ne')

theorem twiddle_periodic (N : ℕ) (m k : ℤ) :
    (twiddle N (m + (N : ℤ) * k) : ℂ) = twiddle N m := by
  rw [twiddle_eq_zpow, twiddle_eq_zpow, zeta_zpow_add_mul]

theorem twiddle_emod (N : ℕ) (m : ℤ) : (twiddle N (m % (N : ℤ)) : ℂ) = twiddle N m := by
  rw [twiddle_eq_zpow, twiddle_eq_zpow, zeta_zpow_emod]

theorem twiddle_add (N : ℕ) (a b : ℤ) : (twiddle N (a + b) : ℂ) = twiddle N a * twiddle N b := by
  simp only [twiddle_eq_zpow, zpow_add₀ (zeta_ne_zero N)]

theorem twiddle_neg (N : ℕ) (a : ℤ) : (twiddle N (-a) : ℂ) = (twiddle N a)⁻¹ := by
  simp only [twiddle_eq_zpow, zpow_neg]

theorem norm_zeta (N : ℕ) : ‖zeta N‖ = 1 := by
  unfold zeta
  rw [Complex.norm_exp]
  have : (-(2 * (Real.pi : ℂ) * Complex.I / (N : ℂ))).re = 0 := by
    have h : -(2 * (Real.pi : ℂ) * Complex.I / (N : ℂ)) = ((-(2 * Real.pi / (N : ℝ)) : ℝ) : ℂ) * Complex.I := by
      push_cast; ring
    rw [h]; simp
  rw [this, Real.exp_zero]

theorem conj_zeta (N : ℕ) : (starRingEnd ℂ) (zeta N) = (zeta N)⁻¹ := by
  rw [Complex.inv_eq_conj (norm_zeta N)]

theorem conj_zeta_zpow (N : ℕ) (m : ℤ) : (starRingEnd ℂ) (zeta N ^ m) = zeta N ^ (-m) := by
  rw [map_zpow₀, conj_zeta, inv_zpow, zpow_neg]

theorem conj_twiddle (N : ℕ) (m : ℤ) : (starRingEnd ℂ) (twiddle N m : ℂ) = twiddle N (-m) := by
  rw [twiddle_eq_zpow, twiddle_eq_zpow, conj_zeta_zpow]

theorem norm_twiddle (N : ℕ) (m : ℤ) : ‖(twiddle N m : ℂ)‖ = 1 := by
  rw [twiddle_eq_zpow, norm_zpow, norm_zeta, one_zpow]

/-! ### pointwise formulas for `rfftnM` / `irfftnM` -/

theorem int_emod_eq (a b : ℤ) : Int.emod a b = a % b := rfl

private theorem emod_toNat_lt (N : ℕ) (hN : 0 < N) (p : ℤ) : (p % (N : ℤ)).toNat < N := by
  have h1 : 0 ≤ p % (N : ℤ) := Int.emod_nonneg _ (by exact_mod_cast hN.ne')
  have h2 : p % (N : ℤ) < N := Int.emod_lt_of_pos _ (by exact_mod_cast hN)
  omega

private theorem emod_toNat_cast (N : ℕ) (hN : 0 < N) (p : ℤ) :
    (((p % (N : ℤ)).toNat : ℕ) : ℤ) = p % (N : ℤ) :=
  Int.toNat_of_nonneg (Int.emod_nonneg _ (by exact_mod_cast hN.ne'))

@[simp] theorem rfftnM_size (D N : ℕ) (u : Array ℂ) : (rfftnM D N u).size = numModes D N := by
  simp [rfftnM]

@[simp] theorem irfftnM_size (D N : ℕ) (c : Array ℂ) : (irfftnM D N c).size = N ^ D := by
  simp [irfftnM]

/-- `û_h = Σ_j u_j · twiddle(k(h)·j)` -/
theorem rfftnM_getD (D N : ℕ) (hN : 0 < N) (u : Array ℂ) (h : ℕ) (hh : h < numModes D N) :
    (rfftnM D N u).getD h 0
      = ∑ j ∈ range (N ^ D), u.getD j 0 * twiddle N (phaseK D N (wnFlat D N h) j) := by
  unfold rfftnM
  rw [tab_getD _ _ _ _ hh, sumRange_eq]
  apply Finset.sum_congr rfl
  intro j _
  rw [int_emod_eq, tab_getD _ _ _ _ (emod_toNat_lt N hN _), emod_toNat_cast N hN, twiddle_emod]

/-- `u_j = N^{-D} Σ_h w_h Re(c_h · twiddle(-k(h)·j))` -/
theorem irfftnM_getD (D N : ℕ) (hN : 0 < N) (c : Array ℂ) (j : ℕ) (hj : j < N ^ D) :
    (irfftnM D N c).getD j 0
      = (∑ h ∈ range (numModes D N), (herm_weight D N h : ℂ) *
          (((c.getD h 0 * twiddle N (-(phaseK D N (wnFlat D N h) j))).re : ℝ) : ℂ)) / ((N ^ D : ℕ) : ℂ) := by
  unfold irfftnM
  rw [tab_getD _ _ _ _ hj, sumRange_eq]
  simp only [lit_eq, hasRe_complex]
  congr 1
  apply Finset.sum_congr rfl
  intro h hh
  have hh' := Finset.mem_range.mp hh
  rw [tab_getD _ _ _ _ hh', tab_getD _ _ _ _ hh', int_emod_eq,
    tab_getD _ _ _ _ (emod_toNat_lt N hN _)]
  rw [emod_toNat_cast N hN, twiddle_neg, twiddle_emod, ← twiddle_neg]

end Exponax.DFT
