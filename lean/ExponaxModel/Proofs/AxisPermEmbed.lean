import ExponaxModel.Proofs.AxisPermBasic
/-
C08, T4 (transform level) — EMBEDDING a 1-D state along one axis of the `D`-dimensional grid
(constant in all other directions): `embedAxis D N a w` is `u(j₀,…,j_{D-1}) = w(j_a)`.

* `dftV_embedAxis`     : the FULL spectrum is supported on the `a`-th axis, with the values
                         `N^{D-1} · (1-D spectrum of w)`; any axis `a`, any complex `w`, every `D`, `N ≥ 1`.
* `rfftn_embedAxis`    : the same in the stored layout (`rfftnM D N`): stored mode `h` carries
                         `N^{D-1} · Ŵ(k_a(h))` if all other wavenumbers of `h` vanish, else `0`
                         (`a` not the last axis: the full line `k_a = fftfreq`, with
                         `Ŵ(−k) = conj Ŵ(k)` for real `w`, `DFT.conj_dft`).
* `rfftn_embedLast`    : `a` = last axis: stored modes `h ≤ N/2` carry `N^{D-1} · (rfftnM 1 N w)[h]`,
                         all other stored modes vanish.
* `irfftn_embedLast`   : conversely, for ANY 1-D stored array `c₁`, the `D`-dimensional c2r transform of
                         the array `N^{D-1} · c₁` placed on the last axis is the embedding of `irfftnM 1 N c₁`.
-/
set_option linter.unusedVariables false
namespace Exponax.AxisPerm
open Exponax Exponax.Layout Exponax.Transform Exponax.DFT Exponax.AliasND Finset

/-- the 1-D field `w` embedded along axis `a` of the `N^D` grid: `u(j) = w(j_a)` -/
def embedAxis (D N a : ℕ) (w : Array ℂ) : Array ℂ := tab (N ^ D) (fun j => w.getD (digit D N j a) 0)

@[simp] theorem embedAxis_size (D N a : ℕ) (w : Array ℂ) : (embedAxis D N a w).size = N ^ D := by
  simp [embedAxis]

theorem embedAxis_getD (D N a : ℕ) (w : Array ℂ) (j : ℕ) (hj : j < N ^ D) :
    (embedAxis D N a w).getD j 0 = w.getD (digit D N j a) 0 := by
  rw [embedAxis, DFT.tab_getD _ _ _ _ hj]

/-- along the last axis: `u(j) = w(j mod N)` -/
theorem embedLast_getD (E N : ℕ) (w : Array ℂ) (j : ℕ) (hj : j < N ^ (E + 1)) :
    (embedAxis (E + 1) N E w).getD j 0 = w.getD (j % N) 0 := by
  rw [embedAxis_getD _ _ _ _ j hj, digit_succ_last]

theorem embedAxis_real (D N a : ℕ) (hN : 0 < N) (w : Array ℂ) (hw : ∀ i < N, (w.getD i 0).im = 0) :
    IsRealND D N (embedAxis D N a w) := by
  intro j hj
  rw [embedAxis_getD _ _ _ _ j hj]
  exact hw _ (Nat.mod_lt _ hN)

/-! ## the full spectrum of an embedded field -/

/-- **T4, full-spectrum form, any axis.**  The spectrum of `u(j) = w(j_a)` is supported on the
    `a`-th axis (all other wavenumbers `≡ 0`), where it is `N^{D-1}` times the 1-D spectrum of `w`. -/
theorem dftV_embedAxis (D N : ℕ) (hN : 0 < N) (a : Fin D) (w : Array ℂ) (κ : Fin D → ℤ) :
    dftV D N (embedAxis D N a w) κ
      = if ∀ d, d ≠ a → (N : ℤ) ∣ κ d then ((N ^ (D - 1) : ℕ) : ℂ) * dft N w (κ a) else 0 := by
  rw [embedAxis, dftV_tab]
  have h1 : ∀ j ∈ range (N ^ D), w.getD (digit D N j a) 0 * zeta N ^ vdot D N κ j
      = (fun p : Fin D → ℕ => ∏ d : Fin D,
          ((if d = a then w.getD (p d) 0 else 1) * zeta N ^ (κ d * (p d : ℤ))))
          (fun d => digit D N j d) := by
    intro j _
    simp only []
    rw [Finset.prod_mul_distrib, Finset.prod_ite_eq' Finset.univ a (fun d => w.getD (digit D N j d) 0),
      if_pos (Finset.mem_univ a)]
    unfold vdot
    rw [zeta_zpow_sum]
  rw [Finset.sum_congr rfl h1,
    sum_digits D N hN (fun p : Fin D → ℕ => ∏ d : Fin D,
          ((if d = a then w.getD (p d) 0 else 1) * zeta N ^ (κ d * (p d : ℤ)))),
    ← Finset.prod_univ_sum (fun _ : Fin D => range N)
      (fun (d : Fin D) (i : ℕ) => (if d = a then w.getD i 0 else 1) * zeta N ^ (κ d * (i : ℤ))),
    ← Finset.mul_prod_erase Finset.univ _ (Finset.mem_univ a)]
  have hother : ∀ d ∈ Finset.univ.erase a,
      ∑ i ∈ range N, (if d = a then w.getD i 0 else 1) * zeta N ^ (κ d * (i : ℤ))
        = if (N : ℤ) ∣ κ d then (N : ℂ) else 0 := by
    intro d hd
    have hne : d ≠ a := (Finset.mem_erase.mp hd).1
    simp only [if_neg hne, one_mul]
    exact zeta_sum_zpow N hN (κ d)
  rw [Finset.prod_congr rfl hother, Finset.prod_ite_zero]
  simp only [if_true, Finset.mem_erase, Finset.mem_univ, and_true, Finset.prod_const,
    Finset.card_erase_of_mem (Finset.mem_univ a), Finset.card_univ, Fintype.card_fin]
  split_ifs
  · unfold dft
    push_cast
    ring
  · rw [mul_zero]

/-- the 1-D spectrum as `dftV 1 N` -/
theorem dftV_one (N : ℕ) (w : Array ℂ) (k : Fin 1 → ℤ) : dftV 1 N w k = dft N w (k 0) := by
  unfold dftV dft vdot
  rw [pow_one]
  apply Finset.sum_congr rfl
  intro j hj
  simp [digit_one_of_lt N j (Finset.mem_range.mp hj)]

/-- **T4, stored layout, any axis.** -/
theorem rfftn_embedAxis (D N : ℕ) (hD : 0 < D) (hN : 0 < N) (a : Fin D) (w : Array ℂ) (h : ℕ)
    (hh : h < numModes D N) :
    (rfftnM D N (embedAxis D N a w)).getD h 0
      = if ∀ d, d ≠ a → kvec D N h d = 0 then ((N ^ (D - 1) : ℕ) : ℂ) * dft N w (kvec D N h a) else 0 := by
  rw [rfftn_eq_dftV D N hN _ h hh, dftV_embedAxis D N hN]
  have hiff : (∀ d, d ≠ a → (N : ℤ) ∣ kvec D N h d) ↔ (∀ d, d ≠ a → kvec D N h d = 0) := by
    constructor
    · intro H d hd
      apply Int.eq_zero_of_abs_lt_dvd (H d hd)
      have := kvec_abs_le D N h hD hN hh d
      have h2 : ((N / 2 : ℕ) : ℤ) < N := by exact_mod_cast Nat.div_lt_self hN (by norm_num)
      omega
    · intro H d hd
      rw [H d hd]
      exact dvd_zero _
  by_cases hc : ∀ d, d ≠ a → kvec D N h d = 0
  · rw [if_pos hc, if_pos (hiff.mpr hc)]
  · rw [if_neg hc, if_neg (fun h' => hc (hiff.mp h'))]

/-- a leading wavenumber of a stored mode vanishes iff the corresponding digit vanishes -/
theorem fftfreq_eq_zero_iff (N i : ℕ) (hi : i < N) : fftfreq N i = 0 ↔ i = 0 := by
  unfold fftfreq
  split_ifs <;> omega

/-- the stored modes on the last axis are the modes `h ≤ N/2` -/
theorem kvec_leading_zero_iff (E N h : ℕ) (hN : 0 < N) (hh : h < numModes (E + 1) N) :
    (∀ d : Fin (E + 1), d ≠ Fin.last E → kvec (E + 1) N h d = 0) ↔ h < N / 2 + 1 := by
  have hh' := hh
  rw [numModes_succ] at hh'
  have hn : 0 < N / 2 + 1 := by omega
  have hq : h / (N / 2 + 1) < N ^ E := Nat.div_lt_of_lt_mul (by rw [mul_comm]; exact hh')
  constructor
  · intro H
    have hz : h / (N / 2 + 1) = 0 := by
      apply digits_inj N E _ _ hq (pow_pos hN E)
      intro d hd
      have := H ⟨d, by omega⟩ (by intro he; have := congrArg Fin.val he; simp at this; omega)
      rw [kvec_leading E N h hh ⟨d, by omega⟩ hd,
        fftfreq_eq_zero_iff N _ (AliasND.digit_lt E N _ _ hN)] at this
      rw [digit_zero]
      exact this
    exact (Nat.div_eq_zero_iff.mp hz).resolve_left (by omega)
  · intro hlt d hd
    have hdE : (d : ℕ) < E := by
      have : (d : ℕ) ≠ E := fun he => hd (Fin.ext (by simp [he]))
      omega
    rw [kvec_leading E N h hh d hdE, Nat.div_eq_of_lt hlt, digit_zero]
    simp [fftfreq]

/-- **T4, stored layout, last axis.**  `rfftnM D N` of the field embedded along the last axis is
    `N^{D-1}` times the 1-D stored half spectrum on the stored modes `h ≤ N/2` (the last axis of the
    half layout) and `0` elsewhere; any complex `w`, Nyquist mode included. -/
theorem rfftn_embedLast (E N : ℕ) (hN : 0 < N) (w : Array ℂ) (h : ℕ) (hh : h < numModes (E + 1) N) :
    (rfftnM (E + 1) N (embedAxis (E + 1) N E w)).getD h 0
      = if h < N / 2 + 1 then ((N ^ E : ℕ) : ℂ) * (rfftnM 1 N w).getD h 0 else 0 := by
  have := rfftn_embedAxis (E + 1) N (by omega) hN (Fin.last E) w h hh
  simp only [Fin.val_last] at this
  rw [this, Nat.add_sub_cancel]
  by_cases hlt : h < N / 2 + 1
  · rw [if_pos ((kvec_leading_zero_iff E N h hN hh).mpr hlt), if_pos hlt,
      kvec_last E N h hh (Fin.last E) (by simp), Nat.mod_eq_of_lt hlt, rfft1_getD N hN w h (by omega)]
  · rw [if_neg (fun H => hlt ((kvec_leading_zero_iff E N h hN hh).mp H)), if_neg hlt]

/-! ## the c2r transform of a spectrum supported on the last axis -/

theorem dotPhase_zero_left (E N b : ℕ) : dotPhase E N 0 b = 0 := by
  unfold dotPhase
  apply Finset.sum_eq_zero
  intro d _
  rw [digit_zero]
  simp

/-- **T4, inverse transform.**  For ANY 1-D stored array `c₁` (Hermitian or not): the
    `(E+1)`-dimensional c2r transform of `N^E · c₁` placed on the last axis (zero elsewhere) is the
    embedding along the last axis of `irfftnM 1 N c₁`. -/
theorem irfftn_embedLast (E N : ℕ) (hN : 0 < N) (c c1 : Array ℂ)
    (hc : ∀ h < numModes (E + 1) N,
      c.getD h 0 = if h < N / 2 + 1 then ((N ^ E : ℕ) : ℂ) * c1.getD h 0 else 0) :
    irfftnM (E + 1) N c = embedAxis (E + 1) N E (irfftnM 1 N c1) := by
  have hirf : (irfftnM (E + 1) N c).size = N ^ (E + 1) := by simp [irfftnM, tab]
  apply Symmetry.array_ext_getD _ _ (N ^ (E + 1)) hirf (by simp)
  intro J hJ
  have hI : J % N < N := Nat.mod_lt _ hN
  have hn : 0 < N / 2 + 1 := by omega
  have hNE : ((N ^ E : ℕ) : ℂ) ≠ 0 := by exact_mod_cast (pow_pos hN E).ne'
  have hNc : (N : ℂ) ≠ 0 := by exact_mod_cast hN.ne'
  rw [embedLast_getD E N _ J hJ, irfftn_getD E N hN c J hJ, irfft1_getD N hN c1 _ hI]
  have h2 := sum_range_mul_div_mod (N ^ E) (N / 2 + 1) (fun x l : ℕ =>
      (herm_weight 1 N l : ℂ) * (((c.getD (x * (N / 2 + 1) + l) 0 * zeta N ^ (-(dotPhase E N x (J / N)
          + ((l : ℕ) : ℤ) * ((J % N : ℕ) : ℤ)))).re : ℝ) : ℂ))
  have hterm : ∀ h ∈ range (N ^ E * (N / 2 + 1)),
      (herm_weight 1 N (h % (N / 2 + 1)) : ℂ) *
          (((c.getD h 0 * zeta N ^ (-(dotPhase E N (h / (N / 2 + 1)) (J / N)
              + ((h % (N / 2 + 1) : ℕ) : ℤ) * ((J % N : ℕ) : ℤ)))).re : ℝ) : ℂ)
        = (fun x l : ℕ => (herm_weight 1 N l : ℂ) * (((c.getD (x * (N / 2 + 1) + l) 0
            * zeta N ^ (-(dotPhase E N x (J / N) + ((l : ℕ) : ℤ) * ((J % N : ℕ) : ℤ)))).re : ℝ) : ℂ))
            (h / (N / 2 + 1)) (h % (N / 2 + 1)) := by
    intro h _
    simp only []
    rw [Nat.div_add_mod' h (N / 2 + 1)]
  rw [Finset.sum_congr rfl hterm, h2, Finset.sum_eq_single_of_mem 0 (Finset.mem_range.mpr (pow_pos hN E))]
  · have hl : ∀ l ∈ range (N / 2 + 1),
        (herm_weight 1 N l : ℂ) * (((c.getD (0 * (N / 2 + 1) + l) 0
            * zeta N ^ (-(dotPhase E N 0 (J / N) + ((l : ℕ) : ℤ) * ((J % N : ℕ) : ℤ)))).re : ℝ) : ℂ)
          = ((N ^ E : ℕ) : ℂ) * ((herm_weight 1 N l : ℂ) *
              (((c1.getD l 0 * zeta N ^ (-((l : ℤ) * ((J % N : ℕ) : ℤ)))).re : ℝ) : ℂ)) := by
      intro l hl
      have hl' := Finset.mem_range.mp hl
      have hlt : 0 * (N / 2 + 1) + l < numModes (E + 1) N := by
        rw [numModes_succ, zero_mul, zero_add]
        calc l < N / 2 + 1 := hl'
          _ = 1 * (N / 2 + 1) := (one_mul _).symm
          _ ≤ N ^ E * (N / 2 + 1) := Nat.mul_le_mul_right _ (pow_pos hN E)
      rw [hc _ hlt, zero_mul, zero_add, if_pos hl', dotPhase_zero_left, zero_add, mul_assoc,
        show ((N ^ E : ℕ) : ℂ) = (((N ^ E : ℕ) : ℝ) : ℂ) by push_cast; rfl, Complex.re_ofReal_mul]
      push_cast
      ring
    rw [Finset.sum_congr rfl hl, ← Finset.mul_sum]
    push_cast
    field_simp
    ring
  · intro x hx hx0
    apply Finset.sum_eq_zero
    intro l hl
    have hl' := Finset.mem_range.mp hl
    have hlt : x * (N / 2 + 1) + l < numModes (E + 1) N := by
      rw [numModes_succ]
      calc x * (N / 2 + 1) + l < x * (N / 2 + 1) + (N / 2 + 1) := by omega
        _ = (x + 1) * (N / 2 + 1) := by ring
        _ ≤ N ^ E * (N / 2 + 1) := Nat.mul_le_mul_right _ (Finset.mem_range.mp hx)
    have hge : ¬ x * (N / 2 + 1) + l < N / 2 + 1 := by
      have : 1 * (N / 2 + 1) ≤ x * (N / 2 + 1) := Nat.mul_le_mul_right _ (by omega)
      omega
    rw [hc _ hlt, if_neg hge]
    simp

/-- written with the tabulated array -/
theorem irfftn_embedLast_tab (E N : ℕ) (hN : 0 < N) (c1 : Array ℂ) :
    irfftnM (E + 1) N (tab (numModes (E + 1) N)
        (fun h => if h < N / 2 + 1 then ((N ^ E : ℕ) : ℂ) * c1.getD h 0 else 0))
      = embedAxis (E + 1) N E (irfftnM 1 N c1) :=
  irfftn_embedLast E N hN _ c1 (fun h hh => DFT.tab_getD _ _ _ _ hh)

/-- round trip of an embedded REAL 1-D state -/
theorem irfftn_rfftn_embedLast (E N : ℕ) (hN : 0 < N) (w : Array ℂ) (hw : ∀ i < N, (w.getD i 0).im = 0) :
    irfftnM (E + 1) N (rfftnM (E + 1) N (embedAxis (E + 1) N E w))
      = embedAxis (E + 1) N E (irfftnM 1 N (rfftnM 1 N w)) :=
  irfftn_embedLast E N hN _ _ (fun h hh => rfftn_embedLast E N hN w h hh)

/-! ## non-vacuity -/

example : ∃ (E N h : ℕ), 0 < N ∧ h < numModes (E + 1) N ∧ h < N / 2 + 1 := ⟨2, 4, 2, by norm_num, by decide, by norm_num⟩
example : ∃ (E N h : ℕ), 0 < N ∧ h < numModes (E + 1) N ∧ ¬ h < N / 2 + 1 := ⟨2, 4, 7, by norm_num, by decide, by norm_num⟩
example (E N : ℕ) (c1 : Array ℂ) : ∃ c : Array ℂ, ∀ h < numModes (E + 1) N,
    c.getD h 0 = if h < N / 2 + 1 then ((N ^ E : ℕ) : ℂ) * c1.getD h 0 else 0 :=
  ⟨_, fun h hh => DFT.tab_getD _ _ _ _ hh⟩

end Exponax.AxisPerm
