import ExponaxModel.Proofs.Symmetry
/-
C08 (T3 / T4 support) — the regenerated ETDRK stage formulas `Gen.Etdrk.E0step … E4step` preserve
every RELATION `R` between two state spaces that is compatible with `+`, `−`, the nonlinear terms
and multiplication by the (paired) coefficient arrays: a "logical relation" lemma, used with
`R` = "is the axis-permuted spectrum of" (T3) and `R` = "is the embedding of the 1-D spectrum" (T4).
-/
set_option linter.unusedVariables false
namespace Exponax.AxisPerm
open Exponax Exponax.Gen.Etdrk

/-- `R` is compatible with the ring operations used by the stage formulas; `Cf e e'` singles out the
    admissible pairs of coefficient arrays -/
structure StepRel {V W : Type} [CommRing V] [CommRing W] (R : V → W → Prop) (Cf : V → W → Prop) : Prop where
  add : ∀ {a a' : V} {b b' : W}, R a b → R a' b' → R (a + a') (b + b')
  sub : ∀ {a a' : V} {b b' : W}, R a b → R a' b' → R (a - a') (b - b')
  mul : ∀ {e : V} {e' : W} {a : V} {b : W}, Cf e e' → R a b → R (e * a) (e' * b)
  two : Cf (lit 2) (lit 2)

section
variable {V W : Type} [CommRing V] [CommRing W] {R : V → W → Prop} {Cf : V → W → Prop}
  (hR : StepRel R Cf) {N : V → V} {N' : W → W} (hN : ∀ x y, R x y → R (N x) (N' y))
include hR

theorem E0step_rel {E u : V} {E' u' : W} (hE : Cf E E') (hu : R u u') :
    R (E0step E u) (E0step E' u') := hR.mul hE hu

include hN

theorem E1step_rel {E c1 u : V} {E' c1' u' : W} (hE : Cf E E') (h1 : Cf c1 c1') (hu : R u u') :
    R (E1step E c1 N u) (E1step E' c1' N' u') := by
  unfold E1step
  exact hR.add (hR.mul hE hu) (hR.mul h1 (hN _ _ hu))

theorem E2step_rel {E c1 c2 u : V} {E' c1' c2' u' : W} (hE : Cf E E') (h1 : Cf c1 c1') (h2 : Cf c2 c2')
    (hu : R u u') : R (E2step E c1 c2 N u) (E2step E' c1' c2' N' u') := by
  unfold E2step
  have hn := hN _ _ hu
  have hs1 := hR.add (hR.mul hE hu) (hR.mul h1 hn)
  exact hR.add hs1 (hR.mul h2 (hR.sub (hN _ _ hs1) hn))

theorem E3step_rel {E Eh c1 c2 c3 c4 c5 u : V} {E' Eh' c1' c2' c3' c4' c5' u' : W} (hE : Cf E E')
    (hEh : Cf Eh Eh') (h1 : Cf c1 c1') (h2 : Cf c2 c2') (h3 : Cf c3 c3') (h4 : Cf c4 c4') (h5 : Cf c5 c5')
    (hu : R u u') :
    R (E3step E Eh c1 c2 c3 c4 c5 N u) (E3step E' Eh' c1' c2' c3' c4' c5' N' u') := by
  unfold E3step
  have hn := hN _ _ hu
  have hs1 := hR.add (hR.mul hEh hu) (hR.mul h1 hn)
  have hn1 := hN _ _ hs1
  have hs2 := hR.add (hR.mul hE hu) (hR.mul h2 (hR.sub (hR.mul hR.two hn1) hn))
  have hn2 := hN _ _ hs2
  exact hR.add (hR.add (hR.add (hR.mul hE hu) (hR.mul h3 hn)) (hR.mul h4 hn1)) (hR.mul h5 hn2)

theorem E4step_rel {E Eh c1 c2 c3 c4 c5 c6 u : V} {E' Eh' c1' c2' c3' c4' c5' c6' u' : W} (hE : Cf E E')
    (hEh : Cf Eh Eh') (h1 : Cf c1 c1') (h2 : Cf c2 c2') (h3 : Cf c3 c3') (h4 : Cf c4 c4') (h5 : Cf c5 c5')
    (h6 : Cf c6 c6') (hu : R u u') :
    R (E4step E Eh c1 c2 c3 c4 c5 c6 N u) (E4step E' Eh' c1' c2' c3' c4' c5' c6' N' u') := by
  unfold E4step
  have hn := hN _ _ hu
  have hs1 := hR.add (hR.mul hEh hu) (hR.mul h1 hn)
  have hn1 := hN _ _ hs1
  have hs2 := hR.add (hR.mul hEh hu) (hR.mul h2 hn1)
  have hn2 := hN _ _ hs2
  have hs3 := hR.add (hR.mul hEh hs1) (hR.mul h3 (hR.sub (hR.mul hR.two hn2) hn))
  have hn3 := hN _ _ hs3
  have h52 : R ((c5 * lit 2) * (N (Eh * u + c1 * N u) + N (Eh * u + c2 * N (Eh * u + c1 * N u))))
      ((c5' * lit 2) * (N' (Eh' * u' + c1' * N' u') + N' (Eh' * u' + c2' * N' (Eh' * u' + c1' * N' u')))) := by
    rw [mul_assoc, mul_assoc]
    exact hR.mul h5 (hR.mul hR.two (hR.add hn1 hn2))
  exact hR.add (hR.add (hR.add (hR.mul hE hu) (hR.mul h4 hn)) h52) (hR.mul h6 hn3)

end

/-- `n` steps of any relation-preserving pair of step maps -/
theorem iterate_rel {V W : Type} (R : V → W → Prop) (step : V → V) (step' : W → W)
    (h : ∀ x y, R x y → R (step x) (step' y)) (n : ℕ) (u : V) (u' : W) (hu : R u u') :
    R (step^[n] u) (step'^[n] u') := by
  induction n generalizing u u' with
  | zero => exact hu
  | succ n ih =>
    rw [Function.iterate_succ_apply, Function.iterate_succ_apply]
    exact ih _ _ (h _ _ hu)

/-- non-vacuity: equality is such a relation (all coefficient pairs equal) -/
example {V : Type} [CommRing V] : StepRel (fun a b : V => a = b) (fun e e' : V => e = e') :=
  ⟨fun h1 h2 => by rw [h1, h2], fun h1 h2 => by rw [h1, h2], fun h1 h2 => by rw [h1, h2], rfl⟩

end Exponax.AxisPerm
