import ExponaxModel.Proofs.RepeatedPhysicalWavenumber
import ExponaxModel.Proofs.RepeatedPhysicalNonlin
/-
C14 support, part 8 — the NYQUIST-FREE positive case.  `repeatedStepper_eq_loop` needs a Fourier step
that maps EVERY realisable spectrum to a realisable one; a linear step with an odd-order symbol
(advection, dispersion: `g(−k) = conj g(k)` but `g` not real at the Nyquist wavenumber) does not do so
on an even grid (`repeated_ne_loop_nyquist`).  Here:

  * `repeatedStepper_eq_loop_of_invariant` : it suffices that the step preserves `Realisable ∧ P` for
                                    an invariant `P` of the spectra that holds for the initial spectrum;
  * `NyqMode`, `NyqFree`          : stored modes with a Nyquist wavenumber component (even `N`, some
                                    `|k_d| = N/2`); spectra vanishing at all of them;
  * `wnFlat_conjIdx_of_not_nyq`   : off the Nyquist modes `conjIdx` stores exactly `−k`;
  * `hermOffNyq_of_wavenumber`    : EVERY `N`, every `g(−k) = conj g(k)`: the symbol `g ∘ k` is
                                    Hermitian on the self-conjugate columns OFF the Nyquist modes;
  * `diag_preserves_realisable_nyqFree`, `repeated_loop_wavenumber_nyqFree` : hence on Nyquist-free real
                                    states the repeated stepper IS the physical loop, every `n`;
  * `etd_step_preserves_nyqFree`, `repeated_loop_etd_nyqFree(_masked)` : the same for ETD-type steps
                                    whose nonlinear coefficient removes the Nyquist modes.
Everything for general `D ≥ 1`, `N ≥ 1` (for odd `N` there are no Nyquist modes and `NyqFree` is
vacuous: the odd-grid theorems are special cases).
-/
set_option linter.unusedVariables false
set_option linter.unusedSimpArgs false
namespace Exponax.C2R
open Exponax Exponax.Layout Exponax.Transform Exponax.DFT Exponax.Conserve Finset

/-! ### 1. the main theorem with an invariant -/

/-- a step that preserves `Realisable ∧ P` keeps both along its iterates -/
theorem iterate_preserves_invariant (D N : ℕ) (F : Array ℂ → Array ℂ) (P : Array ℂ → Prop)
    (hF : ∀ C, Realisable D N C → P C → Realisable D N (F C) ∧ P (F C)) (n : ℕ) (C : Array ℂ)
    (hC : Realisable D N C) (hP : P C) : Realisable D N (F^[n] C) ∧ P (F^[n] C) := by
  induction n with
  | zero => exact ⟨hC, hP⟩
  | succ n ih => rw [Function.iterate_succ_apply']; exact hF _ ih.1 ih.2

/-- the spectrum of the `n`-fold physical loop is the `n`-fold Fourier step of the spectrum, for a
    step that preserves `Realisable ∧ P`, started from a realisable spectrum with `P` -/
theorem rfftn_loop_of_invariant (D N : ℕ) (hD : 0 < D) (hN : 0 < N) (F : Array ℂ → Array ℂ)
    (P : Array ℂ → Prop)
    (hF : ∀ C, Realisable D N C → P C → Realisable D N (F C) ∧ P (F C)) (u : Array ℂ)
    (hu : Realisable D N (rfftnM D N u)) (hP : P (rfftnM D N u)) (n : ℕ) :
    rfftnM D N ((fun v => irfftnM D N (F (rfftnM D N v)))^[n] u) = F^[n] (rfftnM D N u) := by
  induction n with
  | zero => rfl
  | succ n ih =>
    rw [Function.iterate_succ_apply', Function.iterate_succ_apply']
    show rfftnM D N (irfftnM D N (F (rfftnM D N _))) = _
    rw [ih]
    have hn := iterate_preserves_invariant D N F P hF n _ hu hP
    exact rfftn_irfftn_of_realisable D N hD hN _ (hF _ hn.1 hn.2).1

/-- **invariant form of the main theorem, iterates**: `(irfftn ∘ F ∘ rfftn)^[n] u = irfftn (F^[n] (rfftn u))`
    for every `n`, every real `u` whose spectrum has `P`, every `F` preserving `Realisable ∧ P` -/
theorem repeated_eq_loop_all_of_invariant (D N : ℕ) (hD : 0 < D) (hN : 0 < N)
    (F : Array ℂ → Array ℂ) (P : Array ℂ → Prop)
    (hF : ∀ C, Realisable D N C → P C → Realisable D N (F C) ∧ P (F C)) (u : Array ℂ)
    (hu : RealState D N u) (hP : P (rfftnM D N u)) (n : ℕ) :
    (fun v => irfftnM D N (F (rfftnM D N v)))^[n] u = irfftnM D N (F^[n] (rfftnM D N u)) := by
  rcases Nat.eq_zero_or_pos n with rfl | hn
  · exact repeated_eq_loop_zero D N hD hN F u hu
  · obtain ⟨m, rfl⟩ : ∃ m, n = m + 1 := ⟨n - 1, by omega⟩
    rw [Function.iterate_succ_apply', Function.iterate_succ_apply']
    show irfftnM D N (F (rfftnM D N _)) = _
    rw [rfftn_loop_of_invariant D N hD hN F P hF u (rfftn_realisable D N hD hN u hu) hP m]

/-- **the same about the model functions**: `repeat(stepper, n)(u) = RepeatedStepper(stepper, n)(u)`
    whenever the Fourier step preserves `Realisable ∧ P` and the spectrum of the real state `u` has `P` -/
theorem repeatedStepper_eq_loop_of_invariant (D N : ℕ) (hD : 0 < D) (hN : 0 < N)
    (F : Array ℂ → Array ℂ) (P : Array ℂ → Prop)
    (hF : ∀ C, Realisable D N C → P C → Realisable D N (F C) ∧ P (F C)) (u : Array ℂ)
    (hu : RealState D N u) (hP : P (rfftnM D N u)) (n : ℕ) :
    Loops.repeatN (fun v => irfftnM D N (F (rfftnM D N v))) n u
      = irfftnM D N (Loops.repeatedStepFourier F n (rfftnM D N u)) := by
  rw [Loops.repeatedStepFourier, Loops.repeatN_eq_iterate, Loops.repeatN_eq_iterate]
  exact repeated_eq_loop_all_of_invariant D N hD hN F P hF u hu hP n

/-- the invariant holds for the spectrum of every intermediate state of the physical loop -/
theorem loop_spectrum_invariant (D N : ℕ) (hD : 0 < D) (hN : 0 < N) (F : Array ℂ → Array ℂ)
    (P : Array ℂ → Prop)
    (hF : ∀ C, Realisable D N C → P C → Realisable D N (F C) ∧ P (F C)) (u : Array ℂ)
    (hu : RealState D N u) (hP : P (rfftnM D N u)) (n : ℕ) :
    P (rfftnM D N ((fun v => irfftnM D N (F (rfftnM D N v)))^[n] u)) := by
  rw [rfftn_loop_of_invariant D N hD hN F P hF u (rfftn_realisable D N hD hN u hu) hP n]
  exact (iterate_preserves_invariant D N F P hF n _ (rfftn_realisable D N hD hN u hu) hP).2

/-- the theorem without invariant is the case `P = True` -/
theorem repeatedStepper_eq_loop_as_invariant (D N : ℕ) (hD : 0 < D) (hN : 0 < N)
    (F : Array ℂ → Array ℂ) (hF : ∀ C, Realisable D N C → Realisable D N (F C)) (u : Array ℂ)
    (hu : RealState D N u) (n : ℕ) :
    Loops.repeatN (fun v => irfftnM D N (F (rfftnM D N v))) n u
      = irfftnM D N (Loops.repeatedStepFourier F n (rfftnM D N u)) :=
  repeatedStepper_eq_loop_of_invariant D N hD hN F (fun _ => True)
    (fun C hC _ => ⟨hF C hC, trivial⟩) u hu trivial n

/-! ### 2. Nyquist modes, Nyquist-free spectra -/

/-- the stored mode `h` has a Nyquist wavenumber component: `N` even and `|k_d(h)| = N/2` for some axis -/
def NyqMode (D N h : ℕ) : Prop :=
  N % 2 = 0 ∧ ∃ d < D, ((wnFlat D N h).getD d 0).natAbs = N / 2

/-- a stored spectrum that vanishes at every stored mode with a Nyquist wavenumber component -/
def NyqFree (D N : ℕ) (C : Array ℂ) : Prop :=
  ∀ h < numModes D N, NyqMode D N h → C.getD h 0 = 0

/-- odd grids have no Nyquist modes -/
theorem odd_grid_not_nyqMode (D N h : ℕ) (hodd : N % 2 = 1) : ¬ NyqMode D N h := by
  rintro ⟨hev, _⟩; omega

/-- on odd grids every spectrum is Nyquist-free -/
theorem odd_grid_nyqFree (D N : ℕ) (hodd : N % 2 = 1) (C : Array ℂ) : NyqFree D N C :=
  fun h _ hq => absurd hq (odd_grid_not_nyqMode D N h hodd)

/-- on the self-conjugate columns `conjIdx` maps Nyquist modes to Nyquist modes and others to others -/
theorem nyqMode_conjIdx_iff (D N h : ℕ) (hD : 0 < D) (hN : 0 < N) (hh : h < numModes D N)
    (hw : herm_weight D N h = 1) : NyqMode D N (conjIdx D N h) ↔ NyqMode D N h := by
  constructor
  · rintro ⟨hev, d, hd, hab⟩
    exact ⟨hev, d, hd, by rw [← wnFlat_conjIdx_natAbs D N h d hD hN hh hw hd]; exact hab⟩
  · rintro ⟨hev, d, hd, hab⟩
    exact ⟨hev, d, hd, by rw [wnFlat_conjIdx_natAbs D N h d hD hN hh hw hd]; exact hab⟩

/-- **off the Nyquist modes, every `N`**: `conjIdx D N h` stores exactly the wavenumber vector `−k(h)` -/
theorem wnFlat_conjIdx_of_not_nyq (D N h : ℕ) (hD : 0 < D) (hN : 0 < N) (hh : h < numModes D N)
    (hw : herm_weight D N h = 1) (hq : ¬ NyqMode D N h) :
    wnFlat D N (conjIdx D N h) = (wnFlat D N h).map (fun k => -k) := by
  have key : ∀ d ∈ List.range D,
      wn D N (unflatten (wavenumberShape D N) (conjIdx D N h)) d
        = -(wn D N (unflatten (wavenumberShape D N) h) d) := by
    intro d hd
    have hd' : d < D := List.mem_range.mp hd
    rw [← wnFlat_getD D N _ d hd', ← wnFlat_getD D N h d hd']
    rcases wnFlat_conjIdx_getD D N h d hD hN hh hw hd' with h1 | ⟨hev, hab, _⟩
    · exact h1
    · exact absurd ⟨hev, d, hd', hab⟩ hq
  show wnVec D N _ = (wnVec D N _).map _
  unfold wnVec
  rw [List.map_map]
  exact List.map_congr_left key

/-- the condition on the symbol for Nyquist-free spectra: Hermitian on the self-conjugate columns
    OFF the Nyquist modes (nothing is asked at the Nyquist modes) -/
def HermOffNyq (D N : ℕ) (e : ℕ → ℂ) : Prop :=
  ∀ h < numModes D N, herm_weight D N h = 1 → ¬ NyqMode D N h →
    e (conjIdx D N h) = (starRingEnd ℂ) (e h)

/-- `HermSymbol` is the stronger condition -/
theorem hermOffNyq_of_hermSymbol (D N : ℕ) (e : ℕ → ℂ) (he : HermSymbol D N e) : HermOffNyq D N e :=
  fun h hh hw _ => he h hh hw

/-- on odd grids the two conditions coincide -/
theorem odd_grid_hermOffNyq_iff (D N : ℕ) (hodd : N % 2 = 1) (e : ℕ → ℂ) :
    HermOffNyq D N e ↔ HermSymbol D N e :=
  ⟨fun he h hh hw => he h hh hw (odd_grid_not_nyqMode D N h hodd), hermOffNyq_of_hermSymbol D N e⟩

/-- **every grid, any `D`**: a symbol `e_h = g(k(h))` with `g(−k) = conj g(k)` — every linear operator
    with real coefficients, ODD orders (advection, dispersion) included, and its exponential / ETDRK
    coefficients — is Hermitian on the self-conjugate columns off the Nyquist modes. -/
theorem hermOffNyq_of_wavenumber (D N : ℕ) (hD : 0 < D) (hN : 0 < N) (g : List ℤ → ℂ)
    (hg : ∀ k : List ℤ, g (k.map (fun x => -x)) = (starRingEnd ℂ) (g k)) :
    HermOffNyq D N (fun h => g (wnFlat D N h)) := by
  intro h hh hw hq
  show g (wnFlat D N (conjIdx D N h)) = _
  rw [wnFlat_conjIdx_of_not_nyq D N h hD hN hh hw hq, hg]

/-! ### 3. diagonal steps on Nyquist-free spectra -/

/-- the core: a diagonal step with a symbol Hermitian off the Nyquist modes, applied to a realisable
    spectrum such that the PRODUCT vanishes at the Nyquist modes, gives a realisable Nyquist-free
    spectrum -/
theorem diag_realisable_nyqFree_of_product (D N : ℕ) (hD : 0 < D) (hN : 0 < N) (e : ℕ → ℂ)
    (he : HermOffNyq D N e) (C : Array ℂ) (hC : Realisable D N C)
    (hz : ∀ h < numModes D N, NyqMode D N h → e h * C.getD h 0 = 0) :
    Realisable D N (diagStep D N e C) ∧ NyqFree D N (diagStep D N e C) := by
  refine ⟨⟨tab_size _ _, ?_⟩, ?_⟩
  · intro h hh hw
    have hσ := conjIdx_lt D N h hD hN
    rw [diagStep_getD D N e C h hh, diagStep_getD D N e C _ hσ]
    by_cases hq : NyqMode D N h
    · rw [hz h hh hq, hz _ hσ ((nyqMode_conjIdx_iff D N h hD hN hh hw).mpr hq), map_zero]
    · rw [map_mul, he h hh hw hq, Complex.conj_conj, ← hC.2 h hh hw]
  · intro h hh hq
    rw [diagStep_getD D N e C h hh]
    exact hz h hh hq

/-- **a diagonal step with a symbol Hermitian off the Nyquist modes preserves
    `Realisable ∧ NyqFree`** -/
theorem diag_preserves_realisable_nyqFree (D N : ℕ) (hD : 0 < D) (hN : 0 < N) (e : ℕ → ℂ)
    (he : HermOffNyq D N e) (C : Array ℂ) (hC : Realisable D N C) (hP : NyqFree D N C) :
    Realisable D N (diagStep D N e C) ∧ NyqFree D N (diagStep D N e C) :=
  diag_realisable_nyqFree_of_product D N hD hN e he C hC
    (fun h hh hq => by rw [hP h hh hq, mul_zero])

/-- **loop = sub-stepping for diagonal steps on Nyquist-free real states** -/
theorem repeated_loop_diag_nyqFree (D N : ℕ) (hD : 0 < D) (hN : 0 < N) (e : ℕ → ℂ)
    (he : HermOffNyq D N e) (u : Array ℂ) (hu : RealState D N u)
    (hP : NyqFree D N (rfftnM D N u)) (n : ℕ) :
    Loops.repeatN (fun v => irfftnM D N (diagStep D N e (rfftnM D N v))) n u
      = irfftnM D N (Loops.repeatedStepFourier (diagStep D N e) n (rfftnM D N u)) :=
  repeatedStepper_eq_loop_of_invariant D N hD hN (diagStep D N e) (NyqFree D N)
    (fun C hC hPC => diag_preserves_realisable_nyqFree D N hD hN e he C hC hPC) u hu hP n

/-- **THE NYQUIST-FREE CASE, every grid.**  For a linear step with a symbol `g(k)`, `g(−k) = conj g(k)`
    (odd-order symbols included), ANY `N` (even included) and every real grid state whose spectrum
    vanishes at the Nyquist modes, the repeated stepper equals the physical-space loop, every `n`. -/
theorem repeated_loop_wavenumber_nyqFree (D N : ℕ) (hD : 0 < D) (hN : 0 < N)
    (g : List ℤ → ℂ) (hg : ∀ k : List ℤ, g (k.map (fun x => -x)) = (starRingEnd ℂ) (g k))
    (u : Array ℂ) (hu : RealState D N u) (hP : NyqFree D N (rfftnM D N u)) (n : ℕ) :
    Loops.repeatN (fun v => irfftnM D N (diagStep D N (fun h => g (wnFlat D N h)) (rfftnM D N v))) n u
      = irfftnM D N (Loops.repeatedStepFourier (diagStep D N (fun h => g (wnFlat D N h))) n
          (rfftnM D N u)) :=
  repeated_loop_diag_nyqFree D N hD hN _ (hermOffNyq_of_wavenumber D N hD hN g hg) u hu hP n

/-- every intermediate state of that loop is again Nyquist-free -/
theorem loop_wavenumber_stays_nyqFree (D N : ℕ) (hD : 0 < D) (hN : 0 < N)
    (g : List ℤ → ℂ) (hg : ∀ k : List ℤ, g (k.map (fun x => -x)) = (starRingEnd ℂ) (g k))
    (u : Array ℂ) (hu : RealState D N u) (hP : NyqFree D N (rfftnM D N u)) (n : ℕ) :
    NyqFree D N (rfftnM D N
      ((fun v => irfftnM D N (diagStep D N (fun h => g (wnFlat D N h)) (rfftnM D N v)))^[n] u)) :=
  loop_spectrum_invariant D N hD hN _ (NyqFree D N)
    (fun C hC hPC => diag_preserves_realisable_nyqFree D N hD hN _
      (hermOffNyq_of_wavenumber D N hD hN g hg) C hC hPC) u hu hP n

/-- the odd-grid theorem `odd_grid_repeated_loop_wavenumber` is the special case without Nyquist modes -/
theorem odd_grid_repeated_loop_wavenumber' (D N : ℕ) (hD : 0 < D) (hodd : N % 2 = 1)
    (g : List ℤ → ℂ) (hg : ∀ k : List ℤ, g (k.map (fun x => -x)) = (starRingEnd ℂ) (g k))
    (u : Array ℂ) (hu : RealState D N u) (n : ℕ) :
    Loops.repeatN (fun v => irfftnM D N (diagStep D N (fun h => g (wnFlat D N h)) (rfftnM D N v))) n u
      = irfftnM D N (Loops.repeatedStepFourier (diagStep D N (fun h => g (wnFlat D N h))) n
          (rfftnM D N u)) :=
  repeated_loop_wavenumber_nyqFree D N hD (by omega) g hg u hu (odd_grid_nyqFree D N hodd _) n

/-! ### 4. ETD-type steps whose nonlinear part keeps the Nyquist modes empty -/

theorem nyqFree_add (D N : ℕ) (A B : Array ℂ) (hA : NyqFree D N A) (hB : NyqFree D N B) :
    NyqFree D N (addSpec D N A B) := by
  intro h hh hq
  unfold addSpec
  rw [tab_getD _ _ _ _ hh, hA h hh hq, hB h hh hq, add_zero]

/-- **ETD-Euler-type steps preserve `Realisable ∧ NyqFree`**:
    `F C = e ⊙ C + c ⊙ rfftn (𝒩 (irfftn C))`, `e`, `c` Hermitian off the Nyquist modes, `𝒩` real on real
    states, and the nonlinear contribution `c ⊙ rfftn (𝒩 (irfftn C))` empty at the Nyquist modes for
    Nyquist-free realisable `C`. -/
theorem etd_step_preserves_nyqFree (D N : ℕ) (hD : 0 < D) (hN : 0 < N) (e c : ℕ → ℂ)
    (he : HermOffNyq D N e) (hc : HermOffNyq D N c) (𝒩 : Array ℂ → Array ℂ)
    (h𝒩 : ∀ v, RealState D N v → ∀ j < N ^ D, ((𝒩 v).getD j 0).im = 0)
    (hnl : ∀ C, Realisable D N C → NyqFree D N C → ∀ h < numModes D N, NyqMode D N h →
      c h * (rfftnM D N (𝒩 (irfftnM D N C))).getD h 0 = 0)
    (C : Array ℂ) (hC : Realisable D N C) (hP : NyqFree D N C) :
    Realisable D N (addSpec D N (diagStep D N e C)
        (diagStep D N c (rfftnM D N (𝒩 (irfftnM D N C))))) ∧
      NyqFree D N (addSpec D N (diagStep D N e C)
        (diagStep D N c (rfftnM D N (𝒩 (irfftnM D N C))))) := by
  have h1 := diag_preserves_realisable_nyqFree D N hD hN e he C hC hP
  have h2 := diag_realisable_nyqFree_of_product D N hD hN c hc _
    (nonlin_spectrum_realisable D N hD hN 𝒩 h𝒩 C) (hnl C hC hP)
  exact ⟨realisable_add D N hD hN _ _ h1.1 h2.1, nyqFree_add D N _ _ h1.2 h2.2⟩

/-- **loop = sub-stepping for ETD-Euler-type steps on Nyquist-free real states** (general form: the
    nonlinear contribution is empty at the Nyquist modes) -/
theorem repeated_loop_etd_nyqFree (D N : ℕ) (hD : 0 < D) (hN : 0 < N) (e c : ℕ → ℂ)
    (he : HermOffNyq D N e) (hc : HermOffNyq D N c) (𝒩 : Array ℂ → Array ℂ)
    (h𝒩 : ∀ v, RealState D N v → ∀ j < N ^ D, ((𝒩 v).getD j 0).im = 0)
    (hnl : ∀ C, Realisable D N C → NyqFree D N C → ∀ h < numModes D N, NyqMode D N h →
      c h * (rfftnM D N (𝒩 (irfftnM D N C))).getD h 0 = 0)
    (u : Array ℂ) (hu : RealState D N u) (hP : NyqFree D N (rfftnM D N u)) (n : ℕ) :
    Loops.repeatN (fun v => irfftnM D N ((fun C => addSpec D N (diagStep D N e C)
        (diagStep D N c (rfftnM D N (𝒩 (irfftnM D N C))))) (rfftnM D N v))) n u
      = irfftnM D N (Loops.repeatedStepFourier (fun C => addSpec D N (diagStep D N e C)
        (diagStep D N c (rfftnM D N (𝒩 (irfftnM D N C))))) n (rfftnM D N u)) :=
  repeatedStepper_eq_loop_of_invariant D N hD hN _ (NyqFree D N)
    (fun C hC hPC => etd_step_preserves_nyqFree D N hD hN e c he hc 𝒩 h𝒩 hnl C hC hPC) u hu hP n

open Classical in
/-- a symbol with the Nyquist modes masked out (what a dealiasing mask with cut-off below `N/2` does) -/
noncomputable def maskNyq (D N : ℕ) (c : ℕ → ℂ) : ℕ → ℂ :=
  fun h => if NyqMode D N h then 0 else c h

theorem maskNyq_of_nyq (D N : ℕ) (c : ℕ → ℂ) (h : ℕ) (hq : NyqMode D N h) : maskNyq D N c h = 0 := by
  unfold maskNyq; rw [if_pos hq]

theorem maskNyq_of_not_nyq (D N : ℕ) (c : ℕ → ℂ) (h : ℕ) (hq : ¬ NyqMode D N h) :
    maskNyq D N c h = c h := by
  unfold maskNyq; rw [if_neg hq]

/-- masking keeps the symbol Hermitian off the Nyquist modes -/
theorem hermOffNyq_maskNyq (D N : ℕ) (hD : 0 < D) (hN : 0 < N) (c : ℕ → ℂ) (hc : HermOffNyq D N c) :
    HermOffNyq D N (maskNyq D N c) := by
  intro h hh hw hq
  rw [maskNyq_of_not_nyq D N c h hq,
    maskNyq_of_not_nyq D N c _ (fun hq' => hq ((nyqMode_conjIdx_iff D N h hD hN hh hw).mp hq'))]
  exact hc h hh hw hq

/-- **loop = sub-stepping for ETD-Euler-type steps with a wavenumber symbol and a Nyquist-removing
    nonlinear coefficient**: `F C = g_e(k) ⊙ C + mask ⊙ g_c(k) ⊙ rfftn (𝒩 (irfftn C))`, with
    `g_e(−k) = conj g_e(k)`, `g_c(−k) = conj g_c(k)` (odd orders included), `𝒩` real on real states,
    any `N`, on Nyquist-free real states, every `n`. -/
theorem repeated_loop_etd_nyqFree_masked (D N : ℕ) (hD : 0 < D) (hN : 0 < N) (ge gc : List ℤ → ℂ)
    (hge : ∀ k : List ℤ, ge (k.map (fun x => -x)) = (starRingEnd ℂ) (ge k))
    (hgc : ∀ k : List ℤ, gc (k.map (fun x => -x)) = (starRingEnd ℂ) (gc k))
    (𝒩 : Array ℂ → Array ℂ)
    (h𝒩 : ∀ v, RealState D N v → ∀ j < N ^ D, ((𝒩 v).getD j 0).im = 0)
    (u : Array ℂ) (hu : RealState D N u) (hP : NyqFree D N (rfftnM D N u)) (n : ℕ) :
    Loops.repeatN (fun v => irfftnM D N ((fun C =>
        addSpec D N (diagStep D N (fun h => ge (wnFlat D N h)) C)
          (diagStep D N (maskNyq D N (fun h => gc (wnFlat D N h)))
            (rfftnM D N (𝒩 (irfftnM D N C))))) (rfftnM D N v))) n u
      = irfftnM D N (Loops.repeatedStepFourier (fun C =>
        addSpec D N (diagStep D N (fun h => ge (wnFlat D N h)) C)
          (diagStep D N (maskNyq D N (fun h => gc (wnFlat D N h)))
            (rfftnM D N (𝒩 (irfftnM D N C))))) n (rfftnM D N u)) :=
  repeated_loop_etd_nyqFree D N hD hN _ _ (hermOffNyq_of_wavenumber D N hD hN ge hge)
    (hermOffNyq_maskNyq D N hD hN _ (hermOffNyq_of_wavenumber D N hD hN gc hgc)) 𝒩 h𝒩
    (fun C _ _ h hh hq => by rw [maskNyq_of_nyq D N _ h hq, zero_mul]) u hu hP n

/-! ### 5. non-vacuity: an even grid, an odd-order symbol, a concrete Nyquist-free real state -/

/-- the first-derivative symbol `g(k) = i k_0` satisfies `g(−k) = conj g(k)` -/
theorem deriv_symbol_herm : ∀ k : List ℤ,
    (fun k : List ℤ => Complex.I * ((k.getD 0 0 : ℤ) : ℂ)) (k.map (fun x => -x))
      = (starRingEnd ℂ) ((fun k : List ℤ => Complex.I * ((k.getD 0 0 : ℤ) : ℂ)) k) := by
  intro k
  have hk : (k.map (fun x => -x)).getD 0 0 = -(k.getD 0 0) := by
    cases k <;> simp
  have hz : ∀ z : ℤ, (starRingEnd ℂ) (z : ℂ) = (z : ℂ) := fun z => Complex.conj_eq_iff_re.mpr rfl
  simp only [hk, map_mul, Complex.conj_I, hz, Int.cast_neg]
  ring

/-- the cosine `(1, 0, −1, 0)` on the 4-point grid is a real grid state … -/
theorem realState_cos4 : RealState 1 4 #[(1 : ℂ), 0, -1, 0] := by
  refine ⟨rfl, ?_⟩
  intro j hj
  have : j = 0 ∨ j = 1 ∨ j = 2 ∨ j = 3 := by omega
  rcases this with rfl | rfl | rfl | rfl <;> simp

/-- on the 4-point grid the only Nyquist mode is the stored index `2` -/
theorem nyqMode_1_4 (h : ℕ) (hh : h < numModes 1 4) : NyqMode 1 4 h ↔ h = 2 := by
  have hh' : h < 3 := by rw [numModes_one] at hh; omega
  have hk : (wnFlat 1 4 h).getD 0 0 = ((h : ℕ) : ℤ) := by
    rw [wnFlat_getD_last 0 4 h hh, Nat.mod_eq_of_lt (by omega)]
  constructor
  · rintro ⟨_, d, hd, hab⟩
    have hd0 : d = 0 := by omega
    rw [hd0, hk, Int.natAbs_natCast] at hab
    omega
  · rintro rfl
    exact ⟨rfl, 0, by norm_num, by rw [hk]; rfl⟩

/-- … whose Nyquist coefficient vanishes … -/
theorem rfft_cos4_nyquist : (rfftnM 1 4 #[(1 : ℂ), 0, -1, 0]).getD 2 0 = 0 := by
  rw [rfft1_getD 4 (by norm_num) _ 2 (by norm_num), dft, Finset.sum_range_succ, Finset.sum_range_succ,
    Finset.sum_range_succ, Finset.sum_range_one]
  have h4n : zeta 4 ^ (4 : ℕ) = 1 := zeta_pow_self 4
  simp
  rw [h4n]; ring

/-- … so it is Nyquist-free … -/
theorem nyqFree_cos4 : NyqFree 1 4 (rfftnM 1 4 #[(1 : ℂ), 0, -1, 0]) := by
  intro h hh hq
  rw [(nyqMode_1_4 h hh).mp hq]
  exact rfft_cos4_nyquist

/-- … but not trivially: its spectrum is not zero (`û_1 = 2`) -/
theorem rfft_cos4_one : (rfftnM 1 4 #[(1 : ℂ), 0, -1, 0]).getD 1 0 = 2 := by
  rw [rfft1_getD 4 (by norm_num) _ 1 (by norm_num), dft, Finset.sum_range_succ, Finset.sum_range_succ,
    Finset.sum_range_succ, Finset.sum_range_one]
  have h2n : zeta 4 ^ (2 : ℕ) = -1 := by
    have hp := zeta_isPrimitiveRoot 4 (by norm_num)
    have hsq : (zeta 4 ^ 2) ^ 2 = 1 := by rw [← pow_mul]; exact hp.pow_eq_one
    have hne : zeta 4 ^ 2 ≠ 1 := hp.pow_ne_one_of_pos_of_lt (by norm_num) (by norm_num)
    rcases sq_eq_one_iff.mp hsq with h | h
    · exact absurd h hne
    · exact h
  simp
  rw [h2n]; ring

end Exponax.C2R
