import ExponaxModel.Proofs.SymmetryND
import ExponaxModel.Proofs.LerayAlgebra
/-
C08 in general dimension — Q1: the pseudo-spectral PIPELINE commutes with the n-D roll.

Every `D`, every `N ≥ 1`, any shift vector `s : List ℤ`, ARBITRARY complex stored spectra.

* `nifft_shiftSpecND`   : `nifft c (phase ⊙ û) = rollND (nifft c û) s`   (mask, then c2r)
* `nfft_rollND(_array)` : `nfft c (rollND v s) = phase ⊙ nfft c v`       (r2c, then mask)
* `rollND_tab`, `rollND_map`, `rollND_map₂`, `rollND_map₃`, `rollND_mapN` : pointwise maps
* `sum_rollIdx`, `sumRange_rollND` : the grid sum (mean) is roll-invariant
* per-mode multipliers (`deriv`, `laplace`, `invLapOne`, `invLapZero`, `mask`, Leray's matrix) commute
  with the phase: `shiftSpecND_mul_diag` (SymmetryND), `specShift_mul`, `leray_mcShift`.

The equivariance statements of the model terms (files `EquivarianceNDTerms*.lean`) are phrased
with four RELATIONS (only used to state things; each is characterised by the concrete operation):

  `SpecShift c s a a'`  : `a'_h = phase_s(h) · a_h` on the stored modes   (holds for `shiftSpecND`)
  `FieldRoll c s v v'`  : `v'_j = v_{rollIdx j}` on the grid               (holds for `rollND`)
  `MCShift`, `MCRoll`   : the same for every channel of a multi-channel array.
-/
set_option linter.unusedVariables false
namespace Exponax.EquivND
open Exponax Exponax.Layout Exponax.Transform Exponax.Nonlin Exponax.Alias Exponax.Symmetry
open Exponax.SymmetryND Finset

/-! ## the relations -/

/-- `a'` is `a` with every stored mode multiplied by its shift phase -/
def SpecShift (c : Cfg ℂ) (s : List ℤ) (a a' : Array ℂ) : Prop :=
  ∀ h, h < modes c → a'.getD h 0 = shiftPhaseND c.D c.N s h * a.getD h 0

/-- `v'` is `v` rolled by `s` (entrywise on the grid) -/
def FieldRoll (c : Cfg ℂ) (s : List ℤ) (v v' : Array ℂ) : Prop :=
  ∀ j, j < gridSize c → v'.getD j 0 = v.getD (rollIdx c.D c.N s j) 0

/-- every channel of `uh'` is the phase-shifted channel of `uh` -/
def MCShift (c : Cfg ℂ) (s : List ℤ) (uh uh' : MC ℂ) : Prop :=
  ∀ ch h, h < modes c → at2 uh' ch h = shiftPhaseND c.D c.N s h * at2 uh ch h

/-- every channel of `u'` is the rolled channel of `u` -/
def MCRoll (c : Cfg ℂ) (s : List ℤ) (u u' : MC ℂ) : Prop :=
  ∀ ch j, j < gridSize c → at2 u' ch j = at2 u ch (rollIdx c.D c.N s j)

/-- the multi-channel spectrum with every channel phase-shifted (any channel count) -/
noncomputable def shiftMC (D N : ℕ) (s : List ℤ) (uh : MC ℂ) : MC ℂ := uh.map (shiftSpecND D N s)

/-- the multi-channel field with every channel rolled (any channel count) -/
def rollMC (D N : ℕ) (s : List ℤ) (u : MC ℂ) : MC ℂ := u.map (fun v => rollND D N v s)

theorem modes_eq (c : Cfg ℂ) : modes c = numModes c.D c.N := rfl
theorem gridSize_eq (c : Cfg ℂ) : gridSize c = c.N ^ c.D := rfl

theorem at2_getD (uh : MC ℂ) (ch h : ℕ) : (uh.getD ch #[]).getD h 0 = at2 uh ch h := rfl

/-! ### the relations hold for the concrete operations -/

theorem specShift_shiftSpecND (c : Cfg ℂ) (s : List ℤ) (a : Array ℂ) :
    SpecShift c s a (shiftSpecND c.D c.N s a) := by
  intro h hh
  rw [shiftSpecND, Nonlin.tab_getD _ _ _ _ (show h < numModes c.D c.N from hh)]

theorem fieldRoll_rollND (c : Cfg ℂ) (s : List ℤ) (v : Array ℂ) :
    FieldRoll c s v (rollND c.D c.N v s) :=
  fun j hj => rollND_getD _ _ _ _ j hj

theorem at2_map (f : Array ℂ → Array ℂ) (u : MC ℂ) (ch i : ℕ) :
    at2 (u.map f) ch i = if ch < u.size then (f (u.getD ch #[])).getD i 0 else 0 := by
  unfold at2
  split_ifs with h
  · simp [Array.getD, h]
  · simp [Array.getD, h]

theorem at2_of_size_le (u : MC ℂ) (ch i : ℕ) (h : u.size ≤ ch) : at2 u ch i = 0 := by
  unfold at2
  have : ¬ ch < u.size := by omega
  simp [Array.getD, this]

theorem mcShift_shiftMC (c : Cfg ℂ) (s : List ℤ) (uh : MC ℂ) :
    MCShift c s uh (shiftMC c.D c.N s uh) := by
  intro ch h hh
  rw [shiftMC, at2_map]
  by_cases hc : ch < uh.size
  · rw [if_pos hc]
    exact specShift_shiftSpecND c s _ h hh
  · rw [if_neg hc, at2_of_size_le uh ch h (by omega), mul_zero]

/-- `rollIdx` stays on the grid (no positivity hypothesis needed) -/
theorem rollIdx_lt' (D N : ℕ) (s : List ℤ) (j : ℕ) (hj : j < N ^ D) : rollIdx D N s j < N ^ D := by
  rcases Nat.eq_zero_or_pos N with h0 | hN
  · subst h0
    rcases Nat.eq_zero_or_pos D with hD | hD
    · subst hD
      simp [rollIdx, digitMap, ofDigits]
    · rw [zero_pow (by omega)] at hj
      omega
  · exact rollIdx_lt D N hN s j

theorem rollIdx_lt_grid (c : Cfg ℂ) (s : List ℤ) (j : ℕ) (hj : j < gridSize c) :
    rollIdx c.D c.N s j < gridSize c := rollIdx_lt' c.D c.N s j hj

theorem mcRoll_rollMC (c : Cfg ℂ) (s : List ℤ) (u : MC ℂ) :
    MCRoll c s u (rollMC c.D c.N s u) := by
  intro ch j hj
  rw [rollMC, at2_map]
  by_cases hc : ch < u.size
  · rw [if_pos hc]
    exact fieldRoll_rollND c s _ j hj
  · rw [if_neg hc, at2_of_size_le u ch _ (by omega)]

theorem mcShift_specShift {c : Cfg ℂ} {s : List ℤ} {uh uh' : MC ℂ} (h : MCShift c s uh uh') (ch : ℕ) :
    SpecShift c s (uh.getD ch #[]) (uh'.getD ch #[]) :=
  fun m hm => h ch m hm

theorem mcRoll_fieldRoll {c : Cfg ℂ} {s : List ℤ} {u u' : MC ℂ} (h : MCRoll c s u u') (ch : ℕ) :
    FieldRoll c s (u.getD ch #[]) (u'.getD ch #[]) :=
  fun j hj => h ch j hj

/-! ### tabulated arrays -/

theorem specShift_tab (c : Cfg ℂ) (s : List ℤ) (f f' : ℕ → ℂ)
    (h : ∀ m, m < modes c → f' m = shiftPhaseND c.D c.N s m * f m) :
    SpecShift c s (tab (modes c) f) (tab (modes c) f') := by
  intro m hm
  rw [Nonlin.tab_getD _ _ _ _ hm, Nonlin.tab_getD _ _ _ _ hm, h m hm]

theorem fieldRoll_tab (c : Cfg ℂ) (s : List ℤ) (f f' : ℕ → ℂ)
    (h : ∀ j, j < gridSize c → f' j = f (rollIdx c.D c.N s j)) :
    FieldRoll c s (tab (gridSize c) f) (tab (gridSize c) f') := by
  intro j hj
  rw [Nonlin.tab_getD _ _ _ _ hj, Nonlin.tab_getD _ _ _ _ (rollIdx_lt_grid c s j hj), h j hj]

theorem mcShift_tab2 (c : Cfg ℂ) (s : List ℤ) (C : ℕ) (f f' : ℕ → ℕ → ℂ)
    (h : ∀ ch, ch < C → ∀ m, m < modes c → f' ch m = shiftPhaseND c.D c.N s m * f ch m) :
    MCShift c s (tab2 C (modes c) f) (tab2 C (modes c) f') := by
  intro ch m hm
  rw [at2_tab2_any, at2_tab2_any]
  split_ifs with hc
  · exact h ch hc.1 m hc.2
  · rw [mul_zero]

theorem mcShift_tabC (c : Cfg ℂ) (s : List ℤ) (C : ℕ) (F F' : ℕ → Array ℂ)
    (h : ∀ ch, ch < C → SpecShift c s (F ch) (F' ch)) :
    MCShift c s (tabC C F) (tabC C F') := by
  intro ch m hm
  rw [at2_tabC_any, at2_tabC_any]
  split_ifs with hc
  · exact h ch hc m hm
  · rw [mul_zero]

theorem mcRoll_tabC (c : Cfg ℂ) (s : List ℤ) (C : ℕ) (F F' : ℕ → Array ℂ)
    (h : ∀ ch, ch < C → FieldRoll c s (F ch) (F' ch)) :
    MCRoll c s (tabC C F) (tabC C F') := by
  intro ch j hj
  rw [at2_tabC_any, at2_tabC_any]
  split_ifs with hc
  · exact h ch hc j hj
  · rfl

theorem mcRoll_tab2 (c : Cfg ℂ) (s : List ℤ) (C : ℕ) (f f' : ℕ → ℕ → ℂ)
    (h : ∀ ch, ch < C → ∀ j, j < gridSize c → f' ch j = f ch (rollIdx c.D c.N s j)) :
    MCRoll c s (tab2 C (gridSize c) f) (tab2 C (gridSize c) f') := by
  intro ch j hj
  have hr := rollIdx_lt_grid c s j hj
  rw [at2_tab2_any, at2_tab2_any]
  by_cases hc : ch < C
  · rw [if_pos ⟨hc, hj⟩, if_pos ⟨hc, hr⟩, h ch hc j hj]
  · rw [if_neg (fun h => hc h.1), if_neg (fun h => hc h.1)]

/-- a per-mode multiplier commutes with the phase (relation form of `shiftSpecND_mul_diag`) -/
theorem specShift_mul (c : Cfg ℂ) (s : List ℤ) (m : ℕ → ℂ) (a a' : Array ℂ) (h : SpecShift c s a a') :
    SpecShift c s (tab (modes c) fun k => m k * a.getD k 0) (tab (modes c) fun k => m k * a'.getD k 0) :=
  specShift_tab c s _ _ (fun k hk => by rw [h k hk]; ring)

/-! ## Q1 — congruence of the transforms -/

theorem sumRange_congr (n : ℕ) (f g : ℕ → ℂ) (h : ∀ i, i < n → f i = g i) :
    sumRange n f = sumRange n g := by
  rw [DFT.sumRange_eq, DFT.sumRange_eq]
  exact Finset.sum_congr rfl (fun i hi => h i (Finset.mem_range.mp hi))

/-- the r2c transform only reads the `N^D` grid entries -/
theorem rfftnM_congr (D N : ℕ) (u v : Array ℂ) (h : ∀ j, j < N ^ D → u.getD j 0 = v.getD j 0) :
    rfftnM D N u = rfftnM D N v := by
  unfold rfftnM
  simp only []
  apply Nonlin.tab_congr
  intro m hm
  apply sumRange_congr
  intro j hj
  rw [h j hj]

/-- `nifft` only reads the stored modes -/
theorem nifft_congr (c : Cfg ℂ) (a b : Array ℂ) (h : ∀ m, m < modes c → a.getD m 0 = b.getD m 0) :
    nifft c a = nifft c b := by
  unfold nifft
  congr 1
  apply Nonlin.tab_congr
  intro m hm
  rw [h m hm]

/-- `nfft` only reads the grid entries -/
theorem nfft_congr (c : Cfg ℂ) (u v : Array ℂ) (h : ∀ j, j < gridSize c → u.getD j 0 = v.getD j 0) :
    nfft c u = nfft c v := by
  unfold nfft
  simp only []
  rw [rfftnM_congr c.D c.N u v h]

/-! ## Q1 — mask then c2r; r2c then mask -/

/-- relation form: if `a'` is the phase-shifted `a`, then `nifft c a'` IS the rolled `nifft c a` -/
theorem nifft_eq_rollND (c : Cfg ℂ) (hN : 0 < c.N) (s : List ℤ) (a a' : Array ℂ)
    (h : SpecShift c s a a') : nifft c a' = rollND c.D c.N (nifft c a) s := by
  unfold nifft
  rw [← irfftn_shiftSpecND c.D c.N hN]
  congr 1
  unfold shiftSpecND
  apply Nonlin.tab_congr
  intro m hm
  rw [Nonlin.tab_getD _ _ _ _ hm, h m hm]
  ring

theorem nifft_fieldRoll (c : Cfg ℂ) (hN : 0 < c.N) (s : List ℤ) (a a' : Array ℂ)
    (h : SpecShift c s a a') : FieldRoll c s (nifft c a) (nifft c a') := by
  rw [nifft_eq_rollND c hN s a a' h]
  exact fieldRoll_rollND c s _

/-- **Q1 (mask, then c2r).**  The masked inverse transform of the phase-shifted spectrum is the
    rolled field: any stored spectrum `û` (Hermitian or not), any dealiasing fraction, every `D`,
    every `N ≥ 1`, every shift vector. -/
theorem nifft_shiftSpecND (c : Cfg ℂ) (hN : 0 < c.N) (s : List ℤ) (uh : Array ℂ) :
    nifft c (shiftSpecND c.D c.N s uh) = rollND c.D c.N (nifft c uh) s :=
  nifft_eq_rollND c hN s _ _ (specShift_shiftSpecND c s uh)

/-- **Q1 (r2c, then mask), entrywise.**  The masked transform of a rolled field carries the shift
    phases; any (real or complex) field. -/
theorem nfft_rollND (c : Cfg ℂ) (hN : 0 < c.N) (s : List ℤ) (v : Array ℂ) (h : ℕ) (hh : h < modes c) :
    (nfft c (rollND c.D c.N v s)).getD h 0 = shiftPhaseND c.D c.N s h * (nfft c v).getD h 0 := by
  rw [nfft_getD c _ h hh, nfft_getD c _ h hh, rfftn_rollND c.D c.N hN v s h hh, shiftPhaseND]
  ring

theorem nfft_size (c : Cfg ℂ) (v : Array ℂ) : (nfft c v).size = numModes c.D c.N := by
  unfold nfft
  simp [modes]

theorem nifft_size (c : Cfg ℂ) (a : Array ℂ) : (nifft c a).size = c.N ^ c.D := by
  unfold nifft
  simp

/-- **Q1 (r2c, then mask), array form.** -/
theorem nfft_rollND_array (c : Cfg ℂ) (hN : 0 < c.N) (s : List ℤ) (v : Array ℂ) :
    nfft c (rollND c.D c.N v s) = shiftSpecND c.D c.N s (nfft c v) := by
  apply array_ext_getD _ _ (numModes c.D c.N) (nfft_size c _) (by simp)
  intro h hh
  rw [nfft_rollND c hN s v h hh, shiftSpecND, Nonlin.tab_getD _ _ _ _ hh]

/-- relation form: the masked transform of a rolled field is the phase-shifted masked transform -/
theorem nfft_specShift (c : Cfg ℂ) (hN : 0 < c.N) (s : List ℤ) (v v' : Array ℂ)
    (h : FieldRoll c s v v') : SpecShift c s (nfft c v) (nfft c v') := by
  have e : nfft c v' = nfft c (rollND c.D c.N v s) :=
    nfft_congr c _ _ (fun j hj => by rw [h j hj, rollND_getD _ _ _ _ j hj])
  intro m hm
  rw [e, nfft_rollND c hN s v m hm]

/-! ## Q1 — pointwise maps commute with the n-D roll -/

/-- the roll of a tabulated field: re-index the tabulated function -/
theorem rollND_tab (D N : ℕ) (s : List ℤ) (f : ℕ → ℂ) :
    rollND D N (tab (N ^ D) f) s = tab (N ^ D) (fun j => f (rollIdx D N s j)) := by
  unfold rollND
  apply Nonlin.tab_congr
  intro j hj
  rw [Nonlin.tab_getD _ _ _ _ (rollIdx_lt' D N s j hj)]

/-- a unary pointwise map commutes with `rollND` -/
theorem rollND_map (D N : ℕ) (g : ℂ → ℂ) (u : Array ℂ) (s : List ℤ) :
    rollND D N (tab (N ^ D) fun j => g (u.getD j 0)) s
      = tab (N ^ D) fun j => g ((rollND D N u s).getD j 0) := by
  rw [rollND_tab]
  apply Nonlin.tab_congr
  intro j hj
  rw [rollND_getD _ _ _ _ j hj]

/-- a binary pointwise map commutes with `rollND` -/
theorem rollND_map₂ (D N : ℕ) (g : ℂ → ℂ → ℂ) (u v : Array ℂ) (s : List ℤ) :
    rollND D N (tab (N ^ D) fun j => g (u.getD j 0) (v.getD j 0)) s
      = tab (N ^ D) fun j => g ((rollND D N u s).getD j 0) ((rollND D N v s).getD j 0) := by
  rw [rollND_tab]
  apply Nonlin.tab_congr
  intro j hj
  rw [rollND_getD _ _ _ _ j hj, rollND_getD _ _ _ _ j hj]

/-- a pointwise product commutes with `rollND` -/
theorem rollND_mul (D N : ℕ) (u v : Array ℂ) (s : List ℤ) :
    rollND D N (tab (N ^ D) fun j => u.getD j 0 * v.getD j 0) s
      = tab (N ^ D) fun j => (rollND D N u s).getD j 0 * (rollND D N v s).getD j 0 :=
  rollND_map₂ D N (fun x y => x * y) u v s

/-- a ternary pointwise map commutes with `rollND` -/
theorem rollND_map₃ (D N : ℕ) (g : ℂ → ℂ → ℂ → ℂ) (u v w : Array ℂ) (s : List ℤ) :
    rollND D N (tab (N ^ D) fun j => g (u.getD j 0) (v.getD j 0) (w.getD j 0)) s
      = tab (N ^ D) fun j => g ((rollND D N u s).getD j 0) ((rollND D N v s).getD j 0)
          ((rollND D N w s).getD j 0) := by
  rw [rollND_tab]
  apply Nonlin.tab_congr
  intro j hj
  rw [rollND_getD _ _ _ _ j hj, rollND_getD _ _ _ _ j hj, rollND_getD _ _ _ _ j hj]

/-- an `n`-ary pointwise map (any index type `ι` of fields, e.g. the channels) commutes with
    `rollND` -/
theorem rollND_mapN {ι : Type} (D N : ℕ) (g : (ι → ℂ) → ℂ) (u : ι → Array ℂ) (s : List ℤ) :
    rollND D N (tab (N ^ D) fun j => g (fun i => (u i).getD j 0)) s
      = tab (N ^ D) fun j => g (fun i => (rollND D N (u i) s).getD j 0) := by
  rw [rollND_tab]
  apply Nonlin.tab_congr
  intro j hj
  congr 1
  funext i
  rw [rollND_getD _ _ _ _ j hj]

/-- the grid sum is invariant under the re-indexing by `rollIdx` -/
theorem sum_rollIdx (D N : ℕ) (hN : 0 < N) (s : List ℤ) (F : ℕ → ℂ) :
    ∑ j ∈ range (N ^ D), F (rollIdx D N s j) = ∑ j ∈ range (N ^ D), F j :=
  sum_digitMap D N hN (fun d => shiftDigit N (s.getD d 0)) (fun d => shiftDigit N (-(s.getD d 0)))
    (fun d _ x _ => shiftDigit_lt N hN _ x) (fun d _ x _ => shiftDigit_lt N hN _ x)
    (fun d _ x hx => shiftDigit_inv N hN _ x hx)
    (fun d _ x hx => by
      have := shiftDigit_inv N hN (-(s.getD d 0)) x hx
      rwa [neg_neg] at this) F

/-- the grid sum (mean) of a field is invariant under `rollND` -/
theorem sumRange_rollND (D N : ℕ) (hN : 0 < N) (s : List ℤ) (u : Array ℂ) :
    sumRange (N ^ D) (fun j => (rollND D N u s).getD j 0) = sumRange (N ^ D) (fun j => u.getD j 0) := by
  rw [DFT.sumRange_eq, DFT.sumRange_eq, ← sum_rollIdx D N hN s (fun j => u.getD j 0)]
  exact Finset.sum_congr rfl (fun j hj => rollND_getD _ _ _ _ j (Finset.mem_range.mp hj))

/-- relation form of the invariance of the grid sum -/
theorem sumRange_fieldRoll (c : Cfg ℂ) (hN : 0 < c.N) (s : List ℤ) (f f' : ℕ → ℂ)
    (h : ∀ j, j < gridSize c → f' j = f (rollIdx c.D c.N s j)) :
    sumRange (gridSize c) f' = sumRange (gridSize c) f := by
  rw [DFT.sumRange_eq, DFT.sumRange_eq, gridSize_eq, ← sum_rollIdx c.D c.N hN s f]
  exact Finset.sum_congr rfl (fun j hj => h j (Finset.mem_range.mp hj))

/-! ## Q1 — per-mode multipliers commute with the phase

`deriv c d`, `laplace c order`, `invLapOne c`, `invLapZero c`, `mask c`, `polySymbol c terms` are
functions `ℕ → ℂ` of the mode index: `SymmetryND.shiftSpecND_mul_diag` / `specShift_mul` apply to
each of them.  Explicit instances, and Leray's per-mode matrix: -/

theorem shiftSpecND_deriv (c : Cfg ℂ) (s : List ℤ) (d : ℕ) (a : Array ℂ) :
    shiftSpecND c.D c.N s (tab (numModes c.D c.N) fun h => deriv c d h * a.getD h 0)
      = tab (numModes c.D c.N) fun h => deriv c d h * (shiftSpecND c.D c.N s a).getD h 0 :=
  shiftSpecND_mul_diag c.D c.N s _ a

theorem shiftSpecND_laplace (c : Cfg ℂ) (s : List ℤ) (order : ℕ) (a : Array ℂ) :
    shiftSpecND c.D c.N s (tab (numModes c.D c.N) fun h => laplace c order h * a.getD h 0)
      = tab (numModes c.D c.N) fun h => laplace c order h * (shiftSpecND c.D c.N s a).getD h 0 :=
  shiftSpecND_mul_diag c.D c.N s _ a

theorem shiftSpecND_invLapOne (c : Cfg ℂ) (s : List ℤ) (a : Array ℂ) :
    shiftSpecND c.D c.N s (tab (numModes c.D c.N) fun h => invLapOne c h * a.getD h 0)
      = tab (numModes c.D c.N) fun h => invLapOne c h * (shiftSpecND c.D c.N s a).getD h 0 :=
  shiftSpecND_mul_diag c.D c.N s _ a

theorem shiftSpecND_mask (c : Cfg ℂ) (s : List ℤ) (a : Array ℂ) :
    shiftSpecND c.D c.N s (tab (numModes c.D c.N) fun h => mask c h * a.getD h 0)
      = tab (numModes c.D c.N) fun h => mask c h * (shiftSpecND c.D c.N s a).getD h 0 :=
  shiftSpecND_mul_diag c.D c.N s _ a

theorem sumList_phase (n : ℕ) (p : ℂ) (f g : ℕ → ℂ) (h : ∀ d, d < n → g d = p * f d) :
    sumList ((List.range n).map g) = p * sumList ((List.range n).map f) := by
  rw [sumList_range_eq, sumList_range_eq, Finset.mul_sum]
  exact Finset.sum_congr rfl (fun d hd => h d (Finset.mem_range.mp hd))

/-- **Leray's per-mode matrix commutes with the phase** (any channel count of the input, any `D`) -/
theorem leray_mcShift (c : Cfg ℂ) (s : List ℤ) (uh uh' : MC ℂ) (h : MCShift c s uh uh') :
    MCShift c s (leray c uh) (leray c uh') := by
  rw [leray_eq_tab2, leray_eq_tab2]
  apply mcShift_tab2
  intro d hd m hm
  have hdiv : specDiv c uh' m = shiftPhaseND c.D c.N s m * specDiv c uh m := by
    unfold specDiv
    exact sumList_phase _ _ _ _ (fun e _ => by rw [h e m hm]; ring)
  rw [h d m hm, hdiv]
  ring

/-- explicit form: `leray c (phase ⊙ û) = phase ⊙ leray c û` at every entry -/
theorem leray_shiftMC (c : Cfg ℂ) (s : List ℤ) (uh : MC ℂ) (d h : ℕ) (hh : h < modes c) :
    at2 (leray c (shiftMC c.D c.N s uh)) d h = shiftPhaseND c.D c.N s h * at2 (leray c uh) d h :=
  leray_mcShift c s _ _ (mcShift_shiftMC c s uh) d h hh

/-! ## the generic pseudo-spectral term -/

/-- **the generic multi-field pseudo-spectral term** `mask·fft(g(ifft(mask·â_i) …))` with an
    arbitrary pointwise map `g` of arbitrarily many fields is translation-equivariant -/
theorem pointwise_termN_specShift {ι : Type} (c : Cfg ℂ) (hN : 0 < c.N) (s : List ℤ)
    (g : (ι → ℂ) → ℂ) (a a' : ι → Array ℂ) (h : ∀ i, SpecShift c s (a i) (a' i)) :
    SpecShift c s (nfft c (tab (gridSize c) fun j => g (fun i => (nifft c (a i)).getD j 0)))
      (nfft c (tab (gridSize c) fun j => g (fun i => (nifft c (a' i)).getD j 0))) := by
  apply nfft_specShift c hN
  apply fieldRoll_tab
  intro j hj
  congr 1
  funext i
  exact nifft_fieldRoll c hN s _ _ (h i) j hj

/-! ## non-vacuity -/

example : ∃ (c : Cfg ℂ), 0 < c.N ∧ ∃ h, h < modes c := ⟨⟨2, 4, 1, 2, 3⟩, by norm_num, 5, by decide⟩
example : ∃ (c : Cfg ℂ), 0 < c.N ∧ ∃ h, h < modes c := ⟨⟨3, 3, 1, 2, 3⟩, by norm_num, 17, by decide⟩

example (c : Cfg ℂ) (s : List ℤ) (uh : MC ℂ) : ∃ uh', MCShift c s uh uh' := ⟨_, mcShift_shiftMC c s uh⟩
example (c : Cfg ℂ) (s : List ℤ) (a : Array ℂ) : ∃ a', SpecShift c s a a' := ⟨_, specShift_shiftSpecND c s a⟩
example (c : Cfg ℂ) (s : List ℤ) (v : Array ℂ) : ∃ v', FieldRoll c s v v' := ⟨_, fieldRoll_rollND c s v⟩
example (c : Cfg ℂ) (s : List ℤ) (u : MC ℂ) : ∃ u', MCRoll c s u u' := ⟨_, mcRoll_rollMC c s u⟩

end Exponax.EquivND
