import Mathlib.Analysis.SpecialFunctions.Pow.Real
import Mathlib.Analysis.SpecialFunctions.Pow.Complex
import Mathlib.Tactic
import ExponaxModel.Proofs.RealInstances
import ExponaxModel.Generated.GenPrelude
/-
Proof interpretation at `ℂ` of the operation-only classes that so far had only a real (`RealInstances.lean`) and
an IEEE (`Model/CF.lean`) interpretation.  They mirror the `CF` instances of the driver: real power and `<` act on
the real parts (the metric / IC code applies them to real-valued quantities only).
-/
namespace Exponax
/-- real power on the real parts (exactly the instance of the IEEE scalar `CF` of the driver) -/
noncomputable instance : HasRpow ℂ := ⟨fun x y => ((x.re ^ y.re : ℝ) : ℂ)⟩
/-- `<` on the real parts (as for `CF`) -/
noncomputable instance : HasLtB ℂ := ⟨fun a b => decide (a.re < b.re)⟩
/-- complex power, principal branch -/
noncomputable instance : Gen.Prelude.HasCpow ℂ := ⟨fun z w => z ^ w⟩

theorem hasRpow_complex (x y : ℂ) : HasRpow.rpow x y = ((x.re ^ y.re : ℝ) : ℂ) := rfl
theorem hasLtB_complex (a b : ℂ) : HasLtB.ltb a b = decide (a.re < b.re) := rfl
theorem hasCpow_complex (z w : ℂ) : Gen.Prelude.HasCpow.cpow z w = z ^ w := rfl
theorem hasAbs_complex (z : ℂ) : HasAbs.abs z = ((‖z‖ : ℝ) : ℂ) := rfl
end Exponax
