import ExponaxModel.Proofs.ExactLinear
/-
Read-off, part 0: a general Fourier multiplier applied to a single mode.

`specApply D N G u = irfftnM D N (h ↦ G h · (rfftnM D N u)_h)` is the literal pipeline of every
"transform – multiply by a symbol – transform back" routine of the model (`Nonlin.derivativeM` is
`specApply` with `G h = (i s k_d(h))^m`, definitionally; see `ReadOffND.lean`).

If `G` takes the value `μ = r e^{iψ}` (`r`, `ψ` real; `r` may be negative or zero) at the stored copy of `κ`
and `conj μ` at the stored copy of `-κ`, then
  `specApply D N G (a cos(2π κ·j/N + φ)) = a r cos(2π κ·j/N + φ + ψ)`
for every `κ` strictly below Nyquist.  `specApply` is additive, so this extends to `stateOf`.
(`ExactLinear.linStep_modeField_core` is the special case `G = exp(t Λ)`, which cannot represent a vanishing
multiplier.)
-/
set_option linter.unusedVariables false
namespace Exponax.ReadOff
open Exponax Exponax.Layout Exponax.Transform Exponax.DFT Exponax.ExactLinear Finset
open scoped ComplexConjugate

/-- `irfftn(G ⊙ rfftn(u))` -/
noncomputable def specApply (D N : ℕ) (G : ℕ → ℂ) (u : Array ℂ) : Array ℂ :=
  irfftnM D N (tab (numModes D N) (fun h => G h * (rfftnM D N u).getD h 0))

@[simp] theorem specApply_size (D N : ℕ) (G : ℕ → ℂ) (u : Array ℂ) : (specApply D N G u).size = N ^ D := by
  simp [specApply]

theorem specApply_getD (D N : ℕ) (hN : 0 < N) (G : ℕ → ℂ) (u : Array ℂ) (j : ℕ) (hj : j < N ^ D) :
    (specApply D N G u).getD j 0
      = (∑ h ∈ range (numModes D N), (herm_weight D N h : ℂ) *
          (((G h * (rfftnM D N u).getD h 0
              * zeta N ^ (-(phaseK D N (wnFlat D N h) j))).re : ℝ) : ℂ)) / ((N ^ D : ℕ) : ℂ) := by
  unfold specApply
  rw [irfftnM_getD D N hN _ j hj]
  congr 1
  apply Finset.sum_congr rfl
  intro h hh
  rw [tab_getD _ _ _ _ (Finset.mem_range.mp hh), twiddle_eq_zpow]

/-- the multiplier only matters on the stored modes -/
theorem specApply_congr (D N : ℕ) (G G' : ℕ → ℂ) (u : Array ℂ)
    (h : ∀ h < numModes D N, G h = G' h) : specApply D N G u = specApply D N G' u := by
  unfold specApply
  congr 1
  apply array_ext_getD _ _ (numModes D N) (by simp) (by simp)
  intro i hi
  rw [tab_getD _ _ _ _ hi, tab_getD _ _ _ _ hi, h i hi]

/-! ### linearity -/

theorem specApply_vadd (D N : ℕ) (hN : 0 < N) (G : ℕ → ℂ) (u v : Array ℂ) :
    specApply D N G (vadd (N ^ D) u v) = vadd (N ^ D) (specApply D N G u) (specApply D N G v) := by
  unfold specApply
  rw [← irfftnM_vadd D N hN, rfftnM_vadd D N hN]
  congr 1
  apply array_ext_getD _ _ (numModes D N) (by simp) (by simp)
  intro h hh
  rw [tab_getD _ _ _ _ hh, vadd_getD _ _ _ _ hh, vadd_getD _ _ _ _ hh, tab_getD _ _ _ _ hh,
    tab_getD _ _ _ _ hh]
  ring

theorem specApply_vsmul_real (D N : ℕ) (hN : 0 < N) (G : ℕ → ℂ) (r : ℝ) (u : Array ℂ) :
    specApply D N G (vsmul (N ^ D) (r : ℂ) u) = vsmul (N ^ D) (r : ℂ) (specApply D N G u) := by
  unfold specApply
  rw [← irfftnM_vsmul_real D N hN, rfftnM_vsmul D N hN]
  congr 1
  apply array_ext_getD _ _ (numModes D N) (by simp) (by simp)
  intro h hh
  rw [tab_getD _ _ _ _ hh, vsmul_getD _ _ _ _ hh, vsmul_getD _ _ _ _ hh, tab_getD _ _ _ _ hh]
  ring

theorem specApply_vzero (D N : ℕ) (hN : 0 < N) (G : ℕ → ℂ) :
    specApply D N G (vzero (N ^ D)) = vzero (N ^ D) := by
  have e : tab (numModes D N) (fun h => G h * (vzero (numModes D N)).getD h 0) = vzero (numModes D N) := by
    apply array_ext_getD _ _ (numModes D N) (by simp) (by simp)
    intro h hh
    rw [tab_getD _ _ _ _ hh, vzero_getD, mul_zero]
  unfold specApply
  rw [rfftnM_vzero D N hN, e, irfftnM_vzero D N hN]

theorem specApply_vsum (D N : ℕ) (hN : 0 < N) (G : ℕ → ℂ) (us : List (Array ℂ)) :
    specApply D N G (vsum (N ^ D) us) = vsum (N ^ D) (us.map (specApply D N G)) := by
  induction us with
  | nil => simp [specApply_vzero D N hN]
  | cons u us ih => rw [vsum_cons, specApply_vadd D N hN, ih, List.map_cons, vsum_cons]

/-! ### one mode -/

/-- the multiplier applied to one mode, before evaluating the weight sum -/
theorem specApply_modeField_sum (D N : ℕ) (hD : 0 < D) (hN : 0 < N) (G : ℕ → ℂ) (κ : List ℤ)
    (hκ : BelowNyquist D N κ) (μ : ℂ)
    (h1 : ∀ h < numModes D N, wnFlat D N h = κ → G h = μ)
    (h2 : ∀ h < numModes D N, wnFlat D N h = negK κ → G h = conj μ)
    (a φ : ℝ) (j : ℕ) (hj : j < N ^ D) :
    (specApply D N G (modeField D N κ a φ)).getD j 0
      = (((μ * ((a / 2 : ℂ) * ((N ^ D : ℕ) : ℂ) * Complex.exp (φ * Complex.I))
            * zeta N ^ (-(phaseK D N κ j))).re : ℝ) : ℂ) * Wsum D N κ / ((N ^ D : ℕ) : ℂ) := by
  rw [specApply_getD D N hN G _ j hj]
  congr 1
  unfold Wsum
  rw [Finset.mul_sum]
  apply Finset.sum_congr rfl
  intro h hh
  have hh' := Finset.mem_range.mp hh
  rw [rfftnM_modeField D N hD hN κ hκ a φ h hh']
  set c : ℂ := (a / 2 : ℂ) * ((N ^ D : ℕ) : ℂ) * Complex.exp (φ * Complex.I) with hc
  set c' : ℂ := (a / 2 : ℂ) * ((N ^ D : ℕ) : ℂ) * Complex.exp (-(φ * Complex.I)) with hc'
  set X : ℂ := μ * c * zeta N ^ (-(phaseK D N κ j)) with hX
  have FA : wnFlat D N h = κ →
      G h * c * zeta N ^ (-(phaseK D N (wnFlat D N h) j)) = X := by
    intro hA
    rw [h1 h hh' hA, hA]
  have FB : wnFlat D N h = negK κ →
      G h * c' * zeta N ^ (-(phaseK D N (wnFlat D N h) j)) = conj X := by
    intro hB
    rw [h2 h hh' hB, hB, phaseK_negK, neg_neg, hX, map_mul, map_mul, conj_zeta_zpow, neg_neg, hc,
      conj_coef]
  have key : G h * ((if wnFlat D N h = κ then c else 0)
        + (if wnFlat D N h = negK κ then c' else 0)) * zeta N ^ (-(phaseK D N (wnFlat D N h) j))
      = (if wnFlat D N h = κ then X else 0) + (if wnFlat D N h = negK κ then conj X else 0) := by
    by_cases hA : wnFlat D N h = κ
    · by_cases hB : wnFlat D N h = negK κ
      · rw [if_pos hA, if_pos hB, if_pos hA, if_pos hB]; linear_combination FA hA + FB hB
      · rw [if_pos hA, if_neg hB, if_pos hA, if_neg hB]; linear_combination FA hA
    · by_cases hB : wnFlat D N h = negK κ
      · rw [if_neg hA, if_pos hB, if_neg hA, if_pos hB]; linear_combination FB hB
      · rw [if_neg hA, if_neg hB, if_neg hA, if_neg hB]; ring
  rw [key]
  have hre : ((((if wnFlat D N h = κ then X else 0)
        + (if wnFlat D N h = negK κ then conj X else 0)).re : ℝ) : ℂ)
      = (X.re : ℂ) * ((if wnFlat D N h = κ then (1 : ℂ) else 0)
          + (if wnFlat D N h = negK κ then (1 : ℂ) else 0)) := by
    split_ifs <;> simp
    ring
  rw [hre]
  ring

/-- real part of `r e^{iψ}` times the mode coefficient times the inverse-transform phase -/
theorem re_polar_coef (N : ℕ) (r ψ a φ : ℝ) (n : ℕ) (p : ℤ) :
    (((r : ℂ) * Complex.exp (ψ * Complex.I)) * ((a / 2 : ℂ) * (n : ℂ) * Complex.exp (φ * Complex.I))
        * zeta N ^ (-p)).re
      = r * (a / 2 * n * Real.cos (2 * Real.pi * (p : ℝ) / N + φ + ψ)) := by
  have h := re_propagated N ((ψ : ℂ) * Complex.I) 1 a φ n p
  have e1 : ((ψ : ℂ) * Complex.I).re = 0 := by simp
  have e2 : ((ψ : ℂ) * Complex.I).im = ψ := by simp
  rw [e1, e2, Complex.ofReal_one, one_mul, mul_zero, Real.exp_zero, one_mul, one_mul] at h
  rw [mul_assoc, mul_assoc, Complex.re_ofReal_mul, ← mul_assoc, h]

/-- **General multiplier on one mode.**  `G = μ = r e^{iψ}` at the stored copy of `κ`, `conj μ` at the stored
    copy of `-κ`: the mode `a cos(2π κ·j/N + φ)` is mapped to `a r cos(2π κ·j/N + φ + ψ)`. -/
theorem specApply_modeField (D N : ℕ) (hD : 0 < D) (hN : 0 < N) (G : ℕ → ℂ) (κ : List ℤ)
    (hκ : BelowNyquist D N κ) (μ : ℂ) (r ψ : ℝ) (hμ : μ = (r : ℂ) * Complex.exp (ψ * Complex.I))
    (h1 : ∀ h < numModes D N, wnFlat D N h = κ → G h = μ)
    (h2 : ∀ h < numModes D N, wnFlat D N h = negK κ → G h = conj μ)
    (a φ : ℝ) :
    specApply D N G (modeField D N κ a φ) = modeField D N κ (a * r) (φ + ψ) := by
  apply array_ext_getD _ _ (N ^ D) (by simp) (by simp)
  intro j hj
  rw [specApply_modeField_sum D N hD hN G κ hκ μ h1 h2 a φ j hj, Wsum_eq_two D N hD hN κ hκ,
    modeField_getD D N κ _ _ j hj, hμ, re_polar_coef]
  have hNne : ((N ^ D : ℕ) : ℂ) ≠ 0 := by exact_mod_cast (pow_pos hN D).ne'
  rw [div_eq_iff hNne]
  push_cast
  ring_nf

/-- a real multiplier value (`ψ = 0`) -/
theorem specApply_modeField_real (D N : ℕ) (hD : 0 < D) (hN : 0 < N) (G : ℕ → ℂ) (κ : List ℤ)
    (hκ : BelowNyquist D N κ) (r : ℝ)
    (h1 : ∀ h < numModes D N, wnFlat D N h = κ → G h = (r : ℂ))
    (h2 : ∀ h < numModes D N, wnFlat D N h = negK κ → G h = (r : ℂ))
    (a φ : ℝ) :
    specApply D N G (modeField D N κ a φ) = modeField D N κ (a * r) φ := by
  have := specApply_modeField D N hD hN G κ hκ (r : ℂ) r 0 (by simp) h1
    (fun h hh hk => by rw [h2 h hh hk, Complex.conj_ofReal]) a φ
  rwa [add_zero] at this

/-- a field with zero amplitude is the zero field -/
theorem modeField_zero_amp (D N : ℕ) (κ : List ℤ) (φ : ℝ) : modeField D N κ 0 φ = vzero (N ^ D) := by
  apply array_ext_getD _ _ (N ^ D) (by simp) (by simp)
  intro j hj
  rw [modeField_getD D N κ 0 φ j hj, vzero_getD]
  simp

/-- scaling the amplitude is scaling the field -/
theorem modeField_smul (D N : ℕ) (κ : List ℤ) (r a φ : ℝ) :
    modeField D N κ (r * a) φ = vsmul (N ^ D) (r : ℂ) (modeField D N κ a φ) := by
  apply array_ext_getD _ _ (N ^ D) (by simp) (by simp)
  intro j hj
  rw [modeField_getD D N κ _ φ j hj, vsmul_getD _ _ _ _ hj, modeField_getD D N κ a φ j hj]
  push_cast
  ring

/-- non-vacuity: the constant multiplier `3` on the mode `κ = (1, -1)` of the `4 × 4` grid -/
example : BelowNyquist 2 4 [1, -1] ∧ ((3 : ℝ) : ℂ) = ((3 : ℝ) : ℂ) * Complex.exp (((0 : ℝ) : ℂ) * Complex.I) ∧
    (∀ h < numModes 2 4, wnFlat 2 4 h = [1, -1] → (fun _ : ℕ => ((3 : ℝ) : ℂ)) h = ((3 : ℝ) : ℂ)) ∧
    (∀ h < numModes 2 4, wnFlat 2 4 h = negK [1, -1] → (fun _ : ℕ => ((3 : ℝ) : ℂ)) h = conj ((3 : ℝ) : ℂ)) :=
  ⟨⟨rfl, by intro d hd; interval_cases d <;> simp⟩, by simp, fun _ _ _ => rfl,
    fun _ _ _ => (Complex.conj_ofReal 3).symm⟩

end Exponax.ReadOff
