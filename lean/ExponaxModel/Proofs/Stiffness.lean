import ExponaxModel.Properties.C02
import ExponaxModel.Proofs.SymbolAlgebra
/-
C19 — "steps stay finite across stiffness".

Z1  for a REAL `z = dt·λ`, real radius `r ≠ 0` and an EVEN number `M` of contour points every
    node `r·ζ_j + z` lies off the real axis, hence is non-zero whatever the stiffness, with the
    explicit distance `|r|·sin(π/M)` from `0`.
Z2  for `z ≤ 0`, `r > 0` every regenerated closed form `E?_scan_body_?` evaluated at a node is
    bounded by an explicit constant depending on `(r, M)` only — uniformly in the stiffness `z` —
    and so is every stored coefficient `E?_coef_?` (times `dt`).
Z3  `‖exp_term dt λ‖ ≤ 1` and the coefficient at `λ = 0`.

All statements are about the regenerated definitions in `Generated/Etdrk.lean`.
-/
set_option linter.unusedVariables false
namespace Exponax.Stiffness
open Exponax Exponax.Spec Exponax.Gen.Etdrk Finset

/-! ## Z1 — the contour nodes are off the real axis -/

/-- angle of node `j`: `θ_j = 2π (j − ½)/M` -/
noncomputable def nodeAngle (M j : ℕ) : ℝ := 2 * Real.pi * ((j : ℝ) - 1 / 2) / (M : ℝ)

/-- the regenerated node is `e^{iθ_j}` -/
theorem root_of_unity_eq_exp (M j : ℕ) :
    (root_of_unity M j : ℂ) = Complex.exp (((nodeAngle M j : ℝ) : ℂ) * Complex.I) := by
  simp only [root_of_unity, hasExp_complex, lit_eq, qlit_eq, hasI_complex, hasPi_complex, nodeAngle]
  congr 1
  push_cast
  ring

theorem root_of_unity_im (M j : ℕ) : (root_of_unity M j : ℂ).im = Real.sin (nodeAngle M j) := by
  rw [root_of_unity_eq_exp, Complex.exp_ofReal_mul_I_im]

theorem root_of_unity_re (M j : ℕ) : (root_of_unity M j : ℂ).re = Real.cos (nodeAngle M j) := by
  rw [root_of_unity_eq_exp, Complex.exp_ofReal_mul_I_re]

/-- **Z1 (imaginary part).** `Im(r ζ_j + z) = r sin(2π (j − ½)/M)` for real `r`, `z` (every `j`) -/
theorem node_im (M j : ℕ) (r z : ℝ) :
    ((r : ℂ) * root_of_unity M j + (z : ℂ)).im = r * Real.sin (2 * Real.pi * ((j : ℝ) - 1 / 2) / (M : ℝ)) := by
  rw [Complex.add_im, Complex.mul_im, Complex.ofReal_im, Complex.ofReal_im, Complex.ofReal_re,
    root_of_unity_im, nodeAngle]
  ring

theorem node_re (M j : ℕ) (r z : ℝ) :
    ((r : ℂ) * root_of_unity M j + (z : ℂ)).re = r * Real.cos (nodeAngle M j) + z := by
  rw [Complex.add_re, Complex.mul_re, Complex.ofReal_im, Complex.ofReal_re, Complex.ofReal_re,
    root_of_unity_re]
  ring

/-- for EVEN `M > 0` the sine never vanishes: `(2j−1)/M` is never an integer (every `j : ℕ`) -/
theorem sin_nodeAngle_ne_zero (M j : ℕ) (hM : 0 < M) (hev : M % 2 = 0) :
    Real.sin (2 * Real.pi * ((j : ℝ) - 1 / 2) / (M : ℝ)) ≠ 0 := by
  intro h
  obtain ⟨n, hn⟩ := Real.sin_eq_zero_iff.mp h
  have hMne : (M : ℝ) ≠ 0 := by exact_mod_cast hM.ne'
  rw [eq_div_iff hMne] at hn
  have h1 : Real.pi * ((n : ℝ) * (M : ℝ)) = Real.pi * (2 * (j : ℝ) - 1) := by linarith
  have h2 : (n : ℝ) * (M : ℝ) = 2 * (j : ℝ) - 1 := mul_left_cancel₀ Real.pi_ne_zero h1
  have h3 : n * (M : ℤ) = 2 * (j : ℤ) - 1 := by exact_mod_cast h2
  have h4 : (2 : ℤ) ∣ n * (M : ℤ) :=
    Dvd.dvd.mul_left (by exact_mod_cast Nat.dvd_of_mod_eq_zero hev) n
  rw [h3] at h4
  omega

/-- **Z1 (off the real axis).** -/
theorem node_im_ne_zero (M j : ℕ) (hM : 0 < M) (hev : M % 2 = 0) (r z : ℝ) (hr : r ≠ 0) :
    ((r : ℂ) * root_of_unity M j + (z : ℂ)).im ≠ 0 := by
  rw [node_im]
  exact mul_ne_zero hr (sin_nodeAngle_ne_zero M j hM hev)

/-- **Z1 (no node is the removable singularity).** for EVERY real `z` — `z = 0`, `z = −10¹⁵`, … —
    every real radius `r ≠ 0` and every even `M > 0`: `r ζ_j + z ≠ 0` -/
theorem node_ne_zero (M j : ℕ) (hM : 0 < M) (hev : M % 2 = 0) (r z : ℝ) (hr : r ≠ 0) :
    (r : ℂ) * root_of_unity M j + (z : ℂ) ≠ 0 := by
  intro h0
  have := node_im_ne_zero M j hM hev r z hr
  rw [h0] at this
  exact this rfl

/-- all nodes of the regenerated list `roots_of_unity M` -/
theorem nodes_ne_zero (M : ℕ) (hM : 0 < M) (hev : M % 2 = 0) (r z : ℝ) (hr : r ≠ 0) :
    ∀ ζ ∈ (roots_of_unity M : List ℂ), (r : ℂ) * ζ + (z : ℂ) ≠ 0 := by
  intro ζ hζ
  simp only [roots_of_unity, List.mem_map, List.mem_range] at hζ
  obtain ⟨i, _, rfl⟩ := hζ
  exact node_ne_zero M (i + 1) hM hev r z hr

/-- a very stiff instance, spelled out -/
example (j : ℕ) : ((1 : ℝ) : ℂ) * root_of_unity 16 j + (((-10 ^ 15 : ℝ)) : ℂ) ≠ 0 :=
  node_ne_zero 16 j (by norm_num) (by norm_num) 1 _ one_ne_zero

private theorem sin_ge_of_mem (δ a : ℝ) (h0 : 0 ≤ δ) (h2 : δ ≤ Real.pi / 2) (ha : δ ≤ a)
    (hb : a ≤ Real.pi - δ) : Real.sin δ ≤ Real.sin a := by
  have hpi := Real.pi_pos
  by_cases hc : a ≤ Real.pi / 2
  · exact Real.sin_le_sin_of_le_of_le_pi_div_two (by linarith) hc ha
  · rw [← Real.sin_pi_sub a]
    exact Real.sin_le_sin_of_le_of_le_pi_div_two (by linarith) (by linarith) (by linarith)

/-- for `1 ≤ j ≤ M`, `M` even: `|sin(π(2j−1)/M)| ≥ sin(π/M)` -/
theorem abs_sin_nodeAngle_ge (M j : ℕ) (hev : M % 2 = 0) (hM : 2 ≤ M) (hj1 : 1 ≤ j) (hjM : j ≤ M) :
    Real.sin (Real.pi / (M : ℝ)) ≤ |Real.sin (2 * Real.pi * ((j : ℝ) - 1 / 2) / (M : ℝ))| := by
  have hpi := Real.pi_pos
  have hMpos : (0 : ℝ) < (M : ℝ) := by exact_mod_cast (by omega : 0 < M)
  have hMne : (M : ℝ) ≠ 0 := hMpos.ne'
  set u : ℝ := Real.pi / (M : ℝ) with hu
  have hupos : 0 < u := div_pos hpi hMpos
  have hu2 : u ≤ Real.pi / 2 := by
    rw [hu]
    exact div_le_div_of_nonneg_left hpi.le (by norm_num) (by exact_mod_cast hM)
  have hθ : 2 * Real.pi * ((j : ℝ) - 1 / 2) / (M : ℝ) = u * (2 * (j : ℝ) - 1) := by
    rw [hu]; ring
  have hpiu : Real.pi = u * (M : ℝ) := by rw [hu]; field_simp
  rw [hθ]
  have hj1' : (1 : ℝ) ≤ (j : ℝ) := by exact_mod_cast hj1
  rcases Nat.lt_or_ge (2 * j - 1) M with hlt | hge
  · -- θ ∈ [u, π − u]
    have hle : 2 * (j : ℝ) - 1 ≤ (M : ℝ) - 1 := by
      have : 2 * j ≤ M := by omega
      have : (2 * (j : ℝ)) ≤ (M : ℝ) := by exact_mod_cast this
      linarith
    have h1 : u ≤ u * (2 * (j : ℝ) - 1) := by nlinarith
    have h2 : u * (2 * (j : ℝ) - 1) ≤ Real.pi - u := by
      rw [hpiu]; nlinarith
    exact le_trans (sin_ge_of_mem u _ hupos.le hu2 h1 h2) (le_abs_self _)
  · -- θ = π + θ', θ' ∈ [u, π − u]
    have hgt : M + 1 ≤ 2 * j - 1 := by omega
    have hge' : (M : ℝ) + 1 ≤ 2 * (j : ℝ) - 1 := by
      have : M + 2 ≤ 2 * j := by omega
      have : ((M : ℝ) + 2) ≤ 2 * (j : ℝ) := by exact_mod_cast this
      linarith
    have hle' : 2 * (j : ℝ) - 1 ≤ 2 * (M : ℝ) - 1 := by
      have : (j : ℝ) ≤ (M : ℝ) := by exact_mod_cast hjM
      linarith
    have hsplit : u * (2 * (j : ℝ) - 1) = u * (2 * (j : ℝ) - 1 - (M : ℝ)) + Real.pi := by
      rw [hpiu]; ring
    rw [hsplit, Real.sin_add_pi, abs_neg]
    have h1 : u ≤ u * (2 * (j : ℝ) - 1 - (M : ℝ)) := by nlinarith
    have h2 : u * (2 * (j : ℝ) - 1 - (M : ℝ)) ≤ Real.pi - u := by
      rw [hpiu]; nlinarith
    exact le_trans (sin_ge_of_mem u _ hupos.le hu2 h1 h2) (le_abs_self _)

/-- `sin(π/M) > 0` for `M ≥ 2` -/
theorem sin_pi_div_pos (M : ℕ) (hM : 2 ≤ M) : 0 < Real.sin (Real.pi / (M : ℝ)) := by
  have hpi := Real.pi_pos
  have hMpos : (1 : ℝ) < (M : ℝ) := by exact_mod_cast (by omega : 1 < M)
  apply Real.sin_pos_of_pos_of_lt_pi (div_pos hpi (by linarith))
  rw [div_lt_iff₀ (by linarith)]
  nlinarith

/-- **Z1 (distance from the singularity).**
    `‖r ζ_j + z‖ ≥ |r|·|sin(π(2j−1)/M)| ≥ |r|·sin(π/M)` for `1 ≤ j ≤ M`, `M` even, any real `z` -/
theorem node_norm_ge_abs_sin (M j : ℕ) (r z : ℝ) :
    |r| * |Real.sin (2 * Real.pi * ((j : ℝ) - 1 / 2) / (M : ℝ))|
      ≤ ‖(r : ℂ) * root_of_unity M j + (z : ℂ)‖ := by
  rw [← abs_mul, ← node_im]
  exact Complex.abs_im_le_norm _

theorem node_norm_ge (M j : ℕ) (hev : M % 2 = 0) (hM : 2 ≤ M) (hj1 : 1 ≤ j) (hjM : j ≤ M) (r z : ℝ) :
    |r| * Real.sin (Real.pi / (M : ℝ)) ≤ ‖(r : ℂ) * root_of_unity M j + (z : ℂ)‖ :=
  le_trans (mul_le_mul_of_nonneg_left (abs_sin_nodeAngle_ge M j hev hM hj1 hjM) (abs_nonneg r))
    (node_norm_ge_abs_sin M j r z)

/-! ## Z2 — uniform bounds on the closed forms

Abstract layer: `w` any complex number with `δ ≤ ‖w‖`, `0 < δ`, and `‖e^w‖ ≤ A`. -/

private theorem div1_le (δ x a0 : ℝ) (hδ : 0 < δ) (hx : δ ≤ x) (h0 : 0 ≤ a0) :
    a0 / x ≤ a0 / δ := by gcongr

private theorem div2_le (δ x a0 a1 : ℝ) (hδ : 0 < δ) (hx : δ ≤ x) (h0 : 0 ≤ a0) (h1 : 0 ≤ a1) :
    (a0 + a1 * x) / x ^ 2 ≤ a0 / δ ^ 2 + a1 / δ := by
  have hxpos : 0 < x := lt_of_lt_of_le hδ hx
  have : (a0 + a1 * x) / x ^ 2 = a0 / x ^ 2 + a1 / x := by field_simp
  rw [this]
  gcongr

private theorem div3_le (δ x a0 a1 a2 : ℝ) (hδ : 0 < δ) (hx : δ ≤ x) (h0 : 0 ≤ a0) (h1 : 0 ≤ a1)
    (h2 : 0 ≤ a2) :
    (a0 + a1 * x + a2 * x ^ 2) / x ^ 3 ≤ a0 / δ ^ 3 + a1 / δ ^ 2 + a2 / δ := by
  have hxpos : 0 < x := lt_of_lt_of_le hδ hx
  have : (a0 + a1 * x + a2 * x ^ 2) / x ^ 3 = a0 / x ^ 3 + a1 / x ^ 2 + a2 / x := by field_simp
  rw [this]
  gcongr

private theorem A_nonneg (e : ℂ) (A : ℝ) (hA : ‖e‖ ≤ A) : 0 ≤ A := le_trans (norm_nonneg _) hA

section Abstract
variable (w e : ℂ) (A δ : ℝ) (hA : ‖e‖ ≤ A) (hδ : 0 < δ) (hw : δ ≤ ‖w‖)
include hA hδ hw

/-- `(e − 1)/w` -/
theorem norm_form1_le : ‖(e - 1) / w‖ ≤ (A + 1) / δ := by
  have hA0 := A_nonneg e A hA
  rw [norm_div]
  have hnum : ‖e - 1‖ ≤ A + 1 := norm_sub_le_of_le hA (by simp)
  have hxpos : 0 < ‖w‖ := lt_of_lt_of_le hδ hw
  calc ‖e - 1‖ / ‖w‖ ≤ (A + 1) / ‖w‖ := by gcongr
    _ ≤ (A + 1) / δ := div1_le δ ‖w‖ (A + 1) hδ hw (by linarith)

/-- `(e − 1 − w)/w²` -/
theorem norm_form2_le : ‖(e - 1 - w) / w ^ 2‖ ≤ (A + 1) / δ ^ 2 + 1 / δ := by
  have hA0 := A_nonneg e A hA
  rw [norm_div, norm_pow]
  have hnum : ‖e - 1 - w‖ ≤ (A + 1) + 1 * ‖w‖ := by
    rw [one_mul]
    exact norm_sub_le_of_le (norm_sub_le_of_le hA (by simp)) le_rfl
  have hxpos : 0 < ‖w‖ := lt_of_lt_of_le hδ hw
  calc ‖e - 1 - w‖ / ‖w‖ ^ 2 ≤ ((A + 1) + 1 * ‖w‖) / ‖w‖ ^ 2 := by gcongr
    _ ≤ (A + 1) / δ ^ 2 + 1 / δ := div2_le δ ‖w‖ (A + 1) 1 hδ hw (by linarith) zero_le_one

/-- `(−4 − w + e (4 − 3w + w²))/w³` -/
theorem norm_form4_le :
    ‖(-4 - w + e * (4 - 3 * w + w ^ 2)) / w ^ 3‖
      ≤ (4 * (1 + A)) / δ ^ 3 + (1 + 3 * A) / δ ^ 2 + A / δ := by
  have hA0 := A_nonneg e A hA
  rw [norm_div, norm_pow]
  have hxpos : 0 < ‖w‖ := lt_of_lt_of_le hδ hw
  have hin : ‖4 - 3 * w + w ^ 2‖ ≤ 4 + 3 * ‖w‖ + ‖w‖ ^ 2 := by
    refine norm_add_le_of_le (norm_sub_le_of_le (by simp) ?_) (by rw [norm_pow])
    rw [norm_mul]; simp
  have hnum : ‖-4 - w + e * (4 - 3 * w + w ^ 2)‖
      ≤ 4 * (1 + A) + (1 + 3 * A) * ‖w‖ + A * ‖w‖ ^ 2 := by
    have h1 : ‖-4 - w + e * (4 - 3 * w + w ^ 2)‖ ≤ (4 + ‖w‖) + A * (4 + 3 * ‖w‖ + ‖w‖ ^ 2) := by
      refine norm_add_le_of_le (norm_sub_le_of_le (by simp) le_rfl) ?_
      rw [norm_mul]
      exact mul_le_mul hA hin (norm_nonneg _) hA0
    linarith
  calc ‖-4 - w + e * (4 - 3 * w + w ^ 2)‖ / ‖w‖ ^ 3
      ≤ (4 * (1 + A) + (1 + 3 * A) * ‖w‖ + A * ‖w‖ ^ 2) / ‖w‖ ^ 3 := by gcongr
    _ ≤ _ := div3_le δ ‖w‖ _ _ _ hδ hw (by linarith) (by linarith) hA0

/-- `(2 + w + e (−2 + w))/w³` -/
theorem norm_form5_le :
    ‖(2 + w + e * (-2 + w)) / w ^ 3‖ ≤ (2 * (1 + A)) / δ ^ 3 + (1 + A) / δ ^ 2 := by
  have hA0 := A_nonneg e A hA
  rw [norm_div, norm_pow]
  have hxpos : 0 < ‖w‖ := lt_of_lt_of_le hδ hw
  have hin : ‖-2 + w‖ ≤ 2 + ‖w‖ := norm_add_le_of_le (by simp) le_rfl
  have hnum : ‖2 + w + e * (-2 + w)‖ ≤ 2 * (1 + A) + (1 + A) * ‖w‖ + 0 * ‖w‖ ^ 2 := by
    have h1 : ‖2 + w + e * (-2 + w)‖ ≤ (2 + ‖w‖) + A * (2 + ‖w‖) := by
      refine norm_add_le_of_le (norm_add_le_of_le (by simp) le_rfl) ?_
      rw [norm_mul]
      exact mul_le_mul hA hin (norm_nonneg _) hA0
    linarith
  calc ‖2 + w + e * (-2 + w)‖ / ‖w‖ ^ 3
      ≤ (2 * (1 + A) + (1 + A) * ‖w‖ + 0 * ‖w‖ ^ 2) / ‖w‖ ^ 3 := by gcongr
    _ ≤ (2 * (1 + A)) / δ ^ 3 + (1 + A) / δ ^ 2 + 0 / δ :=
        div3_le δ ‖w‖ _ _ _ hδ hw (by linarith) (by linarith) le_rfl
    _ = _ := by rw [zero_div, add_zero]

/-- `(−4 − 3w − w² + e (4 − w))/w³` -/
theorem norm_form6_le :
    ‖(-4 - 3 * w - w ^ 2 + e * (4 - w)) / w ^ 3‖
      ≤ (4 * (1 + A)) / δ ^ 3 + (3 + A) / δ ^ 2 + 1 / δ := by
  have hA0 := A_nonneg e A hA
  rw [norm_div, norm_pow]
  have hxpos : 0 < ‖w‖ := lt_of_lt_of_le hδ hw
  have hin : ‖4 - w‖ ≤ 4 + ‖w‖ := norm_sub_le_of_le (by simp) le_rfl
  have h3w : ‖3 * w‖ ≤ 3 * ‖w‖ := by rw [norm_mul]; simp
  have hnum : ‖-4 - 3 * w - w ^ 2 + e * (4 - w)‖
      ≤ 4 * (1 + A) + (3 + A) * ‖w‖ + 1 * ‖w‖ ^ 2 := by
    have h1 : ‖-4 - 3 * w - w ^ 2 + e * (4 - w)‖ ≤ (4 + 3 * ‖w‖ + ‖w‖ ^ 2) + A * (4 + ‖w‖) := by
      refine norm_add_le_of_le (norm_sub_le_of_le (norm_sub_le_of_le (by simp) h3w)
        (by rw [norm_pow])) ?_
      rw [norm_mul]
      exact mul_le_mul hA hin (norm_nonneg _) hA0
    linarith
  calc ‖-4 - 3 * w - w ^ 2 + e * (4 - w)‖ / ‖w‖ ^ 3
      ≤ (4 * (1 + A) + (3 + A) * ‖w‖ + 1 * ‖w‖ ^ 2) / ‖w‖ ^ 3 := by gcongr
    _ ≤ _ := div3_le δ ‖w‖ _ _ _ hδ hw (by linarith) (by linarith) zero_le_one

end Abstract

/-! ### the regenerated closed forms, any complex arguments

`A` bounds `‖e^{w}‖` (`Ah` bounds `‖e^{w/2}‖`), `δ` is a lower bound for `‖w‖`, `w = r ζ + z`. -/

section Bodies
variable (z r ζ : ℂ) (A δ : ℝ) (hδ : 0 < δ) (hw : δ ≤ ‖r * ζ + z‖)
include hδ hw

theorem norm_E1_scan_body_0_le (hA : ‖Complex.exp (r * ζ + z)‖ ≤ A) :
    ‖E1_scan_body_0 z r ζ‖ ≤ (A + 1) / δ := by
  have : E1_scan_body_0 z r ζ = (Complex.exp (r * ζ + z) - 1) / (r * ζ + z) := by
    simp only [E1_scan_body_0, hasExp_complex, lit_eq]; push_cast; ring
  rw [this]; exact norm_form1_le _ _ A δ hA hδ hw

theorem norm_E2_scan_body_0_le (hA : ‖Complex.exp (r * ζ + z)‖ ≤ A) :
    ‖E2_scan_body_0 z r ζ‖ ≤ (A + 1) / δ := by
  have : E2_scan_body_0 z r ζ = (Complex.exp (r * ζ + z) - 1) / (r * ζ + z) := by
    simp only [E2_scan_body_0, hasExp_complex, lit_eq]; push_cast; ring
  rw [this]; exact norm_form1_le _ _ A δ hA hδ hw

theorem norm_E2_scan_body_1_le (hA : ‖Complex.exp (r * ζ + z)‖ ≤ A) :
    ‖E2_scan_body_1 z r ζ‖ ≤ (A + 1) / δ ^ 2 + 1 / δ := by
  have : E2_scan_body_1 z r ζ
      = (Complex.exp (r * ζ + z) - 1 - (r * ζ + z)) / (r * ζ + z) ^ 2 := by
    simp only [E2_scan_body_1, hasExp_complex, lit_eq, npow_eq]; push_cast; ring
  rw [this]; exact norm_form2_le _ _ A δ hA hδ hw

theorem norm_E3_scan_body_0_le (Ah : ℝ) (hAh : ‖Complex.exp ((r * ζ + z) / 2)‖ ≤ Ah) :
    ‖E3_scan_body_0 z r ζ‖ ≤ (Ah + 1) / δ := by
  have : E3_scan_body_0 z r ζ = (Complex.exp ((r * ζ + z) / 2) - 1) / (r * ζ + z) := by
    simp only [E3_scan_body_0, hasExp_complex, lit_eq]; push_cast; ring
  rw [this]; exact norm_form1_le _ _ Ah δ hAh hδ hw

theorem norm_E3_scan_body_1_le (hA : ‖Complex.exp (r * ζ + z)‖ ≤ A) :
    ‖E3_scan_body_1 z r ζ‖ ≤ (A + 1) / δ := by
  have : E3_scan_body_1 z r ζ = (Complex.exp (r * ζ + z) - 1) / (r * ζ + z) := by
    simp only [E3_scan_body_1, hasExp_complex, lit_eq]; push_cast; ring
  rw [this]; exact norm_form1_le _ _ A δ hA hδ hw

theorem norm_E3_scan_body_2_le (hA : ‖Complex.exp (r * ζ + z)‖ ≤ A) :
    ‖E3_scan_body_2 z r ζ‖ ≤ (4 * (1 + A)) / δ ^ 3 + (1 + 3 * A) / δ ^ 2 + A / δ := by
  have : E3_scan_body_2 z r ζ
      = (-4 - (r * ζ + z) + Complex.exp (r * ζ + z) * (4 - 3 * (r * ζ + z) + (r * ζ + z) ^ 2))
          / (r * ζ + z) ^ 3 := by
    simp only [E3_scan_body_2, hasExp_complex, lit_eq, npow_eq]; push_cast; ring
  rw [this]; exact norm_form4_le _ _ A δ hA hδ hw

theorem norm_E3_scan_body_3_le (hA : ‖Complex.exp (r * ζ + z)‖ ≤ A) :
    ‖E3_scan_body_3 z r ζ‖ ≤ 4 * ((2 * (1 + A)) / δ ^ 3 + (1 + A) / δ ^ 2) := by
  have : E3_scan_body_3 z r ζ
      = 4 * ((2 + (r * ζ + z) + Complex.exp (r * ζ + z) * (-2 + (r * ζ + z))) / (r * ζ + z) ^ 3) := by
    simp only [E3_scan_body_3, hasExp_complex, lit_eq, npow_eq]; push_cast; ring
  rw [this, norm_mul]
  have h4 : ‖(4 : ℂ)‖ = 4 := by simp
  rw [h4]
  exact mul_le_mul_of_nonneg_left (norm_form5_le _ _ A δ hA hδ hw) (by norm_num)

theorem norm_E3_scan_body_4_le (hA : ‖Complex.exp (r * ζ + z)‖ ≤ A) :
    ‖E3_scan_body_4 z r ζ‖ ≤ (4 * (1 + A)) / δ ^ 3 + (3 + A) / δ ^ 2 + 1 / δ := by
  have : E3_scan_body_4 z r ζ
      = (-4 - 3 * (r * ζ + z) - (r * ζ + z) ^ 2 + Complex.exp (r * ζ + z) * (4 - (r * ζ + z)))
          / (r * ζ + z) ^ 3 := by
    simp only [E3_scan_body_4, hasExp_complex, lit_eq, npow_eq]; push_cast; ring
  rw [this]; exact norm_form6_le _ _ A δ hA hδ hw

theorem norm_E4_scan_body_0_le (Ah : ℝ) (hAh : ‖Complex.exp ((r * ζ + z) / 2)‖ ≤ Ah) :
    ‖E4_scan_body_0 z r ζ‖ ≤ (Ah + 1) / δ := by
  have : E4_scan_body_0 z r ζ = (Complex.exp ((r * ζ + z) / 2) - 1) / (r * ζ + z) := by
    simp only [E4_scan_body_0, hasExp_complex, lit_eq]; push_cast; ring
  rw [this]; exact norm_form1_le _ _ Ah δ hAh hδ hw

theorem norm_E4_scan_body_1_le (hA : ‖Complex.exp (r * ζ + z)‖ ≤ A) :
    ‖E4_scan_body_1 z r ζ‖ ≤ (4 * (1 + A)) / δ ^ 3 + (1 + 3 * A) / δ ^ 2 + A / δ := by
  have : E4_scan_body_1 z r ζ
      = (-4 - (r * ζ + z) + Complex.exp (r * ζ + z) * (4 - 3 * (r * ζ + z) + (r * ζ + z) ^ 2))
          / (r * ζ + z) ^ 3 := by
    simp only [E4_scan_body_1, hasExp_complex, lit_eq, npow_eq]; push_cast; ring
  rw [this]; exact norm_form4_le _ _ A δ hA hδ hw

theorem norm_E4_scan_body_2_le (hA : ‖Complex.exp (r * ζ + z)‖ ≤ A) :
    ‖E4_scan_body_2 z r ζ‖ ≤ (2 * (1 + A)) / δ ^ 3 + (1 + A) / δ ^ 2 := by
  have : E4_scan_body_2 z r ζ
      = (2 + (r * ζ + z) + Complex.exp (r * ζ + z) * (-2 + (r * ζ + z))) / (r * ζ + z) ^ 3 := by
    simp only [E4_scan_body_2, hasExp_complex, lit_eq, npow_eq]; push_cast; ring
  rw [this]; exact norm_form5_le _ _ A δ hA hδ hw

theorem norm_E4_scan_body_3_le (hA : ‖Complex.exp (r * ζ + z)‖ ≤ A) :
    ‖E4_scan_body_3 z r ζ‖ ≤ (4 * (1 + A)) / δ ^ 3 + (3 + A) / δ ^ 2 + 1 / δ := by
  have : E4_scan_body_3 z r ζ
      = (-4 - 3 * (r * ζ + z) - (r * ζ + z) ^ 2 + Complex.exp (r * ζ + z) * (4 - (r * ζ + z)))
          / (r * ζ + z) ^ 3 := by
    simp only [E4_scan_body_3, hasExp_complex, lit_eq, npow_eq]; push_cast; ring
  rw [this]; exact norm_form6_le _ _ A δ hA hδ hw

end Bodies

/-! ### concrete nodes: real `z ≤ 0` (arbitrarily stiff), `r > 0`, `M` even

`A = e^r` (`e^{r/2}` for the half step), `δ = nodeDist r M = r·sin(π/M)`: constants that depend
on `(r, M)` only. -/

/-- `δ(r, M) = r·sin(π/M)`: the guaranteed distance of every node from the singularity -/
noncomputable def nodeDist (r : ℝ) (M : ℕ) : ℝ := r * Real.sin (Real.pi / (M : ℝ))

theorem nodeDist_pos (r : ℝ) (M : ℕ) (hr : 0 < r) (hM : 2 ≤ M) : 0 < nodeDist r M :=
  mul_pos hr (sin_pi_div_pos M hM)

theorem nodeDist_le_norm (M j : ℕ) (hev : M % 2 = 0) (hM : 2 ≤ M) (hj1 : 1 ≤ j) (hjM : j ≤ M)
    (r z : ℝ) (hr : 0 < r) :
    nodeDist r M ≤ ‖(r : ℂ) * root_of_unity M j + (z : ℂ)‖ := by
  have := node_norm_ge M j hev hM hj1 hjM r z
  rwa [abs_of_pos hr] at this

/-- **Z2 (`e^w` at a node).** `‖exp(r ζ_j + z)‖ ≤ e^r` for `z ≤ 0`, `r ≥ 0` (every `j`, `M`) -/
theorem norm_exp_node_le (M j : ℕ) (r z : ℝ) (hr : 0 ≤ r) (hz : z ≤ 0) :
    ‖Complex.exp ((r : ℂ) * root_of_unity M j + (z : ℂ))‖ ≤ Real.exp r := by
  rw [Complex.norm_exp, node_re]
  apply Real.exp_le_exp.mpr
  have := Real.cos_le_one (nodeAngle M j)
  nlinarith

theorem norm_exp_half_node_le (M j : ℕ) (r z : ℝ) (hr : 0 ≤ r) (hz : z ≤ 0) :
    ‖Complex.exp (((r : ℂ) * root_of_unity M j + (z : ℂ)) / 2)‖ ≤ Real.exp (r / 2) := by
  rw [Complex.norm_exp]
  have h2 : (((r : ℂ) * root_of_unity M j + (z : ℂ)) / 2).re
      = ((r : ℂ) * root_of_unity M j + (z : ℂ)).re / 2 := by
    rw [show ((r : ℂ) * root_of_unity M j + (z : ℂ)) / 2
        = ((r : ℂ) * root_of_unity M j + (z : ℂ)) * (((1 / 2 : ℝ)) : ℂ) by push_cast; ring,
      Complex.re_mul_ofReal]
    ring
  rw [h2, node_re]
  apply Real.exp_le_exp.mpr
  have := Real.cos_le_one (nodeAngle M j)
  nlinarith

section Concrete
variable (M j : ℕ) (hev : M % 2 = 0) (hM : 2 ≤ M) (hj1 : 1 ≤ j) (hjM : j ≤ M)
  (r z : ℝ) (hr : 0 < r) (hz : z ≤ 0)
include hev hM hj1 hjM hr hz

/-- **Z2.** `‖(e^w − 1)/w‖ ≤ (e^r + 1)/δ` at every node, uniformly in the stiffness `z ≤ 0` -/
theorem E1_scan_body_0_bounded :
    ‖E1_scan_body_0 (z : ℂ) (r : ℂ) (root_of_unity M j)‖ ≤ (Real.exp r + 1) / nodeDist r M :=
  norm_E1_scan_body_0_le _ _ _ _ _ (nodeDist_pos r M hr hM)
    (nodeDist_le_norm M j hev hM hj1 hjM r z hr) (norm_exp_node_le M j r z hr.le hz)

theorem E2_scan_body_0_bounded :
    ‖E2_scan_body_0 (z : ℂ) (r : ℂ) (root_of_unity M j)‖ ≤ (Real.exp r + 1) / nodeDist r M :=
  norm_E2_scan_body_0_le _ _ _ _ _ (nodeDist_pos r M hr hM)
    (nodeDist_le_norm M j hev hM hj1 hjM r z hr) (norm_exp_node_le M j r z hr.le hz)

/-- **Z2.** `‖(e^w − 1 − w)/w²‖ ≤ (e^r + 1)/δ² + 1/δ` -/
theorem E2_scan_body_1_bounded :
    ‖E2_scan_body_1 (z : ℂ) (r : ℂ) (root_of_unity M j)‖
      ≤ (Real.exp r + 1) / nodeDist r M ^ 2 + 1 / nodeDist r M :=
  norm_E2_scan_body_1_le _ _ _ _ _ (nodeDist_pos r M hr hM)
    (nodeDist_le_norm M j hev hM hj1 hjM r z hr) (norm_exp_node_le M j r z hr.le hz)

theorem E3_scan_body_0_bounded :
    ‖E3_scan_body_0 (z : ℂ) (r : ℂ) (root_of_unity M j)‖ ≤ (Real.exp (r / 2) + 1) / nodeDist r M :=
  norm_E3_scan_body_0_le _ _ _ _ (nodeDist_pos r M hr hM)
    (nodeDist_le_norm M j hev hM hj1 hjM r z hr) _ (norm_exp_half_node_le M j r z hr.le hz)

theorem E3_scan_body_1_bounded :
    ‖E3_scan_body_1 (z : ℂ) (r : ℂ) (root_of_unity M j)‖ ≤ (Real.exp r + 1) / nodeDist r M :=
  norm_E3_scan_body_1_le _ _ _ _ _ (nodeDist_pos r M hr hM)
    (nodeDist_le_norm M j hev hM hj1 hjM r z hr) (norm_exp_node_le M j r z hr.le hz)

theorem E3_scan_body_2_bounded :
    ‖E3_scan_body_2 (z : ℂ) (r : ℂ) (root_of_unity M j)‖
      ≤ (4 * (1 + Real.exp r)) / nodeDist r M ^ 3 + (1 + 3 * Real.exp r) / nodeDist r M ^ 2
        + Real.exp r / nodeDist r M :=
  norm_E3_scan_body_2_le _ _ _ _ _ (nodeDist_pos r M hr hM)
    (nodeDist_le_norm M j hev hM hj1 hjM r z hr) (norm_exp_node_le M j r z hr.le hz)

theorem E3_scan_body_3_bounded :
    ‖E3_scan_body_3 (z : ℂ) (r : ℂ) (root_of_unity M j)‖
      ≤ 4 * ((2 * (1 + Real.exp r)) / nodeDist r M ^ 3 + (1 + Real.exp r) / nodeDist r M ^ 2) :=
  norm_E3_scan_body_3_le _ _ _ _ _ (nodeDist_pos r M hr hM)
    (nodeDist_le_norm M j hev hM hj1 hjM r z hr) (norm_exp_node_le M j r z hr.le hz)

theorem E3_scan_body_4_bounded :
    ‖E3_scan_body_4 (z : ℂ) (r : ℂ) (root_of_unity M j)‖
      ≤ (4 * (1 + Real.exp r)) / nodeDist r M ^ 3 + (3 + Real.exp r) / nodeDist r M ^ 2
        + 1 / nodeDist r M :=
  norm_E3_scan_body_4_le _ _ _ _ _ (nodeDist_pos r M hr hM)
    (nodeDist_le_norm M j hev hM hj1 hjM r z hr) (norm_exp_node_le M j r z hr.le hz)

theorem E4_scan_body_0_bounded :
    ‖E4_scan_body_0 (z : ℂ) (r : ℂ) (root_of_unity M j)‖ ≤ (Real.exp (r / 2) + 1) / nodeDist r M :=
  norm_E4_scan_body_0_le _ _ _ _ (nodeDist_pos r M hr hM)
    (nodeDist_le_norm M j hev hM hj1 hjM r z hr) _ (norm_exp_half_node_le M j r z hr.le hz)

/-- **Z2 (ETDRK4, `(−4 − w + e^w(4 − 3w + w²))/w³`).** -/
theorem E4_scan_body_1_bounded :
    ‖E4_scan_body_1 (z : ℂ) (r : ℂ) (root_of_unity M j)‖
      ≤ (4 * (1 + Real.exp r)) / nodeDist r M ^ 3 + (1 + 3 * Real.exp r) / nodeDist r M ^ 2
        + Real.exp r / nodeDist r M :=
  norm_E4_scan_body_1_le _ _ _ _ _ (nodeDist_pos r M hr hM)
    (nodeDist_le_norm M j hev hM hj1 hjM r z hr) (norm_exp_node_le M j r z hr.le hz)

/-- **Z2 (ETDRK4, `(2 + w + e^w(−2 + w))/w³`).** -/
theorem E4_scan_body_2_bounded :
    ‖E4_scan_body_2 (z : ℂ) (r : ℂ) (root_of_unity M j)‖
      ≤ (2 * (1 + Real.exp r)) / nodeDist r M ^ 3 + (1 + Real.exp r) / nodeDist r M ^ 2 :=
  norm_E4_scan_body_2_le _ _ _ _ _ (nodeDist_pos r M hr hM)
    (nodeDist_le_norm M j hev hM hj1 hjM r z hr) (norm_exp_node_le M j r z hr.le hz)

/-- **Z2 (ETDRK4, `(−4 − 3w − w² + e^w(4 − w))/w³`).** -/
theorem E4_scan_body_3_bounded :
    ‖E4_scan_body_3 (z : ℂ) (r : ℂ) (root_of_unity M j)‖
      ≤ (4 * (1 + Real.exp r)) / nodeDist r M ^ 3 + (3 + Real.exp r) / nodeDist r M ^ 2
        + 1 / nodeDist r M :=
  norm_E4_scan_body_3_le _ _ _ _ _ (nodeDist_pos r M hr hM)
    (nodeDist_le_norm M j hev hM hj1 hjM r z hr) (norm_exp_node_le M j r z hr.le hz)

end Concrete

/-! ### the stored coefficients: `‖coef‖ ≤ |dt|·C(r, M)` uniformly in the stiffness -/

/-- the mean of `M` values bounded by `C` is bounded by `C` -/
theorem norm_coef_le (dt : ℂ) (g : ℂ → ℂ) (M : ℕ) (hM : 0 < M) (C : ℝ)
    (hg : ∀ j, 1 ≤ j → j ≤ M → ‖g (root_of_unity M j)‖ ≤ C) :
    ‖dt * (foldAdd 0 g (roots_of_unity M) / (M : ℂ))‖ ≤ ‖dt‖ * C := by
  rw [foldAdd_eq, zero_add, norm_mul, norm_div]
  apply mul_le_mul_of_nonneg_left _ (norm_nonneg _)
  simp only [roots_of_unity, List.map_map]
  rw [Exponax.list_range_map_sum]
  have hMpos : (0 : ℝ) < (M : ℝ) := by exact_mod_cast hM
  have hsum : ‖∑ i ∈ range M, (g ∘ fun i => root_of_unity M (i + 1)) i‖ ≤ (M : ℝ) * C := by
    calc ‖∑ i ∈ range M, (g ∘ fun i => root_of_unity M (i + 1)) i‖
        ≤ ∑ i ∈ range M, ‖(g ∘ fun i => root_of_unity M (i + 1)) i‖ := norm_sum_le _ _
      _ ≤ ∑ i ∈ range M, C := Finset.sum_le_sum (fun i hi => by
          have := Finset.mem_range.mp hi
          exact hg (i + 1) (by omega) (by omega))
      _ = (M : ℝ) * C := by simp
  rw [Complex.norm_natCast, div_le_iff₀ hMpos]
  linarith

private theorem norm_ofReal' (x : ℝ) : ‖(x : ℂ)‖ = |x| := by
  rw [Complex.norm_real, Real.norm_eq_abs]

section Coefs
variable (dt lam r : ℝ) (M : ℕ) (hev : M % 2 = 0) (hM : 2 ≤ M) (hr : 0 < r) (hz : lam * dt ≤ 0)
include hev hM hr hz

/-- **Z2 (ETDRK1 coefficient).** for a real symbol `λ` with `λ·dt ≤ 0`, however stiff -/
theorem E1_coef_1_bounded :
    ‖E1_coef_1 (dt : ℂ) (lam : ℂ) M (r : ℂ)‖ ≤ |dt| * ((Real.exp r + 1) / nodeDist r M) := by
  simp only [E1_coef_1, lit_eq]
  rw [← Complex.ofReal_mul, ← norm_ofReal' dt]
  exact norm_coef_le _ _ M (by omega) _
    (fun j h1 h2 => E1_scan_body_0_bounded M j hev hM h1 h2 r _ hr hz)

theorem E2_coef_1_bounded :
    ‖E2_coef_1 (dt : ℂ) (lam : ℂ) M (r : ℂ)‖ ≤ |dt| * ((Real.exp r + 1) / nodeDist r M) := by
  simp only [E2_coef_1, lit_eq]
  rw [← Complex.ofReal_mul, ← norm_ofReal' dt]
  exact norm_coef_le _ _ M (by omega) _
    (fun j h1 h2 => E2_scan_body_0_bounded M j hev hM h1 h2 r _ hr hz)

theorem E2_coef_2_bounded :
    ‖E2_coef_2 (dt : ℂ) (lam : ℂ) M (r : ℂ)‖
      ≤ |dt| * ((Real.exp r + 1) / nodeDist r M ^ 2 + 1 / nodeDist r M) := by
  simp only [E2_coef_2, lit_eq]
  rw [← Complex.ofReal_mul, ← norm_ofReal' dt]
  exact norm_coef_le _ _ M (by omega) _
    (fun j h1 h2 => E2_scan_body_1_bounded M j hev hM h1 h2 r _ hr hz)

theorem E3_coef_1_bounded :
    ‖E3_coef_1 (dt : ℂ) (lam : ℂ) M (r : ℂ)‖ ≤ |dt| * ((Real.exp (r / 2) + 1) / nodeDist r M) := by
  simp only [E3_coef_1, lit_eq]
  rw [← Complex.ofReal_mul, ← norm_ofReal' dt]
  exact norm_coef_le _ _ M (by omega) _
    (fun j h1 h2 => E3_scan_body_0_bounded M j hev hM h1 h2 r _ hr hz)

theorem E3_coef_2_bounded :
    ‖E3_coef_2 (dt : ℂ) (lam : ℂ) M (r : ℂ)‖ ≤ |dt| * ((Real.exp r + 1) / nodeDist r M) := by
  simp only [E3_coef_2, lit_eq]
  rw [← Complex.ofReal_mul, ← norm_ofReal' dt]
  exact norm_coef_le _ _ M (by omega) _
    (fun j h1 h2 => E3_scan_body_1_bounded M j hev hM h1 h2 r _ hr hz)

theorem E3_coef_3_bounded :
    ‖E3_coef_3 (dt : ℂ) (lam : ℂ) M (r : ℂ)‖
      ≤ |dt| * ((4 * (1 + Real.exp r)) / nodeDist r M ^ 3 + (1 + 3 * Real.exp r) / nodeDist r M ^ 2
        + Real.exp r / nodeDist r M) := by
  simp only [E3_coef_3, lit_eq]
  rw [← Complex.ofReal_mul, ← norm_ofReal' dt]
  exact norm_coef_le _ _ M (by omega) _
    (fun j h1 h2 => E3_scan_body_2_bounded M j hev hM h1 h2 r _ hr hz)

theorem E3_coef_4_bounded :
    ‖E3_coef_4 (dt : ℂ) (lam : ℂ) M (r : ℂ)‖
      ≤ |dt| * (4 * ((2 * (1 + Real.exp r)) / nodeDist r M ^ 3
          + (1 + Real.exp r) / nodeDist r M ^ 2)) := by
  simp only [E3_coef_4, lit_eq]
  rw [← Complex.ofReal_mul, ← norm_ofReal' dt]
  exact norm_coef_le _ _ M (by omega) _
    (fun j h1 h2 => E3_scan_body_3_bounded M j hev hM h1 h2 r _ hr hz)

theorem E3_coef_5_bounded :
    ‖E3_coef_5 (dt : ℂ) (lam : ℂ) M (r : ℂ)‖
      ≤ |dt| * ((4 * (1 + Real.exp r)) / nodeDist r M ^ 3 + (3 + Real.exp r) / nodeDist r M ^ 2
        + 1 / nodeDist r M) := by
  simp only [E3_coef_5, lit_eq]
  rw [← Complex.ofReal_mul, ← norm_ofReal' dt]
  exact norm_coef_le _ _ M (by omega) _
    (fun j h1 h2 => E3_scan_body_4_bounded M j hev hM h1 h2 r _ hr hz)

theorem E4_coef_1_bounded :
    ‖E4_coef_1 (dt : ℂ) (lam : ℂ) M (r : ℂ)‖ ≤ |dt| * ((Real.exp (r / 2) + 1) / nodeDist r M) := by
  simp only [E4_coef_1, lit_eq]
  rw [← Complex.ofReal_mul, ← norm_ofReal' dt]
  exact norm_coef_le _ _ M (by omega) _
    (fun j h1 h2 => E4_scan_body_0_bounded M j hev hM h1 h2 r _ hr hz)

theorem E4_coef_2_bounded :
    ‖E4_coef_2 (dt : ℂ) (lam : ℂ) M (r : ℂ)‖ ≤ |dt| * ((Real.exp (r / 2) + 1) / nodeDist r M) := by
  rw [(C02_coef_E4_2_3 (dt : ℂ) (lam : ℂ) (r : ℂ) M).1]
  exact E4_coef_1_bounded dt lam r M hev hM hr hz

theorem E4_coef_3_bounded :
    ‖E4_coef_3 (dt : ℂ) (lam : ℂ) M (r : ℂ)‖ ≤ |dt| * ((Real.exp (r / 2) + 1) / nodeDist r M) := by
  rw [(C02_coef_E4_2_3 (dt : ℂ) (lam : ℂ) (r : ℂ) M).2]
  exact E4_coef_1_bounded dt lam r M hev hM hr hz

theorem E4_coef_4_bounded :
    ‖E4_coef_4 (dt : ℂ) (lam : ℂ) M (r : ℂ)‖
      ≤ |dt| * ((4 * (1 + Real.exp r)) / nodeDist r M ^ 3 + (1 + 3 * Real.exp r) / nodeDist r M ^ 2
        + Real.exp r / nodeDist r M) := by
  simp only [E4_coef_4, lit_eq]
  rw [← Complex.ofReal_mul, ← norm_ofReal' dt]
  exact norm_coef_le _ _ M (by omega) _
    (fun j h1 h2 => E4_scan_body_1_bounded M j hev hM h1 h2 r _ hr hz)

theorem E4_coef_5_bounded :
    ‖E4_coef_5 (dt : ℂ) (lam : ℂ) M (r : ℂ)‖
      ≤ |dt| * ((2 * (1 + Real.exp r)) / nodeDist r M ^ 3 + (1 + Real.exp r) / nodeDist r M ^ 2) := by
  simp only [E4_coef_5, lit_eq]
  rw [← Complex.ofReal_mul, ← norm_ofReal' dt]
  exact norm_coef_le _ _ M (by omega) _
    (fun j h1 h2 => E4_scan_body_2_bounded M j hev hM h1 h2 r _ hr hz)

theorem E4_coef_6_bounded :
    ‖E4_coef_6 (dt : ℂ) (lam : ℂ) M (r : ℂ)‖
      ≤ |dt| * ((4 * (1 + Real.exp r)) / nodeDist r M ^ 3 + (3 + Real.exp r) / nodeDist r M ^ 2
        + 1 / nodeDist r M) := by
  simp only [E4_coef_6, lit_eq]
  rw [← Complex.ofReal_mul, ← norm_ofReal' dt]
  exact norm_coef_le _ _ M (by omega) _
    (fun j h1 h2 => E4_scan_body_3_bounded M j hev hM h1 h2 r _ hr hz)

end Coefs

/-! ## Z3 — the linear propagator, the half-step propagators, and `λ = 0` -/

/-- **Z3.** `‖exp_term dt λ‖ ≤ 1` for `dt ≥ 0`, `Re λ ≤ 0` (re-export from `SymbolAlgebra`) -/
theorem norm_exp_term_le_one (dt : ℝ) (lam : ℂ) (hdt : 0 ≤ dt) (hl : lam.re ≤ 0) :
    ‖exp_term (dt : ℂ) lam‖ ≤ 1 :=
  Exponax.norm_exp_term_le_one dt lam hdt hl

theorem norm_E3_half_exp_term_le_one (dt : ℝ) (lam r : ℂ) (M : ℕ) (hdt : 0 ≤ dt) (hl : lam.re ≤ 0) :
    ‖E3_half_exp_term (dt : ℂ) lam M r‖ ≤ 1 := by
  rw [C02_half_exp_term_E3, Complex.norm_exp]
  have : ((dt : ℂ) * lam / 2).re = dt * lam.re / 2 := by
    rw [show (dt : ℂ) * lam / 2 = (((dt / 2 : ℝ)) : ℂ) * lam by push_cast; ring, Complex.re_ofReal_mul]
    ring
  rw [this, Real.exp_le_one_iff]
  have := mul_nonpos_of_nonneg_of_nonpos hdt hl
  linarith

theorem norm_E4_half_exp_term_le_one (dt : ℝ) (lam r : ℂ) (M : ℕ) (hdt : 0 ≤ dt) (hl : lam.re ≤ 0) :
    ‖E4_half_exp_term (dt : ℂ) lam M r‖ ≤ 1 := by
  rw [C02_half_exp_term_E4, Complex.norm_exp]
  have : ((dt : ℂ) * lam / 2).re = dt * lam.re / 2 := by
    rw [show (dt : ℂ) * lam / 2 = (((dt / 2 : ℝ)) : ℂ) * lam by push_cast; ring, Complex.re_ofReal_mul]
    ring
  rw [this, Real.exp_le_one_iff]
  have := mul_nonpos_of_nonneg_of_nonpos hdt hl
  linarith

/-- **Z3 (`λ = 0`).** the ETDRK1 coefficient at the mean mode is `dt ×` the contour mean of `φ₁`
    centred at `0` … -/
theorem E1_coef_1_at_zero (dt r : ℂ) (M : ℕ) :
    E1_coef_1 dt 0 M r = dt * contourMean (roots_of_unity M) r phi1 0 := by
  have := C02_coef_E1_1 dt 0 r M
  rwa [zero_mul] at this

/-- … and all of its nodes are non-zero (any `M`, any complex radius `r ≠ 0`), so `φ₁` is never
    evaluated at its removable singularity -/
theorem nodes_at_zero_ne_zero (M j : ℕ) (r : ℂ) (hr : r ≠ 0) : r * root_of_unity M j + 0 ≠ 0 :=
  C02_contour_avoids_zero M j r 0 (by
    rw [norm_zero]
    exact (norm_pos_iff.mpr hr).ne)

theorem nodes_at_zero_ne_zero' (M : ℕ) (r : ℂ) (hr : r ≠ 0) :
    ∀ ζ ∈ (roots_of_unity M : List ℂ), r * ζ + 0 ≠ 0 := by
  intro ζ hζ
  simp only [roots_of_unity, List.mem_map, List.mem_range] at hζ
  obtain ⟨i, _, rfl⟩ := hζ
  exact nodes_at_zero_ne_zero M (i + 1) r hr

/-! ### one step stays finite (per mode)

With `‖E‖, ‖E_h‖ ≤ 1` and coefficients bounded by `K` (the theorems above), the new state is
bounded by the old state and the values of the nonlinear term at the stages. -/

theorem norm_E1step_le (E c1 : ℂ) (N : ℂ → ℂ) (u : ℂ) (K : ℝ) (hE : ‖E‖ ≤ 1) (h1 : ‖c1‖ ≤ K) :
    ‖E1step E c1 N u‖ ≤ ‖u‖ + K * ‖N u‖ := by
  simp only [E1step]
  refine norm_add_le_of_le ?_ ?_
  · rw [norm_mul]; exact mul_le_of_le_one_left (norm_nonneg _) hE
  · rw [norm_mul]; exact mul_le_mul_of_nonneg_right h1 (norm_nonneg _)

/-- the final combination of ETDRK4, whatever the stage values `Na`, `Nb`, `Nc` are -/
theorem norm_E4_final_le (E c4 c5 c6 u Nu Na Nb Nc : ℂ) (K : ℝ) (hE : ‖E‖ ≤ 1)
    (h4 : ‖c4‖ ≤ K) (h5 : ‖c5‖ ≤ K) (h6 : ‖c6‖ ≤ K) :
    ‖E * u + c4 * Nu + c5 * 2 * (Na + Nb) + c6 * Nc‖
      ≤ ‖u‖ + K * (‖Nu‖ + 2 * (‖Na‖ + ‖Nb‖) + ‖Nc‖) := by
  have hK : 0 ≤ K := le_trans (norm_nonneg _) h4
  have e1 : ‖E * u‖ ≤ ‖u‖ := by
    rw [norm_mul]; exact mul_le_of_le_one_left (norm_nonneg _) hE
  have e2 : ‖c4 * Nu‖ ≤ K * ‖Nu‖ := by
    rw [norm_mul]; exact mul_le_mul_of_nonneg_right h4 (norm_nonneg _)
  have e3 : ‖c5 * 2 * (Na + Nb)‖ ≤ K * (2 * (‖Na‖ + ‖Nb‖)) := by
    rw [mul_assoc, norm_mul, norm_mul]
    have h2 : ‖(2 : ℂ)‖ = 2 := by simp
    rw [h2]
    exact mul_le_mul h5 (mul_le_mul_of_nonneg_left (norm_add_le _ _) (by norm_num))
      (by positivity) hK
  have e4 : ‖c6 * Nc‖ ≤ K * ‖Nc‖ := by
    rw [norm_mul]; exact mul_le_mul_of_nonneg_right h6 (norm_nonneg _)
  have := norm_add_le_of_le (norm_add_le_of_le (norm_add_le_of_le e1 e2) e3) e4
  linarith

/-- **one ETDRK4 step stays finite**: bounded by `‖u‖` and the nonlinear term at the four stages -/
theorem norm_E4step_le (E Eh c1 c2 c3 c4 c5 c6 : ℂ) (N : ℂ → ℂ) (u : ℂ) (K : ℝ) (hE : ‖E‖ ≤ 1)
    (h4 : ‖c4‖ ≤ K) (h5 : ‖c5‖ ≤ K) (h6 : ‖c6‖ ≤ K) :
    ∃ a b c : ℂ, ‖E4step E Eh c1 c2 c3 c4 c5 c6 N u‖
      ≤ ‖u‖ + K * (‖N u‖ + 2 * (‖N a‖ + ‖N b‖) + ‖N c‖) := by
  refine ⟨Eh * u + c1 * N u, Eh * u + c2 * N (Eh * u + c1 * N u),
    Eh * (Eh * u + c1 * N u) + c3 * (2 * N (Eh * u + c2 * N (Eh * u + c1 * N u)) - N u), ?_⟩
  have := norm_E4_final_le E c4 c5 c6 u (N u) (N (Eh * u + c1 * N u))
    (N (Eh * u + c2 * N (Eh * u + c1 * N u)))
    (N (Eh * (Eh * u + c1 * N u) + c3 * (2 * N (Eh * u + c2 * N (Eh * u + c1 * N u)) - N u)))
    K hE h4 h5 h6
  simpa only [E4step, lit_eq, Nat.cast_ofNat] using this

end Exponax.Stiffness
