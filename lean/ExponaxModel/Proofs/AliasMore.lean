import ExponaxModel.Proofs.AliasNonlin
/-
C03, extras (1-D, real scale `s`):

  * `nifft_rfft_grid`     : `ifft(mask·û)` IS the band truncation `P_K x` sampled on the grid,
  * `dft_nifft_deriv`     : `ifft(mask·(i s k)·û)` has the spectrum `(i s m)·X_m` on the band
                            (it is `∂ₓ P_K x`),
  * non-conservative single-channel convection `u ∂ₓ u` (both code paths that compute it in 1-D),
  * `GradientNormNonlinearFun` in 1-D (with and without the zero-mode fix),
  each alias-free on the retained band with the 2/3 rule and zero outside it.
-/
namespace Exponax.Alias
open Exponax Exponax.Layout Exponax.Transform Exponax.DFT Exponax.Nonlin Finset

/-! ### the band truncation on the grid -/

/-- **A5 (grid form).** `nifft c (rfft x)` is the trigonometric polynomial
    `(1/N) Σ_{|m| ≤ Kc} X_m e^{2πi m j/N}` (`X = dft N x`), i.e. the band truncation `P_K x`,
    sampled at the grid points. -/
theorem nifft_rfft_grid (c : Cfg ℂ) (hD : c.D = 1) (hq : c.fq ≠ 0) (hN : 0 < c.N)
    (h2 : 2 * Kc c < (c.N : ℤ)) (x : Array ℂ) (hx : IsRealField c.N x) (j : ℕ) (hj : j < c.N) :
    (nifft c (rfftnM 1 c.N x)).getD j 0
      = (1 / (c.N : ℂ)) * ∑ m ∈ Finset.Icc (-(Kc c)) (Kc c),
          dft c.N x m * zeta c.N ^ (-(m * (j : ℤ))) := by
  rw [bandLimited_grid c.N hN (Kc c) h2 _ (nifft_bandLimited c hD hq hN _) j hj]
  congr 1
  apply Finset.sum_congr rfl
  intro m hm
  rw [Finset.mem_Icc] at hm
  rw [dft_nifft_rfft c hD hq hN h2 x hx m (abs_le.mpr ⟨hm.1, hm.2⟩)]

/-! ### the derivative field -/

theorem deriv_1d (c : Cfg ℂ) (hD : c.D = 1) (h : ℕ) :
    deriv c 0 h = Complex.I * (c.s * ((h : ℕ) : ℂ)) := by
  rw [deriv_eq]
  unfold kInt
  rw [hD, wnFlat_one]
  simp

/-- the spectrum of `ifft(mask·(i s k)·û)` on the band is `(i s m)·X_m`: the field is `∂ₓ P_K x`
    (`s = 2π/L` real) -/
theorem dft_nifft_deriv (c : Cfg ℂ) (hD : c.D = 1) (hq : c.fq ≠ 0) (hN : 0 < c.N)
    (h2 : 2 * Kc c < (c.N : ℤ)) (s : ℝ) (hs : c.s = (s : ℂ)) (x : Array ℂ) (hx : IsRealField c.N x)
    (m : ℤ) (hm : |m| ≤ Kc c) :
    dft c.N (nifft c (tab (c.N / 2 + 1) fun k => deriv c 0 k * (rfftnM 1 c.N x).getD k 0)) m
      = Complex.I * (c.s * (m : ℂ)) * dft c.N x m := by
  rw [dft_nifft_band c hD hq hN h2 _ m hm]
  have hm' := abs_le.mp hm
  rcases lt_trichotomy m 0 with hneg | hzero | hpos
  · have hk : (-m).toNat ≤ c.N / 2 := by omega
    rw [if_neg (by omega), if_pos hneg, DFT.tab_getD _ _ _ _ (by omega), deriv_1d c hD,
      rfft1_getD c.N hN x _ hk, map_mul, conj_dft c.N x hx, hs]
    have e : (((-m).toNat : ℕ) : ℤ) = -m := Int.toNat_of_nonneg (by omega)
    rw [e, neg_neg]
    have e' : (((-m).toNat : ℕ) : ℂ) = -(m : ℂ) := by
      rw [← Int.cast_natCast, e]; push_cast; ring
    rw [e']
    simp only [map_mul, Complex.conj_I, Complex.conj_ofReal, map_neg]
    have : (starRingEnd ℂ) (m : ℂ) = (m : ℂ) := by
      rw [← Complex.ofReal_intCast, Complex.conj_ofReal]
    rw [this]; ring
  · subst hzero
    rw [if_neg (by omega), if_neg (by omega), DFT.tab_getD _ _ _ _ (by omega), deriv_1d c hD]
    simp
  · have hk : m.toNat ≤ c.N / 2 := by omega
    rw [if_pos hpos, DFT.tab_getD _ _ _ _ (by omega), deriv_1d c hD, rfft1_getD c.N hN x _ hk]
    have e : ((m.toNat : ℕ) : ℤ) = m := Int.toNat_of_nonneg hpos.le
    have e' : ((m.toNat : ℕ) : ℂ) = (m : ℂ) := by rw [← Int.cast_natCast, e]
    rw [e, e']

/-- truncated form of `dft_nifft_deriv` -/
theorem trunc_dft_nifft_deriv (c : Cfg ℂ) (hD : c.D = 1) (hq : c.fq ≠ 0) (hN : 0 < c.N)
    (h2 : 2 * Kc c < (c.N : ℤ)) (s : ℝ) (hs : c.s = (s : ℂ)) (x : Array ℂ) (hx : IsRealField c.N x)
    (m : ℤ) :
    trunc (Kc c)
        (dft c.N (nifft c (tab (c.N / 2 + 1) fun k => deriv c 0 k * (rfftnM 1 c.N x).getD k 0))) m
      = Complex.I * (c.s * (m : ℂ)) * trunc (Kc c) (dft c.N x) m := by
  unfold trunc
  split_ifs with hm
  · exact dft_nifft_deriv c hD hq hN h2 s hs x hx m hm
  · ring

/-! ### non-conservative single-channel convection `u ∂ₓ u`, 1-D -/

/-- pipeline read-off of `ConvectionNonlinearFun(single_channel=True, conservative=False)` in 1-D -/
theorem convection_nc_one_readoff (c : Cfg ℂ) (hD : c.D = 1) (hN : 0 < c.N) (scale : ℂ)
    (uh : Array ℂ) (h : ℕ) (hh : h ≤ c.N / 2) :
    at2 (convection c 1 scale true false #[uh]) 0 h
      = -scale * (mask c h * dft c.N (tab c.N fun j => (nifft c uh).getD j 0 *
          (nifft c (tab (c.N / 2 + 1) fun k => deriv c 0 k * uh.getD k 0)).getD j 0) h) := by
  have hM : h < modes c := by rw [modes_one c hD]; omega
  have hu : ∀ j, at2 (tabC 1 fun ch => nifft c ((#[uh] : MC ℂ).getD ch #[])) 0 j
      = (nifft c uh).getD j 0 := by
    intro j
    rw [at2_tabC _ _ _ _ Nat.zero_lt_one]
    rfl
  have hnab : ∀ j, at2 (tabC 1 fun d => nifft c (tab (c.N / 2 + 1) fun k =>
        deriv c d k * at2 (#[uh] : MC ℂ) 0 k)) 0 j
      = (nifft c (tab (c.N / 2 + 1) fun k => deriv c 0 k * uh.getD k 0)).getD j 0 := by
    intro j
    rw [at2_tabC _ _ _ _ Nat.zero_lt_one]
    rfl
  unfold convection
  simp only [↓reduceIte, Bool.false_eq_true]
  rw [at2_tab2 _ _ _ _ _ Nat.zero_lt_one hM, nfft_one c hD hN _ h hh, gridSize_one c hD,
    modes_one c hD, hD]
  simp only [List.range_one, List.map_cons, List.map_nil]
  simp only [hu, hnab]
  simp [sumList]

/-- the same operator through the multi-channel code path (`single_channel=False`) with one
    channel in 1-D -/
theorem convection_nc_multi_one_readoff (c : Cfg ℂ) (hD : c.D = 1) (hN : 0 < c.N) (scale : ℂ)
    (uh : Array ℂ) (h : ℕ) (hh : h ≤ c.N / 2) :
    at2 (convection c 1 scale false false #[uh]) 0 h
      = -scale * (mask c h * dft c.N (tab c.N fun j => (nifft c uh).getD j 0 *
          (nifft c (tab (c.N / 2 + 1) fun k => deriv c 0 k * uh.getD k 0)).getD j 0) h) := by
  have hM : h < modes c := by rw [modes_one c hD]; omega
  have hu : ∀ j, at2 (tabC 1 fun ch => nifft c ((#[uh] : MC ℂ).getD ch #[])) 0 j
      = (nifft c uh).getD j 0 := by
    intro j
    rw [at2_tabC _ _ _ _ Nat.zero_lt_one]
    rfl
  have hnab : ∀ j, at2 (tabC (1 * 1) fun ij => nifft c (tab (c.N / 2 + 1) fun k =>
        deriv c (ij % 1) k * at2 (#[uh] : MC ℂ) (ij / 1) k)) (0 * 1 + 0) j
      = (nifft c (tab (c.N / 2 + 1) fun k => deriv c 0 k * uh.getD k 0)).getD j 0 := by
    intro j
    rw [at2_tabC _ _ _ _ (by norm_num)]
    rfl
  unfold convection
  simp only [↓reduceIte, Bool.false_eq_true]
  rw [at2_tab2 _ _ _ _ _ Nat.zero_lt_one hM, at2_tabC _ _ _ _ Nat.zero_lt_one,
    nfft_one c hD hN _ h hh, gridSize_one c hD, modes_one c hD]
  have e : ∀ j, sumList ((List.range 1).map fun j' =>
        at2 (tabC 1 fun ch => nifft c ((#[uh] : MC ℂ).getD ch #[])) j' j *
        at2 (tabC (1 * 1) fun ij => nifft c (tab (c.N / 2 + 1) fun k =>
          deriv c (ij % 1) k * at2 (#[uh] : MC ℂ) (ij / 1) k)) (0 * 1 + j') j)
      = (nifft c uh).getD j 0 *
          (nifft c (tab (c.N / 2 + 1) fun k => deriv c 0 k * uh.getD k 0)).getD j 0 := by
    intro j
    simp only [List.range_one, List.map_cons, List.map_nil]
    rw [hu, hnab]
    simp [sumList]
  simp only [e]

/-- the product `P_K u · ∂ₓ P_K u`, alias-free with the 2/3 rule -/
theorem dft_u_ux_nifft_rfft_of_cutoff (c : Cfg ℂ) (hD : c.D = 1) (hq : c.fq ≠ 0) (hK : 3 * Kc c < (c.N : ℤ)) (hN : 0 < c.N)
    (s : ℝ) (hs : c.s = (s : ℂ)) (x : Array ℂ) (hx : IsRealField c.N x) (h : ℤ) (hh : |h| ≤ Kc c) :
    dft c.N (tab c.N fun j => (nifft c (rfftnM 1 c.N x)).getD j 0 *
        (nifft c (tab (c.N / 2 + 1) fun k => deriv c 0 k * (rfftnM 1 c.N x).getD k 0)).getD j 0) h
      = (1 / (c.N : ℂ)) * ∑ m ∈ Finset.Icc (-(Kc c)) (Kc c),
          trunc (Kc c) (dft c.N x) m *
            (Complex.I * (c.s * ((h - m : ℤ) : ℂ)) * trunc (Kc c) (dft c.N x) (h - m)) := by
  have hq0 : c.fq ≠ 0 := hq
  have h3 := hK
  have h2 := two_Kc_lt_of_three c hK
  have hb := nifft_bandLimited c hD hq0 hN (rfftnM 1 c.N x)
  have hb' := nifft_bandLimited c hD hq0 hN
    (tab (c.N / 2 + 1) fun k => deriv c 0 k * (rfftnM 1 c.N x).getD k 0)
  rw [dft_mul_no_alias' c.N hN (Kc c) h3 _ _ hb hb' h hh]
  simp only [trunc_dft_nifft_rfft c hD hq0 hN h2 x hx,
    trunc_dft_nifft_deriv c hD hq0 hN h2 s hs x hx]

/-- **Non-conservative single-channel convection, 1-D, cut-off `3·Kc < N`, e.g. fraction 2/3.**  At a retained stored mode
    the output is `−scale·(1/N) Σ_{m=−Kc}^{Kc} X_m · (i s (h−m)) X_{h−m}`: the coefficient of
    `−b · P_K u · ∂ₓ P_K u`, alias-free; at a dropped mode it is `0`. -/
theorem convection_nc_one_alias_free_of_cutoff (c : Cfg ℂ) (hD : c.D = 1) (hq : c.fq ≠ 0) (hK : 3 * Kc c < (c.N : ℤ))
    (hN : 0 < c.N) (s : ℝ) (hs : c.s = (s : ℂ)) (scale : ℂ) (x : Array ℂ) (hx : IsRealField c.N x)
    (single : Bool) (h : ℕ) (hh : h ≤ c.N / 2) :
    (mask c h = 1 →
      at2 (convection c 1 scale single false #[rfftnM 1 c.N x]) 0 h
        = -scale * ((1 / (c.N : ℂ)) * ∑ m ∈ Finset.Icc (-(Kc c)) (Kc c),
            trunc (Kc c) (dft c.N x) m *
              (Complex.I * (c.s * (((h : ℤ) - m : ℤ) : ℂ)) * trunc (Kc c) (dft c.N x) ((h : ℤ) - m))))
    ∧ (mask c h = 0 → at2 (convection c 1 scale single false #[rfftnM 1 c.N x]) 0 h = 0) := by
  have hq0 : c.fq ≠ 0 := hq
  refine ⟨fun hm => ?_, fun hm => convection_zero_off_band c 1 scale single false _ 0 h hm⟩
  have hk : (h : ℤ) ≤ Kc c := (mask_eq_one_iff c hD hq0 h).mp hm
  have hk' : |(h : ℤ)| ≤ Kc c := by rwa [abs_of_nonneg (by positivity)]
  cases single
  · rw [convection_nc_multi_one_readoff c hD hN scale _ h hh, hm, one_mul,
      dft_u_ux_nifft_rfft_of_cutoff c hD hq hK hN s hs x hx (h : ℤ) hk']
  · rw [convection_nc_one_readoff c hD hN scale _ h hh, hm, one_mul,
      dft_u_ux_nifft_rfft_of_cutoff c hD hq hK hN s hs x hx (h : ℤ) hk']

/-! ### `GradientNormNonlinearFun`, 1-D, one channel -/

/-- the mean-subtraction stage of `gradientNorm`, isolated from the rest of the pipeline -/
theorem gradientNorm_core (N : ℕ) (Qf : ℕ → ℕ → ℂ) (zeroFix : Bool) :
    (tab2 1 N fun ch x =>
        if zeroFix = true then
          at2 (tab2 1 N Qf) ch x
            - (tab 1 fun ch => (sumRange N fun x => at2 (tab2 1 N Qf) ch x) / lit N).getD ch 0
        else at2 (tab2 1 N Qf) ch x).getD 0 #[]
      = tab N (fun x => if zeroFix = true then Qf 0 x - (∑ x ∈ range N, Qf 0 x) / (N : ℂ) else Qf 0 x) := by
  unfold tab2
  rw [Nonlin.tab_getD _ _ _ _ Nat.zero_lt_one]
  apply Nonlin.tab_congr
  intro x hx
  have hQ' : ∀ y, y < N → at2 (tab 1 fun ch => tab N (Qf ch)) 0 y = Qf 0 y := by
    intro y hy
    exact at2_tab2 1 N Qf 0 y Nat.zero_lt_one hy
  beta_reduce
  rw [hQ' x hx, Nonlin.tab_getD _ _ _ _ Nat.zero_lt_one, sumRange_eq,
    Finset.sum_congr rfl (fun y hy => hQ' y (Finset.mem_range.mp hy))]

/-- pipeline read-off of `GradientNormNonlinearFun` (one channel, 1-D): with
    `w = ifft(mask·(i s k)·û)` the output is `−scale·½·mask·DFT[w² (− mean(w²) if zero_mode_fix)]` -/
theorem gradientNorm_one_readoff (c : Cfg ℂ) (hD : c.D = 1) (hN : 0 < c.N) (scale : ℂ)
    (zeroFix : Bool) (uh : Array ℂ) (h : ℕ) (hh : h ≤ c.N / 2) :
    at2 (gradientNorm c 1 scale zeroFix #[uh]) 0 h
      = -scale * ((1 : ℂ) / 2 * (mask c h * dft c.N (tab c.N fun j =>
          if zeroFix = true then
            (nifft c (tab (c.N / 2 + 1) fun k => deriv c 0 k * uh.getD k 0)).getD j 0 *
              (nifft c (tab (c.N / 2 + 1) fun k => deriv c 0 k * uh.getD k 0)).getD j 0
            - (∑ x ∈ range c.N,
                (nifft c (tab (c.N / 2 + 1) fun k => deriv c 0 k * uh.getD k 0)).getD x 0 *
                (nifft c (tab (c.N / 2 + 1) fun k => deriv c 0 k * uh.getD k 0)).getD x 0) / (c.N : ℂ)
          else
            (nifft c (tab (c.N / 2 + 1) fun k => deriv c 0 k * uh.getD k 0)).getD j 0 *
              (nifft c (tab (c.N / 2 + 1) fun k => deriv c 0 k * uh.getD k 0)).getD j 0) h)) := by
  have hM : h < modes c := by rw [modes_one c hD]; omega
  have hg : ∀ x, at2 (tabC (1 * 1) fun cd => nifft c (tab (c.N / 2 + 1) fun k =>
        deriv c (cd % 1) k * at2 (#[uh] : MC ℂ) (cd / 1) k)) (0 * 1 + 0) x
      = (nifft c (tab (c.N / 2 + 1) fun k => deriv c 0 k * uh.getD k 0)).getD x 0 := by
    intro x
    rw [at2_tabC _ _ _ _ (by norm_num)]
    rfl
  unfold gradientNorm
  simp only []
  rw [at2_tab2 _ _ _ _ _ Nat.zero_lt_one hM, at2_tabC _ _ _ _ Nat.zero_lt_one,
    nfft_one c hD hN _ h hh, gridSize_one c hD, modes_one c hD, hD, gradientNorm_core]
  simp only [List.range_one, List.map_cons, List.map_nil, hg]
  simp [sumList]

theorem dft_sub_const (N : ℕ) (hN : 0 < N) (f : ℕ → ℂ) (a : ℂ) (h : ℤ) :
    dft N (tab N fun j => f j - a) h
      = dft N (tab N f) h - (if (N : ℤ) ∣ h then a * (N : ℂ) else 0) := by
  have : (tab N fun j => f j - a) = tab N fun j => f j + (fun _ => -a) j := by
    apply Nonlin.tab_congr; intro j _; ring
  rw [this, dft_add, dft_const N hN]
  split_ifs <;> ring

theorem dft_zero_eq_sum (N : ℕ) (f : ℕ → ℂ) : dft N (tab N f) 0 = ∑ j ∈ range N, f j := by
  rw [dft_tab]; simp

/-- the square `(∂ₓ P_K u)²`, alias-free with the 2/3 rule -/
theorem dft_ux_sq_nifft_rfft_of_cutoff (c : Cfg ℂ) (hD : c.D = 1) (hq : c.fq ≠ 0) (hK : 3 * Kc c < (c.N : ℤ)) (hN : 0 < c.N)
    (s : ℝ) (hs : c.s = (s : ℂ)) (x : Array ℂ) (hx : IsRealField c.N x) (h : ℤ) (hh : |h| ≤ Kc c) :
    dft c.N (tab c.N fun j =>
        (nifft c (tab (c.N / 2 + 1) fun k => deriv c 0 k * (rfftnM 1 c.N x).getD k 0)).getD j 0 *
        (nifft c (tab (c.N / 2 + 1) fun k => deriv c 0 k * (rfftnM 1 c.N x).getD k 0)).getD j 0) h
      = (1 / (c.N : ℂ)) * ∑ m ∈ Finset.Icc (-(Kc c)) (Kc c),
          (Complex.I * (c.s * (m : ℂ)) * trunc (Kc c) (dft c.N x) m) *
            (Complex.I * (c.s * ((h - m : ℤ) : ℂ)) * trunc (Kc c) (dft c.N x) (h - m)) := by
  have hq0 : c.fq ≠ 0 := hq
  have h3 := hK
  have h2 := two_Kc_lt_of_three c hK
  have hb' := nifft_bandLimited c hD hq0 hN
    (tab (c.N / 2 + 1) fun k => deriv c 0 k * (rfftnM 1 c.N x).getD k 0)
  rw [dft_mul_no_alias' c.N hN (Kc c) h3 _ _ hb' hb' h hh]
  simp only [trunc_dft_nifft_deriv c hD hq0 hN h2 s hs x hx]

/-- **`GradientNormNonlinearFun`, 1-D, one channel, cut-off `3·Kc < N`, e.g. fraction 2/3.**  At a retained stored mode the
    output is `−scale·½·(1/N) Σ_{m=−Kc}^{Kc} (i s m X_m)(i s (h−m) X_{h−m})`, the coefficient of
    `−b·½·(∂ₓ P_K u)²`, alias-free — except that the zero-mode fix sets the mean mode `h = 0` to `0`;
    at a dropped mode it is `0`. -/
theorem gradientNorm_one_alias_free_of_cutoff (c : Cfg ℂ) (hD : c.D = 1) (hq : c.fq ≠ 0) (hK : 3 * Kc c < (c.N : ℤ))
    (hN : 0 < c.N) (s : ℝ) (hs : c.s = (s : ℂ)) (scale : ℂ) (zeroFix : Bool) (x : Array ℂ)
    (hx : IsRealField c.N x) (h : ℕ) (hh : h ≤ c.N / 2) :
    (mask c h = 1 →
      at2 (gradientNorm c 1 scale zeroFix #[rfftnM 1 c.N x]) 0 h
        = if zeroFix = true ∧ h = 0 then 0 else
          -scale * (1 / 2) * ((1 / (c.N : ℂ)) * ∑ m ∈ Finset.Icc (-(Kc c)) (Kc c),
            (Complex.I * (c.s * (m : ℂ)) * trunc (Kc c) (dft c.N x) m) *
              (Complex.I * (c.s * (((h : ℤ) - m : ℤ) : ℂ)) * trunc (Kc c) (dft c.N x) ((h : ℤ) - m))))
    ∧ (mask c h = 0 → at2 (gradientNorm c 1 scale zeroFix #[rfftnM 1 c.N x]) 0 h = 0) := by
  have hq0 : c.fq ≠ 0 := hq
  have hNne : (c.N : ℂ) ≠ 0 := by exact_mod_cast hN.ne'
  refine ⟨fun hm => ?_, fun hm => gradientNorm_zero_off_band c 1 scale zeroFix _ 0 h hm⟩
  have hk : (h : ℤ) ≤ Kc c := (mask_eq_one_iff c hD hq0 h).mp hm
  have hk' : |(h : ℤ)| ≤ Kc c := by rwa [abs_of_nonneg (by positivity)]
  have hdvd : ((c.N : ℤ) ∣ (h : ℤ)) ↔ h = 0 := by
    constructor
    · intro hd
      have := Int.eq_zero_of_abs_lt_dvd hd (by rw [abs_lt]; constructor <;> omega)
      omega
    · rintro rfl; simp
  rw [gradientNorm_one_readoff c hD hN scale zeroFix _ h hh, hm, one_mul]
  cases zeroFix
  · simp only [Bool.false_eq_true, if_false, false_and]
    rw [dft_ux_sq_nifft_rfft_of_cutoff c hD hq hK hN s hs x hx (h : ℤ) hk']
    ring
  · simp only [if_true, true_and]
    rw [dft_sub_const c.N hN]
    simp only [hdvd]
    split_ifs with h0
    · subst h0
      rw [Nat.cast_zero, dft_zero_eq_sum]
      field_simp
      ring
    · rw [dft_ux_sq_nifft_rfft_of_cutoff c hD hq hK hN s hs x hx (h : ℤ) hk']
      ring

/-! ### remaining one-channel 1-D code paths; double masking; Cahn–Hilliard -/

theorem mask_mul_self (c : Cfg ℂ) (h : ℕ) : mask c h * mask c h = mask c h := by
  unfold mask
  split_ifs <;> simp

/-- masking twice is masking once (`reaction`, `cahnHilliard` mask before calling `ifft`, which
    masks again) — any dimension -/
theorem nifft_mask_idem (c : Cfg ℂ) (uh : Array ℂ) :
    nifft c (tab (modes c) fun h => mask c h * uh.getD h 0) = nifft c uh := by
  unfold nifft
  congr 1
  apply Nonlin.tab_congr
  intro h hh
  rw [Nonlin.tab_getD _ _ _ _ hh, ← mul_assoc, mask_mul_self]

/-- the multi-channel conservative code path with one channel in 1-D computes the same thing as
    the single-channel conservative one -/
theorem convection_c_multi_one_readoff (c : Cfg ℂ) (hD : c.D = 1) (hN : 0 < c.N) (scale : ℂ)
    (uh : Array ℂ) (h : ℕ) (hh : h ≤ c.N / 2) :
    at2 (convection c 1 scale false true #[uh]) 0 h
      = -scale * ((1 : ℂ) / 2 * deriv c 0 h * (mask c h *
          dft c.N (tab c.N fun j => (nifft c uh).getD j 0 * (nifft c uh).getD j 0) h)) := by
  have hM : h < modes c := by rw [modes_one c hD]; omega
  have hu : ∀ j, at2 (tabC 1 fun ch => nifft c ((#[uh] : MC ℂ).getD ch #[])) 0 j
      = (nifft c uh).getD j 0 := by
    intro j
    rw [at2_tabC _ _ _ _ Nat.zero_lt_one]
    rfl
  unfold convection
  simp only [↓reduceIte, Bool.false_eq_true]
  rw [at2_tab2 _ _ _ _ _ Nat.zero_lt_one hM]
  simp only [List.range_one, List.map_cons, List.map_nil]
  rw [at2_tabC _ _ _ _ (by norm_num), nfft_one c hD hN _ h hh, gridSize_one c hD]
  simp only [Nat.zero_mod, Nat.zero_div, Nat.mul_one, Nat.add_zero, hu]
  simp only [sumList, List.foldl, qlit_eq, Nat.cast_one, Nat.cast_ofNat, zero_add]
  ring

theorem cahnHilliard_one_readoff (c : Cfg ℂ) (hD : c.D = 1) (hN : 0 < c.N) (scale : ℂ)
    (uh : Array ℂ) (h : ℕ) (hh : h ≤ c.N / 2) :
    at2 (cahnHilliard c scale #[uh]) 0 h
      = laplace c 2 h * (mask c h * dft c.N (tab c.N fun j =>
          (nifft c uh).getD j 0 * (nifft c uh).getD j 0 * (nifft c uh).getD j 0) h) * scale := by
  have hM : h < modes c := by rw [modes_one c hD]; omega
  have e : (tab (modes c) fun h => mask c h * at2 (#[uh] : MC ℂ) 0 h)
      = tab (modes c) fun h => mask c h * uh.getD h 0 := rfl
  unfold cahnHilliard
  simp only []
  rw [at2_tab2 _ _ _ _ _ Nat.zero_lt_one hM, nfft_one c hD hN _ h hh, gridSize_one c hD, e,
    nifft_mask_idem]

/-- **A6 for both code paths.** `ConvectionNonlinearFun(conservative=True)` with one channel in
    1-D, `single_channel` either way: same alias-free statement as `convection_one_alias_free_of_cutoff`. -/
theorem convection_c_one_alias_free_of_cutoff (c : Cfg ℂ) (hD : c.D = 1) (hq : c.fq ≠ 0) (hK : 3 * Kc c < (c.N : ℤ))
    (hN : 0 < c.N) (scale : ℂ) (x : Array ℂ) (hx : IsRealField c.N x) (single : Bool)
    (h : ℕ) (hh : h ≤ c.N / 2) :
    (mask c h = 1 →
      at2 (convection c 1 scale single true #[rfftnM 1 c.N x]) 0 h
        = -scale * (1 / 2) * deriv c 0 h *
            ((1 / (c.N : ℂ)) * ∑ m ∈ Finset.Icc (-(Kc c)) (Kc c),
              trunc (Kc c) (dft c.N x) m * trunc (Kc c) (dft c.N x) ((h : ℤ) - m)))
    ∧ (mask c h = 0 →
      at2 (convection c 1 scale single true #[rfftnM 1 c.N x]) 0 h = 0) := by
  cases single
  · have hq0 : c.fq ≠ 0 := hq
    refine ⟨fun hm => ?_, fun hm => convection_zero_off_band c 1 scale false true _ 0 h hm⟩
    have hk : (h : ℤ) ≤ Kc c := (mask_eq_one_iff c hD hq0 h).mp hm
    have hk' : |(h : ℤ)| ≤ Kc c := by rwa [abs_of_nonneg (by positivity)]
    rw [convection_c_multi_one_readoff c hD hN scale _ h hh, hm,
      dft_sq_nifft_rfft_of_cutoff c hD hq hK hN x hx (h : ℤ) hk']
    ring
  · exact convection_one_alias_free_of_cutoff c hD hq hK hN scale x hx h hh

/-- **`CahnHilliardNonlinearFun`, 1-D, cut-off `4·Kc < N`, e.g. fraction 1/2.**  At a retained stored mode the output is
    `scale · Δ̂_h · (1/N²) Σ_a Σ_b X_a X_b X_{h−a−b}` over the band: the coefficient of
    `scale · Δ (P_K u)³`, alias-free (`4Kc < N`); at a dropped mode it is `0`. -/
theorem cahnHilliard_one_alias_free_of_cutoff (c : Cfg ℂ) (hD : c.D = 1) (hq : c.fq ≠ 0) (hK : 4 * Kc c < (c.N : ℤ))
    (hN : 0 < c.N) (scale : ℂ) (x : Array ℂ) (hx : IsRealField c.N x) (h : ℕ) (hh : h ≤ c.N / 2) :
    (mask c h = 1 →
      at2 (cahnHilliard c scale #[rfftnM 1 c.N x]) 0 h
        = laplace c 2 h * ((1 / (c.N : ℂ) ^ 2) *
            ∑ a ∈ Finset.Icc (-(Kc c)) (Kc c), ∑ b ∈ Finset.Icc (-(Kc c)) (Kc c),
              trunc (Kc c) (dft c.N x) a * trunc (Kc c) (dft c.N x) b
                * trunc (Kc c) (dft c.N x) ((h : ℤ) - a - b)) * scale)
    ∧ (mask c h = 0 → at2 (cahnHilliard c scale #[rfftnM 1 c.N x]) 0 h = 0) := by
  have hq0 : c.fq ≠ 0 := hq
  refine ⟨fun hm => ?_, fun hm => cahnHilliard_zero_off_band c scale _ 0 h hm⟩
  have hk : (h : ℤ) ≤ Kc c := (mask_eq_one_iff c hD hq0 h).mp hm
  have hk' : |(h : ℤ)| ≤ Kc c := by rwa [abs_of_nonneg (by positivity)]
  rw [cahnHilliard_one_readoff c hD hN scale _ h hh, hm, one_mul,
    dft_cube_nifft_rfft_of_cutoff c hD hq hK hN x hx (h : ℤ) hk']


/-! ### corollaries for the documented fractions 2/3 and 1/2 (literal `fp`, `fq`) -/

/-- `dft_u_ux_nifft_rfft_of_cutoff` for the documented fraction 2/3 -/
theorem dft_u_ux_nifft_rfft (c : Cfg ℂ) (hD : c.D = 1) (hp : c.fp = 2) (hq : c.fq = 3) (hN : 0 < c.N)
    (s : ℝ) (hs : c.s = (s : ℂ)) (x : Array ℂ) (hx : IsRealField c.N x) (h : ℤ) (hh : |h| ≤ Kc c) :
    dft c.N (tab c.N fun j => (nifft c (rfftnM 1 c.N x)).getD j 0 *
        (nifft c (tab (c.N / 2 + 1) fun k => deriv c 0 k * (rfftnM 1 c.N x).getD k 0)).getD j 0) h
      = (1 / (c.N : ℂ)) * ∑ m ∈ Finset.Icc (-(Kc c)) (Kc c),
          trunc (Kc c) (dft c.N x) m *
            (Complex.I * (c.s * ((h - m : ℤ) : ℂ)) * trunc (Kc c) (dft c.N x) (h - m)) :=
  dft_u_ux_nifft_rfft_of_cutoff c hD (by omega) (Kc_two_thirds c hp hq).1 hN s hs x hx h hh

/-- `convection_nc_one_alias_free_of_cutoff` for the documented fraction 2/3 -/
theorem convection_nc_one_alias_free (c : Cfg ℂ) (hD : c.D = 1) (hp : c.fp = 2) (hq : c.fq = 3)
    (hN : 0 < c.N) (s : ℝ) (hs : c.s = (s : ℂ)) (scale : ℂ) (x : Array ℂ) (hx : IsRealField c.N x)
    (single : Bool) (h : ℕ) (hh : h ≤ c.N / 2) :
    (mask c h = 1 →
      at2 (convection c 1 scale single false #[rfftnM 1 c.N x]) 0 h
        = -scale * ((1 / (c.N : ℂ)) * ∑ m ∈ Finset.Icc (-(Kc c)) (Kc c),
            trunc (Kc c) (dft c.N x) m *
              (Complex.I * (c.s * (((h : ℤ) - m : ℤ) : ℂ)) * trunc (Kc c) (dft c.N x) ((h : ℤ) - m))))
    ∧ (mask c h = 0 → at2 (convection c 1 scale single false #[rfftnM 1 c.N x]) 0 h = 0) :=
  convection_nc_one_alias_free_of_cutoff c hD (by omega) (Kc_two_thirds c hp hq).1 hN s hs scale x hx single h hh

/-- `dft_ux_sq_nifft_rfft_of_cutoff` for the documented fraction 2/3 -/
theorem dft_ux_sq_nifft_rfft (c : Cfg ℂ) (hD : c.D = 1) (hp : c.fp = 2) (hq : c.fq = 3) (hN : 0 < c.N)
    (s : ℝ) (hs : c.s = (s : ℂ)) (x : Array ℂ) (hx : IsRealField c.N x) (h : ℤ) (hh : |h| ≤ Kc c) :
    dft c.N (tab c.N fun j =>
        (nifft c (tab (c.N / 2 + 1) fun k => deriv c 0 k * (rfftnM 1 c.N x).getD k 0)).getD j 0 *
        (nifft c (tab (c.N / 2 + 1) fun k => deriv c 0 k * (rfftnM 1 c.N x).getD k 0)).getD j 0) h
      = (1 / (c.N : ℂ)) * ∑ m ∈ Finset.Icc (-(Kc c)) (Kc c),
          (Complex.I * (c.s * (m : ℂ)) * trunc (Kc c) (dft c.N x) m) *
            (Complex.I * (c.s * ((h - m : ℤ) : ℂ)) * trunc (Kc c) (dft c.N x) (h - m)) :=
  dft_ux_sq_nifft_rfft_of_cutoff c hD (by omega) (Kc_two_thirds c hp hq).1 hN s hs x hx h hh

/-- `gradientNorm_one_alias_free_of_cutoff` for the documented fraction 2/3 -/
theorem gradientNorm_one_alias_free (c : Cfg ℂ) (hD : c.D = 1) (hp : c.fp = 2) (hq : c.fq = 3)
    (hN : 0 < c.N) (s : ℝ) (hs : c.s = (s : ℂ)) (scale : ℂ) (zeroFix : Bool) (x : Array ℂ)
    (hx : IsRealField c.N x) (h : ℕ) (hh : h ≤ c.N / 2) :
    (mask c h = 1 →
      at2 (gradientNorm c 1 scale zeroFix #[rfftnM 1 c.N x]) 0 h
        = if zeroFix = true ∧ h = 0 then 0 else
          -scale * (1 / 2) * ((1 / (c.N : ℂ)) * ∑ m ∈ Finset.Icc (-(Kc c)) (Kc c),
            (Complex.I * (c.s * (m : ℂ)) * trunc (Kc c) (dft c.N x) m) *
              (Complex.I * (c.s * (((h : ℤ) - m : ℤ) : ℂ)) * trunc (Kc c) (dft c.N x) ((h : ℤ) - m))))
    ∧ (mask c h = 0 → at2 (gradientNorm c 1 scale zeroFix #[rfftnM 1 c.N x]) 0 h = 0) :=
  gradientNorm_one_alias_free_of_cutoff c hD (by omega) (Kc_two_thirds c hp hq).1 hN s hs scale zeroFix x hx h hh

/-- `convection_c_one_alias_free_of_cutoff` for the documented fraction 2/3 -/
theorem convection_c_one_alias_free (c : Cfg ℂ) (hD : c.D = 1) (hp : c.fp = 2) (hq : c.fq = 3)
    (hN : 0 < c.N) (scale : ℂ) (x : Array ℂ) (hx : IsRealField c.N x) (single : Bool)
    (h : ℕ) (hh : h ≤ c.N / 2) :
    (mask c h = 1 →
      at2 (convection c 1 scale single true #[rfftnM 1 c.N x]) 0 h
        = -scale * (1 / 2) * deriv c 0 h *
            ((1 / (c.N : ℂ)) * ∑ m ∈ Finset.Icc (-(Kc c)) (Kc c),
              trunc (Kc c) (dft c.N x) m * trunc (Kc c) (dft c.N x) ((h : ℤ) - m)))
    ∧ (mask c h = 0 →
      at2 (convection c 1 scale single true #[rfftnM 1 c.N x]) 0 h = 0) :=
  convection_c_one_alias_free_of_cutoff c hD (by omega) (Kc_two_thirds c hp hq).1 hN scale x hx single h hh

/-- `cahnHilliard_one_alias_free_of_cutoff` for the documented fraction 1/2 -/
theorem cahnHilliard_one_alias_free (c : Cfg ℂ) (hD : c.D = 1) (hp : c.fp = 1) (hq : c.fq = 2)
    (hN : 0 < c.N) (scale : ℂ) (x : Array ℂ) (hx : IsRealField c.N x) (h : ℕ) (hh : h ≤ c.N / 2) :
    (mask c h = 1 →
      at2 (cahnHilliard c scale #[rfftnM 1 c.N x]) 0 h
        = laplace c 2 h * ((1 / (c.N : ℂ) ^ 2) *
            ∑ a ∈ Finset.Icc (-(Kc c)) (Kc c), ∑ b ∈ Finset.Icc (-(Kc c)) (Kc c),
              trunc (Kc c) (dft c.N x) a * trunc (Kc c) (dft c.N x) b
                * trunc (Kc c) (dft c.N x) ((h : ℤ) - a - b)) * scale)
    ∧ (mask c h = 0 → at2 (cahnHilliard c scale #[rfftnM 1 c.N x]) 0 h = 0) :=
  cahnHilliard_one_alias_free_of_cutoff c hD (by omega) (Kc_half c hp hq) hN scale x hx h hh

end Exponax.Alias
