import ExponaxModel.Proofs.AliasMultiOperators2
import ExponaxModel.Proofs.AliasND2Examples
/-
Non-vacuity of the hypotheses of `Proofs/AliasMulti*.lean` and the headline theorems instantiated at the witnesses
(`cfg23 D`: `N = 8`, `s = 1`, fraction 2/3, `Kc = 1`; `cfg12 D`: fraction 1/2; `cfg23odd D`: `N = 9`).
-/
set_option linter.unusedVariables false
namespace Exponax.AliasMulti
open Exponax Exponax.Layout Exponax.Transform Exponax.DFT Exponax.Nonlin Exponax.Alias Exponax.AliasND Finset

/-- a two-channel spectrum in `D = 3` with different real channels -/
noncomputable def uh2 (D : ℕ) : MC ℂ := #[rfftnM D 8 (ramp (8 ^ D)), rfftnM D 8 (tab (8 ^ D) fun _ => (1 : ℂ))]

noncomputable def xs2 (D : ℕ) : ℕ → Array ℂ := fun ch => if ch = 0 then ramp (8 ^ D) else tab (8 ^ D) fun _ => (1 : ℂ)

theorem xs2_real (D ch : ℕ) : IsRealND D 8 (xs2 D ch) := by
  unfold xs2
  split_ifs
  · exact ramp_real D 8
  · exact const_real D 8

theorem uh2_eq (D ch : ℕ) (hch : ch < 2) : (uh2 D).getD ch #[] = rfftnM D 8 (xs2 D ch) := by
  interval_cases ch <;> rfl

/-- hypotheses of the `C`-channel theorems (T2), quadratic cut-off: `C = 2` channels in `D = 3`, a retained and a dropped
    mode -/
example : ∃ (c : Cfg ℂ) (s : ℝ) (C : ℕ) (uh : MC ℂ) (xs : ℕ → Array ℂ) (ch h h' : ℕ),
    0 < c.D ∧ c.fq ≠ 0 ∧ 3 * Kc c < (c.N : ℤ) ∧ 0 < c.N ∧ c.s = (s : ℂ) ∧ 1 < C ∧
    (∀ ch, ch < C → IsRealND c.D c.N (xs ch)) ∧
    (∀ ch, ch < C → uh.getD ch #[] = rfftnM c.D c.N (xs ch)) ∧ ch < C ∧ 0 < ch ∧ h < numModes c.D c.N ∧
    mask c h = 1 ∧ h' < numModes c.D c.N ∧ mask c h' = 0 :=
  ⟨cfg23 3, 1, 2, uh2 3, xs2 3, 1, 0, 2, by decide, by decide, by decide, by decide, cfg23_s 3, by decide,
    fun ch _ => xs2_real 3 ch, fun ch hch => uh2_eq 3 ch hch, by decide, by decide, by decide,
    mask_zero_mode _ (by decide) (by decide), by decide, by
      unfold mask
      rw [if_neg (by decide), if_neg (by decide)]⟩

/-- … cubic cut-off -/
example : ∃ (c : Cfg ℂ) (C : ℕ) (uh : MC ℂ) (xs : ℕ → Array ℂ) (ch h : ℕ),
    0 < c.D ∧ c.fq ≠ 0 ∧ 4 * Kc c < (c.N : ℤ) ∧ 0 < c.N ∧ 1 < C ∧
    (∀ ch, ch < C → IsRealND c.D c.N (xs ch)) ∧
    (∀ ch, ch < C → uh.getD ch #[] = rfftnM c.D c.N (xs ch)) ∧ ch < C ∧ h < numModes c.D c.N ∧
    mask c h = 1 :=
  ⟨cfg12 2, 2, uh2 2, xs2 2, 1, 0, by decide, by decide, by decide, by decide, by decide,
    fun ch _ => xs2_real 2 ch, fun ch hch => uh2_eq 2 ch hch, by decide, by decide,
    mask_zero_mode _ (by decide) (by decide)⟩

/-- hypotheses of the continuous statements: additionally `s ≠ 0`, `0 ≤ Kc`, a finer grid `M > 3·Kc` -/
example : ∃ (c : Cfg ℂ) (s : ℝ) (x : Array ℂ) (M h : ℕ),
    0 < c.D ∧ c.fq ≠ 0 ∧ 3 * Kc c < (c.N : ℤ) ∧ 0 < c.N ∧ c.s = (s : ℂ) ∧ s ≠ 0 ∧ 0 ≤ Kc c ∧
    IsRealND c.D c.N x ∧ 3 * Kc c < (M : ℤ) ∧ c.N < M ∧ h < numModes c.D c.N ∧ mask c h = 1 ∧ h ≠ 0 :=
  ⟨cfg23 2, 1, ramp (8 ^ 2), 32, 1, by decide, by decide, by decide, by decide, cfg23_s 2, one_ne_zero, by decide,
    ramp_real 2 8, by decide, by decide, by decide, by
      rw [mask_nd_eq_one_iff _ (by decide)]
      decide, by decide⟩

/-! ### the headline theorems instantiated -/

example (c0 c1 c2 : ℂ) (ch : ℕ) (hch : ch < 2) (h : ℕ) (hh : h < numModes 3 8) :=
  polynomial_quadratic_alias_free_nd_channels (cfg23 3) (by decide) (by decide) (by decide) (by decide) 2 c0 c1 c2
    (uh2 3) (xs2 3) (fun ch _ => xs2_real 3 ch) (fun ch hch => uh2_eq 3 ch hch) ch hch h hh

example (c0 c1 c2 c3 : ℂ) (ch : ℕ) (hch : ch < 2) (h : ℕ) (hh : h < numModes 2 8) :=
  polynomial_cubic_alias_free_nd_channels (cfg12 2) (by decide) (by decide) (by decide) (by decide) 2 c0 c1 c2 c3
    (uh2 2) (xs2 2) (fun ch _ => xs2_real 2 ch) (fun ch hch => uh2_eq 2 ch hch) ch hch h hh

example (scale : ℂ) (zf : Bool) (ch : ℕ) (hch : ch < 2) (h : ℕ) (hh : h < numModes 3 8) :=
  gradientNorm_alias_free_nd_channels (cfg23 3) (by decide) (by decide) (by decide) (by decide) 1 (cfg23_s 3) 2
    scale zf (uh2 3) (xs2 3) (fun ch _ => xs2_real 3 ch) (fun ch hch => uh2_eq 3 ch hch) ch hch h hh

example (s0 s1 s2 : ℂ) (zf : Bool) (ch : ℕ) (hch : ch < 2) (h : ℕ) (hh : h < numModes 3 8) :=
  general_alias_free_nd_channels (cfg23 3) (by decide) (by decide) (by decide) (by decide) 1 (cfg23_s 3) 2
    s0 s1 s2 zf (uh2 3) (xs2 3) (fun ch _ => xs2_real 3 ch) (fun ch hch => uh2_eq 3 ch hch) ch hch h hh

example (scale : ℂ) (h : ℕ) (hh : h < numModes 3 8) :=
  convection_single_nc_nd_explicit (cfg23 3) (by decide) (by decide) (by decide) (by decide) 1 (cfg23_s 3) scale _
    (ramp_real 3 8) h hh

example (b : ℂ) :=
  convection_conservative_continuous_nd (cfg23 3) (by decide) (by decide) (by decide) (by decide) 1 (cfg23_s 3) b _
    (ramp_real 3 8)

example (b : ℂ) (zf : Bool) :=
  gradientNorm_continuous_nd (cfg23odd 2) (by decide) (by decide) (by decide) (by decide) 1 (cfg23odd_s 2) b zf _
    (ramp_real 2 9)

example (b : ℂ) (h : ℕ) (hh : h < numModes 2 8) (hm : mask (cfg23 2) h = 1) :=
  convection_conservative_fine_grid (cfg23 2) (by decide) (by decide) (by decide) (by decide) 1 (cfg23_s 2)
    one_ne_zero b _ (ramp_real 2 8) 32 (by decide) h hh hm

example (c0 c1 c2 c3 : ℂ) :=
  polynomial_cubic_continuous_nd (cfg12 3) (by decide) (by decide) (by decide) (by decide) 1 c0 c1 c2 c3 _
    (ramp_real 3 8)

example (b : ℂ) :=
  convection_single_nc_continuous_nd (cfg23 3) (by decide) (by decide) (by decide) (by decide) 1 (cfg23_s 3) b _
    (ramp_real 3 8)

end Exponax.AliasMulti
