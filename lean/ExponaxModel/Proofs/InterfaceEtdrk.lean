import ExponaxModel.Properties.C13
/-
C13 support, part 2 (T2, abstract): one ETDRK-`p` step (`p = 0 … 4`) assembled from the REGENERATED pieces
(`Gen.Etdrk.exp_term`, `E?_half_exp_term`, `E?_coef_i`, `E?step`) depends on `(dt, λ, N)` only through
`(dt·λ, dt·N)`:

    step_p(dt, λ, N) = step_p(1, dt·λ, dt·N)

for a single mode (`etdrkMode`, state `ℂ`, `N : ℂ → ℂ` arbitrary) and for whole stored multi-channel spectra
(`etdrkStep`, state `Spec = ℕ → ℕ → ℂ`: channel → flat stored mode → value, the convention of
`Proofs/EquivarianceNDSteps.lean`; the symbol `λ` is an arbitrary array, `N : Spec → Spec` an arbitrary map).

`etdrkMode` / `etdrkStep` are the ASSEMBLY (this is what `exponax/etdrk/_etdrk_?.py` does in `__init__` +
`step_fourier`): coefficient arrays computed entrywise from `dt` and the linear operator by the regenerated coefficient
functions, then the regenerated stage formulas; they contain no formula of their own (`etdrkStep_order?` are `rfl`).
For `p > 4` the source raises `NotImplementedError` (`GuardsGen.BaseStepper_init_accepts`); the assembly returns the state
unchanged there (the theorems hold trivially for those `p`).

All seven `C13_coef_scaling` facts are extended to the coefficients it does not list (`E3_coef_1…5`, `E4_coef_2`,
`E4_coef_3`, both `half_exp_term`s).
-/
set_option linter.unusedVariables false
namespace Exponax.Interface
open Exponax Exponax.Gen.Etdrk

/-- whole stored spectra of a multi-channel state: channel → flat stored mode → value -/
abbrev Spec := ℕ → ℕ → ℂ

/-! ## the assembled steps -/

/-- one ETDRK-`p` step of a single mode with time step `dt`, linear symbol `lam`, `M` contour points of radius `r` and
    nonlinear map `N`: the regenerated coefficients fed to the regenerated stage formulas -/
noncomputable def etdrkMode (p : ℕ) (dt lam : ℂ) (M : ℕ) (r : ℂ) (N : ℂ → ℂ) (u : ℂ) : ℂ :=
  match p with
  | 0 => E0step (exp_term dt lam) u
  | 1 => E1step (exp_term dt lam) (E1_coef_1 dt lam M r) N u
  | 2 => E2step (exp_term dt lam) (E2_coef_1 dt lam M r) (E2_coef_2 dt lam M r) N u
  | 3 => E3step (exp_term dt lam) (E3_half_exp_term dt lam M r) (E3_coef_1 dt lam M r) (E3_coef_2 dt lam M r)
          (E3_coef_3 dt lam M r) (E3_coef_4 dt lam M r) (E3_coef_5 dt lam M r) N u
  | 4 => E4step (exp_term dt lam) (E4_half_exp_term dt lam M r) (E4_coef_1 dt lam M r) (E4_coef_2 dt lam M r)
          (E4_coef_3 dt lam M r) (E4_coef_4 dt lam M r) (E4_coef_5 dt lam M r) (E4_coef_6 dt lam M r) N u
  | _ => u

/-- one ETDRK-`p` step of a whole stored multi-channel spectrum: coefficient ARRAYS computed entrywise from `dt` and
    the symbol array `lam` (`ETDRK?.__init__`), then the stage formulas on arrays (`ETDRK?.step_fourier`) -/
noncomputable def etdrkStep (p : ℕ) (dt : ℂ) (lam : Spec) (M : ℕ) (r : ℂ) (N : Spec → Spec) (u : Spec) : Spec :=
  match p with
  | 0 => E0step (fun ch h => exp_term dt (lam ch h)) u
  | 1 => E1step (fun ch h => exp_term dt (lam ch h)) (fun ch h => E1_coef_1 dt (lam ch h) M r) N u
  | 2 => E2step (fun ch h => exp_term dt (lam ch h)) (fun ch h => E2_coef_1 dt (lam ch h) M r)
          (fun ch h => E2_coef_2 dt (lam ch h) M r) N u
  | 3 => E3step (fun ch h => exp_term dt (lam ch h)) (fun ch h => E3_half_exp_term dt (lam ch h) M r)
          (fun ch h => E3_coef_1 dt (lam ch h) M r) (fun ch h => E3_coef_2 dt (lam ch h) M r)
          (fun ch h => E3_coef_3 dt (lam ch h) M r) (fun ch h => E3_coef_4 dt (lam ch h) M r)
          (fun ch h => E3_coef_5 dt (lam ch h) M r) N u
  | 4 => E4step (fun ch h => exp_term dt (lam ch h)) (fun ch h => E4_half_exp_term dt (lam ch h) M r)
          (fun ch h => E4_coef_1 dt (lam ch h) M r) (fun ch h => E4_coef_2 dt (lam ch h) M r)
          (fun ch h => E4_coef_3 dt (lam ch h) M r) (fun ch h => E4_coef_4 dt (lam ch h) M r)
          (fun ch h => E4_coef_5 dt (lam ch h) M r) (fun ch h => E4_coef_6 dt (lam ch h) M r) N u
  | _ => u

theorem etdrkStep_order0 (dt : ℂ) (lam : Spec) (M : ℕ) (r : ℂ) (N : Spec → Spec) (u : Spec) :
    etdrkStep 0 dt lam M r N u = E0step (fun ch h => exp_term dt (lam ch h)) u := rfl

theorem etdrkStep_order1 (dt : ℂ) (lam : Spec) (M : ℕ) (r : ℂ) (N : Spec → Spec) (u : Spec) :
    etdrkStep 1 dt lam M r N u
      = E1step (fun ch h => exp_term dt (lam ch h)) (fun ch h => E1_coef_1 dt (lam ch h) M r) N u := rfl

theorem etdrkStep_order2 (dt : ℂ) (lam : Spec) (M : ℕ) (r : ℂ) (N : Spec → Spec) (u : Spec) :
    etdrkStep 2 dt lam M r N u
      = E2step (fun ch h => exp_term dt (lam ch h)) (fun ch h => E2_coef_1 dt (lam ch h) M r)
          (fun ch h => E2_coef_2 dt (lam ch h) M r) N u := rfl

theorem etdrkStep_order3 (dt : ℂ) (lam : Spec) (M : ℕ) (r : ℂ) (N : Spec → Spec) (u : Spec) :
    etdrkStep 3 dt lam M r N u
      = E3step (fun ch h => exp_term dt (lam ch h)) (fun ch h => E3_half_exp_term dt (lam ch h) M r)
          (fun ch h => E3_coef_1 dt (lam ch h) M r) (fun ch h => E3_coef_2 dt (lam ch h) M r)
          (fun ch h => E3_coef_3 dt (lam ch h) M r) (fun ch h => E3_coef_4 dt (lam ch h) M r)
          (fun ch h => E3_coef_5 dt (lam ch h) M r) N u := rfl

theorem etdrkStep_order4 (dt : ℂ) (lam : Spec) (M : ℕ) (r : ℂ) (N : Spec → Spec) (u : Spec) :
    etdrkStep 4 dt lam M r N u
      = E4step (fun ch h => exp_term dt (lam ch h)) (fun ch h => E4_half_exp_term dt (lam ch h) M r)
          (fun ch h => E4_coef_1 dt (lam ch h) M r) (fun ch h => E4_coef_2 dt (lam ch h) M r)
          (fun ch h => E4_coef_3 dt (lam ch h) M r) (fun ch h => E4_coef_4 dt (lam ch h) M r)
          (fun ch h => E4_coef_5 dt (lam ch h) M r) (fun ch h => E4_coef_6 dt (lam ch h) M r) N u := rfl

/-- the linear stepper (`order = 0`) of a whole spectrum is the single-mode propagator at every entry -/
theorem etdrkStep_order0_apply (dt : ℂ) (lam : Spec) (M : ℕ) (r : ℂ) (N : Spec → Spec) (u : Spec) (ch h : ℕ) :
    etdrkStep 0 dt lam M r N u ch h = etdrkMode 0 dt (lam ch h) M r (fun z => z) (u ch h) := rfl

/-! ## every regenerated coefficient depends on `(dt, λ)` as `dt × f(dt·λ)` -/

theorem E3_half_exp_term_scaling (dt lam r : ℂ) (M : ℕ) :
    E3_half_exp_term dt lam M r = E3_half_exp_term 1 (dt * lam) M r := by
  simp only [E3_half_exp_term, mul_one, mul_assoc]

theorem E4_half_exp_term_scaling (dt lam r : ℂ) (M : ℕ) :
    E4_half_exp_term dt lam M r = E4_half_exp_term 1 (dt * lam) M r := by
  simp only [E4_half_exp_term, mul_one, mul_assoc]

/-- all fourteen coefficient functions: `coef(dt, λ) = dt · coef(1, dt·λ)` -/
theorem coef_scaling (dt lam r : ℂ) (M : ℕ) :
    E1_coef_1 dt lam M r = dt * E1_coef_1 1 (dt * lam) M r ∧
    E2_coef_1 dt lam M r = dt * E2_coef_1 1 (dt * lam) M r ∧
    E2_coef_2 dt lam M r = dt * E2_coef_2 1 (dt * lam) M r ∧
    E3_coef_1 dt lam M r = dt * E3_coef_1 1 (dt * lam) M r ∧
    E3_coef_2 dt lam M r = dt * E3_coef_2 1 (dt * lam) M r ∧
    E3_coef_3 dt lam M r = dt * E3_coef_3 1 (dt * lam) M r ∧
    E3_coef_4 dt lam M r = dt * E3_coef_4 1 (dt * lam) M r ∧
    E3_coef_5 dt lam M r = dt * E3_coef_5 1 (dt * lam) M r ∧
    E4_coef_1 dt lam M r = dt * E4_coef_1 1 (dt * lam) M r ∧
    E4_coef_2 dt lam M r = dt * E4_coef_2 1 (dt * lam) M r ∧
    E4_coef_3 dt lam M r = dt * E4_coef_3 1 (dt * lam) M r ∧
    E4_coef_4 dt lam M r = dt * E4_coef_4 1 (dt * lam) M r ∧
    E4_coef_5 dt lam M r = dt * E4_coef_5 1 (dt * lam) M r ∧
    E4_coef_6 dt lam M r = dt * E4_coef_6 1 (dt * lam) M r := by
  rw [mul_comm dt lam]
  simp only [E1_coef_1, E2_coef_1, E2_coef_2, E3_coef_1, E3_coef_2, E3_coef_3, E3_coef_4, E3_coef_5, E4_coef_1,
    E4_coef_2, E4_coef_3, E4_coef_4, E4_coef_5, E4_coef_6, mul_one, one_mul, and_self]

/-! ## T2 (abstract): `step(dt, λ, N) = step(1, dt·λ, dt·N)` -/

/-- **T2, single mode**, `N : ℂ → ℂ` arbitrary, every order. -/
theorem etdrkMode_rescale (p : ℕ) (dt lam : ℂ) (M : ℕ) (r : ℂ) (N : ℂ → ℂ) (u : ℂ) :
    etdrkMode p dt lam M r N u = etdrkMode p 1 (dt * lam) M r (fun v => dt * N v) u := by
  obtain ⟨h1, h21, h22, h31, h32, h33, h34, h35, h41, h42, h43, h44, h45, h46⟩ := coef_scaling dt lam r M
  have hs := C13_step_scaling (V := ℂ) dt (exp_term 1 (dt * lam))
  match p with
  | 0 => simp only [etdrkMode, C13_exp_term_scaling dt lam]
  | 1 =>
    simp only [etdrkMode]
    rw [C13_exp_term_scaling dt lam, h1]
    exact (hs 0 _ 0 0 0 0 0 N u).1
  | 2 =>
    simp only [etdrkMode]
    rw [C13_exp_term_scaling dt lam, h21, h22]
    exact (hs 0 _ _ 0 0 0 0 N u).2.1
  | 3 =>
    simp only [etdrkMode]
    rw [C13_exp_term_scaling dt lam, E3_half_exp_term_scaling, h31, h32, h33, h34, h35]
    exact (hs _ _ _ _ _ _ 0 N u).2.2.1
  | 4 =>
    simp only [etdrkMode]
    rw [C13_exp_term_scaling dt lam, E4_half_exp_term_scaling, h41, h42, h43, h44, h45, h46]
    exact (hs _ _ _ _ _ _ _ N u).2.2.2
  | (n + 5) => rfl

/-- **T2, whole spectrum**, arbitrary symbol array, `N : Spec → Spec` arbitrary, every order. -/
theorem etdrkStep_rescale (p : ℕ) (dt : ℂ) (lam : Spec) (M : ℕ) (r : ℂ) (N : Spec → Spec) (u : Spec) :
    etdrkStep p dt lam M r N u
      = etdrkStep p 1 (fun ch h => dt * lam ch h) M r (fun v => (fun _ _ => dt) * N v) u := by
  have hc := fun ch h => coef_scaling dt (lam ch h) r M
  have hE : (fun ch h => exp_term dt (lam ch h)) = (fun ch h => exp_term 1 (dt * lam ch h)) := by
    funext ch h; exact C13_exp_term_scaling dt (lam ch h)
  have hs := C13_step_scaling (V := Spec) (fun _ _ => dt) (fun ch h => exp_term 1 (dt * lam ch h))
  match p with
  | 0 => simp only [etdrkStep, hE]
  | 1 =>
    simp only [etdrkStep]
    rw [hE, show (fun ch h => E1_coef_1 dt (lam ch h) M r)
        = (fun _ _ => dt) * (fun ch h => E1_coef_1 1 (dt * lam ch h) M r) from by
      funext ch h; exact (hc ch h).1]
    exact (hs 0 _ 0 0 0 0 0 N u).1
  | 2 =>
    simp only [etdrkStep]
    rw [hE, show (fun ch h => E2_coef_1 dt (lam ch h) M r)
        = (fun _ _ => dt) * (fun ch h => E2_coef_1 1 (dt * lam ch h) M r) from by
      funext ch h; exact (hc ch h).2.1,
      show (fun ch h => E2_coef_2 dt (lam ch h) M r)
        = (fun _ _ => dt) * (fun ch h => E2_coef_2 1 (dt * lam ch h) M r) from by
      funext ch h; exact (hc ch h).2.2.1]
    exact (hs 0 _ _ 0 0 0 0 N u).2.1
  | 3 =>
    simp only [etdrkStep]
    rw [hE, show (fun ch h => E3_half_exp_term dt (lam ch h) M r)
        = (fun ch h => E3_half_exp_term 1 (dt * lam ch h) M r) from by
      funext ch h; exact E3_half_exp_term_scaling dt (lam ch h) r M,
      show (fun ch h => E3_coef_1 dt (lam ch h) M r)
        = (fun _ _ => dt) * (fun ch h => E3_coef_1 1 (dt * lam ch h) M r) from by
      funext ch h; exact (hc ch h).2.2.2.1,
      show (fun ch h => E3_coef_2 dt (lam ch h) M r)
        = (fun _ _ => dt) * (fun ch h => E3_coef_2 1 (dt * lam ch h) M r) from by
      funext ch h; exact (hc ch h).2.2.2.2.1,
      show (fun ch h => E3_coef_3 dt (lam ch h) M r)
        = (fun _ _ => dt) * (fun ch h => E3_coef_3 1 (dt * lam ch h) M r) from by
      funext ch h; exact (hc ch h).2.2.2.2.2.1,
      show (fun ch h => E3_coef_4 dt (lam ch h) M r)
        = (fun _ _ => dt) * (fun ch h => E3_coef_4 1 (dt * lam ch h) M r) from by
      funext ch h; exact (hc ch h).2.2.2.2.2.2.1,
      show (fun ch h => E3_coef_5 dt (lam ch h) M r)
        = (fun _ _ => dt) * (fun ch h => E3_coef_5 1 (dt * lam ch h) M r) from by
      funext ch h; exact (hc ch h).2.2.2.2.2.2.2.1]
    exact (hs _ _ _ _ _ _ 0 N u).2.2.1
  | 4 =>
    simp only [etdrkStep]
    rw [hE, show (fun ch h => E4_half_exp_term dt (lam ch h) M r)
        = (fun ch h => E4_half_exp_term 1 (dt * lam ch h) M r) from by
      funext ch h; exact E4_half_exp_term_scaling dt (lam ch h) r M,
      show (fun ch h => E4_coef_1 dt (lam ch h) M r)
        = (fun _ _ => dt) * (fun ch h => E4_coef_1 1 (dt * lam ch h) M r) from by
      funext ch h; exact (hc ch h).2.2.2.2.2.2.2.2.1,
      show (fun ch h => E4_coef_2 dt (lam ch h) M r)
        = (fun _ _ => dt) * (fun ch h => E4_coef_2 1 (dt * lam ch h) M r) from by
      funext ch h; exact (hc ch h).2.2.2.2.2.2.2.2.2.1,
      show (fun ch h => E4_coef_3 dt (lam ch h) M r)
        = (fun _ _ => dt) * (fun ch h => E4_coef_3 1 (dt * lam ch h) M r) from by
      funext ch h; exact (hc ch h).2.2.2.2.2.2.2.2.2.2.1,
      show (fun ch h => E4_coef_4 dt (lam ch h) M r)
        = (fun _ _ => dt) * (fun ch h => E4_coef_4 1 (dt * lam ch h) M r) from by
      funext ch h; exact (hc ch h).2.2.2.2.2.2.2.2.2.2.2.1,
      show (fun ch h => E4_coef_5 dt (lam ch h) M r)
        = (fun _ _ => dt) * (fun ch h => E4_coef_5 1 (dt * lam ch h) M r) from by
      funext ch h; exact (hc ch h).2.2.2.2.2.2.2.2.2.2.2.2.1,
      show (fun ch h => E4_coef_6 dt (lam ch h) M r)
        = (fun _ _ => dt) * (fun ch h => E4_coef_6 1 (dt * lam ch h) M r) from by
      funext ch h; exact (hc ch h).2.2.2.2.2.2.2.2.2.2.2.2.2]
    exact (hs _ _ _ _ _ _ _ N u).2.2.2
  | (n + 5) => rfl

/-- **T2 (abstract normalisation), whole spectrum.**  If `dt·λ_L = λ_1` entrywise and `dt·N_L = N_1` pointwise, the
    step `(dt, λ_L, N_L)` is the step `(1, λ_1, N_1)`. -/
theorem etdrkStep_normalize (p : ℕ) (dt : ℂ) (lamL lam1 : Spec) (M : ℕ) (r : ℂ) (NL N1 : Spec → Spec)
    (hlam : ∀ ch h, dt * lamL ch h = lam1 ch h) (hN : ∀ v ch h, dt * NL v ch h = N1 v ch h) (u : Spec) :
    etdrkStep p dt lamL M r NL u = etdrkStep p 1 lam1 M r N1 u := by
  rw [etdrkStep_rescale]
  have e1 : (fun ch h => dt * lamL ch h) = lam1 := by funext ch h; exact hlam ch h
  have e2 : (fun v => (fun _ _ => dt) * NL v) = N1 := by funext v ch h; exact hN v ch h
  rw [e1, e2]

/-- the same for a single mode -/
theorem etdrkMode_normalize (p : ℕ) (dt lamL lam1 : ℂ) (M : ℕ) (r : ℂ) (NL N1 : ℂ → ℂ)
    (hlam : dt * lamL = lam1) (hN : ∀ v, dt * NL v = N1 v) (u : ℂ) :
    etdrkMode p dt lamL M r NL u = etdrkMode p 1 lam1 M r N1 u := by
  rw [etdrkMode_rescale, hlam]
  have e2 : (fun v => dt * NL v) = N1 := by funext v; exact hN v
  rw [e2]

/-- non-vacuity of the hypotheses of `etdrkStep_normalize` / `etdrkMode_normalize` -/
example : ∃ (dt : ℂ) (lamL lam1 : Spec) (NL N1 : Spec → Spec),
    (∀ ch h, dt * lamL ch h = lam1 ch h) ∧ (∀ v ch h, dt * NL v ch h = N1 v ch h) :=
  ⟨2, fun _ _ => 1, fun _ _ => 2, fun v => v, fun v ch h => 2 * v ch h, fun _ _ => by norm_num, fun _ _ _ => rfl⟩

example : ∃ (dt lamL lam1 : ℂ) (NL N1 : ℂ → ℂ), dt * lamL = lam1 ∧ ∀ v, dt * NL v = N1 v :=
  ⟨2, 1, 2, fun v => v * v, fun v => 2 * (v * v), by norm_num, fun _ => rfl⟩

end Exponax.Interface
